// HOOK REQUEST #3 (C16/C17 owner) — steps 1 (segments), 4 and 5 of grisubal.
//
// Insert the items below INSIDE `pub mod verif { … }` of /repo/honeycomb-kernels/src/grisubal/mod.rs (the module is
// already `#[cfg(honeycomb_verif)]`), after `intersection_darts`.  Nothing outside that module changes.  The existing
// imports of the module (`CMap2`, `DartIdType`, `CoordsFloat`, `Vertex2`, `Geometry2`) are enough; the crate-private
// types `GeometryVertex`, `MapEdge`, `Segments` are named by path.
//
// Plain forms:
//   GeometryVertex  ->  (u8, usize):  (0, i) Regular(i) · (1, i) PoI(i) · (2, i) Intersec(i) · (3, d) IntersecCorner(d)
//   Segments (HashMap<GeometryVertex, GeometryVertex>)  ->  Vec<((u8, usize), (u8, usize))>  in the map's iteration order
//   MapEdge { start, intermediates, end }  ->  (DartIdType, Vec<Vertex2<T>>, DartIdType)

    fn plain_vertex(v: &super::model::GeometryVertex) -> (u8, usize) {
        use super::model::GeometryVertex;
        match v {
            GeometryVertex::Regular(i) => (0, *i),
            GeometryVertex::PoI(i) => (1, *i),
            GeometryVertex::Intersec(i) => (2, *i),
            GeometryVertex::IntersecCorner(d) => (3, *d as usize),
        }
    }

    #[allow(clippy::cast_possible_truncation)]
    fn geometry_vertex(v: (u8, usize)) -> super::model::GeometryVertex {
        use super::model::GeometryVertex;
        match v {
            (0, i) => GeometryVertex::Regular(i),
            (1, i) => GeometryVertex::PoI(i),
            (2, i) => GeometryVertex::Intersec(i),
            (3, d) => GeometryVertex::IntersecCorner(d as DartIdType),
            _ => panic!("E: invalid plain geometry vertex"),
        }
    }

    /// Verification hook: the segments (`new_segments`) computed by the intersection step, as pairs of plain vertices
    /// (`(0, i)` regular vertex, `(1, i)` point of interest, `(2, i)` intersection, `(3, d)` corner intersection), in the
    /// iteration order of the underlying map.
    pub fn segments<T: CoordsFloat>(
        cmap: &CMap2<T>,
        geometry: &Geometry2<T>,
        n_cells: [usize; 2],
        cell_sizes: [T; 2],
        origin: Vertex2<T>,
    ) -> Vec<((u8, usize), (u8, usize))> {
        super::routines::generate_intersection_data(cmap, geometry, n_cells, cell_sizes, origin)
            .0
            .iter()
            .map(|(k, v)| (plain_vertex(k), plain_vertex(v)))
            .collect()
    }

    /// Verification hook: the `generate_edge_data` step. Segments are given as pairs of plain vertices (see
    /// [`segments`]); each edge is returned as `(start dart, intermediate points, end dart)`, in the order the routine
    /// produces them.
    pub fn edge_data<T: CoordsFloat>(
        cmap: &CMap2<T>,
        geometry: &Geometry2<T>,
        new_segments: &[((u8, usize), (u8, usize))],
        intersection_darts: &[DartIdType],
    ) -> Vec<(DartIdType, Vec<Vertex2<T>>, DartIdType)> {
        let new_segments: super::routines::Segments = new_segments
            .iter()
            .map(|(k, v)| (geometry_vertex(*k), geometry_vertex(*v)))
            .collect();
        super::routines::generate_edge_data(cmap, geometry, &new_segments, intersection_darts)
            .into_iter()
            .map(|e| (e.start, e.intermediates, e.end))
            .collect()
    }

    /// Verification hook: the `insert_edges_in_map` step, edges given as `(start dart, intermediate points, end dart)`.
    pub fn insert_edges<T: CoordsFloat>(
        cmap: &mut CMap2<T>,
        edges: &[(DartIdType, Vec<Vertex2<T>>, DartIdType)],
    ) {
        let edges: Vec<super::model::MapEdge<T>> = edges
            .iter()
            .map(|(start, intermediates, end)| super::model::MapEdge {
                start: *start,
                intermediates: intermediates.clone(),
                end: *end,
            })
            .collect();
        super::routines::insert_edges_in_map(cmap, &edges);
    }

// Notes for the reviewer:
//  * `super::routines::Segments` is `pub type` inside the `pub(crate) mod routines` — reachable from `verif`.
//  * `super::model::{GeometryVertex, MapEdge}` are `pub` items of the `pub(crate) mod model`; `MapEdge`'s fields are `pub`.
//  * `Vertex2<T>` is `Copy`/`Clone` (it is cloned through `Vec::clone`).
//  * `generate_edge_data` takes `&Segments` (a `&HashMap`): `edge_data` rebuilds the map from the pairs, so the order of its
//    result is the iteration order of THAT map (unspecified) — the model takes the order as a parameter and the tie reads it
//    off the result.
//  * If `DartIdType` is not `u32`, `*d as usize` / `d as DartIdType` still compile (integer casts); clippy may want the
//    `#[allow(clippy::cast_possible_truncation)]` on `plain_vertex` too.
