//! `hcrender` — drives the scene extraction of `honeycomb-render` (property C20) through the line
//! protocol of /verif/notes/BUILDING.md.  One input line = one operation, one output line per input
//! line; `#` lines and blank lines are echoed.
//!
//! Map-building subset of the protocol (same answers as `hcimpl` / `hcmodel`; attribute storages
//! are not registered — C20 cases use mask 0):
//!   `new d n mask` · `load d n mask b0.. ; b1.. ; b2.. [; b3..] ; u..` · `setb i d v` ·
//!   `link|unlink|sew|unsew i l [r]` and the `f…` forms (one transaction each) · `add k` `ins` `rm d` ·
//!   `wv d x y [z]` `rv d` `xv d` · `iterv itere iterf itervol` · `snap`
//! and the command of this harness:
//!   `scene` — a headless `bevy::app::App` (`MinimalPlugins` only) gets the map as the `Map`/`Map3`
//!   resource and the start-up system `extract_data_from_map::<f64>` / `extract_data_from_3d_map::<f64>`;
//!   after one `update()` every entity and resource the system produced is printed on one canonical
//!   line (see `scene_line`).  A panic of the system prints `panic`.

use std::io::{BufRead, BufWriter, Write};
use std::panic::{catch_unwind, AssertUnwindSafe};

use bevy::app::{App, Startup};
use bevy::prelude::{Vec3, World};
use bevy::MinimalPlugins;
use honeycomb_core::cmap::{CMap2, CMap3, CMapBuilder, DartIdType, LinkError, SewError};
use honeycomb_core::geometry::{Vertex2, Vertex3};
use honeycomb_render::{components, resources, systems};

// ------------------------------------------------------------------------------------------------
// canonical text (must match Honeycomb/Model/Session.lean and SessionScene.lean)
// ------------------------------------------------------------------------------------------------

/// exact rational text of an f64: `num` or `num/den` (den a power of two)
fn rat(x: f64) -> String {
    if x.is_nan() {
        return "nan".into();
    }
    if x.is_infinite() {
        return if x > 0.0 { "inf".into() } else { "-inf".into() };
    }
    if x == 0.0 {
        return "0".into();
    }
    let bits = x.to_bits();
    let neg = (bits >> 63) != 0;
    let e = ((bits >> 52) & 0x7ff) as i64;
    let frac = bits & ((1u64 << 52) - 1);
    let (mut m, mut ex) = if e == 0 { (frac as u128, -1074i64) } else { ((frac | (1u64 << 52)) as u128, e - 1075) };
    while m % 2 == 0 && ex < 0 {
        m /= 2;
        ex += 1;
    }
    if ex >= 0 {
        if ex > 60 {
            return format!("bits:{bits:016x}");
        }
        format!("{}{}", if neg { "-" } else { "" }, m << ex)
    } else {
        if -ex > 100 {
            return format!("bits:{bits:016x}");
        }
        format!("{}{}/{}", if neg { "-" } else { "" }, m, 1u128 << (-ex))
    }
}

fn parse_rat(s: &str) -> Option<f64> {
    let mut it = s.split('/');
    let a: f64 = it.next()?.parse::<i64>().ok()? as f64;
    match it.next() {
        None => Some(a),
        Some(b) => {
            let b: f64 = b.parse::<u64>().ok()? as f64;
            if b == 0.0 { None } else { Some(a / b) }
        }
    }
}

fn link_err(e: &LinkError) -> String {
    match e {
        LinkError::NonFreeBase(i, l, r) => format!("err NonFreeBase {i} {l} {r}"),
        LinkError::NonFreeImage(i, l, r) => format!("err NonFreeImage {i} {l} {r}"),
        LinkError::AlreadyFree(i, l) => format!("err AlreadyFree {i} {l}"),
        LinkError::AsymmetricalFaces(l, r) => format!("err AsymmetricalFaces {l} {r}"),
    }
}

fn sew_err(e: &SewError) -> String {
    use honeycomb_core::attributes::AttributeError;
    match e {
        SewError::BadGeometry(i, l, r) => format!("err BadGeometry {i} {l} {r}"),
        SewError::FailedLink(e) => link_err(e),
        SewError::FailedAttributeOp(e) => match e {
            AttributeError::FailedMerge(..) => "err FailedMerge".into(),
            AttributeError::FailedSplit(..) => "err FailedSplit".into(),
            AttributeError::InsufficientData(..) => "err InsufficientData".into(),
        },
    }
}

fn show_l(r: Result<(), LinkError>) -> String {
    match r {
        Ok(()) => "ok".into(),
        Err(e) => link_err(&e),
    }
}

fn show_s(r: Result<(), SewError>) -> String {
    match r {
        Ok(()) => "ok".into(),
        Err(e) => sew_err(&e),
    }
}

fn pt2(v: Option<Vertex2<f64>>) -> String {
    match v {
        None => "none".into(),
        Some(v) => format!("({},{},0)", rat(v.x()), rat(v.y())),
    }
}

fn pt3(v: Option<Vertex3<f64>>) -> String {
    match v {
        None => "none".into(),
        Some(v) => format!("({},{},{})", rat(v.x()), rat(v.y()), rat(v.z())),
    }
}

fn nats(v: impl IntoIterator<Item = DartIdType>) -> String {
    v.into_iter().map(|d| d.to_string()).collect::<Vec<_>>().join(" ")
}

fn ok_list(s: String) -> String {
    if s.is_empty() { "ok".into() } else { format!("ok {s}") }
}

fn d(s: &str) -> Option<DartIdType> {
    s.parse().ok()
}

// ------------------------------------------------------------------------------------------------
// the scene dump
// ------------------------------------------------------------------------------------------------

fn vec3_exact(v: Vec3) -> String {
    // f32 -> f64 is exact
    format!("({},{},{})", rat(f64::from(v.x)), rat(f64::from(v.y)), rat(f64::from(v.z)))
}

fn vec3_dec(v: Vec3) -> String {
    // shortest decimal text that round-trips the f32 (`NaN`, `inf` for non-finite values)
    format!("({},{},{})", v.x, v.y, v.z)
}

fn unit_ok(v: Vec3) -> bool {
    v.x.is_finite() && v.y.is_finite() && v.z.is_finite() && (v.length() - 1.0).abs() < 1e-4
}

/// One canonical line:
/// `scene n=<#entities> | T: (x,y,z).. | V: id:row.. | E: id:r0,r1.. | F: id:r0,r1,...  | D: d:v:e:f:vol:start:end..
///  | FN: face,row.. | VN: vol,row.. (or `none`) | nok=<bool> || FNV: face,row=(x,y,z).. | VNV: ..`
/// Everything before ` || ` is discrete (and printed identically by the model, which prints
/// `nok=true`); the vectors after it are checked by the Python oracle only.
fn scene_line(world: &mut World) -> String {
    let n_entities = world.entities().len();
    let table: Vec<Vec3> = match world.get_resource::<resources::MapVertices>() {
        Some(t) => t.0.clone(),
        None => return "scene missing-MapVertices".into(),
    };
    let mut vs: Vec<(u32, usize)> = vec![];
    let mut q = world.query::<(&components::VertexId, &components::Vertex)>();
    for (id, v) in q.iter(world) {
        vs.push((id.0, v.0));
    }
    vs.sort();
    let mut es: Vec<(u32, usize, usize)> = vec![];
    let mut q = world.query::<(&components::EdgeId, &components::Edge)>();
    for (id, e) in q.iter(world) {
        es.push((id.0, e.0, e.1));
    }
    es.sort();
    let mut fs: Vec<(u32, Vec<usize>)> = vec![];
    let mut q = world.query::<(&components::FaceId, &components::Face)>();
    for (id, f) in q.iter(world) {
        fs.push((id.0, f.0.clone()));
    }
    fs.sort();
    let mut ds: Vec<[usize; 7]> = vec![];
    let mut q = world.query::<(
        &components::DartId,
        &components::VertexId,
        &components::EdgeId,
        &components::FaceId,
        &components::VolumeId,
        &components::Dart,
    )>();
    for (id, v, e, f, vol, dart) in q.iter(world) {
        ds.push([id.0 as usize, v.0 as usize, e.0 as usize, f.0 as usize, vol.0 as usize, dart.verif_start(), dart.verif_end()]);
    }
    ds.sort();
    let mut nok = true;
    let mut fnv: Vec<((u32, usize), Vec3)> = match world.get_resource::<resources::FaceNormals>() {
        Some(r) => r.0.iter().map(|(k, v)| (*k, *v)).collect(),
        None => return "scene missing-FaceNormals".into(),
    };
    fnv.sort_by_key(|(k, _)| *k);
    let vnv: Option<Vec<((u32, usize), Vec3)>> = world.get_resource::<resources::VolumeNormals>().map(|r| {
        let mut v: Vec<_> = r.0.iter().map(|(k, v)| (*k, *v)).collect();
        v.sort_by_key(|(k, _)| *k);
        v
    });
    for (_, v) in fnv.iter().chain(vnv.iter().flatten()) {
        if !unit_ok(*v) {
            nok = false;
        }
    }
    let join = |v: Vec<String>| v.join(" ");
    let keys = |v: &[((u32, usize), Vec3)]| join(v.iter().map(|((a, b), _)| format!("{a},{b}")).collect());
    let vecs = |v: &[((u32, usize), Vec3)]| join(v.iter().map(|((a, b), n)| format!("{a},{b}={}", vec3_dec(*n))).collect());
    let parts = [
        format!("n={n_entities}"),
        format!("T: {}", join(table.iter().map(|v| vec3_exact(*v)).collect())),
        format!("V: {}", join(vs.iter().map(|(i, r)| format!("{i}:{r}")).collect())),
        format!("E: {}", join(es.iter().map(|(i, a, b)| format!("{i}:{a},{b}")).collect())),
        format!(
            "F: {}",
            join(fs.iter().map(|(i, r)| format!("{i}:{}", r.iter().map(|x| x.to_string()).collect::<Vec<_>>().join(","))).collect())
        ),
        format!("D: {}", join(ds.iter().map(|x| x.iter().map(|y| y.to_string()).collect::<Vec<_>>().join(":")).collect())),
        format!("FN: {}", keys(&fnv)),
        format!("VN: {}", match &vnv { Some(v) => keys(v), None => "none".into() }),
        format!("nok={nok}"),
    ];
    let tail = [
        format!("FNV: {}", vecs(&fnv)),
        format!("VNV: {}", match &vnv { Some(v) => vecs(v), None => "none".into() }),
    ];
    // single spaces only (empty lists leave `X: ` + separator)
    let s = format!("scene {} || {}", parts.join(" | "), tail.join(" | "));
    s.split_ascii_whitespace().collect::<Vec<_>>().join(" ")
}

fn headless_app() -> App {
    let mut app = App::new();
    app.add_plugins(MinimalPlugins);
    app
}

fn scene2(map: CMap2<f64>) -> (Option<CMap2<f64>>, String) {
    let mut app = headless_app();
    app.insert_resource(resources::Map(map));
    app.add_systems(Startup, systems::extract_data_from_map::<f64>);
    let r = catch_unwind(AssertUnwindSafe(|| app.update()));
    let out = match r {
        Ok(()) => catch_unwind(AssertUnwindSafe(|| scene_line(app.world_mut()))).unwrap_or_else(|_| "scene dump-panic".into()),
        Err(_) => "panic".into(),
    };
    let back = catch_unwind(AssertUnwindSafe(|| app.world_mut().remove_resource::<resources::Map<f64>>())).ok().flatten();
    (back.map(|m| m.0), out)
}

fn scene3(map: CMap3<f64>) -> (Option<CMap3<f64>>, String) {
    let mut app = headless_app();
    app.insert_resource(resources::Map3(map));
    app.add_systems(Startup, systems::extract_data_from_3d_map::<f64>);
    let r = catch_unwind(AssertUnwindSafe(|| app.update()));
    let out = match r {
        Ok(()) => catch_unwind(AssertUnwindSafe(|| scene_line(app.world_mut()))).unwrap_or_else(|_| "scene dump-panic".into()),
        Err(_) => "panic".into(),
    };
    let back = catch_unwind(AssertUnwindSafe(|| app.world_mut().remove_resource::<resources::Map3<f64>>())).ok().flatten();
    (back.map(|m| m.0), out)
}

// ------------------------------------------------------------------------------------------------
// sessions
// ------------------------------------------------------------------------------------------------

enum Sess {
    None,
    D2(CMap2<f64>),
    D3(CMap3<f64>),
}

/// `fmt::Write` sink used to read the `[UNUSED]` section of `CMap3::serialize` (the only public
/// access to the removal flags of a 3-map); refuses the `[VERTICES]` header so that `serialize` stops.
struct UnusedSink<'a>(&'a mut String);

impl std::fmt::Write for UnusedSink<'_> {
    fn write_str(&mut self, s: &str) -> std::fmt::Result {
        if s.contains("[VERTICES]") {
            return Err(std::fmt::Error);
        }
        self.0.push_str(s);
        Ok(())
    }
}

fn unused_flags3(map: &CMap3<f64>) -> Vec<bool> {
    let n = map.n_darts();
    let mut buf = String::new();
    let _ = catch_unwind(AssertUnwindSafe(|| map.serialize(UnusedSink(&mut buf))));
    let mut flags = vec![false; n];
    let mut lines = buf.lines();
    for l in lines.by_ref() {
        if l.trim() == "[UNUSED]" {
            break;
        }
    }
    if let Some(l) = lines.next() {
        for t in l.split_ascii_whitespace() {
            if let Ok(i) = t.parse::<usize>() {
                if i < n {
                    flags[i] = true;
                }
            }
        }
    }
    flags
}

fn snap2(m: &CMap2<f64>) -> String {
    let n = m.n_darts() as DartIdType;
    let parts = [
        format!("b0: {}", nats((0..n).map(|x| m.beta::<0>(x)))),
        format!("b1: {}", nats((0..n).map(|x| m.beta::<1>(x)))),
        format!("b2: {}", nats((0..n).map(|x| m.beta::<2>(x)))),
        format!("u: {}", nats((0..n).map(|x| u32::from(m.is_unused(x))))),
        format!("a0: {}", (0..n).map(|x| pt2(m.force_read_vertex(x))).collect::<Vec<_>>().join(" ")),
    ];
    format!("snap n={} | {}", n, parts.join(" | "))
}

fn snap3(m: &CMap3<f64>) -> String {
    let n = m.n_darts() as DartIdType;
    let un = unused_flags3(m);
    let parts = [
        format!("b0: {}", nats((0..n).map(|x| m.beta::<0>(x)))),
        format!("b1: {}", nats((0..n).map(|x| m.beta::<1>(x)))),
        format!("b2: {}", nats((0..n).map(|x| m.beta::<2>(x)))),
        format!("b3: {}", nats((0..n).map(|x| m.beta::<3>(x)))),
        format!("u: {}", nats((0..n).map(|x| u32::from(un[x as usize])))),
        format!("a0: {}", (0..n).map(|x| pt3(m.force_read_vertex(x))).collect::<Vec<_>>().join(" ")),
    ];
    format!("snap n={} | {}", n, parts.join(" | "))
}

fn step2(m: &mut CMap2<f64>, toks: &[&str]) -> Option<String> {
    Some(match toks {
        ["link" | "flink", "1", l, r] => show_l(m.force_link::<1>(d(l)?, d(r)?)),
        ["link" | "flink", "2", l, r] => show_l(m.force_link::<2>(d(l)?, d(r)?)),
        ["unlink" | "funlink", "1", l] => show_l(m.force_unlink::<1>(d(l)?)),
        ["unlink" | "funlink", "2", l] => show_l(m.force_unlink::<2>(d(l)?)),
        ["sew" | "fsew", "1", l, r] => show_s(m.force_sew::<1>(d(l)?, d(r)?)),
        ["sew" | "fsew", "2", l, r] => show_s(m.force_sew::<2>(d(l)?, d(r)?)),
        ["unsew" | "funsew", "1", l] => show_s(m.force_unsew::<1>(d(l)?)),
        ["unsew" | "funsew", "2", l] => show_s(m.force_unsew::<2>(d(l)?)),
        ["link" | "flink" | "unlink" | "funlink" | "sew" | "fsew" | "unsew" | "funsew", ..] => panic!("bad dim"),
        ["setb", i, x, v] => {
            let (x, v) = (d(x)?, d(v)?);
            match *i {
                "0" => m.set_beta::<0>(x, v),
                "1" => m.set_beta::<1>(x, v),
                "2" => m.set_beta::<2>(x, v),
                _ => panic!(),
            }
            "ok".into()
        }
        ["add", k] => format!("ok {}", m.add_free_darts(k.parse::<usize>().ok()?)),
        ["ins"] => format!("ok {}", m.insert_free_dart()),
        ["rm", x] => {
            m.remove_free_dart(d(x)?);
            "ok".into()
        }
        ["wv", x, a, b] => format!("ok {}", pt2(m.force_write_vertex(d(x)?, (parse_rat(a)?, parse_rat(b)?)))),
        ["rv", x] => format!("ok {}", pt2(m.force_read_vertex(d(x)?))),
        ["xv", x] => format!("ok {}", pt2(m.force_remove_vertex(d(x)?))),
        ["iterv"] => ok_list(nats(m.iter_vertices())),
        ["itere"] => ok_list(nats(m.iter_edges())),
        ["iterf"] => ok_list(nats(m.iter_faces())),
        ["snap"] => snap2(m),
        _ => return None,
    })
}

fn step3(m: &mut CMap3<f64>, toks: &[&str]) -> Option<String> {
    Some(match toks {
        ["link" | "flink", "1", l, r] => show_l(m.force_link::<1>(d(l)?, d(r)?)),
        ["link" | "flink", "2", l, r] => show_l(m.force_link::<2>(d(l)?, d(r)?)),
        ["link" | "flink", "3", l, r] => show_l(m.force_link::<3>(d(l)?, d(r)?)),
        ["unlink" | "funlink", "1", l] => show_l(m.force_unlink::<1>(d(l)?)),
        ["unlink" | "funlink", "2", l] => show_l(m.force_unlink::<2>(d(l)?)),
        ["unlink" | "funlink", "3", l] => show_l(m.force_unlink::<3>(d(l)?)),
        ["sew" | "fsew", "1", l, r] => show_s(m.force_sew::<1>(d(l)?, d(r)?)),
        ["sew" | "fsew", "2", l, r] => show_s(m.force_sew::<2>(d(l)?, d(r)?)),
        ["sew" | "fsew", "3", l, r] => show_s(m.force_sew::<3>(d(l)?, d(r)?)),
        ["unsew" | "funsew", "1", l] => show_s(m.force_unsew::<1>(d(l)?)),
        ["unsew" | "funsew", "2", l] => show_s(m.force_unsew::<2>(d(l)?)),
        ["unsew" | "funsew", "3", l] => show_s(m.force_unsew::<3>(d(l)?)),
        ["link" | "flink" | "unlink" | "funlink" | "sew" | "fsew" | "unsew" | "funsew", ..] => panic!("bad dim"),
        ["setb", i, x, v] => {
            let (x, v) = (d(x)?, d(v)?);
            match *i {
                "0" => m.set_beta::<0>(x, v),
                "1" => m.set_beta::<1>(x, v),
                "2" => m.set_beta::<2>(x, v),
                "3" => m.set_beta::<3>(x, v),
                _ => panic!(),
            }
            "ok".into()
        }
        ["add", k] => format!("ok {}", m.add_free_darts(k.parse::<usize>().ok()?)),
        ["ins"] => format!("ok {}", m.insert_free_dart()),
        ["rm", x] => {
            m.remove_free_dart(d(x)?);
            "ok".into()
        }
        ["wv", x, a, b] => format!("ok {}", pt3(m.force_write_vertex(d(x)?, (parse_rat(a)?, parse_rat(b)?, 0.0)))),
        ["wv", x, a, b, c] => {
            format!("ok {}", pt3(m.force_write_vertex(d(x)?, (parse_rat(a)?, parse_rat(b)?, parse_rat(c)?))))
        }
        ["rv", x] => format!("ok {}", pt3(m.force_read_vertex(d(x)?))),
        ["xv", x] => format!("ok {}", pt3(m.force_remove_vertex(d(x)?))),
        ["iterv"] => ok_list(nats(m.iter_vertices())),
        ["itere"] => ok_list(nats(m.iter_edges())),
        ["iterf"] => ok_list(nats(m.iter_faces())),
        ["itervol"] => ok_list(nats(m.iter_volumes())),
        ["snap"] => snap3(m),
        _ => return None,
    })
}

fn load(toks: &[&str]) -> Option<Sess> {
    if toks.len() < 4 {
        return None;
    }
    let dim = toks[1].parse::<usize>().ok()?;
    let n = toks[2].parse::<usize>().ok()?;
    let _mask = toks[3].parse::<u32>().ok()?;
    if toks[0] == "new" {
        if toks.len() != 4 {
            return None;
        }
        return match dim {
            2 => Some(Sess::D2(CMapBuilder::<2, f64>::from_n_darts(n).build().unwrap())),
            3 => Some(Sess::D3(CMapBuilder::<3, f64>::from_n_darts(n).build().unwrap())),
            _ => None,
        };
    }
    let groups: Vec<Vec<u32>> =
        toks[4..].split(|t| *t == ";").map(|g| g.iter().filter_map(|t| t.parse().ok()).collect()).collect();
    if groups.len() != dim + 2 || groups.iter().any(|g| g.len() != n + 1) {
        return None;
    }
    match dim {
        2 => {
            let mut m = CMapBuilder::<2, f64>::from_n_darts(n).build().unwrap();
            for (x, u) in groups[3].iter().enumerate() {
                if *u != 0 {
                    m.remove_free_dart(x as u32);
                }
            }
            for x in 0..=n {
                m.set_betas(x as u32, [groups[0][x], groups[1][x], groups[2][x]]);
            }
            Some(Sess::D2(m))
        }
        3 => {
            let mut m = CMapBuilder::<3, f64>::from_n_darts(n).build().unwrap();
            for (x, u) in groups[4].iter().enumerate() {
                if *u != 0 {
                    m.remove_free_dart(x as u32);
                }
            }
            for x in 0..=n {
                m.set_betas(x as u32, [groups[0][x], groups[1][x], groups[2][x], groups[3][x]]);
            }
            Some(Sess::D3(m))
        }
        _ => None,
    }
}

fn step(sess: &mut Sess, toks: &[&str]) -> String {
    if toks[0] == "load" || toks[0] == "new" {
        return match load(toks) {
            Some(s) => {
                *sess = s;
                "ok".into()
            }
            None => "bad-op".into(),
        };
    }
    if toks == ["scene"] {
        return match std::mem::replace(sess, Sess::None) {
            Sess::None => "bad-op".into(),
            Sess::D2(m) => {
                let (back, out) = scene2(m);
                if let Some(m) = back {
                    *sess = Sess::D2(m);
                }
                out
            }
            Sess::D3(m) => {
                let (back, out) = scene3(m);
                if let Some(m) = back {
                    *sess = Sess::D3(m);
                }
                out
            }
        };
    }
    let r = match sess {
        Sess::None => None,
        Sess::D2(m) => step2(m, toks),
        Sess::D3(m) => step3(m, toks),
    };
    r.unwrap_or_else(|| "bad-op".into())
}

fn main() {
    std::panic::set_hook(Box::new(|_| {}));
    let stdin = std::io::stdin();
    let stdout = std::io::stdout();
    let mut out = BufWriter::with_capacity(1 << 20, stdout.lock());
    let mut sess = Sess::None;
    for line in stdin.lock().lines() {
        let line = line.unwrap();
        let t = line.trim();
        if t.is_empty() || t.starts_with('#') {
            writeln!(out, "{t}").unwrap();
            continue;
        }
        let toks: Vec<&str> = t.split_ascii_whitespace().collect();
        let res = match catch_unwind(AssertUnwindSafe(|| step(&mut sess, &toks))) {
            Ok(r) => r,
            Err(_) => "panic".to_string(),
        };
        writeln!(out, "{res}").unwrap();
    }
    out.flush().unwrap();
}
