//! `grisubal` / `capture_geometry` / `classify_capture` (C16, C17) on the line protocol.
//!
//! Geometry syntax (shared by `grisubal`, `capture`, `orient`):
//!   `<clip none|left|right> <cx> <cy> <nv> x0 y0 … <nseg> a0 b0 … <npoi> p0 …`
//! vertices as exact rationals, segments as index pairs (direction = order), points of interest
//! as vertex indices.  The public API only reads geometries from legacy VTK files, so the harness
//! writes one under the temp dir (ASCII, shortest round-trip decimals of the f64 values) and
//! hands the path over.
//!
//! * `grisubal …` -> `honeycomb_kernels::grisubal::grisubal`; `capture …` ->
//!   `remeshing::capture_geometry`.  Reply `ok` (the session then holds the resulting
//!   `CMap2<f64>`: `snap`, `wf`, `iterv` … work) / `err <GrisubalError variant> <message-slug>` /
//!   `panic` (caught in `main`).
//! * `orient <nv> <nseg> a0 b0 …` -> runs `grisubal` (no clipping) on the given segments with
//!   vertices in generic position; reply `err InconsistentOrientation in-boundary-inconsistency`
//!   iff that is the result, `ok` for every other outcome (the first routine after reading the
//!   file is `detect_orientation_issue`; everything later is answered `ok`).
//! * `gcross <cx> <cy> <ox> <oy> <nx> x1 y1 x2 y2` -> the vertices of the session map (normally the result of
//!   `grisubal none …`) that lie strictly inside the segment, in the order of the segment, as exact rationals
//!   (`ok n | x y | …`); the model answers with the crossings its `crossingsOf` computes.  `gchain …` (implementation
//!   only) -> `ok true` iff consecutive ones are joined by an edge of the map.
//! * `gcrossd <cx> <cy> <ox> <oy> <nx> <ny> x1 y1 x2 y2` -> `verif::intersection_data` (the real
//!   `generate_intersection_data`) for one segment on a fresh grid: `ok dart t ; dart t ; …` in identifier order, exact
//!   rationals of the f64 values (a slot left at `(0, NaN)` prints `0 nan`); answered by the model with `crossingsOf`.
//! * `ancinit` -> rebuilds the 2-D session map with the three anchor storages (public API only:
//!   builder + `set_betas` + `remove_free_dart` + `force_write_*`); storages 6, 7, 8 of `snap`.
//! * `bndinit` -> rebuilds the 2-D session map with the `Boundary` storage of the clip step (storage 9 of `snap`: 0 `None`,
//!   1 `Left`, 2 `Right`); `wbnd <dart> <L|R|N|->` -> `force_write_attribute::<Boundary>` / remove; `clip left|right` -> the real
//!   `clip_left` / `clip_right` (hook `grisubal::verif`): `ok` / `err InconsistentOrientation between-boundary-inconsistency` / `panic`.
//! * `wanchor v|e|f <id> <N|C|S|B><k>` -> `force_write_attribute`; `anchors` -> anchors of every
//!   vertex / edge / face id of in-use darts; `classify` -> `classify_capture`.
//!
//! Must match `Honeycomb/Model/SessionCapture.lean` for the commands the model answers
//! (`orient`, `ancinit`, `wanchor`, `anchors`, `classify`).

use std::sync::atomic::{AtomicUsize, Ordering};

use honeycomb_core::cmap::{CMap2, CMapBuilder, DartIdType};
use honeycomb_kernels::grisubal::verif::{Boundary, clip_left, clip_right, intersection_darts};
use honeycomb_kernels::grisubal::{Clip, GrisubalError, grisubal};
use honeycomb_kernels::remeshing::{ClassificationError, capture_geometry, classify_capture};
use honeycomb_kernels::utils::{EdgeAnchor, FaceAnchor, VertexAnchor};

use crate::attrs::{self, ETerm, FTerm, VDef, VTerm};
use crate::fmt::parse_rat;
use crate::{Sess, s2};

static COUNTER: AtomicUsize = AtomicUsize::new(0);

fn slug(s: &str) -> String {
    s.replace(' ', "-")
}

fn gris_err(e: &GrisubalError) -> String {
    match e {
        GrisubalError::InconsistentOrientation(m) => format!("err InconsistentOrientation {}", slug(m)),
        GrisubalError::InvalidShape(m) => format!("err InvalidShape {}", slug(m)),
        GrisubalError::BadVtkData(m) => format!("err BadVtkData {}", slug(m)),
        GrisubalError::UnsupportedVtkData(m) => format!("err UnsupportedVtkData {}", slug(m)),
    }
}

struct Geo {
    clip: String,
    cell: [f64; 2],
    verts: Vec<(f64, f64)>,
    segs: Vec<(usize, usize)>,
    poi: Vec<usize>,
}

/// plain `GeometryVertex` of the hook `(kind, id)` <-> `R3` / `P2` / `I5` / `C17`
fn gv_str(v: (u8, usize)) -> String {
    format!("{}{}", ["R", "P", "I", "C"][v.0 as usize & 3], v.1)
}

fn gv_parse(s: &str) -> Option<(u8, usize)> {
    let k = match s.as_bytes().first()? {
        b'R' => 0,
        b'P' => 1,
        b'I' => 2,
        b'C' => 3,
        _ => return None,
    };
    Some((k, s.get(1..)?.parse().ok()?))
}

fn clip_of(s: &str) -> Option<Clip> {
    Some(match s {
        "none" => Clip::None,
        "left" => Clip::Left,
        "right" => Clip::Right,
        _ => return None,
    })
}

fn parse_geo(t: &[&str]) -> Option<Geo> {
    let mut it = t.iter();
    let clip = (*it.next()?).to_string();
    clip_of(&clip)?;
    let cx = parse_rat(it.next()?)?;
    let cy = parse_rat(it.next()?)?;
    let nv: usize = it.next()?.parse().ok()?;
    let mut verts = Vec::with_capacity(nv);
    for _ in 0..nv {
        let x = parse_rat(it.next()?)?;
        let y = parse_rat(it.next()?)?;
        verts.push((x, y));
    }
    let ns: usize = it.next()?.parse().ok()?;
    let mut segs = Vec::with_capacity(ns);
    for _ in 0..ns {
        let a: usize = it.next()?.parse().ok()?;
        let b: usize = it.next()?.parse().ok()?;
        segs.push((a, b));
    }
    let np: usize = it.next()?.parse().ok()?;
    let mut poi = Vec::with_capacity(np);
    for _ in 0..np {
        poi.push(it.next()?.parse().ok()?);
    }
    if it.next().is_some() {
        return None;
    }
    Some(Geo { clip, cell: [cx, cy], verts, segs, poi })
}

/// legacy ASCII VTK, `Vertex` cells (type 1) = points of interest, `Line` cells (type 3) = segments
fn write_vtk(g: &Geo) -> std::path::PathBuf {
    use std::fmt::Write as _;
    let mut s = String::new();
    s.push_str("# vtk DataFile Version 2.0\nhcimpl geometry\nASCII\nDATASET UNSTRUCTURED_GRID\n");
    writeln!(s, "POINTS {} double", g.verts.len()).unwrap();
    for (x, y) in &g.verts {
        writeln!(s, "{x:?} {y:?} 0").unwrap();
    }
    let nc = g.poi.len() + g.segs.len();
    writeln!(s, "\nCELLS {} {}", nc, 2 * g.poi.len() + 3 * g.segs.len()).unwrap();
    for p in &g.poi {
        writeln!(s, "1 {p}").unwrap();
    }
    for (a, b) in &g.segs {
        writeln!(s, "2 {a} {b}").unwrap();
    }
    writeln!(s, "\nCELL_TYPES {nc}").unwrap();
    for _ in &g.poi {
        s.push_str("1\n");
    }
    for _ in &g.segs {
        s.push_str("3\n");
    }
    let k = COUNTER.fetch_add(1, Ordering::Relaxed);
    let path = std::env::temp_dir().join(format!("hcimpl-gris-{}-{k}.vtk", std::process::id()));
    std::fs::write(&path, s).expect("cannot write the temporary VTK file");
    path
}

struct TmpFile(std::path::PathBuf);
impl Drop for TmpFile {
    fn drop(&mut self) {
        let _ = std::fs::remove_file(&self.0);
    }
}

fn install(sess: &mut Sess, map: CMap2<f64>) {
    attrs::clear_terms();
    attrs::FAULT.with(|x| x.set(0));
    let mut s = s2::S2::new(0, 0);
    s.map = map;
    *sess = Sess::D2(s);
}

fn anchor_v(s: &str) -> Option<VertexAnchor> {
    let k: u32 = s.get(1..)?.parse().ok()?;
    Some(match s.as_bytes()[0] {
        b'N' => VertexAnchor::Node(k),
        b'C' => VertexAnchor::Curve(k),
        b'S' => VertexAnchor::Surface(k),
        b'B' => VertexAnchor::Body(k),
        _ => return None,
    })
}

fn anchor_e(s: &str) -> Option<EdgeAnchor> {
    let k: u32 = s.get(1..)?.parse().ok()?;
    Some(match s.as_bytes()[0] {
        b'C' => EdgeAnchor::Curve(k),
        b'S' => EdgeAnchor::Surface(k),
        b'B' => EdgeAnchor::Body(k),
        _ => return None,
    })
}

fn anchor_f(s: &str) -> Option<FaceAnchor> {
    let k: u32 = s.get(1..)?.parse().ok()?;
    Some(match s.as_bytes()[0] {
        b'S' => FaceAnchor::Surface(k),
        b'B' => FaceAnchor::Body(k),
        _ => return None,
    })
}

pub fn v_str(a: Option<VertexAnchor>) -> String {
    match a {
        None => "-".into(),
        Some(VertexAnchor::Node(k)) => format!("N{k}"),
        Some(VertexAnchor::Curve(k)) => format!("C{k}"),
        Some(VertexAnchor::Surface(k)) => format!("S{k}"),
        Some(VertexAnchor::Body(k)) => format!("B{k}"),
    }
}

pub fn e_str(a: Option<EdgeAnchor>) -> String {
    match a {
        None => "-".into(),
        Some(EdgeAnchor::Curve(k)) => format!("C{k}"),
        Some(EdgeAnchor::Surface(k)) => format!("S{k}"),
        Some(EdgeAnchor::Body(k)) => format!("B{k}"),
    }
}

pub fn f_str(a: Option<FaceAnchor>) -> String {
    match a {
        None => "-".into(),
        Some(FaceAnchor::Surface(k)) => format!("S{k}"),
        Some(FaceAnchor::Body(k)) => format!("B{k}"),
    }
}

/// the code used by `snap` (and by the model: `Val.tm (leaf code)`): `4*id + dimension`
pub fn v_code(a: Option<VertexAnchor>) -> String {
    match a {
        None => "none".into(),
        Some(VertexAnchor::Node(k)) => (4 * u64::from(k)).to_string(),
        Some(VertexAnchor::Curve(k)) => (4 * u64::from(k) + 1).to_string(),
        Some(VertexAnchor::Surface(k)) => (4 * u64::from(k) + 2).to_string(),
        Some(VertexAnchor::Body(k)) => (4 * u64::from(k) + 3).to_string(),
    }
}

pub fn e_code(a: Option<EdgeAnchor>) -> String {
    match a {
        None => "none".into(),
        Some(EdgeAnchor::Curve(k)) => (4 * u64::from(k) + 1).to_string(),
        Some(EdgeAnchor::Surface(k)) => (4 * u64::from(k) + 2).to_string(),
        Some(EdgeAnchor::Body(k)) => (4 * u64::from(k) + 3).to_string(),
    }
}

pub fn f_code(a: Option<FaceAnchor>) -> String {
    match a {
        None => "none".into(),
        Some(FaceAnchor::Surface(k)) => (4 * u64::from(k) + 2).to_string(),
        Some(FaceAnchor::Body(k)) => (4 * u64::from(k) + 3).to_string(),
    }
}

pub fn has_anchors(m: &CMap2<f64>) -> bool {
    m.contains_attribute::<VertexAnchor>() && m.contains_attribute::<EdgeAnchor>() && m.contains_attribute::<FaceAnchor>()
}

/// the `a6 | a7 | a8` groups of `snap`: one group per anchor storage the map contains
pub fn snap_parts(m: &CMap2<f64>) -> Vec<String> {
    let n = m.n_darts() as DartIdType;
    let mut parts = vec![];
    if m.contains_attribute::<VertexAnchor>() {
        parts.push(format!("a6: {}", (0..n).map(|x| v_code(m.force_read_attribute::<VertexAnchor>(x))).collect::<Vec<_>>().join(" ")));
    }
    if m.contains_attribute::<EdgeAnchor>() {
        parts.push(format!("a7: {}", (0..n).map(|x| e_code(m.force_read_attribute::<EdgeAnchor>(x))).collect::<Vec<_>>().join(" ")));
    }
    if m.contains_attribute::<FaceAnchor>() {
        parts.push(format!("a8: {}", (0..n).map(|x| f_code(m.force_read_attribute::<FaceAnchor>(x))).collect::<Vec<_>>().join(" ")));
    }
    if m.contains_attribute::<Boundary>() {
        parts.push(format!("a9: {}", (0..n).map(|x| bd_code(m.force_read_attribute::<Boundary>(x))).collect::<Vec<_>>().join(" ")));
    }
    parts
}

/// `Boundary` tag of a dart as the model encodes it: 0 `None`, 1 `Left`, 2 `Right`
pub fn bd_code(a: Option<Boundary>) -> String {
    match a {
        None => "none".into(),
        Some(Boundary::None) => "0".into(),
        Some(Boundary::Left) => "1".into(),
        Some(Boundary::Right) => "2".into(),
    }
}

/// same darts, betas, removal flags, vertices and attributes, plus the anchor storages (`anchors`) and / or the
/// `Boundary` storage of the clip step (`boundary`); storages the map already has are kept with their values
fn rebuild(s: &s2::S2, anchors: bool, boundary: bool) -> s2::S2 {
    let anchors = anchors || has_anchors(&s.map);
    let boundary = boundary || s.map.contains_attribute::<Boundary>();
    let old = &s.map;
    let n = old.n_darts();
    let mask = s.mask;
    let mut b = CMapBuilder::<2, f64>::from_n_darts(n - 1);
    if mask & 1 != 0 {
        b = b.add_attribute::<VTerm>();
    }
    if mask & 2 != 0 {
        b = b.add_attribute::<ETerm>();
    }
    if mask & 4 != 0 {
        b = b.add_attribute::<FTerm>();
    }
    if mask & 16 != 0 {
        b = b.add_attribute::<VDef>();
    }
    if anchors {
        b = b.add_attribute::<VertexAnchor>().add_attribute::<EdgeAnchor>().add_attribute::<FaceAnchor>();
    }
    if boundary {
        b = b.add_attribute::<Boundary>();
    }
    let mut map: CMap2<f64> = b.build().unwrap();
    for x in 1..n as DartIdType {
        if old.is_unused(x) {
            map.remove_free_dart(x);
        }
    }
    for x in 0..n as DartIdType {
        map.set_betas(x, [old.beta::<0>(x), old.beta::<1>(x), old.beta::<2>(x)]);
        if let Some(v) = old.force_read_vertex(x) {
            map.force_write_vertex(x, v);
        }
        if mask & 1 != 0 {
            if let Some(v) = old.force_read_attribute::<VTerm>(x) {
                map.force_write_attribute(x, v);
            }
        }
        if mask & 2 != 0 {
            if let Some(v) = old.force_read_attribute::<ETerm>(x) {
                map.force_write_attribute(x, v);
            }
        }
        if mask & 4 != 0 {
            if let Some(v) = old.force_read_attribute::<FTerm>(x) {
                map.force_write_attribute(x, v);
            }
        }
        if mask & 16 != 0 {
            if let Some(v) = old.force_read_attribute::<VDef>(x) {
                map.force_write_attribute(x, v);
            }
        }
        if has_anchors(old) {
            if let Some(v) = old.force_read_attribute::<VertexAnchor>(x) {
                map.force_write_attribute(x, v);
            }
            if let Some(v) = old.force_read_attribute::<EdgeAnchor>(x) {
                map.force_write_attribute(x, v);
            }
            if let Some(v) = old.force_read_attribute::<FaceAnchor>(x) {
                map.force_write_attribute(x, v);
            }
        }
        if old.contains_attribute::<Boundary>() {
            if let Some(v) = old.force_read_attribute::<Boundary>(x) {
                map.force_write_attribute(x, v);
            }
        }
    }
    let mut r = s2::S2::new(0, mask);
    r.map = map;
    r
}

fn anchors_line(m: &CMap2<f64>) -> String {
    let vs: Vec<String> = m.iter_vertices().map(|v| format!("{v}:{}", v_str(m.force_read_attribute::<VertexAnchor>(v)))).collect();
    let es: Vec<String> = m.iter_edges().map(|e| format!("{e}:{}", e_str(m.force_read_attribute::<EdgeAnchor>(e)))).collect();
    let fs: Vec<String> = m.iter_faces().map(|f| format!("{f}:{}", f_str(m.force_read_attribute::<FaceAnchor>(f)))).collect();
    format!("ok v {} | e {} | f {}", vs.join(" "), es.join(" "), fs.join(" "))
}

pub fn step(sess: &mut Sess, toks: &[&str]) -> Option<String> {
    match toks[0] {
        "grisubal" | "capture" | "grisubalv" => {
            let Some(g) = parse_geo(&toks[1..]) else { return Some("bad-op".into()) };
            let path = TmpFile(write_vtk(&g));
            let clip = clip_of(&g.clip).unwrap();
            let r = if toks[0] == "grisubal" {
                grisubal::<f64>(&path.0, g.cell, clip)
            } else if toks[0] == "grisubalv" {
                // diagnosis only: `grisubal` with the panic message in the reply
                match std::panic::catch_unwind(std::panic::AssertUnwindSafe(|| grisubal::<f64>(&path.0, g.cell, clip_of(&g.clip).unwrap()))) {
                    Ok(r) => r,
                    Err(e) => {
                        let msg = e.downcast_ref::<String>().cloned().or_else(|| e.downcast_ref::<&str>().map(|s| s.to_string())).unwrap_or_default();
                        return Some(format!("panic {}", msg.replace('\n', " ")));
                    }
                }
            } else {
                capture_geometry::<f64>(&path.0, g.cell, clip)
            };
            Some(match r {
                Ok(map) => {
                    install(sess, map);
                    "ok".into()
                }
                Err(e) => gris_err(&e),
            })
        }
        "orient" => {
            // orient <nv> <nseg> a b …
            let mut it = toks[1..].iter();
            let parse = |it: &mut std::slice::Iter<&str>| -> Option<usize> { it.next()?.parse().ok() };
            let Some(nv) = parse(&mut it) else { return Some("bad-op".into()) };
            let Some(ns) = parse(&mut it) else { return Some("bad-op".into()) };
            let mut segs = vec![];
            for _ in 0..ns {
                let (Some(a), Some(b)) = (parse(&mut it), parse(&mut it)) else { return Some("bad-op".into()) };
                if a >= nv || b >= nv {
                    return Some("bad-op".into());
                }
                segs.push((a, b));
            }
            if it.next().is_some() || nv == 0 {
                return Some("bad-op".into());
            }
            // generic positions: points of a strictly convex arc, pairwise distinct coordinates
            let verts: Vec<(f64, f64)> = (0..nv)
                .map(|i| {
                    let t = i as f64;
                    (0.3125 + 1.375 * t, 0.4375 + 0.8125 * t + 0.09375 * t * t)
                })
                .collect();
            let g = Geo { clip: "none".into(), cell: [1.0, 1.0], verts, segs, poi: vec![] };
            let path = TmpFile(write_vtk(&g));
            let r = std::panic::catch_unwind(std::panic::AssertUnwindSafe(|| grisubal::<f64>(&path.0, g.cell, Clip::None)));
            Some(match r {
                Ok(Err(GrisubalError::InconsistentOrientation("in-boundary inconsistency"))) => {
                    "err InconsistentOrientation in-boundary-inconsistency".into()
                }
                _ => "ok".into(),
            })
        }
        "gcrossd" => {
            // gcrossd <cx> <cy> <ox> <oy> <nx> <ny> x1 y1 x2 y2: step 1 of the kernel itself (verification hook
            // `grisubal::verif::intersection_data`) for the single segment (x1,y1) -> (x2,y2) on a fresh nx x ny grid:
            // the (dart, t) pairs in identifier order
            if toks.len() != 11 {
                return Some("bad-op".into());
            }
            let mut v = [0.0f64; 8];
            for (k, i) in [1usize, 2, 3, 4, 7, 8, 9, 10].iter().enumerate() {
                let Some(x) = parse_rat(toks[*i]) else { return Some("bad-op".into()) };
                v[k] = x;
            }
            let (Ok(nx), Ok(ny)) = (toks[5].parse::<usize>(), toks[6].parse::<usize>()) else { return Some("bad-op".into()) };
            let gd = honeycomb_core::cmap::GridDescriptor::<2, f64>::default()
                .n_cells([nx, ny])
                .len_per_cell([v[0], v[1]])
                .origin([v[2], v[3]]);
            let Ok(map) = CMapBuilder::<2, f64>::from_grid_descriptor(gd).build() else { return Some("bad-op".into()) };
            let geometry = honeycomb_kernels::grisubal::verif::Geometry2 {
                vertices: vec![honeycomb_core::geometry::Vertex2(v[4], v[5]), honeycomb_core::geometry::Vertex2(v[6], v[7])],
                segments: vec![(0, 1)],
                poi: vec![],
            };
            let data = honeycomb_kernels::grisubal::verif::intersection_data(
                &map,
                &geometry,
                [nx, ny],
                [v[0], v[1]],
                honeycomb_core::geometry::Vertex2(v[2], v[3]),
            );
            let parts: Vec<String> = data.iter().map(|(d, t)| format!("{d} {}", crate::fmt::rat(*t))).collect();
            Some(if parts.is_empty() { "ok".into() } else { format!("ok {}", parts.join(" ; ")) })
        }
        "gcross" | "gchain" => {
            // gcross|gchain <cx> <cy> <ox> <oy> <nx> x1 y1 x2 y2: the grid arguments are for the model (which has no
            // map); here the answer is read off the map the real kernel returned
            let Sess::D2(s) = sess else { return Some("bad-op".into()) };
            if toks.len() != 10 {
                return Some("bad-op".into());
            }
            let mut v = [0.0f64; 4];
            for k in 0..4 {
                let Some(x) = parse_rat(toks[6 + k]) else { return Some("bad-op".into()) };
                v[k] = x;
            }
            let m = &s.map;
            let (ax, ay, bx, by) = (v[0], v[1], v[2], v[3]);
            let (dx, dy) = (bx - ax, by - ay);
            let l2 = dx * dx + dy * dy;
            let len = l2.sqrt();
            let mut on: Vec<(f64, u32, f64, f64)> = vec![];
            for vid in m.iter_vertices() {
                let Some(p) = m.force_read_vertex(vid) else { continue };
                let (px, py) = (p.x() - ax, p.y() - ay);
                let sp = (px * dx + py * dy) / l2;
                let dist = (px * dy - py * dx).abs() / len;
                if dist <= 1e-9 * len.max(1.0) && sp > 1e-12 && sp < 1.0 - 1e-12 {
                    on.push((sp, vid, p.x(), p.y()));
                }
            }
            on.sort_by(|a, b| a.0.partial_cmp(&b.0).unwrap());
            if toks[0] == "gcross" {
                let pts: Vec<String> = on.iter().map(|(_, _, x, y)| format!("{} {}", crate::fmt::rat(*x), crate::fmt::rat(*y))).collect();
                Some(if pts.is_empty() { "ok 0".into() } else { format!("ok {} | {}", pts.len(), pts.join(" | ")) })
            } else {
                // consecutive vertices of the segment are joined by an edge of the map running along the segment
                let chained = on.windows(2).all(|w| {
                    m.orbit(honeycomb_core::cmap::OrbitPolicy::Vertex, w[0].1)
                        .any(|d| m.beta::<1>(d) != 0 && m.vertex_id(m.beta::<1>(d)) == w[1].1)
                });
                Some(format!("ok {chained}"))
            }
        }
        "ancinit" => {
            let Sess::D2(s) = sess else { return Some("bad-op".into()) };
            if toks.len() != 1 {
                return Some("bad-op".into());
            }
            if has_anchors(&s.map) {
                return Some("ok".into());
            }
            let r = rebuild(s, true, false);
            *sess = Sess::D2(r);
            Some("ok".into())
        }
        "bndinit" => {
            let Sess::D2(s) = sess else { return Some("bad-op".into()) };
            if toks.len() != 1 {
                return Some("bad-op".into());
            }
            if s.map.contains_attribute::<Boundary>() {
                return Some("ok".into());
            }
            let r = rebuild(s, false, true);
            *sess = Sess::D2(r);
            Some("ok".into())
        }
        "wbnd" => {
            // wbnd <dart> <L|R|N|->: force_write_attribute::<Boundary>(dart, …) / force_remove_attribute
            let Sess::D2(s) = sess else { return Some("bad-op".into()) };
            let [_, d, v] = toks else { return Some("bad-op".into()) };
            let Ok(d) = d.parse::<DartIdType>() else { return Some("bad-op".into()) };
            if !s.map.contains_attribute::<Boundary>() {
                return Some("bad-op".into());
            }
            match *v {
                "L" => {
                    s.map.force_write_attribute(d, Boundary::Left);
                }
                "R" => {
                    s.map.force_write_attribute(d, Boundary::Right);
                }
                "N" => {
                    s.map.force_write_attribute(d, Boundary::None);
                }
                "-" => {
                    s.map.force_remove_attribute::<Boundary>(d);
                }
                _ => return Some("bad-op".into()),
            }
            Some("ok".into())
        }
        "clip" => {
            // clip left|right: the real clip_left / clip_right (hook grisubal::verif) on the session map
            let Sess::D2(s) = sess else { return Some("bad-op".into()) };
            if toks.len() != 2 || !s.map.contains_attribute::<Boundary>() {
                return Some("bad-op".into());
            }
            let r = match toks[1] {
                "left" => clip_left(&mut s.map),
                "right" => clip_right(&mut s.map),
                _ => return Some("bad-op".into()),
            };
            Some(match r {
                Ok(()) => "ok".into(),
                Err(e) => gris_err(&e),
            })
        }
        "gseg" => {
            // gseg <cx> <cy> <ox> <oy> <nx> <ny> <nv> x y … <nseg> a b … <npoi> p …: step 1 of the kernel on a fresh grid for the
            // whole geometry (hook `verif::segments`): the content of `new_segments`, `K>V` pairs sorted by key
            // (R regular, P point of interest, I intersection, C corner intersection); then `| dart t ; …` the slot vector
            let mut it = toks[1..].iter();
            let mut num = |it: &mut std::slice::Iter<&str>| -> Option<f64> { parse_rat(it.next()?) };
            let (Some(cx), Some(cy), Some(ox), Some(oy)) = (num(&mut it), num(&mut it), num(&mut it), num(&mut it)) else {
                return Some("bad-op".into());
            };
            let int = |it: &mut std::slice::Iter<&str>| -> Option<usize> { it.next()?.parse().ok() };
            let (Some(nx), Some(ny), Some(nv)) = (int(&mut it), int(&mut it), int(&mut it)) else { return Some("bad-op".into()) };
            let mut vertices = vec![];
            for _ in 0..nv {
                let (Some(x), Some(y)) = (num(&mut it), num(&mut it)) else { return Some("bad-op".into()) };
                vertices.push(honeycomb_core::geometry::Vertex2(x, y));
            }
            let Some(ns) = int(&mut it) else { return Some("bad-op".into()) };
            let mut segments = vec![];
            for _ in 0..ns {
                let (Some(a), Some(b)) = (int(&mut it), int(&mut it)) else { return Some("bad-op".into()) };
                if a >= nv || b >= nv {
                    return Some("bad-op".into());
                }
                segments.push((a, b));
            }
            let Some(np) = int(&mut it) else { return Some("bad-op".into()) };
            let mut poi = vec![];
            for _ in 0..np {
                let Some(p) = int(&mut it) else { return Some("bad-op".into()) };
                poi.push(p);
            }
            if it.next().is_some() {
                return Some("bad-op".into());
            }
            let gd = honeycomb_core::cmap::GridDescriptor::<2, f64>::default().n_cells([nx, ny]).len_per_cell([cx, cy]).origin([ox, oy]);
            let Ok(map) = CMapBuilder::<2, f64>::from_grid_descriptor(gd).build() else { return Some("bad-op".into()) };
            let geometry = honeycomb_kernels::grisubal::verif::Geometry2 { vertices, segments, poi };
            let origin = honeycomb_core::geometry::Vertex2(ox, oy);
            let mut segs = honeycomb_kernels::grisubal::verif::segments(&map, &geometry, [nx, ny], [cx, cy], origin);
            segs.sort();
            let data = honeycomb_kernels::grisubal::verif::intersection_data(&map, &geometry, [nx, ny], [cx, cy], origin);
            let parts: Vec<String> = segs.iter().map(|(k, v)| format!("{}>{}", gv_str(*k), gv_str(*v))).collect();
            let slots: Vec<String> = data.iter().map(|(d, t)| format!("{d} {}", crate::fmt::rat(*t))).collect();
            Some(format!("ok {} | {}", parts.join(" "), slots.join(" ; ")))
        }
        "gpipe" => {
            // gpipe <anchors 0|1> <cx> <cy> <ox> <oy> <nx> <ny> <nv> x y … <nseg> a b … <npoi> p …: steps 1-5 of the kernel, hook by
            // hook, on a fresh grid with the Boundary (and anchor) storages, every intermediate datum dumped:
            // `ok K>V … | dart t ; … | id … | start n x y … end ; …`; the resulting map becomes the session map
            let mut it = toks[1..].iter();
            let Some(anch) = it.next().and_then(|t| t.parse::<u8>().ok()) else { return Some("bad-op".into()) };
            let num = |it: &mut std::slice::Iter<&str>| -> Option<f64> { parse_rat(it.next()?) };
            let (Some(cx), Some(cy), Some(ox), Some(oy)) = (num(&mut it), num(&mut it), num(&mut it), num(&mut it)) else {
                return Some("bad-op".into());
            };
            let int = |it: &mut std::slice::Iter<&str>| -> Option<usize> { it.next()?.parse().ok() };
            let (Some(nx), Some(ny), Some(nv)) = (int(&mut it), int(&mut it), int(&mut it)) else { return Some("bad-op".into()) };
            let mut vertices = vec![];
            for _ in 0..nv {
                let (Some(x), Some(y)) = (num(&mut it), num(&mut it)) else { return Some("bad-op".into()) };
                vertices.push(honeycomb_core::geometry::Vertex2(x, y));
            }
            let Some(ns) = int(&mut it) else { return Some("bad-op".into()) };
            let mut segments = vec![];
            for _ in 0..ns {
                let (Some(a), Some(b)) = (int(&mut it), int(&mut it)) else { return Some("bad-op".into()) };
                if a >= nv || b >= nv {
                    return Some("bad-op".into());
                }
                segments.push((a, b));
            }
            let Some(np) = int(&mut it) else { return Some("bad-op".into()) };
            let mut poi = vec![];
            for _ in 0..np {
                let Some(p) = int(&mut it) else { return Some("bad-op".into()) };
                poi.push(p);
            }
            if it.next().is_some() {
                return Some("bad-op".into());
            }
            let gd = honeycomb_core::cmap::GridDescriptor::<2, f64>::default().n_cells([nx, ny]).len_per_cell([cx, cy]).origin([ox, oy]);
            let mut b = CMapBuilder::<2, f64>::from_grid_descriptor(gd).add_attribute::<Boundary>();
            if anch != 0 {
                b = b.add_attribute::<VertexAnchor>().add_attribute::<EdgeAnchor>().add_attribute::<FaceAnchor>();
            }
            let Ok(mut map) = b.build() else { return Some("bad-op".into()) };
            let geometry = honeycomb_kernels::grisubal::verif::Geometry2 { vertices, segments, poi };
            let origin = honeycomb_core::geometry::Vertex2(ox, oy);
            let mut segs = honeycomb_kernels::grisubal::verif::segments(&map, &geometry, [nx, ny], [cx, cy], origin);
            let data = honeycomb_kernels::grisubal::verif::intersection_data(&map, &geometry, [nx, ny], [cx, cy], origin);
            let slots: Vec<String> = data.iter().map(|(d, t)| format!("{d} {}", crate::fmt::rat(*t))).collect();
            let ids = intersection_darts(&mut map, data);
            let edges = honeycomb_kernels::grisubal::verif::edge_data(&map, &geometry, &segs, &ids);
            honeycomb_kernels::grisubal::verif::insert_edges(&mut map, &edges);
            segs.sort();
            let parts: Vec<String> = segs.iter().map(|(k, v)| format!("{}>{}", gv_str(*k), gv_str(*v))).collect();
            let idl: Vec<String> = ids.iter().map(|d| d.to_string()).collect();
            let el: Vec<String> = edges
                .iter()
                .map(|(a, inter, b)| {
                    let pts: Vec<String> = inter.iter().map(|p| format!(" {} {}", crate::fmt::rat(p.x()), crate::fmt::rat(p.y()))).collect();
                    format!("{a} {}{} {b}", inter.len(), pts.join(""))
                })
                .collect();
            install(sess, map);
            Some(format!("ok {} | {} | {} | {}", parts.join(" "), slots.join(" ; "), idl.join(" "), el.join(" ; ")))
        }
        "gedges" => {
            // gedges <nv> x y … <np> K>V … <nd> d …: step 4 (hook `verif::edge_data`) on the session map:
            // `ok start n x y … end ; …` in the order the routine yields them
            let Sess::D2(s) = sess else { return Some("bad-op".into()) };
            let mut it = toks[1..].iter();
            let Some(nv) = it.next().and_then(|t| t.parse::<usize>().ok()) else { return Some("bad-op".into()) };
            let mut vertices = vec![];
            for _ in 0..nv {
                let (Some(x), Some(y)) = (it.next().and_then(|t| parse_rat(t)), it.next().and_then(|t| parse_rat(t))) else {
                    return Some("bad-op".into());
                };
                vertices.push(honeycomb_core::geometry::Vertex2(x, y));
            }
            let Some(np) = it.next().and_then(|t| t.parse::<usize>().ok()) else { return Some("bad-op".into()) };
            let mut pairs = vec![];
            for _ in 0..np {
                let Some((k, v)) = it.next().and_then(|t| t.split_once('>')) else { return Some("bad-op".into()) };
                let (Some(k), Some(v)) = (gv_parse(k), gv_parse(v)) else { return Some("bad-op".into()) };
                pairs.push((k, v));
            }
            let Some(nd) = it.next().and_then(|t| t.parse::<usize>().ok()) else { return Some("bad-op".into()) };
            let mut darts = vec![];
            for _ in 0..nd {
                let Some(d) = it.next().and_then(|t| t.parse::<DartIdType>().ok()) else { return Some("bad-op".into()) };
                darts.push(d);
            }
            if it.next().is_some() {
                return Some("bad-op".into());
            }
            let geometry = honeycomb_kernels::grisubal::verif::Geometry2 { vertices, segments: vec![], poi: vec![] };
            let edges = honeycomb_kernels::grisubal::verif::edge_data(&s.map, &geometry, &pairs, &darts);
            let parts: Vec<String> = edges
                .iter()
                .map(|(a, inter, b)| {
                    let pts: Vec<String> = inter.iter().map(|p| format!(" {} {}", crate::fmt::rat(p.x()), crate::fmt::rat(p.y()))).collect();
                    format!("{a} {}{} {b}", inter.len(), pts.join(""))
                })
                .collect();
            Some(if parts.is_empty() { "ok".into() } else { format!("ok {}", parts.join(" ; ")) })
        }
        "gins" => {
            // gins <ne> (start n x y … end) …: step 5 (hook `verif::insert_edges`) on the session map, edges in the order given
            let Sess::D2(s) = sess else { return Some("bad-op".into()) };
            if !s.map.contains_attribute::<Boundary>() {
                return Some("bad-op".into());
            }
            let mut it = toks[1..].iter();
            let Some(ne) = it.next().and_then(|t| t.parse::<usize>().ok()) else { return Some("bad-op".into()) };
            let nd = s.map.n_darts() as DartIdType;
            let mut edges = vec![];
            for _ in 0..ne {
                let (Some(a), Some(n)) = (it.next().and_then(|t| t.parse::<DartIdType>().ok()), it.next().and_then(|t| t.parse::<usize>().ok())) else {
                    return Some("bad-op".into());
                };
                let mut inter = vec![];
                for _ in 0..n {
                    let (Some(x), Some(y)) = (it.next().and_then(|t| parse_rat(t)), it.next().and_then(|t| parse_rat(t))) else {
                        return Some("bad-op".into());
                    };
                    inter.push(honeycomb_core::geometry::Vertex2(x, y));
                }
                let Some(b) = it.next().and_then(|t| t.parse::<DartIdType>().ok()) else { return Some("bad-op".into()) };
                if a >= nd || b >= nd {
                    return Some("bad-op".into());
                }
                edges.push((a, inter, b));
            }
            if it.next().is_some() {
                return Some("bad-op".into());
            }
            honeycomb_kernels::grisubal::verif::insert_edges(&mut s.map, &edges);
            Some("ok".into())
        }
        "ogridg" => {
            // ogridg grisubal|capture <geometry as for `grisubal`>: the overlapping grid the call chooses (origin-shift loop
            // of compute_overlapping_grid included), read off the map it returns without clipping: `ok ox oy nx ny`
            if toks.len() < 3 {
                return Some("bad-op".into());
            }
            let Some(g) = parse_geo(&toks[2..]) else { return Some("bad-op".into()) };
            let path = TmpFile(write_vtk(&g));
            let r = match toks[1] {
                "grisubal" => grisubal::<f64>(&path.0, g.cell, Clip::None),
                "capture" => capture_geometry::<f64>(&path.0, g.cell, Clip::None),
                _ => return Some("bad-op".into()),
            };
            Some(match r {
                Ok(map) => {
                    let (mut x0, mut x1, mut y0, mut y1) = (f64::INFINITY, f64::NEG_INFINITY, f64::INFINITY, f64::NEG_INFINITY);
                    for v in map.iter_vertices() {
                        if let Some(p) = map.force_read_vertex(v) {
                            x0 = x0.min(p.x());
                            x1 = x1.max(p.x());
                            y0 = y0.min(p.y());
                            y1 = y1.max(p.y());
                        }
                    }
                    let nx = ((x1 - x0) / g.cell[0]).round() as usize;
                    let ny = ((y1 - y0) / g.cell[1]).round() as usize;
                    format!("ok {} {} {nx} {ny}", crate::fmt::rat(x0), crate::fmt::rat(y0))
                }
                Err(e) => gris_err(&e),
            })
        }
        "gids" => {
            // gids <nk> k1 … <n> (d t | 0 nan) …: steps 2 + 3 of grisubal on the session map (hook
            // `grisubal::verif::intersection_darts` = group_intersections_per_edge + compute_intersection_ids +
            // insert_intersections) for the slot vector given; reply `ok id …` (one dart per slot). The keys (iteration
            // order of the HashMap, a parameter of the model) are ignored here: the real order is whatever the HashMap does.
            let Sess::D2(s) = sess else { return Some("bad-op".into()) };
            let mut it = toks[1..].iter();
            let Some(nk) = it.next().and_then(|t| t.parse::<usize>().ok()) else { return Some("bad-op".into()) };
            for _ in 0..nk {
                if it.next().and_then(|t| t.parse::<DartIdType>().ok()).is_none() {
                    return Some("bad-op".into());
                }
            }
            let Some(n) = it.next().and_then(|t| t.parse::<usize>().ok()) else { return Some("bad-op".into()) };
            let nd = s.map.n_darts() as DartIdType;
            let mut meta: Vec<(DartIdType, f64)> = Vec::with_capacity(n);
            for _ in 0..n {
                let (Some(d), Some(t)) = (it.next().and_then(|t| t.parse::<DartIdType>().ok()), it.next()) else {
                    return Some("bad-op".into());
                };
                let t = if *t == "nan" {
                    f64::NAN
                } else {
                    let Some(t) = parse_rat(t) else { return Some("bad-op".into()) };
                    t
                };
                if d >= nd || (d == 0 && !t.is_nan()) {
                    return Some("bad-op".into());
                }
                meta.push((d, t));
            }
            if it.next().is_some() {
                return Some("bad-op".into());
            }
            let res = intersection_darts(&mut s.map, meta);
            let ids: Vec<String> = res.iter().map(|d| d.to_string()).collect();
            Some(if ids.is_empty() { "ok".into() } else { format!("ok {}", ids.join(" ")) })
        }
        "wanchor" => {
            let Sess::D2(s) = sess else { return Some("bad-op".into()) };
            let [_, k, id, a] = toks else { return Some("bad-op".into()) };
            let Ok(id) = id.parse::<DartIdType>() else { return Some("bad-op".into()) };
            if !has_anchors(&s.map) {
                return Some("bad-op".into());
            }
            let m = &s.map;
            match *k {
                "v" => {
                    let Some(a) = anchor_v(a) else { return Some("bad-op".into()) };
                    m.force_write_attribute(id, a);
                }
                "e" => {
                    let Some(a) = anchor_e(a) else { return Some("bad-op".into()) };
                    m.force_write_attribute(id, a);
                }
                "f" => {
                    let Some(a) = anchor_f(a) else { return Some("bad-op".into()) };
                    m.force_write_attribute(id, a);
                }
                _ => return Some("bad-op".into()),
            }
            Some("ok".into())
        }
        "anchors" => {
            let Sess::D2(s) = sess else { return Some("bad-op".into()) };
            if !has_anchors(&s.map) {
                return Some("bad-op".into());
            }
            Some(anchors_line(&s.map))
        }
        "classify" => {
            let Sess::D2(s) = sess else { return Some("bad-op".into()) };
            Some(match classify_capture(&s.map) {
                Ok(()) => "ok".into(),
                Err(ClassificationError::MissingAttribute(_)) => "err MissingAttribute".into(),
                Err(ClassificationError::UnsupportedGeometry(_)) => "err UnsupportedGeometry".into(),
            })
        }
        _ => None,
    }
}
