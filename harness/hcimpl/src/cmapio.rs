//! cmap text format (C09 / C10): `ser`, `loadtext`, `rt` and the implementation-only commands
//! `rt32`, `wvbits`; character level (C09b / C10b): `serhex` (the BYTES of `serialize`, coordinate
//! fields replaced by their exact rational text, every other byte kept) and `loadhex <mask> [hex]`
//! (raw bytes written to the file as they are).  Must match `Honeycomb/Model/SessionIO.lean`.
//!
//! The only public way to build a map from cmap text is
//! `CMapBuilder::<2, T>::from_cmap_file(path).build()`; `from_cmap_file` *unwraps* the result of
//! the section parser (`CMapFile::try_from`), so a rejected section layout is a (documented)
//! panic whose message carries the `BuilderError`.  The harness reports it as
//! `layout <Variant> [code]`, and failures of `build()` as `err <Variant> [code]` / `panic`.

use std::fmt::Write as _;
use std::panic::{AssertUnwindSafe, catch_unwind};

use honeycomb_core::cmap::{BuilderError, CMap2, CMapBuilder, DartIdType};
use honeycomb_core::geometry::CoordsFloat;

use crate::Sess;
use crate::attrs::{ETerm, FTerm, VDef, VTerm};
use crate::fmt::rat;
use crate::s2::S2;

/// numeric code of the `&'static str` payload of a `BuilderError` (same table in `CmapText.lean`)
fn msg_code(m: &str) -> u32 {
    match m {
        // BadMetaData
        "incorrect format" => 0,
        "could not parse dimension" => 1,
        "could not parse dart number" => 2,
        "mismatch between requested dimension and header" => 3,
        // InconsistentData
        "wrong number of beta functions" => 0,
        "wrong number of values for the beta 0 function" => 1,
        "wrong number of values for the beta 1 function" => 2,
        "wrong number of values for the beta 2 function" => 3,
        "non-null image of the null dart" => 4,
        "beta image is not an existing dart" => 5,
        "beta 0 is not the inverse of beta 1" => 6,
        "beta 2 is not a fixed-point-free involution" => 7,
        "unused ID is not a free dart, or is listed twice" => 8,
        "vertex ID is not an existing dart" => 9,
        // BadValue
        "could not parse a b0 value" => 0,
        "could not parse a b1 value" => 1,
        "could not parse a b2 value" => 2,
        "could not parse an unused ID" => 3,
        "incorrect vertex line format" => 4,
        "could not parse vertex ID" => 5,
        "could not parse vertex x coordinate" => 6,
        "could not parse vertex y coordinate" => 7,
        // MissingSection
        "meta" => 0,
        "betas" => 1,
        _ => 99,
    }
}

fn builder_err(e: &BuilderError) -> String {
    match e {
        BuilderError::BadValue(m) => format!("BadValue {}", msg_code(m)),
        BuilderError::BadMetaData(m) => format!("BadMetaData {}", msg_code(m)),
        BuilderError::InconsistentData(m) => format!("InconsistentData {}", msg_code(m)),
        BuilderError::MissingSection(m) => format!("MissingSection {}", msg_code(m)),
        BuilderError::DuplicatedSection(_) => "DuplicatedSection".into(),
        BuilderError::UnknownHeader(_) => "UnknownHeader".into(),
        BuilderError::InvalidGridParameters(_) => "InvalidGridParameters".into(),
        BuilderError::MissingGridParameters => "MissingGridParameters".into(),
        BuilderError::BadVtkData(_) => "BadVtkData".into(),
        BuilderError::UnsupportedVtkData(_) => "UnsupportedVtkData".into(),
    }
}

/// `called `Result::unwrap()` on an `Err` value: MissingSection("meta")` -> `MissingSection 0`
fn layout_from_panic(p: &(dyn std::any::Any + Send)) -> Option<String> {
    let msg: &str = if let Some(s) = p.downcast_ref::<String>() {
        s.as_str()
    } else if let Some(s) = p.downcast_ref::<&'static str>() {
        s
    } else {
        return None;
    };
    let rest = msg.strip_prefix("called `Result::unwrap()` on an `Err` value: ")?;
    let (variant, tail) = match rest.find('(') {
        Some(k) => (&rest[..k], &rest[k + 1..]),
        None => (rest, ""),
    };
    Some(match variant {
        "BadMetaData" | "MissingSection" => {
            let inner = tail.trim_end_matches(')').trim_matches('"');
            format!("{variant} {}", msg_code(inner))
        }
        _ => variant.to_string(),
    })
}

fn tmp_path(tag: &str) -> std::path::PathBuf {
    std::env::temp_dir().join(format!("hcimpl-{}-{tag}.cmap", std::process::id()))
}

pub enum Built<T: CoordsFloat> {
    Ok(CMap2<T>),
    Layout(String),
    Err(String),
    Panic,
}

/// the user's path: write the text to a file, `from_cmap_file`, attributes, `build`
pub fn build_from_text<T: CoordsFloat>(text: &str, mask: u32, tag: &str) -> Built<T> {
    build_from_bytes(text.as_bytes(), mask, tag)
}

/// same from raw bytes (`loadhex`); invalid UTF-8 makes `read_to_string(..).expect(..)` panic
pub fn build_from_bytes<T: CoordsFloat>(bytes: &[u8], mask: u32, tag: &str) -> Built<T> {
    let path = tmp_path(tag);
    std::fs::write(&path, bytes).expect("harness: cannot write temp file");
    let b = catch_unwind(AssertUnwindSafe(|| CMapBuilder::<2, T>::from_cmap_file(&path)));
    let _ = std::fs::remove_file(&path);
    let mut b = match b {
        Ok(b) => b,
        Err(p) => {
            return match layout_from_panic(&*p) {
                Some(s) => Built::Layout(s),
                None => Built::Panic,
            };
        }
    };
    if mask & 1 != 0 {
        b = b.add_attribute::<VTerm>();
    }
    if mask & 2 != 0 {
        b = b.add_attribute::<ETerm>();
    }
    if mask & 4 != 0 {
        b = b.add_attribute::<FTerm>();
    }
    if mask & 16 != 0 {
        b = b.add_attribute::<VDef>();
    }
    match catch_unwind(AssertUnwindSafe(|| b.build())) {
        Ok(Ok(m)) => Built::Ok(m),
        Ok(Err(e)) => Built::Err(builder_err(&e)),
        Err(_) => Built::Panic,
    }
}

fn serialize_to_string<T: CoordsFloat + 'static>(m: &CMap2<T>) -> Option<String> {
    catch_unwind(AssertUnwindSafe(|| {
        let mut s = String::new();
        m.serialize(&mut s);
        s
    }))
    .ok()
}

/// token lines of a real serialization; the two coordinate tokens of every line after the
/// `[VERTICES]` header are replaced by the exact rational text of the parsed f64
fn tokenise(text: &str) -> String {
    let mut lines: Vec<String> = vec![];
    let mut in_vertices = false;
    for l in text.lines() {
        let toks: Vec<&str> = l.split_ascii_whitespace().collect();
        if in_vertices && toks.len() == 3 {
            let c = |t: &str| match t.parse::<f64>() {
                Ok(x) => rat(x),
                Err(_) => format!("unparsable:{t}"),
            };
            lines.push(format!("{} {} {}", toks[0], c(toks[1]), c(toks[2])));
        } else {
            lines.push(toks.join(" "));
        }
        if toks == ["[VERTICES]"] {
            in_vertices = true;
        }
    }
    lines.join(" | ")
}

/// the BYTES of a real serialization with the two coordinate fields of every line after the
/// `[VERTICES]` header replaced by the exact rational text of the parsed f64; every other byte
/// (blanks, padding, newlines) is kept: fields are cut at single `' '` characters and re-joined
fn bytes_with_exact_coords(text: &str) -> String {
    let mut out = String::with_capacity(text.len());
    let mut in_vertices = false;
    for l in text.split_inclusive('\n') {
        let (body, nl) = match l.strip_suffix('\n') {
            Some(b) => (b, "\n"),
            None => (l, ""),
        };
        if in_vertices {
            let fields: Vec<&str> = body.split(' ').collect();
            let conv: Vec<String> = fields
                .iter()
                .enumerate()
                .map(|(k, f)| {
                    if (k == 1 || k == 2) && fields.len() == 3 {
                        match f.parse::<f64>() {
                            Ok(x) => rat(x),
                            Err(_) => (*f).to_string(),
                        }
                    } else {
                        (*f).to_string()
                    }
                })
                .collect();
            out.push_str(&conv.join(" "));
        } else {
            out.push_str(body);
        }
        out.push_str(nl);
        if body == "[VERTICES]" {
            in_vertices = true;
        }
    }
    out
}

fn hex(bytes: &[u8]) -> String {
    let mut o = String::with_capacity(2 * bytes.len());
    for b in bytes {
        let _ = write!(o, "{b:02x}");
    }
    o
}

fn unhex(s: &str) -> Option<Vec<u8>> {
    let b = s.as_bytes();
    if b.len() % 2 != 0 {
        return None;
    }
    let v = |c: u8| match c {
        b'0'..=b'9' => Some(c - b'0'),
        b'a'..=b'f' => Some(c - b'a' + 10),
        b'A'..=b'F' => Some(c - b'A' + 10),
        _ => None,
    };
    b.chunks(2).map(|p| Some(16 * v(p[0])? + v(p[1])?)).collect()
}

/// `-?digits/digits` (at most 18 digits each, non-zero denominator): the harness' exact
/// notation for a coordinate; written to the file as the shortest decimal of the f64 quotient
fn ratio_token(t: &str) -> Option<f64> {
    let (a, b) = t.split_once('/')?;
    let (neg, a) = match a.strip_prefix('-') {
        Some(r) => (true, r),
        None => (false, a),
    };
    let digits = |s: &str| !s.is_empty() && s.len() <= 18 && s.bytes().all(|c| c.is_ascii_digit());
    if !digits(a) || !digits(b) {
        return None;
    }
    let (p, q) = (a.parse::<u64>().ok()?, b.parse::<u64>().ok()?);
    if q == 0 {
        return None;
    }
    let v = p as f64 / q as f64;
    Some(if neg { -v } else { v })
}

fn text_of_tokens(toks: &[&str]) -> String {
    let mut text = String::new();
    for line in toks.split(|t| *t == "|") {
        let conv: Vec<String> = line
            .iter()
            .map(|t| {
                // a comment may be glued to the token: only the part before `#` is data
                let (head, tail) = t.split_at(t.find('#').unwrap_or(t.len()));
                match ratio_token(head) {
                    Some(v) => format!("{v}{tail}"),
                    None => (*t).to_string(),
                }
            })
            .collect();
        text.push_str(&conv.join(" "));
        text.push('\n');
    }
    text
}

fn bits_eq<T: CoordsFloat>(a: T, b: T) -> bool {
    // bit identity through the public conversions (f32 -> f64 is exact)
    let (x, y) = (a.to_f64().unwrap(), b.to_f64().unwrap());
    x.to_bits() == y.to_bits()
}

/// second half of `rt`: same dart count, β images, removal flags, and bit-identical coordinates
/// (or both undefined) at every vertex id of the original
fn same_map<T: CoordsFloat + 'static>(a: &CMap2<T>, b: &CMap2<T>) -> bool {
    if a.n_darts() != b.n_darts() {
        return false;
    }
    let n = a.n_darts() as DartIdType;
    for d in 0..n {
        if a.beta::<0>(d) != b.beta::<0>(d) || a.beta::<1>(d) != b.beta::<1>(d) || a.beta::<2>(d) != b.beta::<2>(d) {
            return false;
        }
        if a.is_unused(d) != b.is_unused(d) {
            return false;
        }
    }
    let va: Vec<_> = a.iter_vertices().collect();
    let vb: Vec<_> = b.iter_vertices().collect();
    if va != vb {
        return false;
    }
    for v in va {
        match (a.force_read_vertex(v), b.force_read_vertex(v)) {
            (None, None) => {}
            (Some(p), Some(q)) => {
                if !bits_eq(p.x(), q.x()) || !bits_eq(p.y(), q.y()) {
                    return false;
                }
            }
            _ => return false,
        }
    }
    true
}

fn round_trip<T: CoordsFloat + 'static>(m: &CMap2<T>, tag: &str) -> String {
    let Some(s1) = serialize_to_string(m) else { return "panic".into() };
    match build_from_text::<T>(&s1, 0, tag) {
        Built::Ok(m2) => {
            let Some(s2) = serialize_to_string(&m2) else { return "panic".into() };
            match catch_unwind(AssertUnwindSafe(|| same_map(m, &m2))) {
                Ok(same) => format!("rt {} {}", s1 == s2, same),
                Err(_) => "panic".into(),
            }
        }
        Built::Layout(e) => format!("layout {e}"),
        Built::Err(e) => format!("err {e}"),
        Built::Panic => "panic".into(),
    }
}

/// copy of the session's map with every coordinate cast to `f32` (structure through public API)
fn to_f32(m: &CMap2<f64>) -> CMap2<f32> {
    let n = m.n_darts();
    let mut r: CMap2<f32> = CMapBuilder::<2, f32>::from_n_darts(n - 1).build().unwrap();
    for d in 0..n as DartIdType {
        r.set_betas(d, [m.beta::<0>(d), m.beta::<1>(d), m.beta::<2>(d)]);
    }
    for d in 0..n as DartIdType {
        if let Some(v) = m.force_read_vertex(d) {
            r.force_write_vertex(d, (v.x() as f32, v.y() as f32));
        }
    }
    // flags last: `remove_free_dart` asserts freeness, which holds for the maps of the stream
    for d in 0..n as DartIdType {
        if m.is_unused(d) {
            r.remove_free_dart(d);
        }
    }
    r
}

pub fn step(sess: &mut Sess, toks: &[&str]) -> Option<String> {
    match toks {
        ["loadtext", mask, rest @ ..] => {
            let Ok(mask) = mask.parse::<u32>() else { return Some("bad-op".into()) };
            let text = text_of_tokens(rest);
            Some(match build_from_text::<f64>(&text, mask, "load") {
                Built::Ok(map) => {
                    crate::attrs::clear_terms();
                    crate::attrs::FAULT.with(|f| f.set(0));
                    let mut s = S2::new(0, mask);
                    s.map = map;
                    *sess = Sess::D2(s);
                    "ok".into()
                }
                Built::Layout(e) => format!("layout {e}"),
                Built::Err(e) => format!("err {e}"),
                Built::Panic => "panic".into(),
            })
        }
        ["loadhex", mask, rest @ ..] if rest.len() <= 1 => {
            let Ok(mask) = mask.parse::<u32>() else { return Some("bad-op".into()) };
            let Some(bytes) = unhex(rest.first().copied().unwrap_or("")) else { return Some("bad-op".into()) };
            Some(match build_from_bytes::<f64>(&bytes, mask, "loadhex") {
                Built::Ok(map) => {
                    crate::attrs::clear_terms();
                    crate::attrs::FAULT.with(|f| f.set(0));
                    let mut s = S2::new(0, mask);
                    s.map = map;
                    *sess = Sess::D2(s);
                    "ok".into()
                }
                Built::Layout(e) => format!("layout {e}"),
                Built::Err(e) => format!("err {e}"),
                Built::Panic => "panic".into(),
            })
        }
        ["serhex"] => {
            let Sess::D2(s) = sess else { return Some("bad-op".into()) };
            Some(match serialize_to_string(&s.map) {
                Some(t) => format!("serhex {}", hex(bytes_with_exact_coords(&t).as_bytes())),
                None => "panic".into(),
            })
        }
        ["ser"] => {
            let Sess::D2(s) = sess else { return Some("bad-op".into()) };
            Some(match serialize_to_string(&s.map) {
                Some(t) => format!("ser {}", tokenise(&t)),
                None => "panic".into(),
            })
        }
        ["rt"] => {
            let Sess::D2(s) = sess else { return Some("bad-op".into()) };
            Some(round_trip(&s.map, "rt"))
        }
        // ---- implementation-only (the model answers `bad-op`) ----
        ["rt32"] => {
            let Sess::D2(s) = sess else { return Some("bad-op".into()) };
            Some(match catch_unwind(AssertUnwindSafe(|| to_f32(&s.map))) {
                Ok(m32) => round_trip(&m32, "rt32"),
                Err(_) => "panic".into(),
            })
        }
        ["wvbits", d, x, y] => {
            let Sess::D2(s) = sess else { return Some("bad-op".into()) };
            let (Ok(d), Ok(x), Ok(y)) = (d.parse::<u32>(), u64::from_str_radix(x, 16), u64::from_str_radix(y, 16)) else {
                return Some("bad-op".into());
            };
            Some(
                match catch_unwind(AssertUnwindSafe(|| {
                    s.map.force_write_vertex(d, (f64::from_bits(x), f64::from_bits(y)))
                })) {
                    Ok(_) => "ok".into(),
                    Err(_) => "panic".into(),
                },
            )
        }
        ["sertext"] => {
            // raw text, newlines shown as `\n` (debugging aid; implementation only)
            let Sess::D2(s) = sess else { return Some("bad-op".into()) };
            Some(match serialize_to_string(&s.map) {
                Some(t) => {
                    let mut o = String::from("sertext ");
                    for c in t.chars() {
                        if c == '\n' {
                            o.push_str("\\n");
                        } else {
                            let _ = write!(o, "{c}");
                        }
                    }
                    o
                }
                None => "panic".into(),
            })
        }
        _ => None,
    }
}
