//! 2-D session: `CMap2<f64>` with the harness' attribute set.

use std::panic::{AssertUnwindSafe, catch_unwind};

use honeycomb_core::cmap::{CMap2, CMapBuilder, DartIdType, OrbitPolicy};
use honeycomb_core::geometry::Vertex2;
use honeycomb_core::stm::{
    Transaction, TransactionClosureResult, TransactionError, atomically_with_err,
};

use crate::attrs::{self, ETerm, FTerm, Node, OTerm, VDef, VTerm};
use crate::fmt::{link_err, parse_rat, rat, sew_err};

pub struct S2 {
    pub map: CMap2<f64>,
    pub mask: u32,
    in_tx: bool,
    tx_ops: Vec<Vec<String>>,
}

pub(crate) type TxRes = TransactionClosureResult<String, String>;

pub(crate) fn conv<T, E>(r: TransactionClosureResult<T, E>, f: impl Fn(&E) -> String) -> TransactionClosureResult<T, String> {
    r.map_err(|e| match e {
        TransactionError::Abort(e) => TransactionError::Abort(f(&e)),
        TransactionError::Stm(s) => TransactionError::Stm(s),
    })
}

pub(crate) fn stm<T>(r: honeycomb_core::stm::StmClosureResult<T>) -> TransactionClosureResult<T, String> {
    r.map_err(TransactionError::Stm)
}

pub fn pt2(v: Option<Vertex2<f64>>) -> String {
    match v {
        None => "none".into(),
        Some(v) => format!("({},{},0)", rat(v.x()), rat(v.y())),
    }
}

fn policy(s: &str) -> Option<OrbitPolicy> {
    Some(match s {
        "v" => OrbitPolicy::Vertex,
        "vl" => OrbitPolicy::VertexLinear,
        "e" => OrbitPolicy::Edge,
        "f" => OrbitPolicy::Face,
        "fl" => OrbitPolicy::FaceLinear,
        "vol" => OrbitPolicy::Volume,
        "voll" => OrbitPolicy::VolumeLinear,
        _ => {
            if let Some(rest) = s.strip_prefix('c') {
                let v: Vec<u8> = rest.bytes().map(|b| b.wrapping_sub(b'0')).collect();
                OrbitPolicy::Custom(Box::leak(v.into_boxed_slice()))
            } else {
                return None;
            }
        }
    })
}

fn nats(v: impl IntoIterator<Item = DartIdType>) -> String {
    v.into_iter().map(|d| d.to_string()).collect::<Vec<_>>().join(" ")
}

pub(crate) fn d(s: &str) -> Option<DartIdType> {
    s.parse().ok()
}

macro_rules! opt {
    ($e:expr) => {
        match $e {
            Some(x) => x,
            None => return None,
        }
    };
}

impl S2 {
    pub fn new(n: usize, mask: u32) -> Self {
        let mut b = CMapBuilder::<2, f64>::from_n_darts(n);
        if mask & 1 != 0 {
            b = b.add_attribute::<VTerm>();
        }
        if mask & 2 != 0 {
            b = b.add_attribute::<ETerm>();
        }
        if mask & 4 != 0 {
            b = b.add_attribute::<FTerm>();
        }
        if mask & 8 != 0 {
            b = b.add_attribute::<OTerm>();
        }
        if mask & 16 != 0 {
            b = b.add_attribute::<VDef>();
        }
        b = crate::k3::add_anchor_attrs(b, mask);
        S2 { map: b.build().unwrap(), mask, in_tx: false, tx_ops: vec![] }
    }

    /// `load` of the protocol: `groups` = the beta rows followed by the removal flags (n+1 numbers each)
    pub fn load(n: usize, mask: u32, groups: &[Vec<u32>]) -> Self {
        let mut s = Self::new(n, mask);
        for (x, u) in groups[3].iter().enumerate() {
            if *u != 0 {
                s.map.remove_free_dart(x as u32);
            }
        }
        for x in 0..=n {
            s.map.set_betas(x as u32, [groups[0][x], groups[1][x], groups[2][x]]);
        }
        s
    }

    /// public calls that run their own transaction(s) (`set_beta`, `set_betas`); `&self`: usable as the unit of work of
    /// a thread in hcsched (C07).  `None` = not such a call / parse error
    pub fn run_call(&self, toks: &[&str]) -> Option<String> {
        match toks {
            ["setb", i, x, v] => {
                let (x, v) = (d(x)?, d(v)?);
                let r = catch_unwind(AssertUnwindSafe(|| match *i {
                    "0" => self.map.set_beta::<0>(x, v),
                    "1" => self.map.set_beta::<1>(x, v),
                    "2" => self.map.set_beta::<2>(x, v),
                    _ => panic!(),
                }));
                Some(if r.is_ok() { "ok".into() } else { "panic".into() })
            }
            ["setbs", x, b0, b1, b2] => {
                let (Some(x), Some(b0), Some(b1), Some(b2)) = (d(x), d(b0), d(b1), d(b2)) else { return None };
                let r = catch_unwind(AssertUnwindSafe(|| self.map.set_betas(x, [b0, b1, b2])));
                Some(if r.is_ok() { "ok".into() } else { "panic".into() })
            }
            // the force_ variants are public calls running their own transaction(s) as well
            ["flink" | "funlink" | "fsew" | "funsew", ..] => self.run_force(toks),
            _ => None,
        }
    }

    /// the body of `endtx`: all `ops` in one `atomically_with_err` block (callable from several threads)
    pub fn run_tx(&self, ops: &[Vec<String>]) -> String {
        let r = catch_unwind(AssertUnwindSafe(|| {
            let ignore = ops.first().is_some_and(|o| o[0] == "#ignore");
            let ops = if ignore { &ops[1..] } else { ops };
            atomically_with_err(|t| {
                let mut outs = vec![];
                for op in ops {
                    match self.tx_op(t, op) {
                        Some(Err(TransactionError::Abort(e))) if ignore => outs.push(e),
                        Some(r) => outs.push(r?),
                        None => return Err(TransactionError::Abort("bad-op".to_string())),
                    }
                }
                Ok(outs)
            })
        }));
        attrs::FAULT.with(|f| f.set(0));
        match r {
            Err(_) => "tx panic".into(),
            Ok(Ok(outs)) => format!("tx ok {}", outs.join(" ; ")),
            Ok(Err(e)) => format!("tx {e}"),
        }
    }

    fn registered(&self, st: usize) -> bool {
        st >= 1 && st <= 5 && (self.mask >> (st - 1)) & 1 == 1
    }

    fn read_attr_tx(&self, t: &mut Transaction, st: usize, id: DartIdType) -> honeycomb_core::stm::StmClosureResult<Option<u32>> {
        Ok(match st {
            1 => self.map.read_attribute::<VTerm>(t, id)?.map(|v| v.0),
            2 => self.map.read_attribute::<ETerm>(t, id)?.map(|v| v.0),
            3 => self.map.read_attribute::<FTerm>(t, id)?.map(|v| v.0),
            4 => self.map.read_attribute::<OTerm>(t, id)?.map(|v| v.0),
            5 => self.map.read_attribute::<VDef>(t, id)?.map(|v| v.0),
            _ => None,
        })
    }

    fn write_attr_tx(&self, t: &mut Transaction, st: usize, id: DartIdType, v: Option<u32>) -> honeycomb_core::stm::StmClosureResult<Option<u32>> {
        Ok(match (st, v) {
            (1, Some(v)) => self.map.write_attribute::<VTerm>(t, id, VTerm(v))?.map(|v| v.0),
            (2, Some(v)) => self.map.write_attribute::<ETerm>(t, id, ETerm(v))?.map(|v| v.0),
            (3, Some(v)) => self.map.write_attribute::<FTerm>(t, id, FTerm(v))?.map(|v| v.0),
            (4, Some(v)) => self.map.write_attribute::<OTerm>(t, id, OTerm(v))?.map(|v| v.0),
            (5, Some(v)) => self.map.write_attribute::<VDef>(t, id, VDef(v))?.map(|v| v.0),
            (1, None) => self.map.remove_attribute::<VTerm>(t, id)?.map(|v| v.0),
            (2, None) => self.map.remove_attribute::<ETerm>(t, id)?.map(|v| v.0),
            (3, None) => self.map.remove_attribute::<FTerm>(t, id)?.map(|v| v.0),
            (4, None) => self.map.remove_attribute::<OTerm>(t, id)?.map(|v| v.0),
            (5, None) => self.map.remove_attribute::<VDef>(t, id)?.map(|v| v.0),
            _ => None,
        })
    }

    fn term(v: Option<u32>) -> String {
        match v {
            None => "none".into(),
            Some(id) => attrs::term_str(id),
        }
    }

    /// transactional operations; `None` = not a transactional op / parse error
    fn tx_op(&self, t: &mut Transaction, toks: &[String]) -> Option<TxRes> {
        let m = &self.map;
        let tk: Vec<&str> = toks.iter().map(String::as_str).collect();
        Some(match tk.as_slice() {
            ["link", i, l, r] => {
                let (l, r) = (opt!(d(l)), opt!(d(r)));
                match *i {
                    "1" => conv(m.link::<1>(t, l, r), link_err).map(|()| String::new()),
                    "2" => conv(m.link::<2>(t, l, r), link_err).map(|()| String::new()),
                    _ => panic!("bad dim"),
                }
            }
            ["unlink", i, l] => {
                let l = opt!(d(l));
                match *i {
                    "1" => conv(m.unlink::<1>(t, l), link_err).map(|()| String::new()),
                    "2" => conv(m.unlink::<2>(t, l), link_err).map(|()| String::new()),
                    _ => panic!("bad dim"),
                }
            }
            ["sew", i, l, r] => {
                let (l, r) = (opt!(d(l)), opt!(d(r)));
                match *i {
                    "1" => conv(m.sew::<1>(t, l, r), sew_err).map(|()| String::new()),
                    "2" => conv(m.sew::<2>(t, l, r), sew_err).map(|()| String::new()),
                    _ => panic!("bad dim"),
                }
            }
            ["unsew", i, l] => {
                let l = opt!(d(l));
                match *i {
                    "1" => conv(m.unsew::<1>(t, l), sew_err).map(|()| String::new()),
                    "2" => conv(m.unsew::<2>(t, l), sew_err).map(|()| String::new()),
                    _ => panic!("bad dim"),
                }
            }
            ["rmtx", x] => stm(m.remove_free_dart_transac(t, opt!(d(x)))).map(|b| b.to_string()),
            ["vid", x] => stm(m.vertex_id_transac(t, opt!(d(x)))).map(|v| v.to_string()),
            ["eid", x] => stm(m.edge_id_transac(t, opt!(d(x)))).map(|v| v.to_string()),
            ["fid", x] => stm(m.face_id_transac(t, opt!(d(x)))).map(|v| v.to_string()),
            ["orbit", pol, x] => {
                let pol = opt!(policy(pol));
                let x = opt!(d(x));
                let mut v = vec![];
                let mut err = None;
                for r in m.orbit_transac(t, pol, x) {
                    match r {
                        Ok(y) => v.push(y),
                        Err(e) => {
                            err = Some(e);
                            break;
                        }
                    }
                }
                match err {
                    Some(e) => Err(TransactionError::Stm(e)),
                    None => Ok(nats(v)),
                }
            }
            ["beta", i, x] => {
                let i: u8 = opt!(i.parse().ok());
                stm(m.beta_rt_transac(t, i, opt!(d(x)))).map(|v| v.to_string())
            }
            ["isun", x] => stm(m.is_unused_transac(t, opt!(d(x)))).map(|b| b.to_string()),
            ["rv", x] => stm(m.read_vertex(t, opt!(d(x)))).map(pt2),
            ["wv", x, a, b] => {
                let (a, b) = (opt!(parse_rat(a)), opt!(parse_rat(b)));
                stm(m.write_vertex(t, opt!(d(x)), (a, b))).map(pt2)
            }
            ["xv", x] => stm(m.remove_vertex(t, opt!(d(x)))).map(pt2),
            ["ra", st, x] => {
                let st: usize = opt!(st.parse().ok());
                if !self.registered(st) {
                    return Some(Ok("none".into()));
                }
                stm(self.read_attr_tx(t, st, opt!(d(x)))).map(Self::term)
            }
            ["wa", st, x, v] => {
                let st: usize = opt!(st.parse().ok());
                let v: u64 = opt!(v.parse().ok());
                if !self.registered(st) {
                    return Some(Ok("none".into()));
                }
                let id = attrs::intern(Node::Leaf(v));
                stm(self.write_attr_tx(t, st, opt!(d(x)), Some(id))).map(Self::term)
            }
            ["xa", st, x] => {
                let st: usize = opt!(st.parse().ok());
                if !self.registered(st) {
                    return Some(Ok("none".into()));
                }
                stm(self.write_attr_tx(t, st, opt!(d(x)), None)).map(Self::term)
            }
            _ => {
                if let Some(r) = crate::k2::tx_op(self, t, &tk) {
                    return Some(r);
                }
                return crate::k3::tx_op(self, t, &tk);
            }
        })
    }

    fn run_single(&self, toks: &[String]) -> String {
        // check parse first (outside any transaction)
        let r = catch_unwind(AssertUnwindSafe(|| {
            let bad = std::cell::Cell::new(false);
            let res = atomically_with_err(|t| match self.tx_op(t, toks) {
                Some(r) => r,
                None => {
                    bad.set(true);
                    Err(TransactionError::Abort("bad-op".to_string()))
                }
            });
            (res, bad.get())
        }));
        attrs::FAULT.with(|f| f.set(0));
        match r {
            Err(_) => "panic".into(),
            Ok((_, true)) => "bad-op".into(),
            Ok((Ok(s), _)) => {
                if s.is_empty() {
                    "ok".into()
                } else {
                    format!("ok {s}")
                }
            }
            Ok((Err(e), _)) => e,
        }
    }

    fn run_force(&self, toks: &[&str]) -> Option<String> {
        let m = &self.map;
        let r = catch_unwind(AssertUnwindSafe(|| -> Option<String> {
            let show_l = |r: Result<(), honeycomb_core::cmap::LinkError>| match r {
                Ok(()) => "ok".to_string(),
                Err(e) => link_err(&e),
            };
            let show_s = |r: Result<(), honeycomb_core::cmap::SewError>| match r {
                Ok(()) => "ok".to_string(),
                Err(e) => sew_err(&e),
            };
            Some(match toks {
                ["flink", "1", l, r] => show_l(m.force_link::<1>(d(l)?, d(r)?)),
                ["flink", "2", l, r] => show_l(m.force_link::<2>(d(l)?, d(r)?)),
                ["funlink", "1", l] => show_l(m.force_unlink::<1>(d(l)?)),
                ["funlink", "2", l] => show_l(m.force_unlink::<2>(d(l)?)),
                ["fsew", "1", l, r] => show_s(m.force_sew::<1>(d(l)?, d(r)?)),
                ["fsew", "2", l, r] => show_s(m.force_sew::<2>(d(l)?, d(r)?)),
                ["funsew", "1", l] => show_s(m.force_unsew::<1>(d(l)?)),
                ["funsew", "2", l] => show_s(m.force_unsew::<2>(d(l)?)),
                ["flink" | "funlink" | "fsew" | "funsew", ..] => panic!("bad dim"),
                _ => return None,
            })
        }));
        match r {
            Err(_) => {
                attrs::FAULT.with(|f| f.set(0));
                Some("panic".into())
            }
            Ok(Some(x)) => {
                attrs::FAULT.with(|f| f.set(0));
                Some(x)
            }
            Ok(None) => None,
        }
    }

    fn snap(&self) -> String {
        let m = &self.map;
        let n = m.n_darts() as DartIdType;
        let mut parts = vec![];
        parts.push(format!("b0: {}", nats((0..n).map(|x| m.beta::<0>(x)))));
        parts.push(format!("b1: {}", nats((0..n).map(|x| m.beta::<1>(x)))));
        parts.push(format!("b2: {}", nats((0..n).map(|x| m.beta::<2>(x)))));
        parts.push(format!("u: {}", nats((0..n).map(|x| u32::from(m.is_unused(x))))));
        parts.push(format!(
            "a0: {}",
            (0..n).map(|x| pt2(m.force_read_vertex(x))).collect::<Vec<_>>().join(" ")
        ));
        for st in 1..=5usize {
            if self.registered(st) {
                let vals: Vec<String> = (0..n)
                    .map(|x| {
                        Self::term(match st {
                            1 => m.force_read_attribute::<VTerm>(x).map(|v| v.0),
                            2 => m.force_read_attribute::<ETerm>(x).map(|v| v.0),
                            3 => m.force_read_attribute::<FTerm>(x).map(|v| v.0),
                            4 => m.force_read_attribute::<OTerm>(x).map(|v| v.0),
                            5 => m.force_read_attribute::<VDef>(x).map(|v| v.0),
                            _ => None,
                        })
                    })
                    .collect();
                parts.push(format!("a{st}: {}", vals.join(" ")));
            }
        }
        parts.extend(crate::gris::snap_parts(m));
        format!("snap n={} | {}", n, parts.join(" | "))
    }

    /// the structural predicate of C01 evaluated on the real map
    fn wf(&self) -> String {
        let m = &self.map;
        let n = m.n_darts() as DartIdType;
        let b = |i: u8, x: DartIdType| m.beta_rt(i, x);
        let mut wf = n >= 1;
        let mut noimg = true;
        for i in 0..3u8 {
            if b(i, 0) != 0 {
                wf = false;
            }
        }
        // range first (the other clauses index with images)
        for x in 0..n {
            for i in 0..3u8 {
                if b(i, x) >= n {
                    return "wf false true true".into();
                }
            }
        }
        for x in 0..n {
            if b(1, x) != 0 && b(0, b(1, x)) != x {
                wf = false;
            }
            if b(0, x) != 0 && b(1, b(0, x)) != x {
                wf = false;
            }
            if b(2, x) != 0 && (b(2, b(2, x)) != x || b(2, x) == x) {
                wf = false;
            }
            if m.is_unused(x) && (0..3u8).any(|i| b(i, x) != 0) {
                wf = false;
            }
            for i in 0..3u8 {
                if m.is_unused(b(i, x)) && b(i, x) != 0 {
                    noimg = false;
                }
            }
        }
        format!("wf {wf} {noimg} true")
    }

    pub fn step(&mut self, toks: &[&str]) -> String {
        if self.in_tx {
            if toks == ["endtx"] {
                self.in_tx = false;
                let ops = std::mem::take(&mut self.tx_ops);
                return self.run_tx(&ops);
            }
            self.tx_ops.push(toks.iter().map(|s| s.to_string()).collect());
            return "queued".into();
        }
        match toks {
            ["setb", ..] | ["setbs", ..] => self.run_call(toks).unwrap_or_else(|| "bad-op".into()),
            ["fault", k] => {
                let Ok(k) = k.parse::<u64>() else { return "bad-op".into() };
                attrs::FAULT.with(|f| f.set(k));
                "ok".into()
            }
            ["add", k] => {
                let Ok(k) = k.parse::<usize>() else { return "bad-op".into() };
                format!("ok {}", self.map.add_free_darts(k))
            }
            ["ins"] => format!("ok {}", self.map.insert_free_dart()),
            ["rm", x] => {
                let Some(x) = d(x) else { return "bad-op".into() };
                let r = catch_unwind(AssertUnwindSafe(|| self.map.remove_free_dart(x)));
                if r.is_ok() { "ok".into() } else { "panic".into() }
            }
            // two orbits ALIVE AT ONCE on this thread, consumed alternately (`orbitz`) or nested (`orbitn`): the iterators
            // returned by `orbit()` are lazy, each must own its traversal state
            ["orbitz", pa, a, pb, b] => {
                let (Some(pa), Some(a), Some(pb), Some(b)) = (policy(pa), d(a), policy(pb), d(b)) else { return "bad-op".into() };
                match catch_unwind(AssertUnwindSafe(|| {
                    let mut oa = self.map.orbit(pa, a);
                    let mut ob = self.map.orbit(pb, b);
                    let (mut va, mut vb) = (vec![], vec![]);
                    loop {
                        let (x, y) = (oa.next(), ob.next());
                        if x.is_none() && y.is_none() {
                            break;
                        }
                        va.extend(x);
                        vb.extend(y);
                    }
                    format!("ok {} | {}", nats(va), nats(vb))
                })) {
                    Ok(s) => s,
                    Err(_) => "panic".into(),
                }
            }
            ["orbitn", pa, a, pb] => {
                let (Some(pa), Some(a), Some(pb)) = (policy(pa), d(a), policy(pb)) else { return "bad-op".into() };
                match catch_unwind(AssertUnwindSafe(|| {
                    let mut parts = vec![];
                    for x in self.map.orbit(pa, a) {
                        parts.push(nats(self.map.orbit(pb.clone(), x)));
                    }
                    format!("ok {}", parts.join(" | "))
                })) {
                    Ok(s) => s,
                    Err(_) => "panic".into(),
                }
            }
            ["nvert"] => format!("ok {}", self.map.n_vertices()),
            ["icell", i, x] => {
                // i_cell::<I>: the orbit of the I-cell (I out of range: the assertion panics)
                let Some(x) = d(x) else { return "bad-op".into() };
                if i.parse::<u8>().is_err() {
                    return "bad-op".into();
                }
                match catch_unwind(AssertUnwindSafe(|| match *i {
                        "0" => nats(self.map.i_cell::<0>(x)),
                        "1" => nats(self.map.i_cell::<1>(x)),
                        "2" => nats(self.map.i_cell::<2>(x)),
                        "3" => nats(self.map.i_cell::<3>(x)),
                        "4" => nats(self.map.i_cell::<4>(x)),
                        _ => panic!("I out of range"),
                    })) {
                    Ok(s) => if s.is_empty() { "ok".into() } else { format!("ok {s}") },
                    Err(_) => "panic".into(),
                }
            }
            ["isfree", i, x] => {
                let Some(x) = d(x) else { return "bad-op".into() };
                if *i != "all" && i.parse::<u8>().is_err() {
                    return "bad-op".into();
                }
                match catch_unwind(AssertUnwindSafe(|| match *i {
                        "all" => self.map.is_free(x),
                        "0" => self.map.is_i_free::<0>(x),
                        "1" => self.map.is_i_free::<1>(x),
                        "2" => self.map.is_i_free::<2>(x),
                        "3" => self.map.is_i_free::<3>(x),
                        "4" => self.map.is_i_free::<4>(x),
                        _ => panic!("I out of range"),
                    })) {
                    Ok(b) => format!("ok {b}"),
                    Err(_) => "panic".into(),
                }
            }
            ["orbitnt", pol, x] => {
                let (Some(pol), Some(x)) = (policy(pol), d(x)) else { return "bad-op".into() };
                match catch_unwind(AssertUnwindSafe(|| nats(self.map.orbit(pol, x)))) {
                    Ok(s) => if s.is_empty() { "ok".into() } else { format!("ok {s}") },
                    Err(_) => "panic".into(),
                }
            }
            ["vidnt" | "eidnt" | "fidnt", x] => {
                let Some(x) = d(x) else { return "bad-op".into() };
                match catch_unwind(AssertUnwindSafe(|| match toks[0] {
                    "vidnt" => self.map.vertex_id(x),
                    "eidnt" => self.map.edge_id(x),
                    _ => self.map.face_id(x),
                })) {
                    Ok(v) => format!("ok {v}"),
                    Err(_) => "panic".into(),
                }
            }
            ["iterv"] => format!("ok {}", nats(self.map.iter_vertices())),
            ["itere"] => format!("ok {}", nats(self.map.iter_edges())),
            ["iterf"] => format!("ok {}", nats(self.map.iter_faces())),
            ["snap"] => self.snap(),
            ["wf"] => self.wf(),
            ["ndarts"] => format!("ok {} {}", self.map.n_darts(), self.map.n_unused_darts()),
            ["tx"] => {
                self.in_tx = true;
                self.tx_ops.clear();
                "ok".into()
            }
            // `txi … endtx`: a user transaction that HANDLES the refusals of its calls itself (an `Abort` returned by an
            // operation is swallowed, its text becomes the result of that operation) and commits at the end
            ["txi"] => {
                self.in_tx = true;
                self.tx_ops.clear();
                self.tx_ops.push(vec!["#ignore".to_string()]);
                "ok".into()
            }
            _ => {
                if let Some(r) = self.run_force(toks) {
                    return r;
                }
                let owned: Vec<String> = toks.iter().map(|s| s.to_string()).collect();
                self.run_single(&owned)
            }
        }
    }
}
