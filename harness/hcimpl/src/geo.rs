//! C19 — geometric primitives and skewness: stateless commands driving the REAL operators of
//! `honeycomb_core::geometry::{Vector2, Vector3, Vertex2, Vertex3}` and
//! `honeycomb_kernels::skewness::compute_face_skewness_{2d,3d}`.
//!
//! * `geo <op> <rationals…>` — exact stream, compared line by line with the Lean model
//!   (`Honeycomb/Model/SessionGeo.lean`).  Arguments are small dyadic rationals, converted to `f64`
//!   (exactly) and fed to the real `f64` operators; every result is printed as the exact rational
//!   value of the `f64` (`fmt::rat`).  `unit_dir`/`normal_dir` reply `err <variant>` or the canonical
//!   description `ok s <sign pattern> unit parallel` / `… unit normal ccw`: the sign pattern is exact;
//!   `unit`, `parallel`, `normal`, `ccw` are tolerance tests (1e-12) evaluated HERE only and printed as
//!   `NOT-unit` … when they fail, so that a failure shows up as a difference with the model.
//! * `geof <f64|f32> <op> <hex bit patterns…>` — float stream (implementation only): same operator
//!   table on arbitrary `f64`/`f32` values, results printed as bit patterns; the clauses of the property
//!   (bit-for-bit equalities, rounding bounds, orientation sign against exact rational evaluation, …)
//!   are evaluated by `tools/props/c19.py` with exact rational arithmetic.
//! * `geo flop <f64|f32> <add|sub|mul|div> <hex a> <hex b>` — one hardware operation, exact value of the
//!   result; tie of the idealised rounding `rnd 53` / `rnd 24` (Lean: `Model/Rounding.lean`) to the machine.
//! * `geof <ty> skew2|skew3 <start dart> <hex coordinates…>` — builds a one-face map (darts `1..n`
//!   1-linked in a cycle, vertex of dart `i` = i-th point) and calls the real skewness routine with
//!   `fid = start`.  `skew3g` builds the same face SHARED by two volumes: a second β1 cycle on darts
//!   `n+1..2n`, 3-linked to the first (`force_link::<3>(1, n+1)`); `start` may be a dart of either side.

use honeycomb_core::cmap::{CMap2, CMap3, CMapBuilder, DartIdType};
use honeycomb_core::geometry::{CoordsError, CoordsFloat, Vector2, Vector3, Vertex2, Vertex3};
use honeycomb_kernels::skewness::{compute_face_skewness_2d, compute_face_skewness_3d};

use crate::fmt::{parse_rat, rat};

pub trait Fl: CoordsFloat {
    fn from_hex(s: &str) -> Option<Self>;
    fn hex(self) -> String;
}

impl Fl for f64 {
    fn from_hex(s: &str) -> Option<Self> {
        u64::from_str_radix(s, 16).ok().map(f64::from_bits)
    }
    fn hex(self) -> String {
        format!("{:016x}", self.to_bits())
    }
}

impl Fl for f32 {
    fn from_hex(s: &str) -> Option<Self> {
        u32::from_str_radix(s, 16).ok().map(f32::from_bits)
    }
    fn hex(self) -> String {
        format!("{:08x}", self.to_bits())
    }
}

pub enum Res<T> {
    Vals(Vec<T>),
    Err(&'static str),
}

fn err_name(e: &CoordsError) -> &'static str {
    match e {
        CoordsError::InvalidUnitDir => "InvalidUnitDir",
        CoordsError::InvalidNormDir => "InvalidNormDir",
    }
}

fn o_v2<T: Fl>(v: Vector2<T>) -> Res<T> {
    Res::Vals(vec![v.x(), v.y()])
}
fn o_p2<T: Fl>(v: Vertex2<T>) -> Res<T> {
    Res::Vals(vec![v.x(), v.y()])
}
fn o_v3<T: Fl>(v: Vector3<T>) -> Res<T> {
    Res::Vals(vec![v.x(), v.y(), v.z()])
}
fn o_p3<T: Fl>(v: Vertex3<T>) -> Res<T> {
    Res::Vals(vec![v.x(), v.y(), v.z()])
}

/// the operator table: every public operator of the four types, on the real implementation
#[allow(clippy::too_many_lines)]
fn eval<T: Fl>(op: &str, a: &[T]) -> Option<Res<T>> {
    let v2 = |i: usize| Vector2(a[i], a[i + 1]);
    let p2 = |i: usize| Vertex2(a[i], a[i + 1]);
    let v3 = |i: usize| Vector3(a[i], a[i + 1], a[i + 2]);
    let p3 = |i: usize| Vertex3(a[i], a[i + 1], a[i + 2]);
    Some(match (op, a.len()) {
        // ---- Vector2
        ("v2unitx", 0) => o_v2(Vector2::<T>::unit_x()),
        ("v2unity", 0) => o_v2(Vector2::<T>::unit_y()),
        ("v2default", 0) => o_v2(Vector2::<T>::default()),
        ("v2tuple", 2) => {
            let (x, y) = Vector2::from((a[0], a[1])).into_inner();
            Res::Vals(vec![x, y])
        }
        ("v2add", 4) => o_v2(v2(0) + v2(2)),
        ("v2addassign", 4) => {
            let mut s = v2(0);
            s += v2(2);
            o_v2(s)
        }
        ("v2sub", 4) => o_v2(v2(0) - v2(2)),
        ("v2subassign", 4) => {
            let mut s = v2(0);
            s -= v2(2);
            o_v2(s)
        }
        ("v2mul", 3) => o_v2(v2(0) * a[2]),
        ("v2mulassign", 3) => {
            let mut s = v2(0);
            s *= a[2];
            o_v2(s)
        }
        ("v2div", 3) => o_v2(v2(0) / a[2]),
        ("v2divassign", 3) => {
            let mut s = v2(0);
            s /= a[2];
            o_v2(s)
        }
        ("v2neg", 2) => o_v2(-v2(0)),
        ("v2dot", 4) => Res::Vals(vec![v2(0).dot(&v2(2))]),
        ("v2norm", 2) => Res::Vals(vec![v2(0).norm()]),
        ("v2unitdir", 2) => match v2(0).unit_dir() {
            Ok(r) => o_v2(r),
            Err(e) => Res::Err(err_name(&e)),
        },
        ("v2normaldir", 2) => match v2(0).normal_dir() {
            Ok(r) => o_v2(r),
            Err(e) => Res::Err(err_name(&e)),
        },
        ("v2addsub", 4) => o_v2((v2(0) + v2(2)) - v2(0)),
        // ---- Vector3
        ("v3unitx", 0) => o_v3(Vector3::<T>::unit_x()),
        ("v3unity", 0) => o_v3(Vector3::<T>::unit_y()),
        ("v3unitz", 0) => o_v3(Vector3::<T>::unit_z()),
        ("v3default", 0) => o_v3(Vector3::<T>::default()),
        ("v3tuple", 3) => {
            let (x, y, z) = Vector3::from((a[0], a[1], a[2])).into_inner();
            Res::Vals(vec![x, y, z])
        }
        ("v3fromv2", 2) => o_v3(Vector3::from(v2(0))),
        ("v3add", 6) => o_v3(v3(0) + v3(3)),
        ("v3addassign", 6) => {
            let mut s = v3(0);
            s += v3(3);
            o_v3(s)
        }
        ("v3sub", 6) => o_v3(v3(0) - v3(3)),
        ("v3subassign", 6) => {
            let mut s = v3(0);
            s -= v3(3);
            o_v3(s)
        }
        ("v3mul", 4) => o_v3(v3(0) * a[3]),
        ("v3mulassign", 4) => {
            let mut s = v3(0);
            s *= a[3];
            o_v3(s)
        }
        ("v3div", 4) => o_v3(v3(0) / a[3]),
        ("v3divassign", 4) => {
            let mut s = v3(0);
            s /= a[3];
            o_v3(s)
        }
        ("v3neg", 3) => o_v3(-v3(0)),
        ("v3dot", 6) => Res::Vals(vec![v3(0).dot(&v3(3))]),
        ("v3norm", 3) => Res::Vals(vec![v3(0).norm()]),
        ("v3cross", 6) => o_v3(v3(0).cross(&v3(3))),
        ("v3unitdir", 3) => match v3(0).unit_dir() {
            Ok(r) => o_v3(r),
            Err(e) => Res::Err(err_name(&e)),
        },
        ("v3addsub", 6) => o_v3((v3(0) + v3(3)) - v3(0)),
        ("v3crossdot", 6) => {
            let c = v3(0).cross(&v3(3));
            Res::Vals(vec![c.dot(&v3(0)), c.dot(&v3(3))])
        }
        // ---- Vertex2
        ("p2default", 0) => o_p2(Vertex2::<T>::default()),
        ("p2tuple", 2) => {
            let (x, y) = Vertex2::from((a[0], a[1])).into_inner();
            Res::Vals(vec![x, y])
        }
        ("p2average", 4) => o_p2(Vertex2::average(&p2(0), &p2(2))),
        ("p2orient", 6) => Res::Vals(vec![Vertex2::cross_product_from_vertices(&p2(0), &p2(2), &p2(4))]),
        ("p2addv", 4) => o_p2(p2(0) + v2(2)),
        ("p2addvassign", 4) => {
            let mut s = p2(0);
            s += v2(2);
            o_p2(s)
        }
        ("p2addvref", 4) => {
            let v = v2(2);
            o_p2(p2(0) + &v)
        }
        ("p2addvrefassign", 4) => {
            let mut s = p2(0);
            let v = v2(2);
            s += &v;
            o_p2(s)
        }
        ("p2subv", 4) => o_p2(p2(0) - v2(2)),
        ("p2subvassign", 4) => {
            let mut s = p2(0);
            s -= v2(2);
            o_p2(s)
        }
        ("p2subvref", 4) => {
            let v = v2(2);
            o_p2(p2(0) - &v)
        }
        ("p2subvrefassign", 4) => {
            let mut s = p2(0);
            let v = v2(2);
            s -= &v;
            o_p2(s)
        }
        ("p2sub", 4) => o_v2(p2(0) - p2(2)),
        ("p2addsub", 4) => o_v2((p2(0) + v2(2)) - p2(0)),
        // ---- Vertex3
        ("p3default", 0) => o_p3(Vertex3::<T>::default()),
        ("p3tuple", 3) => {
            let (x, y, z) = Vertex3::from((a[0], a[1], a[2])).into_inner();
            Res::Vals(vec![x, y, z])
        }
        ("p3fromp2", 2) => o_p3(Vertex3::from(p2(0))),
        ("p3average", 6) => o_p3(Vertex3::average(&p3(0), &p3(3))),
        ("p3addv", 6) => o_p3(p3(0) + v3(3)),
        ("p3addvassign", 6) => {
            let mut s = p3(0);
            s += v3(3);
            o_p3(s)
        }
        ("p3addvref", 6) => {
            let v = v3(3);
            o_p3(p3(0) + &v)
        }
        ("p3addvrefassign", 6) => {
            let mut s = p3(0);
            let v = v3(3);
            s += &v;
            o_p3(s)
        }
        ("p3subv", 6) => o_p3(p3(0) - v3(3)),
        ("p3subvassign", 6) => {
            let mut s = p3(0);
            s -= v3(3);
            o_p3(s)
        }
        ("p3subvref", 6) => {
            let v = v3(3);
            o_p3(p3(0) - &v)
        }
        ("p3subvrefassign", 6) => {
            let mut s = p3(0);
            let v = v3(3);
            s -= &v;
            o_p3(s)
        }
        ("p3sub", 6) => o_v3(p3(0) - p3(3)),
        ("p3addsub", 6) => o_v3((p3(0) + v3(3)) - p3(0)),
        _ => return None,
    })
}

fn sgn(x: f64) -> i32 {
    if x > 0.0 {
        1
    } else if x < 0.0 {
        -1
    } else {
        0
    }
}

fn word(ok: bool, w: &str) -> String {
    if ok { w.to_string() } else { format!("NOT-{w}") }
}

const TOL: f64 = 1e-12;

/// canonical description of a successful `unit_dir` / `normal_dir` (exact stream)
fn describe_dir(op: &str, a: &[f64], r: &[f64]) -> String {
    let n2: f64 = r.iter().map(|x| x * x).sum::<f64>().sqrt();
    let unit = (n2 - 1.0).abs() <= TOL;
    let an: f64 = a.iter().map(|x| x * x).sum::<f64>().sqrt();
    match op {
        "v2unitdir" => {
            let cross = r[0] * a[1] - r[1] * a[0];
            let dot = r[0] * a[0] + r[1] * a[1];
            let par = cross.abs() <= TOL * an && dot > 0.0;
            format!("ok s {} {} {} {}", sgn(r[0]), sgn(r[1]), word(unit, "unit"), word(par, "parallel"))
        }
        "v2normaldir" => {
            let dot = r[0] * a[0] + r[1] * a[1];
            let cross = a[0] * r[1] - a[1] * r[0];
            let normal = dot.abs() <= TOL * an;
            let ccw = cross > 0.0;
            format!(
                "ok s {} {} {} {} {}",
                sgn(r[0]),
                sgn(r[1]),
                word(unit, "unit"),
                word(normal, "normal"),
                word(ccw, "ccw")
            )
        }
        _ => {
            // v3unitdir
            let c = [
                r[1] * a[2] - r[2] * a[1],
                r[2] * a[0] - r[0] * a[2],
                r[0] * a[1] - r[1] * a[0],
            ];
            let cn = c.iter().map(|x| x * x).sum::<f64>().sqrt();
            let dot = r[0] * a[0] + r[1] * a[1] + r[2] * a[2];
            let par = cn <= TOL * an && dot > 0.0;
            format!(
                "ok s {} {} {} {} {}",
                sgn(r[0]),
                sgn(r[1]),
                sgn(r[2]),
                word(unit, "unit"),
                word(par, "parallel")
            )
        }
    }
}

fn skew<T: Fl>(dim3: bool, glued: bool, start: DartIdType, c: &[T]) -> Option<String> {
    let k = if dim3 { 3 } else { 2 };
    if c.is_empty() || c.len() % k != 0 {
        return None;
    }
    let n = c.len() / k;
    let n_darts = if glued { 2 * n } else { n };
    if start == 0 || start as usize > n_darts {
        return None;
    }
    let r = if dim3 {
        let map: CMap3<T> = CMapBuilder::<3, T>::from_n_darts(n_darts).build().ok()?;
        for i in 1..=n {
            map.force_link::<1>(i as DartIdType, (i % n + 1) as DartIdType).ok()?;
            map.force_write_vertex(i as DartIdType, Vertex3(c[3 * (i - 1)], c[3 * (i - 1) + 1], c[3 * (i - 1) + 2]));
        }
        if glued {
            // the same face seen from a second volume: darts n+1..2n, a β1 cycle of the same length, 3-linked
            // to the first one (β3 pairs β1^t(1) with β0^t(n+1)); no coordinates: every vertex id stays the
            // smaller, first-side dart
            for i in 1..=n {
                map.force_link::<1>((n + i) as DartIdType, (n + i % n + 1) as DartIdType).ok()?;
            }
            map.force_link::<3>(1, (n + 1) as DartIdType).ok()?;
            for i in 1..=n {
                if map.vertex_id(i as DartIdType) != i as DartIdType {
                    return Some("err glued-face-vertex-ids".into());
                }
            }
        }
        compute_face_skewness_3d(&map, start)
    } else {
        let map: CMap2<T> = CMapBuilder::<2, T>::from_n_darts(n).build().ok()?;
        for i in 1..=n {
            map.force_link::<1>(i as DartIdType, (i % n + 1) as DartIdType).ok()?;
            map.force_write_vertex(i as DartIdType, Vertex2(c[2 * (i - 1)], c[2 * (i - 1) + 1]));
        }
        compute_face_skewness_2d(&map, start)
    };
    Some(format!("ok {}", r.hex()))
}

fn geof<T: Fl>(op: &str, args: &[&str]) -> String {
    if op == "skew2" || op == "skew3" || op == "skew3g" {
        let Some(start) = args.first().and_then(|s| s.parse::<DartIdType>().ok()) else {
            return "bad-op".into();
        };
        let Some(c) = args[1..].iter().map(|s| T::from_hex(s)).collect::<Option<Vec<T>>>() else {
            return "bad-op".into();
        };
        return skew::<T>(op != "skew2", op == "skew3g", start, &c).unwrap_or_else(|| "bad-op".into());
    }
    let Some(a) = args.iter().map(|s| T::from_hex(s)).collect::<Option<Vec<T>>>() else {
        return "bad-op".into();
    };
    match eval::<T>(op, &a) {
        None => "bad-op".into(),
        Some(Res::Err(e)) => format!("err {e}"),
        Some(Res::Vals(v)) => {
            let mut s = String::from("ok");
            for x in v {
                s.push(' ');
                s.push_str(&x.hex());
            }
            s
        }
    }
}

/// decimal text of `m * 2^k` (arbitrary size; base 10^9 limbs)
fn big_mul_pow2(m: u64, k: u32) -> String {
    const B: u64 = 1_000_000_000;
    let mut d: Vec<u32> = Vec::new();
    let mut mm = m;
    while mm > 0 {
        d.push((mm % B) as u32);
        mm /= B;
    }
    if d.is_empty() {
        d.push(0);
    }
    let mut k = k;
    while k > 0 {
        let s = k.min(29);
        let mut carry: u64 = 0;
        for x in d.iter_mut() {
            let v = (u64::from(*x) << s) + carry;
            *x = (v % B) as u32;
            carry = v / B;
        }
        while carry > 0 {
            d.push((carry % B) as u32);
            carry /= B;
        }
        k -= s;
    }
    let mut out = format!("{}", d[d.len() - 1]);
    for x in d.iter().rev().skip(1) {
        out.push_str(&format!("{x:09}"));
    }
    out
}

/// exact rational text of ANY finite f64 (`num` or `num/den`, den a power of two), `nan`, `inf`, `-inf`
pub fn exact(x: f64) -> String {
    if x.is_nan() {
        return "nan".into();
    }
    if x.is_infinite() {
        return if x > 0.0 { "inf".into() } else { "-inf".into() };
    }
    if x == 0.0 {
        return "0".into();
    }
    let bits = x.to_bits();
    let neg = (bits >> 63) != 0;
    let e = ((bits >> 52) & 0x7ff) as i64;
    let frac = bits & ((1u64 << 52) - 1);
    let (mut m, mut ex) = if e == 0 { (frac, -1074i64) } else { (frac | (1u64 << 52), e - 1075) };
    while m % 2 == 0 {
        m /= 2;
        ex += 1;
    }
    let sign = if neg { "-" } else { "" };
    if ex >= 0 {
        format!("{sign}{}", big_mul_pow2(m, ex as u32))
    } else {
        format!("{sign}{m}/{}", big_mul_pow2(1, (-ex) as u32))
    }
}

/// `geo flop <f64|f32> <add|sub|mul|div> <hex a> <hex b>`: ONE hardware operation on two floats given by
/// their bit patterns; reply = exact rational value of the result (compared with `rnd 53` / `rnd 24` of
/// the Lean model, and with the same definition in python).
fn flop(ty: &str, op: &str, a: &str, b: &str) -> String {
    fn run<T: Fl>(op: &str, a: &str, b: &str) -> Option<T> {
        let (x, y) = (T::from_hex(a)?, T::from_hex(b)?);
        if !x.is_finite() || !y.is_finite() {
            return None;
        }
        let (x, y) = (std::hint::black_box(x), std::hint::black_box(y));
        Some(match op {
            "add" => x + y,
            "sub" => x - y,
            "mul" => x * y,
            "div" => {
                if y.is_zero() {
                    return None;
                }
                x / y
            }
            _ => return None,
        })
    }
    let r: Option<f64> = match ty {
        "f64" => run::<f64>(op, a, b),
        "f32" => run::<f32>(op, a, b).map(f64::from),
        _ => None,
    };
    match r {
        Some(v) => format!("ok {}", exact(v)),
        None => "bad-op".into(),
    }
}

/// dispatch; `None` when the command is not ours
pub fn step(toks: &[&str]) -> Option<String> {
    match toks[0] {
        "geo" => {
            if toks.len() < 2 {
                return Some("bad-op".into());
            }
            if toks[1] == "flop" {
                return Some(if toks.len() == 6 { flop(toks[2], toks[3], toks[4], toks[5]) } else { "bad-op".into() });
            }
            let op = toks[1];
            let Some(a) = toks[2..].iter().map(|s| parse_rat(s)).collect::<Option<Vec<f64>>>() else {
                return Some("bad-op".into());
            };
            if op == "v2norm" || op == "v3norm" || op == "skew2" || op == "skew3" {
                return Some("bad-op".into()); // float stream only
            }
            Some(match eval::<f64>(op, &a) {
                None => "bad-op".into(),
                Some(Res::Err(e)) => format!("err {e}"),
                Some(Res::Vals(v)) => {
                    if op == "v2unitdir" || op == "v2normaldir" || op == "v3unitdir" {
                        describe_dir(op, &a, &v)
                    } else {
                        let mut s = String::from("ok");
                        for x in v {
                            s.push(' ');
                            s.push_str(&rat(x));
                        }
                        s
                    }
                }
            })
        }
        "geof" => {
            if toks.len() < 3 {
                return Some("bad-op".into());
            }
            Some(match toks[1] {
                "f64" => geof::<f64>(toks[2], &toks[3..]),
                "f32" => geof::<f32>(toks[2], &toks[3..]),
                _ => "bad-op".into(),
            })
        }
        _ => None,
    }
}
