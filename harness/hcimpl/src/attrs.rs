//! Test attribute types: values are interned terms of a free algebra, so that the exact tree of
//! merges / splits applied by the implementation is observable; every law call ticks a
//! thread-local fault countdown (C06).  The term table is process-global (the schedule explorer
//! `hcsched` of C07 runs transactions of one map on several threads).

use std::cell::Cell;
use std::sync::Mutex;

use honeycomb_core::attributes::{AttrSparseVec, AttributeBind, AttributeError, AttributeUpdate};
use honeycomb_core::cmap::{EdgeIdType, FaceIdType, OrbitPolicy, VertexIdType, VolumeIdType};

#[derive(Clone, Debug)]
pub enum Node {
    Leaf(u64),
    Mrg(u32, u32),
    Minc(u32),
    Mnone,
    Spl(u32),
    Spr(u32),
    Snl,
    Snr,
}

static TERMS: Mutex<Vec<Node>> = Mutex::new(Vec::new());

fn terms() -> std::sync::MutexGuard<'static, Vec<Node>> {
    TERMS.lock().unwrap_or_else(std::sync::PoisonError::into_inner)
}

thread_local! {
    /// 0 = disabled; k = the k-th law call from now fails
    pub static FAULT: Cell<u64> = const { Cell::new(0) };
    /// number of law calls since the last reset
    pub static CALLS: Cell<u64> = const { Cell::new(0) };
    /// `true` on the worker threads of hcsched (C07): a kernel's `retry()` really blocks / restarts under the scheduler
    /// instead of being reported as `retry` (which is what a single-threaded driver must do)
    pub static REAL_RETRY: Cell<bool> = const { Cell::new(false) };
}

pub fn real_retry() -> bool {
    REAL_RETRY.with(Cell::get)
}

pub fn intern(n: Node) -> u32 {
    let mut t = terms();
    t.push(n);
    (t.len() - 1) as u32
}

pub fn clear_terms() {
    terms().clear();
}

/// size of the term table / drop the terms interned after it had that size (hcsched resets a map between schedules)
pub fn terms_len() -> usize {
    terms().len()
}

pub fn truncate_terms(n: usize) {
    terms().truncate(n);
}

pub fn term_str(id: u32) -> String {
    let n = terms()[id as usize].clone();
    match n {
        Node::Leaf(k) => format!("{k}"),
        Node::Mrg(a, b) => format!("M({},{})", term_str(a), term_str(b)),
        Node::Minc(a) => format!("I({})", term_str(a)),
        Node::Mnone => "N".to_string(),
        Node::Spl(a) => format!("L({})", term_str(a)),
        Node::Spr(a) => format!("R({})", term_str(a)),
        Node::Snl => "NL".to_string(),
        Node::Snr => "NR".to_string(),
    }
}

/// returns true if this law call must fail
fn tick() -> bool {
    CALLS.with(|c| c.set(c.get() + 1));
    FAULT.with(|f| {
        let c = f.get();
        if c == 1 {
            true
        } else {
            if c > 1 {
                f.set(c - 1);
            }
            false
        }
    })
}

macro_rules! term_attr {
    ($name:ident, $idty:ty, $policy:expr, full) => {
        #[derive(Clone, Copy, Debug, PartialEq)]
        pub struct $name(pub u32);
        impl AttributeUpdate for $name {
            fn merge(a: Self, b: Self) -> Result<Self, AttributeError> {
                if tick() {
                    return Err(AttributeError::FailedMerge(stringify!($name), "injected"));
                }
                Ok(Self(intern(Node::Mrg(a.0, b.0))))
            }
            fn split(a: Self) -> Result<(Self, Self), AttributeError> {
                if tick() {
                    return Err(AttributeError::FailedSplit(stringify!($name), "injected"));
                }
                Ok((Self(intern(Node::Spl(a.0))), Self(intern(Node::Spr(a.0)))))
            }
            fn merge_incomplete(a: Self) -> Result<Self, AttributeError> {
                if tick() {
                    return Err(AttributeError::FailedMerge(stringify!($name), "injected"));
                }
                Ok(Self(intern(Node::Minc(a.0))))
            }
            fn merge_from_none() -> Result<Self, AttributeError> {
                if tick() {
                    return Err(AttributeError::FailedMerge(stringify!($name), "injected"));
                }
                Ok(Self(intern(Node::Mnone)))
            }
            fn split_from_none() -> Result<(Self, Self), AttributeError> {
                if tick() {
                    return Err(AttributeError::FailedSplit(stringify!($name), "injected"));
                }
                Ok((Self(intern(Node::Snl)), Self(intern(Node::Snr))))
            }
        }
        impl AttributeBind for $name {
            type StorageType = AttrSparseVec<Self>;
            type IdentifierType = $idty;
            const BIND_POLICY: OrbitPolicy = $policy;
        }
    };
    ($name:ident, $idty:ty, $policy:expr, default) => {
        #[derive(Clone, Copy, Debug, PartialEq)]
        pub struct $name(pub u32);
        impl AttributeUpdate for $name {
            fn merge(a: Self, b: Self) -> Result<Self, AttributeError> {
                if tick() {
                    return Err(AttributeError::FailedMerge(stringify!($name), "injected"));
                }
                Ok(Self(intern(Node::Mrg(a.0, b.0))))
            }
            fn split(a: Self) -> Result<(Self, Self), AttributeError> {
                if tick() {
                    return Err(AttributeError::FailedSplit(stringify!($name), "injected"));
                }
                Ok((Self(intern(Node::Spl(a.0))), Self(intern(Node::Spr(a.0)))))
            }
            // the three other laws keep the trait's defaults (InsufficientData), but still tick
            fn merge_incomplete(_: Self) -> Result<Self, AttributeError> {
                if tick() {
                    return Err(AttributeError::FailedMerge(stringify!($name), "injected"));
                }
                Err(AttributeError::InsufficientData("merge", stringify!($name)))
            }
            fn merge_from_none() -> Result<Self, AttributeError> {
                if tick() {
                    return Err(AttributeError::FailedMerge(stringify!($name), "injected"));
                }
                Err(AttributeError::InsufficientData("merge", stringify!($name)))
            }
            fn split_from_none() -> Result<(Self, Self), AttributeError> {
                if tick() {
                    return Err(AttributeError::FailedSplit(stringify!($name), "injected"));
                }
                Err(AttributeError::InsufficientData("split", stringify!($name)))
            }
        }
        impl AttributeBind for $name {
            type StorageType = AttrSparseVec<Self>;
            type IdentifierType = $idty;
            const BIND_POLICY: OrbitPolicy = $policy;
        }
    };
}

term_attr!(VTerm, VertexIdType, OrbitPolicy::Vertex, full);
term_attr!(ETerm, EdgeIdType, OrbitPolicy::Edge, default);
term_attr!(FTerm, FaceIdType, OrbitPolicy::Face, full);
term_attr!(CTerm, VolumeIdType, OrbitPolicy::Volume, full);
// bound through the LINEAR vertex policy on purpose: the attribute manager must treat it as a vertex attribute all the same
term_attr!(VDef, VertexIdType, OrbitPolicy::VertexLinear, default);
// bound to a CUSTOM orbit: the attribute manager keeps such storages in a bucket of their own (`others`), which no sew merges or
// splits but which allocation must extend like every other storage (C18); 2-D sessions only, storage 4 / mask bit 3
term_attr!(OTerm, honeycomb_core::cmap::DartIdType, OrbitPolicy::Custom(&[1]), full);
