//! VTK export / import (C11): `vtkexp`, `vtkimp`, `vtkrt` and the implementation-only variants
//! `vtkexp32`, `vtkrt32`, `vtkimpv`.  Must match `Honeycomb/Model/SessionVtk.lean`.
//!
//! Export goes through the public `CMap2::to_vtk_ascii` / `to_vtk_binary`; both texts are parsed
//! back with `vtkio` and must carry the same piece.  Import goes through the public
//! `CMapBuilder::<2, T>::from_vtk_file(path).build()`: the data of the request is put in a
//! `vtkio::Vtk` with one inline `UnstructuredGridPiece`, written (legacy ASCII and legacy binary)
//! to a temporary `.vtk` file; both files must give the same outcome and the same map.
//!
//! Data line: `<x y z>* ; <num_cells> ; <legacy vertex list> ; <type codes>`.

use std::panic::{AssertUnwindSafe, catch_unwind};

use honeycomb_core::cmap::{BuilderError, CMap2, CMapBuilder, DartIdType};
use honeycomb_core::geometry::CoordsFloat;
use vtkio::model::{
    Attributes, ByteOrder, CellType, Cells, DataSet, Piece, UnstructuredGridPiece, Version,
    VertexNumbers, Vtk,
};
use vtkio::IOBuffer;

use crate::Sess;
use crate::attrs::{ETerm, FTerm, VDef, VTerm};
use crate::fmt::{parse_rat, rat};
use crate::s2::S2;

#[derive(Clone, PartialEq, Debug)]
pub struct PieceData {
    /// flat coordinates, exact
    pub pts: Vec<f64>,
    /// the buffer was `IOBuffer::F32`
    pub f32buf: bool,
    pub num_cells: u32,
    pub verts: Vec<u32>,
    pub types: Vec<u8>,
}

fn bad_code(m: &str) -> u32 {
    match m {
        "vertex list contains an incomplete tuple" => 0,
        "different # of cell in CELLS and CELL_TYPES" => 1,
        "`Vertex` with incorrect # of vertices (!=1)" => 2,
        "`Line` with incorrect # of vertices (!=2)" => 3,
        "`Triangle` with incorrect # of vertices (!=3)" => 4,
        "`Quad` with incorrect # of vertices (!=4)" => 5,
        _ => 99,
    }
}

fn unsup_code(m: &str) -> u32 {
    match m {
        "dataset not supported" => 0,
        "not inlined data piece" => 1,
        "unsupported coordinate type" => 2,
        "`PolyVertex` cell type" => 3,
        "`PolyLine` cell type" => 4,
        "`TriangleStrip` cell type" => 5,
        "`Pixel` cell type" => 6,
        "CellType not supported in 2-maps" => 7,
        "XML format" => 8,
        _ => 99,
    }
}

fn vtk_err(e: &BuilderError) -> String {
    match e {
        BuilderError::BadVtkData(m) => format!("err BadVtkData {}", bad_code(m)),
        BuilderError::UnsupportedVtkData(m) => format!("err UnsupportedVtkData {}", unsup_code(m)),
        other => format!("err {other:?}").replace(' ', "_").replacen("err_", "err ", 1),
    }
}

/// the single inline piece of a parsed legacy file
fn extract(v: Vtk) -> Option<PieceData> {
    let DataSet::UnstructuredGrid { pieces, .. } = v.data else { return None };
    if pieces.len() != 1 {
        return None;
    }
    let p = pieces.into_iter().next()?.into_loaded_piece_data(None).ok()?;
    let (pts, f32buf) = match p.points {
        IOBuffer::F64(v) => (v, false),
        IOBuffer::F32(v) => (v.into_iter().map(f64::from).collect(), true),
        _ => return None,
    };
    let Cells { cell_verts, types } = p.cells;
    let VertexNumbers::Legacy { num_cells, vertices } = cell_verts else { return None };
    Some(PieceData { pts, f32buf, num_cells, verts: vertices, types: types.into_iter().map(|t| t as u8).collect() })
}

fn piece_str(p: &PieceData) -> String {
    let pts: Vec<String> = p.pts.iter().map(|x| rat(*x)).collect();
    let vs: Vec<String> = p.verts.iter().map(u32::to_string).collect();
    let ts: Vec<String> = p.types.iter().map(u8::to_string).collect();
    format!("{} ; {} ; {} ; {}", pts.join(" "), p.num_cells, vs.join(" "), ts.join(" "))
}

/// `to_vtk_ascii` and `to_vtk_binary`, parsed back; `Err` = the reply line
fn export_data<T: CoordsFloat + 'static>(m: &CMap2<T>, want_f32: bool) -> Result<PieceData, String> {
    let a = catch_unwind(AssertUnwindSafe(|| {
        let mut s = String::new();
        m.to_vtk_ascii(&mut s);
        s
    }));
    let b = catch_unwind(AssertUnwindSafe(|| {
        let mut v: Vec<u8> = Vec::new();
        m.to_vtk_binary(&mut v);
        v
    }));
    let (a, b) = match (a, b) {
        (Ok(a), Ok(b)) => (a, b),
        (Err(_), Err(_)) => return Err("panic".into()),
        (Ok(_), Err(_)) => return Err("mismatch ascii=ok binary=panic".into()),
        (Err(_), Ok(_)) => return Err("mismatch ascii=panic binary=ok".into()),
    };
    let pa = Vtk::parse_legacy_be(a.as_bytes()).ok().and_then(extract);
    let pb = Vtk::parse_legacy_be(&b[..]).ok().and_then(extract);
    match (pa, pb) {
        (Some(pa), Some(pb)) => {
            if pa != pb {
                return Err(format!("mismatch ascii=[{}] binary=[{}]", piece_str(&pa), piece_str(&pb)));
            }
            if pa.f32buf != want_f32 {
                return Err("wrong-buffer-type".into());
            }
            Ok(pa)
        }
        (None, None) => Err("vtkio-parse-error ascii binary".into()),
        (None, Some(_)) => Err("vtkio-parse-error ascii".into()),
        (Some(_), None) => Err("vtkio-parse-error binary".into()),
    }
}

fn to_vtk(p: &PieceData, f32buf: bool) -> Vtk {
    let points = if f32buf {
        IOBuffer::F32(p.pts.iter().map(|x| *x as f32).collect())
    } else {
        IOBuffer::F64(p.pts.clone())
    };
    let types: Vec<CellType> = p
        .types
        .iter()
        .map(|t| <CellType as num_traits::FromPrimitive>::from_u8(*t).expect("harness: unknown cell type code"))
        .collect();
    Vtk {
        version: Version::Legacy { major: 2, minor: 0 },
        title: "hcimpl".to_string(),
        byte_order: ByteOrder::BigEndian,
        data: DataSet::UnstructuredGrid {
            meta: None,
            pieces: vec![Piece::Inline(Box::new(UnstructuredGridPiece {
                points,
                cells: Cells {
                    cell_verts: VertexNumbers::Legacy { num_cells: p.num_cells, vertices: p.verts.clone() },
                    types,
                },
                data: Attributes::default(),
            }))],
        },
        file_path: None,
    }
}

pub enum Built<T: CoordsFloat> {
    Ok(CMap2<T>, u32),
    Other(String),
}

fn tmp_path(tag: &str) -> std::path::PathBuf {
    std::path::PathBuf::from("/tmp").join(format!("hcimpl-{}-{tag}.vtk", std::process::id()))
}

/// the user's path: a `.vtk` file, `from_vtk_file`, attributes, `build`
fn import_file<T: CoordsFloat + 'static>(p: &PieceData, f32buf: bool, mask: u32, binary: bool, tag: &str) -> Built<T> {
    let path = tmp_path(tag);
    let vtk = to_vtk(p, f32buf);
    let written = if binary {
        let mut v: Vec<u8> = Vec::new();
        vtk.write_legacy(&mut v).map(|()| v)
    } else {
        let mut s = String::new();
        vtk.write_legacy_ascii(&mut s).map(|()| s.into_bytes())
    };
    let Ok(bytes) = written else { return Built::Other("vtkio-write-error".into()) };
    std::fs::write(&path, bytes).expect("harness: cannot write temp file");
    // is the file readable at all? (`from_vtk_file` panics otherwise: outside the model)
    if Vtk::import(&path).is_err() {
        let _ = std::fs::remove_file(&path);
        return Built::Other("vtkio-parse-error".into());
    }
    let b = catch_unwind(AssertUnwindSafe(|| CMapBuilder::<2, T>::from_vtk_file(&path)));
    let _ = std::fs::remove_file(&path);
    let Ok(mut b) = b else { return Built::Other("panic".into()) };
    if mask & 1 != 0 {
        b = b.add_attribute::<VTerm>();
    }
    if mask & 2 != 0 {
        b = b.add_attribute::<ETerm>();
    }
    if mask & 4 != 0 {
        b = b.add_attribute::<FTerm>();
    }
    if mask & 16 != 0 {
        b = b.add_attribute::<VDef>();
    }
    match catch_unwind(AssertUnwindSafe(|| b.build())) {
        Ok(Ok(m)) => {
            let mut eff = 0;
            if m.contains_attribute::<VTerm>() {
                eff |= 1;
            }
            if m.contains_attribute::<ETerm>() {
                eff |= 2;
            }
            if m.contains_attribute::<FTerm>() {
                eff |= 4;
            }
            if m.contains_attribute::<VDef>() {
                eff |= 16;
            }
            Built::Ok(m, eff)
        }
        Ok(Err(e)) => Built::Other(vtk_err(&e)),
        Err(_) => Built::Other("panic".into()),
    }
}

fn same_map<T: CoordsFloat + 'static>(a: &CMap2<T>, b: &CMap2<T>) -> bool {
    if a.n_darts() != b.n_darts() {
        return false;
    }
    let n = a.n_darts() as DartIdType;
    for d in 0..n {
        if a.beta::<0>(d) != b.beta::<0>(d) || a.beta::<1>(d) != b.beta::<1>(d) || a.beta::<2>(d) != b.beta::<2>(d) {
            return false;
        }
        if a.is_unused(d) != b.is_unused(d) {
            return false;
        }
        match (a.force_read_vertex(d), b.force_read_vertex(d)) {
            (None, None) => {}
            (Some(p), Some(q)) => {
                if p.x().to_f64().unwrap().to_bits() != q.x().to_f64().unwrap().to_bits()
                    || p.y().to_f64().unwrap().to_bits() != q.y().to_f64().unwrap().to_bits()
                {
                    return false;
                }
            }
            _ => return false,
        }
    }
    true
}

/// ASCII and binary files must agree
fn import_both<T: CoordsFloat + 'static>(p: &PieceData, f32buf: bool, mask: u32, tag: &str) -> Built<T> {
    let a = import_file::<T>(p, f32buf, mask, false, &format!("{tag}a"));
    let b = import_file::<T>(p, f32buf, mask, true, &format!("{tag}b"));
    match (a, b) {
        (Built::Ok(ma, ea), Built::Ok(mb, eb)) => {
            if ea == eb && same_map(&ma, &mb) {
                Built::Ok(ma, ea)
            } else {
                Built::Other("mismatch ascii/binary maps differ".into())
            }
        }
        (Built::Other(x), Built::Other(y)) => {
            if x == y {
                Built::Other(x)
            } else {
                Built::Other(format!("mismatch ascii=[{x}] binary=[{y}]"))
            }
        }
        (Built::Ok(..), Built::Other(y)) => Built::Other(format!("mismatch ascii=[ok] binary=[{y}]")),
        (Built::Other(x), Built::Ok(..)) => Built::Other(format!("mismatch ascii=[{x}] binary=[ok]")),
    }
}

/// copy of a map with another coordinate type (structure through the public API)
fn convert<A: CoordsFloat, B: CoordsFloat>(m: &CMap2<A>) -> CMap2<B> {
    let n = m.n_darts();
    let r: CMap2<B> = CMapBuilder::<2, B>::from_n_darts(n - 1).build().unwrap();
    for d in 0..n as DartIdType {
        r.set_betas(d, [m.beta::<0>(d), m.beta::<1>(d), m.beta::<2>(d)]);
    }
    for d in 0..n as DartIdType {
        if let Some(v) = m.force_read_vertex(d) {
            r.force_write_vertex(
                d,
                (B::from(v.x().to_f64().unwrap()).unwrap(), B::from(v.y().to_f64().unwrap()).unwrap()),
            );
        }
    }
    for d in 1..n as DartIdType {
        if m.is_unused(d) {
            // `remove_free_dart` asserts freeness; set the flag through the transactional variant
            let _ = honeycomb_core::stm::atomically(|t| r.remove_free_dart_transac(t, d));
        }
    }
    r
}

fn install(sess: &mut Sess, map: CMap2<f64>, eff: u32) -> String {
    crate::attrs::clear_terms();
    crate::attrs::FAULT.with(|f| f.set(0));
    let mut s = S2::new(0, eff);
    s.map = map;
    *sess = Sess::D2(s);
    format!("ok {eff}")
}

fn parse_data(toks: &[&str]) -> Option<PieceData> {
    let groups: Vec<&[&str]> = toks.split(|t| *t == ";").collect();
    if groups.len() != 4 || groups[1].len() != 1 {
        return None;
    }
    let mut pts = Vec::with_capacity(groups[0].len());
    for t in groups[0] {
        pts.push(parse_rat(t)?);
    }
    if pts.len() % 3 != 0 {
        return None;
    }
    let num_cells: u32 = groups[1][0].parse().ok()?;
    let mut verts = Vec::with_capacity(groups[2].len());
    for t in groups[2] {
        verts.push(t.parse::<u32>().ok()?);
    }
    let mut types = Vec::with_capacity(groups[3].len());
    for t in groups[3] {
        let c: u8 = t.parse().ok()?;
        <CellType as num_traits::FromPrimitive>::from_u8(c)?;
        types.push(c);
    }
    if num_cells as usize > verts.len() {
        return None;
    }
    Some(PieceData { pts, f32buf: false, num_cells, verts, types })
}

pub fn step(sess: &mut Sess, toks: &[&str]) -> Option<String> {
    match toks {
        ["vtkexp"] => {
            let Sess::D2(s) = sess else { return Some("bad-op".into()) };
            Some(match export_data(&s.map, false) {
                Ok(p) => format!("ok {}", piece_str(&p)),
                Err(e) => e,
            })
        }
        ["vtkascii"] => {
            // the tokens of the real ASCII text; the 3n tokens after `POINTS n <type>` are rewritten as exact rationals
            let Sess::D2(s) = sess else { return Some("bad-op".into()) };
            let text = catch_unwind(AssertUnwindSafe(|| {
                let mut t = String::new();
                s.map.to_vtk_ascii(&mut t);
                t
            }));
            let Ok(text) = text else { return Some("panic".into()) };
            let mut toks: Vec<String> = text.split_ascii_whitespace().map(str::to_string).collect();
            if let Some(i) = toks.iter().position(|t| t == "POINTS") {
                if let Some(n) = toks.get(i + 1).and_then(|t| t.parse::<usize>().ok()) {
                    for k in (i + 3)..(i + 3 + 3 * n).min(toks.len()) {
                        toks[k] = match toks[k].parse::<f64>() {
                            Ok(x) => rat(x),
                            Err(_) => format!("unparsable:{}", toks[k]),
                        };
                    }
                }
            }
            Some(format!("ok {}", toks.join(" ")))
        }
        ["vtkrt"] => {
            let Sess::D2(s) = sess else { return Some("bad-op".into()) };
            let p = match export_data(&s.map, false) {
                Ok(p) => p,
                Err(e) => return Some(e),
            };
            Some(match import_both::<f64>(&p, false, 0, "rt") {
                Built::Ok(m, eff) => install(sess, m, eff),
                Built::Other(e) => e,
            })
        }
        ["vtkimp", mask, rest @ ..] => {
            let Ok(mask) = mask.parse::<u32>() else { return Some("bad-op".into()) };
            let Some(p) = parse_data(rest) else { return Some("bad-op".into()) };
            Some(match import_both::<f64>(&p, false, mask, "imp") {
                Built::Ok(m, eff) => install(sess, m, eff),
                Built::Other(e) => e,
            })
        }
        // ---- implementation-only (the model answers `bad-op`) ----
        ["vtkexp32"] => {
            // the session's map with `f32` coordinates
            let Sess::D2(s) = sess else { return Some("bad-op".into()) };
            let Ok(m32) = catch_unwind(AssertUnwindSafe(|| convert::<f64, f32>(&s.map))) else { return Some("panic".into()) };
            Some(match export_data(&m32, true) {
                Ok(p) => format!("ok {}", piece_str(&p)),
                Err(e) => e,
            })
        }
        ["vtkrt32"] => {
            let Sess::D2(s) = sess else { return Some("bad-op".into()) };
            let Ok(m32) = catch_unwind(AssertUnwindSafe(|| convert::<f64, f32>(&s.map))) else { return Some("panic".into()) };
            let p = match export_data(&m32, true) {
                Ok(p) => p,
                Err(e) => return Some(e),
            };
            Some(match import_both::<f32>(&p, true, 0, "rt32") {
                Built::Ok(m, eff) => install(sess, convert::<f32, f64>(&m), eff),
                Built::Other(e) => e,
            })
        }
        ["vtkimpv", ty, buf, mask, rest @ ..] => {
            // `ty` = 32 | 64: coordinate type of the map; `buf` = 32 | 64: type of the POINTS buffer
            let Ok(mask) = mask.parse::<u32>() else { return Some("bad-op".into()) };
            let Some(p) = parse_data(rest) else { return Some("bad-op".into()) };
            let f32buf = match *buf {
                "32" => true,
                "64" => false,
                _ => return Some("bad-op".into()),
            };
            Some(match *ty {
                "64" => match import_both::<f64>(&p, f32buf, mask, "impv") {
                    Built::Ok(m, eff) => install(sess, m, eff),
                    Built::Other(e) => e,
                },
                "32" => match import_both::<f32>(&p, f32buf, mask, "impv") {
                    Built::Ok(m, eff) => install(sess, convert::<f32, f64>(&m), eff),
                    Built::Other(e) => e,
                },
                _ => "bad-op".into(),
            })
        }
        _ => None,
    }
}
