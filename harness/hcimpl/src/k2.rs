//! 2-D kernels of `honeycomb-kernels` (C13, C14) on the line protocol; see
//! `Honeycomb/Model/SessionKernels.lean` for the command syntax.  All commands are transactional
//! closures over the caller's `Transaction` (single op = one `atomically_with_err`, or inside
//! `tx … endtx`).

use honeycomb_core::cmap::DartIdType;
use honeycomb_core::stm::Transaction;
use honeycomb_kernels::cell_insertion::{
    VertexInsertionError, insert_vertex_on_edge, insert_vertices_on_edge,
};
use honeycomb_kernels::triangulation::{
    TriangulateError, earclip_cell_countercw, earclip_cell_cw, fan_cell, fan_convex_cell,
};

use crate::fmt::{parse_rat, sew_err};
use crate::s2::{S2, TxRes, conv, d};

fn slug(s: &str) -> String {
    s.replace(' ', "-")
}

pub fn vins_err(e: &VertexInsertionError) -> String {
    match e {
        VertexInsertionError::FailedCoreOp(e) => sew_err(e),
        VertexInsertionError::VertexBound => "err VertexBound".into(),
        VertexInsertionError::UndefinedEdge => "err UndefinedEdge".into(),
        VertexInsertionError::InvalidDarts(msg) => format!("err InvalidDarts {}", slug(msg)),
        VertexInsertionError::WrongAmountDarts(a, b) => format!("err WrongAmountDarts {a} {b}"),
    }
}

pub fn tri_err(e: &TriangulateError) -> String {
    match e {
        TriangulateError::AlreadyTriangulated => "err AlreadyTriangulated".into(),
        TriangulateError::NoEar => "err NoEar".into(),
        TriangulateError::NonFannable => "err NonFannable".into(),
        TriangulateError::NotEnoughDarts(k) => format!("err NotEnoughDarts {k}"),
        TriangulateError::TooManyDarts(k) => format!("err TooManyDarts {k}"),
        TriangulateError::UndefinedFace(msg) => format!("err UndefinedFace {}", slug(msg)),
        TriangulateError::OpFailed(e) => sew_err(e),
    }
}

/// `<k> <d_1 … d_k> rest…`
fn take_darts<'a>(toks: &'a [&'a str]) -> Option<(Vec<DartIdType>, &'a [&'a str])> {
    let k: usize = toks.first()?.parse().ok()?;
    let rest = &toks[1..];
    if rest.len() < k {
        return None;
    }
    let mut ds = Vec::with_capacity(k);
    for t in &rest[..k] {
        ds.push(d(t)?);
    }
    Some((ds, &rest[k..]))
}

pub fn tx_op(s: &S2, t: &mut Transaction, toks: &[&str]) -> Option<TxRes> {
    let m = &s.map;
    Some(match toks {
        ["insv", e, nd1, nd2, pos] => {
            let (e, nd1, nd2) = (d(e)?, d(nd1)?, d(nd2)?);
            let pos = if *pos == "-" { None } else { Some(parse_rat(pos)?) };
            conv(insert_vertex_on_edge(m, t, e, (nd1, nd2), pos), vins_err).map(|()| String::new())
        }
        ["insvs", e, rest @ ..] => {
            let e = d(e)?;
            let (ds, rest) = take_darts(rest)?;
            let mut ts = Vec::with_capacity(rest.len());
            for x in rest {
                ts.push(parse_rat(x)?);
            }
            conv(insert_vertices_on_edge(m, t, e, &ds, &ts), vins_err).map(|()| String::new())
        }
        ["fan", f, rest @ ..] => {
            let f = d(f)?;
            let (ds, rest) = take_darts(rest)?;
            if !rest.is_empty() {
                return None;
            }
            conv(fan_cell(t, m, f, &ds), tri_err).map(|()| String::new())
        }
        ["fanconvex", f, rest @ ..] => {
            let f = d(f)?;
            let (ds, rest) = take_darts(rest)?;
            if !rest.is_empty() {
                return None;
            }
            conv(fan_convex_cell(t, m, f, &ds), tri_err).map(|()| String::new())
        }
        ["earclip", o, f, rest @ ..] => {
            let f = d(f)?;
            let (ds, rest) = take_darts(rest)?;
            if !rest.is_empty() {
                return None;
            }
            match *o {
                "ccw" => conv(earclip_cell_countercw(t, m, f, &ds), tri_err).map(|()| String::new()),
                "cw" => conv(earclip_cell_cw(t, m, f, &ds), tri_err).map(|()| String::new()),
                _ => return None,
            }
        }
        _ => return None,
    })
}
