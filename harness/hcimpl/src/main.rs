//! `hcimpl` — drives the real honeycomb implementation through the line protocol of
//! DESIGN.md §3.3.  One input line = one operation, one output line per input line.

mod attrs;
mod cmapio;
mod fmt;
mod geo;
mod grid;
mod gris;
mod k2;
mod k3;
mod s2;
mod s3;
mod vtk;

use std::io::{BufRead, BufWriter, Write};

pub enum Sess {
    None,
    D2(s2::S2),
    D3(s3::S3),
}

fn main() {
    // HC_PANIC_VERBOSE=1 keeps the default hook (panic message and location on stderr) for investigating a replay
    if std::env::var_os("HC_PANIC_VERBOSE").is_none() {
        std::panic::set_hook(Box::new(|_| {}));
    }
    let stdin = std::io::stdin();
    let stdout = std::io::stdout();
    let mut out = BufWriter::with_capacity(1 << 20, stdout.lock());
    let mut sess = Sess::None;
    for line in stdin.lock().lines() {
        let line = line.unwrap();
        let t = line.trim();
        if t.is_empty() || t.starts_with('#') {
            writeln!(out, "{t}").unwrap();
            continue;
        }
        let toks: Vec<&str> = t.split_ascii_whitespace().collect();
        let res = match std::panic::catch_unwind(std::panic::AssertUnwindSafe(|| step(&mut sess, &toks))) {
            Ok(r) => r,
            Err(_) => "panic".to_string(),
        };
        writeln!(out, "{res}").unwrap();
    }
    out.flush().unwrap();
}

fn step(sess: &mut Sess, toks: &[&str]) -> String {
    if let Some(r) = geo::step(toks) {
        return r;
    }
    if let Some(r) = cmapio::step(sess, toks) {
        return r;
    }
    if let Some(r) = grid::step(sess, toks) {
        return r;
    }
    if let Some(r) = vtk::step(sess, toks) {
        return r;
    }
    if let Some(r) = gris::step(sess, toks) {
        return r;
    }
    if toks[0] == "load" {
        // load <dim> <n> <mask> b0.. ; b1.. ; b2.. [; b3..] ; u..
        if toks.len() < 4 {
            return "bad-op".into();
        }
        let (Ok(dim), Ok(n), Ok(mask)) = (
            toks[1].parse::<usize>(),
            toks[2].parse::<usize>(),
            toks[3].parse::<u32>(),
        ) else {
            return "bad-op".into();
        };
        let groups: Vec<Vec<u32>> = toks[4..]
            .split(|t| *t == ";")
            .map(|g| g.iter().filter_map(|t| t.parse().ok()).collect())
            .collect();
        if groups.len() != dim + 2 || groups.iter().any(|g| g.len() != n + 1) {
            return "bad-op".into();
        }
        attrs::clear_terms();
        attrs::FAULT.with(|f| f.set(0));
        match dim {
            2 => {
                *sess = Sess::D2(s2::S2::load(n, mask, &groups));
                "ok".into()
            }
            3 => {
                *sess = Sess::D3(s3::S3::load(n, mask, &groups));
                "ok".into()
            }
            _ => "bad-op".into(),
        }
    } else if toks[0] == "new" {
        if toks.len() != 4 {
            return "bad-op".into();
        }
        let (Ok(dim), Ok(n), Ok(mask)) = (
            toks[1].parse::<usize>(),
            toks[2].parse::<usize>(),
            toks[3].parse::<u32>(),
        ) else {
            return "bad-op".into();
        };
        attrs::clear_terms();
        attrs::FAULT.with(|f| f.set(0));
        match dim {
            2 => {
                *sess = Sess::D2(s2::S2::new(n, mask));
                "ok".into()
            }
            3 => {
                *sess = Sess::D3(s3::S3::new(n, mask));
                "ok".into()
            }
            _ => "bad-op".into(),
        }
    } else {
        match sess {
            Sess::None => "bad-op".into(),
            Sess::D2(s) => s.step(toks),
            Sess::D3(s) => s.step(toks),
        }
    }
}
