//! Canonical text for values and errors (must match `Honeycomb/Model/Session.lean`).

use honeycomb_core::attributes::AttributeError;
use honeycomb_core::cmap::{LinkError, SewError};

/// exact rational text of an f64: `num` or `num/den` (den a power of two), `nan`, `inf`, `-inf`;
/// values that do not fit 120 bits are printed as raw bits.
pub fn rat(x: f64) -> String {
    if x.is_nan() {
        return "nan".into();
    }
    if x.is_infinite() {
        return if x > 0.0 { "inf".into() } else { "-inf".into() };
    }
    if x == 0.0 {
        return "0".into();
    }
    let bits = x.to_bits();
    let neg = (bits >> 63) != 0;
    let e = ((bits >> 52) & 0x7ff) as i64;
    let frac = bits & ((1u64 << 52) - 1);
    let (mut m, mut ex) = if e == 0 {
        (frac as u128, -1074i64)
    } else {
        ((frac | (1u64 << 52)) as u128, e - 1075)
    };
    while m % 2 == 0 && ex < 0 {
        m /= 2;
        ex += 1;
    }
    if ex >= 0 {
        if ex > 60 {
            return format!("bits:{bits:016x}");
        }
        let v = m << ex;
        format!("{}{}", if neg { "-" } else { "" }, v)
    } else {
        if -ex > 100 {
            return format!("bits:{bits:016x}");
        }
        let den = 1u128 << (-ex);
        format!("{}{}/{}", if neg { "-" } else { "" }, m, den)
    }
}

pub fn parse_rat(s: &str) -> Option<f64> {
    let mut it = s.split('/');
    // 128-bit: the tolerance-based streams of C16 hand over rationals whose numerator exceeds 64 bits (the quotient is then
    // the nearest double up to two roundings; the exact streams only use numerators below 2^53, converted exactly)
    let a: f64 = it.next()?.parse::<i128>().ok()? as f64;
    match it.next() {
        None => Some(a),
        Some(b) => {
            let b: f64 = b.parse::<u128>().ok()? as f64;
            if b == 0.0 { None } else { Some(a / b) }
        }
    }
}

pub fn attr_err(e: &AttributeError) -> String {
    match e {
        AttributeError::FailedMerge(..) => "err FailedMerge".into(),
        AttributeError::FailedSplit(..) => "err FailedSplit".into(),
        AttributeError::InsufficientData(..) => "err InsufficientData".into(),
    }
}

pub fn link_err(e: &LinkError) -> String {
    match e {
        LinkError::NonFreeBase(i, l, r) => format!("err NonFreeBase {i} {l} {r}"),
        LinkError::NonFreeImage(i, l, r) => format!("err NonFreeImage {i} {l} {r}"),
        LinkError::AlreadyFree(i, l) => format!("err AlreadyFree {i} {l}"),
        LinkError::AsymmetricalFaces(l, r) => format!("err AsymmetricalFaces {l} {r}"),
    }
}

pub fn sew_err(e: &SewError) -> String {
    match e {
        SewError::BadGeometry(i, l, r) => format!("err BadGeometry {i} {l} {r}"),
        SewError::FailedLink(e) => link_err(e),
        SewError::FailedAttributeOp(e) => attr_err(e),
    }
}
