//! Grid builders (C12):
//!
//! `grid <dim> <split 0|1> <mask> <form> <origin…> [<n_cells…>] [<len_per_cell…>] [<lens…>]`
//!
//! `form` names the descriptor fields that are set (groups of `dim` values, in the order n_cells,
//! len_per_cell, lens): `ncl nl lpl n cl l none all`.  Drives the public API
//! `CMapBuilder::from_grid_descriptor(GridDescriptor::default()…).add_attribute…().build()`.
//! Result `ok` (the session now holds the map) / `err <variant> [kind axis]` / `panic` (caught by
//! `main`); must match `Honeycomb/Model/SessionGrid.lean`.

use honeycomb_core::cmap::{BuilderError, CMapBuilder, GridDescriptor};

use crate::attrs::{self, ETerm, FTerm, VDef, VTerm};
use crate::fmt::parse_rat;
use crate::{Sess, s2, s3};

fn form(s: &str) -> Option<(bool, bool, bool)> {
    Some(match s {
        "ncl" => (true, true, false),
        "nl" => (true, false, true),
        "lpl" => (false, true, true),
        "n" => (true, false, false),
        "cl" => (false, true, false),
        "l" => (false, false, true),
        "none" => (false, false, false),
        "all" => (true, true, true),
        _ => return None,
    })
}

/// `InvalidGridParameters(msg)` ↦ `kind axis` (kind 0 = length per cell, 1 = total length)
fn builder_err(e: &BuilderError) -> String {
    match e {
        BuilderError::MissingGridParameters => "err MissingGridParameters".into(),
        BuilderError::InvalidGridParameters(msg) => {
            let code = match *msg {
                "length per x cell is null or negative" => "0 0",
                "length per y cell is null or negative" => "0 1",
                "length per z cell is null or negative" => "0 2",
                "grid length along x is null or negative" => "1 0",
                "grid length along y is null or negative" => "1 1",
                "grid length along z is null or negative" => "1 2",
                other => return format!("err InvalidGridParameters ?{}", other.replace(' ', "_")),
            };
            format!("err InvalidGridParameters {code}")
        }
        other => format!("err {other:?}").replace(' ', "_").replacen("err_", "err ", 1),
    }
}

fn rats<const D: usize>(t: &[&str]) -> Option<[f64; D]> {
    let mut r = [0.0; D];
    for k in 0..D {
        r[k] = parse_rat(t[k])?;
    }
    Some(r)
}

fn nats<const D: usize>(t: &[&str]) -> Option<[usize; D]> {
    let mut r = [0usize; D];
    for k in 0..D {
        r[k] = t[k].parse().ok()?;
    }
    Some(r)
}

fn descriptor<const D: usize>(f: (bool, bool, bool), split: bool, p: &[&str]) -> Option<GridDescriptor<D, f64>> {
    let groups = 1 + usize::from(f.0) + usize::from(f.1) + usize::from(f.2);
    if p.len() != D * groups {
        return None;
    }
    let mut gd = GridDescriptor::<D, f64>::default().origin(rats::<D>(&p[0..D])?).split_cells(split);
    let mut at = D;
    if f.0 {
        gd = gd.n_cells(nats::<D>(&p[at..at + D])?);
        at += D;
    }
    if f.1 {
        gd = gd.len_per_cell(rats::<D>(&p[at..at + D])?);
        at += D;
    }
    if f.2 {
        gd = gd.lens(rats::<D>(&p[at..at + D])?);
    }
    Some(gd)
}

pub fn step(sess: &mut Sess, toks: &[&str]) -> Option<String> {
    if toks[0] != "grid" {
        return None;
    }
    if toks.len() < 5 {
        return Some("bad-op".into());
    }
    let (Ok(dim), Ok(split), Ok(mask), Some(f)) =
        (toks[1].parse::<usize>(), toks[2].parse::<u32>(), toks[3].parse::<u32>(), form(toks[4]))
    else {
        return Some("bad-op".into());
    };
    if split > 1 {
        return Some("bad-op".into());
    }
    let p = &toks[5..];
    Some(match dim {
        2 => {
            let Some(gd) = descriptor::<2>(f, split == 1, p) else { return Some("bad-op".into()) };
            let mut b = CMapBuilder::<2, f64>::from_grid_descriptor(gd);
            if mask & 1 != 0 {
                b = b.add_attribute::<VTerm>();
            }
            if mask & 2 != 0 {
                b = b.add_attribute::<ETerm>();
            }
            if mask & 4 != 0 {
                b = b.add_attribute::<FTerm>();
            }
            if mask & 16 != 0 {
                b = b.add_attribute::<VDef>();
            }
            b = crate::k3::add_anchor_attrs(b, mask);
            // a panic inside `build` unwinds to `main` (output `panic`, session unchanged)
            match b.build() {
                Ok(map) => {
                    attrs::clear_terms();
                    attrs::FAULT.with(|x| x.set(0));
                    let mut s = s2::S2::new(0, mask);
                    s.map = map;
                    *sess = Sess::D2(s);
                    "ok".into()
                }
                Err(e) => builder_err(&e),
            }
        }
        3 => {
            let Some(gd) = descriptor::<3>(f, split == 1, p) else { return Some("bad-op".into()) };
            let b = s3::add_attrs(CMapBuilder::<3, f64>::from_grid_descriptor(gd), mask);
            match b.build() {
                Ok(map) => {
                    attrs::clear_terms();
                    attrs::FAULT.with(|x| x.set(0));
                    *sess = Sess::D3(s3::S3::from_map(map, mask));
                    "ok".into()
                }
                Err(e) => builder_err(&e),
            }
        }
        _ => "bad-op".into(),
    })
}
