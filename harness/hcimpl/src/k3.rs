//! Remeshing primitives of `honeycomb-kernels` (C15) and transactional anchor accessors on the
//! line protocol; see `Honeycomb/Model/SessionRemesh.lean` for the command syntax.  All commands
//! are transactional closures over the caller's `Transaction` (single op = one
//! `atomically_with_err`, or inside `tx … endtx`).
//!
//! `StmError::Retry` (the kernels call `retry()` when a vertex or an anchor is undefined) would
//! make `atomically_with_err` wait for a change forever in a single-threaded driver: it is turned
//! into an abort whose message is `retry`, so that the transaction is dropped and the line reads
//! `retry` / `tx retry` as in the model.

use std::fmt::Debug;

use honeycomb_core::cmap::{CMapBuilder, DartIdType};
use honeycomb_core::stm::{StmError, Transaction, TransactionClosureResult, TransactionError};
use honeycomb_kernels::remeshing::{EdgeSwapError, collapse_edge, cut_inner_edge, cut_outer_edge, swap_edge};
use honeycomb_kernels::utils::{EdgeAnchor, FaceAnchor, VertexAnchor};

use crate::fmt::sew_err;
use crate::s2::{S2, TxRes, d};

fn slug(s: &str) -> String {
    s.replace(' ', "-")
}

/// like `s2::conv`, with `Retry` reported instead of waited for
fn convr<T, E>(r: TransactionClosureResult<T, E>, f: impl Fn(&E) -> String) -> TransactionClosureResult<T, String> {
    r.map_err(|e| match e {
        TransactionError::Abort(e) => TransactionError::Abort(f(&e)),
        TransactionError::Stm(StmError::Retry) if !crate::attrs::real_retry() => TransactionError::Abort("retry".to_string()),
        TransactionError::Stm(s) => TransactionError::Stm(s),
    })
}

fn stmr<T>(r: honeycomb_core::stm::StmClosureResult<T>) -> TransactionClosureResult<T, String> {
    r.map_err(|e| match e {
        StmError::Retry if !crate::attrs::real_retry() => TransactionError::Abort("retry".to_string()),
        s => TransactionError::Stm(s),
    })
}

fn swap_err(e: &EdgeSwapError) -> String {
    match e {
        EdgeSwapError::FailedCoreOp(e) => sew_err(e),
        EdgeSwapError::NullEdge => "err NullEdge".into(),
        EdgeSwapError::IncompleteEdge => "err IncompleteEdge".into(),
        EdgeSwapError::BadTopology => "err BadTopology".into(),
    }
}

/// `EdgeCollapseError` is not exported by `honeycomb_kernels::remeshing` (only `collapse_edge` is),
/// so the variant cannot be matched: the canonical text is rebuilt from the `Debug` form
/// (`FailedCoreOp(FailedLink(AlreadyFree(2, 5)))`, `NonCollapsibleEdge("…")`, `NullEdge`, …):
/// wrappers are peeled, the innermost variant keeps its numeric payload, attribute errors keep
/// only their kind, message payloads are slugged.
fn debug_err<E: Debug>(e: &E) -> String {
    let mut s = format!("{e:?}");
    for w in ["FailedCoreOp(", "FailedLink(", "FailedAttributeOp("] {
        if let Some(rest) = s.strip_prefix(w) {
            s = rest.strip_suffix(')').unwrap_or(rest).to_string();
        }
    }
    let (name, args) = match s.find('(') {
        Some(i) => (s[..i].to_string(), s[i + 1..].strip_suffix(')').unwrap_or(&s[i + 1..]).to_string()),
        None => (s.clone(), String::new()),
    };
    match name.as_str() {
        "FailedMerge" | "FailedSplit" | "InsufficientData" => format!("err {name}"),
        "NonCollapsibleEdge" => format!("err NonCollapsibleEdge {}", slug(args.trim_matches('"'))),
        _ => {
            let nums: Vec<&str> = args.split(',').map(str::trim).filter(|x| !x.is_empty()).collect();
            if nums.is_empty() { format!("err {name}") } else { format!("err {name} {}", nums.join(" ")) }
        }
    }
}

fn anchor_v(s: &str) -> Option<VertexAnchor> {
    let k: u32 = s.get(1..)?.parse().ok()?;
    Some(match s.as_bytes()[0] {
        b'N' => VertexAnchor::Node(k),
        b'C' => VertexAnchor::Curve(k),
        b'S' => VertexAnchor::Surface(k),
        b'B' => VertexAnchor::Body(k),
        _ => return None,
    })
}

fn anchor_e(s: &str) -> Option<EdgeAnchor> {
    let k: u32 = s.get(1..)?.parse().ok()?;
    Some(match s.as_bytes()[0] {
        b'C' => EdgeAnchor::Curve(k),
        b'S' => EdgeAnchor::Surface(k),
        b'B' => EdgeAnchor::Body(k),
        _ => return None,
    })
}

fn anchor_f(s: &str) -> Option<FaceAnchor> {
    let k: u32 = s.get(1..)?.parse().ok()?;
    Some(match s.as_bytes()[0] {
        b'S' => FaceAnchor::Surface(k),
        b'B' => FaceAnchor::Body(k),
        _ => return None,
    })
}

fn v_str(a: Option<VertexAnchor>) -> String {
    match a {
        None => "none".into(),
        Some(VertexAnchor::Node(k)) => format!("N{k}"),
        Some(VertexAnchor::Curve(k)) => format!("C{k}"),
        Some(VertexAnchor::Surface(k)) => format!("S{k}"),
        Some(VertexAnchor::Body(k)) => format!("B{k}"),
    }
}

fn e_str(a: Option<EdgeAnchor>) -> String {
    match a {
        None => "none".into(),
        Some(EdgeAnchor::Curve(k)) => format!("C{k}"),
        Some(EdgeAnchor::Surface(k)) => format!("S{k}"),
        Some(EdgeAnchor::Body(k)) => format!("B{k}"),
    }
}

fn f_str(a: Option<FaceAnchor>) -> String {
    match a {
        None => "none".into(),
        Some(FaceAnchor::Surface(k)) => format!("S{k}"),
        Some(FaceAnchor::Body(k)) => format!("B{k}"),
    }
}

/// anchor attributes of `honeycomb-kernels`: mask bit 5 = `VertexAnchor` (storage 6), bit 6 =
/// `EdgeAnchor` (storage 7), bit 7 = `FaceAnchor` (storage 8)
pub fn add_anchor_attrs(mut b: CMapBuilder<2, f64>, mask: u32) -> CMapBuilder<2, f64> {
    if mask & 32 != 0 {
        b = b.add_attribute::<VertexAnchor>();
    }
    if mask & 64 != 0 {
        b = b.add_attribute::<EdgeAnchor>();
    }
    if mask & 128 != 0 {
        b = b.add_attribute::<FaceAnchor>();
    }
    b
}

pub fn tx_op(s: &S2, t: &mut Transaction, toks: &[&str]) -> Option<TxRes> {
    let m = &s.map;
    Some(match toks {
        ["swap", e] => convr(swap_edge(t, m, d(e)?), swap_err).map(|()| String::new()),
        ["cutout", e, nd1, nd2, nd3] => {
            let nds: [DartIdType; 3] = [d(nd1)?, d(nd2)?, d(nd3)?];
            convr(cut_outer_edge(t, m, d(e)?, nds), sew_err).map(|()| String::new())
        }
        ["cutin", e, nd1, nd2, nd3, nd4, nd5, nd6] => {
            let nds: [DartIdType; 6] = [d(nd1)?, d(nd2)?, d(nd3)?, d(nd4)?, d(nd5)?, d(nd6)?];
            convr(cut_inner_edge(t, m, d(e)?, nds), sew_err).map(|()| String::new())
        }
        ["collapse", e] => convr(collapse_edge(t, m, d(e)?), |e| debug_err(e)).map(|v| v.to_string()),
        ["ranchor", k, id] => {
            let id = d(id)?;
            match *k {
                "v" => stmr(m.read_attribute::<VertexAnchor>(t, id)).map(v_str),
                "e" => stmr(m.read_attribute::<EdgeAnchor>(t, id)).map(e_str),
                "f" => stmr(m.read_attribute::<FaceAnchor>(t, id)).map(f_str),
                _ => return None,
            }
        }
        ["wanchort", k, id, a] => {
            let id = d(id)?;
            match *k {
                "v" => stmr(m.write_attribute::<VertexAnchor>(t, id, anchor_v(a)?)).map(v_str),
                "e" => stmr(m.write_attribute::<EdgeAnchor>(t, id, anchor_e(a)?)).map(e_str),
                "f" => stmr(m.write_attribute::<FaceAnchor>(t, id, anchor_f(a)?)).map(f_str),
                _ => return None,
            }
        }
        ["xanchort", k, id] => {
            let id = d(id)?;
            match *k {
                "v" => stmr(m.remove_attribute::<VertexAnchor>(t, id)).map(v_str),
                "e" => stmr(m.remove_attribute::<EdgeAnchor>(t, id)).map(e_str),
                "f" => stmr(m.remove_attribute::<FaceAnchor>(t, id)).map(f_str),
                _ => return None,
            }
        }
        _ => return None,
    })
}
