import Honeycomb.Model.Basic
import Honeycomb.Model.Stm
import Honeycomb.Model.Map
import Honeycomb.Model.Ops
import Honeycomb.Model.Ops2
import Honeycomb.Model.Val
import Honeycomb.Model.WF
import Honeycomb.Model.Session
