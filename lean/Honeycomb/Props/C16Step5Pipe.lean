/-
  C16 — success of step 5 INSIDE the modelled pipeline: the hypothesis "the run succeeds" of the chain theorems, replaced by a
  decidable condition on the map after step 3 (checked BEFORE step 5).

  Geometries without point of interest (`C16_stepFive_total_partial`: edges may share darts):
  * `edgeData_nopoi`                          with `poi = []`, step 1 makes no `PoI` geometry vertex (`segmentsFrom_nopoi`), a walk of
                                              step 4 collects nothing (`path_nopoi`), so every edge has `inter = []`
  * `run_asize`                               no program changes the number of attribute storages (the `Boundary` storage is still there
                                              after step 3)
  * `pipelineReady`                           steps 2–3 succeed, step 4 yields its edges, every edge is `Ready` in the map after step 3
  * `C16_pipeline_total_nopoi_partial`        `pipelineReady` ⇒ the pipeline succeeds (`pipelineMap … = some m'`)
  * `C16_pipeline_total_nopoi_on_grid_partial` the same on `gridMap10` (C12's builder): hypotheses `GenPos`, `FitsAll`,
                                              `KeysAreHitEdges`, `pipelineReady` only
  Any points of interest (`C16_stepFive_total_indep_partial`, Props/C16InsertTotal.lean: pairwise independent edges):
  * `Valued`, `pipelineReadyAll`              … every edge `Ready` with a coordinate at both end points, the edges pairwise `Indep`
  * `C16_pipeline_total_partial`, `C16_pipeline_total_on_grid_partial`
  * `C16_steps23_total_on_grid`               steps 2–3 SUCCEED on the grid of the builder, for every geometry in general position inside
                                              the grid and every `HashMap` order (`C16_steps23_total_partial`, Props/C16Steps23Total.lean,
                                              + C12's builder theorems + `C16_crossings_sound`) — no evaluated condition
  * `C17_capture_pipeline_total_on_grid_partial`   both, for capture (`ha = true`)
  PARTIAL: `Ready` / `Valued` / `Indep` of the edges of step 4 are evaluated on the map after step 3 (part of the condition), not
  derived from the geometry.
-/
import Honeycomb.Props.C16Step5Total
import Honeycomb.Props.C16InsertTotal
import Honeycomb.Props.C16Steps23Total
import Honeycomb.Props.C16ChainGrid

set_option linter.unusedSimpArgs false
set_option linter.unusedVariables false

namespace HC.C16
open HC

/-- no program changes the number of attribute storages -/
theorem run_asize {α : Type} (p : P Val α) : ∀ m : Map Val, (run p m).2.a.size = m.a.size := by
  induction p with
  | ret a => intro m; rfl
  | read v k ih =>
      intro m
      simp only [run]
      split
      · exact ih _ m
      · rfl
  | write v x k ih =>
      intro m
      simp only [run]
      split
      · rw [ih]
        cases v <;> cases x <;> first | rfl | (simp only [Store.sset, Map.setA, size_wr])
      · rfl
  | abort e => intro m; rfl
  | retry => intro m; rfl
  | panic => intro m; rfl

def NoPoi : GV → Prop
  | .poi _ => False
  | _ => True

theorem chainOf_nopoi {g : GGrid} {eps : Rat} {verts : List Pt} {start : Nat} {seg : Nat × Nat} :
    ∀ v, v ∈ chainOf g eps [] verts start seg → NoPoi v := by
  intro v hv
  unfold chainOf at hv
  simp only [List.mem_cons, List.mem_append, List.mem_map, List.mem_singleton, List.not_mem_nil, or_false] at hv
  have hmk : ∀ x, NoPoi (mkGV [] x) := by intro x; simp [mkGV, NoPoi]
  rcases hv with rfl | ⟨x, hx, rfl⟩ | rfl
  · exact hmk _
  · split <;> trivial
  · exact hmk _

theorem segmentsFrom_nopoi {g : GGrid} {eps : Rat} {verts : List Pt} : ∀ (segs : List (Nat × Nat)) (start : Nat),
    ∀ p, p ∈ segmentsFrom g eps [] verts start segs → NoPoi p.1
  | [], _, p, hp => by simp [segmentsFrom] at hp
  | seg :: rest, start, p, hp => by
      simp only [segmentsFrom, List.mem_append] at hp
      rcases hp with hp | hp
      · exact chainOf_nopoi _ (mem_pairsOf hp).1
      · exact segmentsFrom_nopoi rest _ p hp

theorem path_nopoi {segs : List (GV × GV)} (verts : List Pt) (hno : ∀ p, p ∈ segs → NoPoi p.1) :
    ∀ {v : GV} {l : List GV} {e : GV}, Path segs v l e → poisOf verts l = [] := by
  intro v l e hp
  induction hp with
  | stop _ => rfl
  | @step w w' e' l' h hn _ ih =>
      have := hno _ (segNext_mem hn)
      cases w with
      | poi i => exact absurd this (by simp [NoPoi])
      | regular i => rw [poisOf_cons_regular]; exact ih
      | intersec i => simp [GV.isCross] at h
      | corner i => simp [GV.isCross] at h

/-- without point of interest, every edge of step 4 has no intermediate point -/
theorem edgeData_nopoi {b1 b2 : Nat → Nat} {verts : List Pt} {segs : List (GV × GV)} {darts : List Nat} {keys : List GV}
    {es : List MEdge} (hno : ∀ p, p ∈ segs → NoPoi p.1) (h : edgeData b1 b2 verts segs darts keys = .ok es) :
    ∀ e, e ∈ es → e.inter = [] := by
  intro e he
  obtain ⟨hlen, hspec⟩ := C16_edge_data_spec b1 b2 verts segs darts keys es h
  obtain ⟨i, hi, hie⟩ := List.getElem_of_mem he
  have hik : i < keys.length := by omega
  obtain ⟨e', he', hk⟩ := hspec i keys[i] (List.getElem?_eq_getElem hik)
  rw [List.getElem?_eq_getElem hi, hie] at he'
  injection he' with he'
  subst he'
  obtain ⟨v, l, en, _, hp, _, hed⟩ := (C16_edge_of_key_spec b1 b2 verts segs darts _ e).1 hk
  rw [hed]
  exact path_nopoi verts hno hp

/-- the decidable condition, evaluated: steps 2–3 succeed, step 4 yields its edges, and every edge is `Ready` in the map
    after step 3 (geometry without point of interest) -/
def pipelineReady (m0 : Map Val) (g : GGrid) (eps : Rat) (verts : List Pt) (segs : List (Nat × Nat))
    (keys2 : List Nat) (keys4 : List GV) : Bool :=
  match stepsTwoThree m0 (slotsAll g eps verts segs) keys2 with
  | (res, .ok _, m3) =>
      match edgeData (m3.β 1) (m3.β 2) verts (segmentsOf g eps [] verts segs) res keys4 with
      | .ok edges => edges.all fun e => decide (Ready m3 e)
      | _ => false
  | _ => false

/-- **C16 — success of step 5 inside the modelled pipeline, geometries without point of interest** (partial: `poi = []`, so
    that no edge has an intermediate point).  If steps 2–3 succeed, step 4 yields its edges and every edge is `Ready` in the
    map after step 3 (`pipelineReady`: a decidable condition, checked BEFORE step 5), the whole pipeline succeeds: step 5
    meets no consecutive-darts panic, no refused link, and every walk of `mark_boundary` ends. -/
theorem C16_pipeline_total_nopoi_partial {m0 : Map Val} {g : GGrid} {eps : Rat} {verts : List Pt}
    {segs : List (Nat × Nat)} {ha : Bool} {keys2 : List Nat} {keys4 : List GV} (hwf : WF 3 m0)
    (hnotag : ∀ d, m0.att sBd d = none) (hA : sBd < m0.a.size)
    (hkeys : KeysOK m0 (slotsAll g eps verts segs) keys2)
    (hready : pipelineReady m0 g eps verts segs keys2 keys4 = true) :
    ∃ m', pipelineMap m0 g eps [] verts segs ha keys2 keys4 = some m' := by
  unfold pipelineReady at hready
  rcases h23 : stepsTwoThree m0 (slotsAll g eps verts segs) keys2 with ⟨res, o, m3⟩
  rw [h23] at hready
  cases o with
  | ok u =>
      simp only at hready
      cases h4 : edgeData (m3.β 1) (m3.β 2) verts (segmentsOf g eps [] verts segs) res keys4 with
      | ok edges =>
          rw [h4] at hready
          simp only [List.all_eq_true, decide_eq_true_eq] at hready
          obtain ⟨w3, t3, _, _⟩ := C16_steps23_carries hwf hkeys.1 hkeys.2.1 hkeys.2.2 h23
          have hA3 : sBd < m3.a.size := by
            have h := h23
            unfold stepsTwoThree at h
            simp only [Prod.mk.injEq] at h
            obtain ⟨_, _, hm3⟩ := h
            rw [← hm3, run_asize]
            simp only [Map.addFreeDarts, Array.size_map]; exact hA
          obtain ⟨m', h5⟩ := C16_stepFive_total_partial (ha := ha) w3 (t3 hnotag) hA3
            (fun e he => ⟨edgeData_nopoi (segmentsFrom_nopoi segs 0) h4 e he, hready e he⟩)
          refine ⟨m', ?_⟩
          unfold pipelineMap
          rw [h23]; simp only; rw [h4]; simp only; rw [h5]
      | panic => rw [h4] at hready; simp at hready
      | diverges => rw [h4] at hready; simp at hready
  | err e => simp at hready
  | retry => simp at hready
  | panic => simp at hready

/-- the same on the grid of the model's builder: no hypothesis about the map is left -/
theorem C16_pipeline_total_nopoi_on_grid_partial {g : GGrid} {ny : Nat} {eps : Rat} {verts : List Pt}
    {segs : List (Nat × Nat)} {ha : Bool} {keys2 : List Nat} {keys4 : List GV} (hnx : 0 < g.nx) (hny : 0 < ny)
    (hgen : ∀ seg, seg ∈ segs → GenPos g eps (verts.getD seg.1 (0, 0)) (verts.getD seg.2 (0, 0)))
    (hfit : FitsAll g ny verts segs)
    (hk2 : KeysAreHitEdges ((gridMap10 g ny).β 2) (slotsAll g eps verts segs) keys2)
    (hready : pipelineReady (gridMap10 g ny) g eps verts segs keys2 keys4 = true) :
    ∃ m', pipelineMap (gridMap10 g ny) g eps [] verts segs ha keys2 keys4 = some m' :=
  C16_pipeline_total_nopoi_partial (gridMap10_wf g hnx hny) (gridMap10_notag g ny)
    (by unfold gridMap10; rw [withStorages_asize, buildGrid2_asize]; decide)
    (keysOK_of_hit_edges (gridMap10_wf g hnx hny) (C16_hitDartsOK_gridMap10 hgen hfit) hk2) hready

/-- the chain `a → b → c` of `C16ChainGrid` on the 5 × 3 grid, WITHOUT point of interest: one edge from the crossing of
    `x = 2` to the crossing of `x = 3`, across one cell — ready, so the pipeline succeeds -/
example : ∃ m', pipelineMap (gridMap10 exG5 3) exG5 (1/8) [] exVD exSD false [26, 30] [.intersec 0] = some m' :=
  C16_pipeline_total_nopoi_on_grid_partial (by decide) (by decide) exD_gen exD_fit exD_keys (by decide +kernel)

/-! ## any points of interest: the conditions of `C16_stepFive_total_indep_partial`, evaluated after step 3 -/

/-- the dart is in use and its vertex has a coordinate -/
def Valued (m : Map Val) (x : Nat) : Prop := C01.InUse m x ∧ (m.att 0 (C03.cellId m .vertex x)).isSome = true

instance (m : Map Val) (x : Nat) : Decidable (Valued m x) := by unfold Valued C01.InUse; infer_instance

theorem Valued.carries {m : Map Val} {x : Nat} (h : Valued m x) : ∃ P, Carries m x P := by
  obtain ⟨iu, hv⟩ := h
  obtain ⟨P, hP⟩ := Option.isSome_iff_exists.1 hv
  exact ⟨P, iu, hP⟩

/-- the decidable condition: steps 2–3 succeed, step 4 yields its edges, and in the map after step 3 every edge is `Ready`
    with a coordinate at both end points, the edges pairwise independent -/
def pipelineReadyAll (m0 : Map Val) (g : GGrid) (eps : Rat) (poi : List Nat) (verts : List Pt) (segs : List (Nat × Nat))
    (keys2 : List Nat) (keys4 : List GV) : Bool :=
  match stepsTwoThree m0 (slotsAll g eps verts segs) keys2 with
  | (res, .ok _, m3) =>
      match edgeData (m3.β 1) (m3.β 2) verts (segmentsOf g eps poi verts segs) res keys4 with
      | .ok edges =>
          decide ((∀ e, e ∈ edges → Ready m3 e ∧ Valued m3 (m3.β 1 e.start) ∧ Valued m3 e.stop) ∧
            edges.Pairwise (Indep m3))
      | _ => false
  | _ => false

/-- **C16 — success of step 5 inside the modelled pipeline, any points of interest** (partial: pairwise independent
    edges).  `pipelineReadyAll` — a decidable condition on the map after step 3, checked BEFORE step 5 — implies that the
    whole pipeline succeeds. -/
theorem C16_pipeline_total_partial {m0 : Map Val} {g : GGrid} {eps : Rat} {poi : List Nat} {verts : List Pt}
    {segs : List (Nat × Nat)} {ha : Bool} {keys2 : List Nat} {keys4 : List GV} (hwf : WF 3 m0)
    (hnotag : ∀ d, m0.att sBd d = none) (hA : sBd < m0.a.size)
    (hkeys : KeysOK m0 (slotsAll g eps verts segs) keys2)
    (hready : pipelineReadyAll m0 g eps poi verts segs keys2 keys4 = true) :
    ∃ m', pipelineMap m0 g eps poi verts segs ha keys2 keys4 = some m' := by
  unfold pipelineReadyAll at hready
  rcases h23 : stepsTwoThree m0 (slotsAll g eps verts segs) keys2 with ⟨res, o, m3⟩
  rw [h23] at hready
  cases o with
  | ok u =>
      simp only at hready
      cases h4 : edgeData (m3.β 1) (m3.β 2) verts (segmentsOf g eps poi verts segs) res keys4 with
      | ok edges =>
          rw [h4] at hready
          simp only [decide_eq_true_eq] at hready
          obtain ⟨hall, hind⟩ := hready
          obtain ⟨w3, t3, _, _⟩ := C16_steps23_carries hwf hkeys.1 hkeys.2.1 hkeys.2.2 h23
          have hA3 : m3.a.size = m0.a.size := by
            have h := h23
            unfold stepsTwoThree at h
            simp only [Prod.mk.injEq] at h
            obtain ⟨_, _, hm3⟩ := h
            rw [← hm3, run_asize]
            simp only [Map.addFreeDarts, Array.size_map]
          have hva : ha = true → sVA < m3.a.size := by
            intro _; rw [hA3]; unfold sVA; unfold sBd at hA; omega
          obtain ⟨m', h5⟩ := C16_stepFive_total_indep_partial (ha := ha) w3 (t3 hnotag) (by rw [hA3]; exact hA) hva
            (fun e he => ⟨(hall e he).1, (hall e he).2.1.carries, (hall e he).2.2.carries⟩) hind
          refine ⟨m', ?_⟩
          unfold pipelineMap
          rw [h23]; simp only; rw [h4]; simp only; rw [h5]
      | panic => rw [h4] at hready; simp at hready
      | diverges => rw [h4] at hready; simp at hready
  | err e => simp at hready
  | retry => simp at hready
  | panic => simp at hready

/-- the same on the grid of the model's builder: no hypothesis about the map is left -/
theorem C16_pipeline_total_on_grid_partial {g : GGrid} {ny : Nat} {eps : Rat} {poi : List Nat} {verts : List Pt}
    {segs : List (Nat × Nat)} {ha : Bool} {keys2 : List Nat} {keys4 : List GV} (hnx : 0 < g.nx) (hny : 0 < ny)
    (hgen : ∀ seg, seg ∈ segs → GenPos g eps (verts.getD seg.1 (0, 0)) (verts.getD seg.2 (0, 0)))
    (hfit : FitsAll g ny verts segs)
    (hk2 : KeysAreHitEdges ((gridMap10 g ny).β 2) (slotsAll g eps verts segs) keys2)
    (hready : pipelineReadyAll (gridMap10 g ny) g eps poi verts segs keys2 keys4 = true) :
    ∃ m', pipelineMap (gridMap10 g ny) g eps poi verts segs ha keys2 keys4 = some m' :=
  C16_pipeline_total_partial (gridMap10_wf g hnx hny) (gridMap10_notag g ny)
    (by unfold gridMap10; rw [withStorages_asize, buildGrid2_asize]; decide)
    (keysOK_of_hit_edges (gridMap10_wf g hnx hny) (C16_hitDartsOK_gridMap10 hgen hfit) hk2) hready

/-- the chain `a → b → c` of `C16ChainGrid` with `b` a point of interest, capture (anchors): the condition holds, so the
    pipeline succeeds -/
example : ∃ m', pipelineMap (gridMap10 exG5 3) exG5 (1/8) [1] exVD exSD true [26, 30] [.intersec 0] = some m' :=
  C16_pipeline_total_on_grid_partial (by decide) (by decide) exD_gen exD_fit exD_keys (by decide +kernel)

/-! ## steps 2 + 3 succeed on the grid of the builder -/

/-- **C16 — steps 2 + 3 succeed on the grid of the model's builder**: every geometry whose segments are in eps-general
    position and lie inside the grid with a margin of one cell, every iteration order of the `HashMap` of step 2: no call of
    `insert_vertices_on_edge` is refused.  (`C16_steps23_total_partial` + C12's builder theorems: the crossed edges are
    interior, 2-linked, embedded; `C16_crossings_sound`: the positions lie in `]0,1[`.) -/
theorem C16_steps23_total_on_grid {g : GGrid} {ny : Nat} {eps : Rat} {verts : List Pt} {segs : List (Nat × Nat)}
    {keys2 : List Nat} (hnx : 0 < g.nx) (hny : 0 < ny)
    (hgen : ∀ seg, seg ∈ segs → GenPos g eps (verts.getD seg.1 (0, 0)) (verts.getD seg.2 (0, 0)))
    (hfit : FitsAll g ny verts segs)
    (hk2 : KeysAreHitEdges ((gridMap10 g ny).β 2) (slotsAll g eps verts segs) keys2) :
    ∃ res m3, stepsTwoThree (gridMap10 g ny) (slotsAll g eps verts segs) keys2 = (res, .ok (), m3) := by
  -- a written slot is a crossing of some segment
  have slotc : ∀ (K d : Nat) (t : Rat), (slotsAll g eps verts segs)[K]? = some (some (d, t)) →
      ∃ seg, seg ∈ segs ∧ ∃ c, c ∈ crossingsOf g eps (verts.getD seg.1 (0, 0)) (verts.getD seg.2 (0, 0)) ∧
        c.dart = d ∧ c.t = t := by
    intro K d t hK
    have hmem := List.mem_of_getElem? hK
    unfold slotsAll at hmem
    obtain ⟨seg, hseg, hsl⟩ := List.mem_flatMap.1 hmem
    rw [C16_slots_genpos (hgen seg hseg)] at hsl
    obtain ⟨c, hcm, hce⟩ := List.mem_map.1 hsl
    have hc := ((C16_metadata_same_intersections g eps _ _).1 c).1 hcm
    injection hce with hce
    injection hce with hd' ht'
    exact ⟨seg, hseg, c, hc, hd', ht'⟩
  refine C16_steps23_total_partial (gridMap10_wf g hnx hny)
    (by unfold gridMap10; rw [withStorages_asize, buildGrid2_asize]; decide)
    (C16_hitDartsOK_gridMap10 hgen hfit) hk2 ?_ ?_
  · intro K d t hK
    obtain ⟨seg, hseg, c, hc, _, rfl⟩ := slotc K d t hK
    obtain ⟨_, _, _, _, _, _, _, _, _, _, t0, t1⟩ := crossing_cell (hgen seg hseg) (hfit seg hseg).1 (hfit seg hseg).2 hc
    exact ⟨t0, t1⟩
  · intro K d t hK
    obtain ⟨seg, hseg, c, hc, rfl, _⟩ := slotc K d t hK
    obtain ⟨_, _, v1, v2, c1, c2, _⟩ := C16_sideCoords_gridMap10 hgen hfit seg hseg c hc
    exact ⟨⟨v1, c1⟩, ⟨v2, c2⟩⟩

example : ∃ res m3, stepsTwoThree (gridMap10 exG5 3) (slotsAll exG5 (1/8) exVD exSD) [26, 30] = (res, .ok (), m3) :=
  C16_steps23_total_on_grid (by decide) (by decide) exD_gen exD_fit exD_keys

/-- **C17 — capture (`ha = true`: the anchor storages are written) on the grid of the builder**: steps 2–3 succeed, and
    `pipelineReadyAll` — decidable, checked before step 5 — implies that the capture pipeline succeeds -/
theorem C17_capture_pipeline_total_on_grid_partial {g : GGrid} {ny : Nat} {eps : Rat} {poi : List Nat} {verts : List Pt}
    {segs : List (Nat × Nat)} {keys2 : List Nat} {keys4 : List GV} (hnx : 0 < g.nx) (hny : 0 < ny)
    (hgen : ∀ seg, seg ∈ segs → GenPos g eps (verts.getD seg.1 (0, 0)) (verts.getD seg.2 (0, 0)))
    (hfit : FitsAll g ny verts segs)
    (hk2 : KeysAreHitEdges ((gridMap10 g ny).β 2) (slotsAll g eps verts segs) keys2)
    (hready : pipelineReadyAll (gridMap10 g ny) g eps poi verts segs keys2 keys4 = true) :
    (∃ res m3, stepsTwoThree (gridMap10 g ny) (slotsAll g eps verts segs) keys2 = (res, .ok (), m3)) ∧
    ∃ m', pipelineMap (gridMap10 g ny) g eps poi verts segs true keys2 keys4 = some m' :=
  ⟨C16_steps23_total_on_grid hnx hny hgen hfit hk2, C16_pipeline_total_on_grid_partial hnx hny hgen hfit hk2 hready⟩

example := C17_capture_pipeline_total_on_grid_partial (poi := [1]) (keys4 := [.intersec 0]) (by decide) (by decide)
  exD_gen exD_fit exD_keys (by decide +kernel)

end HC.C16
