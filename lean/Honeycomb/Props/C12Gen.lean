/-
  C12 — the descriptor logic of `honeycomb-core/src/cmap/builder/grid.rs` (`parse_2d`, `parse_3d`,
  `check_parameters!`) as GENERATED data (`Gen/GridDesc.lean`, generator `griddesc` of
  tools/gen_lean.py), given its meaning here and proved EQUAL to `parse2` / `parse3` of
  Model/Grid.lean for every combination of given fields.

  Meaning of the data (see the header of the generated file):
  * an arm matches when every pattern code agrees with the presence of its field
    (0 = `None`, 1 = `Some([..])`, 2 = bound as a whole, 3 = `_`); arms are tried in source order;
  * the checks of the arm run in source order; `check_parameters!(id, msg)` refuses `id` when
    `id.is_sign_negative() | id.is_zero()` (the two disjuncts are the generated flags `gdCheckNeg`,
    `gdCheckZero`) with `Err(BuilderError::<variant>(msg))`;
  * the `Ok((origin, n, l))` arrays are expression trees; `.ceil()` is its own node (`GdVal.i`),
    `.to_usize().unwrap()` turns it into a count (`Int.toNat`, as `ceilCount` of the model: after the
    checks the quotient is positive).
  Ill-typed data (a cell count divided without `T::from`, a component out of range, no arm) evaluates
  to `.panic`, which `parse2` / `parse3` never return: the equality theorems exclude it.
-/
import Honeycomb.Gen.GridDesc
import Honeycomb.Model.Grid
import Honeycomb.Props.C12

namespace HC.GenTie
open HC HC.Gen

/-- values of the expression trees: a float (`Rat` in the model), the result of `.ceil()`, a count -/
inductive GdVal where
  | r (x : Rat)
  | i (z : Int)
  | n (k : Nat)
  | bad

/-- the descriptor: `origin`, and the optional `n_cells`, `len_per_cell`, `lens` as lists -/
structure GdEnv where
  o : List Rat
  n : Option (List Nat)
  lpc : Option (List Rat)
  lens : Option (List Rat)

/-- component `i` of field `f` (0 = n_cells, 1 = len_per_cell, 2 = lens, 3 = origin) -/
def gdFld (E : GdEnv) (f i : Nat) : GdVal :=
  match f with
  | 0 => match E.n.bind (fun l => l[i]?) with | some k => .n k | none => .bad
  | 1 => match E.lpc.bind (fun l => l[i]?) with | some x => .r x | none => .bad
  | 2 => match E.lens.bind (fun l => l[i]?) with | some x => .r x | none => .bad
  | 3 => match E.o[i]? with | some x => .r x | none => .bad
  | _ => .bad

/-- evaluation of an expression tree -/
def gdEval (E : GdEnv) : GdExpr → GdVal
  | .fld f i => gdFld E f i
  | .cast e => match gdEval E e with | .n k => .r (k : Rat) | _ => .bad
  | .div a b => match gdEval E a, gdEval E b with | .r x, .r y => .r (x / y) | _, _ => .bad
  | .ceil e => match gdEval E e with | .r x => .i x.ceil | _ => .bad
  | .toUsize e => match gdEval E e with | .i z => .n z.toNat | _ => .bad

def gdRats (E : GdEnv) : List GdExpr → Option (List Rat)
  | [] => some []
  | e :: es => match gdEval E e, gdRats E es with | .r x, some l => some (x :: l) | _, _ => none

def gdNats (E : GdEnv) : List GdExpr → Option (List Nat)
  | [] => some []
  | e :: es => match gdEval E e, gdNats E es with | .n k, some l => some (k :: l) | _, _ => none

/-- one pattern code against the presence of its field -/
def gdPatOk (code : Nat) (present : Bool) : Bool :=
  match code with
  | 0 => !present
  | 1 => present
  | 2 => true
  | 3 => true
  | _ => false

def gdArmMatches (E : GdEnv) (a : GdArm) : Bool :=
  match a.pat with
  | [p0, p1, p2] => gdPatOk p0 E.n.isSome && gdPatOk p1 E.lpc.isSome && gdPatOk p2 E.lens.isSome
  | _ => false

/-- the condition of `check_parameters!` -/
def gdBad (x : Rat) : Bool := (gdCheckNeg && decide (x < 0)) || (gdCheckZero && decide (x = 0))

/-- the `&'static str` payloads of `InvalidGridParameters`, as the model's `[kind, axis]` -/
def gdMsgArgs (s : String) : List Nat :=
  if s = "length per x cell is null or negative" then [0, 0]
  else if s = "length per y cell is null or negative" then [0, 1]
  else if s = "length per z cell is null or negative" then [0, 2]
  else if s = "grid length along x is null or negative" then [1, 0]
  else if s = "grid length along y is null or negative" then [1, 1]
  else if s = "grid length along z is null or negative" then [1, 2]
  else [9, 9]

/-- the checks of an arm, in order; the first refusal ends the function -/
def gdChecks (E : GdEnv) (variant : String) : List (Nat × Nat × String) → Out Err Unit
  | [] => .ok ()
  | (f, i, msg) :: cs =>
      match gdFld E f i with
      | .r x => if gdBad x then .err ⟨variant, gdMsgArgs msg⟩ else gdChecks E variant cs
      | _ => .panic

def gdRunArm (E : GdEnv) (a : GdArm) : Out Err (List Rat × List Nat × List Rat) :=
  match gdChecks E a.variant a.checks with
  | .ok () =>
      (match a.res with
       | none => .err ⟨a.variant, []⟩
       | some (o, n, l) =>
           match gdRats E o, gdNats E n, gdRats E l with
           | some o, some n, some l => .ok (o, n, l)
           | _, _, _ => .panic)
  | .err e => .err e
  | .retry => .retry
  | .panic => .panic

/-- the `match`: first arm whose pattern matches -/
def gdRun (E : GdEnv) : List GdArm → Out Err (List Rat × List Nat × List Rat)
  | [] => .panic
  | a :: as => if gdArmMatches E a then gdRunArm E a else gdRun E as

def gdEnv2 (o : Rat × Rat) (n : Option (Nat × Nat)) (lpc lens : Option (Rat × Rat)) : GdEnv :=
  ⟨[o.1, o.2], n.map (fun p => [p.1, p.2]), lpc.map (fun p => [p.1, p.2]), lens.map (fun p => [p.1, p.2])⟩

def gdEnv3 (o : Rat × Rat × Rat) (n : Option (Nat × Nat × Nat)) (lpc lens : Option (Rat × Rat × Rat)) : GdEnv :=
  ⟨[o.1, o.2.1, o.2.2], n.map (fun p => [p.1, p.2.1, p.2.2]), lpc.map (fun p => [p.1, p.2.1, p.2.2]),
   lens.map (fun p => [p.1, p.2.1, p.2.2])⟩

def gdOut2 : Out Err (List Rat × List Nat × List Rat) → Out Err ((Rat × Rat) × (Nat × Nat) × (Rat × Rat))
  | .ok ([ox, oy], [nx, ny], [lx, ly]) => .ok ((ox, oy), (nx, ny), (lx, ly))
  | .ok _ => .panic
  | .err e => .err e
  | .retry => .retry
  | .panic => .panic

def gdOut3 : Out Err (List Rat × List Nat × List Rat) →
    Out Err ((Rat × Rat × Rat) × (Nat × Nat × Nat) × (Rat × Rat × Rat))
  | .ok ([ox, oy, oz], [nx, ny, nz], [lx, ly, lz]) => .ok ((ox, oy, oz), (nx, ny, nz), (lx, ly, lz))
  | .ok _ => .panic
  | .err e => .err e
  | .retry => .retry
  | .panic => .panic

/-- the translated `parse_2d` -/
def gdParse2Fn (o : Rat × Rat) (n : Option (Nat × Nat)) (lpc lens : Option (Rat × Rat)) :=
  gdOut2 (gdRun (gdEnv2 o n lpc lens) gdParse2)

/-- the translated `parse_3d` -/
def gdParse3Fn (o : Rat × Rat × Rat) (n : Option (Nat × Nat × Nat)) (lpc lens : Option (Rat × Rat × Rat)) :=
  gdOut3 (gdRun (gdEnv3 o n lpc lens) gdParse3)

/-- `is_sign_negative() | is_zero()` is the model's `x ≤ 0` -/
theorem gdBad_eq (x : Rat) : gdBad x = badLen x := by
  simp only [gdBad, gdCheckNeg, gdCheckZero, badLen, Bool.true_and]
  by_cases h : x ≤ 0
  · rcases lt_or_eq_of_le h with h' | h' <;> simp [h, h']
  · have h1 : ¬ x < 0 := fun h' => h (le_of_lt h')
    have h2 : ¬ x = 0 := fun h' => h (le_of_eq h')
    simp [h, h1, h2]

/-! ## completeness of the generated lists -/

/-- the arms of both functions: counts + cell lengths (totals bound but ignored), counts + totals,
    cell lengths + totals, and the catch-all; in this order -/
theorem C12_gen_arms :
    gdParse2.map (·.pat) = [[1, 1, 2], [1, 0, 1], [0, 1, 1], [3, 3, 3]] ∧
    gdParse3.map (·.pat) = [[1, 1, 2], [1, 0, 1], [0, 1, 1], [3, 3, 3]] ∧
    gdParse2.map (·.res.isSome) = [true, true, true, false] ∧
    gdParse3.map (·.res.isSome) = [true, true, true, false] := by decide

/-- the checks: which (field, component) each arm examines, in source order; the macro tests both
    the sign and zero -/
theorem C12_gen_checks :
    gdParse2.map (fun a => a.checks.map (fun c => (c.1, c.2.1))) =
      [[(1, 0), (1, 1)], [(2, 0), (2, 1)], [(1, 0), (1, 1), (2, 0), (2, 1)], []] ∧
    gdParse3.map (fun a => a.checks.map (fun c => (c.1, c.2.1))) =
      [[(1, 0), (1, 1), (1, 2)], [(2, 0), (2, 1), (2, 2)],
       [(1, 0), (1, 1), (1, 2), (2, 0), (2, 1), (2, 2)], []] ∧
    gdCheckNeg = true ∧ gdCheckZero = true := by decide

/-! ## the translated functions are the model's -/

theorem C12_gen_parse2 (o : Rat × Rat) (n : Option (Nat × Nat)) (lpc lens : Option (Rat × Rat)) :
    gdParse2Fn o n lpc lens = parse2 o n lpc lens := by
  rcases o with ⟨ox, oy⟩
  rcases n with _ | ⟨nx, ny⟩ <;> rcases lpc with _ | ⟨lpx, lpy⟩ <;> rcases lens with _ | ⟨lx, ly⟩ <;>
    simp [gdParse2Fn, gdParse2, gdRun, gdArmMatches, gdPatOk, gdEnv2, gdRunArm, gdChecks, gdFld, gdBad_eq,
      gdMsgArgs, gdRats, gdNats, gdEval, gdOut2, parse2, errMissingGrid, errInvalidGrid, ceilCount]
  all_goals (split_ifs <;> rfl)

theorem C12_gen_parse3 (o : Rat × Rat × Rat) (n : Option (Nat × Nat × Nat)) (lpc lens : Option (Rat × Rat × Rat)) :
    gdParse3Fn o n lpc lens = parse3 o n lpc lens := by
  rcases o with ⟨ox, oy, oz⟩
  rcases n with _ | ⟨nx, ny, nz⟩ <;> rcases lpc with _ | ⟨lpx, lpy, lpz⟩ <;> rcases lens with _ | ⟨lx, ly, lz⟩ <;>
    simp [gdParse3Fn, gdParse3, gdRun, gdArmMatches, gdPatOk, gdEnv3, gdRunArm, gdChecks, gdFld, gdBad_eq,
      gdMsgArgs, gdRats, gdNats, gdEval, gdOut3, parse3, errMissingGrid, errInvalidGrid, ceilCount]
  all_goals (split_ifs <;> rfl)

/-! ## corollaries: theorems of Props/C12.lean, restated on the translated code -/

/-- `C12_parse2_forms_agree` on the translated `parse_2d`: the three descriptor forms (and the form
    with all three fields, whose totals are ignored) give the same `(origin, counts, cell lengths)` -/
theorem C12_gen_parse2_forms_agree (o : Rat × Rat) {nx ny : Nat} {lpx lpy : Rat} (hnx : 0 < nx)
    (hny : 0 < ny) (hx : 0 < lpx) (hy : 0 < lpy) (junk : Rat × Rat) :
    let r : Out Err ((Rat × Rat) × (Nat × Nat) × (Rat × Rat)) := .ok (o, (nx, ny), (lpx, lpy))
    let tot : Rat × Rat := ((nx : Rat) * lpx, (ny : Rat) * lpy)
    gdParse2Fn o (some (nx, ny)) (some (lpx, lpy)) none = r ∧
    gdParse2Fn o (some (nx, ny)) none (some tot) = r ∧
    gdParse2Fn o none (some (lpx, lpy)) (some tot) = r ∧
    gdParse2Fn o (some (nx, ny)) (some (lpx, lpy)) (some junk) = r := by
  simp only [C12_gen_parse2]
  exact HC.C12.C12_parse2_forms_agree o hnx hny hx hy junk

/-- `C12_parse3_forms_agree` on the translated `parse_3d` -/
theorem C12_gen_parse3_forms_agree (o : Rat × Rat × Rat) {nx ny nz : Nat} {lpx lpy lpz : Rat}
    (hnx : 0 < nx) (hny : 0 < ny) (hnz : 0 < nz) (hx : 0 < lpx) (hy : 0 < lpy) (hz : 0 < lpz)
    (junk : Rat × Rat × Rat) :
    let r : Out Err ((Rat × Rat × Rat) × (Nat × Nat × Nat) × (Rat × Rat × Rat)) :=
      .ok (o, (nx, ny, nz), (lpx, lpy, lpz))
    let tot : Rat × Rat × Rat := ((nx : Rat) * lpx, (ny : Rat) * lpy, (nz : Rat) * lpz)
    gdParse3Fn o (some (nx, ny, nz)) (some (lpx, lpy, lpz)) none = r ∧
    gdParse3Fn o (some (nx, ny, nz)) none (some tot) = r ∧
    gdParse3Fn o none (some (lpx, lpy, lpz)) (some tot) = r ∧
    gdParse3Fn o (some (nx, ny, nz)) (some (lpx, lpy, lpz)) (some junk) = r := by
  simp only [C12_gen_parse3]
  exact HC.C12.C12_parse3_forms_agree o hnx hny hnz hx hy hz junk

/-- the refusals of `C12_parse2_error_iff` on the translated `parse_2d`: never a panic; an error is
    `MissingGridParameters` exactly when fewer than two fields are given; a null or negative length
    that the selected arm uses is refused with `InvalidGridParameters` -/
theorem C12_gen_parse2_refusals (o : Rat × Rat) (n : Option (Nat × Nat)) (lpc lens : Option (Rat × Rat)) :
    gdParse2Fn o n lpc lens ≠ .panic ∧ gdParse2Fn o n lpc lens ≠ .retry ∧
    (gdParse2Fn o n lpc lens = .err errMissingGrid ↔ HC.C12.nFields n lpc lens < 2) := by
  simp only [C12_gen_parse2]
  exact ⟨(HC.C12.C12_parse2_error_iff o n lpc lens).1, (HC.C12.C12_parse2_error_iff o n lpc lens).2.1,
    (HC.C12.C12_parse2_error_iff o n lpc lens).2.2.1⟩

/-- the hypotheses of the corollaries are satisfiable -/
example := C12_gen_parse2_forms_agree (0, 0) (nx := 3) (ny := 2) (lpx := 1) (lpy := 2)
  (by decide) (by decide) (by decide) (by decide) (5, 5)
example := C12_gen_parse3_forms_agree (0, 0, 0) (nx := 3) (ny := 2) (nz := 1) (lpx := 1) (lpy := 2) (lpz := 3)
  (by decide) (by decide) (by decide) (by decide) (by decide) (by decide) (5, 5, 5)

end HC.GenTie
