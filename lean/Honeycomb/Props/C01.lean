/-
  C01 — 2-map structural integrity survives every editing history.

  Statement proved: for every attribute configuration `cfg` (any number of storages, any laws),
  every map `m` with `WF 3 m`, and every finite list of public editing calls whose dart arguments
  are non-null in-use darts at the time of the call (distinct darts for 2-links/2-sews; a free
  dart for `remove_free_dart_transac`, which is that method's own precondition), the map reached
  after the whole history is `WF 3` again — whether the individual calls succeed, return an
  error, or panic (refuse).
-/
import Honeycomb.Lemmas.WFLink
import Honeycomb.Lemmas.WFAlloc
import Honeycomb.Model.Val

set_option linter.unusedSimpArgs false

namespace HC.C01
open HC
variable {X : Type}

/-- public editing calls of `CMap2` (the `force_` variants run the same closure through
    `atomically_with_err`, hence share the constructor) -/
inductive Op2 where
  | link (i l r : Nat)
  | unlink (i l : Nat)
  | sew (i l r : Nat)
  | unsew (i l : Nat)
  | addFreeDarts (k : Nat)
  | insertFreeDart
  | removeFreeDart (d : Nat)
  | removeFreeDartTx (d : Nat)
  deriving Repr, DecidableEq

/-- the transactional closure of a call (`assert!(I < 3); assert_ne!(I, 0)` ⇒ `panic`) -/
def prog (cfg : Cfg X) (n : Nat) : Op2 → P X Unit
  | .link 1 l r => oneLinkCore l r
  | .link 2 l r => iLinkCore 2 l r
  | .unlink 1 l => oneUnlinkCore l
  | .unlink 2 l => iUnlinkCore 2 l
  | .sew 1 l r => oneSew2 cfg n l r
  | .sew 2 l r => twoSew2 cfg n l r
  | .unsew 1 l => oneUnsew2 cfg n l
  | .unsew 2 l => twoUnsew2 cfg n l
  | .removeFreeDartTx d => do let _ ← removeFreeDartTx d; pure ()
  | _ => Prog.panic

/-- one public call, as the user observes it (state after the call) -/
def step (cfg : Cfg X) (m : Map X) : Op2 → Map X
  | .addFreeDarts k => (m.addFreeDarts k).2
  | .insertFreeDart => m.insertFreeDart.2
  | .removeFreeDart d => (m.removeFreeDart 3 d).2
  | op => (atomically (prog cfg m.n op) m).2

/-- a non-null, existing, not removed dart -/
def InUse (m : Map X) (d : Nat) : Prop := d ≠ 0 ∧ d < m.n ∧ m.unused d = false

/-- the argument guard of the property -/
def ArgsOK (m : Map X) : Op2 → Prop
  | .link i l r => InUse m l ∧ InUse m r ∧ (i = 2 → l ≠ r)
  | .sew i l r => InUse m l ∧ InUse m r ∧ (i = 2 → l ≠ r)
  | .unlink _ l => InUse m l
  | .unsew _ l => InUse m l
  | .addFreeDarts _ => True
  | .insertFreeDart => True
  | .removeFreeDart d => InUse m d
  | .removeFreeDartTx d => InUse m d ∧ m.isFree 3 d = true

/-- every call of the history has admissible arguments in the state it is applied to -/
def HistoryOK (cfg : Cfg X) : Map X → List Op2 → Prop
  | _, [] => True
  | m, op :: ops => ArgsOK m op ∧ HistoryOK cfg (step cfg m op) ops

instance (m : Map X) (d : Nat) : Decidable (InUse m d) :=
  inferInstanceAs (Decidable (d ≠ 0 ∧ d < m.n ∧ m.unused d = false))

instance (m : Map X) : (op : Op2) → Decidable (ArgsOK m op)
  | .link i l r => inferInstanceAs (Decidable (InUse m l ∧ InUse m r ∧ (i = 2 → l ≠ r)))
  | .sew i l r => inferInstanceAs (Decidable (InUse m l ∧ InUse m r ∧ (i = 2 → l ≠ r)))
  | .unlink _ l => inferInstanceAs (Decidable (InUse m l))
  | .unsew _ l => inferInstanceAs (Decidable (InUse m l))
  | .addFreeDarts _ => isTrue trivial
  | .insertFreeDart => isTrue trivial
  | .removeFreeDart d => inferInstanceAs (Decidable (InUse m d))
  | .removeFreeDartTx d => inferInstanceAs (Decidable (InUse m d ∧ m.isFree 3 d = true))

instance instDecHistoryOK (cfg : Cfg X) : (m : Map X) → (ops : List Op2) → Decidable (HistoryOK cfg m ops)
  | _, [] => isTrue trivial
  | m, op :: ops =>
      @instDecidableAnd _ _ (inferInstanceAs (Decidable (ArgsOK m op))) (instDecHistoryOK cfg (step cfg m op) ops)

/-! ## successful closures preserve WF -/

/-- `p` keeps the map well-formed whenever it returns `Ok`, from WF states satisfying `Q` -/
def Safe (Q : Map X → Prop) {α : Type} (p : P X α) : Prop :=
  ∀ (m m' : Map X) (a : α), WF 3 m → Q m → run p m = (.ok a, m') → WF 3 m'

theorem Safe.ro_bind {Q : Map X → Prop} {α β : Type} {p : P X α} {f : α → P X β}
    (hp : ReadOnly p) (hf : ∀ a, Safe Q (f a)) : Safe Q (p.bind f) := by
  intro m m' b hwf hq h
  obtain ⟨a, m1, h1, h2⟩ := run_bind_ok h
  have := hp.run_ok h1; subst this
  exact hf a _ _ b hwf hq h2

theorem Safe.bind_attr {Q : Map X → Prop} {α β : Type} {p : P X α} {f : α → P X β}
    (hp : Safe Q p) (hf : ∀ a, AttrOnly (f a)) : Safe Q (p.bind f) := by
  intro m m' b hwf hq h
  obtain ⟨a, m1, h1, h2⟩ := run_bind_ok h
  have w1 := hp _ _ a hwf hq h1
  have st := hf a m1; rw [h2] at st
  exact w1.sameTopo st

theorem Safe.of_attrOnly {Q : Map X → Prop} {α : Type} {p : P X α} (hp : AttrOnly p) : Safe Q p := by
  intro m m' a hwf _ h
  have st := hp m; rw [h] at st
  exact hwf.sameTopo st

theorem Safe.ite {Q : Map X → Prop} {α : Type} {c : Prop} [Decidable c] {p q : P X α}
    (hp : Safe Q p) (hq : Safe Q q) : Safe Q (if c then p else q) := by
  split <;> assumption

theorem Safe.abort {Q : Map X → Prop} {α : Type} (e : Err) : Safe Q (abort e : P X α) := by
  intro m m' a _ _ h; simp at h

theorem Safe.panic {Q : Map X → Prop} {α : Type} : Safe Q (Prog.panic : P X α) := by
  intro m m' a _ _ h; simp at h

theorem inUse_ok {m : Map X} (h : WF 3 m) {d : Nat} (hd : InUse m d) : d ≠ 0 ∧ d < m.n ∧ m.unused d = false := hd

theorem safe_oneLinkCore (l r : Nat) :
    Safe (fun m : Map X => InUse m l ∧ InUse m r) (oneLinkCore l r) := by
  intro m m' u hwf ⟨hl, hr⟩ h
  obtain ⟨_, _, h1, h0, rfl⟩ := oneLinkCore_ok h
  exact hwf.link1 (by omega) hl.1 hr.1 hl.2.1 hr.2.1 hl.2.2 hr.2.2 h1 h0

theorem safe_twoLinkCore (l r : Nat) :
    Safe (fun m : Map X => InUse m l ∧ InUse m r ∧ l ≠ r) (iLinkCore 2 l r) := by
  intro m m' u hwf ⟨hl, hr, hlr⟩ h
  obtain ⟨_, _, h1, h0, rfl⟩ := iLinkCore_ok h
  exact hwf.linkI (by omega) (by omega) hl.1 hr.1 hlr hl.2.1 hr.2.1 hl.2.2 hr.2.2 h1 h0

theorem safe_oneUnlinkCore (l : Nat) : Safe (fun m : Map X => InUse m l) (oneUnlinkCore l) := by
  intro m m' u hwf hl h
  obtain ⟨_, _, hne, rfl⟩ := oneUnlinkCore_ok h
  exact hwf.unlink1 (by omega) hl.2.1 hne

theorem safe_twoUnlinkCore (l : Nat) : Safe (fun m : Map X => InUse m l) (iUnlinkCore 2 l) := by
  intro m m' u hwf hl h
  obtain ⟨_, _, hne, rfl⟩ := iUnlinkCore_ok h
  exact hwf.unlinkI (by omega) (by omega) hl.2.1 hne

theorem Safe.mono {Q Q' : Map X → Prop} {α : Type} {p : P X α} (h : Safe Q p) (hq : ∀ m, Q' m → Q m) :
    Safe Q' p := fun m m' a hwf hq' hr => h m m' a hwf (hq m hq') hr

/-- vertex ids, merges and splits never touch the topology -/
theorem ao_vid (n d : Nat) : AttrOnly (vertexId2 (X := X) n d) := AttrOnly.of_readOnly (readOnly_vertexId2 n d)
theorem ao_eid (d : Nat) : AttrOnly (edgeId2 (X := X) d) := AttrOnly.of_readOnly (readOnly_edgeId2 d)

theorem safe_oneSew2 (cfg : Cfg X) (n l r : Nat) :
    Safe (fun m : Map X => InUse m l ∧ InUse m r) (oneSew2 cfg n l r) := by
  unfold oneSew2
  refine Safe.ro_bind (ReadOnly.rB _ _) fun b2l => ?_
  refine Safe.ite (safe_oneLinkCore l r) ?_
  refine Safe.ro_bind (readOnly_vertexId2 _ _) fun v1 => ?_
  refine Safe.ro_bind (readOnly_vertexId2 _ _) fun v2 => ?_
  refine Safe.bind_attr (safe_oneLinkCore l r) fun _ => ?_
  refine AttrOnly.bind (ao_vid _ _) fun nv => ?_
  exact AttrOnly.bind (attrOnly_mergeS _ _ _ _ _) fun _ => attrOnly_mergeAttrs _ _ _ _ _

theorem safe_oneUnsew2 (cfg : Cfg X) (n l : Nat) :
    Safe (fun m : Map X => InUse m l) (oneUnsew2 cfg n l) := by
  unfold oneUnsew2
  refine Safe.ro_bind (ReadOnly.rB _ _) fun b2l => ?_
  refine Safe.ite (safe_oneUnlinkCore l) ?_
  refine Safe.ro_bind (ReadOnly.rB _ _) fun r => ?_
  refine Safe.ro_bind (readOnly_vertexId2 _ _) fun vold => ?_
  refine Safe.bind_attr (safe_oneUnlinkCore l) fun _ => ?_
  refine AttrOnly.bind (ao_vid _ _) fun nl => ?_
  refine AttrOnly.bind (ao_vid _ _) fun nr => ?_
  exact AttrOnly.bind (attrOnly_splitS _ _ _ _ _) fun _ => attrOnly_splitAttrs _ _ _ _ _

theorem safe_twoSew2 (cfg : Cfg X) (n l r : Nat) :
    Safe (fun m : Map X => InUse m l ∧ InUse m r ∧ l ≠ r) (twoSew2 cfg n l r) := by
  unfold twoSew2
  refine Safe.ro_bind (ReadOnly.rB _ _) fun b1l => ?_
  refine Safe.ro_bind (ReadOnly.rB _ _) fun b1r => ?_
  refine Safe.ite ?_ (Safe.ite ?_ (Safe.ite ?_ ?_))
  · refine Safe.bind_attr (safe_twoLinkCore l r) fun _ => ?_
    exact AttrOnly.bind (ao_eid _) fun _ => attrOnly_mergeAttrs _ _ _ _ _
  · refine Safe.ro_bind (readOnly_vertexId2 _ _) fun _ => ?_
    refine Safe.ro_bind (readOnly_vertexId2 _ _) fun _ => ?_
    refine Safe.bind_attr (safe_twoLinkCore l r) fun _ => ?_
    refine AttrOnly.bind (ao_vid _ _) fun _ => ?_
    refine AttrOnly.bind (ao_eid _) fun _ => ?_
    refine AttrOnly.bind (attrOnly_mergeS _ _ _ _ _) fun _ => ?_
    exact AttrOnly.bind (attrOnly_mergeAttrs _ _ _ _ _) fun _ => attrOnly_mergeAttrs _ _ _ _ _
  · refine Safe.ro_bind (readOnly_vertexId2 _ _) fun _ => ?_
    refine Safe.ro_bind (readOnly_vertexId2 _ _) fun _ => ?_
    refine Safe.bind_attr (safe_twoLinkCore l r) fun _ => ?_
    refine AttrOnly.bind (ao_vid _ _) fun _ => ?_
    refine AttrOnly.bind (ao_eid _) fun _ => ?_
    refine AttrOnly.bind (attrOnly_mergeS _ _ _ _ _) fun _ => ?_
    exact AttrOnly.bind (attrOnly_mergeAttrs _ _ _ _ _) fun _ => attrOnly_mergeAttrs _ _ _ _ _
  · refine Safe.ro_bind (readOnly_vertexId2 _ _) fun _ => ?_
    refine Safe.ro_bind (readOnly_vertexId2 _ _) fun _ => ?_
    refine Safe.ro_bind (readOnly_vertexId2 _ _) fun _ => ?_
    refine Safe.ro_bind (readOnly_vertexId2 _ _) fun _ => ?_
    refine Safe.ro_bind (ReadOnly.rA _ _) fun _ => ?_
    refine Safe.ro_bind (ReadOnly.rA _ _) fun _ => ?_
    refine Safe.ro_bind (ReadOnly.rA _ _) fun _ => ?_
    refine Safe.ro_bind (ReadOnly.rA _ _) fun _ => ?_
    refine Safe.ite (Safe.abort _) ?_
    refine Safe.bind_attr (safe_twoLinkCore l r) fun _ => ?_
    refine AttrOnly.bind (ao_vid _ _) fun _ => ?_
    refine AttrOnly.bind (ao_vid _ _) fun _ => ?_
    refine AttrOnly.bind (ao_eid _) fun _ => ?_
    refine AttrOnly.bind (attrOnly_mergeS _ _ _ _ _) fun _ => ?_
    refine AttrOnly.bind (attrOnly_mergeS _ _ _ _ _) fun _ => ?_
    refine AttrOnly.bind (attrOnly_mergeAttrs _ _ _ _ _) fun _ => ?_
    exact AttrOnly.bind (attrOnly_mergeAttrs _ _ _ _ _) fun _ => attrOnly_mergeAttrs _ _ _ _ _

theorem safe_twoUnsew2 (cfg : Cfg X) (n l : Nat) :
    Safe (fun m : Map X => InUse m l) (twoUnsew2 cfg n l) := by
  unfold twoUnsew2
  refine Safe.ro_bind (ReadOnly.rB _ _) fun r => ?_
  refine Safe.ro_bind (ReadOnly.rB _ _) fun b1l => ?_
  refine Safe.ro_bind (ReadOnly.rB _ _) fun b1r => ?_
  refine Safe.ite ?_ (Safe.ite ?_ (Safe.ite ?_ ?_))
  · refine Safe.ro_bind (readOnly_edgeId2 _) fun _ => ?_
    exact Safe.bind_attr (safe_twoUnlinkCore l) fun _ => attrOnly_splitAttrs _ _ _ _ _
  · refine Safe.ro_bind (readOnly_edgeId2 _) fun _ => ?_
    refine Safe.ro_bind (readOnly_vertexId2 _ _) fun _ => ?_
    refine Safe.bind_attr (safe_twoUnlinkCore l) fun _ => ?_
    refine AttrOnly.bind (attrOnly_splitAttrs _ _ _ _ _) fun _ => ?_
    refine AttrOnly.bind (ao_vid _ _) fun _ => ?_
    refine AttrOnly.bind (ao_vid _ _) fun _ => ?_
    exact AttrOnly.bind (attrOnly_splitS _ _ _ _ _) fun _ => attrOnly_splitAttrs _ _ _ _ _
  · refine Safe.ro_bind (readOnly_edgeId2 _) fun _ => ?_
    refine Safe.ro_bind (readOnly_vertexId2 _ _) fun _ => ?_
    refine Safe.bind_attr (safe_twoUnlinkCore l) fun _ => ?_
    refine AttrOnly.bind (attrOnly_splitAttrs _ _ _ _ _) fun _ => ?_
    refine AttrOnly.bind (ao_vid _ _) fun _ => ?_
    refine AttrOnly.bind (ao_vid _ _) fun _ => ?_
    exact AttrOnly.bind (attrOnly_splitS _ _ _ _ _) fun _ => attrOnly_splitAttrs _ _ _ _ _
  · refine Safe.ro_bind (readOnly_edgeId2 _) fun _ => ?_
    refine Safe.ro_bind (readOnly_vertexId2 _ _) fun _ => ?_
    refine Safe.ro_bind (readOnly_vertexId2 _ _) fun _ => ?_
    refine Safe.bind_attr (safe_twoUnlinkCore l) fun _ => ?_
    refine AttrOnly.bind (attrOnly_splitAttrs _ _ _ _ _) fun _ => ?_
    refine AttrOnly.bind (ao_vid _ _) fun _ => ?_
    refine AttrOnly.bind (ao_vid _ _) fun _ => ?_
    refine AttrOnly.bind (ao_vid _ _) fun _ => ?_
    refine AttrOnly.bind (ao_vid _ _) fun _ => ?_
    refine AttrOnly.bind (attrOnly_splitS _ _ _ _ _) fun _ => ?_
    refine AttrOnly.bind (attrOnly_splitAttrs _ _ _ _ _) fun _ => ?_
    exact AttrOnly.bind (attrOnly_splitS _ _ _ _ _) fun _ => attrOnly_splitAttrs _ _ _ _ _

/-! ## one call -/

theorem wf_atomically {Q : Map X → Prop} {α : Type} {p : P X α} (hp : Safe Q p) {m : Map X}
    (hwf : WF 3 m) (hq : Q m) : WF 3 (atomically p m).2 := by
  unfold atomically
  match h : run p m with
  | (.ok a, m') => simp only [h]; exact hp m m' a hwf hq h
  | (.err e, m') => simp only [h]; exact hwf
  | (.retry, m') => simp only [h]; exact hwf
  | (.panic, m') => simp only [h]; exact hwf

/-- an error (or panic, or retry) of any transactional call publishes nothing -/
theorem C01_failed_call_changes_nothing {α : Type} (p : P X α) (m : Map X)
    (h : ∀ a, (atomically p m).1 ≠ .ok a) : (atomically p m).2 = m := by
  unfold atomically at h ⊢
  match hr : run p m with
  | (.ok a, m') => simp only [hr] at h; exact absurd rfl (h a)
  | (.err e, m') => rfl
  | (.retry, m') => rfl
  | (.panic, m') => rfl

theorem safe_prog (cfg : Cfg X) (n : Nat) (op : Op2) :
    Safe (fun m : Map X => ArgsOK m op) (prog cfg n op) := by
  unfold prog
  split
  · exact (safe_oneLinkCore _ _).mono fun m h => ⟨h.1, h.2.1⟩
  · exact (safe_twoLinkCore _ _).mono fun m h => ⟨h.1, h.2.1, h.2.2 rfl⟩
  · exact (safe_oneUnlinkCore _).mono fun m h => h
  · exact (safe_twoUnlinkCore _).mono fun m h => h
  · exact (safe_oneSew2 _ _ _ _).mono fun m h => ⟨h.1, h.2.1⟩
  · exact (safe_twoSew2 _ _ _ _).mono fun m h => ⟨h.1, h.2.1, h.2.2 rfl⟩
  · exact (safe_oneUnsew2 _ _ _).mono fun m h => h
  · exact (safe_twoUnsew2 _ _ _).mono fun m h => h
  · rename_i d
    intro m m' a hwf hq h
    obtain ⟨b, m1, h1, h2⟩ := run_bind_ok h
    rw [run_removeFreeDartTx] at h1
    have hok : m.okU d = true := (hwf.toSized.okU d).2 hq.1.2.1
    simp only [hok, if_true, Prod.mk.injEq] at h1
    simp at h2
    rw [← h2, ← h1.2]
    exact hwf.setU_free hq.1.2.1 true ((isFree_iff m 3 d).1 hq.2)
  · exact Safe.panic

/-- **C01, one call**: every public editing call with admissible arguments keeps a well-formed
    2-map well-formed (success, error and panic branches alike) -/
theorem C01_step_preserves_WF (cfg : Cfg X) (m : Map X) (op : Op2)
    (hwf : WF 3 m) (hargs : ArgsOK m op) : WF 3 (step cfg m op) := by
  cases op with
  | addFreeDarts k => exact hwf.addFreeDarts (by omega) k
  | insertFreeDart => exact hwf.insertFreeDart (by omega)
  | removeFreeDart d => exact hwf.removeFreeDart d
  | link i l r => exact wf_atomically (safe_prog cfg m.n _) hwf hargs
  | unlink i l => exact wf_atomically (safe_prog cfg m.n _) hwf hargs
  | sew i l r => exact wf_atomically (safe_prog cfg m.n _) hwf hargs
  | unsew i l => exact wf_atomically (safe_prog cfg m.n _) hwf hargs
  | removeFreeDartTx d => exact wf_atomically (safe_prog cfg m.n _) hwf hargs

/-- **C01**: well-formedness survives every finite editing history -/
theorem C01_history_preserves_WF (cfg : Cfg X) (ops : List Op2) :
    ∀ m : Map X, WF 3 m → HistoryOK cfg m ops → WF 3 (ops.foldl (step cfg) m) := by
  induction ops with
  | nil => intro m h _; exact h
  | cons op ops ih =>
      intro m h hh
      exact ih _ (C01_step_preserves_WF cfg m op h hh.1) hh.2

/-- removed darts are nobody's image on a well-formed map (the last clause of the property's
    definition of well-formed follows from the others) -/
theorem C01_unused_is_nobodys_image {m : Map X} (h : WF 3 m) : NoImageOfUnused 3 m := by
  intro i hi e he hu
  by_cases h0 : m.β i e = 0
  · exact h0
  · exfalso
    have hr := h.range i hi e he
    have hfree := h.unusedFree _ hr hu
    have : i = 0 ∨ i = 1 ∨ i = 2 := by omega
    rcases this with rfl | rfl | rfl
    · have := h.inv10 e he h0
      rw [hfree 1 (by omega)] at this
      subst this
      exact h0 (h.null 0 (by omega))
    · have := h.inv01 e he h0
      rw [hfree 0 (by omega)] at this
      subst this
      exact h0 (h.null 1 (by omega))
    · have := (h.invol 2 (by omega) (by omega) e he h0).1
      rw [hfree 2 (by omega)] at this
      subst this
      exact h0 (h.null 2 (by omega))

/-! ## non-vacuity: a concrete well-formed map and an admissible history of every op kind -/

/-- two triangles 1-2-3 and 4-5-6, darts 7, 8 free, dart 8 removed -/
def exMap : Map Val :=
  { (Map.empty 3 6 9 : Map Val) with
    b := #[#[0, 3, 1, 2, 6, 4, 5, 0, 0], #[0, 2, 3, 1, 5, 6, 4, 0, 0], #[0, 0, 0, 0, 0, 0, 0, 0, 0]]
    u := #[false, false, false, false, false, false, false, false, true]
    a := #[#[none, some (.pt 0 0 0), some (.pt 1 0 0), some (.pt 0 1 0), some (.pt 0 2 0), some (.pt 2 0 0),
             some (.pt 1 1 0), some (.pt 5 5 0), none],
           #[none, some (.tm (.leaf 1)), none, some (.tm (.leaf 3)), none, none, none, none, none, none],
           #[none, none, some (.tm (.leaf 2)), none, some (.tm (.leaf 4)), none, none, none, none, none],
           Array.replicate 10 none, Array.replicate 10 none, Array.replicate 10 none] }

def exHistory : List Op2 :=
  [.sew 2 2 4, .unsew 2 2, .link 2 1 5, .unlink 1 3, .sew 1 3 7, .unsew 1 3, .unlink 2 1, .link 1 7 7,
   .unlink 1 7, .removeFreeDart 7, .insertFreeDart, .addFreeDarts 2, .link 2 9 10, .removeFreeDartTx 7]

example : WF 3 exMap := by decide
example : HistoryOK (stdCfg 3 7) exMap exHistory := by decide +kernel
/-- the history is not trivial: the 2-sew, the 1-sew and the allocations really happen -/
example : ((exHistory.take 1).foldl (step (stdCfg 3 7)) exMap).β 2 2 = 4 := by decide +kernel
example : (exHistory.foldl (step (stdCfg 3 7)) exMap).n = 11 := by decide +kernel
example : WF 3 (exHistory.foldl (step (stdCfg 3 7)) exMap) :=
  C01_history_preserves_WF _ _ _ (by decide) (by decide +kernel)

end HC.C01
