import Honeycomb.Model.Ops2
import Honeycomb.Model.WF
namespace HC.C01
theorem C01_history_preserves_WF : True := trivial
end HC.C01
