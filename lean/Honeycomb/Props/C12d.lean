/-
  C12, fourth part — the 3-D hex grid's faces and edges as the code computes them, for ALL sizes
  `nx, ny, nz ≥ 1` (the clauses that were compared on the size box only):

    C12_hex3_faces        `face_id` (the two-sided lock-step walk of `face_id_transac`, evaluated on the grid:
                          total, never out of fuel): a dart is a face identifier iff it is the first dart of
                          its quadrilateral and the face is on the x+ / y+ / z+ side of its cell or on the
                          outer boundary
    C12_hex3_edges        `edge_id` (traversal over β2, β3; total): two darts have the same edge identifier iff
                          they run the same geometric edge of the lattice (same two end points)
    C12_hex3_counts_all   what the four iterators yield on `build_3d_grid`:
                            vertices (nx+1)(ny+1)(nz+1)
                            edges    nx(ny+1)(nz+1) + (nx+1)ny(nz+1) + (nx+1)(ny+1)nz
                            faces    nx·ny·(nz+1) + nx·(ny+1)·nz + (nx+1)·ny·nz
                            volumes  nx·ny·nz
                          and hence Euler's relation V − E + F − C = 1
    C12_build3_split_unimplemented
                          the tetrahedral split grid is NOT in the model because it is not in the code:
                          `split_cells(true)` on a 3-D descriptor is `unimplemented!()` (a panic, after a
                          successful parse) — there is nothing to count
-/
import Honeycomb.Props.C12b
import Honeycomb.Lemmas.Grid3Face
import Honeycomb.Lemmas.Grid3Edge

namespace HC.C12
open HC HC.Gen

/-! ## faces -/

open Grid3Vertex Grid3Face in
/-- Face identifiers of the hex grid.  Local darts `4f .. 4f+3` of a cell are its face `f`
    (0 = y−, 1 = z−, 2 = x+, 3 = z+, 4 = x−, 5 = y+); `face_id` of a dart `d` is `d` itself **iff** `d`
    is the first dart `4f` of its face and the face is an x+ / y+ / z+ face (its neighbour, when it
    exists, has larger dart numbers) or lies on the outer boundary (first row / layer / column). -/
theorem C12_hex3_faces (ox oy oz lx ly lz : Rat) {nx ny nz ix iy iz o : Nat} (hnx : 0 < nx) (hny : 0 < ny)
    (hx : ix < nx) (hy : iy < ny) (hz : iz < nz) (ho : o < 24) :
    let m := buildHex3 ox oy oz nx ny nz lx ly lz
    (okVal (run (faceId3 m.n (dartOf 24 nx ny ix iy iz o)) m) 0 = dartOf 24 nx ny ix iy iz o ↔
      (o % 4 = 0 ∧ (o / 4 = 2 ∨ o / 4 = 3 ∨ o / 4 = 5 ∨ (o / 4 = 0 ∧ iy = 0) ∨ (o / 4 = 1 ∧ iz = 0) ∨
        (o / 4 = 4 ∧ ix = 0)))) := by
  intro m
  exact fid3_iff' hnx hny (Grid3Vertex.sameTopo_hex3 ox oy oz lx ly lz) hx hy hz ho

/-! ## edges -/

open Grid3Vertex Grid3Edge in
/-- Edge identifiers of the hex grid: `edge_id` is constant exactly on the darts that run the same
    geometric edge — same pair of lattice end points `ek d` (up to 4 cells × 2 darts round an edge) —
    and it is one of these darts. -/
theorem C12_hex3_edges (ox oy oz lx ly lz : Rat) {nx ny nz : Nat} (hnx : 0 < nx) (hny : 0 < ny) :
    let m := buildHex3 ox oy oz nx ny nz lx ly lz
    ∀ d e, IsD3 nx ny nz d → IsD3 nx ny nz e →
      ((eid3 m d = eid3 m e ↔ ek nx ny d = ek nx ny e) ∧ ek nx ny (eid3 m d) = ek nx ny d ∧
        IsD3 nx ny nz (eid3 m d)) := by
  intro m d e hd he
  have st : SameTopo (H3 nx ny nz) m := Grid3Vertex.sameTopo_hex3 ox oy oz lx ly lz
  obtain ⟨k1, v1⟩ := eid3_key hnx hny st hd
  obtain ⟨k2, _⟩ := eid3_key hnx hny st he
  refine ⟨⟨?_, eid3_same hnx hny st hd he⟩, k1, v1⟩
  intro h
  rw [← k1, ← k2, h]

/-! ## the four counts -/

/-- **All cell counts of the hex grid, every size** — lengths of what `iter_vertices`, `iter_edges`,
    `iter_faces`, `iter_volumes` yield on the map of `build_3d_grid`. -/
theorem C12_hex3_counts_all (ox oy oz lx ly lz : Rat) {nx ny nz : Nat} (hnx : 0 < nx) (hny : 0 < ny)
    (hnz : 0 < nz) :
    let m := buildHex3 ox oy oz nx ny nz lx ly lz
    (iterVertices3 m).length = (nx + 1) * (ny + 1) * (nz + 1) ∧
    (iterEdges3 m).length = nx * (ny + 1) * (nz + 1) + (nx + 1) * ny * (nz + 1) + (nx + 1) * (ny + 1) * nz ∧
    (iterFaces3 m).length = nx * ny * (nz + 1) + nx * (ny + 1) * nz + (nx + 1) * ny * nz ∧
    (iterVolumes3 m).length = nx * ny * nz := by
  intro m
  have st : SameTopo (Grid3Vertex.H3 nx ny nz) m := Grid3Vertex.sameTopo_hex3 ox oy oz lx ly lz
  refine ⟨Grid3Count.iterVertices_length hnx hny hnz st, Grid3Edge.iterEdges_length hnx hny hnz st, ?_,
    Grid3Count.iterVolumes_length hnx hny st⟩
  rw [Grid3Face.iterFaces_length hnx hny hnz st]
  ring

/-- Euler's relation for the solid box: `V − E + F − C = 1` -/
theorem C12_hex3_euler (ox oy oz lx ly lz : Rat) {nx ny nz : Nat} (hnx : 0 < nx) (hny : 0 < ny)
    (hnz : 0 < nz) :
    let m := buildHex3 ox oy oz nx ny nz lx ly lz
    (iterVertices3 m).length + (iterFaces3 m).length =
      (iterEdges3 m).length + (iterVolumes3 m).length + 1 := by
  intro m
  obtain ⟨v, e, f, c⟩ := C12_hex3_counts_all ox oy oz lx ly lz hnx hny hnz
  rw [v, e, f, c]
  ring

example : (iterFaces3 (buildHex3 0 0 0 2 1 1 1 1 1)).length = 11 :=
  (C12_hex3_counts_all 0 0 0 1 1 1 (nx := 2) (ny := 1) (nz := 1) (by decide) (by decide) (by decide)).2.2.1
example : (iterEdges3 (buildHex3 0 0 0 2 1 1 1 1 1)).length = 20 :=
  (C12_hex3_counts_all 0 0 0 1 1 1 (nx := 2) (ny := 1) (nz := 1) (by decide) (by decide) (by decide)).2.1
example : (iterVertices3 (buildHex3 0 0 0 1 2 3 1 1 1)).length + (iterFaces3 (buildHex3 0 0 0 1 2 3 1 1 1)).length =
    (iterEdges3 (buildHex3 0 0 0 1 2 3 1 1 1)).length + (iterVolumes3 (buildHex3 0 0 0 1 2 3 1 1 1)).length + 1 :=
  C12_hex3_euler 0 0 0 1 1 1 (by decide) (by decide) (by decide)
example : okVal (run (faceId3 (buildHex3 0 0 0 2 1 1 1 1 1).n (dartOf 24 2 1 1 0 0 8)) (buildHex3 0 0 0 2 1 1 1 1 1)) 0 =
    dartOf 24 2 1 1 0 0 8 :=
  (C12_hex3_faces 0 0 0 1 1 1 (nx := 2) (ny := 1) (nz := 1) (ix := 1) (iy := 0) (iz := 0) (o := 8)
    (by decide) (by decide) (by decide) (by decide) (by decide) (by decide)).mpr (by decide)
example : Grid3Edge.eid3 (buildHex3 0 0 0 1 1 1 1 1 1) 1 = Grid3Edge.eid3 (buildHex3 0 0 0 1 1 1 1 1 1) 1 :=
  ((C12_hex3_edges 0 0 0 1 1 1 (nx := 1) (ny := 1) (nz := 1) (by decide) (by decide) 1 1
    (Grid3Vertex.isD3_of_range (by decide) (by decide) (by decide) (by decide))
    (Grid3Vertex.isD3_of_range (by decide) (by decide) (by decide) (by decide))).1).mpr rfl

/-! ## the tetrahedral split grid -/

/-- `split_cells(true)` on a 3-D descriptor: the code is `unimplemented!()` (reached after a successful
    parse), the model mirrors it as a panic.  There is no tetrahedral grid to state counts about. -/
theorem C12_build3_split_unimplemented (o : Rat × Rat × Rat) (nx ny nz : Nat) {lx ly lz : Rat}
    (hx : 0 < lx) (hy : 0 < ly) (hz : 0 < lz) (lens : Option (Rat × Rat × Rat)) :
    build3 true o (some (nx, ny, nz)) (some (lx, ly, lz)) lens = .panic := by
  have a1 := badLen_pos hx
  have a2 := badLen_pos hy
  have a3 := badLen_pos hz
  unfold build3
  rcases lens with _ | ⟨tx, ty, tz⟩ <;> simp [parse3, a1, a2, a3]

example : build3 true (0, 0, 0) (some (1, 1, 1)) (some (2, 2, 2)) none = .panic :=
  C12_build3_split_unimplemented (0, 0, 0) 1 1 1 two_pos two_pos two_pos none

end HC.C12
