/-
  C16 / C17 — the origin-shift loop of `compute_overlapping_grid` (`Model/Grisubal.lean`: `shiftAfter`, `onLine`,
  `detectOverlaps`, `shiftLoop`, `overlappingGrid`; Rust: `routines/pre_processing.rs`), over exact rationals.

  * `C16_shift_lt_half`            the cumulated shift after `k` iterations is `1/2 - 1/2^(k+1) ∈ [0, 1/2)` — the hypothesis
                                   `s < 1/2` of `C16_grid_margins` / `C16_grid_tight` (every vertex keeps a full cell of margin)
  * `C16_on_line_for_one_shift`    a coordinate lies on a grid line for at most ONE of the successive origins
  * `C16_shift_loop_terminates`    hence the loop ends within `2·|V|` shifts: `overlappingGrid` never exhausts the fuel
                                   `2·|V| + 1` the model gives it (each of the `|V|` vertices blocks at most one origin per axis,
                                   and both loop conditions — vertex on a corner / line, reflection — need a vertex on a line)
  * `C16_shift_loop_exit`          when it answers `ok ox oy nx ny k`: `k ≤ 2·|V|`, the origin and the cell counts are
                                   `gridOrigin` / `gridCells` for the shift `shiftAfter k`, every earlier origin was rejected,
                                   and for the final origin the check is negative:
  * `C17_no_vertex_on_grid_line`   `capture_geometry` (`keep_all_poi = true`): no vertex lies on a grid line
  * `C16_no_vertex_on_grid_corner` `grisubal` (`keep_all_poi = false`): no vertex lies on a grid corner

  Tie: `ogridg` — the grid read off the map the real `grisubal` / `capture_geometry` return vs `overlappingGrid`, on polygons
  built to make the loop run 1 … 5 times (tools/props/c16.py: shift_grid_tie).  f64: the `%` of the kernel is exact, the
  subtraction before it is exact on the dyadic lattice of the stream; rounding is not modelled.  The kernel computes
  `2_i32.pow(i + 1)`: beyond 30 shifts it overflows — outside the model (it needs more than 15 vertices placed on purpose).
-/
import Mathlib.Algebra.Order.Field.Rat
import Mathlib.Data.List.Nodup
import Mathlib.Tactic.Linarith
import Mathlib.Tactic.Ring
import Mathlib.Tactic.Positivity
import Mathlib.Tactic.FieldSimp
import Honeycomb.Model.Grisubal

namespace HC.C16
open HC

/-! ## the shifts -/

theorem shiftAfter_lt (k : Nat) : 0 ≤ shiftAfter k ∧ shiftAfter k < 1 / 2 := by
  unfold shiftAfter
  have hp : (0 : Rat) < (2 : Rat) ^ (k + 1) := by positivity
  have h2 : (2 : Rat) ≤ (2 : Rat) ^ (k + 1) := by
    have : (2 : Rat) ^ 1 ≤ (2 : Rat) ^ (k + 1) := pow_le_pow_right₀ (by norm_num) (by omega)
    simpa using this
  have h1 : 1 / (2 : Rat) ^ (k + 1) ≤ 1 / 2 := by
    rw [div_le_div_iff₀ hp (by norm_num)]; linarith
  have h0 : 0 < 1 / (2 : Rat) ^ (k + 1) := by positivity
  constructor <;> linarith

/-- **C16, grid — the cumulated shift stays below half a cell** -/
theorem C16_shift_lt_half (k : Nat) : shiftAfter k < 1 / 2 := (shiftAfter_lt k).2

theorem shiftAfter_inj {j k : Nat} (h : shiftAfter j = shiftAfter k) : j = k := by
  unfold shiftAfter at h
  have h1 : (1 : Rat) / (2 : Rat) ^ (j + 1) = 1 / (2 : Rat) ^ (k + 1) := by linarith
  have hj : (0 : Rat) < (2 : Rat) ^ (j + 1) := by positivity
  have hk : (0 : Rat) < (2 : Rat) ^ (k + 1) := by positivity
  have h2 : (2 : Rat) ^ (j + 1) = (2 : Rat) ^ (k + 1) := by
    have := congrArg (fun x : Rat => 1 / x) h1
    simpa using this
  have := pow_right_injective₀ (a := (2 : Rat)) (by norm_num) (by norm_num) h2
  omega

theorem isInt_iff (q : Rat) : q.isInt = true ↔ ∃ n : Int, q = n := by
  unfold Rat.isInt
  constructor
  · intro h
    exact ⟨q.num, ((Rat.den_eq_one_iff q).1 (by simpa using h)).symm⟩
  · rintro ⟨n, rfl⟩
    simp

/-- **C16, grid — a coordinate sits on a grid line for at most one of the successive origins** -/
theorem C16_on_line_for_one_shift {mn c v : Rat} (hc : 0 < c) {j k : Nat}
    (hj : onLine (gridOrigin mn c (shiftAfter j)) c v = true)
    (hk : onLine (gridOrigin mn c (shiftAfter k)) c v = true) : j = k := by
  unfold onLine at hj hk
  obtain ⟨a, ha⟩ := (isInt_iff _).1 hj
  obtain ⟨b, hb⟩ := (isInt_iff _).1 hk
  have e : ∀ s : Rat, (v - gridOrigin mn c s) / c = (v - mn) / c + 3 / 2 - s := by
    intro s; unfold gridOrigin; field_simp; ring
  rw [e] at ha hb
  have hd : ((a - b : Int) : Rat) = shiftAfter k - shiftAfter j := by push_cast; linarith
  have bj := shiftAfter_lt j
  have bk := shiftAfter_lt k
  have h1 : ((a - b : Int) : Rat) < 1 := by rw [hd]; linarith [bj.1, bk.2]
  have h2 : (-1 : Rat) < ((a - b : Int) : Rat) := by rw [hd]; linarith [bj.2, bk.1]
  have h3 : a - b < 1 := by exact_mod_cast h1
  have h4 : -1 < a - b := by exact_mod_cast h2
  have h5 : a - b = 0 := by omega
  rw [h5] at hd
  exact shiftAfter_inj (by simp at hd; linarith)

/-! ## both loop conditions need a vertex on a grid line -/

theorem badReflection_true {verts : List (Rat × Rat)} {segs : List (Nat × Nat)} {ox oy cx cy : Rat} :
    ∀ l : List ((Rat × Rat) × Nat), badReflection verts segs ox oy cx cy l = some true →
      ∃ p, p ∈ l ∧ (onLine ox cx p.1.1 = true ∨ onLine oy cy p.1.2 = true)
  | [], h => by simp [badReflection] at h
  | (v, id) :: rest, h => by
      unfold badReflection at h
      split at h
      · rename_i hc
        have hon : onLine ox cx v.1 = true ∨ onLine oy cy v.2 = true := by
          simp only [Bool.and_eq_true, Bool.or_eq_true] at hc; exact hc.1
        exact ⟨(v, id), List.mem_cons_self, hon⟩
      · obtain ⟨p, hp, h'⟩ := badReflection_true rest h
        exact ⟨p, List.mem_cons_of_mem _ hp, h'⟩

/-- the loop shifts again only if some vertex has a coordinate on a grid line of the current origin -/
theorem gridBad_true {verts : List (Rat × Rat)} {segs : List (Nat × Nat)} {cx cy mnx mny : Rat} {keep : Bool} {k : Nat}
    (h : gridBad verts segs cx cy mnx mny keep k = some true) :
    ∃ i, i < verts.length ∧
      (onLine (gridOrigin mnx cx (shiftAfter k)) cx (verts.getD i (0, 0)).1 = true ∨
       onLine (gridOrigin mny cy (shiftAfter k)) cy (verts.getD i (0, 0)).2 = true) := by
  unfold gridBad detectOverlaps at h
  simp only [Option.map_map] at h
  cases hb : badReflection verts segs (gridOrigin mnx cx (shiftAfter k)) (gridOrigin mny cy (shiftAfter k)) cx cy verts.zipIdx with
  | none => rw [hb] at h; cases h
  | some r =>
      rw [hb] at h
      simp only [Option.map_some, Function.comp, Option.some.injEq, Bool.or_eq_true] at h
      rcases h with h | h
      · -- a vertex on a corner / on a line
        obtain ⟨v, hv, hon⟩ := List.any_eq_true.1 h
        obtain ⟨i, hi⟩ := List.getElem?_of_mem hv
        have hlt : i < verts.length := by
          rcases Nat.lt_or_ge i verts.length with h' | h'
          · exact h'
          · rw [List.getElem?_eq_none h'] at hi; cases hi
        refine ⟨i, hlt, ?_⟩
        rw [List.getD_eq_getElem?_getD, hi]
        simp only [Option.getD_some]
        cases hk : (!keep) with
        | true => rw [hk] at hon; simp only [if_true, Bool.and_eq_true] at hon; exact Or.inl hon.1
        | false => rw [hk] at hon; simpa using hon
      · rw [h] at hb
        obtain ⟨p, hp, hon⟩ := badReflection_true _ hb
        have hp' : verts[p.2]? = some p.1 := List.mem_zipIdx_iff_getElem?.1 hp
        have hlt : p.2 < verts.length := by
          rcases Nat.lt_or_ge p.2 verts.length with h' | h'
          · exact h'
          · rw [List.getElem?_eq_none h'] at hp'; cases hp'
        refine ⟨p.2, hlt, ?_⟩
        rw [List.getD_eq_getElem?_getD, hp']
        exact hon

/-! ## pigeonhole -/

theorem pigeon {N : Nat} {P : Nat → Nat → Prop} (huniq : ∀ w j k, P j w → P k w → j = k)
    (H : ∀ k, k < N + 1 → ∃ w, w < N ∧ P k w) : False := by
  classical
  let f : Nat → Nat := fun k => if h : k < N + 1 then Classical.choose (H k h) else 0
  have hf : ∀ k (h : k < N + 1), f k < N ∧ P k (f k) := by
    intro k h
    have := Classical.choose_spec (H k h)
    simp only [f, dif_pos h]
    exact this
  have hnd : ((List.range (N + 1)).map f).Nodup := by
    refine List.Nodup.map_on ?_ List.nodup_range
    intro x hx y hy e
    have hx' := hf x (List.mem_range.1 hx)
    have hy' := hf y (List.mem_range.1 hy)
    rw [e] at hx'
    exact huniq _ _ _ hx'.2 hy'.2
  have hsub : (List.range (N + 1)).map f ⊆ List.range N := by
    intro w hw
    obtain ⟨k, hk, rfl⟩ := List.mem_map.1 hw
    exact List.mem_range.2 (hf k (List.mem_range.1 hk)).1
  have := hnd.length_le_of_subset hsub
  simp at this

/-- some origin among the first `2·|V| + 1` is accepted (or makes the check panic) -/
theorem exists_good_shift (verts : List (Rat × Rat)) (segs : List (Nat × Nat)) {cx cy : Rat} (hcx : 0 < cx) (hcy : 0 < cy)
    (mnx mny : Rat) (keep : Bool) :
    ∃ k, k < 2 * verts.length + 1 ∧ gridBad verts segs cx cy mnx mny keep k ≠ some true := by
  by_contra hcon
  have hall : ∀ k, k < 2 * verts.length + 1 → gridBad verts segs cx cy mnx mny keep k = some true := by
    intro k hk
    by_contra hne
    exact hcon ⟨k, hk, hne⟩
  -- the witness `2·i` (x axis) / `2·i + 1` (y axis)
  refine pigeon (N := 2 * verts.length)
    (P := fun k w => if w % 2 = 0 then onLine (gridOrigin mnx cx (shiftAfter k)) cx (verts.getD (w / 2) (0, 0)).1 = true
      else onLine (gridOrigin mny cy (shiftAfter k)) cy (verts.getD (w / 2) (0, 0)).2 = true) ?_ ?_
  · intro w j k hj hk
    by_cases hw : w % 2 = 0
    · rw [if_pos hw] at hj hk; exact C16_on_line_for_one_shift hcx hj hk
    · rw [if_neg hw] at hj hk; exact C16_on_line_for_one_shift hcy hj hk
  · intro k hk
    obtain ⟨i, hi, hon⟩ := gridBad_true (hall k hk)
    rcases hon with hon | hon
    · refine ⟨2 * i, by omega, ?_⟩
      rw [if_pos (by omega), show 2 * i / 2 = i by omega]; exact hon
    · refine ⟨2 * i + 1, by omega, ?_⟩
      rw [if_neg (by omega), show (2 * i + 1) / 2 = i by omega]; exact hon

/-! ## the loop -/

theorem shiftLoop_ne_none (bad : Nat → Option Bool) : ∀ (f k : Nat),
    (∃ j, k ≤ j ∧ j < k + f ∧ bad j ≠ some true) → shiftLoop bad f k ≠ none := by
  intro f
  induction f with
  | zero => rintro k ⟨j, h1, h2, _⟩; omega
  | succ f ih =>
      intro k ⟨j, h1, h2, h3⟩
      unfold shiftLoop
      cases hb : bad k with
      | none => simp
      | some b =>
          cases b with
          | false => simp
          | true =>
              simp only
              apply ih
              have hjk : j ≠ k := fun e => h3 (e ▸ hb)
              exact ⟨j, by omega, by omega, h3⟩

theorem shiftLoop_some (bad : Nat → Option Bool) : ∀ (f k r : Nat), shiftLoop bad f k = some (some r) →
    k ≤ r ∧ r < k + f ∧ bad r = some false ∧ ∀ j, k ≤ j → j < r → bad j = some true := by
  intro f
  induction f with
  | zero => intro k r h; simp [shiftLoop] at h
  | succ f ih =>
      intro k r h
      unfold shiftLoop at h
      cases hb : bad k with
      | none => rw [hb] at h; simp at h
      | some b =>
          rw [hb] at h
          cases b with
          | false =>
              simp only [Option.some.injEq] at h
              subst h
              exact ⟨Nat.le_refl _, by omega, hb, fun j h1 h2 => by omega⟩
          | true =>
              simp only at h
              obtain ⟨a, b', c, d⟩ := ih (k + 1) r h
              refine ⟨by omega, by omega, c, ?_⟩
              intro j h1 h2
              by_cases e : j = k
              · rw [e]; exact hb
              · exact d j (by omega) h2

/-- **C16 / C17, grid — the origin-shift loop terminates**: `compute_overlapping_grid` never needs more than `2·|V|`
    shifts (the model's fuel `2·|V| + 1` is never exhausted), for `grisubal` and for `capture_geometry` -/
theorem C16_shift_loop_terminates (verts : List (Rat × Rat)) (segs : List (Nat × Nat)) {cx cy : Rat} (hcx : 0 < cx)
    (hcy : 0 < cy) (keep : Bool) :
    (∀ ox oy nx ny k, overlappingGrid verts segs cx cy keep = .ok ox oy nx ny k → k ≤ 2 * verts.length) ∧
    overlappingGrid verts segs cx cy keep ≠ .diverges := by
  constructor
  · intro ox oy nx ny k h
    unfold overlappingGrid at h
    cases verts with
    | nil => simp at h
    | cons v0 rest =>
        simp only at h
        split at h
        · cases h
        · split at h
          · cases h
          · split at h
            · cases h
            · cases h
            · rename_i r hr
              obtain ⟨_, h2, _⟩ := shiftLoop_some _ _ _ _ hr
              injection h with _ _ _ _ e
              omega
  · intro h
    unfold overlappingGrid at h
    cases verts with
    | nil => simp at h
    | cons v0 rest =>
        simp only at h
        split at h
        · cases h
        · split at h
          · cases h
          · split at h
            · rename_i hn
              obtain ⟨k, hk, hg⟩ := exists_good_shift (v0 :: rest) segs hcx hcy
                (listMinR ((v0 :: rest).map (·.1)) v0.1) (listMinR ((v0 :: rest).map (·.2)) v0.2) keep
              exact shiftLoop_ne_none _ _ 0 ⟨k, Nat.zero_le _, by omega, hg⟩ hn
            · cases h
            · cases h

/-- **C16 / C17, grid — what the loop returns**: the number of shifts is at most `2·|V|`, origin and cell counts are the
    sizing formulas for the cumulated shift `shiftAfter k < 1/2` (so `C16_grid_margins` / `C16_grid_tight` apply), every
    earlier origin was rejected and the final one passes the check -/
theorem C16_shift_loop_exit {verts : List (Rat × Rat)} {segs : List (Nat × Nat)} {cx cy : Rat} {keep : Bool}
    {ox oy : Rat} {nx ny k : Nat} (h : overlappingGrid verts segs cx cy keep = .ok ox oy nx ny k) :
    ∃ v0 rest, verts = v0 :: rest ∧
      let mnx := listMinR (verts.map (·.1)) v0.1
      let mxx := listMaxR (verts.map (·.1)) v0.1
      let mny := listMinR (verts.map (·.2)) v0.2
      let mxy := listMaxR (verts.map (·.2)) v0.2
      k ≤ 2 * verts.length ∧ shiftAfter k < 1 / 2 ∧
      ox = gridOrigin mnx cx (shiftAfter k) ∧ oy = gridOrigin mny cy (shiftAfter k) ∧
      nx = gridCells mnx mxx cx (shiftAfter k) ∧ ny = gridCells mny mxy cy (shiftAfter k) ∧
      gridBad verts segs cx cy mnx mny keep k = some false ∧
      ∀ j, j < k → gridBad verts segs cx cy mnx mny keep j = some true := by
  unfold overlappingGrid at h
  cases verts with
  | nil => simp at h
  | cons v0 rest =>
      refine ⟨v0, rest, rfl, ?_⟩
      simp only at h ⊢
      split at h
      · cases h
      · split at h
        · cases h
        · split at h
          · cases h
          · cases h
          · rename_i r hr
            obtain ⟨_, h2, h3, h4⟩ := shiftLoop_some _ _ _ _ hr
            injection h with e1 e2 e3 e4 e5
            subst e5
            exact ⟨by omega, C16_shift_lt_half _, e1.symm, e2.symm, e3.symm, e4.symm, h3,
              fun j hj => h4 j (Nat.zero_le _) hj⟩

/-- the final check is negative: nothing on the grid (in the sense of the mode) -/
theorem gridBad_false {verts : List (Rat × Rat)} {segs : List (Nat × Nat)} {cx cy mnx mny : Rat} {keep : Bool} {k : Nat}
    (h : gridBad verts segs cx cy mnx mny keep k = some false) :
    ∀ v, v ∈ verts →
      if keep then onLine (gridOrigin mnx cx (shiftAfter k)) cx v.1 = false ∧
                   onLine (gridOrigin mny cy (shiftAfter k)) cy v.2 = false
      else ¬ (onLine (gridOrigin mnx cx (shiftAfter k)) cx v.1 = true ∧
              onLine (gridOrigin mny cy (shiftAfter k)) cy v.2 = true) := by
  unfold gridBad detectOverlaps at h
  simp only [Option.map_map] at h
  cases hb : badReflection verts segs (gridOrigin mnx cx (shiftAfter k)) (gridOrigin mny cy (shiftAfter k)) cx cy verts.zipIdx with
  | none => rw [hb] at h; cases h
  | some r =>
      rw [hb] at h
      simp only [Option.map_some, Function.comp, Option.some.injEq, Bool.or_eq_false_iff] at h
      intro v hv
      have hv' := (List.any_eq_false.1 h.1) v hv
      cases keep with
      | true => simpa using hv'
      | false => simpa using hv'

/-- **C17, grid — after the loop no vertex of the geometry lies on a grid line** (`capture_geometry`,
    `keep_all_poi = true`): every point of interest stays strictly inside a cell -/
theorem C17_no_vertex_on_grid_line {verts : List (Rat × Rat)} {segs : List (Nat × Nat)} {cx cy : Rat}
    {ox oy : Rat} {nx ny k : Nat} (h : overlappingGrid verts segs cx cy true = .ok ox oy nx ny k) :
    ∀ v, v ∈ verts → onLine ox cx v.1 = false ∧ onLine oy cy v.2 = false := by
  obtain ⟨v0, rest, _, hx⟩ := C16_shift_loop_exit h
  simp only at hx
  obtain ⟨_, _, e1, e2, _, _, hb, _⟩ := hx
  intro v hv
  have := gridBad_false hb v hv
  rw [e1, e2]
  simpa using this

/-- **C16, grid — after the loop no vertex of the geometry lies on a grid corner** (`grisubal`,
    `keep_all_poi = false`) -/
theorem C16_no_vertex_on_grid_corner {verts : List (Rat × Rat)} {segs : List (Nat × Nat)} {cx cy : Rat}
    {ox oy : Rat} {nx ny k : Nat} (h : overlappingGrid verts segs cx cy false = .ok ox oy nx ny k) :
    ∀ v, v ∈ verts → ¬ (onLine ox cx v.1 = true ∧ onLine oy cy v.2 = true) := by
  obtain ⟨v0, rest, _, hx⟩ := C16_shift_loop_exit h
  simp only at hx
  obtain ⟨_, _, e1, e2, _, _, hb, _⟩ := hx
  intro v hv
  have := gridBad_false hb v hv
  rw [e1, e2]
  simpa using this

/-! ## examples -/

-- the quadrilateral of the protocol example: vertex 1 on a vertical line of the first grid, vertex 2 on one of the
-- second: capture shifts twice (origin -3/2 + 1/4 + 1/8), grisubal not at all
def exVerts : List (Rat × Rat) := [(0, 0), (5/2, 1/4), (7/4, 19/8), (1/4, 17/8)]
def exSegs : List (Nat × Nat) := [(0, 1), (1, 2), (2, 3), (3, 0)]

example : (match overlappingGrid exVerts exSegs 1 1 true with | .ok ox oy nx ny k => (ox, oy, nx, ny, k) | _ => (0, 0, 0, 0, 0))
    = (-9/8, -9/8, 5, 5, 2) := by decide +kernel
example : (match overlappingGrid exVerts exSegs 1 1 false with | .ok ox oy nx ny k => (ox, oy, nx, ny, k) | _ => (0, 0, 0, 0, 0))
    = (-3/2, -3/2, 5, 5, 0) := by decide +kernel
example : ∀ v, v ∈ exVerts → onLine (-9/8) 1 v.1 = false ∧ onLine (-9/8) 1 v.2 = false := by decide +kernel

end HC.C16
