/-
  C11, second part — the import of a CONFORMING cell list is total and keeps the coordinates;
  export followed by import on meshes without cracks.

  (a6) `C11_import_conforming_ok`: if every cell is a Vertex / Line / Triangle / Quad / Polygon cell of the
       right length whose polygon indices are in range, no directed side (pair of point indices) is used
       twice, and the two end points of every side have different (x, y), then `build_2d_from_vtk` returns
       `Ok` (no error, no `unwrap` panic), the map is well formed, has one face per polygonal cell
       (`C11_import_faces_and_gluing`), is glued exactly along the sides traversed in opposite directions
       (`C11_import_gluing_complete`), and EVERY corner still carries the coordinates of its cell point
       after all the sews: `att 0 (vertex_id d) = point (ptOf d)`.
       The proof runs every `force_sew::<2>` FORWARD (`twoSew2_run_ok`: ids by C03, orientation test by
       `badOrient_opposite`, merges of equal values by `avg_self`) and keeps, over the sew loop, the
       invariant "the value is constant on every vertex cell and stored at the cell's identifier"
       (`SewInv`), using the cell calculus of a 2-link (Lemmas/CellCalc.lean) and C04's `MergedIn` facts.
-/
import Honeycomb.Props.C11
import Honeycomb.Props.C04Cells
import Honeycomb.Lemmas.VtkOrient

set_option linter.unusedSimpArgs false
set_option linter.unusedVariables false

namespace HC.C11
open HC HC.Vtk HC.C03 HC.CellCalc

/-! ## forward runs -/

theorem atomically_of_run {α : Type} {p : P Val α} {m m' : Map Val} {a : α}
    (h : run p m = (.ok a, m')) : atomically p m = (.ok a, m') := by
  unfold atomically; rw [h]

theorem run_iLinkCore_ok {i l r : Nat} {m : Map Val} (o1 : m.okβ i l = true) (o2 : m.okβ i r = true)
    (h1 : m.β i l = 0) (h2 : m.β i r = 0) :
    run (iLinkCore (X := Val) i l r) m = (.ok (), (m.setβ i l r).setβ i r l) := by
  unfold iLinkCore
  simp only [Prog.bind_eq, bind, run_rB, o1, o2, if_true, h1, h2, ne_eq, not_true_eq_false, if_false,
    run_wB, run_wB', Map.okβ_setβ]

theorem run_oneLinkCore_ok {l r : Nat} {m : Map Val} (o1 : m.okβ 1 l = true) (o2 : m.okβ 0 r = true)
    (h1 : m.β 1 l = 0) (h2 : m.β 0 r = 0) :
    run (oneLinkCore (X := Val) l r) m = (.ok (), (m.setβ 1 l r).setβ 0 r l) := by
  unfold oneLinkCore
  simp only [Prog.bind_eq, bind, run_rB, o1, o2, if_true, h1, h2, ne_eq, not_true_eq_false, if_false,
    run_wB, run_wB', Map.okβ_setβ]

theorem run_writeVtx {id : Nat} {v : Val} {m : Map Val} (o : m.okA 0 id = true) :
    run (writeVtx id v) m = (.ok (m.att 0 id), m.setA 0 id (some v)) := by
  unfold writeVtx
  simp only [Prog.bind_eq, bind, run_rA, o, if_true, run_wA, Prog.pure_eq, run_ret]

theorem storages_cfg0_v : storagesOf cfg0 0 = [] := by decide
theorem storages_cfg0_e : storagesOf cfg0 1 = [] := by decide

theorem run_mergeAttrs_cfg0 (k out l r : Nat) (hk : k = 0 ∨ k = 1) (m : Map Val) :
    run (mergeAttrs cfg0 k out l r) m = (.ok (), m) := by
  unfold mergeAttrs
  rcases hk with rfl | rfl
  · rw [storages_cfg0_v]; rfl
  · rw [storages_cfg0_e]; rfl

/-- a vertex merge succeeds when the inputs coincide or both hold the same point -/
theorem mergeS_ok_same {m : Map Val} {out l r : Nat} {x y z : Rat} (hfc : m.fc = 0)
    (ol : m.okA 0 l = true) (or' : m.okA 0 r = true) (oo : m.okA 0 out = true)
    (vl : m.att 0 l = some (.pt x y z)) (vr : m.att 0 r = some (.pt x y z)) :
    ∃ m', run (mergeS cfg0 0 out l r) m = (.ok (), m') := by
  by_cases e : l = r
  · subst e; exact ⟨_, mergeS_run_move cfg0 0 out l m ol oo⟩
  · refine ⟨m.mergeAt 0 out l r (.pt x y z), ?_⟩
    rw [mergeS_run cfg0 0 out l r m hfc e ol or' oo, vl, vr]
    have : (cfg0.law 0) = avgLaw := rfl
    rw [this]
    simp only [mergeVal]
    rw [avg_self]

theorem okA_of_att {m : Map Val} {s d : Nat} {v : Val} (h : m.att s d = some v) : m.okA s d = true := by
  unfold Map.okA
  by_cases h1 : s < m.a.size
  · by_cases h2 : d < (rd m.a s).size
    · simp [h1, h2]
    · exfalso
      have : m.att s d = none := rd_oob _ _ (by omega)
      rw [this] at h; cases h
  · exfalso
    have e1 : rd m.a s = #[] := rd_oob m.a s (by omega)
    have : m.att s d = none := by
      unfold Map.att; rw [e1]; exact rd_oob _ _ (by simp)
    rw [this] at h; cases h

theorem link2_att (m : Map Val) (l r s e : Nat) : (link2 m l r).att s e = m.att s e := rfl
theorem link2_okA (m : Map Val) (l r s e : Nat) : (link2 m l r).okA s e = m.okA s e := rfl
theorem link2_n (m : Map Val) (l r : Nat) : (link2 m l r).n = m.n := rfl
theorem link2_fc (m : Map Val) (l r : Nat) : (link2 m l r).fc = m.fc := rfl

/-- **forward run of a 2-sew of the sew phase**: both darts closed, 2-free, the two pairs of merged
    vertices hold equal points `p` / `q`, `p ≠ q`, and the identifiers of the two ends are disjoint -/
theorem twoSew2_run_ok {m : Map Val} (hwf : WF 3 m) {l r : Nat} (hl0 : l ≠ 0) (hr0 : r ≠ 0) (hlr : l ≠ r)
    (hl : l < m.n) (hr : r < m.n) (hlu : m.unused l = false) (hru : m.unused r = false)
    (h2l : m.β 2 l = 0) (h2r : m.β 2 r = 0) (hbl : m.β 1 l ≠ 0) (hbr : m.β 1 r ≠ 0) (hfc : m.fc = 0)
    (hasV : ∀ d, d < m.n → m.okA 0 d = true)
    {x y x' y' : Rat} (hne : x ≠ x' ∨ y ≠ y')
    (v1 : m.att 0 (cellId m .vertex l) = some (.pt x y 0))
    (v2 : m.att 0 (cellId m .vertex (m.β 1 r)) = some (.pt x y 0))
    (v3 : m.att 0 (cellId m .vertex (m.β 1 l)) = some (.pt x' y' 0))
    (v4 : m.att 0 (cellId m .vertex r) = some (.pt x' y' 0))
    (hd : ∀ b, b = cellId m .vertex (m.β 1 l) ∨ b = cellId m .vertex r →
       b ≠ cellId (link2 m l r) .vertex l ∧ b ≠ cellId m .vertex l ∧ b ≠ cellId m .vertex (m.β 1 r)) :
    ∃ m', run (twoSew2 cfg0 m.n l r) m = (.ok (), m') := by
  have sz := hwf.toSized
  have ho1 : m.okβ 1 l = true := (sz.okβ 1 l).2 ⟨by omega, hl⟩
  have ho2 : m.okβ 1 r = true := (sz.okβ 1 r).2 ⟨by omega, hr⟩
  have o2l : m.okβ 2 l = true := (sz.okβ 2 l).2 ⟨by omega, hl⟩
  have o2r : m.okβ 2 r = true := (sz.okβ 2 r).2 ⟨by omega, hr⟩
  have han : m.β 1 r < m.n := hwf.range 1 (by omega) r hr
  have hbn : m.β 1 l < m.n := hwf.range 1 (by omega) l hl
  have h1 := (C03_vertexId2_min hwf hl0 hl).1
  have h2 := (C03_vertexId2_min hwf hbr han).1
  have h3 := (C03_vertexId2_min hwf hbl hbn).1
  have h4 := (C03_vertexId2_min hwf hr0 hr).1
  have hwf1 : WF 3 (link2 m l r) := hwf.linkI (by omega) (by omega) hl0 hr0 hlr hl hr hlu hru h2l h2r
  have h5 := (C03_vertexId2_min hwf1 (m := link2 m l r) hl0 hl).1
  have h6 := (C03_vertexId2_min hwf1 (m := link2 m l r) hr0 hr).1
  have hlink : run (iLinkCore (X := Val) 2 l r) m = (.ok (), link2 m l r) := run_iLinkCore_ok o2l o2r h2l h2r
  have An_lt : cellId (link2 m l r) .vertex l < m.n := (cellId_idem hwf1 (pol := .vertex) trivial hl0 hl).2.1
  have Bn_lt : cellId (link2 m l r) .vertex r < m.n := (cellId_idem hwf1 (pol := .vertex) trivial hr0 hr).2.1
  -- the edge identifier
  have hok : (link2 m l r).okβ 2 l = true := (hwf1.toSized.okβ 2 l).2 ⟨by omega, hl⟩
  obtain ⟨eid, heid⟩ : ∃ eid, run (edgeId2 (X := Val) l) (link2 m l r) = (.ok eid, link2 m l r) := by
    unfold edgeId2
    simp only [Prog.bind_eq, bind, run_rB, hok, if_true]
    split <;> exact ⟨_, rfl⟩
  -- first merge
  obtain ⟨ma, hmA⟩ := mergeS_ok_same (m := link2 m l r) (out := cellId (link2 m l r) .vertex l)
    (l := cellId m .vertex l) (r := cellId m .vertex (m.β 1 r)) (by rw [link2_fc]; exact hfc)
    (okA_of_att v1) (okA_of_att v2) (hasV _ An_lt) v1 v2
  obtain ⟨stA, fcA, _, frA, _, _, _⟩ := mergeS_step cfg0 0 _ _ _ _ ma () (by rw [link2_fc]; exact hfc) hmA
  have w3 : ma.att 0 (cellId m .vertex (m.β 1 l)) = some (.pt x' y' 0) := by
    obtain ⟨a, b, c⟩ := hd _ (Or.inl rfl)
    rw [frA _ a b c, link2_att]; exact v3
  have w4 : ma.att 0 (cellId m .vertex r) = some (.pt x' y' 0) := by
    obtain ⟨a, b, c⟩ := hd _ (Or.inr rfl)
    rw [frA _ a b c, link2_att]; exact v4
  obtain ⟨mb, hmB⟩ := mergeS_ok_same (m := ma) (out := cellId (link2 m l r) .vertex r)
    (l := cellId m .vertex (m.β 1 l)) (r := cellId m .vertex r) (by rw [fcA, link2_fc]; exact hfc)
    (okA_of_att w3) (okA_of_att w4) (by rw [stA.okA, link2_okA]; exact hasV _ Bn_lt) w3 w4
  refine ⟨mb, ?_⟩
  have hb : badPair cfg0 (some (.pt x y 0)) (some (.pt x y 0)) (some (.pt x' y' 0)) (some (.pt x' y' 0)) = false :=
    badOrient_opposite hne
  unfold twoSew2
  simp only [Prog.bind_eq, bind, run_rB, ho1, ho2, if_true, hbl, hbr, false_and, and_false, if_false]
  rw [run_bind, h1]; simp only
  rw [run_bind, h2]; simp only
  rw [run_bind, h3]; simp only
  rw [run_bind, h4]; simp only
  simp only [run_rA, okA_of_att v1, okA_of_att v2, okA_of_att v3, okA_of_att v4, if_true, v1, v2, v3, v4, hb,
    Bool.false_eq_true, if_false]
  rw [link2_n] at h5 h6
  rw [run_bind, hlink]; simp only
  rw [run_bind, h5]; simp only
  rw [run_bind, h6]; simp only
  rw [run_bind, heid]; simp only
  rw [run_bind, hmA]; simp only
  rw [run_bind, hmB]; simp only
  rw [run_bind, run_mergeAttrs_cfg0 _ _ _ _ (Or.inl rfl)]; simp only
  rw [run_bind, run_mergeAttrs_cfg0 _ _ _ _ (Or.inl rfl)]; simp only
  exact run_mergeAttrs_cfg0 _ _ _ _ (Or.inr rfl) _


theorem cellId_congr {m m' : Map Val} (hβ : ∀ j e, m'.β j e = m.β j e) (hn : m'.n = m.n) (pol : Policy)
    (d : Nat) : cellId m' pol d = cellId m pol d := by
  unfold cellId orb
  have : g2 m' pol = g2 m pol := funext (C04.g2_congr hβ pol)
  rw [this, hn]

/-! ## one sew of the sew phase, at cell level -/

/-- **one round of the sew loop.**  `val` is the point every dart was given by the cell phase.  If `val`
    is constant on the vertex cells and stored at their identifiers, and the two sewn sides run between
    the same two different points in opposite directions, the sew SUCCEEDS and both facts hold again. -/
theorem sew_step_ok (val : Nat → Option Val) {m : Map Val} (hwf : WF 3 m) {l r : Nat}
    (hl : C01.InUse m l) (hr : C01.InUse m r) (hlr : l ≠ r)
    (h2l : m.β 2 l = 0) (h2r : m.β 2 r = 0) (hbl : m.β 1 l ≠ 0) (hbr : m.β 1 r ≠ 0) (hfc : m.fc = 0)
    (hasV : ∀ d, d < m.n → m.okA 0 d = true)
    (const : ∀ d e, d ≠ 0 → d < m.n → SameCell (g2 m .vertex) m.n d e → val d = val e)
    (vals : ∀ d, d ≠ 0 → d < m.n → m.att 0 (cellId m .vertex d) = val d)
    {x y x' y' : Rat} (hne : x ≠ x' ∨ y ≠ y')
    (va : val l = some (.pt x y 0)) (va' : val (m.β 1 r) = some (.pt x y 0))
    (vb : val (m.β 1 l) = some (.pt x' y' 0)) (vb' : val r = some (.pt x' y' 0)) :
    ∃ m', run (twoSew2 cfg0 m.n l r) m = (.ok (), m') ∧ m'.fc = 0 ∧ (∀ d, d < m'.n → m'.okA 0 d = true) ∧
      (∀ d e, d ≠ 0 → d < m'.n → SameCell (g2 m' .vertex) m'.n d e → val d = val e) ∧
      (∀ d, d ≠ 0 → d < m'.n → m'.att 0 (cellId m' .vertex d) = val d) := by
  obtain ⟨hl0, hln, hlu⟩ := hl
  obtain ⟨hr0, hrn, hru⟩ := hr
  have han : m.β 1 r < m.n := hwf.range 1 (by omega) r hrn
  have hbn : m.β 1 l < m.n := hwf.range 1 (by omega) l hln
  have hwf1 : WF 3 (link2 m l r) := hwf.linkI (by omega) (by omega) hl0 hr0 hlr hln hrn hlu hru h2l h2r
  -- the new partition
  obtain ⟨R, hR, hcells⟩ := vertex_cells_link2 hwf hl0 hr0 hlr hln hrn h2l h2r
  have hR' : ∀ d e, R d e ↔ United (g2 m .vertex) m.n l (m.β 1 r) d e := by
    intro d e; rw [hR, if_neg hbr]
  have hN : ∀ d e, SameCell (g2 (link2 m l r) .vertex) m.n d e ↔ UnitedR R r (m.β 1 l) d e := by
    intro d e; rw [hcells, if_neg hbl]
  have Rrefl : ∀ d, R d d := fun d => (hR' d d).2 (Or.inl (.refl d))
  have coarser : ∀ d e, SameCell (g2 m .vertex) m.n d e → SameCell (g2 (link2 m l r) .vertex) m.n d e :=
    fun d e h => (hN d e).2 (Or.inl ((hR' d e).2 (Or.inl h)))
  have constR : ∀ d e, d ≠ 0 → d < m.n → R d e → val d = val e := by
    intro d e hd0 hd h
    rcases (hR' d e).1 h with h1 | ⟨h1, h2⟩ | ⟨h1, h2⟩
    · exact const d e hd0 hd h1
    · rw [const d l hd0 hd h1, va, ← va', const _ e hbr han h2]
    · rw [const d _ hd0 hd h1, va', ← va, const l e hl0 hln h2]
  have constN : ∀ d e, d ≠ 0 → d < m.n → SameCell (g2 (link2 m l r) .vertex) m.n d e → val d = val e := by
    intro d e hd0 hd h
    rcases (hN d e).1 h with h1 | ⟨h1, h2⟩ | ⟨h1, h2⟩
    · exact constR d e hd0 hd h1
    · rw [constR d r hd0 hd h1, vb', ← vb, constR _ e hbl hbn h2]
    · rw [constR d _ hd0 hd h1, vb, ← vb', constR r e hr0 hrn h2]
  have sep : ¬ SameCell (g2 (link2 m l r) .vertex) m.n l r := by
    intro h
    have := constN l r hl0 hln h
    rw [va, vb'] at this
    simp only [Option.some.injEq, Val.pt.injEq, and_true] at this
    rcases hne with h1 | h1
    · exact h1 this.1
    · exact h1 this.2
  have Nlr_a : SameCell (g2 (link2 m l r) .vertex) m.n l (m.β 1 r) :=
    (hN _ _).2 (Or.inl ((hR' _ _).2 (Or.inr (Or.inl ⟨.refl _, .refl _⟩))))
  have Nr_b : SameCell (g2 (link2 m l r) .vertex) m.n r (m.β 1 l) :=
    (hN _ _).2 (Or.inr (Or.inl ⟨Rrefl _, Rrefl _⟩))
  -- identifiers lie in their cells
  have idIn : ∀ d, d ≠ 0 → d < m.n → SameCell (g2 m .vertex) m.n d (cellId m .vertex d) := fun d h0 hd =>
    (C04.mem_cell_iff hwf h0 hd _).1 (cellId_spec hwf (pol := .vertex) trivial h0 hd).1
  have idInN : ∀ d, d ≠ 0 → d < m.n →
      SameCell (g2 (link2 m l r) .vertex) m.n d (cellId (link2 m l r) .vertex d) := fun d h0 hd =>
    (C04.mem_cell_iff hwf1 (m := link2 m l r) h0 hd _).1
      (cellId_spec hwf1 (m := link2 m l r) (pol := .vertex) trivial h0 hd).1
  have excl : ∀ c, SameCell (g2 (link2 m l r) .vertex) m.n l c →
      SameCell (g2 (link2 m l r) .vertex) m.n r c → False := fun c h1 h2 => sep (.trans h1 (.symm h2))
  have inL_An := idInN l hl0 hln
  have inL_A1 := coarser _ _ (idIn l hl0 hln)
  have inL_A2 : SameCell (g2 (link2 m l r) .vertex) m.n l (cellId m .vertex (m.β 1 r)) :=
    .trans Nlr_a (coarser _ _ (idIn _ hbr han))
  have inR_Bn := idInN r hr0 hrn
  have inR_B1 : SameCell (g2 (link2 m l r) .vertex) m.n r (cellId m .vertex (m.β 1 l)) :=
    .trans Nr_b (coarser _ _ (idIn _ hbl hbn))
  have inR_B2 := coarser _ _ (idIn r hr0 hrn)
  -- the old values
  have v1 : m.att 0 (cellId m .vertex l) = some (.pt x y 0) := by rw [vals l hl0 hln, va]
  have v2 : m.att 0 (cellId m .vertex (m.β 1 r)) = some (.pt x y 0) := by rw [vals _ hbr han, va']
  have v3 : m.att 0 (cellId m .vertex (m.β 1 l)) = some (.pt x' y' 0) := by rw [vals _ hbl hbn, vb]
  have v4 : m.att 0 (cellId m .vertex r) = some (.pt x' y' 0) := by rw [vals r hr0 hrn, vb']
  have hd : ∀ b, b = cellId m .vertex (m.β 1 l) ∨ b = cellId m .vertex r →
      b ≠ cellId (link2 m l r) .vertex l ∧ b ≠ cellId m .vertex l ∧ b ≠ cellId m .vertex (m.β 1 r) := by
    intro b hb
    have inRb : SameCell (g2 (link2 m l r) .vertex) m.n r b := by
      rcases hb with rfl | rfl
      · exact inR_B1
      · exact inR_B2
    exact ⟨fun e => excl b (by rw [e]; exact inL_An) inRb, fun e => excl b (by rw [e]; exact inL_A1) inRb, fun e => excl b (by rw [e]; exact inL_A2) inRb⟩
  obtain ⟨m', hrun⟩ := twoSew2_run_ok hwf hl0 hr0 hlr hln hrn hlu hru h2l h2r hbl hbr hfc hasV hne v1 v2 v3 v4 hd
  obtain ⟨_, htopo, _, _, ma, mb, mc, md, rA, rB, rC, rD, rE⟩ :=
    C04.C04_twoSew2_cells cfg0 m m' l r () hwf ⟨hl0, hln, hlu⟩ ⟨hr0, hrn, hru⟩ hlr hfc hbl hbr hrun
  have hn' : m'.n = m.n := htopo.n
  have hβ' : ∀ j e, m'.β j e = (link2 m l r).β j e := fun j e => htopo.β j e
  have n0v : (0 : Nat) ∉ storagesOf cfg0 0 := C04.zero_notin_storagesOf cfg0 0
  have n0e : (0 : Nat) ∉ C04.eStores cfg0 := C04.zero_notin_storagesOf cfg0 1
  have mem0 : (0 : Nat) ∈ [0] := by simp
  have fin : ∀ e, m'.att 0 e = mb.att 0 e := fun e => by
    rw [rE.other 0 e n0e, rD.other 0 e n0v, rC.other 0 e n0v]
  -- values after the two merges
  have hA : ma.att 0 (cellId (link2 m l r) .vertex l) = some (.pt x y 0) := by
    by_cases e : cellId m .vertex l = cellId m .vertex (m.β 1 r)
    · rw [rA.moved e 0 mem0, link2_att]; exact v1
    · obtain ⟨v, hv, hv'⟩ := rA.merged e 0 mem0
      rw [link2_att, link2_att, v1, v2] at hv
      have : (cfg0.law 0) = avgLaw := rfl
      rw [this] at hv
      simp only [mergeVal] at hv
      rw [avg_self] at hv
      cases hv
      exact hv'
  have frA : ∀ e, SameCell (g2 (link2 m l r) .vertex) m.n r e → ma.att 0 e = m.att 0 e := by
    intro e he
    rw [rA.frame 0 e mem0 (fun h => excl e (by rw [h]; exact inL_An) he) (fun h => excl e (by rw [h]; exact inL_A1) he)
      (fun h => excl e (by rw [h]; exact inL_A2) he), link2_att]
  have hB : mb.att 0 (cellId (link2 m l r) .vertex r) = some (.pt x' y' 0) := by
    by_cases e : cellId m .vertex (m.β 1 l) = cellId m .vertex r
    · rw [rB.moved e 0 mem0, frA _ inR_B1]; exact v3
    · obtain ⟨v, hv, hv'⟩ := rB.merged e 0 mem0
      rw [frA _ inR_B1, frA _ inR_B2, v3, v4] at hv
      have : (cfg0.law 0) = avgLaw := rfl
      rw [this] at hv
      simp only [mergeVal] at hv
      rw [avg_self] at hv
      cases hv
      exact hv'
  have hA' : mb.att 0 (cellId (link2 m l r) .vertex l) = some (.pt x y 0) := by
    rw [rB.frame 0 _ mem0 (fun h => excl _ inL_An (by rw [h]; exact inR_Bn)) (fun h => excl _ inL_An (by rw [h]; exact inR_B1))
      (fun h => excl _ inL_An (by rw [h]; exact inR_B2))]
    exact hA
  have fc' : m'.fc = 0 := by
    rw [rE.fc, rD.fc, rC.fc, rB.fc, rA.fc, link2_fc]; exact hfc
  refine ⟨m', hrun, fc', ?_, ?_, ?_⟩
  · intro d hd'
    rw [htopo.okA, link2_okA]; exact hasV d (by omega)
  · intro d e hd0 hd' h
    rw [hn'] at hd' h
    exact constN d e hd0 hd' ((C04.sameCell_of_beta_eq hβ' m.n d e).1 h)
  · intro d hd0 hd'
    rw [hn'] at hd'
    rw [cellId_congr hβ' (by rw [hn']; rfl) .vertex d, fin]
    by_cases cL : SameCell (g2 (link2 m l r) .vertex) m.n l d
    · have : cellId (link2 m l r) .vertex d = cellId (link2 m l r) .vertex l :=
        ((C03_same_id_iff_same_cell hwf1 (m := link2 m l r) (pol := .vertex) trivial hd0 hd' hl0 hln).2).2 (.symm cL)
      rw [this, hA', ← va, constN l d hl0 hln cL]
    · by_cases cR : SameCell (g2 (link2 m l r) .vertex) m.n r d
      · have : cellId (link2 m l r) .vertex d = cellId (link2 m l r) .vertex r :=
          ((C03_same_id_iff_same_cell hwf1 (m := link2 m l r) (pol := .vertex) trivial hd0 hd' hr0 hrn).2).2 (.symm cR)
        rw [this, hB, ← vb', constN r d hr0 hrn cR]
      · -- the cell of `d` is untouched
        have nL : ∀ c, SameCell (g2 (link2 m l r) .vertex) m.n d c →
            SameCell (g2 (link2 m l r) .vertex) m.n l c → False := fun c h1 h2 => cL (.trans h2 (.symm h1))
        have nR : ∀ c, SameCell (g2 (link2 m l r) .vertex) m.n d c →
            SameCell (g2 (link2 m l r) .vertex) m.n r c → False := fun c h1 h2 => cR (.trans h2 (.symm h1))
        have NofR : ∀ a b, R a b → SameCell (g2 (link2 m l r) .vertex) m.n a b := fun a b h => (hN a b).2 (Or.inl h)
        have same : ∀ z, SameCell (g2 (link2 m l r) .vertex) m.n d z ↔
            (SameCell (g2 m .vertex) m.n d z ∨ SameCell (g2 m .vertex) m.n d z) := by
          intro z
          constructor
          · intro h
            have hRdz : R d z := by
              rcases (hN d z).1 h with h1 | ⟨h1, _⟩ | ⟨h1, _⟩
              · exact h1
              · exact (nR r (NofR _ _ h1) (.refl _)).elim
              · exact (nR _ (NofR _ _ h1) Nr_b).elim
            rcases (hR' d z).1 hRdz with h1 | ⟨h1, _⟩ | ⟨h1, _⟩
            · exact Or.inl h1
            · exact (nL l (coarser _ _ h1) (.refl _)).elim
            · exact (nL _ (coarser _ _ h1) Nlr_a).elim
          · rintro (h | h) <;> exact coarser _ _ h
        have idEq : cellId (link2 m l r) .vertex d = cellId m .vertex d := by
          have := C04.cellId_of_union hwf hwf1 rfl hd0 hd' hd0 hd' hd0 hd' same
          rw [this, Nat.min_self]
        rw [idEq]
        have inD := coarser _ _ (idIn d hd0 hd')
        rw [rB.frame 0 _ mem0 (fun h => nR _ inD (by rw [h]; exact inR_Bn)) (fun h => nR _ inD (by rw [h]; exact inR_B1))
            (fun h => nR _ inD (by rw [h]; exact inR_B2)),
          rA.frame 0 _ mem0 (fun h => nL _ inD (by rw [h]; exact inL_An)) (fun h => nL _ inD (by rw [h]; exact inL_A1))
            (fun h => nL _ inD (by rw [h]; exact inL_A2)), link2_att]
        exact vals d hd0 hd'

/-! ## the sew loop -/

theorem length_bufErase_le (b : Buf) (k : Nat × Nat) : (bufErase b k).length ≤ b.length :=
  List.length_filter_le _ _

theorem length_bufErase_lt {b : Buf} {e : (Nat × Nat) × Nat} (he : e ∈ b) :
    (bufErase b e.1).length < b.length := by
  induction b with
  | nil => simp at he
  | cons x xs ih =>
      unfold bufErase
      rw [List.filter_cons]
      by_cases hx : x.1 = e.1
      · simp only [hx, ne_eq, not_true_eq_false, decide_false, Bool.false_eq_true, if_false, List.length_cons]
        exact Nat.lt_succ_of_le (List.length_filter_le _ _)
      · have hm : e ∈ xs := by
          rcases List.mem_cons.1 he with h | h
          · subst h; exact absurd rfl hx
          · exact h
        simp only [hx, ne_eq, not_false_eq_true, decide_true, if_true, List.length_cons]
        exact Nat.succ_lt_succ (ih hm)

/-- invariant of the sew loop on a conforming list: besides `Inv`, every buffered dart is 2-free, every
    dart has a successor, the point `val d` given to dart `d` by the cell phase is constant on the
    vertex cells and stored at their identifiers, and a buffer entry `((a, b), d)` says that `d` runs
    from point `a` to a different point `b` -/
structure SewInv (val : Nat → Option Val) (fp : List Val) (m : Map Val) (buf : Buf) : Prop where
  inv : Inv m.n (m, buf)
  free : ∀ e, e ∈ buf → m.β 2 e.2 = 0
  fc : m.fc = 0
  hasV : ∀ d, d < m.n → m.okA 0 d = true
  closed : ∀ d, d ≠ 0 → d < m.n → m.β 1 d ≠ 0
  const : ∀ d e, d ≠ 0 → d < m.n → SameCell (g2 m .vertex) m.n d e → val d = val e
  vals : ∀ d, d ≠ 0 → d < m.n → m.att 0 (cellId m .vertex d) = val d
  keyv : ∀ e, e ∈ buf → val e.2 = fp[e.1.1]? ∧ val (m.β 1 e.2) = fp[e.1.2]?
  pts : ∀ e, e ∈ buf → ∃ x y x' y', fp[e.1.1]? = some (.pt x y 0) ∧ fp[e.1.2]? = some (.pt x' y' 0) ∧
    (x ≠ x' ∨ y ≠ y')

theorem SewInv.sub {val : Nat → Option Val} {fp : List Val} {m : Map Val} {buf buf' : Buf}
    (h : SewInv val fp m buf) (hs : ∀ e, e ∈ buf' → e ∈ buf) : SewInv val fp m buf' where
  inv := { wf := h.inv.wf, used := h.inv.used, le := h.inv.le
           pos := fun x hx => h.inv.pos x (hs x hx), lt := fun x hx => h.inv.lt x (hs x hx)
           inj := fun a ha b hb => h.inv.inj a (hs a ha) b (hs b hb) }
  free := fun e he => h.free e (hs e he)
  fc := h.fc
  hasV := h.hasV
  closed := h.closed
  const := h.const
  vals := h.vals
  keyv := fun e he => h.keyv e (hs e he)
  pts := fun e he => h.pts e (hs e he)

/-- **the sew phase of a conforming list succeeds and keeps every point** -/
theorem sewLoop_ok (val : Nat → Option Val) (fp : List Val) :
    ∀ (fuel : Nat) (buf : Buf) (m : Map Val), buf.length < fuel → SewInv val fp m buf →
      ∃ m', sewLoop fuel buf m = .ok m' ∧ m'.n = m.n ∧
        (∀ d, d ≠ 0 → d < m'.n → m'.att 0 (cellId m' .vertex d) = val d) := by
  intro fuel
  induction fuel with
  | zero => intro buf m h; omega
  | succ f ih =>
      intro buf m hlen h
      match he : bufMin buf with
      | none =>
          refine ⟨m, ?_, rfl, h.vals⟩
          simp only [sewLoop, he]
      | some e =>
          have hem := bufMin_mem he
          have hl1 := length_bufErase_lt hem
          match hfind : bufFind (bufErase buf e.1) (e.1.2, e.1.1) with
          | none =>
              obtain ⟨m', hm', hn', hv'⟩ := ih (bufErase buf e.1) m (by omega)
                (h.sub fun x hx => (mem_bufErase hx).1)
              refine ⟨m', ?_, hn', hv'⟩
              simp only [sewLoop, he, hfind]
              exact hm'
          | some d1 =>
              obtain ⟨x1, hx1, hxk, hxd⟩ := bufFind_mem hfind
              obtain ⟨hx1b, hx1ne⟩ := mem_bufErase hx1
              have hinv := h.inv
              have hne : e.2 ≠ d1 := by
                intro heq
                exact hx1ne (hinv.inj x1 hx1b e hem (by rw [hxd, heq]))
              have hl : C01.InUse m e.2 := ⟨hinv.pos e hem, hinv.lt e hem, hinv.used _⟩
              have hr : C01.InUse m d1 := by
                rw [← hxd]; exact ⟨hinv.pos x1 hx1b, hinv.lt x1 hx1b, hinv.used _⟩
              obtain ⟨x, y, x', y', pa, pb, hdist⟩ := h.pts e hem
              obtain ⟨ka, kb⟩ := h.keyv e hem
              obtain ⟨kc, kd⟩ := h.keyv x1 hx1b
              rw [hxk, hxd] at kc kd
              simp only at kc kd
              obtain ⟨m2, hrun, fc2, hasV2, const2, vals2⟩ :=
                sew_step_ok val hinv.wf hl hr hne (h.free e hem) (by rw [← hxd]; exact h.free x1 hx1b)
                  (h.closed _ hl.1 hl.2.1) (h.closed _ hr.1 hr.2.1) h.fc h.hasV h.const h.vals hdist
                  (by rw [ka, pa]) (by rw [kd, pa]) (by rw [kb, pb]) (by rw [kc, pb])
              have hsew := atomically_of_run hrun
              obtain ⟨wf2, sd2⟩ := sew2_step hinv.wf hl hr hne hsew
              obtain ⟨_, l2, l3⟩ := sew2_links hne hsew
              obtain ⟨_, b012, _⟩ := sew2_topo hsew
              have sub : ∀ z, z ∈ bufErase (bufErase buf e.1) (e.1.2, e.1.1) → z ∈ buf ∧ z.1 ≠ e.1 ∧
                  z.1 ≠ (e.1.2, e.1.1) := fun z hz =>
                ⟨(mem_bufErase (mem_bufErase hz).1).1, (mem_bufErase (mem_bufErase hz).1).2, (mem_bufErase hz).2⟩
              have dartne : ∀ z, z ∈ bufErase (bufErase buf e.1) (e.1.2, e.1.1) → z.2 ≠ e.2 ∧ z.2 ≠ d1 := by
                intro z hz
                obtain ⟨zb, zk1, zk2⟩ := sub z hz
                refine ⟨fun hh => zk1 (hinv.inj z zb e hem hh), fun hh => zk2 ?_⟩
                rw [← hxk]
                exact hinv.inj z zb x1 hx1b (by rw [hh, hxd])
              have inv2 : SewInv val fp m2 (bufErase (bufErase buf e.1) (e.1.2, e.1.1)) :=
                { inv := { wf := wf2, used := fun d => by rw [sd2.unused]; exact hinv.used d, le := Nat.le_refl _
                           pos := fun z hz => hinv.pos z (sub z hz).1
                           lt := fun z hz => by rw [sd2.1]; exact hinv.lt z (sub z hz).1
                           inj := fun a ha b hb => hinv.inj a (sub a ha).1 b (sub b hb).1 }
                  free := fun z hz => by
                    rw [l3 _ (dartne z hz).1 (dartne z hz).2]; exact h.free z (sub z hz).1
                  fc := fc2
                  hasV := hasV2
                  closed := fun d hd0 hd => by
                    rw [b012 1 d (by omega)]; exact h.closed d hd0 (by rw [← sd2.1]; exact hd)
                  const := const2
                  vals := vals2
                  keyv := fun z hz => by
                    rw [b012 1 _ (by omega)]; exact h.keyv z (sub z hz).1
                  pts := fun z hz => h.pts z (sub z hz).1 }
              obtain ⟨m', hm', hn', hv'⟩ := ih _ m2
                (by have := length_bufErase_le (bufErase buf e.1) (e.1.2, e.1.1); omega) inv2
              refine ⟨m', ?_, by rw [hn', sd2.1], hv'⟩
              simp only [sewLoop, he, hfind, hsew]
              exact hm'

/-! ## the cell phase, forward -/

/-- storage 0 covers every dart -/
def HasV (m : Map Val) : Prop := ∀ d, d < m.n → m.okA 0 d = true

theorem corner_form {fp : List Val} {vids : List Nat} {d0 i : Nat} {st st' : Map Val × Buf}
    (hc : corner fp vids d0 i st = .ok st') :
    ∃ p, st'.1 = ((st.1.setA 0 (d0 + i) (some p)).setβ 1 (d0 + i)
        (if i = vids.length - 1 then d0 else d0 + i + 1)).setβ 0
        (if i = vids.length - 1 then d0 else d0 + i + 1) (d0 + i) := by
  unfold corner at hc
  simp only at hc
  split at hc
  · simp at hc
  · rename_i p hp
    split at hc
    · rename_i o m1 hw
      obtain ⟨ok1, rfl⟩ := run_writeVtx_ok (atomically_ok hw)
      split at hc
      · rename_i u m2 hl
        obtain ⟨_, _, _, _, rfl⟩ := oneLinkCore_ok (atomically_ok hl)
        simp only [Out.ok.injEq] at hc
        subst hc
        exact ⟨p, rfl⟩
      · simp at hc
    · simp at hc

theorem corner_misc {fp : List Val} {vids : List Nat} {d0 i : Nat} {st st' : Map Val × Buf}
    (hc : corner fp vids d0 i st = .ok st') :
    (∀ s d, st'.1.okA s d = st.1.okA s d) ∧ st'.1.fc = st.1.fc := by
  obtain ⟨p, hp⟩ := corner_form hc
  rw [hp]
  refine ⟨fun s d => ?_, rfl⟩
  simp only [Map.okA_setβ, Map.okA_setA]

theorem corner_ok {fp : List Val} {vids : List Nat} {d0 i : Nat} {st : Map Val × Buf} (hwf : WF 3 st.1)
    (hi : i < vids.length) (hd0 : d0 ≠ 0) (hn : d0 + vids.length ≤ st.1.n) (hasV : HasV st.1) {p : Val}
    (hp : fp[vids.getD i 0]? = some p) (h1 : st.1.β 1 (d0 + i) = 0)
    (h0 : st.1.β 0 (if i = vids.length - 1 then d0 else d0 + i + 1) = 0) :
    ∃ st', corner fp vids d0 i st = .ok st' := by
  have sz := hwf.toSized
  have hdn : (if i = vids.length - 1 then d0 else d0 + i + 1) < st.1.n := by split <;> omega
  have hw := atomically_of_run (run_writeVtx (v := p) (hasV (d0 + i) (by omega)))
  have o1 : (st.1.setA 0 (d0 + i) (some p)).okβ 1 (d0 + i) = true := (sz.okβ 1 _).2 ⟨by omega, by omega⟩
  have o0 : (st.1.setA 0 (d0 + i) (some p)).okβ 0 (if i = vids.length - 1 then d0 else d0 + i + 1) = true :=
    (sz.okβ 0 _).2 ⟨by omega, hdn⟩
  have hl := atomically_of_run (run_oneLinkCore_ok (m := st.1.setA 0 (d0 + i) (some p)) o1 o0 h1 h0)
  refine ⟨(((st.1.setA 0 (d0 + i) (some p)).setβ 1 (d0 + i)
      (if i = vids.length - 1 then d0 else d0 + i + 1)).setβ 0
      (if i = vids.length - 1 then d0 else d0 + i + 1) (d0 + i),
      bufInsert st.2 (vids.getD i 0, vids.getD ((i + 1) % vids.length) 0) (d0 + i)), ?_⟩
  unfold corner
  simp only [hp, hw, hl]

/-- darts of the cell under construction that are still free -/
structure Fresh (vids : List Nat) (d0 s : Nat) (m : Map Val) : Prop where
  b1 : ∀ i, s ≤ i → i < vids.length → m.β 1 (d0 + i) = 0
  b0 : ∀ j, s < j → j < vids.length → m.β 0 (d0 + j) = 0
  b00 : s < vids.length → m.β 0 d0 = 0

theorem corners_ok {fp : List Val} {vids : List Nat} {d0 : Nat} (hd0 : d0 ≠ 0)
    (hr : ∀ i, i < vids.length → ∃ p, fp[vids.getD i 0]? = some p) :
    ∀ (len s : Nat) (st : Map Val × Buf), s + len = vids.length → d0 + vids.length ≤ st.1.n →
      Inv (d0 + s) st → HasV st.1 → Fresh vids d0 s st.1 →
      ∃ st', foldOut (corner fp vids d0) (List.range' s len) st = .ok st' := by
  intro len
  induction len with
  | zero => intro s st _ _ _ _ _; exact ⟨st, by simp [foldOut]⟩
  | succ len ih =>
      intro s st hs hn hinv hasV hf
      have hslt : s < vids.length := by omega
      obtain ⟨p, hp⟩ := hr s hslt
      have h0 : st.1.β 0 (if s = vids.length - 1 then d0 else d0 + s + 1) = 0 := by
        split
        · exact hf.b00 hslt
        · exact hf.b0 (s + 1) (by omega) (by omega)
      obtain ⟨s1, hx⟩ := corner_ok hinv.wf hslt hd0 hn hasV hp (hf.b1 s (Nat.le_refl _) hslt) h0
      obtain ⟨h1, n1⟩ := corner_inv hd0 hslt hn hinv hx
      obtain ⟨q, _, _, hβ, _⟩ := corner_effect hx
      obtain ⟨oka, _⟩ := corner_misc hx
      have hnext := next_eq d0 s vids.length hslt
      have hasV1 : HasV s1.1 := fun d hd => by rw [oka]; exact hasV d (by rw [← n1]; exact hd)
      have hf1 : Fresh vids d0 (s + 1) s1.1 := by
        refine ⟨?_, ?_, ?_⟩
        · intro i hi hik
          rw [hβ]
          have c1 : ¬ ((1 : Nat) = 0 ∧ d0 + i = (if s = vids.length - 1 then d0 else d0 + s + 1)) := by
            intro hh; omega
          have c2 : ¬ ((1 : Nat) = 1 ∧ d0 + i = d0 + s) := by intro hh; omega
          rw [if_neg c1, if_neg c2]
          exact hf.b1 i (by omega) hik
        · intro j hj hjk
          rw [hβ, hnext]
          have hmod : (s + 1) % vids.length = s + 1 ∨ (s + 1) % vids.length = 0 := by
            by_cases c : s + 1 < vids.length
            · exact Or.inl (Nat.mod_eq_of_lt c)
            · have : s + 1 = vids.length := by omega
              rw [this, Nat.mod_self]; exact Or.inr rfl
          have c1 : ¬ ((0 : Nat) = 0 ∧ d0 + j = d0 + (s + 1) % vids.length) := by
            intro hh; rcases hmod with e | e <;> omega
          have c2 : ¬ ((0 : Nat) = 1 ∧ d0 + j = d0 + s) := by intro hh; omega
          rw [if_neg c1, if_neg c2]
          exact hf.b0 j (by omega) hjk
        · intro hk
          rw [hβ, hnext]
          have hmod : (s + 1) % vids.length = s + 1 := Nat.mod_eq_of_lt hk
          have c1 : ¬ ((0 : Nat) = 0 ∧ d0 = d0 + (s + 1) % vids.length) := by intro hh; omega
          have c2 : ¬ ((0 : Nat) = 1 ∧ d0 = d0 + s) := by intro hh; omega
          rw [if_neg c1, if_neg c2]
          exact hf.b00 hslt
      obtain ⟨st', hst'⟩ := ih (s + 1) s1 (by omega) (by rw [n1]; exact hn) h1 hasV1 hf1
      refine ⟨st', ?_⟩
      rw [List.range'_succ]
      unfold foldOut
      rw [hx]
      exact hst'

theorem hasV_addFreeDarts {m : Map Val} (hwf : WF 3 m) (h : HasV m) (k : Nat) : HasV (m.addFreeDarts k).2 := by
  intro d hd
  have h0 := h 0 hwf.npos
  have ha : 0 < m.a.size := by
    unfold Map.okA at h0
    simp only [Bool.and_eq_true, decide_eq_true_eq] at h0
    exact h0.1
  have sz := hwf.toSized.addFreeDarts k
  have ha' : 0 < (m.addFreeDarts k).2.a.size := by simp [Map.addFreeDarts]; exact ha
  have := sz.asz 0 ha'
  unfold Map.okA
  simp only [Bool.and_eq_true, decide_eq_true_eq]
  exact ⟨ha', by omega⟩

theorem buildFace_ok {fp : List Val} {vids : List Nat} {st : Map Val × Buf} (h : Inv st.1.n st)
    (hasV : HasV st.1) (hr : ∀ i, i < vids.length → ∃ p, fp[vids.getD i 0]? = some p) :
    ∃ st', buildFace fp vids st = .ok st' := by
  have hpos : st.1.n ≠ 0 := by have := h.wf.npos; omega
  have sz := h.wf.toSized
  have h0 : Inv (st.1.n + 0) ((st.1.addFreeDarts vids.length).2, st.2) :=
    { wf := h.wf.addFreeDarts (by omega) _
      used := addFreeDarts_used h.wf h.used _
      le := by show st.1.n + 0 ≤ st.1.n + vids.length; omega
      pos := h.pos
      lt := fun e he => by have := h.lt e he; omega
      inj := h.inj }
  have hf : Fresh vids st.1.n 0 (st.1.addFreeDarts vids.length).2 := by
    refine ⟨fun i _ _ => ?_, fun j _ _ => ?_, fun _ => ?_⟩
    · rw [addFreeDarts_β sz _ 1 _ (by omega), if_neg (by omega)]
    · rw [addFreeDarts_β sz _ 0 _ (by omega), if_neg (by omega)]
    · rw [addFreeDarts_β sz _ 0 _ (by omega), if_neg (by omega)]
  obtain ⟨st', hst'⟩ := corners_ok (fp := fp) (vids := vids) (d0 := st.1.n) hpos hr vids.length 0
    ((st.1.addFreeDarts vids.length).2, st.2) (by omega)
    (by show st.1.n + vids.length ≤ st.1.n + vids.length; omega) h0 (hasV_addFreeDarts h.wf hasV _) hf
  refine ⟨st', ?_⟩
  unfold buildFace
  simp only
  rw [List.range_eq_range']
  exact hst'

/-- a cell the importer accepts: a `Vertex` / `Line` / `Triangle` / `Quad` of the right length, or a
    `Polygon` -/
def GoodCell (c : VCell) : Prop :=
  (c.ty = 1 ∧ c.vids.length = 1) ∨ (c.ty = 3 ∧ c.vids.length = 2) ∨ (c.ty = 5 ∧ c.vids.length = 3) ∨
  c.ty = 7 ∨ (c.ty = 9 ∧ c.vids.length = 4)

instance (c : VCell) : Decidable (GoodCell c) := by unfold GoodCell; exact inferInstance

theorem buildFace_misc {fp : List Val} {vids : List Nat} {st st' : Map Val × Buf} (hwf : WF 3 st.1)
    (hasV : HasV st.1) (hb : buildFace fp vids st = .ok st') : HasV st'.1 ∧ st'.1.fc = st.1.fc := by
  obtain ⟨n1, _, _, _⟩ := buildFace_spec hwf hb
  unfold buildFace at hb
  simp only at hb
  have q := foldOut_inv (f := corner fp vids (st.1.addFreeDarts vids.length).1)
    (Q := fun s : Map Val × Buf => (∀ t d, s.1.okA t d = (st.1.addFreeDarts vids.length).2.okA t d) ∧
      s.1.fc = st.1.fc)
    (fun x s s' hq hx => by
      obtain ⟨a, b⟩ := corner_misc hx
      exact ⟨fun t d => by rw [a, hq.1], by rw [b, hq.2]⟩) _
    ((st.1.addFreeDarts vids.length).2, st.2) st' ⟨fun _ _ => rfl, rfl⟩ hb
  refine ⟨fun d hd => ?_, q.2⟩
  rw [q.1]
  exact hasV_addFreeDarts hwf hasV _ d (by rw [addFreeDarts_n, ← n1]; exact hd)

theorem cellStep_misc {fp : List Val} {c : VCell} {st st' : Map Val × Buf} (hwf : WF 3 st.1)
    (hasV : HasV st.1) (hc : cellStep fp c st = .ok st') : HasV st'.1 ∧ st'.1.fc = st.1.fc := by
  rcases cellStep_cases hc with ⟨_, rfl⟩ | ⟨_, hb⟩
  · exact ⟨hasV, rfl⟩
  · exact buildFace_misc hwf hasV hb

theorem cellStep_ok {fp : List Val} {c : VCell} {st : Map Val × Buf} (h : Inv st.1.n st) (hasV : HasV st.1)
    (hg : GoodCell c)
    (hr : (c.ty = 5 ∨ c.ty = 7 ∨ c.ty = 9) → ∀ i, i < c.vids.length → ∃ p, fp[c.vids.getD i 0]? = some p) :
    ∃ st', cellStep fp c st = .ok st' := by
  rcases hg with ⟨t, l⟩ | ⟨t, l⟩ | ⟨t, l⟩ | t | ⟨t, l⟩
  · exact ⟨st, by unfold cellStep; simp [t, l]⟩
  · exact ⟨st, by unfold cellStep; simp [t, l]⟩
  · obtain ⟨st', hb⟩ := buildFace_ok (fp := fp) (vids := c.vids) h hasV (hr (Or.inl t))
    exact ⟨st', by unfold cellStep; simp [t, l, hb]⟩
  · obtain ⟨st', hb⟩ := buildFace_ok (fp := fp) (vids := c.vids) h hasV (hr (Or.inr (Or.inl t)))
    exact ⟨st', by unfold cellStep; simp [t, hb]⟩
  · obtain ⟨st', hb⟩ := buildFace_ok (fp := fp) (vids := c.vids) h hasV (hr (Or.inr (Or.inr t)))
    exact ⟨st', by unfold cellStep; simp [t, l, hb]⟩

theorem cells_ok {fp : List Val} :
    ∀ (cells : List VCell) (st : Map Val × Buf), Inv st.1.n st → HasV st.1 →
      (∀ c, c ∈ cells → GoodCell c) →
      (∀ c, c ∈ cells → (c.ty = 5 ∨ c.ty = 7 ∨ c.ty = 9) → ∀ i, i < c.vids.length →
        ∃ p, fp[c.vids.getD i 0]? = some p) →
      ∃ st', foldOut (cellStep fp) cells st = .ok st' ∧ HasV st'.1 ∧ st'.1.fc = st.1.fc := by
  intro cells
  induction cells with
  | nil => intro st _ hv _ _; exact ⟨st, by simp [foldOut], hv, rfl⟩
  | cons c cs ih =>
      intro st hinv hv hg hr
      obtain ⟨s1, hx⟩ := cellStep_ok hinv hv (hg c List.mem_cons_self) (hr c List.mem_cons_self)
      obtain ⟨hv1, fc1⟩ := cellStep_misc hinv.wf hv hx
      obtain ⟨st', hst', hv', fc'⟩ := ih s1 (cellStep_inv hinv hx) hv1
        (fun c' hc' => hg c' (List.mem_cons_of_mem _ hc')) (fun c' hc' => hr c' (List.mem_cons_of_mem _ hc'))
      refine ⟨st', ?_, hv', by rw [fc', fc1]⟩
      unfold foldOut
      rw [hx]
      exact hst'

/-! ## from the pre-sew map to the sew invariant -/

theorem sideOf_vals {fp : List Val} {m : Map Val} :
    ∀ (vs : List (List Nat)) (s d : Nat) (k : Nat × Nat), SideOf s vs d k → FacesAt fp m s vs →
      (∃ p, fp[k.1]? = some p ∧ m.att 0 d = some p) ∧ (∃ q, fp[k.2]? = some q ∧ m.att 0 (m.β 1 d) = some q) := by
  intro vs
  induction vs with
  | nil => intro s d k h; exact h.elim
  | cons v vs ih =>
      intro s d k h hf
      rcases h with ⟨i, hi, rfl, rfl⟩ | h
      · obtain ⟨hb, _, p, hp, ha⟩ := hf.1 i hi
        have hj : (i + 1) % v.length < v.length := Nat.mod_lt _ (by omega)
        obtain ⟨_, _, q, hq, hqa⟩ := hf.1 _ hj
        exact ⟨⟨p, hp, ha⟩, ⟨q, hq, by rw [hb]; exact hqa⟩⟩
      · exact ih _ d k h hf.2

theorem sideOf_mem_allSides : ∀ (vs : List (List Nat)) (s d : Nat) (k : Nat × Nat), SideOf s vs d k →
    k ∈ allSides vs := by
  intro vs
  induction vs with
  | nil => intro s d k h; exact h.elim
  | cons v vs ih =>
      intro s d k h
      rw [allSides_cons]
      rcases h with ⟨i, hi, _, rfl⟩ | h
      · exact List.mem_append_left _ (mem_sidesOf.2 ⟨i, hi, rfl⟩)
      · exact List.mem_append_right _ (ih _ d k h)

theorem facesAt_closed {fp : List Val} {m : Map Val} :
    ∀ (vs : List (List Nat)) (s : Nat), 1 ≤ s → FacesAt fp m s vs →
      ∀ d, s ≤ d → d < s + (vs.map List.length).sum → m.β 1 d ≠ 0 := by
  intro vs
  induction vs with
  | nil => intro s _ _ d h1 h2; simp at h2; omega
  | cons v vs ih =>
      intro s hs hf d h1 h2
      by_cases c : d < s + v.length
      · obtain ⟨hb, _⟩ := hf.1 (d - s) (by omega)
        have : s + (d - s) = d := by omega
        rw [this] at hb
        rw [hb]; omega
      · refine ih (s + v.length) (by omega) hf.2 d (by omega) ?_
        simp only [List.map_cons, List.sum_cons] at h2
        omega

/-- before any 2-sew every dart is its own vertex -/
theorem sameCell_trivial {m : Map Val} (hwf : WF 3 m) (h2 : ∀ d, m.β 2 d = 0) {d e : Nat}
    (h : SameCell (g2 m .vertex) m.n d e) : d = e := by
  induction h with
  | refl => rfl
  | step hs =>
      exfalso
      obtain ⟨_, _, hb0, hb⟩ := hs
      simp only [g2, h2, List.mem_cons, List.not_mem_nil, or_false] at hb
      rw [hwf.null 1 (by omega)] at hb
      rcases hb with hb | hb <;> exact hb0 hb
  | symm _ ih => exact ih.symm
  | trans _ _ ih1 ih2 => exact ih1.trans ih2

/-- the hypotheses on the points: the two ends of every side exist and differ in the plane -/
def SidesDistinct (fp : List Val) (sides : List (Nat × Nat)) : Prop :=
  ∀ k, k ∈ sides → ∃ x y x' y', fp[k.1]? = some (.pt x y 0) ∧ fp[k.2]? = some (.pt x' y' 0) ∧
    (x ≠ x' ∨ y ≠ y')

theorem sewInv_init {pts : List Val} {cells : List VCell} {m0 : Map Val} {buf : Buf}
    (hb : buildCells pts cells = .ok (m0, buf)) (hasV : HasV m0) (hfc : m0.fc = 0)
    (hdist : SidesDistinct (pts.map flat) (allSides (faceLists cells))) :
    SewInv (fun d => m0.att 0 d) (pts.map flat) m0 buf := by
  obtain ⟨hn, hb2, hfa⟩ := C11_buildCells_structure pts cells m0 buf hb
  have hinv := buildCells_inv hb
  have hwf := hinv.wf
  have hfold : foldOut (cellStep (pts.map flat)) cells (emptyMap, []) = .ok (m0, buf) := by
    unfold buildCells at hb; exact hb
  have hk := cells_keys cells (emptyMap, []) (m0, buf) inv_empty hfold
  have side : ∀ e, e ∈ buf → SideOf 1 (faceLists cells) e.2 e.1 := by
    intro e he
    rcases hk e he with h' | h'
    · simp at h'
    · exact h'
  have idself : ∀ d, d ≠ 0 → d < m0.n → cellId m0 .vertex d = d := by
    intro d hd0 hd
    have := (C04.mem_cell_iff hwf hd0 hd _).1 (cellId_spec hwf (pol := .vertex) trivial hd0 hd).1
    exact (sameCell_trivial hwf hb2 this).symm
  exact
    { inv := hinv
      free := fun e _ => hb2 e.2
      fc := hfc
      hasV := hasV
      closed := fun d hd0 hd => facesAt_closed _ 1 (Nat.le_refl _) hfa d (by omega) (by omega)
      const := fun d e _ _ h => by rw [sameCell_trivial hwf hb2 h]
      vals := fun d hd0 hd => by rw [idself d hd0 hd]
      keyv := fun e he => by
        obtain ⟨⟨p, hp, ha⟩, ⟨q, hq, hqa⟩⟩ := sideOf_vals _ 1 e.2 e.1 (side e he) hfa
        exact ⟨by rw [ha, hp], by rw [hqa, hq]⟩
      pts := fun e he => hdist e.1 (sideOf_mem_allSides _ 1 e.2 e.1 (side e he)) }

/-- corner `i` of the j-th polygonal cell is dart `d0ⱼ + i`; its successor is the next corner and its
    VERTEX (identifier `vertex_id`) carries the cell's i-th point -/
def CornersAt (fp : List Val) (m : Map Val) : Nat → List (List Nat) → Prop
  | _, [] => True
  | s, v :: vs =>
      (∀ i, i < v.length → m.β 1 (s + i) = s + (i + 1) % v.length ∧
        ∃ p, fp[v.getD i 0]? = some p ∧ m.att 0 (cellId m .vertex (s + i)) = some p) ∧
      CornersAt fp m (s + v.length) vs

theorem cornersAt_of {fp : List Val} {m0 m : Map Val} (hβ : ∀ d, m.β 1 d = m0.β 1 d)
    (hv : ∀ d, d ≠ 0 → d < m0.n → m.att 0 (cellId m .vertex d) = m0.att 0 d) :
    ∀ (vs : List (List Nat)) (s : Nat), 1 ≤ s → s + (vs.map List.length).sum ≤ m0.n →
      FacesAt fp m0 s vs → CornersAt fp m s vs := by
  intro vs
  induction vs with
  | nil => intro _ _ _ _; trivial
  | cons v vs ih =>
      intro s hs hn hf
      simp only [List.map_cons, List.sum_cons] at hn
      refine ⟨fun i hi => ?_, ih (s + v.length) (by omega) (by omega) hf.2⟩
      obtain ⟨hb, _, p, hp, ha⟩ := hf.1 i hi
      exact ⟨by rw [hβ, hb], p, hp, by rw [hv _ (by omega) (by omega), ha]⟩

/-- **C11 (a6): the import of a conforming list is TOTAL and keeps the coordinates.**
    Hypotheses (the property's notion of a conforming unstructured grid): every cell is accepted
    (`GoodCell`), no directed side is used twice (hence every undirected side at most twice, in opposite
    directions), and the two end points of every side exist and have different `(x, y)`.
    Conclusion: `build_2d_from_vtk` returns `Ok m` — no error, and none of its `unwrap`s fires —; `m` is
    well formed, has exactly one dart per polygon corner, one β1 cycle on consecutive darts per polygonal
    cell (in the order of the cell's points), and after ALL the sews the vertex of corner `i` of cell `j`
    still carries the coordinates of the cell's i-th point (z dropped).  The gluing is characterised by
    `C11_import_faces_and_gluing` / `C11_import_gluing_complete` (both apply since the result is `Ok`). -/
theorem C11_import_conforming_ok (pts : List Val) (cells : List VCell) (mask : Nat)
    (hg : ∀ c, c ∈ cells → GoodCell c) (hnd : (allSides (faceLists cells)).Nodup)
    (hdist : SidesDistinct (pts.map flat) (allSides (faceLists cells))) :
    ∃ m, importCells pts cells mask = .ok m ∧ WF 3 m ∧
      m.n = 1 + ((faceLists cells).map List.length).sum ∧
      CornersAt (pts.map flat) m 1 (faceLists cells) := by
  -- every polygon index is the origin of a side, hence in range
  have hr : ∀ c, c ∈ cells → (c.ty = 5 ∨ c.ty = 7 ∨ c.ty = 9) → ∀ i, i < c.vids.length →
      ∃ p, (pts.map flat)[c.vids.getD i 0]? = some p := by
    intro c hc hty i hi
    have hmem : c.vids ∈ faceLists cells := by
      unfold faceLists
      rw [List.mem_filterMap]
      exact ⟨c, hc, by simp [hty]⟩
    have hside : (c.vids.getD i 0, c.vids.getD ((i + 1) % c.vids.length) 0) ∈ allSides (faceLists cells) := by
      unfold allSides
      rw [List.mem_flatten]
      exact ⟨sidesOf c.vids, List.mem_map_of_mem hmem, mem_sidesOf.2 ⟨i, hi, rfl⟩⟩
    obtain ⟨x, y, _, _, h1, _, _⟩ := hdist _ hside
    exact ⟨_, h1⟩
  have hv0 : HasV emptyMap := by
    intro d hd
    have : d = 0 := by have : emptyMap.n = 1 := rfl; omega
    subst this; decide
  obtain ⟨st, hfold, hasV, hfc⟩ := cells_ok (fp := pts.map flat) cells (emptyMap, []) inv_empty hv0 hg hr
  obtain ⟨m0, buf⟩ := st
  have hb : buildCells pts cells = .ok (m0, buf) := by unfold buildCells; exact hfold
  have hfc0 : m0.fc = 0 := by rw [hfc]; rfl
  have sinv := sewInv_init hb hasV hfc0 hdist
  obtain ⟨m, hm, hn, hvals⟩ := sewLoop_ok _ _ (buf.length + 1) buf m0 (by omega) sinv
  have himp : importCells pts cells mask = .ok m := by
    unfold importCells
    rw [hb]
    exact hm
  obtain ⟨hn0, _, hfa⟩ := C11_buildCells_structure pts cells m0 buf hb
  have r := sewLoop_sewn _ buf m0 m hm
  refine ⟨m, himp, C11_import_ok_WF _ _ _ _ himp, by rw [hn, hn0], ?_⟩
  exact cornersAt_of (fun d => r.b01 1 d (by omega)) (fun d hd0 hd => hvals d hd0 (by rw [hn]; exact hd))
    _ 1 (Nat.le_refl _) (by rw [hn0]) hfa

/-- non-vacuity: `exCells` over `exPts` is conforming (the `Line` cell is accepted and ignored) -/
example : (∀ c, c ∈ exCells → GoodCell c) ∧ (allSides (faceLists exCells)).Nodup := by decide
example : SidesDistinct (exPts.map flat) (allSides (faceLists exCells)) := by
  intro k hk
  have : k ∈ [(0, 1), (1, 2), (2, 0), (0, 2), (2, 3), (3, 0), (1, 4), (4, 5), (5, 2), (2, 1)] := by
    have e : allSides (faceLists exCells) = [(0, 1), (1, 2), (2, 0), (0, 2), (2, 3), (3, 0), (1, 4), (4, 5), (5, 2), (2, 1)] := by
      decide
    rw [← e]; exact hk
  simp only [List.mem_cons, List.not_mem_nil, or_false] at this
  rcases this with rfl | rfl | rfl | rfl | rfl | rfl | rfl | rfl | rfl | rfl <;>
    exact ⟨_, _, _, _, rfl, rfl, by decide⟩

end HC.C11
