/-
  C16 — when does step 5 (`insert_edges_in_map`) succeed?  A decidable condition on the map.

  * `C16_buildBaseEdge_ok_iff`     on a well-formed map, with `start`, `end` in use and the two new darts live, free and
                                   distinct, `build_base_edge` succeeds EXACTLY when `start` has a successor, `end` a
                                   predecessor, and they are not consecutive (`β1(start) ≠ end`, i.e. `start ≠ β0(end)`): the
                                   "consecutive-darts panic" is the only way it can fail (full strength: an iff)
  * `Ready m e`                    that condition for an edge of step 4 (decidable instance)
  * `C16_stepFive_total_partial`   the whole step 5 succeeds when every edge is `Ready` IN THE MAP BEFORE THE STEP — the
                                   condition is checked once, not along the loop: an iteration only redirects old darts
                                   towards the block of new darts (`ready_step`), so later edges stay `Ready`, even when they
                                   share a dart with an earlier edge.  PARTIAL: for edges without intermediate point of
                                   interest (`inter = []`).
  Forward run equations (`run_oneLinkCore_ok`, `run_oneUnlinkCore_ok`, `run_twoLinkCore_ok`, `run_markBoundary_one`) are
  proved here; the rest of the library only had the elimination direction ("Ok ⇒ …").

  NOT proved: success of an iteration WITH intermediate points.  It needs, beyond `Ready`, the forward totality of the
  editing part of `insert_vertices_on_edge` (chains of links; C14 proves "Ok ⇒ structure" and the exact error kinds, not
  "⇒ Ok"), the two end points of the new edge carrying a value (which `C16_stepFive_carries` provides), and the walks of
  `replace placeholder vertices` / `mark_boundary` along the inserted chain.
-/
import Honeycomb.Props.C16EdgeInsert

set_option linter.unusedSimpArgs false
set_option linter.unusedVariables false

namespace HC.C16
open HC

theorem run_oneLinkCore_ok {l r : Nat} {m : Map Val} (o1 : m.okβ 1 l = true) (o0 : m.okβ 0 r = true)
    (h1 : m.β 1 l = 0) (h0 : m.β 0 r = 0) :
    run (oneLinkCore (X := Val) l r) m = (.ok (), (m.setβ 1 l r).setβ 0 r l) := by
  unfold oneLinkCore
  simp only [Prog.bind_eq, bind, run_rB, o1, o0, h1, h0, if_true, ne_eq, not_true_eq_false, if_false, run_wB, run_wB',
    Map.okβ_setβ]

theorem run_twoLinkCore_ok {l r : Nat} {m : Map Val} (o1 : m.okβ 2 l = true) (o0 : m.okβ 2 r = true)
    (h1 : m.β 2 l = 0) (h0 : m.β 2 r = 0) :
    run (iLinkCore (X := Val) 2 l r) m = (.ok (), (m.setβ 2 l r).setβ 2 r l) := by
  unfold iLinkCore
  by_cases hlr : l = r
  · subst hlr
    simp only [Prog.bind_eq, bind, run_rB, o1, h1, if_true, ne_eq, not_true_eq_false, if_false, run_wB, run_wB',
      Map.okβ_setβ]
  · simp only [Prog.bind_eq, bind, run_rB, o1, o0, h1, h0, if_true, ne_eq, not_true_eq_false, if_false, run_wB, run_wB',
      Map.okβ_setβ]

theorem run_oneUnlinkCore_ok {l : Nat} {m : Map Val} (o1 : m.okβ 1 l = true) (o0 : m.okβ 0 (m.β 1 l) = true)
    (h1 : m.β 1 l ≠ 0) :
    run (oneUnlinkCore (X := Val) l) m = (.ok (), (m.setβ 1 l 0).setβ 0 (m.β 1 l) 0) := by
  unfold oneUnlinkCore
  simp only [Prog.bind_eq, bind, run_rB, o1, o0, h1, if_true, if_false, run_wB, run_wB', Map.okβ_setβ]

theorem run_bind_of_ok {α β : Type} {p : P Val α} {f : α → P Val β} {m m' : Map Val} {a : α}
    (h : run p m = (.ok a, m')) : run (p.bind f) m = run (f a) m' := by
  rw [run_bind, h]

/-- two writes of β on a sized map: sizes, dart count and the new β, in closed form -/
theorem setβ2_facts {m : Map Val} (sz : Sized 3 m) {i j a b : Nat} (v w : Nat) (hi : i < 3) (hj : j < 3)
    (ha : a < m.n) (hb : b < m.n) :
    Sized 3 ((m.setβ i a v).setβ j b w) ∧ ((m.setβ i a v).setβ j b w).n = m.n ∧
    ∀ k e, ((m.setβ i a v).setβ j b w).β k e =
      if j = k ∧ b = e then w else if i = k ∧ a = e then v else m.β k e := by
  refine ⟨(sz.setβ i a v).setβ j b w, rfl, fun k e => ?_⟩
  rw [(sz.setβ i a v).β_setβ hj (show b < (m.setβ i a v).n from hb), sz.β_setβ hi ha]

/-- **Totality of `build_base_edge`.**  On a well-formed map with `start`, `stop` in use and the two new darts live, free and
    distinct, `build_base_edge` succeeds as soon as `start` has a successor, `stop` a predecessor and the two are not
    consecutive. -/
theorem buildBaseEdge_total {m : Map Val} {start stop dNew b2dNew : Nat} (hwf : WF 3 m)
    (hs : C01.InUse m start) (he : C01.InUse m stop) (hd1 : C01.InUse m dNew) (hd2 : C01.InUse m b2dNew)
    (hf1 : ∀ i, i < 3 → m.β i dNew = 0) (hf2 : ∀ i, i < 3 → m.β i b2dNew = 0) (hne : dNew ≠ b2dNew)
    (n1 : m.β 1 start ≠ 0) (n0 : m.β 0 stop ≠ 0) (hcons : m.β 1 start ≠ stop) :
    ∃ m', run (buildBaseEdge start stop dNew b2dNew) m = (.ok (), m') := by
  have sz : Sized 3 m := hwf.toSized
  set b1s := m.β 1 start with hb1s
  set b0e := m.β 0 stop with hb0e
  have ib1s : C01.InUse m b1s := inUse_image hwf (by omega) hs.2.1 n1
  have ib0e : C01.InUse m b0e := inUse_image hwf (by omega) he.2.1 n0
  have hb1 : m.β 1 b0e = stop := hwf.inv10 stop he.2.1 n0
  have hb0s : m.β 0 b1s = start := hwf.inv01 start hs.2.1 n1
  have hsd1 : start ≠ dNew := fun e => n1 (by rw [hb1s, e]; exact hf1 1 (by omega))
  have hsd2 : start ≠ b2dNew := fun e => n1 (by rw [hb1s, e]; exact hf2 1 (by omega))
  have hbd1 : b0e ≠ dNew := fun e => he.1 (by rw [← hb1, e]; exact hf1 1 (by omega))
  have hbd2 : b0e ≠ b2dNew := fun e => he.1 (by rw [← hb1, e]; exact hf2 1 (by omega))
  have hsb : start ≠ b0e := fun e => hcons (by rw [hb1s, e]; exact hb1)
  have hstop1 : stop ≠ dNew := fun e => n0 (by rw [hb0e, e]; exact hf1 0 (by omega))
  have hstop2 : stop ≠ b2dNew := fun e => n0 (by rw [hb0e, e]; exact hf2 0 (by omega))
  have hb1s1 : b1s ≠ dNew := fun e => hs.1 (by rw [← hb0s, e]; exact hf1 0 (by omega))
  have hb1s2 : b1s ≠ b2dNew := fun e => hs.1 (by rw [← hb0s, e]; exact hf2 0 (by omega))
  have okk : ∀ {mm : Map Val}, Sized 3 mm → mm.n = m.n → ∀ {i d}, i < 3 → d < m.n → mm.okβ i d = true :=
    fun {mm} szz nn {i d} hi hd => (Sized.okβ szz i d).2 ⟨hi, by omega⟩
  unfold buildBaseEdge
  simp only [Prog.bind_eq, bind, run_rB, okk sz rfl (show 1 < 3 by omega) hs.2.1, okk sz rfl (show 0 < 3 by omega) he.2.1,
    if_true, ← hb1s, ← hb0e]
  -- 1. unlink `start`
  have r1 := run_oneUnlinkCore_ok (l := start) (m := m) (okk sz rfl (by omega) hs.2.1)
    (okk sz rfl (by omega) ib1s.2.1) n1
  rw [run_bind_of_ok r1]
  obtain ⟨sz1, nn1, β1⟩ := setβ2_facts sz 0 0 (show 1 < 3 by omega) (show 0 < 3 by omega) hs.2.1 ib1s.2.1
  generalize (m.setβ 1 start 0).setβ 0 b1s 0 = m1 at *
  -- 2. unlink the predecessor of `stop`
  have e2 : m1.β 1 b0e = stop := by rw [β1]; simp [hsb, hb1]
  have r2 := run_oneUnlinkCore_ok (l := b0e) (m := m1) (okk sz1 nn1 (by omega) ib0e.2.1)
    (by rw [e2]; exact okk sz1 nn1 (by omega) he.2.1) (by rw [e2]; exact he.1)
  rw [run_bind_of_ok r2, e2]
  obtain ⟨sz2, nn2, β2⟩ := setβ2_facts sz1 0 0 (show 1 < 3 by omega) (show 0 < 3 by omega)
    (a := b0e) (b := m1.β 1 b0e) (by rw [nn1]; exact ib0e.2.1) (by rw [e2, nn1]; exact he.2.1)
  rw [e2] at sz2 nn2 β2
  rw [nn1] at nn2
  generalize (m1.setβ 1 b0e 0).setβ 0 stop 0 = m2 at *
  -- 3. 2-link the new darts
  have e3a : m2.β 2 dNew = 0 := by rw [β2, β1]; simp [hf1 2 (by omega)]
  have e3b : m2.β 2 b2dNew = 0 := by rw [β2, β1]; simp [hf2 2 (by omega)]
  have r3 := run_twoLinkCore_ok (l := dNew) (r := b2dNew) (m := m2) (okk sz2 nn2 (by omega) hd1.2.1)
    (okk sz2 nn2 (by omega) hd2.2.1) e3a e3b
  rw [run_bind_of_ok r3]
  obtain ⟨sz3, nn3, β3⟩ := setβ2_facts sz2 b2dNew dNew (show 2 < 3 by omega) (show 2 < 3 by omega)
    (a := dNew) (b := b2dNew) (by rw [nn2]; exact hd1.2.1) (by rw [nn2]; exact hd2.2.1)
  rw [nn2] at nn3
  generalize (m2.setβ 2 dNew b2dNew).setβ 2 b2dNew dNew = m3 at *
  -- 4. start → dNew
  have e4a : m3.β 1 start = 0 := by rw [β3, β2, β1]; simp [hsb]
  have e4b : m3.β 0 dNew = 0 := by
    rw [β3, β2, β1]; simp [hstop1, hb1s1, hf1 0 (by omega)]
  have r4 := run_oneLinkCore_ok (l := start) (r := dNew) (m := m3) (okk sz3 nn3 (by omega) hs.2.1)
    (okk sz3 nn3 (by omega) hd1.2.1) e4a e4b
  rw [run_bind_of_ok r4]
  obtain ⟨sz4, nn4, β4⟩ := setβ2_facts sz3 dNew start (show 1 < 3 by omega) (show 0 < 3 by omega)
    (a := start) (b := dNew) (by rw [nn3]; exact hs.2.1) (by rw [nn3]; exact hd1.2.1)
  rw [nn3] at nn4
  generalize (m3.setβ 1 start dNew).setβ 0 dNew start = m4 at *
  -- 5. b2dNew → old successor of start
  have hb1stop : b1s ≠ stop := hcons
  have e5a : m4.β 1 b2dNew = 0 := by
    rw [β4, β3, β2, β1]; simp [hsd2, hbd2, hf2 1 (by omega)]
  have e5b : m4.β 0 b1s = 0 := by
    rw [β4, β3, β2, β1]; simp [Ne.symm hb1s1, Ne.symm hb1stop]
  have r5 := run_oneLinkCore_ok (l := b2dNew) (r := b1s) (m := m4) (okk sz4 nn4 (by omega) hd2.2.1)
    (okk sz4 nn4 (by omega) ib1s.2.1) e5a e5b
  rw [run_bind_of_ok r5]
  obtain ⟨sz5, nn5, β5⟩ := setβ2_facts sz4 b1s b2dNew (show 1 < 3 by omega) (show 0 < 3 by omega)
    (a := b2dNew) (b := b1s) (by rw [nn4]; exact hd2.2.1) (by rw [nn4]; exact ib1s.2.1)
  rw [nn4] at nn5
  generalize (m4.setβ 1 b2dNew b1s).setβ 0 b1s b2dNew = m5 at *
  -- 6. dNew → stop
  have e6a : m5.β 1 dNew = 0 := by
    rw [β5, β4, β3, β2, β1]; simp [hsd1, hbd1, Ne.symm hne, hne, hf1 1 (by omega)]
  have e6b : m5.β 0 stop = 0 := by
    rw [β5, β4, β3, β2, β1]; simp [hb1stop, Ne.symm hstop1]
  have r6 := run_oneLinkCore_ok (l := dNew) (r := stop) (m := m5) (okk sz5 nn5 (by omega) hd1.2.1)
    (okk sz5 nn5 (by omega) he.2.1) e6a e6b
  rw [run_bind_of_ok r6]
  obtain ⟨sz6, nn6, β6⟩ := setβ2_facts sz5 stop dNew (show 1 < 3 by omega) (show 0 < 3 by omega)
    (a := dNew) (b := stop) (by rw [nn5]; exact hd1.2.1) (by rw [nn5]; exact he.2.1)
  rw [nn5] at nn6
  generalize (m5.setβ 1 dNew stop).setβ 0 stop dNew = m6 at *
  -- 7. old predecessor of stop → b2dNew
  have e7a : m6.β 1 b0e = 0 := by
    rw [β6, β5, β4, β3, β2, β1]; simp [Ne.symm hbd1, Ne.symm hbd2, Ne.symm hsb, hsb, hbd1, hbd2]
  have e7b : m6.β 0 b2dNew = 0 := by
    rw [β6, β5, β4, β3, β2, β1]
    simp [Ne.symm hstop2, Ne.symm hb1s2, hstop2, hb1s2, hne, Ne.symm hne, hf2 0 (by omega)]
  have r7 := run_oneLinkCore_ok (l := b0e) (r := b2dNew) (m := m6) (okk sz6 nn6 (by omega) ib0e.2.1)
    (okk sz6 nn6 (by omega) hd2.2.1) e7a e7b
  exact ⟨_, r7⟩

/-- **C16, step 5 — `build_base_edge` fails only on the consecutive-darts panic** (and on a start without successor / an end
    without predecessor): on a well-formed map, `start` and `stop` in use, the two new darts live, free and distinct, the
    kernel succeeds EXACTLY when `β1(start) ≠ 0`, `β0(stop) ≠ 0` and `β1(start) ≠ stop` — a decidable condition on the map. -/
theorem C16_buildBaseEdge_ok_iff {m : Map Val} {start stop dNew b2dNew : Nat} (hwf : WF 3 m)
    (hs : C01.InUse m start) (he : C01.InUse m stop) (hd1 : C01.InUse m dNew) (hd2 : C01.InUse m b2dNew)
    (hf1 : ∀ i, i < 3 → m.β i dNew = 0) (hf2 : ∀ i, i < 3 → m.β i b2dNew = 0) (hne : dNew ≠ b2dNew) :
    (∃ m', run (buildBaseEdge start stop dNew b2dNew) m = (.ok (), m')) ↔
      (m.β 1 start ≠ 0 ∧ m.β 0 stop ≠ 0 ∧ m.β 1 start ≠ stop) := by
  constructor
  · rintro ⟨m', hr⟩
    obtain ⟨w1, _, _, _, _, hb1s, hb0e, e1, _, e3, _, _, _, _⟩ :=
      C16_buildBaseEdge_spec hwf hs he hd1 hd2 hf1 hf2 hne hr
    refine ⟨hb1s, hb0e, fun hc => hne ?_⟩
    have : m.β 0 stop = start := by rw [← hc]; exact hwf.inv01 start hs.2.1 hb1s
    rw [← e1, ← e3, this]
  · rintro ⟨a, b, c⟩
    exact buildBaseEdge_total hwf hs he hd1 hd2 hf1 hf2 hne a b c

/-! ## the whole step 5, for edges without intermediate point -/

/-- the decidable condition of `C16_buildBaseEdge_ok_iff`, for an edge of step 4 -/
def Ready (m : Map Val) (e : MEdge) : Prop :=
  C01.InUse m e.start ∧ C01.InUse m e.stop ∧ m.β 1 e.start ≠ 0 ∧ m.β 0 e.stop ≠ 0 ∧ m.β 1 e.start ≠ e.stop

instance (m : Map Val) (e : MEdge) : Decidable (Ready m e) := by unfold Ready C01.InUse; infer_instance

/-- one step of `mark_boundary`, forwards -/
theorem run_markBoundary_one {m : Map Val} {stop d f : Nat} (hd : d ≠ stop) (h1 : m.β 1 d = stop)
    (oa : m.okA sBd d = true) (oa2 : m.okA sBd (m.β 2 d) = true) (ob2 : m.okβ 2 d = true) (ob1 : m.okβ 1 d = true) :
    run (markBoundary stop (f + 2) d) m =
      (.ok (), (m.setA sBd d (some bdLeft)).setA sBd (m.β 2 d) (some bdRight)) := by
  rw [markBoundary, if_neg hd]
  simp only [Prog.bind_eq, bind, run_rA, run_wA, run_rB, oa, oa2, ob1, ob2, if_true, Map.okA_setA, Map.okβ_setA,
    Map.β_setA, h1]
  rw [markBoundary, if_pos rfl]
  rfl

theorem okA_of_wf {m : Map Val} (hwf : WF 3 m) (hA : sBd < m.a.size) {d : Nat} (hd : d < m.n) : m.okA sBd d = true := by
  unfold Map.okA
  have := hwf.toSized.asz sBd hA
  simp only [Bool.and_eq_true, decide_eq_true_eq]
  exact ⟨hA, by omega⟩

/-- one iteration of step 5 for an edge without intermediate point: it succeeds under `Ready`, and what it does to β0/β1 of
    the darts handed out before -/
theorem insertOneEdge_nil_total {m : Map Val} {next i : Nat} {ha : Bool} {e : MEdge} (I : EInv m next)
    (hA : sBd < m.a.size) (R : Ready m e) (hroom : next + 2 ≤ m.n) (hnil : e.inter = []) :
    ∃ m', run (insertOneEdge m.n ha i e (List.range' next (2 + 2 * e.inter.length))) m = (.ok (), m') ∧
      m'.a.size = m.a.size ∧
      (∀ d, d < next → (m'.β 1 d = m.β 1 d ∨ next ≤ m'.β 1 d)) ∧ (∀ d, d < next → m.β 0 d ≠ 0 → m'.β 0 d ≠ 0) := by
  obtain ⟨hs, he, n1, n0, hcons⟩ := R
  have hwf := I.wf
  obtain ⟨u0, f0, t0⟩ := I.fresh next (Nat.le_refl _) (by omega)
  obtain ⟨u1, f1, t1⟩ := I.fresh (next + 1) (by omega) (by omega)
  have id0 : C01.InUse m next := ⟨by have := I.pos; omega, by omega, u0⟩
  have id1 : C01.InUse m (next + 1) := ⟨by omega, by omega, u1⟩
  obtain ⟨m1, r1⟩ := buildBaseEdge_total hwf hs he id0 id1 f0 f1 (by omega) n1 n0 hcons
  obtain ⟨w1, nn1, uu1, a1, as1, _, _, e1, e2, e3, e4, e5, e6, e7⟩ :=
    C16_buildBaseEdge_spec hwf hs he id0 id1 f0 f1 (by omega) r1
  have hstop_ne : next ≠ e.stop := fun h => n0 (by rw [← h]; exact f0 0 (by omega))
  have ok1 : ∀ {i d}, i < 3 → d < m.n → m1.okβ i d = true :=
    fun {i d} hi hd => (Sized.okβ w1.toSized i d).2 ⟨hi, by omega⟩
  have oA1 : ∀ {d}, d < m.n → m1.okA sBd d = true := fun {d} hd => okA_of_wf w1 (by omega) (by omega)
  have e52 : m1.β 2 next = next + 1 := by rw [e5, if_pos rfl]
  obtain ⟨f, hf⟩ : ∃ f, m.n = f + 2 := ⟨m.n - 2, by omega⟩
  have rm := run_markBoundary_one (m := m1) (stop := e.stop) (d := next) (f := f) hstop_ne e2 (oA1 id0.2.1)
    (by rw [e52]; exact oA1 id1.2.1) (ok1 (by omega) id0.2.1) (ok1 (by omega) id0.2.1)
  rw [e52] at rm
  refine ⟨(m1.setA sBd next (some bdLeft)).setA sBd (next + 1) (some bdRight), ?_, ?_, ?_, ?_⟩
  · unfold insertOneEdge
    simp only [Prog.bind_eq, hnil, List.length_nil, Nat.mul_zero, Nat.add_zero]
    rw [rg' (by omega : 0 < 2), rg' (by omega : 1 < 2), Nat.add_zero, run_bind_of_ok r1]
    simp only [List.isEmpty_nil, if_true, Prog.pure_eq, Prog.ret_bind, run_rB, ok1 (show 1 < 3 by omega) hs.2.1, e1]
    rw [hf]; exact rm
  · simp only [Map.setA, size_wr]; exact as1
  · intro d hd
    simp only [Map.β_setA]
    by_cases h1 : d = e.start
    · right; rw [h1, e1]
    · by_cases h2 : d = m.β 0 e.stop
      · right; rw [h2, e3]; omega
      · left; exact e6 d h1 h2 (by omega) (by omega)
  · intro d hd hd0
    simp only [Map.β_setA]
    by_cases h1 : d = e.stop
    · have := w1.inv01 next (by rw [nn1]; exact id0.2.1) (by rw [e2]; exact he.1)
      rw [e2] at this; rw [h1, this]; exact id0.1
    · by_cases h2 : d = m.β 1 e.start
      · have := w1.inv01 (next + 1) (by rw [nn1]; exact id1.2.1) (by rw [e4]; exact n1)
        rw [e4] at this; rw [h2, this]; omega
      · rw [e7 d h1 h2 (by omega) (by omega)]; exact hd0

/-- `Ready` survives an iteration that only redirects darts towards the new block -/
theorem ready_step {m m' : Map Val} {next : Nat} {e' : MEdge} (I : EInv m next) (R : Ready m e')
    (hn : m'.n = m.n) (hu : m'.u = m.u)
    (h1 : ∀ d, d < next → (m'.β 1 d = m.β 1 d ∨ next ≤ m'.β 1 d))
    (h0 : ∀ d, d < next → m.β 0 d ≠ 0 → m'.β 0 d ≠ 0) : Ready m' e' := by
  obtain ⟨hs, he, n1, n0, hcons⟩ := R
  have notFresh : ∀ d, d < m.n → (∃ j, j < 3 ∧ m.β j d ≠ 0) → d < next := by
    intro d hd ⟨j, hj, hne⟩
    rcases Nat.lt_or_ge d next with h' | h'
    · exact h'
    · exact absurd ((I.fresh d h' hd).2.1 j hj) hne
  have hstart : e'.start < next := notFresh _ hs.2.1 ⟨1, by omega, n1⟩
  have hstop : e'.stop < next := notFresh _ he.2.1 ⟨0, by omega, n0⟩
  have hpos := I.pos
  refine ⟨⟨hs.1, by rw [hn]; exact hs.2.1, by unfold Map.unused; rw [hu]; exact hs.2.2⟩,
    ⟨he.1, by rw [hn]; exact he.2.1, by unfold Map.unused; rw [hu]; exact he.2.2⟩, ?_, h0 _ hstop n0, ?_⟩
  · rcases h1 _ hstart with h | h
    · rw [h]; exact n1
    · omega
  · rcases h1 _ hstart with h | h
    · rw [h]; exact hcons
    · omega

theorem insertEdgesFrom_nil_total (ha : Bool) : ∀ (edges : List MEdge) (m : Map Val) (next i : Nat), EInv m next →
    sBd < m.a.size → (∀ e, e ∈ edges → e.inter = [] ∧ Ready m e) →
    next + (edges.map fun e => 2 + 2 * e.inter.length).sum ≤ m.n →
    ∃ m', run (insertEdgesFrom m.n ha i (edges.zip (edgeSlices next edges))) m = (.ok (), m') := by
  intro edges
  induction edges with
  | nil =>
      intro m next i _ _ _ _
      exact ⟨m, by simp only [edgeSlices, List.zip_nil_right, insertEdgesFrom, Prog.pure_eq, run_ret]⟩
  | cons e es ih =>
      intro m next i I hA hall hroom
      simp only [List.map_cons, List.sum_cons] at hroom
      obtain ⟨hnil, R⟩ := hall e List.mem_cons_self
      have hlen : e.inter.length = 0 := by rw [hnil]; rfl
      obtain ⟨m1, r1, as1, b1, b0⟩ := insertOneEdge_nil_total (i := i) (ha := ha) I hA R (by omega) hnil
      obtain ⟨I1, nn1, uu1⟩ := C16_insertOneEdge_inv I R.1 R.2.1 (by omega) r1
      have hall' : ∀ e', e' ∈ es → e'.inter = [] ∧ Ready m1 e' := fun e' he' =>
        ⟨(hall e' (List.mem_cons_of_mem _ he')).1,
          ready_step I (hall e' (List.mem_cons_of_mem _ he')).2 nn1 uu1 b1 b0⟩
      obtain ⟨m', r'⟩ := ih m1 (next + (2 + 2 * e.inter.length)) (i + 1) I1 (by rw [as1]; exact hA) hall'
        (by rw [nn1]; omega)
      refine ⟨m', ?_⟩
      simp only [edgeSlices, List.zip_cons_cons, insertEdgesFrom, Prog.bind_eq]
      rw [run_bind_of_ok r1, ← nn1]
      exact r'

/-- **C16, step 5 — a decidable sufficient condition for success** (partial: edges WITHOUT intermediate point of interest,
    i.e. every segment chain goes from one crossing to the next inside one cell).  On a well-formed map that has the
    boundary storage and carries no tag, `insert_edges_in_map` succeeds — no consecutive-darts panic, no refused link, the
    walk of `mark_boundary` ends — as soon as every edge satisfies `Ready` IN THE MAP BEFORE THE STEP: its two darts are in
    use, `start` has a successor, `stop` a predecessor, and they are not consecutive. -/
theorem C16_stepFive_total_partial {m : Map Val} {ha : Bool} {edges : List MEdge} (hwf : WF 3 m)
    (hnotag : ∀ d, m.att sBd d = none) (hA : sBd < m.a.size)
    (hready : ∀ e, e ∈ edges → e.inter = [] ∧ Ready m e) :
    ∃ m', stepFive m ha edges = (.ok (), m') := by
  unfold stepFive
  simp only
  set k := (edges.map fun e => 2 + 2 * e.inter.length).sum with hk
  have hs := hwf.toSized
  have w1 : WF 3 (m.addFreeDarts k).2 := hwf.addFreeDarts (by omega) k
  have hn1 : (m.addFreeDarts k).2.n = m.n + k := rfl
  have t1 := addFreeDarts_att_none sBd hnotag k
  have I1 : EInv (m.addFreeDarts k).2 m.n := by
    refine ⟨w1, fun d => Or.inl (t1 d), ?_, hs.npos, ?_⟩
    · intro d _ _ _
      show (m.addFreeDarts k).2.att sBd d = _ ↔ (m.addFreeDarts k).2.att sBd _ = _
      rw [t1, t1]; simp
    · intro d hd hdn
      refine ⟨?_, ?_, t1 d⟩
      · rw [addFreeDarts_unused hs, if_neg (by omega)]
      · intro i hi; rw [addFreeDarts_β hs k i d hi, if_neg (by omega)]
  have hready' : ∀ e, e ∈ edges → e.inter = [] ∧ Ready (m.addFreeDarts k).2 e := by
    intro e he
    obtain ⟨hnil, a, b, c1, c0, cc⟩ := hready e he
    refine ⟨hnil, ⟨a.1, by rw [hn1]; have := a.2.1; omega, ?_⟩, ⟨b.1, by rw [hn1]; have := b.2.1; omega, ?_⟩, ?_, ?_, ?_⟩
    · rw [addFreeDarts_unused hs, if_pos a.2.1]; exact a.2.2
    · rw [addFreeDarts_unused hs, if_pos b.2.1]; exact b.2.2
    · rw [addFreeDarts_β hs k 1 _ (by omega), if_pos a.2.1]; exact c1
    · rw [addFreeDarts_β hs k 0 _ (by omega), if_pos b.2.1]; exact c0
    · rw [addFreeDarts_β hs k 1 _ (by omega), if_pos a.2.1]; exact cc
  have hA' : sBd < (m.addFreeDarts k).2.a.size := by
    simp only [Map.addFreeDarts, Array.size_map]; exact hA
  have hfst : (m.addFreeDarts k).1 = m.n := rfl
  rw [hfst]
  exact insertEdgesFrom_nil_total ha edges _ m.n 0 I1 hA' hready' (by rw [hn1])

/-! ## examples: the hypotheses are satisfiable, and the condition is sharp -/

/-- across the cell `exCell`, from dart 1 to dart 3: ready -/
def exEdge0 : MEdge := { start := 1, inter := [], stop := 3 }
/-- from dart 1 to its successor 2: the consecutive-darts case -/
def exEdgeC : MEdge := { start := 1, inter := [], stop := 2 }

example : Ready exCell exEdge0 := by decide +kernel
example : ¬ Ready exCell exEdgeC := by decide +kernel

example : ∃ m', stepFive exCell true [exEdge0] = (.ok (), m') :=
  C16_stepFive_total_partial exCell_wf exCell_notag (by decide +kernel) (by
    intro e he
    simp only [List.mem_cons, List.not_mem_nil, or_false] at he
    subst he
    exact ⟨rfl, by decide +kernel⟩)

/-- the model agrees, by evaluation: success on the ready edge, a panic on consecutive darts -/
example : (stepFive exCell true [exEdge0]).1 = .ok () := by decide +kernel
example : (stepFive exCell true [exEdgeC]).1 ≠ .ok () := by decide +kernel

/-- `C16_buildBaseEdge_ok_iff` on the cell with two spare darts (5, 6): its hypotheses hold -/
example := C16_buildBaseEdge_ok_iff (m := (exCell.addFreeDarts 2).2) (start := 1) (stop := 3) (dNew := 5) (b2dNew := 6)
  (by decide +kernel) (by decide +kernel) (by decide +kernel) (by decide +kernel) (by decide +kernel) (by decide +kernel)
  (by decide +kernel) (by decide +kernel)

end HC.C16
