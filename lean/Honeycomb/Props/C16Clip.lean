/-
  C16 — the clip step (`Model/Clip.lean`, `clip.rs`), tied by the `clip` streams of tools/props/c16.py.
-/
import Honeycomb.Model.Clip
import Honeycomb.Props.C17
import Honeycomb.Props.C17Surf

set_option linter.unusedSimpArgs false
set_option linter.unusedVariables false

namespace HC.C16
open HC HC.C03 HC.C17

/-! ## maps whose β values are in range (well-formedness is lost while darts are being deleted) -/

structure ROK (m : Map Val) : Prop where
  sized : Sized 3 m
  range : ∀ i, i < 3 → ∀ d, d < m.n → m.β i d < m.n
  null : ∀ i, i < 3 → m.β i 0 = 0
  st : 9 < m.a.size

theorem ROK.of_wf {m : Map Val} (h : WF 3 m) (hst : 9 < m.a.size) : ROK m :=
  ⟨h.toSized, h.range, h.null, hst⟩

theorem ROK.okb {m : Map Val} (h : ROK m) {i x : Nat} (hi : i < 3) (hx : x < m.n) : m.okβ i x = true :=
  (h.sized.okβ i x).2 ⟨hi, hx⟩

theorem ROK.okU {m : Map Val} (h : ROK m) {x : Nat} (hx : x < m.n) : m.okU x = true :=
  (h.sized.okU x).2 hx

theorem ROK.okA {m : Map Val} (h : ROK m) {s d : Nat} (hs : s ≤ 9) (hd : d < m.n) : m.okA s d = true := by
  unfold Map.okA
  have h1 : s < m.a.size := by have := h.st; omega
  have h2 := h.sized.asz s h1
  simp only [Bool.and_eq_true, decide_eq_true_eq]
  exact ⟨h1, by omega⟩

theorem ROK.setβ0 {m : Map Val} (h : ROK m) {i d : Nat} (hi : i < 3) (hd : d < m.n) : ROK (m.setβ i d 0) := by
  refine ⟨h.sized.setβ i d 0, ?_, ?_, h.st⟩
  · intro j hj e he
    rw [h.sized.β_setβ hi hd]
    split
    · exact h.sized.npos
    · exact h.range j hj e he
  · intro j hj
    rw [h.sized.β_setβ hi hd]
    split
    · rfl
    · exact h.null j hj

theorem ROK.setU {m : Map Val} (h : ROK m) (d : Nat) (v : Bool) : ROK (m.setU d v) :=
  ⟨h.sized.setU d v, h.range, h.null, h.st⟩

theorem ROK.sameTopo {m m' : Map Val} (h : ROK m) (t : SameTopo m m') : ROK m' := by
  refine ⟨h.sized.sameTopo t, ?_, ?_, by rw [t.asz]; exact h.st⟩
  · intro i hi d hd; rw [t.β, t.n]; rw [t.n] at hd; exact h.range i hi d hd
  · intro i hi; rw [t.β]; exact h.null i hi

theorem ROK.setA {m : Map Val} (h : ROK m) (s d : Nat) (v : Option Val) : ROK (m.setA s d v) :=
  h.sameTopo (SameTopo.setA m s d v)

/-- `gen2` on a map in range -/
theorem run_gen2_rok {m : Map Val} (h : ROK m) {pol : Policy} (hp : pol = .vertex ∨ pol = .face) {x : Nat}
    (hx : x < m.n) : run (gen2 (X := Val) pol x) m = (.ok (g2 m pol x), m) := by
  have r : ∀ i, i < 3 → ∀ y, y < m.n → m.β i y < m.n := h.range
  rcases hp with rfl | rfl
  · simp only [gen2, g2, Prog.bind_eq, Prog.pure_eq, run_rB, run_ret, h.okb (by omega : 2 < 3) hx,
      h.okb (by omega : 0 < 3) hx, h.okb (by omega : 1 < 3) (r 2 (by omega) x hx),
      h.okb (by omega : 2 < 3) (r 0 (by omega) x hx), if_true]
  · simp only [gen2, g2, Prog.bind_eq, Prog.pure_eq, run_rB, run_ret, h.okb (by omega : 1 < 3) hx,
      h.okb (by omega : 0 < 3) hx, if_true]

theorem g2_range_rok {m : Map Val} (h : ROK m) {pol : Policy} (hp : pol = .vertex ∨ pol = .face) :
    ∀ a, a < m.n → ∀ y, y ∈ g2 m pol a → y < m.n := by
  intro a ha y hy
  have r : ∀ i, i < 3 → ∀ y, y < m.n → m.β i y < m.n := h.range
  rcases hp with rfl | rfl
  · simp only [g2, List.mem_cons, List.not_mem_nil, or_false] at hy
    rcases hy with rfl | rfl
    · exact r 1 (by omega) _ (r 2 (by omega) a ha)
    · exact r 2 (by omega) _ (r 0 (by omega) a ha)
  · simp only [g2, List.mem_cons, List.not_mem_nil, or_false] at hy
    rcases hy with rfl | rfl
    · exact r 1 (by omega) a ha
    · exact r 0 (by omega) a ha

theorem run_orbit2_rok {m : Map Val} (h : ROK m) {pol : Policy} (hp : pol = .vertex ∨ pol = .face) {d : Nat}
    (hd0 : d ≠ 0) (hd : d < m.n) : run (orbit2 (X := Val) m.n pol d) m = (.ok (orb m pol d), m) :=
  run_orbitWith (fun _ hx => run_gen2_rok h hp hx) (g2_range_rok h hp) hd0 hd

theorem run_vid_rok {m : Map Val} (h : ROK m) {d : Nat} (hd0 : d ≠ 0) (hd : d < m.n) :
    run (vertexId2 (X := Val) m.n d) m = (.ok (cellId m .vertex d), m) ∧ cellId m .vertex d < m.n := by
  constructor
  · unfold vertexId2
    have := run_orbit2_rok h (pol := .vertex) (Or.inl rfl) hd0 hd
    unfold orbit2 at this
    simp only [Prog.bind_eq]
    rw [run_bind, this]
    rfl
  · have := (listMin_le (orb m .vertex d) d).1
    unfold cellId; omega

/-! ## the face orbit only looks at the β0 / β1 of its own darts -/

theorem bfsPure_congr {g g' : Nat → List Nat} (A : Nat → Prop)
    (hA : ∀ x, A x → g x = g' x ∧ ∀ y, y ∈ g x → y ≠ 0 → A y) :
    ∀ (fuel : Nat) (p mk out : List Nat), (∀ x, x ∈ p → A x) → 0 ∈ mk →
      bfsPure g fuel p mk out = bfsPure g' fuel p mk out := by
  intro fuel
  induction fuel with
  | zero => intro p mk out _ _; rfl
  | succ f ih =>
      intro p mk out hp h0
      cases p with
      | nil => rfl
      | cons d rest =>
          unfold bfsPure
          have hd := hA d (hp d List.mem_cons_self)
          rw [← hd.1]
          obtain ⟨new, e, _, h3, _⟩ := bfsCheck_fold (g d) rest mk
          rw [e]
          apply ih
          · intro x hx
            rcases List.mem_append.1 hx with hx | hx
            · exact hp x (List.mem_cons_of_mem _ hx)
            · obtain ⟨hi, hn⟩ := h3 x hx
              exact hd.2 x hi (fun e0 => hn (e0 ▸ h0))
          · exact List.mem_append_left _ h0

theorem orb_face_congr {m m' : Map Val} (h : WF 3 m) (hn : m'.n = m.n) {f : Nat} (hf0 : f ≠ 0) (hf : f < m.n)
    (hβ : ∀ x, x ∈ orb m .face f → m'.β 0 x = m.β 0 x ∧ m'.β 1 x = m.β 1 x) :
    orb m' .face f = orb m .face f := by
  unfold orb
  rw [hn]
  symm
  apply bfsPure_congr (fun x => x ∈ orb m .face f)
  · intro x hx
    obtain ⟨b0, b1⟩ := hβ x hx
    refine ⟨by simp only [g2, b0, b1], ?_⟩
    intro y hy hy0
    obtain ⟨hx0, hr⟩ := (mem_orb h (pol := .face) trivial hf0 hf x).1 hx
    exact (mem_orb h (pol := .face) trivial hf0 hf y).2 ⟨hy0, hr.tail hy⟩
  · intro x hx
    rw [List.mem_singleton.1 hx]
    exact self_mem_orb h (pol := .face) trivial hf0 hf
  · simp

/-! ## the effect of the deletion loops on β and the removal flags -/

/-- `m'` is `m` with the darts of `D` removed: unlinked and flagged; nothing else changes in β, the flags
    and the storages other than the vertex coordinates -/
structure Del (D : Nat → Prop) (m m' : Map Val) : Prop where
  n : m'.n = m.n
  rok : ROK m'
  inD : ∀ x, D x → m'.unused x = true ∧ ∀ i, i < 3 → m'.β i x = 0
  outD : ∀ x, ¬ D x → m'.unused x = m.unused x ∧ ∀ i, m'.β i x = m.β i x
  att : ∀ s x, s ≠ 0 → m'.att s x = m.att s x

theorem Del.refl {m : Map Val} (h : ROK m) : Del (fun _ => False) m m :=
  ⟨rfl, h, fun _ hx => hx.elim, fun _ _ => ⟨rfl, fun _ => rfl⟩, fun _ _ _ => rfl⟩

/-- deleting `D1` then `D2` -/
theorem Del.trans {D1 D2 : Nat → Prop} {m m' m'' : Map Val} (h1 : Del D1 m m') (h2 : Del D2 m' m'') :
    Del (fun x => D1 x ∨ D2 x) m m'' := by
  refine ⟨h2.n.trans h1.n, h2.rok, ?_, ?_, fun s x hs => (h2.att s x hs).trans (h1.att s x hs)⟩
  · intro x hx
    by_cases h2x : D2 x
    · exact h2.inD x h2x
    · obtain ⟨u2, b2⟩ := h2.outD x h2x
      have hx1 : D1 x := hx.resolve_right h2x
      obtain ⟨u1, b1⟩ := h1.inD x hx1
      exact ⟨u2.trans u1, fun i hi => (b2 i).trans (b1 i hi)⟩
  · intro x hx
    have n1 : ¬ D1 x := fun h => hx (Or.inl h)
    have n2 : ¬ D2 x := fun h => hx (Or.inr h)
    obtain ⟨u2, b2⟩ := h2.outD x n2
    obtain ⟨u1, b1⟩ := h1.outD x n1
    exact ⟨u2.trans u1, fun i => (b2 i).trans (b1 i)⟩

theorem Del.congr {D D' : Nat → Prop} {m m' : Map Val} (h : Del D m m') (e : ∀ x, D x ↔ D' x) : Del D' m m' :=
  ⟨h.n, h.rok, fun x hx => h.inD x ((e x).2 hx), fun x hx => h.outD x (fun hh => hx ((e x).1 hh)), h.att⟩

theorem run_isFree2_zero {m : Map Val} (h : ROK m) {d : Nat} (hd : d < m.n)
    (h0 : m.β 0 d = 0) (h1 : m.β 1 d = 0) (h2 : m.β 2 d = 0) : run (isFree2 d) m = (.ok true, m) := by
  unfold isFree2
  simp only [Prog.bind_eq, Prog.pure_eq, run_rB, h.okb (by omega : 0 < 3) hd, h.okb (by omega : 1 < 3) hd,
    h.okb (by omega : 2 < 3) hd, if_true, h0, h1, h2, ne_eq, not_true_eq_false, if_false, run_ret, decide_true]

/-- one dart: `force_remove_vertex(vertex_id(d)); set_betas(d, [0; 3]); remove_free_dart(d)` -/
theorem deleteOne {m : Map Val} (h : ROK m) {d : Nat} (hd0 : d ≠ 0) (hd : d < m.n) (hu : m.unused d = false)
    (k : P Val Unit) :
    ∃ m1, Del (fun x => x = d) m m1 ∧
      run (deleteDartsOf m.n (d :: [])) m = (.ok (), m1) ∧
      ∀ ds, run (deleteDartsOf m.n (d :: ds)) m = run (deleteDartsOf m.n ds) m1 := by
  obtain ⟨rv, hvlt⟩ := run_vid_rok h hd0 hd
  -- the five states
  have hA0 : m.okA 0 (cellId m .vertex d) = true := h.okA (by omega) hvlt
  let ma := m.setA 0 (cellId m .vertex d) none
  have ha : ROK ma := h.setA _ _ _
  have hda : d < ma.n := hd
  let m0 := ma.setβ 0 d 0
  have h0 : ROK m0 := ha.setβ0 (by omega) hda
  let m1 := m0.setβ 1 d 0
  have h1 : ROK m1 := h0.setβ0 (by omega) hda
  let m2 := m1.setβ 2 d 0
  have h2 : ROK m2 := h1.setβ0 (by omega) hda
  let m3 := m2.setU d true
  have h3 : ROK m3 := h2.setU d true
  have bform : ∀ j e, m2.β j e = if d = e ∧ j < 3 then 0 else m.β j e := by
    intro j e
    show Map.β (((ma.setβ 0 d 0).setβ 1 d 0).setβ 2 d 0) j e = _
    rw [h1.sized.β_setβ (by omega) hda, h0.sized.β_setβ (by omega) hda, ha.sized.β_setβ (by omega) hda]
    have : ma.β j e = m.β j e := rfl
    rw [this]
    by_cases e1 : d = e
    · by_cases j0 : j = 0
      · subst j0; simp [e1]
      · by_cases j1 : j = 1
        · subst j1; simp [e1]
        · by_cases j2 : j = 2
          · subst j2; simp [e1]
          · have : ¬ j < 3 := by omega
            simp [e1, this, Ne.symm j0, Ne.symm j1, Ne.symm j2]
    · simp [e1]
  have hfree : run (isFree2 d) m2 = (.ok true, m2) :=
    run_isFree2_zero h2 hda (by rw [bform]; simp) (by rw [bform]; simp) (by rw [bform]; simp)
  have hu2 : m2.unused d = false := hu
  have hdel : Del (fun x => x = d) m m3 := by
    refine ⟨rfl, h3, ?_, ?_, ?_⟩
    · intro x hx
      subst hx
      refine ⟨?_, fun i hi => ?_⟩
      · show (m2.setU x true).unused x = true
        rw [Map.unused_setU, if_pos ⟨rfl, h2.okU hda⟩]
      · show m2.β i x = 0
        rw [bform]; simp [hi]
    · intro x hx
      refine ⟨?_, fun i => ?_⟩
      · show (m2.setU d true).unused x = m.unused x
        rw [Map.unused_setU, if_neg (fun hh => hx hh.1.symm)]; rfl
      · show m2.β i x = m.β i x
        rw [bform, if_neg (fun hh => hx hh.1.symm)]
    · intro s x hs
      show ma.att s x = m.att s x
      rw [Map.att_setA, if_neg (fun hh => hs hh.1.symm)]
  have step : ∀ ds, run (deleteDartsOf m.n (d :: ds)) m = run (deleteDartsOf m.n ds) m3 := by
    intro ds
    conv => lhs; unfold deleteDartsOf
    simp only [Prog.bind_eq]
    rw [run_bind, rv]
    simp only [run_rA, hA0, if_true, run_wA, run_wB, ha.okb (by omega : 0 < 3) hda,
      h0.okb (by omega : 1 < 3) hda, h1.okb (by omega : 2 < 3) hda]
    rw [run_bind, hfree]
    simp only [Bool.not_true, Bool.false_eq_true, if_false, run_rU, h2.okU hda, if_true, hu2, run_wU]
    have e0 : (m.setA 0 (cellId m .vertex d) none).okβ 0 d = true := ha.okb (by omega : 0 < 3) hda
    have e1 : ((m.setA 0 (cellId m .vertex d) none).setβ 0 d 0).okβ 1 d = true := h0.okb (by omega : 1 < 3) hda
    have e2 : (((m.setA 0 (cellId m .vertex d) none).setβ 0 d 0).setβ 1 d 0).okβ 2 d = true :=
      h1.okb (by omega : 2 < 3) hda
    rw [if_pos e0, if_pos e1, if_pos e2]
  refine ⟨m3, hdel, ?_, step⟩
  rw [step []]
  rfl

/-- the inner loop over the darts of one face -/
theorem deleteDartsOf_eff : ∀ (ds : List Nat) (m : Map Val), ROK m →
    (∀ d, d ∈ ds → d ≠ 0 ∧ d < m.n ∧ m.unused d = false) → ds.Nodup →
    ∃ m', run (deleteDartsOf m.n ds) m = (.ok (), m') ∧ Del (fun x => x ∈ ds) m m' := by
  intro ds
  induction ds with
  | nil =>
      intro m h _ _
      exact ⟨m, rfl, (Del.refl h).congr (by simp)⟩
  | cons d ds ih =>
      intro m h hds hnd
      obtain ⟨hd0, hd, hu⟩ := hds d List.mem_cons_self
      obtain ⟨hdn, hnd'⟩ := List.nodup_cons.1 hnd
      obtain ⟨m1, d1, _, step⟩ := deleteOne h hd0 hd hu (pure ())
      rw [step ds, ← d1.n]
      have hds1 : ∀ x, x ∈ ds → x ≠ 0 ∧ x < m1.n ∧ m1.unused x = false := by
        intro x hx
        obtain ⟨a, b, c⟩ := hds x (List.mem_cons_of_mem _ hx)
        have hne : ¬ x = d := fun e => hdn (e ▸ hx)
        exact ⟨a, by rw [d1.n]; exact b, by rw [(d1.outD x hne).1]; exact c⟩
      obtain ⟨m', hr, d2⟩ := ih m1 d1.rok hds1 hnd'
      refine ⟨m', hr, (d1.trans d2).congr ?_⟩
      intro x
      simp only [List.mem_cons]

/-- the darts of the faces of the list -/
def InFaces (m0 : Map Val) (l : List Nat) (x : Nat) : Prop := ∃ f, f ∈ l ∧ x ∈ orb m0 .face f

/-- the outer loop, for any iteration order `fs` of the set of marked faces -/
theorem deleteFaces_eff {m0 : Map Val} (h0 : WF 3 m0) : ∀ (fs done : List Nat) (m : Map Val),
    Del (InFaces m0 done) m0 m → (∀ f, f ∈ done → FaceId m0 f) →
    (∀ f, f ∈ fs → FaceId m0 f ∧ m0.unused f = false ∧ f ∉ done) → fs.Nodup →
    ∃ m', run (deleteFaces m0.n fs) m = (.ok (), m') ∧ Del (InFaces m0 (done ++ fs)) m0 m' := by
  intro fs
  induction fs with
  | nil =>
      intro done m hd _ _ _
      exact ⟨m, rfl, by simpa using hd⟩
  | cons f fs ih =>
      intro done m hd hdone hfs hnd
      obtain ⟨hff, hfu, hfd⟩ := hfs f List.mem_cons_self
      obtain ⟨hfn, hnd'⟩ := List.nodup_cons.1 hnd
      obtain ⟨f0, flt, fid⟩ := hff
      have sp := C03_orbit2_spec h0 (pol := .face) trivial f0 flt
      -- the darts of `f` are untouched so far: a dart determines its face
      have notD : ∀ x, x ∈ orb m0 .face f → ¬ InFaces m0 done x := by
        rintro x hx ⟨f', hf', hx'⟩
        have e1 := (face_of_mem h0 ⟨f0, flt, fid⟩ hx).2.2
        have e2 := (face_of_mem h0 (hdone f' hf') hx').2.2
        exact hfd (by rw [← e1, e2]; exact hf')
      have horb : orb m .face f = orb m0 .face f :=
        orb_face_congr h0 hd.n f0 flt (fun x hx => ⟨((hd.outD x (notD x hx)).2 0), ((hd.outD x (notD x hx)).2 1)⟩)
      have hrun : run (orbit2 (X := Val) m0.n .face f) m = (.ok (orb m0 .face f), m) := by
        have := run_orbit2_rok hd.rok (pol := .face) (Or.inr rfl) f0 (by rw [hd.n]; exact flt)
        rw [hd.n, horb] at this; exact this
      conv => lhs; unfold deleteFaces
      simp only [Prog.bind_eq]
      rw [run_bind, hrun]
      simp only
      have hds : ∀ d, d ∈ orb m0 .face f → d ≠ 0 ∧ d < m.n ∧ m.unused d = false := by
        intro d hd'
        obtain ⟨d0, dlt, _⟩ := face_of_mem h0 ⟨f0, flt, fid⟩ hd'
        refine ⟨d0, by rw [hd.n]; exact dlt, ?_⟩
        rw [(hd.outD d (notD d hd')).1]
        exact C03_orbit_of_in_use_is_in_use h0 (pol := .face) trivial f0 flt hfu d hd'
      obtain ⟨m1, hr1, d1⟩ := deleteDartsOf_eff (orb m0 .face f) m hd.rok hds sp.2.2.1
      rw [hd.n] at hr1
      rw [run_bind, hr1]
      simp only
      have hd1 : Del (InFaces m0 (done ++ [f])) m0 m1 := (hd.trans d1).congr (by
        intro x
        unfold InFaces
        constructor
        · rintro (⟨f', hf', hx⟩ | hx)
          · exact ⟨f', List.mem_append_left _ hf', hx⟩
          · exact ⟨f, by simp, hx⟩
        · rintro ⟨f', hf', hx⟩
          rcases List.mem_append.1 hf' with hf' | hf'
          · exact Or.inl ⟨f', hf', hx⟩
          · rw [List.mem_singleton.1 hf'] at hx; exact Or.inr hx)
      obtain ⟨m', hr, dd⟩ := ih (done ++ [f]) m1 hd1
        (fun f' hf' => by
          rcases List.mem_append.1 hf' with hf' | hf'
          · exact hdone f' hf'
          · rw [List.mem_singleton.1 hf']; exact ⟨f0, flt, fid⟩)
        (fun f' hf' => by
          obtain ⟨a, b, c⟩ := hfs f' (List.mem_cons_of_mem _ hf')
          refine ⟨a, b, ?_⟩
          intro hh
          rcases List.mem_append.1 hh with hh | hh
          · exact c hh
          · exact hfn (by rw [← List.mem_singleton.1 hh]; exact hf'))
        hnd'
      exact ⟨m', hr, by simpa [List.append_assoc] using dd⟩

end HC.C16
