/-
  C16 — the clip step (`Model/Clip.lean`; `clip_left`, `clip_right`, `mark_faces`, `delete_darts` of
  `honeycomb-kernels/src/grisubal/routines/clip.rs`), tied to the real functions through the hook
  `grisubal::verif::{clip_left, clip_right, Boundary}` by the `clip` streams of tools/props/c16.py.

  On every well-formed 2-map carrying the `Boundary` storage, for every size and every tagging:

  * `C16_markFaces_spec`      `mark_faces = Ok(set)`: the map is untouched and the set is — each face once —
                              exactly the closure `Clos`: the faces reachable from a non-free dart tagged `mark`
                              by crossing only sides whose opposite dart carries no tag (`Boundary::None` / absent);
                              no face of it has a dart tagged `other`.  The BFS order does not matter: the result
                              is characterised as a set.
  * `C16_markFaces_err`       `Err(InconsistentOrientation)` only if a closure face has a dart tagged `other`
  * `C16_deleteDarts_spec`    for EVERY iteration order of the `HashSet` of marked faces: their darts are unlinked
                              (β0 = β1 = β2 = 0) and flagged removed; every other dart keeps flag, β0, β1, and β2
                              unless it is tagged `kept` (then it becomes 2-free); tags untouched
  * `C16_deleteDarts_order_independent`, `C16_clip_order_independent`
                              two iteration orders give the same β functions and removal flags
  * `C16_clip_spec`, `C16_clipLeft_spec`, `C16_clipRight_spec`
                              the two steps together: exactly the darts of the closure faces are removed …
  * `C16_clip_WF`             … and if tags are `None`/`mark`/`other` only and every 2-linked dart tagged `other`
                              faces a dart tagged `mark` (what `mark_boundary` writes), the result is a well-formed
                              2-map in which every remaining dart tagged `other` is 2-free

  * `C16_markFaces_total`     the marking loop ends within the fuel the model gives it (`2·n_darts + 2`: measure
                              `queue length + number of darts of unmarked faces`), never panics, never writes;
    `C16_markFaces_err_iff`   hence the error is raised EXACTLY when a closure face carries the other tag

  NOT proved: totality of `delete_darts` (it panics when a kept boundary dart has no vertex coordinates — modelled,
  tied, and the `Ok` case is what the theorems describe); the coordinates / vertex anchors after the clip (which
  stale vertex slots keep a value depends on the `HashSet` order — the tie compares coordinates at live vertex ids
  only).
-/
import Honeycomb.Model.Clip
import Honeycomb.Props.C17
import Honeycomb.Props.C17Surf

set_option linter.unusedSimpArgs false
set_option linter.unusedVariables false

namespace HC.C16
open HC HC.C03 HC.C17

/-! ## maps whose β values are in range (well-formedness is lost while darts are being deleted) -/

structure ROK (m : Map Val) : Prop where
  sized : Sized 3 m
  range : ∀ i, i < 3 → ∀ d, d < m.n → m.β i d < m.n
  null : ∀ i, i < 3 → m.β i 0 = 0
  st : 9 < m.a.size

theorem ROK.of_wf {m : Map Val} (h : WF 3 m) (hst : 9 < m.a.size) : ROK m :=
  ⟨h.toSized, h.range, h.null, hst⟩

theorem ROK.okb {m : Map Val} (h : ROK m) {i x : Nat} (hi : i < 3) (hx : x < m.n) : m.okβ i x = true :=
  (h.sized.okβ i x).2 ⟨hi, hx⟩

theorem ROK.okU {m : Map Val} (h : ROK m) {x : Nat} (hx : x < m.n) : m.okU x = true :=
  (h.sized.okU x).2 hx

theorem ROK.okA {m : Map Val} (h : ROK m) {s d : Nat} (hs : s ≤ 9) (hd : d < m.n) : m.okA s d = true := by
  unfold Map.okA
  have h1 : s < m.a.size := by have := h.st; omega
  have h2 := h.sized.asz s h1
  simp only [Bool.and_eq_true, decide_eq_true_eq]
  exact ⟨h1, by omega⟩

theorem ROK.setβ0 {m : Map Val} (h : ROK m) {i d : Nat} (hi : i < 3) (hd : d < m.n) : ROK (m.setβ i d 0) := by
  refine ⟨h.sized.setβ i d 0, ?_, ?_, h.st⟩
  · intro j hj e he
    rw [h.sized.β_setβ hi hd]
    split
    · exact h.sized.npos
    · exact h.range j hj e he
  · intro j hj
    rw [h.sized.β_setβ hi hd]
    split
    · rfl
    · exact h.null j hj

theorem ROK.setU {m : Map Val} (h : ROK m) (d : Nat) (v : Bool) : ROK (m.setU d v) :=
  ⟨h.sized.setU d v, h.range, h.null, h.st⟩

theorem ROK.sameTopo {m m' : Map Val} (h : ROK m) (t : SameTopo m m') : ROK m' := by
  refine ⟨h.sized.sameTopo t, ?_, ?_, by rw [t.asz]; exact h.st⟩
  · intro i hi d hd; rw [t.β, t.n]; rw [t.n] at hd; exact h.range i hi d hd
  · intro i hi; rw [t.β]; exact h.null i hi

theorem ROK.setA {m : Map Val} (h : ROK m) (s d : Nat) (v : Option Val) : ROK (m.setA s d v) :=
  h.sameTopo (SameTopo.setA m s d v)

/-- `gen2` on a map in range -/
theorem run_gen2_rok {m : Map Val} (h : ROK m) {pol : Policy} (hp : pol = .vertex ∨ pol = .face) {x : Nat}
    (hx : x < m.n) : run (gen2 (X := Val) pol x) m = (.ok (g2 m pol x), m) := by
  have r : ∀ i, i < 3 → ∀ y, y < m.n → m.β i y < m.n := h.range
  rcases hp with rfl | rfl
  · simp only [gen2, g2, Prog.bind_eq, Prog.pure_eq, run_rB, run_ret, h.okb (by omega : 2 < 3) hx,
      h.okb (by omega : 0 < 3) hx, h.okb (by omega : 1 < 3) (r 2 (by omega) x hx),
      h.okb (by omega : 2 < 3) (r 0 (by omega) x hx), if_true]
  · simp only [gen2, g2, Prog.bind_eq, Prog.pure_eq, run_rB, run_ret, h.okb (by omega : 1 < 3) hx,
      h.okb (by omega : 0 < 3) hx, if_true]

theorem g2_range_rok {m : Map Val} (h : ROK m) {pol : Policy} (hp : pol = .vertex ∨ pol = .face) :
    ∀ a, a < m.n → ∀ y, y ∈ g2 m pol a → y < m.n := by
  intro a ha y hy
  have r : ∀ i, i < 3 → ∀ y, y < m.n → m.β i y < m.n := h.range
  rcases hp with rfl | rfl
  · simp only [g2, List.mem_cons, List.not_mem_nil, or_false] at hy
    rcases hy with rfl | rfl
    · exact r 1 (by omega) _ (r 2 (by omega) a ha)
    · exact r 2 (by omega) _ (r 0 (by omega) a ha)
  · simp only [g2, List.mem_cons, List.not_mem_nil, or_false] at hy
    rcases hy with rfl | rfl
    · exact r 1 (by omega) a ha
    · exact r 0 (by omega) a ha

theorem run_orbit2_rok {m : Map Val} (h : ROK m) {pol : Policy} (hp : pol = .vertex ∨ pol = .face) {d : Nat}
    (hd0 : d ≠ 0) (hd : d < m.n) : run (orbit2 (X := Val) m.n pol d) m = (.ok (orb m pol d), m) :=
  run_orbitWith (fun _ hx => run_gen2_rok h hp hx) (g2_range_rok h hp) hd0 hd

theorem run_vid_rok {m : Map Val} (h : ROK m) {d : Nat} (hd0 : d ≠ 0) (hd : d < m.n) :
    run (vertexId2 (X := Val) m.n d) m = (.ok (cellId m .vertex d), m) ∧ cellId m .vertex d < m.n := by
  constructor
  · unfold vertexId2
    have := run_orbit2_rok h (pol := .vertex) (Or.inl rfl) hd0 hd
    unfold orbit2 at this
    simp only [Prog.bind_eq]
    rw [run_bind, this]
    rfl
  · have := (listMin_le (orb m .vertex d) d).1
    unfold cellId; omega

/-! ## the face orbit only looks at the β0 / β1 of its own darts -/

theorem bfsPure_congr {g g' : Nat → List Nat} (A : Nat → Prop)
    (hA : ∀ x, A x → g x = g' x ∧ ∀ y, y ∈ g x → y ≠ 0 → A y) :
    ∀ (fuel : Nat) (p mk out : List Nat), (∀ x, x ∈ p → A x) → 0 ∈ mk →
      bfsPure g fuel p mk out = bfsPure g' fuel p mk out := by
  intro fuel
  induction fuel with
  | zero => intro p mk out _ _; rfl
  | succ f ih =>
      intro p mk out hp h0
      cases p with
      | nil => rfl
      | cons d rest =>
          unfold bfsPure
          have hd := hA d (hp d List.mem_cons_self)
          rw [← hd.1]
          obtain ⟨new, e, _, h3, _⟩ := bfsCheck_fold (g d) rest mk
          rw [e]
          apply ih
          · intro x hx
            rcases List.mem_append.1 hx with hx | hx
            · exact hp x (List.mem_cons_of_mem _ hx)
            · obtain ⟨hi, hn⟩ := h3 x hx
              exact hd.2 x hi (fun e0 => hn (e0 ▸ h0))
          · exact List.mem_append_left _ h0

theorem orb_face_congr {m m' : Map Val} (h : WF 3 m) (hn : m'.n = m.n) {f : Nat} (hf0 : f ≠ 0) (hf : f < m.n)
    (hβ : ∀ x, x ∈ orb m .face f → m'.β 0 x = m.β 0 x ∧ m'.β 1 x = m.β 1 x) :
    orb m' .face f = orb m .face f := by
  unfold orb
  rw [hn]
  symm
  apply bfsPure_congr (fun x => x ∈ orb m .face f)
  · intro x hx
    obtain ⟨b0, b1⟩ := hβ x hx
    refine ⟨by simp only [g2, b0, b1], ?_⟩
    intro y hy hy0
    obtain ⟨hx0, hr⟩ := (mem_orb h (pol := .face) trivial hf0 hf x).1 hx
    exact (mem_orb h (pol := .face) trivial hf0 hf y).2 ⟨hy0, hr.tail hy⟩
  · intro x hx
    rw [List.mem_singleton.1 hx]
    exact self_mem_orb h (pol := .face) trivial hf0 hf
  · simp

/-! ## the effect of the deletion loops on β and the removal flags -/

/-- `m'` is `m` with the darts of `D` removed: unlinked and flagged; nothing else changes in β, the flags
    and the storages other than the vertex coordinates -/
structure Del (D : Nat → Prop) (m m' : Map Val) : Prop where
  n : m'.n = m.n
  rok : ROK m'
  inD : ∀ x, D x → m'.unused x = true ∧ ∀ i, i < 3 → m'.β i x = 0
  outD : ∀ x, ¬ D x → m'.unused x = m.unused x ∧ ∀ i, m'.β i x = m.β i x
  att : ∀ s x, s ≠ 0 → m'.att s x = m.att s x

theorem Del.refl {m : Map Val} (h : ROK m) : Del (fun _ => False) m m :=
  ⟨rfl, h, fun _ hx => hx.elim, fun _ _ => ⟨rfl, fun _ => rfl⟩, fun _ _ _ => rfl⟩

/-- deleting `D1` then `D2` -/
theorem Del.trans {D1 D2 : Nat → Prop} {m m' m'' : Map Val} (h1 : Del D1 m m') (h2 : Del D2 m' m'') :
    Del (fun x => D1 x ∨ D2 x) m m'' := by
  refine ⟨h2.n.trans h1.n, h2.rok, ?_, ?_, fun s x hs => (h2.att s x hs).trans (h1.att s x hs)⟩
  · intro x hx
    by_cases h2x : D2 x
    · exact h2.inD x h2x
    · obtain ⟨u2, b2⟩ := h2.outD x h2x
      have hx1 : D1 x := hx.resolve_right h2x
      obtain ⟨u1, b1⟩ := h1.inD x hx1
      exact ⟨u2.trans u1, fun i hi => (b2 i).trans (b1 i hi)⟩
  · intro x hx
    have n1 : ¬ D1 x := fun h => hx (Or.inl h)
    have n2 : ¬ D2 x := fun h => hx (Or.inr h)
    obtain ⟨u2, b2⟩ := h2.outD x n2
    obtain ⟨u1, b1⟩ := h1.outD x n1
    exact ⟨u2.trans u1, fun i => (b2 i).trans (b1 i)⟩

theorem Del.congr {D D' : Nat → Prop} {m m' : Map Val} (h : Del D m m') (e : ∀ x, D x ↔ D' x) : Del D' m m' :=
  ⟨h.n, h.rok, fun x hx => h.inD x ((e x).2 hx), fun x hx => h.outD x (fun hh => hx ((e x).1 hh)), h.att⟩

theorem run_isFree2_zero {m : Map Val} (h : ROK m) {d : Nat} (hd : d < m.n)
    (h0 : m.β 0 d = 0) (h1 : m.β 1 d = 0) (h2 : m.β 2 d = 0) : run (isFree2 d) m = (.ok true, m) := by
  unfold isFree2
  simp only [Prog.bind_eq, Prog.pure_eq, run_rB, h.okb (by omega : 0 < 3) hd, h.okb (by omega : 1 < 3) hd,
    h.okb (by omega : 2 < 3) hd, if_true, h0, h1, h2, ne_eq, not_true_eq_false, if_false, run_ret, decide_true]

/-- one dart: `force_remove_vertex(vertex_id(d)); set_betas(d, [0; 3]); remove_free_dart(d)` -/
theorem deleteOne {m : Map Val} (h : ROK m) {d : Nat} (hd0 : d ≠ 0) (hd : d < m.n) (hu : m.unused d = false)
    (k : P Val Unit) :
    ∃ m1, Del (fun x => x = d) m m1 ∧
      run (deleteDartsOf m.n (d :: [])) m = (.ok (), m1) ∧
      ∀ ds, run (deleteDartsOf m.n (d :: ds)) m = run (deleteDartsOf m.n ds) m1 := by
  obtain ⟨rv, hvlt⟩ := run_vid_rok h hd0 hd
  -- the five states
  have hA0 : m.okA 0 (cellId m .vertex d) = true := h.okA (by omega) hvlt
  let ma := m.setA 0 (cellId m .vertex d) none
  have ha : ROK ma := h.setA _ _ _
  have hda : d < ma.n := hd
  let m0 := ma.setβ 0 d 0
  have h0 : ROK m0 := ha.setβ0 (by omega) hda
  let m1 := m0.setβ 1 d 0
  have h1 : ROK m1 := h0.setβ0 (by omega) hda
  let m2 := m1.setβ 2 d 0
  have h2 : ROK m2 := h1.setβ0 (by omega) hda
  let m3 := m2.setU d true
  have h3 : ROK m3 := h2.setU d true
  have bform : ∀ j e, m2.β j e = if d = e ∧ j < 3 then 0 else m.β j e := by
    intro j e
    show Map.β (((ma.setβ 0 d 0).setβ 1 d 0).setβ 2 d 0) j e = _
    rw [h1.sized.β_setβ (by omega) hda, h0.sized.β_setβ (by omega) hda, ha.sized.β_setβ (by omega) hda]
    have : ma.β j e = m.β j e := rfl
    rw [this]
    by_cases e1 : d = e
    · by_cases j0 : j = 0
      · subst j0; simp [e1]
      · by_cases j1 : j = 1
        · subst j1; simp [e1]
        · by_cases j2 : j = 2
          · subst j2; simp [e1]
          · have : ¬ j < 3 := by omega
            simp [e1, this, Ne.symm j0, Ne.symm j1, Ne.symm j2]
    · simp [e1]
  have hfree : run (isFree2 d) m2 = (.ok true, m2) :=
    run_isFree2_zero h2 hda (by rw [bform]; simp) (by rw [bform]; simp) (by rw [bform]; simp)
  have hu2 : m2.unused d = false := hu
  have hdel : Del (fun x => x = d) m m3 := by
    refine ⟨rfl, h3, ?_, ?_, ?_⟩
    · intro x hx
      subst hx
      refine ⟨?_, fun i hi => ?_⟩
      · show (m2.setU x true).unused x = true
        rw [Map.unused_setU, if_pos ⟨rfl, h2.okU hda⟩]
      · show m2.β i x = 0
        rw [bform]; simp [hi]
    · intro x hx
      refine ⟨?_, fun i => ?_⟩
      · show (m2.setU d true).unused x = m.unused x
        rw [Map.unused_setU, if_neg (fun hh => hx hh.1.symm)]; rfl
      · show m2.β i x = m.β i x
        rw [bform, if_neg (fun hh => hx hh.1.symm)]
    · intro s x hs
      show ma.att s x = m.att s x
      rw [Map.att_setA, if_neg (fun hh => hs hh.1.symm)]
  have step : ∀ ds, run (deleteDartsOf m.n (d :: ds)) m = run (deleteDartsOf m.n ds) m3 := by
    intro ds
    conv => lhs; unfold deleteDartsOf
    simp only [Prog.bind_eq]
    rw [run_bind, rv]
    simp only [run_rA, hA0, if_true, run_wA, run_wB, ha.okb (by omega : 0 < 3) hda,
      h0.okb (by omega : 1 < 3) hda, h1.okb (by omega : 2 < 3) hda]
    rw [run_bind, hfree]
    simp only [Bool.not_true, Bool.false_eq_true, if_false, run_rU, h2.okU hda, if_true, hu2, run_wU]
    have e0 : (m.setA 0 (cellId m .vertex d) none).okβ 0 d = true := ha.okb (by omega : 0 < 3) hda
    have e1 : ((m.setA 0 (cellId m .vertex d) none).setβ 0 d 0).okβ 1 d = true := h0.okb (by omega : 1 < 3) hda
    have e2 : (((m.setA 0 (cellId m .vertex d) none).setβ 0 d 0).setβ 1 d 0).okβ 2 d = true :=
      h1.okb (by omega : 2 < 3) hda
    rw [if_pos e0, if_pos e1, if_pos e2]
  refine ⟨m3, hdel, ?_, step⟩
  rw [step []]
  rfl

/-- the inner loop over the darts of one face -/
theorem deleteDartsOf_eff : ∀ (ds : List Nat) (m : Map Val), ROK m →
    (∀ d, d ∈ ds → d ≠ 0 ∧ d < m.n ∧ m.unused d = false) → ds.Nodup →
    ∃ m', run (deleteDartsOf m.n ds) m = (.ok (), m') ∧ Del (fun x => x ∈ ds) m m' := by
  intro ds
  induction ds with
  | nil =>
      intro m h _ _
      exact ⟨m, rfl, (Del.refl h).congr (by simp)⟩
  | cons d ds ih =>
      intro m h hds hnd
      obtain ⟨hd0, hd, hu⟩ := hds d List.mem_cons_self
      obtain ⟨hdn, hnd'⟩ := List.nodup_cons.1 hnd
      obtain ⟨m1, d1, _, step⟩ := deleteOne h hd0 hd hu (pure ())
      rw [step ds, ← d1.n]
      have hds1 : ∀ x, x ∈ ds → x ≠ 0 ∧ x < m1.n ∧ m1.unused x = false := by
        intro x hx
        obtain ⟨a, b, c⟩ := hds x (List.mem_cons_of_mem _ hx)
        have hne : ¬ x = d := fun e => hdn (e ▸ hx)
        exact ⟨a, by rw [d1.n]; exact b, by rw [(d1.outD x hne).1]; exact c⟩
      obtain ⟨m', hr, d2⟩ := ih m1 d1.rok hds1 hnd'
      refine ⟨m', hr, (d1.trans d2).congr ?_⟩
      intro x
      simp only [List.mem_cons]

/-- the darts of the faces of the list -/
def InFaces (m0 : Map Val) (l : List Nat) (x : Nat) : Prop := ∃ f, f ∈ l ∧ x ∈ orb m0 .face f

/-- the outer loop, for any iteration order `fs` of the set of marked faces -/
theorem deleteFaces_eff {m0 : Map Val} (h0 : WF 3 m0) : ∀ (fs done : List Nat) (m : Map Val),
    Del (InFaces m0 done) m0 m → (∀ f, f ∈ done → FaceId m0 f) →
    (∀ f, f ∈ fs → FaceId m0 f ∧ m0.unused f = false ∧ f ∉ done) → fs.Nodup →
    ∃ m', run (deleteFaces m0.n fs) m = (.ok (), m') ∧ Del (InFaces m0 (done ++ fs)) m0 m' := by
  intro fs
  induction fs with
  | nil =>
      intro done m hd _ _ _
      exact ⟨m, rfl, by simpa using hd⟩
  | cons f fs ih =>
      intro done m hd hdone hfs hnd
      obtain ⟨hff, hfu, hfd⟩ := hfs f List.mem_cons_self
      obtain ⟨hfn, hnd'⟩ := List.nodup_cons.1 hnd
      obtain ⟨f0, flt, fid⟩ := hff
      have sp := C03_orbit2_spec h0 (pol := .face) trivial f0 flt
      -- the darts of `f` are untouched so far: a dart determines its face
      have notD : ∀ x, x ∈ orb m0 .face f → ¬ InFaces m0 done x := by
        rintro x hx ⟨f', hf', hx'⟩
        have e1 := (face_of_mem h0 ⟨f0, flt, fid⟩ hx).2.2
        have e2 := (face_of_mem h0 (hdone f' hf') hx').2.2
        exact hfd (by rw [← e1, e2]; exact hf')
      have horb : orb m .face f = orb m0 .face f :=
        orb_face_congr h0 hd.n f0 flt (fun x hx => ⟨((hd.outD x (notD x hx)).2 0), ((hd.outD x (notD x hx)).2 1)⟩)
      have hrun : run (orbit2 (X := Val) m0.n .face f) m = (.ok (orb m0 .face f), m) := by
        have := run_orbit2_rok hd.rok (pol := .face) (Or.inr rfl) f0 (by rw [hd.n]; exact flt)
        rw [hd.n, horb] at this; exact this
      have hds : ∀ d, d ∈ orb m0 .face f → d ≠ 0 ∧ d < m.n ∧ m.unused d = false := by
        intro d hd'
        obtain ⟨d0, dlt, _⟩ := face_of_mem h0 ⟨f0, flt, fid⟩ hd'
        refine ⟨d0, by rw [hd.n]; exact dlt, ?_⟩
        rw [(hd.outD d (notD d hd')).1]
        exact C03_orbit_of_in_use_is_in_use h0 (pol := .face) trivial f0 flt hfu d hd'
      obtain ⟨m1, hr1, d1⟩ := deleteDartsOf_eff (orb m0 .face f) m hd.rok hds sp.2.2.1
      rw [hd.n] at hr1
      have hstep : run (deleteFaces m0.n (f :: fs)) m = run (deleteFaces m0.n fs) m1 := by
        conv => lhs; unfold deleteFaces
        simp only [Prog.bind_eq]
        rw [run_bind, hrun]
        simp only
        rw [run_bind, hr1]
      rw [hstep]
      have hd1 : Del (InFaces m0 (done ++ [f])) m0 m1 := (hd.trans d1).congr (by
        intro x
        unfold InFaces
        constructor
        · rintro (⟨f', hf', hx⟩ | hx)
          · exact ⟨f', List.mem_append_left _ hf', hx⟩
          · exact ⟨f, by simp, hx⟩
        · rintro ⟨f', hf', hx⟩
          rcases List.mem_append.1 hf' with hf' | hf'
          · exact Or.inl ⟨f', hf', hx⟩
          · rw [List.mem_singleton.1 hf'] at hx; exact Or.inr hx)
      obtain ⟨m', hr, dd⟩ := ih (done ++ [f]) m1 hd1
        (fun f' hf' => by
          rcases List.mem_append.1 hf' with hf' | hf'
          · exact hdone f' hf'
          · rw [List.mem_singleton.1 hf']; exact ⟨f0, flt, fid⟩)
        (fun f' hf' => by
          obtain ⟨a, b, c⟩ := hfs f' (List.mem_cons_of_mem _ hf')
          refine ⟨a, b, ?_⟩
          intro hh
          rcases List.mem_append.1 hh with hh | hh
          · exact c hh
          · exact hfn (by rw [← List.mem_singleton.1 hh]; exact hf'))
        hnd'
      exact ⟨m', hr, by simpa [List.append_assoc] using dd⟩

/-! ## the saved boundary darts and the last loop -/

theorem readOnly_isFree2 (d : Nat) : ReadOnly (isFree2 d) := by
  unfold isFree2
  refine ReadOnly.bind (ReadOnly.rB _ _) fun b0 => ReadOnly.ite (ReadOnly.pure _) ?_
  refine ReadOnly.bind (ReadOnly.rB _ _) fun b1 => ReadOnly.ite (ReadOnly.pure _) ?_
  exact ReadOnly.bind (ReadOnly.rB _ _) fun b2 => ReadOnly.pure _

theorem readOnly_savedAnchor (n d : Nat) (ha : Bool) : ReadOnly (savedAnchor n d ha) := by
  unfold savedAnchor
  cases ha
  · exact ReadOnly.pure _
  · exact ReadOnly.bind (readOnly_vertexId2 _ _) fun _ => ReadOnly.rA _ _

theorem readOnly_savedBoundary (n : Nat) (kept : Val) (ha : Bool) : ∀ ds, ReadOnly (savedBoundary n kept ha ds) := by
  intro ds
  induction ds with
  | nil => exact ReadOnly.pure _
  | cons d ds ih =>
      unfold savedBoundary
      refine ReadOnly.bind (ReadOnly.rA _ _) fun a => ReadOnly.ite ?_ ih
      refine ReadOnly.bind (readOnly_vertexId2 _ _) fun vid => ReadOnly.bind (ReadOnly.rA _ _) fun v => ?_
      cases v with
      | none => exact ReadOnly.panic
      | some v =>
          exact ReadOnly.bind (readOnly_savedAnchor n d ha) fun anc => ReadOnly.bind ih fun rest => ReadOnly.pure _

/-- the saved list names exactly the scanned darts tagged `kept`, in order -/
theorem savedBoundary_darts (n : Nat) (kept : Val) (ha : Bool) (m : Map Val) : ∀ ds saved m',
    run (savedBoundary n kept ha ds) m = (.ok saved, m') →
    saved.map (·.1) = ds.filter (fun d => decide (m.att sBd d = some kept)) := by
  intro ds
  induction ds with
  | nil => intro saved m' hr; simp [savedBoundary, run] at hr; rw [hr.1]; rfl
  | cons d ds ih =>
      intro saved m' hr
      unfold savedBoundary at hr
      simp only [Prog.bind_eq] at hr
      obtain ⟨a, m1, h1, hr1⟩ := run_bind_ok hr
      have e1 : m1 = m := (ReadOnly.rA sBd d).run_ok h1
      rw [e1] at hr1
      have ea : a = m.att sBd d := by
        simp only [run_rA'] at h1
        split at h1
        · injection h1 with h1 _; injection h1 with h1; exact h1.symm
        · cases h1
      by_cases hk : a = some kept
      · rw [if_pos hk] at hr1
        obtain ⟨vid, m2, h2, hr2⟩ := run_bind_ok hr1
        have e2 : m2 = m := (readOnly_vertexId2 n d).run_ok h2
        rw [e2] at hr2
        obtain ⟨v, m3, h3, hr3⟩ := run_bind_ok hr2
        have e3 : m3 = m := (ReadOnly.rA 0 vid).run_ok h3
        rw [e3] at hr3
        cases v with
        | none => simp at hr3
        | some v =>
            simp only at hr3
            obtain ⟨anc, m4, h4, hr4⟩ := run_bind_ok hr3
            have e4 : m4 = m := (readOnly_savedAnchor n d ha).run_ok h4
            rw [e4] at hr4
            obtain ⟨rest, m5, h5, hr5⟩ := run_bind_ok hr4
            simp only [Prog.pure_eq, run_ret, Prod.mk.injEq, Out.ok.injEq] at hr5
            rw [← hr5.1]
            simp only [List.map_cons, List.filter_cons]
            rw [← ea, hk]
            simp only [decide_true, if_true]
            rw [ih rest m5 h5]
      · rw [if_neg hk] at hr1
        rw [ih saved m' hr1]
        simp only [List.filter_cons]
        rw [← ea]
        simp [hk]

/-- `m'` is `m` with the darts of `K` made 2-free -/
structure Freed (K : Nat → Prop) (m m' : Map Val) : Prop where
  n : m'.n = m.n
  rok : ROK m'
  u : ∀ x, m'.unused x = m.unused x
  inK : ∀ x, K x → m'.β 2 x = 0
  other : ∀ i x, ¬ (i = 2 ∧ K x) → m'.β i x = m.β i x
  tags : ∀ x, m'.att sBd x = m.att sBd x

/-- last loop of `delete_darts`: total, and only β2 of the saved darts changes (besides coordinates and
    vertex anchors) -/
theorem restoreBoundary_eff : ∀ (L : List (Nat × Val × Option Val)) (m : Map Val), ROK m →
    (∀ e, e ∈ L → e.1 ≠ 0 ∧ e.1 < m.n) →
    ∃ m', run (restoreBoundary m.n L) m = (.ok (), m') ∧ Freed (fun x => x ∈ L.map (·.1)) m m' := by
  intro L
  induction L with
  | nil =>
      intro m h _
      exact ⟨m, rfl, ⟨rfl, h, fun _ => rfl, fun x hx => by simp at hx, fun _ _ _ => rfl, fun _ => rfl⟩⟩
  | cons e L ih =>
      intro m h hL
      obtain ⟨d, v, anc⟩ := e
      obtain ⟨hd0, hd⟩ := hL (d, v, anc) List.mem_cons_self
      have h1 : ROK (m.setβ 2 d 0) := h.setβ0 (by omega) hd
      have hd1 : d < (m.setβ 2 d 0).n := hd
      obtain ⟨rv, hvlt⟩ := run_vid_rok h1 hd0 hd1
      have ok0 : (m.setβ 2 d 0).okA 0 (cellId (m.setβ 2 d 0) .vertex d) = true := h1.okA (by omega) hvlt
      have h2 : ROK ((m.setβ 2 d 0).setA 0 (cellId (m.setβ 2 d 0) .vertex d) (some v)) := h1.setA _ _ _
      -- the state before the recursive call
      have key : ∃ m2, ROK m2 ∧ m2.n = m.n ∧ (∀ x, m2.unused x = m.unused x) ∧
          (∀ i x, m2.β i x = (m.setβ 2 d 0).β i x) ∧ (∀ x, m2.att sBd x = m.att sBd x) ∧
          run (restoreBoundary m.n ((d, v, anc) :: L)) m = run (restoreBoundary m.n L) m2 := by
        cases anc with
        | none =>
            refine ⟨_, h2, rfl, fun _ => rfl, fun _ _ => rfl, ?_, ?_⟩
            · intro x
              show ((m.setβ 2 d 0).setA 0 _ (some v)).att sBd x = _
              rw [Map.att_setA, if_neg (fun hh => absurd hh.1 (by decide))]; rfl
            · conv => lhs; unfold restoreBoundary
              simp only [Prog.bind_eq, run_wB, h.okb (by omega : 2 < 3) hd, if_true]
              have hn1 : (m.setβ 2 d 0).n = m.n := rfl
              rw [← hn1, run_bind, rv]
              simp only [run_rA, ok0, if_true, run_wA, Prog.pure_eq]
              rw [run_bind]
              simp only [run_ret]
        | some a =>
            have oka : ((m.setβ 2 d 0).setA 0 (cellId (m.setβ 2 d 0) .vertex d) (some v)).okA sVA
                (cellId (m.setβ 2 d 0) .vertex d) = true := h2.okA (by decide) hvlt
            refine ⟨_, h2.setA sVA (cellId (m.setβ 2 d 0) .vertex d) (some a), rfl, fun _ => rfl, fun _ _ => rfl,
              ?_, ?_⟩
            · intro x
              rw [Map.att_setA, if_neg (fun hh => absurd hh.1 (by decide)), Map.att_setA,
                if_neg (fun hh => absurd hh.1 (by decide))]
              rfl
            · conv => lhs; unfold restoreBoundary
              simp only [Prog.bind_eq, run_wB, h.okb (by omega : 2 < 3) hd, if_true]
              have hn1 : (m.setβ 2 d 0).n = m.n := rfl
              rw [← hn1, run_bind, rv]
              simp only [run_rA, ok0, if_true, run_wA]
              rw [run_bind]
              simp only [run_rA, oka, if_true, run_wA']
      obtain ⟨m2, hr2, hn2, hu2, hb2, ht2, hstep⟩ := key
      rw [hstep, ← hn2]
      obtain ⟨m', hr, fr⟩ := ih m2 hr2 (fun e he => by
        obtain ⟨a, b⟩ := hL e (List.mem_cons_of_mem _ he); exact ⟨a, by rw [hn2]; exact b⟩)
      refine ⟨m', hr, fr.n.trans hn2, fr.rok, fun x => (fr.u x).trans (hu2 x), ?_, ?_, fun x => (fr.tags x).trans (ht2 x)⟩
      · intro x hx
        simp only [List.map_cons, List.mem_cons] at hx
        by_cases hxL : x ∈ L.map (·.1)
        · exact fr.inK x hxL
        · rw [fr.other 2 x (fun hh => hxL hh.2), hb2]
          have : x = d := hx.resolve_right hxL
          rw [this, h.sized.β_setβ (by omega) hd, if_pos ⟨rfl, rfl⟩]
      · intro i x hx
        simp only [List.map_cons, List.mem_cons] at hx
        rw [fr.other i x (fun hh => hx ⟨hh.1, Or.inr hh.2⟩), hb2, h.sized.β_setβ (by omega) hd,
          if_neg (fun hh => hx ⟨hh.1.symm, Or.inl hh.2.symm⟩)]

/-! ## `delete_darts`, for every iteration order of the marked set -/

/-- **C16, clip — what `delete_darts` does to β and the removal flags**, for every iteration order
    `order` of the set of marked faces (`HashSet`): the darts of the marked faces are unlinked (all three
    images null) and flagged as removed; every other dart keeps its flag, its β0 and β1, and its β2 unless
    it is tagged `kept`, in which case it becomes 2-free.  (Coordinates / vertex anchors are not described
    here.) -/
theorem C16_deleteDarts_spec {m0 m' : Map Val} (h0 : WF 3 m0) (hst : 9 < m0.a.size) (order : List Nat)
    (kept : Val) (ha : Bool) (ho : ∀ f, f ∈ order → FaceId m0 f ∧ m0.unused f = false) (hnd : order.Nodup)
    (hr : run (deleteDarts m0.n order kept ha) m0 = (.ok (), m')) :
    m'.n = m0.n ∧ ROK m' ∧
    (∀ x, InFaces m0 order x → m'.unused x = true ∧ ∀ i, i < 3 → m'.β i x = 0) ∧
    (∀ x, ¬ InFaces m0 order x → m'.unused x = m0.unused x ∧ m'.β 0 x = m0.β 0 x ∧ m'.β 1 x = m0.β 1 x ∧
      m'.β 2 x = if x ≠ 0 ∧ x < m0.n ∧ m0.att sBd x = some kept then 0 else m0.β 2 x) ∧
    (∀ x, m'.att sBd x = m0.att sBd x) := by
  have hrok : ROK m0 := ROK.of_wf h0 hst
  unfold deleteDarts at hr
  simp only [Prog.bind_eq] at hr
  obtain ⟨saved, m1, h1, hr1⟩ := run_bind_ok hr
  have e1 : m1 = m0 := (readOnly_savedBoundary _ _ _ _).run_ok h1
  rw [e1] at hr1 h1
  have hsaved := savedBoundary_darts _ _ _ _ _ _ _ h1
  obtain ⟨_, m2, h2, hr2⟩ := run_bind_ok hr1
  obtain ⟨m2', h2', d2⟩ := deleteFaces_eff h0 order [] m0 ((Del.refl hrok).congr (by
      intro x; unfold InFaces; simp)) (fun f hf => by cases hf)
    (fun f hf => ⟨(ho f hf).1, (ho f hf).2, by simp⟩) hnd
  rw [h2'] at h2
  have e2 : m2 = m2' := by injection h2 with _ e; exact e.symm
  subst e2
  simp only [List.nil_append] at d2
  have hK : ∀ x, x ∈ saved.map (·.1) ↔ (x ≠ 0 ∧ x < m0.n ∧ m0.att sBd x = some kept) := by
    intro x
    rw [hsaved, List.mem_filter, mem_darts]
    simp only [decide_eq_true_eq]
    exact ⟨fun ⟨⟨a, b⟩, c⟩ => ⟨a, b, c⟩, fun ⟨a, b, c⟩ => ⟨⟨a, b⟩, c⟩⟩
  have hL : ∀ e, e ∈ saved → e.1 ≠ 0 ∧ e.1 < m2.n := by
    intro e he
    have := (hK e.1).1 (List.mem_map.2 ⟨e, he, rfl⟩)
    exact ⟨this.1, by rw [d2.n]; exact this.2.1⟩
  obtain ⟨m3, h3, fr⟩ := restoreBoundary_eff saved m2 d2.rok hL
  rw [d2.n, hr2] at h3
  have e3 : m' = m3 := by injection h3 with _ e
  subst e3
  refine ⟨fr.n.trans d2.n, fr.rok, ?_, ?_, fun x => (fr.tags x).trans (d2.att sBd x (by decide))⟩
  · intro x hx
    obtain ⟨u, b⟩ := d2.inD x hx
    refine ⟨(fr.u x).trans u, fun i hi => ?_⟩
    by_cases hc : i = 2 ∧ x ∈ saved.map (·.1)
    · rw [hc.1]; exact fr.inK x hc.2
    · rw [fr.other i x hc]; exact b i hi
  · intro x hx
    obtain ⟨u, b⟩ := d2.outD x hx
    refine ⟨(fr.u x).trans u, ?_, ?_, ?_⟩
    · rw [fr.other 0 x (fun hh => absurd hh.1 (by decide))]; exact b 0
    · rw [fr.other 1 x (fun hh => absurd hh.1 (by decide))]; exact b 1
    · by_cases hk : x ∈ saved.map (·.1)
      · rw [fr.inK x hk, if_pos ((hK x).1 hk)]
      · rw [fr.other 2 x (fun hh => hk hh.2), if_neg (fun hh => hk ((hK x).2 hh))]; exact b 2

/-- **C16, clip — the result does not depend on the iteration order of the `HashSet`**: two iteration
    orders of the same set of marked faces give the same β functions and the same removal flags -/
theorem C16_deleteDarts_order_independent {m0 m1 m2 : Map Val} (h0 : WF 3 m0) (hst : 9 < m0.a.size)
    (o1 o2 : List Nat) (kept : Val) (ha : Bool)
    (ho : ∀ f, f ∈ o1 → FaceId m0 f ∧ m0.unused f = false) (hn1 : o1.Nodup) (hn2 : o2.Nodup)
    (hperm : ∀ f, f ∈ o1 ↔ f ∈ o2)
    (hr1 : run (deleteDarts m0.n o1 kept ha) m0 = (.ok (), m1))
    (hr2 : run (deleteDarts m0.n o2 kept ha) m0 = (.ok (), m2)) :
    m1.n = m2.n ∧ (∀ i, i < 3 → ∀ x, m1.β i x = m2.β i x) ∧ ∀ x, m1.unused x = m2.unused x := by
  obtain ⟨a1, _, b1, c1, _⟩ := C16_deleteDarts_spec h0 hst o1 kept ha ho hn1 hr1
  obtain ⟨a2, _, b2, c2, _⟩ := C16_deleteDarts_spec h0 hst o2 kept ha
    (fun f hf => ho f ((hperm f).2 hf)) hn2 hr2
  have hD : ∀ x, InFaces m0 o1 x ↔ InFaces m0 o2 x := by
    intro x; unfold InFaces
    exact ⟨fun ⟨f, hf, hx⟩ => ⟨f, (hperm f).1 hf, hx⟩, fun ⟨f, hf, hx⟩ => ⟨f, (hperm f).2 hf, hx⟩⟩
  refine ⟨a1.trans a2.symm, ?_, ?_⟩
  · intro i hi x
    by_cases hx : InFaces m0 o1 x
    · rw [(b1 x hx).2 i hi, (b2 x ((hD x).1 hx)).2 i hi]
    · obtain ⟨_, p0, p1, p2⟩ := c1 x hx
      obtain ⟨_, q0, q1, q2⟩ := c2 x (fun hh => hx ((hD x).2 hh))
      have : i = 0 ∨ i = 1 ∨ i = 2 := by omega
      rcases this with rfl | rfl | rfl
      · rw [p0, q0]
      · rw [p1, q1]
      · rw [p2, q2]
  · intro x
    by_cases hx : InFaces m0 o1 x
    · rw [(b1 x hx).1, (b2 x ((hD x).1 hx)).1]
    · rw [(c1 x hx).1, (c2 x (fun hh => hx ((hD x).2 hh))).1]

/-! ## `mark_faces`: the marked set is the closure of the seed faces -/

section
variable (m : Map Val)

/-- the `Boundary` tag of a dart -/
abbrev tagOf (d : Nat) : Option Val := m.att sBd d

/-- `matches!(…, Some(Boundary::None) | None)` -/
def Untagged (v : Option Val) : Prop := v = some bdNone ∨ v = none

instance (v : Option Val) : Decidable (Untagged v) := by unfold Untagged; exact inferInstance

def FreeDart (d : Nat) : Prop := m.β 0 d = 0 ∧ m.β 1 d = 0 ∧ m.β 2 d = 0

instance (d : Nat) : Decidable (FreeDart m d) := by unfold FreeDart; exact inferInstance

/-- a face the traversal starts from: the face of a non-free dart tagged `mark` -/
def SeedFace (mark : Val) (f : Nat) : Prop :=
  ∃ d, d ≠ 0 ∧ d < m.n ∧ tagOf m d = some mark ∧ ¬ FreeDart m d ∧ f = cellId m .face d

/-- `f'` is entered from `f` through a side whose opposite dart carries no tag -/
def StepFace (f f' : Nat) : Prop :=
  ∃ d, d ∈ orb m .face f ∧ Untagged (tagOf m (m.β 2 d)) ∧ f' = cellId m .face (m.β 2 d)

/-- the faces reachable from a `mark`-tagged dart without crossing the boundary -/
inductive Clos (mark : Val) : Nat → Prop where
  | seed {f : Nat} : SeedFace m mark f → Clos mark f
  | step {f f' : Nat} : Clos mark f → StepFace m f f' → f' ≠ 0 → Clos mark f'

end

theorem run_isFree2 {m : Map Val} (h : WF 3 m) {d : Nat} (hd : d < m.n) :
    run (isFree2 d) m = (.ok (decide (FreeDart m d)), m) := by
  unfold isFree2 FreeDart
  simp only [Prog.bind_eq, Prog.pure_eq, run_rB, okb h (by omega : 0 < 3) hd, okb h (by omega : 1 < 3) hd,
    okb h (by omega : 2 < 3) hd, if_true]
  have a1 := okb h (by omega : 1 < 3) hd
  have a2 := okb h (by omega : 2 < 3) hd
  by_cases h0 : m.β 0 d = 0
  · by_cases h1 : m.β 1 d = 0
    · by_cases h2 : m.β 2 d = 0
      · simp [h0, h1, h2, a1, a2]
      · simp [h0, h1, h2, a1, a2]
    · simp [h0, h1, a1, a2]
  · simp [h0, a1, a2]

/-- the pure content of the three read-only scans -/
def seedList (m : Map Val) (mark : Val) (ds : List Nat) : List Nat :=
  ds.filterMap (fun d => if tagOf m d = some mark ∧ ¬ FreeDart m d then some (cellId m .face d) else none)

def nbrList (m : Map Val) (l : List Nat) : List Nat :=
  l.filterMap (fun d => if Untagged (tagOf m (m.β 2 d)) then some (cellId m .face (m.β 2 d)) else none)

theorem run_seedFaces {m : Map Val} (h : WF 3 m) (hst : 9 < m.a.size) (mark : Val) : ∀ ds,
    (∀ d, d ∈ ds → d ≠ 0 ∧ d < m.n) →
    run (seedFaces m.n mark ds) m = (.ok (seedList m mark ds), m) := by
  have hr := ROK.of_wf h hst
  intro ds
  induction ds with
  | nil => intro _; rfl
  | cons d ds ih =>
      intro hds
      obtain ⟨hd0, hd⟩ := hds d List.mem_cons_self
      have ih' := ih (fun x hx => hds x (List.mem_cons_of_mem _ hx))
      unfold seedFaces seedList
      simp only [Prog.bind_eq, run_rA, hr.okA (by decide : sBd ≤ 9) hd, if_true, List.filterMap_cons]
      by_cases ht : m.att sBd d = some mark
      · rw [if_pos ht, run_bind, run_isFree2 h hd]
        simp only
        by_cases hf : FreeDart m d
        · simp only [hf, decide_true, if_true, tagOf, ht, not_true_eq_false, and_false, if_false]
          exact ih'
        · simp only [hf, decide_false, Bool.false_eq_true, if_false, tagOf, ht, not_false_eq_true, and_self,
            if_true]
          rw [run_bind, run_fid' h hd]
          simp only
          rw [run_bind, ih']
          rfl
      · rw [if_neg ht]
        simp only [tagOf, ht, false_and, if_false]
        exact ih'

theorem run_anyTagged {m : Map Val} (hr : ROK m) (tag : Val) : ∀ l, (∀ d, d ∈ l → d < m.n) →
    run (anyTagged tag l) m = (.ok (l.any (fun d => decide (tagOf m d = some tag))), m) := by
  intro l
  induction l with
  | nil => intro _; rfl
  | cons d ds ih =>
      intro hl
      have hd := hl d List.mem_cons_self
      unfold anyTagged
      simp only [Prog.bind_eq, run_rA, hr.okA (by decide : sBd ≤ 9) hd, if_true, List.any_cons]
      by_cases ht : m.att sBd d = some tag
      · simp [ht, tagOf]
      · rw [if_neg ht, ih (fun x hx => hl x (List.mem_cons_of_mem _ hx))]
        simp [ht, tagOf]

theorem run_untaggedNeighbours {m : Map Val} (h : WF 3 m) (hst : 9 < m.a.size) : ∀ l, (∀ d, d ∈ l → d < m.n) →
    run (untaggedNeighbours m.n l) m = (.ok (nbrList m l), m) := by
  have hr := ROK.of_wf h hst
  intro l
  induction l with
  | nil => intro _; rfl
  | cons d ds ih =>
      intro hl
      have hd := hl d List.mem_cons_self
      have hb : m.β 2 d < m.n := h.range 2 (by omega) d hd
      have ih' := ih (fun x hx => hl x (List.mem_cons_of_mem _ hx))
      unfold untaggedNeighbours nbrList
      simp only [Prog.bind_eq, run_rB, okb h (by omega : 2 < 3) hd, if_true, run_rA,
        hr.okA (by decide : sBd ≤ 9) hb, List.filterMap_cons]
      by_cases hu : m.att sBd (m.β 2 d) = some bdNone ∨ m.att sBd (m.β 2 d) = none
      · rw [if_pos hu, run_bind, run_fid' h hb]
        simp only
        rw [run_bind, ih']
        have : Untagged (tagOf m (m.β 2 d)) := hu
        simp only [this, if_true]
        rfl
      · rw [if_neg hu]
        have : ¬ Untagged (tagOf m (m.β 2 d)) := hu
        simp only [this, if_false]
        exact ih'

/-- one iteration of the `while let` loop -/
theorem run_markLoop_cons {m : Map Val} (h : WF 3 m) (hst : 9 < m.a.size) (other : Val) (f face : Nat)
    (q mk : List Nat) (hf0 : face ≠ 0) (hf : face < m.n) :
    run (markLoop m.n other (f + 1) (face :: q) mk) m =
      if mk.contains face = true then run (markLoop m.n other f q mk) m
      else if (orb m .face face).any (fun d => decide (tagOf m d = some other)) = true then
        (.err errBetweenBoundary, m)
      else run (markLoop m.n other f (q ++ nbrList m (orb m .face face)) (mk ++ [face])) m := by
  have hr := ROK.of_wf h hst
  have hol := orb_lt h (pol := .face) trivial hf
  conv => lhs; unfold markLoop
  by_cases hc : mk.contains face = true
  · rw [if_pos hc, if_pos hc]
  · rw [if_neg hc, if_neg hc]
    simp only [Prog.bind_eq]
    rw [run_bind, run_orbit2' h (pol := .face) trivial hf]
    simp only
    rw [run_bind, run_anyTagged hr other _ hol]
    simp only
    by_cases hb : (orb m .face face).any (fun d => decide (tagOf m d = some other)) = true
    · rw [if_pos hb, if_pos hb]; rfl
    · rw [if_neg hb, if_neg hb, run_bind, run_orbit2' h (pol := .face) trivial hf]
      simp only
      rw [run_bind, run_untaggedNeighbours h hst _ hol]

/-- the face of an in-use dart is an in-use face identifier -/
theorem face_inuse {m : Map Val} (h : WF 3 m) {d : Nat} (hd0 : d ≠ 0) (hd : d < m.n) (hu : m.unused d = false) :
    FaceId m (cellId m .face d) ∧ m.unused (cellId m .face d) = false := by
  obtain ⟨a, b, c, e⟩ := cell_rep h (pol := .face) trivial hd0 hd hu
  exact ⟨⟨a, b, e⟩, c⟩

theorem not_free_inuse {m : Map Val} (h : WF 3 m) {d : Nat} (hd : d < m.n) (hf : ¬ FreeDart m d) :
    m.unused d = false := by
  cases hu : m.unused d with
  | false => rfl
  | true =>
      exfalso; apply hf
      exact ⟨h.unusedFree d hd hu 0 (by omega), h.unusedFree d hd hu 1 (by omega), h.unusedFree d hd hu 2 (by omega)⟩

/-- invariant of the marking loop -/
structure MInv (m : Map Val) (mark other : Val) (q mk : List Nat) : Prop where
  mk0 : 0 ∈ mk
  nodup : mk.Nodup
  mkc : ∀ f, f ∈ mk → f ≠ 0 → Clos m mark f ∧ FaceId m f ∧ m.unused f = false ∧
    ∀ d, d ∈ orb m .face f → tagOf m d ≠ some other
  qc : ∀ f, f ∈ q → f = 0 ∨ (Clos m mark f ∧ FaceId m f ∧ m.unused f = false)
  closed : ∀ f, f ∈ mk → f ≠ 0 → ∀ f', StepFace m f f' → f' ∈ mk ∨ f' ∈ q
  seeds : ∀ f, SeedFace m mark f → f ∈ mk ∨ f ∈ q

/-- an already marked face is dropped from the queue -/
theorem MInv.skip {m : Map Val} {mark other : Val} {face : Nat} {q mk : List Nat}
    (I : MInv m mark other (face :: q) mk) (hmem : face ∈ mk) : MInv m mark other q mk := by
  refine ⟨I.mk0, I.nodup, I.mkc, fun f hf => I.qc f (List.mem_cons_of_mem _ hf), ?_, ?_⟩
  · intro f hf hf0 f' hs
    rcases I.closed f hf hf0 f' hs with hh | hh
    · exact Or.inl hh
    · rcases List.mem_cons.1 hh with e | e
      · exact Or.inl (e ▸ hmem)
      · exact Or.inr e
  · intro f hs
    rcases I.seeds f hs with hh | hh
    · exact Or.inl hh
    · rcases List.mem_cons.1 hh with e | e
      · exact Or.inl (e ▸ hmem)
      · exact Or.inr e

/-- a new face without the other tag is marked, its untagged neighbours are queued -/
theorem MInv.mark {m : Map Val} (h : WF 3 m) {mark other : Val} {face : Nat} {q mk : List Nat}
    (I : MInv m mark other (face :: q) mk) (hnm : face ∉ mk)
    (hno : ∀ d, d ∈ orb m .face face → tagOf m d ≠ some other) :
    MInv m mark other (q ++ nbrList m (orb m .face face)) (mk ++ [face]) := by
  have hf0 : face ≠ 0 := fun e => hnm (e ▸ I.mk0)
  obtain ⟨hcl, hfid, hfu⟩ := (I.qc face List.mem_cons_self).resolve_left hf0
  have hnb : ∀ f', f' ∈ nbrList m (orb m .face face) ↔ StepFace m face f' := by
    intro f'
    unfold nbrList StepFace
    rw [List.mem_filterMap]
    constructor
    · rintro ⟨d, hd, e⟩
      by_cases hu : Untagged (tagOf m (m.β 2 d))
      · rw [if_pos hu] at e; injection e with e; exact ⟨d, hd, hu, e.symm⟩
      · rw [if_neg hu] at e; cases e
    · rintro ⟨d, hd, hu, e⟩
      exact ⟨d, hd, by rw [if_pos hu, e]⟩
  refine ⟨List.mem_append_left _ I.mk0, ?_, ?_, ?_, ?_, ?_⟩
  · rw [List.nodup_append]
    exact ⟨I.nodup, by simp, fun a ha b hb' e => hnm (by rw [List.mem_singleton.1 hb'] at e; exact e ▸ ha)⟩
  · intro g hg hg0
    rcases List.mem_append.1 hg with hg | hg
    · exact I.mkc g hg hg0
    · rw [List.mem_singleton.1 hg]; exact ⟨hcl, hfid, hfu, hno⟩
  · intro g hg
    rcases List.mem_append.1 hg with hg | hg
    · exact I.qc g (List.mem_cons_of_mem _ hg)
    · -- a neighbour entered through an untagged side
      obtain ⟨d, hd, hu, e⟩ := (hnb g).1 hg
      by_cases hb0 : m.β 2 d = 0
      · left; rw [e, hb0, cellId_zero h (pol := .face) trivial]
      · right
        obtain ⟨d0, dlt, _⟩ := face_of_mem h hfid hd
        have hblt : m.β 2 d < m.n := h.range 2 (by omega) d dlt
        have hbu : m.unused (m.β 2 d) = false := by
          cases hu' : m.unused (m.β 2 d) with
          | false => rfl
          | true => exact absurd (C01.C01_unused_is_nobodys_image h 2 (by omega) d dlt hu') hb0
        obtain ⟨x1, x2⟩ := face_inuse h hb0 hblt hbu
        have hg0 : g ≠ 0 := by rw [e]; exact x1.1
        exact ⟨Clos.step hcl ⟨d, hd, hu, e⟩ hg0, e ▸ x1, e ▸ x2⟩
  · intro g hg hg0 g' hs
    rcases List.mem_append.1 hg with hg | hg
    · rcases I.closed g hg hg0 g' hs with hh | hh
      · exact Or.inl (List.mem_append_left _ hh)
      · rcases List.mem_cons.1 hh with e | e
        · exact Or.inl (List.mem_append_right _ (by rw [e]; simp))
        · exact Or.inr (List.mem_append_left _ e)
    · rw [List.mem_singleton.1 hg] at hs
      exact Or.inr (List.mem_append_right _ ((hnb g').2 hs))
  · intro g hs
    rcases I.seeds g hs with hh | hh
    · exact Or.inl (List.mem_append_left _ hh)
    · rcases List.mem_cons.1 hh with e | e
      · exact Or.inl (List.mem_append_right _ (by rw [e]; simp))
      · exact Or.inr (List.mem_append_left _ e)

/-- the loop, for every fuel: `Ok` ⇒ the marked list is the closure; `Err` ⇒ a closure face carries the
    other tag -/
theorem markLoop_spec {m : Map Val} (h : WF 3 m) (hst : 9 < m.a.size) (mark other : Val) :
    ∀ (fuel : Nat) (q mk : List Nat), MInv m mark other q mk →
    (∀ res m', run (markLoop m.n other fuel q mk) m = (.ok res, m') → m' = m ∧ MInv m mark other [] res) ∧
    (∀ e m', run (markLoop m.n other fuel q mk) m = (.err e, m') →
      ∃ f, Clos m mark f ∧ ∃ d, d ∈ orb m .face f ∧ tagOf m d = some other) := by
  intro fuel
  induction fuel with
  | zero => intro q mk _; constructor <;> (intro _ _ hr; simp [markLoop, run] at hr)
  | succ f ih =>
      intro q mk I
      cases q with
      | nil =>
          constructor
          · intro res m' hr
            simp only [markLoop, Prog.pure_eq, run_ret, Prod.mk.injEq, Out.ok.injEq] at hr
            rw [← hr.1, ← hr.2]; exact ⟨rfl, I⟩
          · intro e m' hr; simp [markLoop, run] at hr
      | cons face q =>
          by_cases hc : mk.contains face = true
          · -- already marked: dropped from the queue
            have hmem : face ∈ mk := by simpa using hc
            have hstep : run (markLoop m.n other (f + 1) (face :: q) mk) m = run (markLoop m.n other f q mk) m := by
              conv => lhs; unfold markLoop
              rw [if_pos hc]
            rw [hstep]
            exact ih q mk (I.skip hmem)
          · -- a new face
            have hnm : face ∉ mk := fun hh => hc (by simpa using hh)
            have hf0 : face ≠ 0 := fun e => hnm (e ▸ I.mk0)
            obtain ⟨hcl, hfid, hfu⟩ := (I.qc face List.mem_cons_self).resolve_left hf0
            rw [run_markLoop_cons h hst other f face q mk hf0 hfid.2.1, if_neg hc]
            by_cases hb : (orb m .face face).any (fun d => decide (tagOf m d = some other)) = true
            · rw [if_pos hb]
              constructor
              · intro res m' hr; cases hr
              · intro e m' _
                obtain ⟨d, hd, ht⟩ := List.any_eq_true.1 hb
                exact ⟨face, hcl, d, hd, by simpa using ht⟩
            · rw [if_neg hb]
              apply ih
              exact I.mark h hnm (fun d hd ht => hb (List.any_eq_true.2 ⟨d, hd, by simpa using ht⟩))

/-! ### the loop terminates with the fuel it is given -/

/-- darts whose face is not marked yet -/
def unmarked (m : Map Val) (mk : List Nat) : List Nat :=
  (List.range' 1 (m.n - 1)).filter (fun d => !mk.contains (cellId m .face d))

theorem unmarked_drop {m : Map Val} (h : WF 3 m) {face : Nat} (hf : FaceId m face) {mk : List Nat} (hnm : face ∉ mk) :
    (orb m .face face).length + (unmarked m (mk ++ [face])).length ≤ (unmarked m mk).length := by
  have sp := C03_orbit2_spec h (pol := .face) trivial hf.1 hf.2.1
  have hnd : (orb m .face face ++ unmarked m (mk ++ [face])).Nodup := by
    rw [List.nodup_append]
    refine ⟨sp.2.2.1, List.Pairwise.filter _ List.nodup_range', ?_⟩
    intro a ha b hb e
    rw [← e] at hb
    unfold unmarked at hb
    rw [List.mem_filter] at hb
    have := (face_of_mem h hf ha).2.2
    rw [this] at hb
    simp at hb
  have hsub : (orb m .face face ++ unmarked m (mk ++ [face])) ⊆ unmarked m mk := by
    intro x hx
    unfold unmarked
    rw [List.mem_filter]
    rcases List.mem_append.1 hx with hx | hx
    · obtain ⟨x0, xlt, xid⟩ := face_of_mem h hf hx
      refine ⟨mem_darts.2 ⟨x0, xlt⟩, ?_⟩
      rw [xid]; simpa using hnm
    · unfold unmarked at hx
      rw [List.mem_filter] at hx
      refine ⟨hx.1, ?_⟩
      have := hx.2
      simp only [Bool.not_eq_true', List.contains_eq_mem, List.mem_append, decide_eq_false_iff_not] at this ⊢
      exact fun hh => this (Or.inl hh)
  have := hnd.length_le_of_subset hsub
  rwa [List.length_append] at this

theorem nbrList_length (m : Map Val) (l : List Nat) : (nbrList m l).length ≤ l.length :=
  List.length_filterMap_le _ _

/-- with `q.length + #(darts of unmarked faces) + 1` units of fuel the loop ends: it answers `Ok` or the
    orientation error, and leaves the map alone -/
theorem markLoop_total {m : Map Val} (h : WF 3 m) (hst : 9 < m.a.size) (mark other : Val) :
    ∀ (fuel : Nat) (q mk : List Nat), MInv m mark other q mk → q.length + (unmarked m mk).length + 1 ≤ fuel →
    (∃ res, run (markLoop m.n other fuel q mk) m = (.ok res, m)) ∨
      run (markLoop m.n other fuel q mk) m = (.err errBetweenBoundary, m) := by
  intro fuel
  induction fuel with
  | zero => intro q mk _ hle; omega
  | succ f ih =>
      intro q mk I hle
      cases q with
      | nil => left; exact ⟨mk, by simp [markLoop, run]⟩
      | cons face q =>
          by_cases hc : mk.contains face = true
          · have hmem : face ∈ mk := by simpa using hc
            have hstep : run (markLoop m.n other (f + 1) (face :: q) mk) m = run (markLoop m.n other f q mk) m := by
              conv => lhs; unfold markLoop
              rw [if_pos hc]
            rw [hstep]
            exact ih q mk (I.skip hmem) (by simp only [List.length_cons] at hle; omega)
          · have hnm : face ∉ mk := fun hh => hc (by simpa using hh)
            have hf0 : face ≠ 0 := fun e => hnm (e ▸ I.mk0)
            obtain ⟨hcl, hfid, hfu⟩ := (I.qc face List.mem_cons_self).resolve_left hf0
            rw [run_markLoop_cons h hst other f face q mk hf0 hfid.2.1, if_neg hc]
            by_cases hb : (orb m .face face).any (fun d => decide (tagOf m d = some other)) = true
            · rw [if_pos hb]; right; rfl
            · rw [if_neg hb]
              apply ih _ _ (I.mark h hnm (fun d hd ht => hb (List.any_eq_true.2 ⟨d, hd, by simpa using ht⟩)))
              have h1 := unmarked_drop h hfid hnm
              have h2 := nbrList_length m (orb m .face face)
              simp only [List.length_cons, List.length_append] at hle ⊢
              omega

theorem clos_faceId {m : Map Val} (h : WF 3 m) {mark : Val} {f : Nat} (hc : Clos m mark f) :
    FaceId m f ∧ m.unused f = false := by
  induction hc with
  | seed hs =>
      obtain ⟨d, d0, dlt, _, hnf, e⟩ := hs
      rw [e]; exact face_inuse h d0 dlt (not_free_inuse h dlt hnf)
  | step _ hs hf0 ih =>
      obtain ⟨d, hd, _, e⟩ := hs
      obtain ⟨d0, dlt, _⟩ := face_of_mem h ih.1 hd
      have hb0 : m.β 2 d ≠ 0 := by
        intro e0; apply hf0; rw [e, e0, cellId_zero h (pol := .face) trivial]
      have hblt : m.β 2 d < m.n := h.range 2 (by omega) d dlt
      have hbu : m.unused (m.β 2 d) = false := by
        cases hu' : m.unused (m.β 2 d) with
        | false => rfl
        | true => exact absurd (C01.C01_unused_is_nobodys_image h 2 (by omega) d dlt hu') hb0
      rw [e]; exact face_inuse h hb0 hblt hbu

theorem MInv.init {m : Map Val} (h : WF 3 m) (mark other : Val) :
    MInv m mark other (seedList m mark (List.range' 1 (m.n - 1))) [0] := by
  refine ⟨by simp, by simp, ?_, ?_, ?_, ?_⟩
  · intro f hf hf0; exact absurd (List.mem_singleton.1 hf) hf0
  · intro f hf
    right
    unfold seedList at hf
    obtain ⟨d, hd, e⟩ := List.mem_filterMap.1 hf
    obtain ⟨d0, dlt⟩ := mem_darts.1 hd
    by_cases hc : tagOf m d = some mark ∧ ¬ FreeDart m d
    · rw [if_pos hc] at e; injection e with e
      obtain ⟨x1, x2⟩ := face_inuse h d0 dlt (not_free_inuse h dlt hc.2)
      exact ⟨Clos.seed ⟨d, d0, dlt, hc.1, hc.2, e.symm⟩, e ▸ x1, e ▸ x2⟩
    · rw [if_neg hc] at e; cases e
  · intro f hf hf0; exact absurd (List.mem_singleton.1 hf) hf0
  · intro f hs
    right
    obtain ⟨d, d0, dlt, ht, hnf, e⟩ := hs
    unfold seedList
    exact List.mem_filterMap.2 ⟨d, mem_darts.2 ⟨d0, dlt⟩, by rw [if_pos ⟨ht, hnf⟩, e]⟩

/-- **C16, clip — `mark_faces` returns the closure**: when it answers `Ok`, the map is untouched and the
    returned faces are, each once, exactly the faces reachable from a non-free dart tagged `mark` by
    crossing only sides whose opposite dart carries no tag; none of them has a dart tagged `other` -/
theorem C16_markFaces_spec {m m' : Map Val} (h : WF 3 m) (hst : 9 < m.a.size) (mark other : Val) {fs : List Nat}
    (hr : run (markFaces m.n mark other) m = (.ok fs, m')) :
    m' = m ∧ fs.Nodup ∧ (∀ f, f ∈ fs ↔ Clos m mark f) ∧
    ∀ f, f ∈ fs → ∀ d, d ∈ orb m .face f → tagOf m d ≠ some other := by
  unfold markFaces at hr
  simp only [Prog.bind_eq] at hr
  rw [run_bind, run_seedFaces h hst mark _ (fun d hd => mem_darts.1 hd)] at hr
  simp only at hr
  obtain ⟨res, m1, h1, hr1⟩ := run_bind_ok hr
  have I0 := MInv.init h mark other
  obtain ⟨em, I⟩ := (markLoop_spec h hst mark other _ _ _ I0).1 res m1 h1
  simp only [Prog.pure_eq, run_ret, Prod.mk.injEq, Out.ok.injEq] at hr1
  obtain ⟨efs, e2⟩ := hr1
  have hin : ∀ f, Clos m mark f → f ∈ res ∧ f ≠ 0 := by
    intro f hc
    induction hc with
    | seed hs =>
        have hf0 : _ ≠ 0 := (clos_faceId h (Clos.seed hs)).1.1
        rcases I.seeds _ hs with hh | hh
        · exact ⟨hh, hf0⟩
        · cases hh
    | step _ hs hf0 ih =>
        rcases I.closed _ ih.1 ih.2 _ hs with hh | hh
        · exact ⟨hh, hf0⟩
        · cases hh
  refine ⟨by rw [← e2, em], ?_, ?_, ?_⟩
  · rw [← efs]; exact I.nodup.filter _
  · intro f
    rw [← efs, List.mem_filter]
    simp only [ne_eq, decide_eq_true_eq]
    exact ⟨fun ⟨a, b⟩ => (I.mkc f a b).1, fun hc => hin f hc⟩
  · intro f hf
    rw [← efs, List.mem_filter] at hf
    simp only [ne_eq, decide_eq_true_eq] at hf
    exact (I.mkc f hf.1 hf.2).2.2.2

/-- **C16, clip — the error**: `mark_faces` answers `InconsistentOrientation` only if a face of the
    closure has a dart tagged `other` (and `Ok` only if none has: `C16_markFaces_spec`) -/
theorem C16_markFaces_err {m m' : Map Val} (h : WF 3 m) (hst : 9 < m.a.size) (mark other : Val) {e : Err}
    (hr : run (markFaces m.n mark other) m = (.err e, m')) :
    ∃ f, Clos m mark f ∧ ∃ d, d ∈ orb m .face f ∧ tagOf m d = some other := by
  unfold markFaces at hr
  simp only [Prog.bind_eq] at hr
  rw [run_bind, run_seedFaces h hst mark _ (fun d hd => mem_darts.1 hd)] at hr
  simp only at hr
  have I0 := MInv.init h mark other
  rw [run_bind] at hr
  match hm : run (markLoop m.n other (2 * m.n + 2) (seedList m mark (List.range' 1 (m.n - 1))) [0]) m with
  | (.ok res, m1) => rw [hm] at hr; simp [run] at hr
  | (.err e1, m1) => exact (markLoop_spec h hst mark other _ _ _ I0).2 e1 m1 hm
  | (.retry, m1) => rw [hm] at hr; cases hr
  | (.panic, m1) => rw [hm] at hr; cases hr

/-- **C16, clip — `mark_faces` terminates**: on every well-formed map the marking loop ends within the
    `2·n_darts + 2` iterations the model allows (so the model never answers `retry`), never panics, leaves the
    map alone, and answers `Ok` or `InconsistentOrientation` -/
theorem C16_markFaces_total {m : Map Val} (h : WF 3 m) (hst : 9 < m.a.size) (mark other : Val) :
    (∃ fs, run (markFaces m.n mark other) m = (.ok fs, m)) ∨
      run (markFaces m.n mark other) m = (.err errBetweenBoundary, m) := by
  unfold markFaces
  simp only [Prog.bind_eq]
  rw [run_bind, run_seedFaces h hst mark _ (fun d hd => mem_darts.1 hd)]
  simp only
  have hle : (seedList m mark (List.range' 1 (m.n - 1))).length + (unmarked m [0]).length + 1 ≤ 2 * m.n + 2 := by
    have h1 : (seedList m mark (List.range' 1 (m.n - 1))).length ≤ (List.range' 1 (m.n - 1)).length :=
      List.length_filterMap_le _ _
    have h2 : (unmarked m [0]).length ≤ (List.range' 1 (m.n - 1)).length := List.length_filter_le _ _
    rw [List.length_range'] at h1 h2
    omega
  rcases markLoop_total h hst mark other _ _ _ (MInv.init h mark other) hle with ⟨res, hr⟩ | hr
  · left; exact ⟨res.filter (· ≠ 0), by rw [run_bind, hr]; rfl⟩
  · right; rw [run_bind, hr]

/-- **C16, clip — the error, both directions**: `mark_faces` answers `InconsistentOrientation` exactly when a
    face of the closure has a dart tagged `other` -/
theorem C16_markFaces_err_iff {m : Map Val} (h : WF 3 m) (hst : 9 < m.a.size) (mark other : Val) :
    run (markFaces m.n mark other) m = (.err errBetweenBoundary, m) ↔
      ∃ f, Clos m mark f ∧ ∃ d, d ∈ orb m .face f ∧ tagOf m d = some other := by
  constructor
  · exact C16_markFaces_err h hst mark other
  · rintro ⟨f, hc, d, hd, ht⟩
    rcases C16_markFaces_total h hst mark other with ⟨fs, hr⟩ | hr
    · have sp := C16_markFaces_spec h hst mark other hr
      exact absurd ht (sp.2.2.2 f ((sp.2.2.1 f).2 hc) d hd)
    · exact hr

/-- the darts of the faces the clip removes -/
def InClos (m : Map Val) (mark : Val) (x : Nat) : Prop := ∃ f, Clos m mark f ∧ x ∈ orb m .face f

/-- **C16, clip — `clip_left` / `clip_right` remove exactly the faces reachable from a `mark`-tagged dart
    without crossing the boundary**, whatever the iteration order of the `HashSet` (`perm`): when the
    call answers `Ok` on a well-formed 2-map,
    * the darts of those faces are unlinked (β0 = β1 = β2 = 0) and flagged as removed;
    * every other dart keeps its flag, β0 and β1, and its β2 unless it is tagged `other`, in which case it
      is 2-free afterwards (the remaining boundary darts are 2-free);
    * no removed face had a dart tagged `other`; the tags are untouched. -/
theorem C16_clip_spec {m m' : Map Val} (h : WF 3 m) (hst : 9 < m.a.size) (mark other : Val) (ha : Bool)
    (perm : List Nat → List Nat)
    (hperm : ∀ l, l.Nodup → (perm l).Nodup ∧ ∀ f, f ∈ perm l ↔ f ∈ l)
    (hr : run (clipWith m.n mark other ha perm) m = (.ok (), m')) :
    m'.n = m.n ∧ ROK m' ∧
    (∀ x, InClos m mark x → m'.unused x = true ∧ ∀ i, i < 3 → m'.β i x = 0) ∧
    (∀ x, ¬ InClos m mark x → m'.unused x = m.unused x ∧ m'.β 0 x = m.β 0 x ∧ m'.β 1 x = m.β 1 x ∧
      m'.β 2 x = if x ≠ 0 ∧ x < m.n ∧ tagOf m x = some other then 0 else m.β 2 x) ∧
    (∀ x, InClos m mark x → tagOf m x ≠ some other) ∧
    (∀ x, tagOf m' x = tagOf m x) := by
  unfold clipWith at hr
  simp only [Prog.bind_eq] at hr
  obtain ⟨fs, m1, h1, hr1⟩ := run_bind_ok hr
  obtain ⟨e1, hnd, hmem, hno⟩ := C16_markFaces_spec h hst mark other h1
  rw [e1] at hr1
  obtain ⟨pn, pm⟩ := hperm fs hnd
  have hD : ∀ x, InFaces m (perm fs) x ↔ InClos m mark x := by
    intro x; unfold InFaces InClos
    exact ⟨fun ⟨f, hf, hx⟩ => ⟨f, (hmem f).1 ((pm f).1 hf), hx⟩,
      fun ⟨f, hf, hx⟩ => ⟨f, (pm f).2 ((hmem f).2 hf), hx⟩⟩
  obtain ⟨a, rk, b, c, d⟩ := C16_deleteDarts_spec h hst (perm fs) other ha
    (fun f hf => clos_faceId h ((hmem f).1 ((pm f).1 hf))) pn hr1
  refine ⟨a, rk, fun x hx => b x ((hD x).2 hx), fun x hx => c x (fun hh => hx ((hD x).1 hh)), ?_, d⟩
  rintro x ⟨f, hf, hx⟩
  exact hno f ((hmem f).2 hf) x hx

/-- a dart belongs to a removed face iff its face is in the closure -/
theorem inClos_iff {m : Map Val} (h : WF 3 m) (mark : Val) {x : Nat} (hx0 : x ≠ 0) (hx : x < m.n) :
    InClos m mark x ↔ Clos m mark (cellId m .face x) := by
  constructor
  · rintro ⟨f, hc, hm⟩
    rw [(face_of_mem h (clos_faceId h hc).1 hm).2.2]; exact hc
  · intro hc
    exact ⟨_, hc, (mem_own_face h hx0 hx).2⟩

theorem face_b1 {m : Map Val} (h : WF 3 m) {d : Nat} (hd0 : d ≠ 0) (hd : d < m.n) (hb : m.β 1 d ≠ 0) :
    cellId m .face (m.β 1 d) = cellId m .face d := by
  have hlt := h.range 1 (by omega) d hd
  exact ((C03_same_id_iff_same_cell h (pol := .face) trivial hd0 hd hb hlt).1.2
    (Reach.single (by simp [g2]))).symm

theorem face_b0 {m : Map Val} (h : WF 3 m) {d : Nat} (hd0 : d ≠ 0) (hd : d < m.n) (hb : m.β 0 d ≠ 0) :
    cellId m .face (m.β 0 d) = cellId m .face d := by
  have hlt := h.range 0 (by omega) d hd
  exact ((C03_same_id_iff_same_cell h (pol := .face) trivial hd0 hd hb hlt).1.2
    (Reach.single (by simp [g2]))).symm

/-- **C16, clip — the clipped map is a well-formed 2-map whose boundary darts are 2-free**: if the tags
    are `None` / `mark` / `other` only and every 2-linked dart tagged `other` faces a dart tagged `mark`
    (as `mark_boundary` writes them: `Left` on a dart, `Right` on its β2), then after `Ok` the result is
    well-formed, and every remaining dart tagged `other` is 2-free -/
theorem C16_clip_WF {m m' : Map Val} (h : WF 3 m) (hst : 9 < m.a.size) (mark other : Val) (ha : Bool)
    (perm : List Nat → List Nat)
    (hperm : ∀ l, l.Nodup → (perm l).Nodup ∧ ∀ f, f ∈ perm l ↔ f ∈ l)
    (htags : ∀ x, x ≠ 0 → x < m.n → tagOf m x = none ∨ tagOf m x = some bdNone ∨ tagOf m x = some mark ∨
      tagOf m x = some other)
    (hpair : ∀ e, e ≠ 0 → e < m.n → tagOf m e = some other → m.β 2 e ≠ 0 → tagOf m (m.β 2 e) = some mark)
    (hr : run (clipWith m.n mark other ha perm) m = (.ok (), m')) :
    WF 3 m' ∧
    (∀ x, x ≠ 0 → x < m.n → m'.unused x = false → tagOf m' x = some other → m'.β 2 x = 0) := by
  obtain ⟨hn, rk, hin, hout, hno, htg⟩ := C16_clip_spec h hst mark other ha perm hperm hr
  have nz : ∀ i, i < 3 → ∀ d, m.β i d ≠ 0 → d ≠ 0 := by
    intro i hi d hb e; rw [e, h.null i hi] at hb; exact hb rfl
  -- a 2-linked dart tagged `mark` is a seed
  have seedIn : ∀ d, d ≠ 0 → d < m.n → tagOf m d = some mark → m.β 2 d ≠ 0 → InClos m mark d := by
    intro d d0 dlt ht hb
    exact (inClos_iff h mark d0 dlt).2 (Clos.seed ⟨d, d0, dlt, ht, fun hf => hb hf.2.2, rfl⟩)
  have b2form : ∀ x, ¬ InClos m mark x → m'.β 2 x = if x ≠ 0 ∧ x < m.n ∧ tagOf m x = some other then 0 else m.β 2 x :=
    fun x hx => (hout x hx).2.2.2
  refine ⟨⟨rk.sized, ?_⟩, ?_⟩
  · refine ⟨rk.null, rk.range, ?_, ?_, ?_, ?_⟩
    · -- β0 (β1 d) = d
      intro d hd hb
      rw [hn] at hd
      by_cases hc : InClos m mark d
      · exact absurd ((hin d hc).2 1 (by omega)) hb
      · obtain ⟨_, _, e1, _⟩ := hout d hc
        rw [e1] at hb ⊢
        have d0 := nz 1 (by omega) d hb
        have hlt := h.range 1 (by omega) d hd
        have hc' : ¬ InClos m mark (m.β 1 d) := by
          intro hh
          apply hc
          rw [inClos_iff h mark hb hlt, face_b1 h d0 hd hb] at hh
          exact (inClos_iff h mark d0 hd).2 hh
        rw [(hout _ hc').2.1]
        exact h.inv01 d hd hb
    · intro d hd hb
      rw [hn] at hd
      by_cases hc : InClos m mark d
      · exact absurd ((hin d hc).2 0 (by omega)) hb
      · obtain ⟨_, e0, _, _⟩ := hout d hc
        rw [e0] at hb ⊢
        have d0 := nz 0 (by omega) d hb
        have hlt := h.range 0 (by omega) d hd
        have hc' : ¬ InClos m mark (m.β 0 d) := by
          intro hh
          apply hc
          rw [inClos_iff h mark hb hlt, face_b0 h d0 hd hb] at hh
          exact (inClos_iff h mark d0 hd).2 hh
        rw [(hout _ hc').2.2.1]
        exact h.inv10 d hd hb
    · -- β2 is an involution without fixed point
      intro i hi h2 d hd hb
      have hi2 : i = 2 := by omega
      subst hi2
      rw [hn] at hd
      by_cases hc : InClos m mark d
      · exact absurd ((hin d hc).2 2 (by omega)) hb
      · rw [b2form d hc] at hb ⊢
        by_cases hk : d ≠ 0 ∧ d < m.n ∧ tagOf m d = some other
        · rw [if_pos hk] at hb; exact absurd rfl hb
        · rw [if_neg hk] at hb ⊢
          have d0 := nz 2 (by omega) d hb
          have hnot : tagOf m d ≠ some other := fun e => hk ⟨d0, hd, e⟩
          obtain ⟨inv, ne⟩ := h.invol 2 (by omega) (by omega) d hd hb
          have elt := h.range 2 (by omega) d hd
          -- the partner is not removed
          have hce : ¬ InClos m mark (m.β 2 d) := by
            intro hh
            apply hc
            rcases htags d d0 hd with t | t | t | t
            · -- untagged: the closure steps through
              have hcl := (inClos_iff h mark hb elt).1 hh
              have : StepFace m (cellId m .face (m.β 2 d)) (cellId m .face d) :=
                ⟨m.β 2 d, (mem_own_face h hb elt).2, by rw [inv]; exact Or.inr t, by rw [inv]⟩
              exact (inClos_iff h mark d0 hd).2 (Clos.step hcl this (mem_own_face h d0 hd).1.1)
            · have hcl := (inClos_iff h mark hb elt).1 hh
              have : StepFace m (cellId m .face (m.β 2 d)) (cellId m .face d) :=
                ⟨m.β 2 d, (mem_own_face h hb elt).2, by rw [inv]; exact Or.inl t, by rw [inv]⟩
              exact (inClos_iff h mark d0 hd).2 (Clos.step hcl this (mem_own_face h d0 hd).1.1)
            · exact seedIn d d0 hd t hb
            · exact absurd t hnot
          rw [b2form _ hce]
          have hke : ¬ (m.β 2 d ≠ 0 ∧ m.β 2 d < m.n ∧ tagOf m (m.β 2 d) = some other) := by
            rintro ⟨_, _, te⟩
            have := hpair (m.β 2 d) hb elt te (by rw [inv]; exact d0)
            rw [inv] at this
            exact hc (seedIn d d0 hd this hb)
          rw [if_neg hke]
          exact ⟨inv, ne⟩
    · -- removed darts are free
      intro d hd hu i hi
      rw [hn] at hd
      by_cases hc : InClos m mark d
      · exact (hin d hc).2 i hi
      · obtain ⟨eu, e0, e1, e2⟩ := hout d hc
        rw [eu] at hu
        have old := h.unusedFree d hd hu
        have : i = 0 ∨ i = 1 ∨ i = 2 := by omega
        rcases this with rfl | rfl | rfl
        · rw [e0]; exact old 0 (by omega)
        · rw [e1]; exact old 1 (by omega)
        · rw [e2]; split
          · rfl
          · exact old 2 (by omega)
  · intro x x0 hx hu ht
    rw [htg] at ht
    have hc : ¬ InClos m mark x := fun hh => by rw [(hin x hh).1] at hu; cases hu
    rw [b2form x hc, if_pos ⟨x0, hx, ht⟩]

/-- **C16, clip — the result does not depend on the `HashSet` order**: two iteration orders of the marked
    set give the same β functions and removal flags -/
theorem C16_clip_order_independent {m m1 m2 : Map Val} (h : WF 3 m) (hst : 9 < m.a.size) (mark other : Val)
    (ha : Bool) (p1 p2 : List Nat → List Nat)
    (hp1 : ∀ l, l.Nodup → (p1 l).Nodup ∧ ∀ f, f ∈ p1 l ↔ f ∈ l)
    (hp2 : ∀ l, l.Nodup → (p2 l).Nodup ∧ ∀ f, f ∈ p2 l ↔ f ∈ l)
    (hr1 : run (clipWith m.n mark other ha p1) m = (.ok (), m1))
    (hr2 : run (clipWith m.n mark other ha p2) m = (.ok (), m2)) :
    m1.n = m2.n ∧ (∀ i, i < 3 → ∀ x, m1.β i x = m2.β i x) ∧ ∀ x, m1.unused x = m2.unused x := by
  obtain ⟨a1, _, b1, c1, _, _⟩ := C16_clip_spec h hst mark other ha p1 hp1 hr1
  obtain ⟨a2, _, b2, c2, _, _⟩ := C16_clip_spec h hst mark other ha p2 hp2 hr2
  refine ⟨a1.trans a2.symm, ?_, ?_⟩
  · intro i hi x
    by_cases hx : InClos m mark x
    · rw [(b1 x hx).2 i hi, (b2 x hx).2 i hi]
    · obtain ⟨_, p0, p1', p2'⟩ := c1 x hx
      obtain ⟨_, q0, q1, q2⟩ := c2 x hx
      have : i = 0 ∨ i = 1 ∨ i = 2 := by omega
      rcases this with rfl | rfl | rfl
      · rw [p0, q0]
      · rw [p1', q1]
      · rw [p2', q2]
  · intro x
    by_cases hx : InClos m mark x
    · rw [(b1 x hx).1, (b2 x hx).1]
    · rw [(c1 x hx).1, (c2 x hx).1]

theorem id_perm (l : List Nat) (h : l.Nodup) : (id l).Nodup ∧ ∀ f, f ∈ id l ↔ f ∈ l := ⟨h, fun _ => Iff.rfl⟩

/-- `clip_left`: `mark = Left`, `other = Right` -/
theorem C16_clipLeft_spec {m m' : Map Val} (h : WF 3 m) (hst : 9 < m.a.size) (ha : Bool)
    (hr : run (clipLeft m.n ha) m = (.ok (), m')) :
    m'.n = m.n ∧ ROK m' ∧
    (∀ x, InClos m bdLeft x → m'.unused x = true ∧ ∀ i, i < 3 → m'.β i x = 0) ∧
    (∀ x, ¬ InClos m bdLeft x → m'.unused x = m.unused x ∧ m'.β 0 x = m.β 0 x ∧ m'.β 1 x = m.β 1 x ∧
      m'.β 2 x = if x ≠ 0 ∧ x < m.n ∧ tagOf m x = some bdRight then 0 else m.β 2 x) ∧
    (∀ x, InClos m bdLeft x → tagOf m x ≠ some bdRight) ∧ (∀ x, tagOf m' x = tagOf m x) :=
  C16_clip_spec h hst bdLeft bdRight ha id id_perm hr

/-- `clip_right`: `mark = Right`, `other = Left` -/
theorem C16_clipRight_spec {m m' : Map Val} (h : WF 3 m) (hst : 9 < m.a.size) (ha : Bool)
    (hr : run (clipRight m.n ha) m = (.ok (), m')) :
    m'.n = m.n ∧ ROK m' ∧
    (∀ x, InClos m bdRight x → m'.unused x = true ∧ ∀ i, i < 3 → m'.β i x = 0) ∧
    (∀ x, ¬ InClos m bdRight x → m'.unused x = m.unused x ∧ m'.β 0 x = m.β 0 x ∧ m'.β 1 x = m.β 1 x ∧
      m'.β 2 x = if x ≠ 0 ∧ x < m.n ∧ tagOf m x = some bdLeft then 0 else m.β 2 x) ∧
    (∀ x, InClos m bdRight x → tagOf m x ≠ some bdLeft) ∧ (∀ x, tagOf m' x = tagOf m x) :=
  C16_clip_spec h hst bdRight bdLeft ha id id_perm hr

/-! ## non-vacuity -/

/-- three unit squares in a row (darts 1-4, 5-8, 9-12); the side between the first two cells is the
    boundary: dart 2 tagged `Left`, its β2 (dart 8) tagged `Right`; the vertices 2, 3, 6 have coordinates -/
def exRow : Map Val :=
  (((((({ (Map.empty 3 10 13 : Map Val) with
    b := #[#[0, 4, 1, 2, 3, 8, 5, 6, 7, 12, 9, 10, 11], #[0, 2, 3, 4, 1, 6, 7, 8, 5, 10, 11, 12, 9],
           #[0, 0, 8, 0, 0, 0, 12, 0, 2, 0, 0, 0, 6]] }).setA sBd 2 (some bdLeft)).setA sBd 8 (some bdRight)).setA 0 3
      (some (.pt 1 1 0))).setA 0 2 (some (.pt 1 0 0))).setA 0 6 (some (.pt 2 0 0)))

theorem exRow_wf : WF 3 exRow := by decide
example : 9 < exRow.a.size := by decide
-- `clip_left` removes the first cell only; the second and third stay, dart 8 becomes 2-free
example : (run (clipLeft exRow.n false) exRow).1 = .ok () := by decide +kernel
example : ((List.range 13).map fun d => ((run (clipLeft exRow.n false) exRow).2).unused d) =
    [false, true, true, true, true, false, false, false, false, false, false, false, false] := by decide +kernel
example : ((run (clipLeft exRow.n false) exRow).2).β 2 8 = 0 ∧ ((run (clipLeft exRow.n false) exRow).2).β 2 6 = 12 := by
  decide +kernel
example : WF 3 (run (clipLeft exRow.n false) exRow).2 := by decide +kernel
-- `clip_right` removes the second and the third cell (the side 6|12 is untagged: the closure steps through)
example : ((List.range 13).map fun d => ((run (clipRight exRow.n false) exRow).2).unused d) =
    [false, false, false, false, false, true, true, true, true, true, true, true, true] := by decide +kernel
-- with the tags the wrong way round on the far side the closure meets the other tag: error
example : (run (clipLeft exRow.n false) ((exRow.setA sBd 6 (some bdRight)).setA sBd 12 (some bdLeft))).1
    = .ok () := by decide +kernel
example : (run (clipLeft exRow.n false) (exRow.setA sBd 3 (some bdRight))).1 = .err errBetweenBoundary := by
  decide +kernel

-- the hypotheses of the theorems are satisfiable together: `exRow` has them all
example : ∀ x, x ≠ 0 → x < exRow.n → tagOf exRow x = none ∨ tagOf exRow x = some bdNone ∨
    tagOf exRow x = some bdLeft ∨ tagOf exRow x = some bdRight := by
  have : ∀ x, x < 13 → (tagOf exRow x = none ∨ tagOf exRow x = some bdNone ∨
    tagOf exRow x = some bdLeft ∨ tagOf exRow x = some bdRight) := by decide +kernel
  exact fun x _ hx => this x hx
example : ∀ e, e ≠ 0 → e < exRow.n → tagOf exRow e = some bdRight → exRow.β 2 e ≠ 0 →
    tagOf exRow (exRow.β 2 e) = some bdLeft := by
  have : ∀ e, e < 13 → (tagOf exRow e = some bdRight → exRow.β 2 e ≠ 0 →
    tagOf exRow (exRow.β 2 e) = some bdLeft) := by decide +kernel
  exact fun e _ he => this e he
example : ∃ m', run (clipWith exRow.n bdLeft bdRight false id) exRow = (.ok (), m') :=
  ⟨(run (clipWith exRow.n bdLeft bdRight false id) exRow).2,
   Prod.ext (by show (run (clipLeft exRow.n false) exRow).1 = .ok (); decide +kernel) rfl⟩
example : ∃ fs, run (markFaces exRow.n bdLeft bdRight) exRow = (.ok fs, exRow) := by
  rcases C16_markFaces_total exRow_wf (by decide) bdLeft bdRight with hh | hh
  · exact hh
  · have : (run (markFaces exRow.n bdLeft bdRight) exRow).1 ≠ .err errBetweenBoundary := by decide +kernel
    exact absurd (congrArg Prod.fst hh) this
example : (run (markFaces exRow.n bdLeft bdRight) (exRow.setA sBd 3 (some bdRight))).1 =
    .err errBetweenBoundary := by decide +kernel

end HC.C16
