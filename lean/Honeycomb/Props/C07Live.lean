/-
  C07 — "all threads terminate without … deadlock", at LOCK granularity.

  `fast-stm`'s `Transaction::commit` walks `self.vars`, a `BTreeMap` keyed by the address of the
  variable's control block: every thread takes its locks in ONE global order.  In the model
  (Model/StmProtoB.lean) this is the instance `ord := ordBy rank` of the lock-order parameter,
  for an injective `rank : Var → Nat`.  For that instance:

    * `LockOrd` — inside `commit()` the variables still to lock are sorted and every variable
      already held ranks below all of them — is an invariant (`stepO_lockOrd`, `exec_lockOrd`);
    * in every reachable state in which some thread still has a transaction to run, some such
      thread is NOT waiting for a lock (`C07_no_deadlock_B`): the holder of the lock a blocked
      thread waits for is itself inside `commit()`, and if it is blocked too it waits for a
      variable of strictly larger rank; ranks of awaited variables are bounded, so the chain ends
      in a thread that can move.

  What this does not say (named in the evidence): termination of the retry loop under a fair
  scheduler (livelock freedom), and the behaviour of parking_lot's lock queues (a reader queued
  behind a waiting writer) — both are runtime behaviour outside the protocol model; the schedule
  explorer on the real code (harness-sched) reports any schedule that stops making progress.
-/
import Honeycomb.Props.C07B

set_option linter.unusedSectionVars false
set_option linter.unusedVariables false
set_option linter.unusedSimpArgs false

namespace HC.C07Live
open HC HC.Proto HC.ProtoB HC.C07B

variable {Var Val ε α : Type} [DecidableEq Var] [DecidableEq α]

/-- insertion of `a` into a list sorted along `rank` -/
def ins (rank : Var → Nat) (a : Var) : List Var → List Var
  | [] => [a]
  | b :: l => if rank a ≤ rank b then a :: b :: l else b :: ins rank a l

/-- the lock order of the real code: the variables of the log sorted along `rank` (the address of
    the control block); insertion sort, so that it computes by structural recursion -/
def ordBy (rank : Var → Nat) (l : List Var) : List Var := l.foldr (ins rank) []

theorem mem_ins (rank : Var → Nat) (a x : Var) (l : List Var) : x ∈ ins rank a l ↔ x = a ∨ x ∈ l := by
  induction l with
  | nil => simp [ins]
  | cons b l ih =>
      unfold ins
      split
      · simp
      · simp only [List.mem_cons, ih]
        constructor
        · rintro (h | h | h)
          · exact Or.inr (Or.inl h)
          · exact Or.inl h
          · exact Or.inr (Or.inr h)
        · rintro (h | h | h)
          · exact Or.inr (Or.inl h)
          · exact Or.inl h
          · exact Or.inr (Or.inr h)

theorem sorted_ins (rank : Var → Nat) (a : Var) (l : List Var)
    (h : l.Pairwise (fun a b => rank a ≤ rank b)) : (ins rank a l).Pairwise (fun a b => rank a ≤ rank b) := by
  induction l with
  | nil => simp [ins]
  | cons b l ih =>
      unfold ins
      obtain ⟨hb, hl⟩ := List.pairwise_cons.1 h
      split
      · rename_i hab
        refine List.pairwise_cons.2 ⟨?_, h⟩
        intro x hx
        rcases List.mem_cons.1 hx with rfl | hx
        · exact hab
        · have := hb x hx; omega
      · rename_i hab
        refine List.pairwise_cons.2 ⟨?_, ih hl⟩
        intro x hx
        rcases (mem_ins rank a x l).1 hx with rfl | hx
        · omega
        · exact hb x hx

theorem mem_ordBy (rank : Var → Nat) (l : List Var) (v : Var) (h : v ∈ l) : v ∈ ordBy rank l := by
  induction l with
  | nil => cases h
  | cons b l ih =>
      show v ∈ ins rank b (ordBy rank l)
      rw [mem_ins]
      rcases List.mem_cons.1 h with rfl | h
      · exact Or.inl rfl
      · exact Or.inr (ih h)

theorem sorted_ordBy (rank : Var → Nat) (l : List Var) :
    (ordBy rank l).Pairwise (fun a b => rank a ≤ rank b) := by
  induction l with
  | nil => exact List.Pairwise.nil
  | cons b l ih => exact sorted_ins rank b _ ih

/-- safety holds for this order (it loses no variable) -/
theorem C07_serializable_sorted (rank : Var → Nat) (init : Var → Val)
    (progs : List (List (Prog Var Val ε α))) (sched : List Nat) :
    replay ((SysB.init init progs).exec (ordBy rank) sched).commits init =
      some (vals ((SysB.init init progs).exec (ordBy rank) sched).store) :=
  C07_serializable_B (ordBy rank) (mem_ordBy rank) init progs sched

/-! ## the lock-order invariant -/

/-- thread `u` inside `commit()`: it still has a transaction to run, the variables still to lock
    are sorted, and what it holds ranks below all of them -/
def Good (rank : Var → Nat) (u : ThreadB Var Val ε α) : Prop :=
  ∀ todo held, u.ph = some (todo, held) →
    u.th.todo ≠ [] ∧ todo.Pairwise (fun a b => rank a ≤ rank b) ∧ ∀ h ∈ held, ∀ t ∈ todo, rank h ≤ rank t

def LockOrd (rank : Var → Nat) (s : SysB Var Val ε α) : Prop := ∀ u ∈ s.threads, Good rank u

theorem good_none (rank : Var → Nat) (t : Thread Var Val ε α) :
    Good rank ({ th := t, ph := none } : ThreadB Var Val ε α) := by
  intro todo held hp; cases hp

theorem lockOrd_set {rank : Var → Nat} {s : SysB Var Val ε α} (h : LockOrd rank s) (i : Nat)
    (tb' : ThreadB Var Val ε α) (hg : Good rank tb') (st : VStore Var Val)
    (cs : List (Nat × Prog Var Val ε α × α)) :
    LockOrd rank { store := st, threads := s.threads.set i tb', commits := cs } := by
  intro u hu
  rcases List.mem_or_eq_of_mem_set hu with hu | rfl
  · exact h u hu
  · exact hg

theorem stepO_lockOrd (rank : Var → Nat) (s : SysB Var Val ε α) (i : Nat) (h : LockOrd rank s) :
    LockOrd rank (s.step (ordBy rank) i) := by
  unfold SysB.step
  match hti : s.threads[i]? with
  | none => exact h
  | some tb =>
    have htm : tb ∈ s.threads := List.mem_of_getElem? hti
    have hg := h tb htm
    simp only
    match htd : tb.th.todo with
    | [] => exact h
    | p0 :: rest =>
      simp only
      match hph : tb.ph with
      | none =>
          simp only
          match hpc : tb.th.att.pc with
          | .ret a =>
              simp only
              apply lockOrd_set h
              intro todo held hp
              simp only [Option.some.injEq, Prod.mk.injEq] at hp
              obtain ⟨rfl, rfl⟩ := hp
              refine ⟨by rw [htd]; exact List.cons_ne_nil _ _, sorted_ordBy rank _, ?_⟩
              intro x hx; cases hx
          | .read v k =>
              simp only
              split
              · exact h
              · apply lockOrd_set h
                intro todo held hp
                cases hp
          | .write v x k =>
              simp only
              apply lockOrd_set h
              intro todo held hp
              cases hp
          | .abort e =>
              simp only
              apply lockOrd_set h
              intro todo held hp
              cases hp
          | .retry =>
              simp only
              apply lockOrd_set h
              intro todo held hp
              cases hp
          | .panic =>
              simp only
              apply lockOrd_set h
              intro todo held hp
              cases hp
      | some (v :: todo, held) =>
          obtain ⟨hne, hsorted, hlow⟩ := hg _ _ hph
          have hskip : Good rank ({ tb with ph := some (todo, held) } : ThreadB Var Val ε α) := by
            intro todo' held' hp
            simp only [Option.some.injEq, Prod.mk.injEq] at hp
            obtain ⟨rfl, rfl⟩ := hp
            exact ⟨hne, (List.pairwise_cons.1 hsorted).2,
              fun x hx t ht => hlow x hx t (List.mem_cons_of_mem _ ht)⟩
          have hlock : Good rank ({ tb with ph := some (todo, v :: held) } : ThreadB Var Val ε α) := by
            intro todo' held' hp
            simp only [Option.some.injEq, Prod.mk.injEq] at hp
            obtain ⟨rfl, rfl⟩ := hp
            refine ⟨hne, (List.pairwise_cons.1 hsorted).2, ?_⟩
            intro x hx t ht
            rcases List.mem_cons.1 hx with rfl | hx
            · exact (List.pairwise_cons.1 hsorted).1 t ht
            · exact hlow x hx t (List.mem_cons_of_mem _ ht)
          simp only
          by_cases hc : held.contains v = true
          · rw [if_pos hc]; exact lockOrd_set h i _ hskip _ _
          · rw [if_neg hc]
            by_cases hw : wrote tb.th v = true
            · rw [if_pos hw]
              by_cases ho : otherHolds s i v = true
              · rw [if_pos ho]; exact h
              · rw [if_neg ho]
                by_cases hv : validAt tb.th s.store v = true
                · rw [if_pos hv]; exact lockOrd_set h i _ hlock _ _
                · rw [if_neg hv]; exact lockOrd_set h i _ (good_none rank _) _ _
            · rw [if_neg hw]
              by_cases ho : otherWriteHolds s i v = true
              · rw [if_pos ho]; exact h
              · rw [if_neg ho]
                by_cases hv : validAt tb.th s.store v = true
                · rw [if_pos hv]; exact lockOrd_set h i _ hlock _ _
                · rw [if_neg hv]; exact lockOrd_set h i _ (good_none rank _) _ _
      | some ([], held) =>
          simp only
          match hpc : tb.th.att.pc with
          | .ret a =>
              simp only
              exact lockOrd_set h i _ (good_none rank _) _ _
          | .read v k => simp only; exact h
          | .write v x k => simp only; exact h
          | .abort e => simp only; exact h
          | .retry => simp only; exact h
          | .panic => simp only; exact h

theorem exec_lockOrd (rank : Var → Nat) (sched : List Nat) :
    ∀ s : SysB Var Val ε α, LockOrd rank s → LockOrd rank (s.exec (ordBy rank) sched) := by
  induction sched with
  | nil => intro s h; exact h
  | cons i is ih => intro s h; exact ih _ (stepO_lockOrd rank s i h)

theorem init_lockOrd (rank : Var → Nat) (init : Var → Val) (progs : List (List (Prog Var Val ε α))) :
    LockOrd rank (SysB.init init progs) := by
  intro u hu
  simp only [SysB.init, List.mem_map] at hu
  obtain ⟨ps, _, rfl⟩ := hu
  intro todo held hp; cases hp

/-! ## who waits for what -/

/-- the variable whose lock thread `i` is waiting for: exactly the cases in which `SysB.step`
    answers "blocked" (a no-op) -/
def awaits (s : SysB Var Val ε α) (i : Nat) : Option Var :=
  match s.threads[i]? with
  | none => none
  | some tb =>
    match tb.th.todo with
    | [] => none
    | _ :: _ =>
    match tb.ph with
    | none =>
        match tb.th.att.pc with
        | .read v _ =>
            if (tb.th.att.toLog.lastWrite v).isNone && (tb.th.att.toLog.firstRead v).isNone
                && otherWriteHolds s i v then some v else none
        | _ => none
    | some (v :: _, held) =>
        if held.contains v then none
        else if wrote tb.th v then (if otherHolds s i v then some v else none)
        else (if otherWriteHolds s i v then some v else none)
    | some ([], _) => none

/-- thread `i` still has a transaction to run -/
def unfinished (s : SysB Var Val ε α) (i : Nat) : Prop :=
  ∃ tb, s.threads[i]? = some tb ∧ tb.th.todo ≠ []

theorem otherHolds_true {s : SysB Var Val ε α} {i : Nat} {v : Var} (h : otherHolds s i v = true) :
    ∃ j u, j ≠ i ∧ s.threads[j]? = some u ∧ heldBy u v = true := by
  unfold otherHolds at h
  rw [List.any_eq_true] at h
  obtain ⟨j, _, hj⟩ := h
  simp only [Bool.and_eq_true, bne_iff_ne, ne_eq, decide_eq_true_eq] at hj
  match hu : s.threads[j]? with
  | none => rw [hu] at hj; exact absurd hj.2 (by simp)
  | some u => rw [hu] at hj; exact ⟨j, u, by simpa using hj.1, hu, hj.2⟩

theorem otherWriteHolds_true {s : SysB Var Val ε α} {i : Nat} {v : Var} (h : otherWriteHolds s i v = true) :
    ∃ j u, j ≠ i ∧ s.threads[j]? = some u ∧ heldBy u v = true := by
  unfold otherWriteHolds at h
  rw [List.any_eq_true] at h
  obtain ⟨j, _, hj⟩ := h
  simp only [Bool.and_eq_true, bne_iff_ne, ne_eq, decide_eq_true_eq] at hj
  match hu : s.threads[j]? with
  | none => rw [hu] at hj; exact absurd hj.2 (by simp)
  | some u =>
      rw [hu] at hj
      simp only [Bool.and_eq_true] at hj
      exact ⟨j, u, by simpa using hj.1, hu, hj.2.1⟩

/-- a thread that waits for `v` waits for a lock held by ANOTHER thread -/
theorem awaits_held {s : SysB Var Val ε α} {i : Nat} {v : Var} (h : awaits s i = some v) :
    ∃ j u, j ≠ i ∧ s.threads[j]? = some u ∧ heldBy u v = true := by
  unfold awaits at h
  match hti : s.threads[i]? with
  | none => rw [hti] at h; cases h
  | some tb =>
    rw [hti] at h
    simp only at h
    match htd : tb.th.todo with
    | [] => rw [htd] at h; cases h
    | p0 :: rest =>
      rw [htd] at h
      simp only at h
      match hph : tb.ph with
      | none =>
          rw [hph] at h
          simp only at h
          match hpc : tb.th.att.pc with
          | .read w k =>
              rw [hpc] at h
              simp only at h
              split at h
              · rename_i hc
                simp only [Option.some.injEq] at h; subst h
                simp only [Bool.and_eq_true] at hc
                exact otherWriteHolds_true hc.2
              · cases h
          | .ret a => rw [hpc] at h; cases h
          | .write w x k => rw [hpc] at h; cases h
          | .abort e => rw [hpc] at h; cases h
          | .retry => rw [hpc] at h; cases h
          | .panic => rw [hpc] at h; cases h
      | some (w :: todo, held) =>
          rw [hph] at h
          simp only at h
          split at h
          · cases h
          · split at h
            · split at h
              · rename_i ho
                simp only [Option.some.injEq] at h; subst h
                exact otherHolds_true ho
              · cases h
            · split at h
              · rename_i ho
                simp only [Option.some.injEq] at h; subst h
                exact otherWriteHolds_true ho
              · cases h
      | some ([], held) => rw [hph] at h; cases h

/-- a thread inside `commit()` that waits for `w` holds only variables of strictly smaller rank -/
theorem awaits_rank {rank : Var → Nat} (hinj : ∀ a b, rank a = rank b → a = b)
    {s : SysB Var Val ε α} (hord : LockOrd rank s) {j : Nat} {u : ThreadB Var Val ε α}
    (hj : s.threads[j]? = some u) {v w : Var} (hv : heldBy u v = true) (hw : awaits s j = some w) :
    rank v < rank w := by
  have hum : u ∈ s.threads := List.mem_of_getElem? hj
  unfold awaits at hw
  rw [hj] at hw
  simp only at hw
  match htd : u.th.todo with
  | [] => rw [htd] at hw; cases hw
  | p0 :: rest =>
    rw [htd] at hw
    simp only at hw
    match hph : u.ph with
    | none => simp [heldBy, hph] at hv
    | some ([], held) => rw [hph] at hw; cases hw
    | some (x :: todo, held) =>
        rw [hph] at hw
        simp only at hw
        have hvh : v ∈ held := by simpa [heldBy, hph] using hv
        obtain ⟨_, _, hlow⟩ := hord u hum _ _ hph
        split at hw
        · cases hw
        · rename_i hc
          have hxw : x = w := by
            split at hw
            · split at hw
              · simpa using hw
              · cases hw
            · split at hw
              · simpa using hw
              · cases hw
          subst hxw
          have hle := hlow v hvh x (List.mem_cons_self)
          have hne : v ≠ x := by
            intro hh; subst hh
            exact hc (by simpa using hvh)
          have : rank v ≠ rank x := fun hh => hne (hinj _ _ hh)
          omega

theorem exists_bound (f : Nat → Nat) (n : Nat) : ∃ B, ∀ j, j < n → f j ≤ B := by
  induction n with
  | zero => exact ⟨0, fun j hj => absurd hj (Nat.not_lt_zero _)⟩
  | succ n ih =>
      obtain ⟨B, hB⟩ := ih
      refine ⟨max B (f n), ?_⟩
      intro j hj
      by_cases h : j < n
      · have := hB j h; omega
      · have : j = n := by omega
        subst this; omega

/-- **C07, no deadlock (lock granularity)**: in every state satisfying the lock-order invariant in
    which some thread still has a transaction to run, some such thread is not waiting for a lock -/
theorem no_deadlock_of_lockOrd {rank : Var → Nat} (hinj : ∀ a b, rank a = rank b → a = b)
    (s : SysB Var Val ε α) (hord : LockOrd rank s) (i : Nat) (hi : unfinished s i) :
    ∃ j, unfinished s j ∧ awaits s j = none := by
  -- a bound on the ranks of all awaited variables
  obtain ⟨B, hB⟩ := exists_bound (fun j => match awaits s j with | some w => rank w | none => 0) s.threads.length
  have hBw : ∀ j w, awaits s j = some w → rank w ≤ B := by
    intro j w hw
    have hlt : j < s.threads.length := by
      unfold awaits at hw
      match hj : s.threads[j]? with
      | none => rw [hj] at hw; cases hw
      | some u => exact lt_of_getElem? hj
    have := hB j hlt
    simp only [hw] at this
    exact this
  -- the chain argument, by induction on the distance of the awaited rank to the bound
  have chain : ∀ n j w, unfinished s j → awaits s j = some w → B - rank w ≤ n →
      ∃ k, unfinished s k ∧ awaits s k = none := by
    intro n
    induction n with
    | zero =>
        intro j w _ hw hn
        obtain ⟨k, u, _, hk, hheld⟩ := awaits_held hw
        have huf : unfinished s k := by
          refine ⟨u, hk, ?_⟩
          match hph : u.ph with
          | none => simp [heldBy, hph] at hheld
          | some (todo, held) => exact (hord u (List.mem_of_getElem? hk) _ _ hph).1
        match hk2 : awaits s k with
        | none => exact ⟨k, huf, hk2⟩
        | some w2 =>
            have := awaits_rank hinj hord hk hheld hk2
            have := hBw k w2 hk2
            omega
    | succ n ih =>
        intro j w _ hw hn
        obtain ⟨k, u, _, hk, hheld⟩ := awaits_held hw
        have huf : unfinished s k := by
          refine ⟨u, hk, ?_⟩
          match hph : u.ph with
          | none => simp [heldBy, hph] at hheld
          | some (todo, held) => exact (hord u (List.mem_of_getElem? hk) _ _ hph).1
        match hk2 : awaits s k with
        | none => exact ⟨k, huf, hk2⟩
        | some w2 =>
            have h1 := awaits_rank hinj hord hk hheld hk2
            have h2 := hBw k w2 hk2
            exact ih k w2 huf hk2 (by omega)
  match hw : awaits s i with
  | none => exact ⟨i, hi, hw⟩
  | some w => exact chain (B - rank w) i w hi hw (Nat.le_refl _)

/-- **C07, no deadlock, every reachable state**: whatever the programs, the schedule and the
    (injective) address order, as long as some thread has a transaction left, some such thread is
    not blocked on a lock -/
theorem C07_no_deadlock_B (rank : Var → Nat) (hinj : ∀ a b, rank a = rank b → a = b)
    (init : Var → Val) (progs : List (List (Prog Var Val ε α))) (sched : List Nat) (i : Nat)
    (hi : unfinished ((SysB.init init progs).exec (ordBy rank) sched) i) :
    ∃ j, unfinished ((SysB.init init progs).exec (ordBy rank) sched) j ∧
      awaits ((SysB.init init progs).exec (ordBy rank) sched) j = none :=
  no_deadlock_of_lockOrd hinj _ (exec_lockOrd rank sched _ (init_lockOrd rank init progs)) i hi

/-- a thread that is not waiting and sits at the end of `commit()` really commits: its program
    counter is a `ret` (safety invariant), so the step publishes and records the commit -/
theorem C07_commit_step_is_effective (ord : List Var → List Var) (hord : ∀ l v, v ∈ l → v ∈ ord l)
    (init : Var → Val) (progs : List (List (Prog Var Val ε α))) (sched : List Nat)
    (i : Nat) (tb : ThreadB Var Val ε α) (held : List Var)
    (hi : ((SysB.init init progs).exec ord sched).threads[i]? = some tb) (hph : tb.ph = some ([], held)) :
    ∃ a, tb.th.att.pc = .ret a :=
  ((execB_inv ord hord init sched _ (initB_inv init progs)).com i tb hi _ _ hph).pc

/-! ## non-vacuity -/

/-- the lock order matters: with the SAME two programs (x := 1; y := 1 written in opposite orders)
    and the schedule that lets each thread take its first lock, the unsorted protocol (`ord := id`,
    each thread locks in the order of its own log) reaches a state in which BOTH threads wait —
    a deadlock — while the sorted protocol does not -/
def wxy : Prog Nat Nat Unit Unit := .write 0 1 (.write 1 1 (.ret ()))
def wyx : Prog Nat Nat Unit Unit := .write 1 1 (.write 0 1 (.ret ()))

def dlSched : List Nat := [0, 0, 1, 1, 0, 1, 0, 1]

example : awaits ((SysB.init (fun _ => (0 : Nat)) [[wxy], [wyx]]).exec id dlSched) 0 ≠ none ∧
    awaits ((SysB.init (fun _ => (0 : Nat)) [[wxy], [wyx]]).exec id dlSched) 1 ≠ none := by decide

example : awaits ((SysB.init (fun _ => (0 : Nat)) [[wxy], [wyx]]).exec (ordBy id) dlSched) 0 = none := by
  decide

/-- and blocking does happen in the sorted protocol: thread 1 waits for the lock thread 0 holds -/
example : awaits ((SysB.init (fun _ => (0 : Nat)) [[wxy], [wyx]]).exec (ordBy id) dlSched) 1 = some 0 := by
  decide

end HC.C07Live
