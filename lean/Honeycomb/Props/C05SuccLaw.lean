/-
  C05 — unsews with ARBITRARY attribute laws (user storages whose `split` can fail).

  Outcomes of an unsew, per storage law:
  * `forM_split_run`: a `split_attributes` over a list of storages returns `Ok` as soon as every law
    call succeeds on the value found at the identifier split from (no law is called when the two
    output identifiers coincide: the value only moves); `forM_split_err`: if one law call fails the
    loop returns that storage's error (the storages before it already written: the enclosing
    transaction aborts and nothing is committed — C06).
  * `C05_oneUnsew3_succeeds_law`, `C05_twoUnsew3_succeeds_law`, `C05_threeUnsew3_succeeds_law`: the
    success case with the split laws as parameters: on a well-formed mirrored map the 1-unsew (2-unsew
    and 3-unsew on closed faces, under the property's proviso) returns `Ok` when every vertex (edge,
    face) storage law splits the value held at the old cell identifier — the cell minimum, in the map
    BEFORE the call, that the `*_cells` theorems identify; the result is then described at cell level
    by `C05_oneUnsew3_cells` / `C05_twoUnsew3_cells` / `C05_threeUnsew3_cells` + `unsewn_cells`
    (`SplitIn`: the two new identifiers hold the two halves of `split` of the old value, in every
    storage).  Under the proviso no law call reads a value written earlier in the same call
    (`unsewLoop_run_law`), which is why a hypothesis on the starting map suffices.
    Conversely an `Ok` run implies that every law call made succeeded (`SplitIn.split`), and the
    examples show the refusal (`InsufficientData`) when a default law meets an undefined value.
-/
import Honeycomb.Props.C05Cells3

set_option linter.unusedSimpArgs false
set_option linter.unusedVariables false

namespace HC.C05
open HC HC.CellCalc HC.Cell3
open HC.C04 (vStores eStores)
variable {X : Type}

theorem okA_of {m : Map X} (h : WF 4 m) {t v : Nat} (ht : t < m.a.size) (hv : v < m.n) : m.okA t v = true := by
  unfold Map.okA
  have := h.asz t ht
  simp only [ht, decide_true, Bool.true_and, decide_eq_true_eq]
  omega

/-- the law calls of a `split` over the storages `ss` at `inp` all succeed -/
def SplitOK (cfg : Cfg X) (ss : List Nat) (inp : Nat) (m : Map X) : Prop :=
  ∀ s, s ∈ ss → ∃ a b, splitVal (cfg.law s) (m.att s inp) = .ok (a, b)

/-- **`split_attributes` succeeds when every law call does** -/
theorem forM_split_run (cfg : Cfg X) (lo ro inp : Nat) :
    ∀ (ss : List Nat) (m : Map X), ss.Nodup → m.fc = 0 →
      (∀ s, s ∈ ss → m.okA s inp = true ∧ m.okA s lo = true ∧ m.okA s ro = true) →
      (lo ≠ ro → SplitOK cfg ss inp m) →
      ∃ m', run (forM_ ss (fun s => splitS cfg s lo ro inp)) m = (.ok (), m') ∧ SplitIn cfg ss lo ro inp m m' := by
  intro ss
  induction ss with
  | nil =>
      intro m _ hfc _ _
      have : run (forM_ ([] : List Nat) (fun s => splitS cfg s lo ro inp)) m = (.ok (), m) := rfl
      exact ⟨m, this, forM_split_ok cfg lo ro inp [] m m () (by simp) hfc this⟩
  | cons s rest ih =>
      intro m hnd hfc hok hsp
      obtain ⟨hi, hl, hr⟩ := hok s (by simp)
      have hstep : ∃ m1, run (splitS cfg s lo ro inp) m = (.ok (), m1) := by
        by_cases c : lo = ro
        · subst c; exact ⟨_, splitS_run_move cfg s lo inp m hi hl⟩
        · obtain ⟨a, b, hab⟩ := hsp c s (by simp)
          refine ⟨m.splitAt s lo ro inp a b, ?_⟩
          rw [splitS_run cfg s lo ro inp m hfc c hi hl hr, hab]
      obtain ⟨m1, h1⟩ := hstep
      obtain ⟨st, fc1, oth, _⟩ := splitS_step cfg s lo ro inp m m1 () hfc h1
      have hnd' := List.nodup_cons.1 hnd
      obtain ⟨m', h2, _⟩ := ih m1 hnd'.2 (by rw [fc1]; exact hfc)
        (fun t ht => by
          obtain ⟨a1, a2, a3⟩ := hok t (List.mem_cons_of_mem _ ht)
          exact ⟨by rw [st.okA]; exact a1, by rw [st.okA]; exact a2, by rw [st.okA]; exact a3⟩)
        (fun c t ht => by
          have : t ≠ s := fun hh => hnd'.1 (hh ▸ ht)
          rw [oth t inp this]
          exact hsp c t (List.mem_cons_of_mem _ ht))
      have hrun : run (forM_ (s :: rest) (fun s => splitS cfg s lo ro inp)) m = (.ok (), m') := by
        show run ((splitS cfg s lo ro inp).bind fun _ => forM_ rest (fun s => splitS cfg s lo ro inp)) m = _
        rw [run_bind_of_ok h1]; exact h2
      exact ⟨m', hrun, forM_split_ok cfg lo ro inp _ m m' () hnd hfc hrun⟩

/-- **`split_attributes` fails when one law call does**: the error of the first failing storage -/
theorem forM_split_err (cfg : Cfg X) (lo ro inp : Nat) (hlr : lo ≠ ro) :
    ∀ (ss : List Nat) (m : Map X), ss.Nodup → m.fc = 0 →
      (∀ s, s ∈ ss → m.okA s inp = true ∧ m.okA s lo = true ∧ m.okA s ro = true) →
      (∃ s, s ∈ ss ∧ ∃ e, splitVal (cfg.law s) (m.att s inp) = .error e) →
      ∃ e m', run (forM_ ss (fun s => splitS cfg s lo ro inp)) m = (.err e, m') := by
  intro ss
  induction ss with
  | nil => intro m _ _ _ h; obtain ⟨s, hs, _⟩ := h; simp at hs
  | cons s rest ih =>
      intro m hnd hfc hok hbad
      obtain ⟨hi, hl, hr⟩ := hok s (by simp)
      have hrs := splitS_run cfg s lo ro inp m hfc hlr hi hl hr
      cases hv : splitVal (cfg.law s) (m.att s inp) with
      | error e =>
          rw [hv] at hrs
          refine ⟨e, m, ?_⟩
          show run ((splitS cfg s lo ro inp).bind fun _ => forM_ rest (fun s => splitS cfg s lo ro inp)) m = _
          rw [run_bind, hrs]
      | ok ab =>
          obtain ⟨a, b⟩ := ab
          rw [hv] at hrs
          have h1 : run (splitS cfg s lo ro inp) m = (.ok (), m.splitAt s lo ro inp a b) := hrs
          obtain ⟨st, fc1, oth, _⟩ := splitS_step cfg s lo ro inp m _ () hfc h1
          have hnd' := List.nodup_cons.1 hnd
          obtain ⟨t, ht, e, he⟩ := hbad
          have hts : t ∈ rest := by
            rcases List.mem_cons.1 ht with rfl | h'
            · rw [hv] at he; cases he
            · exact h'
          have hne : t ≠ s := fun hh => hnd'.1 (hh ▸ hts)
          obtain ⟨e', m', h2⟩ := ih _ hnd'.2 (by rw [fc1]; exact hfc)
            (fun t ht => by
              obtain ⟨a1, a2, a3⟩ := hok t (List.mem_cons_of_mem _ ht)
              exact ⟨by rw [st.okA]; exact a1, by rw [st.okA]; exact a2, by rw [st.okA]; exact a3⟩)
            ⟨t, hts, e, by rw [oth t inp hne]; exact he⟩
          refine ⟨e', m', ?_⟩
          show run ((splitS cfg s lo ro inp).bind fun _ => forM_ rest (fun s => splitS cfg s lo ro inp)) m = _
          rw [run_bind_of_ok h1]; exact h2


/-- one storage: `split` returns `Ok` when its law call succeeds (or is not made) -/
theorem splitS_total (cfg : Cfg X) (s lo ro inp : Nat) (m : Map X) (hfc : m.fc = 0)
    (hi : m.okA s inp = true) (hl : m.okA s lo = true) (hr : m.okA s ro = true)
    (hsp : lo ≠ ro → ∃ a b, splitVal (cfg.law s) (m.att s inp) = .ok (a, b)) :
    ∃ m1, run (splitS cfg s lo ro inp) m = (.ok (), m1) ∧ SameTopo m m1 ∧ m1.fc = 0 ∧
      (∀ t e, t ≠ s → m1.att t e = m.att t e) ∧
      (∀ e, e ≠ lo → e ≠ ro → e ≠ inp → m1.att s e = m.att s e) := by
  have hstep : ∃ m1, run (splitS cfg s lo ro inp) m = (.ok (), m1) := by
    by_cases c : lo = ro
    · subst c; exact ⟨_, splitS_run_move cfg s lo inp m hi hl⟩
    · obtain ⟨a, b, hab⟩ := hsp c
      refine ⟨m.splitAt s lo ro inp a b, ?_⟩
      rw [splitS_run cfg s lo ro inp m hfc c hi hl hr, hab]
  obtain ⟨m1, h1⟩ := hstep
  obtain ⟨st, fc1, oth, fr, _⟩ := splitS_step cfg s lo ro inp m m1 () hfc h1
  exact ⟨m1, h1, st, by rw [fc1]; exact hfc, oth, fr⟩

/-- **C05, 1-unsew succeeds, arbitrary laws**: on a well-formed mirrored 3-map, the 1-unsew of a
    1-sewn dart not 3-linked to its own successor returns `Ok` when every vertex storage law splits
    the value held at the identifier (= cell minimum) of the vertex of `β1 l`.  The result is then
    described by `C05_oneUnsew3_cells`. -/
theorem C05_oneUnsew3_succeeds_law (cfg : Cfg X) (m : Map X) (l : Nat) (hw : WF 4 m) (hM : Mirror m)
    (hfc : m.fc = 0) (hst : ∀ t, t ∈ vStores cfg → t < m.a.size)
    (hl : C02.InUse m l) (hsewn : m.β 1 l ≠ 0) (hadj : m.β 3 l ≠ m.β 1 l)
    (hsplit : ∀ v, IsVid3 m (m.β 1 l) v → SplitOK cfg (vStores cfg) v m) :
    ∃ m', run (oneUnsew3 cfg m.n l) m = (.ok (), m') := by
  obtain ⟨hl0, hln, hlu⟩ := hl
  have ir := hw.image_inUse (i := 1) (by omega) hln hsewn
  have ok : ∀ i x, i < 4 → x < m.n → m.okβ i x = true := fun i x hi hx => hw.okβ4 hi hx
  obtain ⟨vold, hvold, svold, vold0, voldn⟩ := vid_run hw rfl hsewn ir.1
  obtain ⟨m1, hunl⟩ := oneUnlink3_run hw hM hln hsewn hadj
  obtain ⟨hw1, ho, hM1⟩ := oneUnlink3_ok hw hln hunl
  have hn1 : m1.n = m.n := ho.n
  have ok1 : ∀ i x, i < 4 → x < m.n → m1.okβ i x = true := fun i x hi hx => hw1.okβ4 hi (by rw [hn1]; exact hx)
  have e2 : m1.β 2 l = m.β 2 l := ho.β 2 l (by omega)
  have e3 : m1.β 3 l = m.β 3 l := ho.β 3 l (by omega)
  have start : ∀ m', run (do
      let b2l ← rB 2 l
      let b3l ← rB 3 l
      if b2l = 0 ∧ b3l = 0 then pure () else
      let vl ← vertexId3 m.n (if b2l ≠ 0 then b2l else b3l)
      let vr ← vertexId3 m.n (m.β 1 l)
      if vl ≠ vr then do
        splitS cfg 0 vl vr vold
        splitAttrs cfg 0 vl vr vold
      else pure () : P X Unit) m1 = (.ok (), m') → run (oneUnsew3 cfg m.n l) m = (.ok (), m') := by
    intro m' h
    unfold oneUnsew3
    simp only [Prog.bind_eq, bind, run_rB, ok 1 l (by omega) hln, if_true]
    rw [run_bind_of_ok hvold, run_bind_of_ok hunl]
    exact h
  have fc1 : m1.fc = 0 := by rw [ho.fc]; exact hfc
  by_cases c : m.β 2 l = 0 ∧ m.β 3 l = 0
  · refine ⟨m1, ?_⟩
    apply start
    simp only [Prog.bind_eq, bind, run_rB, ok1 2 l (by omega) hln, ok1 3 l (by omega) hln, if_true, e2, e3,
      if_pos c]
    rfl
  · have hd0 : (if m.β 2 l ≠ 0 then m.β 2 l else m.β 3 l) ≠ 0 := by
      split
      · assumption
      · intro h3; exact c ⟨by omega, h3⟩
    have hdn : (if m.β 2 l ≠ 0 then m.β 2 l else m.β 3 l) < m1.n := by
      rw [hn1]; split
      · exact hw.range 2 (by omega) l hln
      · exact hw.range 3 (by omega) l hln
    obtain ⟨vl, hvl, svl, vl0, vln⟩ := vid_run hw1 hn1.symm hd0 hdn
    obtain ⟨vr, hvr, svr, vr0, vrn⟩ := vid_run hw1 hn1.symm hsewn (by rw [hn1]; exact ir.1)
    have pre : ∀ m', run (if vl ≠ vr then do
          splitS cfg 0 vl vr vold
          splitAttrs cfg 0 vl vr vold
        else pure () : P X Unit) m1 = (.ok (), m') → run (oneUnsew3 cfg m.n l) m = (.ok (), m') := by
      intro m' h
      apply start
      simp only [Prog.bind_eq, bind, run_rB, ok1 2 l (by omega) hln, ok1 3 l (by omega) hln, if_true, e2, e3,
        if_neg c]
      rw [run_bind_of_ok hvl, run_bind_of_ok hvr]
      exact h
    by_cases hv : vl ≠ vr
    · have hsz : ∀ t, t ∈ vStores cfg → t < m1.a.size := fun t ht => by rw [ho.a]; exact hst t ht
      obtain ⟨m', hrun, _⟩ := forM_split_run cfg vl vr vold (vStores cfg) m1 (C04.vStores_nodup cfg) fc1
        (fun t ht => ⟨okA_of hw1 (hsz t ht) (by rw [hn1]; exact voldn), okA_of hw1 (hsz t ht) vln,
          okA_of hw1 (hsz t ht) vrn⟩)
        (fun _ t ht => by
          have : m1.att t vold = m.att t vold := by unfold Map.att; rw [ho.a]
          rw [this]; exact hsplit vold svold t ht)
      refine ⟨m', ?_⟩
      apply pre
      rw [if_pos hv]
      exact hrun
    · refine ⟨m1, ?_⟩
      apply pre; rw [if_neg hv]; rfl


theorem mem_storagesOf {cfg : Cfg X} {k s : Nat} (h : s ∈ storagesOf cfg k) : s ≠ 0 ∧ cfg.kinds.getD s 4 = k := by
  unfold storagesOf at h
  simpa using (List.mem_filter.1 h).2

theorem vStores_not_eStores {cfg : Cfg X} {t : Nat} (h : t ∈ vStores cfg) : t ∉ eStores cfg := by
  intro he
  obtain ⟨e0, ek⟩ := mem_storagesOf (show t ∈ storagesOf cfg 1 from he)
  rcases List.mem_cons.1 (show t ∈ 0 :: storagesOf cfg 0 from h) with rfl | h'
  · exact e0 rfl
  · have := (mem_storagesOf h').2
    rw [ek] at this
    exact absurd this (by decide)

/-- **C05, 2-unsew succeeds, arbitrary laws** (closed faces: both darts have a successor; the
    property's proviso: the end points of the edge are four different vertex incidences afterwards):
    the call returns `Ok` when every edge storage law splits the value at the old edge identifier
    and every vertex storage law splits the values at the two old vertex identifiers (cell minima).
    The result is then described by `C05_twoUnsew3_cells`. -/
theorem C05_twoUnsew3_succeeds_law (cfg : Cfg X) (m : Map X) (l : Nat) (hw : WF 4 m) (hfc : m.fc = 0)
    (hstV : ∀ t, t ∈ vStores cfg → t < m.a.size) (hstE : ∀ t, t ∈ eStores cfg → t < m.a.size)
    (hl : C02.InUse m l) (hsewn : m.β 2 l ≠ 0) (hbl : m.β 1 l ≠ 0) (hbr : m.β 1 (m.β 2 l) ≠ 0)
    (hfar : Far (SameCell (g3v (m.unlinkI 2 l)) m.n) (l, m.β 1 (m.β 2 l)) (m.β 2 l, m.β 1 l))
    (hsplitE : ∀ e, IsEid3 m l e → SplitOK cfg (eStores cfg) e m)
    (hsplitL : ∀ v, IsVid3 m l v → SplitOK cfg (vStores cfg) v m)
    (hsplitR : ∀ v, IsVid3 m (m.β 2 l) v → SplitOK cfg (vStores cfg) v m) :
    ∃ m', run (twoUnsew3 cfg m.n l) m = (.ok (), m') := by
  obtain ⟨hl0, hln, hlu⟩ := hl
  have ir := hw.image_inUse (i := 2) (by omega) hln hsewn
  have hrn := ir.1
  have han : m.β 1 (m.β 2 l) < m.n := hw.range 1 (by omega) _ hrn
  have hbn : m.β 1 l < m.n := hw.range 1 (by omega) l hln
  have ok : ∀ i x, i < 4 → x < m.n → m.okβ i x = true := fun i x hi hx => hw.okβ4 hi hx
  have hw1 : WF 4 (m.unlinkI 2 l) := hw.unlinkI (by omega) (by omega) hln hsewn
  have hn1 : (m.unlinkI 2 l).n = m.n := rfl
  have attU : ∀ t e, (m.unlinkI 2 l).att t e = m.att t e := fun _ _ => rfl
  have fc1 : (m.unlinkI 2 l).fc = 0 := hfc
  -- identifiers before / after the unlink
  obtain ⟨eold, heold, seold⟩ := eid_run hw rfl hl0 hln
  obtain ⟨lvold, hlvold, slvold, lvold0, lvoldn⟩ := vid_run hw rfl hl0 hln
  obtain ⟨rvold, hrvold, srvold, rvold0, rvoldn⟩ := vid_run hw rfl hsewn hrn
  obtain ⟨enl, henl, senl⟩ := eid_run hw1 hn1.symm hl0 hln
  obtain ⟨enr, henr, senr⟩ := eid_run hw1 hn1.symm hsewn hrn
  have enln : enl < m.n := by have := senl.2 l (.refl _) hl0; omega
  have enrn : enr < m.n := by have := senr.2 _ (.refl _) hsewn; omega
  have eoldn : eold < m.n := by have := seold.2 l (.refl _) hl0; omega
  -- the edge split
  obtain ⟨me, hE, sE⟩ := forM_split_run cfg enl enr eold (eStores cfg) (m.unlinkI 2 l) (C04.eStores_nodup cfg) fc1
    (fun t ht => ⟨okA_of hw1 (hstE t ht) eoldn, okA_of hw1 (hstE t ht) enln, okA_of hw1 (hstE t ht) enrn⟩)
    (fun _ t ht => by rw [attU]; exact hsplitE eold seold t ht)
  have ste : SameTopo (m.unlinkI 2 l) me := sE.topo
  have wme : WF 4 me := hw1.sameTopo ste
  have nme : me.n = m.n := ste.n
  have fce : me.fc = 0 := by rw [sE.fc]; exact fc1
  have attE : ∀ t e, t ∈ vStores cfg → me.att t e = m.att t e := fun t e ht => by
    rw [sE.other t e (vStores_not_eStores ht), attU]
  -- the four new vertex identifiers
  obtain ⟨a, hra, sa0, a0, an⟩ := vid_run wme nme.symm hl0 (by rw [nme]; exact hln)
  obtain ⟨b, hrb, sb0, b0, bn⟩ := vid_run wme nme.symm hbr (by rw [nme]; exact han)
  obtain ⟨c, hrc, sc0, c0, cn⟩ := vid_run wme nme.symm hbl (by rw [nme]; exact hbn)
  obtain ⟨d, hrd, sd0, d0, dn⟩ := vid_run wme nme.symm hsewn (by rw [nme]; exact hrn)
  have sa := (isVid3_sameTopo ste _ _).1 sa0
  have sb := (isVid3_sameTopo ste _ _).1 sb0
  have sc := (isVid3_sameTopo ste _ _).1 sc0
  have sd := (isVid3_sameTopo ste _ _).1 sd0
  -- the old identifiers are the minima of the unions
  have eqV := sameCell_equiv (g3v (m.unlinkI 2 l)) m.n
  have hv := twoUnlink_cells hw hl0 hln hlu hsewn hbl hbr
  have hsep : [(l, m.β 1 (m.β 2 l)), (m.β 2 l, m.β 1 l)].Pairwise (Far (SameCell (g3v (m.unlinkI 2 l)) m.n)) :=
    pairwise_two hfar
  have elv : lvold = min a b :=
    IsMinOf.unique slvold (min_of_far (R1 := SameCell (g3v m) m.n) eqV hv hsep (x := (l, m.β 1 (m.β 2 l))) (by simp) sa sb) lvold0 (by omega)
  have erv : rvold = min d c :=
    IsMinOf.unique srvold (min_of_far (R1 := SameCell (g3v m) m.n) eqV hv hsep (x := (m.β 2 l, m.β 1 l)) (by simp) sd sc) rvold0 (by omega)
  obtain ⟨n1, n2, n3, n4⟩ := far_to_disj (m := m.unlinkI 2 l) (p := (a, b)) (p' := (d, c)) hfar sa sb sd sc
  simp only at n1 n2 n3 n4
  have szV : ∀ s : Map X, SameTopo me s → ∀ t, t ∈ vStores cfg → ∀ v, v < m.n → s.okA t v = true := by
    intro s st t ht v hv'
    rw [st.okA, ste.okA]
    exact okA_of hw1 (hstV t ht) hv'
  rw [nme] at an bn cn dn
  have h0 : (0 : Nat) ∈ vStores cfg := by unfold vStores; simp
  have hU : ∀ t, t ∈ storagesOf cfg 0 → t ∈ vStores cfg := fun t ht => List.mem_cons_of_mem _ ht
  -- built-in vertices: (a, b) from lvold, then (c, d) from rvold
  obtain ⟨s1, h1, st1, fcs1, o1, f1⟩ := splitS_total cfg 0 a b lvold me fce
    (szV me (SameTopo.refl _) 0 h0 _ lvoldn) (szV me (SameTopo.refl _) 0 h0 _ an) (szV me (SameTopo.refl _) 0 h0 _ bn)
    (fun _ => by rw [attE 0 _ h0]; exact hsplitL lvold slvold 0 h0)
  obtain ⟨s2, h2, st2, fcs2, o2, f2⟩ := splitS_total cfg 0 c d rvold s1 fcs1
    (szV s1 st1 0 h0 _ rvoldn) (szV s1 st1 0 h0 _ cn) (szV s1 st1 0 h0 _ dn)
    (fun _ => by
      rw [f1 rvold (by omega) (by omega) (by omega), attE 0 _ h0]
      exact hsplitR rvold srvold 0 h0)
  -- user vertex storages
  have st02 := st1.trans st2
  obtain ⟨s3, h3, sS3⟩ := forM_split_run cfg a b lvold (storagesOf cfg 0) s2 (C04.storagesOf_nodup cfg 0) fcs2
    (fun t ht => ⟨szV s2 st02 t (hU t ht) _ lvoldn, szV s2 st02 t (hU t ht) _ an, szV s2 st02 t (hU t ht) _ bn⟩)
    (fun _ t ht => by
      have t0 := (mem_storagesOf ht).1
      rw [o2 t lvold t0, o1 t lvold t0, attE t _ (hU t ht)]
      exact hsplitL lvold slvold t (hU t ht))
  obtain ⟨s4, h4, _⟩ := forM_split_run cfg c d rvold (storagesOf cfg 0) s3 (C04.storagesOf_nodup cfg 0)
    (by rw [sS3.fc]; exact fcs2)
    (fun t ht => ⟨szV s3 (st02.trans sS3.topo) t (hU t ht) _ rvoldn, szV s3 (st02.trans sS3.topo) t (hU t ht) _ cn,
      szV s3 (st02.trans sS3.topo) t (hU t ht) _ dn⟩)
    (fun _ t ht => by
      have t0 := (mem_storagesOf ht).1
      rw [sS3.frame t rvold ht (by omega) (by omega) (by omega), o2 t rvold t0, o1 t rvold t0, attE t _ (hU t ht)]
      exact hsplitR rvold srvold t (hU t ht))
  refine ⟨s4, ?_⟩
  unfold twoUnsew3
  simp only [Prog.bind_eq, bind, run_rB, ok 2 l (by omega) hln, ok 1 l (by omega) hln, ok 1 _ (by omega) hrn,
    if_true]
  have c1 : ¬ (m.β 1 l = 0 ∧ m.β 1 (m.β 2 l) = 0) := fun hh => hbl hh.1
  rw [if_neg c1, if_neg hbl, if_neg hbr]
  rw [run_bind_of_ok heold, run_bind_of_ok hlvold, run_bind_of_ok hrvold,
    run_bind_of_ok (iUnlinkCore_run (ok 2 l (by omega) hln) hsewn (ok 2 _ (by omega) hrn)),
    run_bind_of_ok henl, run_bind_of_ok henr, run_bind_of_ok (show run (splitAttrs cfg 1 enl enr eold) _ = _ from hE),
    run_bind_of_ok hra, run_bind_of_ok hrb, run_bind_of_ok hrc, run_bind_of_ok hrd,
    run_bind_of_ok h1, run_bind_of_ok h2, run_bind_of_ok (show run (splitAttrs cfg 0 a b lvold) _ = _ from h3)]
  exact h4


/-! ## 3-unsew, arbitrary laws -/

theorem far_ids {R : Nat → Nat → Prop} (hR : Equivalence R) {x y : Nat × Nat} (hfar : Far R x y)
    {a b a' b' : Nat} (h1 : IsMinOf R x.1 a) (h2 : IsMinOf R x.2 b) (h1' : IsMinOf R y.1 a')
    (h2' : IsMinOf R y.2 b') : a ≠ a' ∧ a ≠ b' ∧ b ≠ a' ∧ b ≠ b' := by
  have key : ∀ p q v w, IsMinOf R p v → IsMinOf R q w → v = w → R p q :=
    fun p q v w hv hw e => hR.trans hv.1 (by rw [e]; exact hR.symm hw.1)
  exact ⟨fun e => hfar.1 (key _ _ _ _ h1 h1' e), fun e => hfar.2.1 (key _ _ _ _ h1 h2' e),
    fun e => hfar.2.2.1 (key _ _ _ _ h2 h1' e), fun e => hfar.2.2.2 (key _ _ _ _ h2 h2' e)⟩

theorem stores_disjoint {cfg : Cfg X} {k k' t : Nat} (hk : k ≠ k') (h : t ∈ storagesOf cfg k) :
    t ∉ storagesOf cfg k' := by
  intro h'
  have a := (mem_storagesOf h).2
  have b := (mem_storagesOf h').2
  rw [a] at b; exact hk b

theorem eStores_not_vStores {cfg : Cfg X} {t : Nat} (h : t ∈ eStores cfg) : t ∉ vStores cfg :=
  fun hv => vStores_not_eStores hv h

/-- the splitting loop of `three_unsew` runs to the end, arbitrary laws (closed faces; the
    property's proviso on edges and on vertices, in the order of the list): every law call is made
    on a value the loop has not written yet, so it suffices that the laws split the values of the
    STARTING state at the identifiers `min` of each pair -/
theorem unsewLoop_run_law {cfg : Cfg X} {m1 : Map X} (hw1 : WF 4 m1) :
    ∀ (zs : List (Nat × Nat)) (s : Map X), SameTopo m1 s → s.fc = 0 →
      (∀ t, t ∈ vStores cfg → t < s.a.size) → (∀ t, t ∈ eStores cfg → t < s.a.size) →
      (∀ lr, lr ∈ zs → lr.1 ≠ 0 ∧ lr.1 < m1.n ∧ lr.2 ≠ 0 ∧ lr.2 < m1.n ∧ m1.β 1 lr.1 ≠ 0 ∧ m1.β 0 lr.1 ≠ 0) →
      zs.Pairwise (Far (SameCell (g3e m1) m1.n)) →
      (pairsA m1 zs).Pairwise (Far (SameCell (g3v m1) m1.n)) →
      (∀ lr, lr ∈ zs → ∀ el er, IsEid3 m1 lr.1 el → IsEid3 m1 lr.2 er →
        SplitOK cfg (eStores cfg) (min el er) s) →
      (∀ lr, lr ∈ zs → ∀ v1 v2, IsVid3 m1 (m1.β 1 lr.1) v1 → IsVid3 m1 lr.2 v2 →
        SplitOK cfg (vStores cfg) (min v1 v2) s) →
      ∃ s', run (threeUnsewLoop cfg m1.n zs) s = (.ok (), s') ∧ SameTopo m1 s' := by
  intro zs
  induction zs with
  | nil => intro s st _ _ _ _ _ _ _ _; exact ⟨s, rfl, st⟩
  | cons p rest ih =>
      intro s st hfc hsV hsE hz hfE hfV hoE hoV
      obtain ⟨l, r⟩ := p
      obtain ⟨hl0, hln, hr0, hrn, hb1, hb0⟩ := hz (l, r) (by simp)
      simp only at hl0 hln hr0 hrn hb1 hb0
      have ws : WF 4 s := hw1.sameTopo st
      have hns : m1.n = s.n := st.n.symm
      have oks : ∀ i x, i < 4 → x < m1.n → s.okβ i x = true :=
        fun i x hi hx => ws.okβ4 hi (by rw [st.n]; exact hx)
      have hbn : m1.β 1 l < m1.n := hw1.range 1 (by omega) l hln
      have eqE := sameCell_equiv (g3e m1) m1.n
      have eqV := sameCell_equiv (g3v m1) m1.n
      -- edges
      obtain ⟨el, hel, sel0⟩ := eid_run ws hns hl0 (by rw [st.n]; exact hln)
      obtain ⟨er, her, ser0⟩ := eid_run ws hns hr0 (by rw [st.n]; exact hrn)
      have sel := (isEid3_sameTopo st _ _).1 sel0
      have ser := (isEid3_sameTopo st _ _).1 ser0
      have eln : el < m1.n := by have := sel.2 l (.refl _) hl0; omega
      have ern : er < m1.n := by have := ser.2 r (.refl _) hr0; omega
      obtain ⟨sa, hA, sA⟩ := forM_split_run cfg el er (min el er) (eStores cfg) s (C04.eStores_nodup cfg) hfc
        (fun t ht => ⟨okA_of ws (hsE t ht) (by rw [st.n]; omega), okA_of ws (hsE t ht) (by rw [st.n]; exact eln),
          okA_of ws (hsE t ht) (by rw [st.n]; exact ern)⟩)
        (fun _ => hoE (l, r) (by simp) el er sel ser)
      have sta : SameTopo m1 sa := st.trans sA.topo
      have wa : WF 4 sa := hw1.sameTopo sta
      have fca : sa.fc = 0 := by rw [sA.fc]; exact hfc
      -- vertices
      obtain ⟨v1, hv1, sv10, v10, v1n⟩ := vid_run wa sta.n.symm hb1 (by rw [sta.n]; exact hbn)
      obtain ⟨v2, hv2, sv20, v20, v2n⟩ := vid_run wa sta.n.symm hr0 (by rw [sta.n]; exact hrn)
      have sv1 := (isVid3_sameTopo sta _ _).1 sv10
      have sv2 := (isVid3_sameTopo sta _ _).1 sv20
      obtain ⟨sb, hB, sB⟩ := forM_split_run cfg v1 v2 (min v1 v2) (vStores cfg) sa (C04.vStores_nodup cfg) fca
        (fun t ht => by
          have hsz : t < sa.a.size := by rw [sA.topo.asz]; exact hsV t ht
          exact ⟨okA_of wa hsz (by omega), okA_of wa hsz v1n, okA_of wa hsz v2n⟩)
        (fun _ t ht => by
          rw [sA.other t _ (vStores_not_eStores ht)]
          exact hoV (l, r) (by simp) v1 v2 sv1 sv2 t ht)
      have stb : SameTopo m1 sb := sta.trans sB.topo
      have hcE := List.pairwise_cons.1 hfE
      have hpa : pairsA m1 ((l, r) :: rest) = (m1.β 1 l, r) :: pairsA m1 rest := rfl
      rw [hpa] at hfV
      have hcV := List.pairwise_cons.1 hfV
      obtain ⟨s', hrun, st'⟩ := ih sb stb (by rw [sB.fc]; exact fca)
        (fun t ht => by rw [sB.topo.asz, sA.topo.asz]; exact hsV t ht)
        (fun t ht => by rw [sB.topo.asz, sA.topo.asz]; exact hsE t ht)
        (fun lr hm => hz lr (List.mem_cons_of_mem _ hm)) hcE.2 hcV.2
        (fun lr hm el' er' a b t ht => by
          obtain ⟨n1, n2, n3, n4⟩ := far_ids eqE (hcE.1 lr hm) sel ser a b
          rw [sB.other t _ (eStores_not_vStores ht), sA.frame t _ ht (by omega) (by omega) (by omega)]
          exact hoE lr (List.mem_cons_of_mem _ hm) el' er' a b t ht)
        (fun lr hm v1' v2' a b t ht => by
          have hmem : (m1.β 1 lr.1, lr.2) ∈ pairsA m1 rest := List.mem_map.2 ⟨lr, hm, rfl⟩
          obtain ⟨n1, n2, n3, n4⟩ := far_ids eqV (hcV.1 _ hmem) sv1 sv2 a b
          rw [sB.frame t _ ht (by omega) (by omega) (by omega), sA.other t _ (vStores_not_eStores ht)]
          exact hoV lr (List.mem_cons_of_mem _ hm) v1' v2' a b t ht)
      refine ⟨s', ?_, st'⟩
      have wb : WF 4 sb := hw1.sameTopo stb
      have ok2 : sb.okβ 0 l = true := wb.okβ4 (by omega) (by rw [stb.n]; exact hln)
      have oka : ∀ i x, i < 4 → x < m1.n → sa.okβ i x = true :=
        fun i x hi hx => wa.okβ4 hi (by rw [sta.n]; exact hx)
      unfold threeUnsewLoop
      simp only [Prog.bind_eq, bind]
      rw [run_bind_of_ok hel, run_bind_of_ok her, run_bind_of_ok (show run (splitAttrs cfg 1 el er (min el er)) s = _ from hA)]
      simp only [run_rB, oka 1 l (by omega) hln, oka 2 l (by omega) hln, if_true, sta.β, hb1, if_false]
      rw [run_bind_of_ok hv1, run_bind_of_ok hv2]
      have hB' : run ((splitS cfg 0 v1 v2 (min v1 v2)).bind fun _ => splitAttrs cfg 0 v1 v2 (min v1 v2)) sa = (.ok (), sb) := hB
      rw [run_bind] at hB'
      cases h0 : run (splitS cfg 0 v1 v2 (min v1 v2)) sa with
      | mk o s0 =>
          rw [h0] at hB'
          cases o with
          | ok u0 =>
              simp only at hB'
              rw [run_bind_of_ok h0, run_bind_of_ok hB']
              simp only [run_rB, ok2, if_true, stb.β, hb0, if_false]
              exact hrun
          | err e => simp at hB'
          | retry => simp at hB'
          | panic => simp at hB'

/-- **C05, 3-unsew succeeds, arbitrary laws**.  Setting of `C05_threeUnsew3_succeeds` (closed face
    of least period `L`, well-formed mirrored map, faces 3-linked as a whole and not to themselves)
    with any configuration: `three_unlink` returns `Ok`; under the property's proviso on the edges
    and on the vertices of the unlinked map, the whole call returns `Ok` when every face / edge /
    vertex storage law splits the value held at the identifier (cell minimum, in the map BEFORE the
    call) of the glued face, of each of its `L` edges, of each of its `L` vertices.  The result is
    then described by `C05_threeUnsew3_cells` (+ `unsewn_cells`). -/
theorem C05_threeUnsew3_succeeds_law (cfg : Cfg X) (m : Map X) (ld L : Nat) (hwf : WF 4 m) (hM : Mirror m)
    (hS : Sided3 m) (hfc : m.fc = 0)
    (hst : ∀ t, (t ∈ vStores cfg ∨ t ∈ eStores cfg ∨ t ∈ fStores cfg) → t < m.a.size)
    (hl : C02.InUse m ld) (hsewn : m.β 3 ld ≠ 0) (cl : Cyc m 1 ld L)
    (hmin : ∀ t, 0 < t → t < L → it m 1 t ld ≠ ld) (hnsg : ∀ t, it m 1 t ld ≠ m.β 3 ld)
    (hsplitF : ∀ f, IsFid3 m ld f → SplitOK cfg (fStores cfg) f m)
    (hsplitE : ∀ lr, lr ∈ walkPairs m 1 0 L ld (m.β 3 ld) → ∀ e, IsEid3 m lr.1 e → SplitOK cfg (eStores cfg) e m)
    (hsplitV : ∀ x, x ∈ pairsA m (walkPairs m 1 0 L ld (m.β 3 ld)) → ∀ v, IsVid3 m x.1 v →
      SplitOK cfg (vStores cfg) v m) :
    ∃ m1, run (threeUnlink3 (X := X) m.n ld) m = (.ok (), m1) ∧
      ((walkPairs m 1 0 L ld (m.β 3 ld)).Pairwise (Far (SameCell (g3e m1) m.n)) →
       (pairsA m (walkPairs m 1 0 L ld (m.β 3 ld))).Pairwise (Far (SameCell (g3v m1) m.n)) →
        ∃ m', run (threeUnsew3 cfg m.n ld) m = (.ok (), m')) := by
  obtain ⟨hl0, hln, hlu⟩ := hl
  obtain ⟨m1, hunl⟩ := threeUnlink3_run hwf hM hS hln hsewn cl hmin hnsg
  refine ⟨m1, hunl, fun hfarE hfarV => ?_⟩
  obtain ⟨L', hne, hL, cl', cr, hminl, hminr, hw1⟩ := threeUnlink3_unlinked_closed hwf hM hln cl.nz hunl
  have hLL : L' = L := by
    rcases Nat.lt_trichotomy L' L with hh | hh | hh
    · exact absurd cl'.per (hmin L' cl'.pos hh)
    · exact hh
    · exact absurd cl.per (hminl L cl.pos hh)
  subst hLL
  have hsh := (threeUnlink3_ok hwf hln hunl).2
  have hrn : m.β 3 ld < m.n := hwf.range 3 (by omega) ld hln
  have d10 : Dir 1 0 := Or.inl ⟨rfl, rfl⟩
  have d01 : Dir 0 1 := Or.inr ⟨rfl, rfl⟩
  have hn1 : m1.n = m.n := hL.n.symm
  have e1 : ∀ x, m1.β 1 x = m.β 1 x := fun x => (hL.other 1 x (by omega)).symm
  have e0 : ∀ x, m1.β 0 x = m.β 0 x := fun x => (hL.other 0 x (by omega)).symm
  have i1 : ∀ t x, it m1 1 t x = it m 1 t x := it_congr e1
  have i0 : ∀ t x, it m1 0 t x = it m 0 t x := it_congr e0
  have wp : walkPairs m1 1 0 L' ld (m.β 3 ld) = walkPairs m 1 0 L' ld (m.β 3 ld) := walkPairs_congr e1 e0 _ _ _
  have hL' : Linked3 m1 m (walkPairs m1 1 0 L' ld (m.β 3 ld)) := by rw [wp]; exact hL
  have cl1 : Cyc m1 1 ld L' := ⟨cl.pos, by rw [i1]; exact cl.per, fun t => by rw [i1]; exact cl.nz t⟩
  have cr1 : Cyc m1 0 (m.β 3 ld) L' := ⟨cr.pos, by rw [i0]; exact cr.per, fun t => by rw [i0]; exact cr.nz t⟩
  have fl := cyc_free cl1 hL'
  have fr := cyc_free_r cr1 hL'
  have hln1 : ld < m1.n := by rw [hn1]; exact hln
  have hrn1 : m.β 3 ld < m1.n := by rw [hn1]; exact hrn
  have hatt : ∀ t v, m1.att t v = m.att t v := fun t v => by unfold Map.att; rw [hsh.a]
  have fc1 : m1.fc = 0 := by rw [hsh.fc]; exact hfc
  have asz1 : m1.a.size = m.a.size := by rw [hsh.a]
  -- the face walks of the code
  have o1 := (face_orbit_cycle (X := X) hw1 d10 hl0 hln1 cl1).1
  have o2 := (face_orbit_cycle (X := X) hw1 d01 hne hrn1 cr1).1
  have hzip : ∀ pq, pq ∈ (bfsPure (gIJ m1 1 0) (m1.n + 1) [ld] [0, ld] []).zip
      (bfsPure (gIJ m1 0 1) (m1.n + 1) [m.β 3 ld] [0, m.β 3 ld] []) ↔ pq ∈ walkPairs m 1 0 L' ld (m.β 3 ld) := by
    intro pq
    rw [← wp]
    exact zip_face_walks hw1 hl0 hne hln1 hrn1 cl1 cr1 (fun t h0 ht => by rw [i1]; exact hminl t h0 ht)
      (fun t h0 ht => by rw [i0]; exact hminr t h0 ht) pq
  have hlond : (bfsPure (gIJ m1 1 0) (m1.n + 1) [ld] [0, ld] []).Nodup :=
    (bfsPure_spec (gIJ_null hw1 (i := 1) (j := 0) (by omega) (by omega))
      (gIJ_range hw1 (i := 1) (j := 0) (by omega) (by omega)) hl0 hln1).2.1
  have s_l : IsFid3 m1 ld (listMin (bfsPure (gIJ m1 1 0) (m1.n + 1) [ld] [0, ld] []) ld) :=
    face_min_cycle hw1 d10 hl0 hln1 cl1 fl
  have s_r : IsFid3 m1 (m.β 3 ld) (listMin (bfsPure (gIJ m1 0 1) (m1.n + 1) [m.β 3 ld] [0, m.β 3 ld] []) (m.β 3 ld)) :=
    face_min_cycle hw1 d01 hne hrn1 cr1 fr
  generalize hlo : bfsPure (gIJ m1 1 0) (m1.n + 1) [ld] [0, ld] [] = lo at o1 hzip hlond s_l
  generalize hro : bfsPure (gIJ m1 0 1) (m1.n + 1) [m.β 3 ld] [0, m.β 3 ld] [] = ro at o2 hzip s_r
  have hfo : run (faceOrbits3 (X := X) m1.n ld (m.β 3 ld)) m1 = (.ok (lo, ro), m1) := by
    unfold faceOrbits3
    simp only [Prog.bind_eq, bind]
    rw [run_bind_of_ok o1, run_bind_of_ok o2]
    rfl
  -- the darts of the walk
  have hps : ∀ lr, lr ∈ walkPairs m 1 0 L' ld (m.β 3 ld) →
      lr.1 ≠ 0 ∧ lr.1 < m1.n ∧ lr.2 ≠ 0 ∧ lr.2 < m1.n ∧ m1.β 1 lr.1 ≠ 0 ∧ m1.β 0 lr.1 ≠ 0 ∧ m1.β 1 lr.2 ≠ 0 := by
    intro lr hm
    obtain ⟨t, ht, rfl⟩ := (mem_walkPairs L' ld _ lr).1 hm
    have hpn : it m 1 t ld < m.n := it_lt hwf (i := 1) (by omega) t ld hln
    have hqn : it m 0 t (m.β 3 ld) < m.n := it_lt hwf (i := 0) (by omega) t _ hrn
    refine ⟨cl.nz t, by rw [hn1]; exact hpn, cr.nz t, by rw [hn1]; exact hqn, ?_, ?_, ?_⟩
    · show m1.β 1 (it m 1 t ld) ≠ 0
      rw [e1, ← it_succ']; exact cl.nz _
    · show m1.β 0 (it m 1 t ld) ≠ 0
      rw [e0, cl.pred hwf d10 hln t]; exact cl.nz _
    · show m1.β 1 (it m 0 t (m.β 3 ld)) ≠ 0
      rw [e1, cr.pred hwf d01 hrn t]; exact cr.nz _
  have pa : ∀ ps, pairsA m1 ps = pairsA m ps := by
    intro ps; unfold pairsA; simp only [e1]
  -- the partitions, read backwards
  have hfaces : ∀ d e, SameCell (g3f m) m1.n d e ↔ Glue (SameCell (g3f m1) m1.n) [(ld, m.β 3 ld)] d e := by
    intro d e
    have := cells_linked3 (base := fun m x => [m.β 1 x, m.β 0 x]) (m := m1) (m' := m)
      (fun x => by simp only [e1, e0]) hL d e
    rw [show gB3 (fun m x => [m.β 1 x, m.β 0 x]) m = g3f m from rfl,
      show gB3 (fun m x => [m.β 1 x, m.β 0 x]) m1 = g3f m1 from rfl] at this
    rw [this]
    refine glue_same_cells (sameCell_equiv (g3f m1) m1.n) (fun pq hm => ?_)
      ⟨(ld, m.β 3 ld), (mem_walkPairs L' ld _ _).2 ⟨0, cl.pos, rfl⟩⟩ d e
    obtain ⟨t, _, rfl⟩ := (mem_walkPairs L' ld _ pq).1 hm
    have a := (face_cell_cycle hw1 d10 hln1 cl1 fl (it m 1 t ld)).2 ⟨t, (i1 t ld).symm⟩
    have b := (face_cell_cycle hw1 d01 hrn1 cr1 fr (it m 0 t (m.β 3 ld))).2 ⟨t, (i0 t _).symm⟩
    exact ⟨.symm a, .symm b⟩
  have hedges : ∀ d e, SameCell (g3e m) m1.n d e ↔
      Glue (SameCell (g3e m1) m1.n) (walkPairs m 1 0 L' ld (m.β 3 ld)) d e := by
    intro d e
    exact cells_linked3 (base := fun m x => [m.β 2 x]) (m := m1) (m' := m)
      (fun x => by simp only [(hL.other 2 x (by omega)).symm]) hL d e
  have hverts : ∀ d e, SameCell (g3v m) m1.n d e ↔
      Glue (SameCell (g3v m1) m1.n) (pairsA m (walkPairs m 1 0 L' ld (m.β 3 ld))) d e := by
    intro d e
    have := vertex_cells_linked3 hw1 hwf hL (fun pq hm => ⟨(hps pq hm).2.2.2.2.1, (hps pq hm).2.2.2.2.2.2⟩) d e
    rw [this]
    have hcl := fun x => pairsV3_closed hw1 hln1 hrn1 cl1 cr1 x
    rw [wp, pa] at hcl
    constructor
    · exact Glue.mono fun x hx => (hcl x).1 hx
    · exact Glue.mono fun x hx => (hcl x).2 hx
  rw [← hn1] at hfarE hfarV
  have eqF := sameCell_equiv (g3f m1) m1.n
  have eqE := sameCell_equiv (g3e m1) m1.n
  have eqV := sameCell_equiv (g3v m1) m1.n
  -- the face split
  have s_old : IsFid3 m ld (min (listMin lo ld) (listMin ro (m.β 3 ld))) := by
    have := min_of_far (R1 := SameCell (g3f m) m1.n) eqF hfaces (by simp) (x := (ld, m.β 3 ld)) (by simp) s_l s_r
    unfold IsFid3; rw [← hn1]; exact this
  have lfn : listMin lo ld < m1.n := by have := s_l.2 ld (.refl _) hl0; omega
  have rfn : listMin ro (m.β 3 ld) < m1.n := by have := s_r.2 _ (.refl _) hne; omega
  have hszF : ∀ t, t ∈ fStores cfg → t < m1.a.size := fun t ht => by rw [asz1]; exact hst t (Or.inr (Or.inr ht))
  obtain ⟨mf, hF, sF⟩ := forM_split_run cfg (listMin lo ld) (listMin ro (m.β 3 ld))
    (min (listMin lo ld) (listMin ro (m.β 3 ld))) (fStores cfg) m1 (fStores_nodup cfg) fc1
    (fun t ht => ⟨okA_of hw1 (hszF t ht) (by omega), okA_of hw1 (hszF t ht) lfn, okA_of hw1 (hszF t ht) rfn⟩)
    (fun _ t ht => by rw [hatt]; exact hsplitF _ s_old t ht)
  have notF : ∀ t, (t ∈ vStores cfg ∨ t ∈ eStores cfg) → t ∉ fStores cfg := by
    rintro t (hv | he) hf
    · rcases List.mem_cons.1 (show t ∈ 0 :: storagesOf cfg 0 from hv) with rfl | h'
      · exact (mem_storagesOf (show (0 : Nat) ∈ storagesOf cfg 2 from hf)).1 rfl
      · exact stores_disjoint (k := 0) (k' := 2) (by decide) h' hf
    · exact stores_disjoint (k := 1) (k' := 2) (by decide) he hf
  have attF : ∀ t e, (t ∈ vStores cfg ∨ t ∈ eStores cfg) → mf.att t e = m.att t e := fun t e ht => by
    rw [sF.other t e (notF t ht), hatt]
  -- the loop
  have hzE : (lo.zip ro).Pairwise (Far (SameCell (g3e m1) m1.n)) := by
    refine List.Pairwise.imp_of_mem (fun {x y} hx hy hxy => ?_) (zip_pairwise_fst hlond)
    rcases pairwise_mem hfarE ((hzip x).1 hx) ((hzip y).1 hy) with k | k | k
    · exact absurd (congrArg Prod.fst k) hxy
    · exact k
    · exact k.symm eqE
  have hzV : (pairsA m1 (lo.zip ro)).Pairwise (Far (SameCell (g3v m1) m1.n)) := by
    unfold pairsA
    rw [List.pairwise_map]
    refine List.Pairwise.imp_of_mem (fun {x y} hx hy hxy => ?_) (zip_pairwise_fst hlond)
    have hx' := (hzip x).1 hx
    have hy' := (hzip y).1 hy
    have mx : (m.β 1 x.1, x.2) ∈ pairsA m (walkPairs m 1 0 L' ld (m.β 3 ld)) := List.mem_map.2 ⟨x, hx', rfl⟩
    have my : (m.β 1 y.1, y.2) ∈ pairsA m (walkPairs m 1 0 L' ld (m.β 3 ld)) := List.mem_map.2 ⟨y, hy', rfl⟩
    rw [e1, e1]
    rcases pairwise_mem hfarV mx my with k | k | k
    · exfalso
      have e : m.β 1 x.1 = m.β 1 y.1 := (Prod.mk.inj k).1
      have a := hwf.inv01 x.1 (by rw [← hn1]; exact (hps x hx').2.1) (by rw [← e1]; exact (hps x hx').2.2.2.2.1)
      have b := hwf.inv01 y.1 (by rw [← hn1]; exact (hps y hy').2.1) (by rw [← e1]; exact (hps y hy').2.2.2.2.1)
      rw [e, b] at a
      exact hxy a.symm
    · exact k
    · exact k.symm eqV
  obtain ⟨s', hrun, _⟩ := unsewLoop_run_law (cfg := cfg) hw1 (lo.zip ro) mf sF.topo (by rw [sF.fc]; exact fc1)
    (fun t ht => by rw [sF.topo.asz, asz1]; exact hst t (Or.inl ht))
    (fun t ht => by rw [sF.topo.asz, asz1]; exact hst t (Or.inr (Or.inl ht)))
    (fun lr hm => by
      obtain ⟨a1, a2, a3, a4, a5, a6, _⟩ := hps lr ((hzip lr).1 hm)
      exact ⟨a1, a2, a3, a4, a5, a6⟩) hzE hzV
    (fun lr hm el er a b t ht => by
      have hm' := (hzip lr).1 hm
      have := min_of_far (R1 := SameCell (g3e m) m1.n) eqE hedges hfarE hm' a b
      have hid : IsEid3 m lr.1 (min el er) := by unfold IsEid3; rw [← hn1]; exact this
      rw [attF t _ (Or.inr ht)]
      exact hsplitE lr hm' _ hid t ht)
    (fun lr hm v1 v2 a b t ht => by
      have hm' := (hzip lr).1 hm
      have hmem : (m.β 1 lr.1, lr.2) ∈ pairsA m (walkPairs m 1 0 L' ld (m.β 3 ld)) := List.mem_map.2 ⟨lr, hm', rfl⟩
      rw [e1] at a
      have := min_of_far (R1 := SameCell (g3v m) m1.n) eqV hverts hfarV hmem a b
      have hid : IsVid3 m (m.β 1 lr.1) (min v1 v2) := by unfold IsVid3; rw [← hn1]; exact this
      rw [attF t _ (Or.inl ht)]
      exact hsplitV _ hmem _ hid t ht)
  refine ⟨s', ?_⟩
  rw [← hn1]
  rw [← hn1] at hunl
  unfold threeUnsew3
  simp only [Prog.bind_eq, bind, run_rB, hwf.okβ4 (i := 3) (by omega) hln, if_true]
  rw [run_bind_of_ok hunl, run_bind_of_ok hfo]
  simp only []
  rw [run_bind_of_ok (show run (splitAttrs cfg 2 (listMin lo ld) (listMin ro (m.β 3 ld))
    (min (listMin lo ld) (listMin ro (m.β 3 ld)))) m1 = _ from hF)]
  exact hrun

/-! ## non-vacuity -/

/-- computable form of `SplitOK` -/
def splitOKb (cfg : Cfg X) (ss : List Nat) (inp : Nat) (m : Map X) : Bool :=
  ss.all fun s => match splitVal (cfg.law s) (m.att s inp) with
    | .ok _ => true
    | .error _ => false

theorem splitOK_of_b {cfg : Cfg X} {ss : List Nat} {inp : Nat} {m : Map X} (h : splitOKb cfg ss inp m = true) :
    SplitOK cfg ss inp m := by
  intro s hs
  have := List.all_eq_true.1 h s hs
  cases hv : splitVal (cfg.law s) (m.att s inp) with
  | ok ab => exact ⟨ab.1, ab.2, rfl⟩
  | error e => rw [hv] at this; cases this

/-- `SplitOK` at the vertex identifier of a dart, from its computable form -/
theorem splitOK_vid {cfg : Cfg X} {ss : List Nat} {m : Map X} (h : WF 4 m) {d : Nat} (hd0 : d ≠ 0) (hd : d < m.n)
    (hb : splitOKb cfg ss (C03.cellId3 m .vertex d) m = true) : ∀ v, IsVid3 m d v → SplitOK cfg ss v m := by
  intro v hv
  have s := (vertexId3_spec h hd0 hd (C03.C03_vertexId3_min h hd0 hd).1).2
  rw [hv.unique s (hv.ne_zero h hd0 hd) (s.ne_zero h hd0 hd)]
  exact splitOK_of_b hb

theorem splitOK_eid {cfg : Cfg X} {ss : List Nat} {m : Map X} (h : WF 4 m) {d : Nat} (hd0 : d ≠ 0) (hd : d < m.n)
    (hb : splitOKb cfg ss (C03.cellId3 m .edge d) m = true) : ∀ v, IsEid3 m d v → SplitOK cfg ss v m := by
  intro v hv
  have s := (edgeId3_spec h hd0 hd (C03.C03_edgeId3_min h hd0 hd).1).2
  rw [IsMinOf.unique hv s (sameCellE_ne_zero h hd0 hd hv.1) (sameCellE_ne_zero h hd0 hd s.1)]
  exact splitOK_of_b hb

/-- built-in vertices, `VTerm` (every law defined), `ETerm` and `VDef` (the trait's default: splitting
    an undefined value is an error) -/
def lawCfg : Cfg Val := stdCfg 4 19

def termRow (k : Nat) : Array (Option Val) :=
  ((List.range 17).map fun i => if i = 0 then none else some (Val.tm (.leaf (k + i)))).toArray

/-- a map of 16 darts with `VDef` and `ETerm` defined at every identifier -/
def defAll (m : Map Val) : Map Val := { m with a := (m.a.set! 5 (termRow 100)).set! 2 (termRow 200) }

/-- the two 3-sewn triangles of `exSewn3` (`VDef`, `ETerm` undefined), resp. with both defined: the
    1-unsew of dart 1 splits the vertex of dart 2 -/
theorem exS3_wf : WF 4 (defAll exSewn3) := by decide +kernel

example : ∃ m', run (oneUnsew3 lawCfg (defAll exSewn3).n 1) (defAll exSewn3) = (.ok (), m') :=
  C05_oneUnsew3_succeeds_law lawCfg (defAll exSewn3) 1 exS3_wf (by decide +kernel) (by decide +kernel)
    (by decide +kernel) (by decide +kernel) (by decide +kernel) (by decide +kernel)
    (splitOK_vid exS3_wf (by decide +kernel) (by decide +kernel) (by decide +kernel))
/-- the hypothesis on the laws cannot be dropped: with `VDef` undefined the same call is refused
    (`split_from_none` of the default law) -/
example : (run (oneUnsew3 lawCfg exSewn3.n 1) exSewn3).1 = .err errInsufficient ∧
    splitOKb lawCfg (vStores lawCfg) (C03.cellId3 exSewn3 .vertex (exSewn3.β 1 1)) exSewn3 = false := by
  decide +kernel

/-- the square 2-sewn to the chain (`exSewn2`): the 2-unsew of dart 7 splits the edge and both end
    points -/
theorem exS2_wf : WF 4 (defAll exSewn2) := by decide +kernel

example : ∃ m', run (twoUnsew3 lawCfg (defAll exSewn2).n 7) (defAll exSewn2) = (.ok (), m') :=
  C05_twoUnsew3_succeeds_law lawCfg (defAll exSewn2) 7 exS2_wf (by decide +kernel) (by decide +kernel)
    (by decide +kernel) (by decide +kernel) (by decide +kernel) (by decide +kernel) (by decide +kernel)
    (far_of_cellId3 (m := (defAll exSewn2).unlinkI 2 7) (by decide +kernel) rfl (by decide +kernel)
      (by decide +kernel) (by decide +kernel))
    (splitOK_eid exS2_wf (by decide +kernel) (by decide +kernel) (by decide +kernel))
    (splitOK_vid exS2_wf (by decide +kernel) (by decide +kernel) (by decide +kernel))
    (splitOK_vid exS2_wf (by decide +kernel) (by decide +kernel) (by decide +kernel))
example : (run (twoUnsew3 lawCfg exSewn2.n 7) exSewn2).1 = .err errInsufficient := by decide +kernel


/-! ### the 3-unsew -/

theorem splitOK_nil {cfg : Cfg X} {ss : List Nat} (h : ss = []) (inp : Nat) (m : Map X) : SplitOK cfg ss inp m := by
  subst h; intro s hs; simp at hs

theorem splitOK_eid_all {cfg : Cfg X} {ss : List Nat} {m : Map X} (h : WF 4 m) {ps : List (Nat × Nat)}
    (hb : ∀ lr, lr ∈ ps → lr.1 ≠ 0 ∧ lr.1 < m.n ∧ splitOKb cfg ss (C03.cellId3 m .edge lr.1) m = true) :
    ∀ lr, lr ∈ ps → ∀ e, IsEid3 m lr.1 e → SplitOK cfg ss e m :=
  fun lr hm => splitOK_eid h (hb lr hm).1 (hb lr hm).2.1 (hb lr hm).2.2

theorem splitOK_vid_all {cfg : Cfg X} {ss : List Nat} {m : Map X} (h : WF 4 m) {ps : List (Nat × Nat)}
    (hb : ∀ lr, lr ∈ ps → lr.1 ≠ 0 ∧ lr.1 < m.n ∧ splitOKb cfg ss (C03.cellId3 m .vertex lr.1) m = true) :
    ∀ lr, lr ∈ ps → ∀ v, IsVid3 m lr.1 v → SplitOK cfg ss v m :=
  fun lr hm => splitOK_vid h (hb lr hm).1 (hb lr hm).2.1 (hb lr hm).2.2

theorem not_sameCellE_of_cellId3 {m : Map X} (h : WF 4 m) {a b : Nat} (ha0 : a ≠ 0) (ha : a < m.n)
    (hb0 : b ≠ 0) (hb : b < m.n) (hne : C03.cellId3 m .edge a ≠ C03.cellId3 m .edge b) :
    ¬ SameCell (g3e m) m.n a b := by
  intro hs
  have sa := (edgeId3_spec h ha0 ha (C03.C03_edgeId3_min h ha0 ha).1).2
  have sb := (edgeId3_spec h hb0 hb (C03.C03_edgeId3_min h hb0 hb).1).2
  have eqE := sameCell_equiv (g3e m) m.n
  have sa' : IsEid3 m b (C03.cellId3 m .edge a) := IsMinOf.congr eqE sa hs
  exact hne (IsMinOf.unique sa' sb (sameCellE_ne_zero h ha0 ha sa.1) (sameCellE_ne_zero h hb0 hb sb.1))

def CidFarE (m : Map X) (x y : Nat × Nat) : Prop :=
  C03.cellId3 m .edge x.1 ≠ C03.cellId3 m .edge y.1 ∧ C03.cellId3 m .edge x.1 ≠ C03.cellId3 m .edge y.2 ∧
  C03.cellId3 m .edge x.2 ≠ C03.cellId3 m .edge y.1 ∧ C03.cellId3 m .edge x.2 ≠ C03.cellId3 m .edge y.2

instance (m : Map X) (x y : Nat × Nat) : Decidable (CidFarE m x y) := by unfold CidFarE; exact inferInstance

theorem pairwise_farE_of_cellId3 {m : Map X} (h : WF 4 m) {n : Nat} (hn : n = m.n) {ps : List (Nat × Nat)}
    (hv : ∀ p, p ∈ ps → ValidPair m p) (hc : ps.Pairwise (CidFarE m)) :
    ps.Pairwise (Far (SameCell (g3e m) n)) := by
  subst hn
  refine List.Pairwise.imp_of_mem (fun {x y} hx hy hxy => ?_) hc
  have vx := hv x hx
  have vy := hv y hy
  exact ⟨not_sameCellE_of_cellId3 h vx.1 vx.2.1 vy.1 vy.2.1 hxy.1,
    not_sameCellE_of_cellId3 h vx.1 vx.2.1 vy.2.2.1 vy.2.2.2 hxy.2.1,
    not_sameCellE_of_cellId3 h vx.2.2.1 vx.2.2.2 vy.1 vy.2.1 hxy.2.2.1,
    not_sameCellE_of_cellId3 h vx.2.2.1 vx.2.2.2 vy.2.2.1 vy.2.2.2 hxy.2.2.2⟩

theorem slots_of_all {cfg : Cfg X} {k : Nat} (h : ∀ t, t ∈ vStores cfg ++ eStores cfg ++ fStores cfg → t < k) :
    ∀ t, (t ∈ vStores cfg ∨ t ∈ eStores cfg ∨ t ∈ fStores cfg) → t < k := by
  intro t ht
  apply h t
  rcases ht with h' | h' | h'
  · exact List.mem_append_left _ (List.mem_append_left _ h')
  · exact List.mem_append_left _ (List.mem_append_right _ h')
  · exact List.mem_append_right _ h'

/-- the two 3-sewn triangles with `VDef` and `ETerm` defined: the 3-unsew splits three edges and
    three vertices in every storage -/
example : ∃ m', run (threeUnsew3 lawCfg (defAll exSewn3).n 1) (defAll exSewn3) = (.ok (), m') := by
  have cl : Cyc (defAll exSewn3) 1 1 3 := cyc_of_period exS3_wf (by decide) (by decide +kernel) (by decide)
  obtain ⟨m1, h1, himp⟩ := C05_threeUnsew3_succeeds_law lawCfg (defAll exSewn3) 1 3 exS3_wf (by decide +kernel)
    (by decide +kernel) (by decide +kernel) (slots_of_all (by decide +kernel)) (by decide +kernel) (by decide +kernel) cl
    (fun t h0 ht => (by decide +kernel : ∀ t, t < 3 → 0 < t → it (defAll exSewn3) 1 t 1 ≠ 1) t ht h0)
    (cyc_all_of_lt cl (by decide +kernel))
    (fun f _ => splitOK_nil (by decide +kernel) f _)
    (splitOK_eid_all exS3_wf (by decide +kernel))
    (splitOK_vid_all exS3_wf (by decide +kernel))
  have e : m1 = (run (threeUnlink3 (X := Val) (defAll exSewn3).n 1) (defAll exSewn3)).2 := by rw [h1]
  subst e
  exact himp (pairwise_farE_of_cellId3 (by decide +kernel) (by decide +kernel) (by decide +kernel) (by decide +kernel))
    (pairwise_far_of_cellId3 (by decide +kernel) (by decide +kernel) (by decide +kernel) (by decide +kernel))
/-- with `VDef` / `ETerm` undefined the same call is refused -/
example : (run (threeUnsew3 lawCfg exSewn3.n 1) exSewn3).1 = .err errInsufficient := by decide +kernel

end HC.C05
