/-
  C14 — the single-vertex insertion kernel of `honeycomb-kernels/src/cell_insertion/vertices.rs` (the private
  `is_free_transac` and the public `insert_vertex_on_edge`, both arms), TRANSLATED from the source on every run
  (`Gen/VertexInsertion.lean`, written by tools/gen_lean.py), interpreted in the model's transaction monad, is EQUAL
  as a program to the hand-written `isFreeTx` / `insertVertexOnEdge` of Model/Kernels/VertexInsertion.lean, which the
  C14 theorems are proved about.

  The kernel calls the PUBLIC `cmap.link::<I>` / `cmap.unlink::<I>`.  Their `match I` (dim2/links/mod.rs) and the bodies
  of the internal `one_link` / `two_link` / `one_unlink` / `two_unlink` (dim2/links/one.rs, two.rs) are translated too
  (`Gen.link2Arms`, `Gen.unlink2Arms`, `Gen.links2Bodies`); the interpreter resolves every call through these tables
  (`vinsLinkCall`, `vinsUnlinkCall`), and `C14_gen_link_dispatch` proves that the resolution is `one_link_core` /
  `two_link_core` / `one_unlink_core` / `two_unlink_core` — the cores themselves are tied in Props/C01Gen.lean.
  `vertex_id_transac` is the model's `vertexId2` (its image list is tied in Props/C03Gen.lean); `read_vertex` /
  `write_vertex` are `rA 0` / `writeVtx`.  Recognised as rigid shapes by the translator: the `is_some_and` test of the
  position, and the written value `midpoint_vertex.map_or(Vertex2::average(&p, &q), |t| r + seg * t)` with
  `let seg = s - u` (the five value operands are data: `vinsPlaceG`).
-/
import Honeycomb.Gen.VertexInsertion
import Honeycomb.Model.Kernels.VertexInsertion
import Honeycomb.Props.C14

namespace HC.GenTie
open HC HC.C14

/-! ## `is_free_transac` -/

/-- the meaning of `Gen.isFreeTransac`: `β_i(d) == NULL_DART_ID` for the listed `i`, short-circuit `&&` -/
def vinsInterpFree {X : Type} (d : Nat) : List Nat → P X Bool
  | [] => pure true
  | [i] => do
      let b ← rB i d
      pure (decide (b = 0))
  | i :: j :: rest => do
      let b ← rB i d
      if b ≠ 0 then pure false else vinsInterpFree d (j :: rest)

/-- **tie of `is_free_transac`** -/
theorem C14_gen_isFreeTx {X : Type} (d : Nat) : vinsInterpFree (X := X) d Gen.isFreeTransac = isFreeTx d := by
  simp only [Gen.isFreeTransac, vinsInterpFree, isFreeTx]

/-! ## `CMap2::link::<I>` / `unlink::<I>` resolved through the translated tables -/

/-- the `*_core` function of components/betas.rs with the given code, applied to the selected arguments -/
def vinsCoreCall {X : Type} : Nat → List Nat → Option (P X Unit)
  | 0, [a, b] => some (oneLinkCore a b)
  | 1, [a, b] => some (iLinkCore 2 a b)
  | 2, [a, b] => some (iLinkCore 3 a b)
  | 3, [a] => some (oneUnlinkCore a)
  | 4, [a] => some (iUnlinkCore 2 a)
  | 5, [a] => some (iUnlinkCore 3 a)
  | _, _ => none

/-- first row of a table with the given key -/
def vinsLookupRow (k : Nat) : List (Nat × List Nat) → Option (List Nat)
  | [] => none
  | (k', row) :: rest => if k' = k then some row else vinsLookupRow k rest

/-- the arguments at the given positions (`none` when a position does not exist) -/
def vinsPick (args : List Nat) : List Nat → Option (List Nat)
  | [] => some []
  | p :: ps =>
      match args[p]?, vinsPick args ps with
      | some a, some r => some (a :: r)
      | _, _ => none

/-- `self.<arm I of the table>(trans, args…)`, then the body of that internal function: the core call it makes -/
def vinsResolveCall {X : Type} (arms : List (Nat × List Nat)) (i : Nat) (args : List Nat) : Option (P X Unit) :=
  match vinsLookupRow i arms with
  | some (f :: ps) =>
      match vinsPick args ps, vinsLookupRow f Gen.links2Bodies with
      | some args1, some (c :: qs) =>
          match vinsPick args1 qs with
          | some args2 => vinsCoreCall c args2
          | none => none
      | _, _ => none
  | _ => none

/-- `cmap.link::<I>(trans, a, b)` -/
def vinsLinkCall {X : Type} (i a b : Nat) : P X Unit := (vinsResolveCall Gen.link2Arms i [a, b]).getD Prog.panic
/-- `cmap.unlink::<I>(trans, a)` -/
def vinsUnlinkCall {X : Type} (i a : Nat) : P X Unit := (vinsResolveCall Gen.unlink2Arms i [a]).getD Prog.panic

/-- **the translated dispatch**: `link::<1>` IS `one_link_core`, `link::<2>` IS `two_link_core`, `unlink::<1>` IS
    `one_unlink_core`, `unlink::<2>` IS `two_unlink_core`, with the arguments in the caller's order -/
theorem C14_gen_link_dispatch {X : Type} (a b : Nat) :
    vinsLinkCall (X := X) 1 a b = oneLinkCore a b ∧ vinsLinkCall (X := X) 2 a b = iLinkCore 2 a b ∧
    vinsUnlinkCall (X := X) 1 a = oneUnlinkCore a ∧ vinsUnlinkCall (X := X) 2 a = iUnlinkCore 2 a :=
  ⟨rfl, rfl, rfl, rfl⟩

theorem vinsLinkCall_one {X : Type} (a b : Nat) : vinsLinkCall (X := X) 1 a b = oneLinkCore a b := rfl
theorem vinsLinkCall_two {X : Type} (a b : Nat) : vinsLinkCall (X := X) 2 a b = iLinkCore 2 a b := rfl
theorem vinsUnlinkCall_one {X : Type} (a : Nat) : vinsUnlinkCall (X := X) 1 a = oneUnlinkCore a := rfl
theorem vinsUnlinkCall_two {X : Type} (a : Nat) : vinsUnlinkCall (X := X) 2 a = iUnlinkCore 2 a := rfl

/-- an index the dispatch has no arm for is a panic (`unreachable!()`), not a silent success -/
example {X : Type} (a b : Nat) : vinsLinkCall (X := X) 3 a b = Prog.panic := rfl

/-! ## `insert_vertex_on_edge` -/

/-- operand of a generated instruction: parameters, the null dart, bound variables -/
def vinsArg (e nd1 nd2 : Nat) (env : List Nat) : Nat → Nat
  | 0 => e
  | 1 => nd1
  | 2 => nd2
  | 3 => 0
  | k => env.getD (k - 20) 0

/-- the payload-free `VertexInsertionError` variants -/
def vinsErr : Nat → Err
  | 0 => errVertexBound
  | _ => errUndefinedEdge

/-- `d == NULL_DART_ID || !is_free_transac(cmap, trans, d)?`, with the TRANSLATED `is_free_transac` -/
def vinsNullOrNotFreeG {X : Type} (d : Nat) : P X Bool :=
  if d = 0 then pure true else do
    let f ← vinsInterpFree d Gen.isFreeTransac
    pure (!f)

/-- `let (Some(v), Some(w)) = (x, y) else { abort(err)? }` -/
def vinsWithEndsG {α : Type} (err : Err) (x y : Option Val) (k : Val → Val → P Val α) : P Val α :=
  match x, y with
  | some v, some w => k v w
  | _, _ => abort err

/-- `midpoint_vertex.map_or(Vertex2::average(&p, &q), |t| r + (s - u) * t)` -/
def vinsPlaceG (p q r s u : Val) (t : Option Rat) : Val :=
  P2.toVal (match t with
    | none => P2.avg p.p2 q.p2
    | some t => ⟨r.p2.x + (s.p2.x - u.p2.x) * t, r.p2.y + (s.p2.y - u.p2.y) * t⟩)

def vinsVal (vals : List Val) (k : Nat) : Val := vals.getD k (.pt 0 0 0)

/-- the meaning of the generated instruction list (see the header of Gen/VertexInsertion.lean); the fuel only makes
    the recursion structural -/
def interpVins (n e nd1 nd2 : Nat) (t : Option Rat) :
    Nat → List Nat → List Val → List (Nat × List Nat) → P Val Unit
  | 0, _, _, _ => Prog.panic
  | _ + 1, _, _, [] => pure ()
  | f + 1, env, vals, (40, [k]) :: rest =>
      if optOutOfUnit t then abort (vinsErr k) else interpVins n e nd1 nd2 t f env vals rest
  | f + 1, env, vals, (1, [i, a]) :: rest => do
      let v ← rB i (vinsArg e nd1 nd2 env a)
      interpVins n e nd1 nd2 t f (env ++ [v]) vals rest
  | f + 1, env, vals, (5, [a]) :: rest => do
      let v ← vertexId2 n (vinsArg e nd1 nd2 env a)
      interpVins n e nd1 nd2 t f (env ++ [v]) vals rest
  | f + 1, env, vals, (41, [d, k]) :: rest => do
      let bad ← vinsNullOrNotFreeG (vinsArg e nd1 nd2 env d)
      if bad then abort (errInvalidDarts (Gen.vinsMsgs.getD k "")) else
      interpVins n e nd1 nd2 t f env vals rest
  | f + 1, env, vals, (42, [g, d, k]) :: rest => do
      let bad ← (if vinsArg e nd1 nd2 env g ≠ 0 then vinsNullOrNotFreeG (vinsArg e nd1 nd2 env d) else pure false)
      if bad then abort (errInvalidDarts (Gen.vinsMsgs.getD k "")) else
      interpVins n e nd1 nd2 t f env vals rest
  | f + 1, env, vals, (43, [a, k1, k2]) :: rest =>
      if vinsArg e nd1 nd2 env a = 0 then interpVins n e nd1 nd2 t f env vals (rest.take k1)
      else interpVins n e nd1 nd2 t f env vals ((rest.drop k1).take k2)
  | f + 1, env, vals, (44, [a, b, k]) :: rest => do
      let x ← rA 0 (vinsArg e nd1 nd2 env a)
      let y ← rA 0 (vinsArg e nd1 nd2 env b)
      vinsWithEndsG (vinsErr k) x y fun v w => interpVins n e nd1 nd2 t f env (vals ++ [v, w]) rest
  | f + 1, env, vals, (45, [a, k]) :: rest => do
      whenP (decide (vinsArg e nd1 nd2 env a ≠ 0)) (interpVins n e nd1 nd2 t f env vals (rest.take k))
      interpVins n e nd1 nd2 t f env vals (rest.drop k)
  | f + 1, env, vals, (46, [0, i, a, b]) :: rest => do
      vinsLinkCall i (vinsArg e nd1 nd2 env a) (vinsArg e nd1 nd2 env b)
      interpVins n e nd1 nd2 t f env vals rest
  | f + 1, env, vals, (46, [1, i, a, _]) :: rest => do
      vinsUnlinkCall i (vinsArg e nd1 nd2 env a)
      interpVins n e nd1 nd2 t f env vals rest
  | f + 1, env, vals, (47, [x, p, q, r, s, u]) :: rest => do
      let _ ← writeVtx (vinsArg e nd1 nd2 env x)
        (vinsPlaceG (vinsVal vals p) (vinsVal vals q) (vinsVal vals r) (vinsVal vals s) (vinsVal vals u) t)
      interpVins n e nd1 nd2 t f env vals rest
  | _, _, _, _ => Prog.panic

theorem vins_bind_unit (p : P Val Unit) : p.bind (fun _ => Prog.ret ()) = p := Prog.bind_ret p

theorem vinsNullOrNotFreeG_eq {X : Type} (d : Nat) : vinsNullOrNotFreeG (X := X) d = nullOrNotFreeTx d := by
  unfold vinsNullOrNotFreeG nullOrNotFreeTx
  rw [C14_gen_isFreeTx]

theorem vinsWithEndsG_eq {α : Type} (x y : Option Val) (k : Val → Val → P Val α) :
    vinsWithEndsG errUndefinedEdge x y k = withEnds x y k := by
  cases x <;> cases y <;> rfl

/-- the written value: with the operands of the source (`average(&v1, &v2)`, `v1 + seg * t`, `seg = v2 - v1`) it is
    the model's `placeVal` -/
theorem vinsPlaceG_eq (v1 v2 : Val) (t : Option Rat) : vinsPlaceG v1 v2 v1 v2 v1 t = placeVal v1 v2 t := by
  cases t <;> rfl

/-- **tie of `insert_vertex_on_edge`** (validation prefix, both arms) -/
theorem C14_gen_insertVertexOnEdge (n e nd1 nd2 : Nat) (t : Option Rat) :
    interpVins n e nd1 nd2 t 64 [] [] Gen.insertVertexOnEdge = insertVertexOnEdge n e nd1 nd2 t := by
  simp only [Gen.insertVertexOnEdge, Gen.vinsMsgs, interpVins, vinsArg, vinsErr, vinsVal, insertVertexOnEdge,
    insertVertexBody1, insertVertexBody2, vinsNullOrNotFreeG_eq, vinsWithEndsG_eq, vinsPlaceG_eq, vinsLinkCall_one, vinsLinkCall_two,
    vinsUnlinkCall_one, vinsUnlinkCall_two, List.drop, List.take, List.getD, List.nil_append, List.cons_append,
    List.getElem?_cons_zero, List.getElem?_cons_succ, Option.getD_some, Nat.reduceSub, Prog.bind_eq, Prog.pure_eq,
    vins_bind_unit]

/-- **C14 (a) stated on the translated code**: a successful run of the translated `insert_vertex_on_edge` keeps a
    well-formed 2-map well formed (hypotheses as in `C14_insertVertex_preserves_WF`) -/
theorem C14_gen_insertVertex_preserves_WF (m m' : Map Val) (e nd1 nd2 : Nat) (t : Option Rat)
    (hwf : WF 3 m) (he : C01.InUse m e)
    (hl1 : m.unused nd1 = false) (hl2 : m.β 2 e ≠ 0 → m.unused nd2 = false)
    (hend : m.β 1 e ≠ 0 ∨ m.β 2 e ≠ 0)
    (h : run (interpVins m.n e nd1 nd2 t 64 [] [] Gen.insertVertexOnEdge) m = (.ok (), m')) : WF 3 m' := by
  rw [C14_gen_insertVertexOnEdge] at h
  exact C14_insertVertex_preserves_WF m m' e nd1 nd2 t hwf he hl1 hl2 hend h

/-- **C14 (b) stated on the translated code**: a position outside `]0, 1[` is refused with `VertexBound` before
    anything is read or written -/
theorem C14_gen_bound_single (n : Nat) (m : Map Val) (e nd1 nd2 : Nat) (t : Rat) (ht : t ≤ 0 ∨ 1 ≤ t) :
    run (interpVins n e nd1 nd2 (some t) 64 [] [] Gen.insertVertexOnEdge) m = (.err errVertexBound, m) := by
  rw [C14_gen_insertVertexOnEdge]
  exact C14_bound_single n m e nd1 nd2 t ht

/-- a list the interpreter does not understand is a panic, not a silent success -/
example (n e nd1 nd2 : Nat) (t : Option Rat) : interpVins n e nd1 nd2 t 4 [] [] [(43, [])] = Prog.panic := rfl

end HC.GenTie
