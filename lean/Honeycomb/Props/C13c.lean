/-
  C13, third part — exact face structure after ear clipping, and the first side of the star search.

  PROVED
  * `C13_earclip_structure` — on a closed face (darts in β1 order = the order in which the kernel enumerates them:
      `closedFace_orbit_eq`, `bfs_linear_chain`) with 2(n−3) live, free, distinct spare darts outside the face, a
      successful `earclip_cell_*` whose ears are never found at the last index leaves exactly the n−2 triangles of
      `earTris` — per spare pair the ear `(darts[ear], darts[ear+1], nd1)` read from the kernel's own dart vector, then
      the last three darts — each a closed β1 3-cycle; plus the frame of `C13_earclip_frame`.  The loop invariant is
      "the kernel's `darts` vector is the current face in cyclic order" through `remove / push / swap_remove`
      (`earclipLoop_struct`, `dartSurgery_eq`, `ClosedFace.rotate_at`).
  * `EarsNotLast` (hypothesis, decidable on the vertex list): the ear is never found at index n−1.  It is NECESSARY
      for the invariant: for `ear = n − 1` the vector surgery (`remove(0)`, `push(nd2)`, `swap_remove(n − 1)`) drops
      `nd2` instead of `darts[n−1]`, so the vector no longer describes the face (the map surgery itself is still
      right).  On a simple polygon it holds by the two-ears theorem (not proved).
  * `C13_fan_test_iff`, `C13_fan_first_side_weak_witness` — exactly what the star test guarantees on its first
      examined side: nothing about its magnitude; a degenerate first triangle is accepted (witness).

  CONTINUED: that the triangles carry the coordinates of the vertex-list triangles when read through the vertex
  identifiers of the result is proved in Props/C13d.lean for the two fan kernels
  (`C13_fan_triangles_carry_list_coordinates`) and in Props/C13e.lean for ear clipping
  (`C13_earclip_triangles_carry_list_coordinates`), with the value calculus of Lemmas/PosCalc.lean.
-/
import Honeycomb.Props.C13b
import Honeycomb.Props.C14b

set_option linter.unusedSimpArgs false
set_option linter.unusedVariables false

namespace HC.C13
open HC

variable {n : Nat} {u : Array Bool}

/-! ## closed faces as cyclic lists -/

/-- reading a closed face from another of its darts, deterministically -/
theorem ClosedFace.rotate_at {m : Map Val} {a s : Nat} {pre post : List Nat}
    (hc : ClosedFace m a (pre ++ s :: post)) : ClosedFace m s (post ++ a :: pre) := by
  have hch := hc.chain
  rw [List.append_assoc, List.cons_append, B1Chain.append] at hch
  obtain ⟨h1, h2⟩ := hch
  have hperm : (s :: (post ++ a :: pre)).Perm (a :: (pre ++ s :: post)) := by
    have e1 : s :: (post ++ a :: pre) = (s :: post) ++ (a :: pre) := by simp
    have e2 : a :: (pre ++ s :: post) = (a :: pre) ++ (s :: post) := by simp
    rw [e1, e2]; exact List.perm_append_comm
  refine ⟨?_, hperm.nodup_iff.2 hc.nodup, fun x hx => hc.nz x (hperm.subset hx)⟩
  rw [List.append_assoc, List.cons_append, B1Chain.append]
  exact ⟨h2, h1⟩

theorem B1Chain.last {m : Map Val} : ∀ (l : List Nat) (d z : Nat), B1Chain m d (l ++ [z]) →
    B1Chain m d l ∧ m.β 1 (l.getLastD d) = z := by
  intro l
  induction l with
  | nil => intro d z h; exact ⟨trivial, h.1⟩
  | cons x rest ih =>
      intro d z h
      obtain ⟨a, b⟩ := ih x z h.2
      exact ⟨⟨h.1, a⟩, by rw [List.getLastD_cons]; exact b⟩

theorem B1Chain.snoc {m : Map Val} : ∀ (l : List Nat) (d z : Nat), B1Chain m d l → m.β 1 (l.getLastD d) = z →
    B1Chain m d (l ++ [z]) := by
  intro l
  induction l with
  | nil => intro d z _ h; exact ⟨h, trivial⟩
  | cons x rest ih =>
      intro d z h hz
      rw [List.getLastD_cons] at hz
      exact ⟨h.1, ih x z h.2 hz⟩

/-- `orbit_transac(FaceLinear, a)` enumerates a closed face in its cyclic order -/
theorem bfs_linear_chain {m : Map Val} (a : Nat) : ∀ (L : List Nat) (x : Nat) (mk out : List Nat) (fuel : Nat),
    B1Chain m x (L ++ [a]) → a ∈ mk → (∀ y ∈ L, y ∉ mk) → L.Nodup → L.length < fuel →
    bfsPure (C03.g2 m .faceLinear) fuel [x] mk out = out ++ x :: L := by
  intro L
  induction L with
  | nil =>
      intro x mk out fuel h ha _ _ hf
      cases fuel with
      | zero => omega
      | succ f =>
          have hx : m.β 1 x = a := h.1
          have hc : mk.contains a = true := by simpa using ha
          simp only [bfsPure, C03.g2, List.foldl, bfsCheck, hx, hc, if_true]
          cases f <;> rfl
  | cons y L' ih =>
      intro x mk out fuel h ha hL hnd hf
      cases fuel with
      | zero => omega
      | succ f =>
          have hx : m.β 1 x = y := h.1
          have hy : mk.contains y = false := by
            have := hL y (by simp)
            simpa using this
          simp only [bfsPure, C03.g2, List.foldl, bfsCheck, hx, hy, Bool.false_eq_true, if_false, List.nil_append]
          simp only [List.nodup_cons] at hnd
          rw [ih y (mk ++ [y]) (out ++ [x]) f h.2 (by simp [ha]) ?_ hnd.2 (by simp at hf; omega)]
          · simp
          · intro z hz hh
            simp only [List.mem_append, List.mem_singleton] at hh
            rcases hh with c | c
            · exact hL z (by simp [hz]) c
            · exact hnd.1 (c ▸ hz)

theorem closedFace_orbit_eq {m : Map Val} (hwf : WF 3 m) {a : Nat} {rest : List Nat} (hc : ClosedFace m a rest) :
    run (orbit2 m.n .faceLinear a) m = (.ok (a :: rest), m) := by
  have halt := hc.lt hwf (by simp : a ∈ a :: rest)
  have ha0 := hc.nz a (by simp)
  have hspec := (C03.C03_orbit2_spec hwf (pol := .faceLinear) trivial ha0 halt).1
  rw [hspec]
  unfold C03.orb
  have hnd := hc.nodup
  simp only [List.nodup_cons] at hnd
  have hlen : (a :: rest).length < m.n :=
    length_lt_of_nodup hwf.npos hc.nodup hc.nz (fun x hx => hc.lt hwf hx)
  rw [bfs_linear_chain a rest a [0, a] [] (m.n + 1) hc.chain (by simp) ?_ hnd.2 (by simp at hlen; omega)]
  · simp
  · intro y hy hh
    simp only [List.mem_cons, List.not_mem_nil, or_false] at hh
    rcases hh with c | c
    · exact hc.nz y (by simp [hy]) c
    · exact hnd.1 (c ▸ hy)

/-! ## the vector surgery -/

theorem dartSurgery_eq (A B : List Nat) (x y nd2 : Nat) :
    dartSurgery (A ++ x :: y :: B) A.length nd2 = A ++ nd2 :: B := by
  unfold dartSurgery swapRemove
  have hlt : A.length + 1 < (A ++ x :: y :: B).length := by simp
  simp only [Nat.mod_eq_of_lt hlt]
  rw [List.eraseIdx_append_of_length_le (by omega)]
  have e1 : A.length + 1 - A.length = 1 := by omega
  rw [e1]
  simp only [List.eraseIdx_cons_succ, List.eraseIdx_cons_zero]
  have e2 : (A ++ x :: B ++ [nd2]).getLastD 0 = nd2 := by
    have e : A ++ x :: B ++ [nd2] = (A ++ x :: B) ++ [nd2] := by simp
    rw [e, List.getLastD_eq_getLast?, List.getLast?_append]; simp
  rw [e2]
  have e3 : (A ++ x :: B ++ [nd2]).set A.length nd2 = A ++ nd2 :: B ++ [nd2] := by simp
  rw [e3, List.dropLast_concat]

theorem split_at_ear (darts : List Nat) (ear : Nat) (h : ear + 1 < darts.length) :
    ∃ A x y B, darts = A ++ x :: y :: B ∧ A.length = ear := by
  refine ⟨darts.take ear, darts[ear], darts[ear + 1], darts.drop (ear + 2), ?_, by simp; omega⟩
  have h1 : darts = darts.take ear ++ darts.drop ear := (List.take_append_drop ear darts).symm
  have h2 : darts.drop ear = darts[ear] :: darts.drop (ear + 1) := (List.getElem_cons_drop (by omega)).symm
  have h3 : darts.drop (ear + 1) = darts[ear + 1] :: darts.drop (ear + 2) := (List.getElem_cons_drop h).symm
  rw [← h3, ← h2]; exact h1

/-! ## the ears and the triangles, on lists -/

/-- the ear found is never the last index of the vertex list (then `(ear + 1) % n = ear + 1`).  On a simple polygon
    the first ear found cannot be at the last index unless it is the only ear, which the two-ears theorem excludes
    (not proved); for `ear = n − 1` the kernel's vector surgery (`remove(0)`, `push`, `swap_remove(n − 1)`) drops the
    wrong dart. -/
def EarsNotLast (inside : P2 → P2 → P2 → Bool) : Nat → List P2 → Prop
  | 0, _ => True
  | k + 1, vs =>
      match findEar inside vs with
      | none => True
      | some ear => ear + 1 < vs.length ∧ EarsNotLast inside k (vs.eraseIdx (ear + 1))

def decEarsNotLast (inside : P2 → P2 → P2 → Bool) : (k : Nat) → (vs : List P2) → Decidable (EarsNotLast inside k vs)
  | 0, _ => isTrue trivial
  | k + 1, vs => by
      unfold EarsNotLast
      cases h : findEar inside vs with
      | none => exact isTrue trivial
      | some ear =>
          exact @instDecidableAnd _ _ inferInstance (decEarsNotLast inside k (vs.eraseIdx (ear + 1)))

instance (inside : P2 → P2 → P2 → Bool) (k : Nat) (vs : List P2) : Decidable (EarsNotLast inside k vs) :=
  decEarsNotLast inside k vs

/-- the dart triangles cut by the loop, computed with the kernel's own vectors: per spare pair `(nd1, nd2)` the ear
    `(darts[ear], darts[ear+1], nd1)`, then the last three darts -/
def earTris (inside : P2 → P2 → P2 → Bool) : List (Nat × Nat) → List Nat → List P2 → List (Nat × Nat × Nat)
  | [], darts, _ =>
      match darts with
      | [a, b, c] => [(a, b, c)]
      | _ => []
  | (nd1, nd2) :: cs, darts, vs =>
      match findEar inside vs with
      | none => []
      | some ear =>
          (darts.getD ear 0, darts.getD ((ear + 1) % vs.length) 0, nd1) ::
            earTris inside cs (dartSurgery darts ear nd2) (vs.eraseIdx ((ear + 1) % vs.length))

/-! ## the loop -/

/-- the ear-clipping loop on a closed face held in cyclic order in the kernel's `darts` vector -/
theorem earclipLoop_struct (cfg : Cfg Val) (nn : Nat) (inside : P2 → P2 → P2 → Bool) :
    ∀ (chunks : List (Nat × Nat)) (darts : List Nat) (vs : List P2) (m m' : Map Val) (d0 : Nat) (rest : List Nat),
      Inv n u m → darts = d0 :: rest → ClosedFace m d0 rest → darts.length = vs.length →
      vs.length = chunks.length + 3 → (sparesOf chunks).Nodup →
      (∀ x ∈ sparesOf chunks, Live n u x ∧ x ∉ darts) → EarsNotLast inside chunks.length vs →
      run (earclipLoop cfg nn inside chunks darts vs) m = (.ok (), m') →
      Inv n u m' ∧ (∀ t ∈ earTris inside chunks darts vs, TriFace m' t) ∧
      (earTris inside chunks darts vs).length = chunks.length + 1 ∧
      (∀ y, y ∉ darts → y ∉ sparesOf chunks → m'.β 1 y = m.β 1 y) := by
  intro chunks
  induction chunks with
  | nil =>
      intro darts vs m m' d0 rest hi hd hc hlen hvs _ _ _ h
      unfold earclipLoop at h
      have h3 : vs.length = 3 := by simpa using hvs
      simp [h3] at h
      subst h
      -- three darts: the face is the last triangle
      subst hd
      have hr2 : rest.length = 2 := by simp only [List.length_cons] at hlen; omega
      match rest, hr2 with
      | [b, c], _ =>
          have hch := hc.chain
          refine ⟨hi, ?_, by simp [earTris], fun _ _ _ => rfl⟩
          intro t ht
          simp only [earTris, List.mem_singleton] at ht
          subst ht
          exact ⟨hch.1, hch.2.1, hch.2.2.1⟩
  | cons c rest' ih =>
      intro darts vs m m' d0 rest hi hd hc hlen hvs hsnd hsp hears h
      obtain ⟨nd1, nd2⟩ := c
      rw [sparesOf_cons] at hsnd hsp
      simp only [List.nodup_cons, List.mem_cons, not_or] at hsnd
      obtain ⟨l1, hn1⟩ := hsp nd1 (by simp)
      obtain ⟨l2, hn2⟩ := hsp nd2 (by simp)
      have hne : nd1 ≠ nd2 := hsnd.1.1
      unfold earclipLoop at h
      simp only [List.length_cons] at hears
      unfold EarsNotLast at hears
      cases hf : findEar inside vs with
      | none => simp [hf] at h
      | some ear =>
          simp only [hf] at h
          rw [hf] at hears
          simp only at hears
          obtain ⟨hearlt, hears'⟩ := hears
          have hmod : (ear + 1) % vs.length = ear + 1 := Nat.mod_eq_of_lt hearlt
          rw [hmod] at h
          obtain ⟨A, x, y, B, hsplit, hA⟩ := split_at_ear darts ear (by rw [hlen]; exact hearlt)
          have hgx : darts.getD ear 0 = x := by rw [hsplit, ← hA]; simp
          have hgy : darts.getD (ear + 1) 0 = y := by
            rw [hsplit, ← hA]; simp [List.getD_eq_getElem?_getD]
          rw [hgx, hgy] at h
          -- the face read from the ear: x → y → R → x with R = B ++ A
          have hcx : ClosedFace m x (y :: (B ++ A)) := by
            cases A with
            | nil =>
                simp only [List.nil_append] at hsplit
                rw [hd] at hsplit
                simp only [List.cons.injEq] at hsplit
                obtain ⟨rfl, rfl⟩ := hsplit
                simpa using hc
            | cons a0 A' =>
                rw [hd] at hsplit
                simp only [List.cons_append, List.cons.injEq] at hsplit
                obtain ⟨rfl, rfl⟩ := hsplit
                have := hc.rotate_at
                simpa using this
          have hdnd : darts.Nodup := by rw [hd]; exact hc.nodup
          have hperm : (x :: y :: (B ++ A)).Perm darts := by
            rw [hsplit]
            have e1 : x :: y :: (B ++ A) = (x :: y :: B) ++ A := by simp
            rw [e1]; exact List.perm_append_comm
          have hmemR : ∀ z, z ∈ B ++ A → z ∈ darts := fun z hz => hperm.subset (by simp [hz])
          have hxd : x ∈ darts := hperm.subset (by simp)
          have hyd : y ∈ darts := hperm.subset (by simp)
          have hcn := hcx.nodup
          simp only [List.nodup_cons, List.mem_cons, not_or] at hcn
          obtain ⟨⟨hxy, hxR⟩, hyR, hRnd⟩ := hcn
          -- R is not empty
          have hRlen : (B ++ A).length = rest'.length + 2 := by
            have := hperm.length_eq
            simp only [List.length_cons] at this
            rw [hlen, hvs] at this
            simp only [List.length_cons] at this
            omega
          cases hR : B ++ A with
          | nil => rw [hR] at hRlen; simp at hRlen
          | cons r0 Rt =>
            rw [hR] at hcx hxR hyR hRnd hmemR
            have hch := hcx.chain
            simp only [List.cons_append] at hch
            obtain ⟨cxy, cyr, hchR⟩ := hch
            obtain ⟨hchRt, hlast⟩ := B1Chain.last Rt r0 x hchR
            have hrlm := C14.getLastD_mem Rt r0
            have hrld := C14.getLastD_not_mem_dropLast Rt r0 hRnd
            have hx0 : x ≠ 0 := hcx.nz x (by simp)
            have hrllt : Rt.getLastD r0 < m.n :=
              hi.wf.toSized.lt_of_β_ne (i := 1) (by omega) (by rw [hlast]; exact hx0)
            have hb0 : m.β 0 x = Rt.getLastD r0 := by
              have := hi.wf.inv01 _ hrllt (by rw [hlast]; exact hx0)
              rw [hlast] at this; exact this
            have hyrl : y ≠ Rt.getLastD r0 := fun hh => hyR (hh ▸ hrlm)
            have hxrl : x ≠ Rt.getLastD r0 := fun hh => hxR (hh ▸ hrlm)
            -- the seven operations
            obtain ⟨_, _, k1⟩ := rB_ok hi h
            obtain ⟨_, _, k2⟩ := rB_ok hi k1
            rw [hb0, cyr] at k2
            obtain ⟨_, m1, s1, k3⟩ := run_bind_ok k2
            obtain ⟨i1, lrl, lx, e1⟩ := oneUnsew2_eff cfg nn hi s1
            rw [hlast] at lx e1
            obtain ⟨_, m2, s2, k4⟩ := run_bind_ok k3
            obtain ⟨i2, ly, lr0, e2⟩ := oneUnsew2_eff cfg nn i1 s2
            have hm1y : m1.β 1 y = r0 := by
              rw [e1, if_neg (fun hh => absurd hh.1 (by decide)), if_neg (fun hh => hyrl hh.2.symm), cyr]
            rw [hm1y] at lr0 e2
            obtain ⟨_, m3, s3, k5⟩ := run_bind_ok k4
            obtain ⟨i3, _, _, e3⟩ := oneSew2_eff cfg nn i2 ly l1 s3
            obtain ⟨_, m4, s4, k6⟩ := run_bind_ok k5
            obtain ⟨i4, _, _, e4⟩ := oneSew2_eff cfg nn i3 l1 lx s4
            obtain ⟨_, m5, s5, k7⟩ := run_bind_ok k6
            obtain ⟨i5, _, _, e5⟩ := oneSew2_eff cfg nn i4 lrl l2 s5
            obtain ⟨_, m6, s6, k8⟩ := run_bind_ok k7
            obtain ⟨i6, _, _, e6⟩ := oneSew2_eff cfg nn i5 l2 lr0 s6
            obtain ⟨_, m7, s7, k9⟩ := run_bind_ok k8
            obtain ⟨i7, _, _, e7⟩ := twoSew2_eff cfg nn i6 l1 l2 hne s7
            have b1 : ∀ z, m7.β 1 z = if nd2 = z then r0 else if Rt.getLastD r0 = z then nd2 else
                if nd1 = z then x else if y = z then nd1 else if y = z then 0 else
                if Rt.getLastD r0 = z then 0 else m.β 1 z := by
              intro z
              rw [e7, e6, e5, e4, e3, e2, e1]
              simp only [show ¬ (0 = 1) by decide, show ¬ (2 = 1) by decide, false_and, if_false, true_and]
            -- spare darts are not darts of the face
            have hnd1d : ∀ z, z ∈ darts → nd1 ≠ z := fun z hz hh => hn1 (hh ▸ hz)
            have hnd2d : ∀ z, z ∈ darts → nd2 ≠ z := fun z hz hh => hn2 (hh ▸ hz)
            have hrld' : Rt.getLastD r0 ∈ darts := hmemR _ hrlm
            -- the new face nd2 → R → nd2
            have hcf : ClosedFace m7 nd2 (r0 :: Rt) := by
              refine ⟨?_, ?_, ?_⟩
              · simp only [List.cons_append]
                refine ⟨by rw [b1, if_pos rfl], ?_⟩
                refine B1Chain.snoc Rt r0 nd2 (B1Chain.frame Rt r0 hchRt fun z hz => ?_) ?_
                · have hzR : z ∈ r0 :: Rt := List.dropLast_subset _ hz
                  have hzd := hmemR z hzR
                  have hzl : Rt.getLastD r0 ≠ z := fun hh => hrld (hh ▸ hz)
                  have hzy : y ≠ z := fun hh => hyR (hh ▸ hzR)
                  rw [b1, if_neg (hnd2d z hzd), if_neg hzl, if_neg (hnd1d z hzd), if_neg hzy, if_neg hzy, if_neg hzl]
                · rw [b1, if_neg (hnd2d _ hrld'), if_pos rfl]
              · simp only [List.nodup_cons]
                exact ⟨fun hh => hn2 (hmemR _ hh), List.nodup_cons.1 hRnd⟩
              · intro z hz
                simp only [List.mem_cons] at hz
                rcases hz with rfl | hz
                · exact l2.1
                · exact hcx.nz z (by simp only [List.mem_cons]; right; right; exact hz)
            rw [← hR] at hcf
            -- the kernel's vector after the surgery, and the face in its order
            have hsurg : dartSurgery darts ear nd2 = A ++ nd2 :: B := by
              rw [hsplit, ← hA]; exact dartSurgery_eq A B x y nd2
            have hcyc' : ∃ d0' rest'', dartSurgery darts ear nd2 = d0' :: rest'' ∧ ClosedFace m7 d0' rest'' := by
              rw [hsurg]
              cases A with
              | nil => exact ⟨nd2, B, rfl, by simpa using hcf⟩
              | cons a0 A' =>
                  refine ⟨a0, A' ++ nd2 :: B, by simp, ?_⟩
                  exact hcf.rotate_at
            obtain ⟨d0', rest'', hd', hc'⟩ := hcyc'
            have hsub' : ∀ z, z ∈ dartSurgery darts ear nd2 → z ∈ darts ∨ z = nd2 := by
              intro z hz
              rw [hsurg] at hz
              rw [hsplit]
              simp only [List.mem_append, List.mem_cons] at hz ⊢
              rcases hz with c | c | c
              · exact Or.inl (Or.inl c)
              · exact Or.inr c
              · exact Or.inl (Or.inr (Or.inr (Or.inr c)))
            have hxS : x ∉ dartSurgery darts ear nd2 := by
              rw [hsurg]
              have := hdnd
              rw [hsplit] at this
              have hx2 : x ≠ nd2 := fun hh => hn2 (hh ▸ hxd)
              simp only [List.mem_append, List.mem_cons, not_or]
              have h1 := (List.nodup_append.1 this)
              have h2 := h1.2.1
              simp only [List.nodup_cons, List.mem_cons, not_or] at h2
              exact ⟨fun hh => h1.2.2 x hh x (by simp) rfl, hx2, h2.1.2⟩
            have hyS : y ∉ dartSurgery darts ear nd2 := by
              rw [hsurg]
              have := hdnd
              rw [hsplit] at this
              have hy2 : y ≠ nd2 := fun hh => hn2 (hh ▸ hyd)
              simp only [List.mem_append, List.mem_cons, not_or]
              have h1 := (List.nodup_append.1 this)
              have h2 := h1.2.1
              simp only [List.nodup_cons, List.mem_cons, not_or] at h2
              exact ⟨fun hh => h1.2.2 y hh y (by simp) rfl, hy2, h2.2.1⟩
            have hlen' : (dartSurgery darts ear nd2).length = (vs.eraseIdx (ear + 1)).length := by
              rw [hsurg, List.length_eraseIdx, if_pos hearlt, ← hlen, hsplit]
              simp
            obtain ⟨j1, j2, j3, j4⟩ := ih (dartSurgery darts ear nd2) (vs.eraseIdx (ear + 1)) m7 m' d0' rest'' i7 hd' hc'
              hlen' (by rw [List.length_eraseIdx, if_pos hearlt, hvs]; simp) hsnd.2.2
              (fun z hz => ⟨(hsp z (by simp [hz])).1, fun hh => by
                rcases hsub' z hh with c | c
                · exact (hsp z (by simp [hz])).2 c
                · exact hsnd.2.1 (c ▸ hz)⟩) hears' k9
            have hnd1S : nd1 ∉ dartSurgery darts ear nd2 := fun hh => by
              rcases hsub' nd1 hh with c | c
              · exact hn1 c
              · exact hne c
            have hxsp : x ∉ sparesOf rest' := fun hh => (hsp x (by simp [hh])).2 hxd
            have hysp : y ∉ sparesOf rest' := fun hh => (hsp y (by simp [hh])).2 hyd
            refine ⟨j1, ?_, ?_, ?_⟩
            · intro t ht
              simp only [earTris, hf, hmod, hgx, hgy, List.mem_cons] at ht
              rcases ht with rfl | ht
              · refine ⟨?_, ?_, ?_⟩
                · show m'.β 1 x = y
                  rw [j4 x hxS hxsp, b1, if_neg (hnd2d x hxd), if_neg (fun hh => hxrl hh.symm), if_neg (hnd1d x hxd),
                    if_neg (fun hh => hxy hh.symm), if_neg (fun hh => hxy hh.symm), if_neg (fun hh => hxrl hh.symm), cxy]
                · show m'.β 1 y = nd1
                  rw [j4 y hyS hysp, b1, if_neg (hnd2d y hyd), if_neg (fun hh => hyrl hh.symm), if_neg (hnd1d y hyd),
                    if_pos rfl]
                · show m'.β 1 nd1 = x
                  rw [j4 nd1 hnd1S hsnd.1.2, b1, if_neg (fun hh => hne hh.symm), if_neg (hnd1d _ hrld').symm,
                    if_pos rfl]
              · exact j2 t ht
            · simp only [earTris, hf, hmod, List.length_cons, j3]
            · intro z hz1 hz2
              rw [sparesOf_cons] at hz2
              simp only [List.mem_cons, not_or] at hz2
              have hzS : z ∉ dartSurgery darts ear nd2 := fun hh => by
                rcases hsub' z hh with c | c
                · exact hz1 c
                · exact hz2.2.1 c
              have hzl : Rt.getLastD r0 ≠ z := fun hh => hz1 (hh ▸ hrld')
              have hzy : y ≠ z := fun hh => hz1 (hh ▸ hyd)
              rw [j4 z hzS hz2.2.2, b1, if_neg (fun hh => hz2.2.1 hh.symm), if_neg hzl,
                if_neg (fun hh => hz2.1 hh.symm), if_neg hzy, if_neg hzy, if_neg hzl]

/-! ## the theorem -/

/-- **C13, exact face structure after ear clipping**: on a closed face `face :: rest` (its darts in β1 order, which is
    the order in which the kernel enumerates them: `closedFace_orbit_eq`) with `n ≥ 4` darts and `2(n-3)` live, free,
    pairwise distinct spare darts outside the face, a successful `earclip_cell_*` whose ears are never found at the
    last index (`EarsNotLast`, a decidable condition on the vertex list; see there) leaves
    * exactly the `n − 2` triangles of `earTris` — per spare pair `(nd1, nd2)` the ear `(darts[ear], darts[ear+1], nd1)`
      read from the kernel's own dart vector, and finally the last three darts — each a closed β1-cycle of three darts;
    * a well-formed map; every β image of every dart outside face ∪ spares unchanged; β2 of every other dart than the
      spare darts — in particular of every side of the polygon — unchanged; the spare darts 2-linked pair by pair
      (`C13_earclip_frame`). -/
theorem C13_earclip_structure (cfg : Cfg Val) (inside : P2 → P2 → P2 → Bool) (m m' : Map Val) (face : Nat)
    (nds : List Nat) (rest : List Nat) (hwf : WF 3 m) (hc : ClosedFace m face rest)
    (hsp : ∀ d ∈ nds, C01.InUse m d ∧ m.isFree 3 d = true ∧ d ∉ face :: rest) (hnd : nds.Nodup)
    (hears : ∀ vals, run (faceVertices m.n (face :: rest)) m = (.ok vals, m) →
      EarsNotLast inside (chunks2 nds).length (vals.map Val.p2))
    (h : run (earclipCell cfg m.n inside face nds) m = (.ok (), m')) :
    ∃ vals, run (faceVertices m.n (face :: rest)) m = (.ok vals, m) ∧ WF 3 m' ∧
      (∀ t ∈ earTris inside (chunks2 nds) (face :: rest) (vals.map Val.p2), TriFace m' t) ∧
      (earTris inside (chunks2 nds) (face :: rest) (vals.map Val.p2)).length = rest.length - 1 ∧
      (∀ i y, y ∉ face :: rest → y ∉ nds → m'.β i y = m.β i y) ∧
      (∀ y, y ∉ sparesOf (chunks2 nds) → m'.β 2 y = m.β 2 y) ∧
      (∀ c ∈ chunks2 nds, m'.β 2 c.1 = c.2 ∧ m'.β 2 c.2 = c.1) := by
  obtain ⟨hwf', hfr1, hfr2, hfr3⟩ := C13_earclip_frame cfg inside m m' face nds face rest hwf hc (by simp) hsp hnd h
  unfold earclipCell at h
  obtain ⟨darts, h1, h3⟩ := ro_bind_ok (readOnly_orbit2 m.n .faceLinear face) h
  have hdarts : darts = face :: rest := by
    have := closedFace_orbit_eq hwf hc
    rw [h1] at this
    simpa using this
  subst hdarts
  obtain ⟨vals, m2, h2, h4⟩ := run_bind_ok h3
  obtain ⟨hvl, hm2⟩ := faceVertices_length m.n _ _ _ _ h2
  subst hm2
  clear h h3
  cases hcr : checkRequirements (rest.length + 1) nds.length with
  | error e => simp [hcr] at h4
  | ok v =>
      have hcr' : checkRequirements (face :: rest).length nds.length = .ok v := hcr
      simp only [hcr'] at h4
      have hreq := (C13_check_requirements_ok_iff _ _).1 hcr
      have hk := chunks2_length nds
      have hsub := sparesOf_chunks2_sublist nds
      have hcl : (chunks2 nds).length + 3 = (face :: rest).length := by simp only [List.length_cons]; omega
      obtain ⟨_, j2, j3, _⟩ := earclipLoop_struct (n := m2.n) (u := m2.u) cfg m2.n inside (chunks2 nds) (face :: rest)
        (vals.map Val.p2) m2 m' face rest (Inv.of_wf hwf) rfl hc (by rw [List.length_map, hvl])
        (by rw [List.length_map, hvl]; exact hcl.symm)
        (hnd.sublist hsub)
        (fun x hx => ⟨(hsp x (hsub.subset hx)).1, (hsp x (hsub.subset hx)).2.2⟩) (hears vals h2) h4
      refine ⟨vals, h2, hwf', j2, ?_, hfr1, hfr2, hfr3⟩
      rw [j3]; simp only [List.length_cons] at hcl; omega

/-! ## the first side examined by the star search -/

/-- **C13 (e), exactly what the star test guarantees**: it accepts candidate `k` iff, `i0` being the first side not
    incident to `v_k` (smallest index), every OTHER non-incident side has the `signum` of side `i0` and a cross product
    of magnitude `≥ ε`.  Nothing is required of the magnitude of side `i0` itself: its cross product only has the
    common sign weakly (`C13_fan_star_sees_every_side`) and may vanish (`C13_fan_first_side_weak_witness`). -/
theorem C13_fan_test_iff (vs : List P2) (k : Nat) :
    fanTest vs k = some true ↔
      ∃ i0 rest, fanSegs vs.length k = i0 :: rest ∧
        ∀ i ∈ rest, sideSignum vs k i = sideSignum vs k i0 ∧ ¬ ratAbs (sideCross vs k i) < eps := by
  constructor
  · intro h
    obtain ⟨i0, rest, a, _, c⟩ := fanTest_true h
    exact ⟨i0, rest, a, c⟩
  · rintro ⟨i0, rest, hs, hall⟩
    unfold fanTest
    simp only [hs, List.map_cons, Option.some.injEq, List.all_eq_true, List.mem_map, Bool.and_eq_true,
      decide_eq_true_eq, Bool.not_eq_true', decide_eq_false_iff_not, forall_exists_index, and_imp]
    intro cz i hi hcz
    subst hcz
    obtain ⟨a, b⟩ := hall i hi
    unfold sideSignum sideCross at a
    unfold sideCross at b
    exact ⟨a, b⟩

/-- a quadrilateral whose vertices 0, 1, 2 are collinear -/
def flatQuad : List P2 := [⟨0, 0⟩, ⟨1, 0⟩, ⟨2, 0⟩, ⟨1, 2⟩]

/-- **the weak sign on the first side is tight**: the star test accepts apex 0 of `flatQuad` although the triangle
    `(v0, v1, v2)` over its first examined side is degenerate (cross product 0, `signum(+0.0) = 1`); the fan then
    contains a triangle of area 0 -/
theorem C13_fan_first_side_weak_witness :
    fanTest flatQuad 0 = some true ∧ fanStar flatQuad = some (some 0) ∧ sideCross flatQuad 0 1 = 0 ∧
    (fanTriangles flatQuad 0).map tri2 = [0, 4] := by decide +kernel

/-! ## non-vacuity -/

/-- the pentagon of `d7Map`: the ears are found at indices 1 and 0 (never last); the triangles are (2,3,6), (1,7,8)
    and (9,4,5), as the kernel's vectors say -/
example : EarsNotLast insideCCW 2 d7Pentagon := by decide +kernel

example : earTris insideCCW [(6, 7), (8, 9)] [1, 2, 3, 4, 5] d7Pentagon = [(2, 3, 6), (1, 7, 8), (9, 4, 5)] := by
  decide +kernel

example : ∀ t ∈ [(2, 3, 6), (1, 7, 8), (9, 4, 5)],
    TriFace (run (earclipCell (stdCfg 3 0) d7Map.n insideCCW 1 [6, 7, 8, 9]) d7Map).2 t := by decide +kernel

example : ∃ vals, run (faceVertices d7Map.n [1, 2, 3, 4, 5]) d7Map = (.ok vals, d7Map) ∧
    WF 3 (run (earclipCell (stdCfg 3 0) d7Map.n insideCCW 1 [6, 7, 8, 9]) d7Map).2 ∧
    (∀ t ∈ earTris insideCCW (chunks2 [6, 7, 8, 9]) [1, 2, 3, 4, 5] (vals.map Val.p2),
      TriFace (run (earclipCell (stdCfg 3 0) d7Map.n insideCCW 1 [6, 7, 8, 9]) d7Map).2 t) := by
  obtain ⟨vals, a, b, c, _⟩ := C13_earclip_structure (stdCfg 3 0) insideCCW d7Map _ 1 [6, 7, 8, 9] [2, 3, 4, 5]
    (by decide +kernel) ⟨by decide +kernel, by decide, by decide⟩ (by decide +kernel) (by decide)
    (by
      intro vals hv
      have : (run (faceVertices d7Map.n [1, 2, 3, 4, 5]) d7Map).1
          = .ok [.pt 0 0 0, .pt 2 1 0, .pt 4 0 0, .pt 4 4 0, .pt 0 4 0] := by decide +kernel
      rw [hv] at this
      simp only [Out.ok.injEq] at this
      subst this
      decide +kernel)
    (ok_of_fst (by decide +kernel))
  exact ⟨vals, a, b, c⟩

end HC.C13
