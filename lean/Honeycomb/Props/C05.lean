/-
  C05 — 3-D sew/unsew keep embedded data attached to the right cells.

  What is proved here (for EVERY attribute configuration `cfg`: any number of storages, any laws,
  any registration order; no fault injection, `fc = 0`; model `Model/Ops3.lean` of
  `honeycomb-core/src/cmap/dim3/sews/**`, state of /repo after the `fix:` commits):

  (a) topological effect (`C05_*_topology`, all six operations): a successful `one_sew`,
      `two_sew`, `three_sew` (`one_unsew`, …) changes β exactly as the 3-D `one_link`, the 2-link
      core, `three_link` (…) do, and touches neither flags nor sizes (`SameTopo` with the state the
      link produces); a link / unlink itself never touches a value (`C05_links_keep_data`);
  (b) data placement, relative to the identifiers the operation computes (`vertex_id_transac`,
      `edge_id_transac`, the face orbits; their meaning "smallest dart of the cell" is C03): in
      every storage bound to the cell kind — built-in vertices and user storages alike,
      independently of each other — the new id carries `merge*(old₁, old₂)`, both old ids are
      cleared unless they are the new id, EVERY other slot of EVERY storage is unchanged (frame);
      when both old ids coincide no law is called and the value only moves (`MergedIn.moved`);
      unsews are the mirror image with `split*` (`SplitIn`):
      * `C05_oneSew3_effect`, `C05_oneUnsew3_effect` (the vertex read through β3, else β2; the new
        id is `min` of the two old ones; the split is skipped when both new ids coincide);
      * `C05_twoSew3_free/left/right/both`, `C05_twoUnsew3_effect` (edge ids through the ⟨β2, β3⟩
        orbit, old ids before / new id after the link);
      * `C05_threeSew3_effect`: the face merge into `min(lface, rface)`, then the (edge, edge) and
        (vertex, vertex) id pairs collected BEFORE linking (`Collected`: exactly the pairs the code
        records for the zipped face walks), filtered as the code filters (`keepPair`), each merged
        into its `min`, as a chain of `MergedIn` (`MergedPairs`);
      * `C05_threeUnsew3_effect`: the 3-unlink, the face split from `min(lface, rface)`, then for
        each pair of the zipped walks the edge split and the vertex split(s) from the `min` of the
        two ids (`UnsewnPairs`).
  (c) the proviso of the property on a chain of merges (`MergedPairs.spec`,
      `C05_threeSew3_vertices`): when no identifier takes part in two kept pairs, every kept pair
      `(a, b)` ends with `merge*` of the two values held BEFORE the call at `min a b` and nothing
      at `max a b`; identifiers in no pair keep their value.  Refusals of non-mirrorable faces are
      C02 (`C02_refusal_sew`).

  NOT PROVED here:
  * the identification of the ids with cells ("the new cell is the union of the two old cells and
    `min` of the two ids is its id"; for 3-sews: "the collected pairs are exactly the pairs of
    cells united by the 3-link on closed faces") — evaluated by the oracle of tools/props/c05.py on
    the real implementation (cells recomputed independently from the β arrays).  For 1-sews /
    1-unsews it IS proved, in Props/C05Cells.lean (`C05_oneSew3_cells`, `C05_oneUnsew3_cells`,
    `C05_vertexId3_is_cell_min`) — since /repo e8bc83e repaired D13 (before it `vertex_id_transac`
    did not traverse `β2∘β3`; on the open 3-sewn face the ids these theorems speak about were not
    the smallest darts of the vertex cells and a vertex value could be parked under a stale id);
  * that chains of merges touching the SAME cell twice (ring closing; the property's proviso)
    compose to the expected value — the chain itself (`MergedPairs`) is exact, its interpretation
    is not attempted;
  * "unsew succeeds on any sewn dart of a fully embedded mesh" (needs the cell calculus): oracle.
-/
import Honeycomb.Lemmas.Sew3
import Honeycomb.Props.C04
import Honeycomb.Props.C02

set_option linter.unusedSimpArgs false
set_option linter.unusedVariables false

namespace HC.C05
open HC
open HC.C04 (vStores eStores storagesOf_nodup vStores_nodup eStores_nodup run_mergeVertex run_splitVertex
  run_forM_single)
variable {X : Type}

/-- storages bound to faces -/
def fStores (cfg : Cfg X) : List Nat := storagesOf cfg 2

theorem fStores_nodup (cfg : Cfg X) : (fStores cfg).Nodup := storagesOf_nodup cfg 2

/-! ## (a) topological effect -/

/-- **C05 (a)**, 1-sew -/
theorem C05_oneSew3_topology (cfg : Cfg X) (n l r : Nat) (m m' : Map X) (u : Unit)
    (h : run (oneSew3 cfg n l r) m = (.ok u, m')) :
    ∃ m1, run (oneLink3 (X := X) l r) m = (.ok (), m1) ∧ SameTopo m1 m' :=
  oneSew3_topology cfg n l r m m' u h

/-- **C05 (a)**, 2-sew -/
theorem C05_twoSew3_topology (cfg : Cfg X) (n l r : Nat) (m m' : Map X) (u : Unit)
    (h : run (twoSew3 cfg n l r) m = (.ok u, m')) :
    ∃ m1, run (iLinkCore (X := X) 2 l r) m = (.ok (), m1) ∧ SameTopo m1 m' :=
  twoSew3_topology cfg n l r m m' u h

/-- **C05 (a)**, 3-sew -/
theorem C05_threeSew3_topology (cfg : Cfg X) (n ld rd : Nat) (m m' : Map X) (u : Unit)
    (h : run (threeSew3 cfg n ld rd) m = (.ok u, m')) :
    ∃ m1, run (threeLink3 (X := X) n ld rd) m = (.ok (), m1) ∧ SameTopo m1 m' :=
  threeSew3_topology cfg n ld rd m m' u h

/-- **C05 (a)**, 1-unsew -/
theorem C05_oneUnsew3_topology (cfg : Cfg X) (n l : Nat) (m m' : Map X) (u : Unit)
    (h : run (oneUnsew3 cfg n l) m = (.ok u, m')) :
    ∃ m1, run (oneUnlink3 (X := X) l) m = (.ok (), m1) ∧ SameTopo m1 m' :=
  oneUnsew3_topology cfg n l m m' u h

/-- **C05 (a)**, 2-unsew -/
theorem C05_twoUnsew3_topology (cfg : Cfg X) (n l : Nat) (m m' : Map X) (u : Unit)
    (h : run (twoUnsew3 cfg n l) m = (.ok u, m')) :
    ∃ m1, run (iUnlinkCore (X := X) 2 l) m = (.ok (), m1) ∧ SameTopo m1 m' :=
  twoUnsew3_topology cfg n l m m' u h

/-- **C05 (a)**, 3-unsew -/
theorem C05_threeUnsew3_topology (cfg : Cfg X) (n ld : Nat) (m m' : Map X) (u : Unit)
    (h : run (threeUnsew3 cfg n ld) m = (.ok u, m')) :
    ∃ m1, run (threeUnlink3 (X := X) n ld) m = (.ok (), m1) ∧ SameTopo m1 m' :=
  threeUnsew3_topology cfg n ld m m' u h

/-- the links themselves never touch a value: every slot of every storage is as before -/
theorem C05_links_keep_data (n l r : Nat) (m m' : Map X) (u : Unit) :
    (run (oneLink3 (X := X) l r) m = (.ok u, m') → m'.a = m.a) ∧
    (run (iLinkCore (X := X) 2 l r) m = (.ok u, m') → m'.a = m.a) ∧
    (run (threeLink3 (X := X) n l r) m = (.ok u, m') → m'.a = m.a) ∧
    (run (oneUnlink3 (X := X) l) m = (.ok u, m') → m'.a = m.a) ∧
    (run (iUnlinkCore (X := X) 2 l) m = (.ok u, m') → m'.a = m.a) ∧
    (run (threeUnlink3 (X := X) n l) m = (.ok u, m') → m'.a = m.a) :=
  ⟨fun h => ((topoOnly_oneLink3 l r).run_ok h).1, fun h => ((topoOnly_iLinkCore 2 l r).run_ok h).1,
   fun h => ((topoOnly_threeLink3 n l r).run_ok h).1, fun h => ((topoOnly_oneUnlink3 l).run_ok h).1,
   fun h => ((topoOnly_iUnlinkCore 2 l).run_ok h).1, fun h => ((topoOnly_threeUnlink3 n l).run_ok h).1⟩

/-! ## (b) 1-sew / 1-unsew -/

/-- the vertex id `one_sew` reads on the left-hand side: through β3, else through β2, else none -/
def LeftVid (n : Nat) (m : Map X) (l vl : Nat) : Prop :=
  (m.β 3 l ≠ 0 ∧ run (vertexId3 n (m.β 3 l)) m = (.ok vl, m)) ∨
  (m.β 3 l = 0 ∧ m.β 2 l ≠ 0 ∧ run (vertexId3 n (m.β 2 l)) m = (.ok vl, m)) ∨
  (m.β 3 l = 0 ∧ m.β 2 l = 0 ∧ vl = 0)

/-- **C05 (1-sew)**: the vertex on the left-hand side (read through β3, else β2) and the vertex of
    `r` are merged into the smaller of the two ids, in every vertex-bound storage; nothing is
    merged when `l` is 2- and 3-free -/
theorem C05_oneSew3_effect (cfg : Cfg X) (n l r : Nat) (m m' : Map X) (u : Unit) (hfc : m.fc = 0)
    (h : run (oneSew3 cfg n l r) m = (.ok u, m')) :
    ∃ vl vr m1, LeftVid n m l vl ∧ run (vertexId3 n r) m = (.ok vr, m) ∧
      run (oneLink3 (X := X) l r) m = (.ok (), m1) ∧ SameTopo m1 m' ∧
      ((vl = 0 ∧ m' = m1) ∨ (vl ≠ 0 ∧ MergedIn cfg (vStores cfg) (min vr vl) vl vr m1 m')) := by
  unfold oneSew3 at h
  obtain ⟨b3l, hb3, h⟩ := run_ro_bind_ok (ReadOnly.rB _ _) h
  obtain ⟨rfl, _, _⟩ := run_rB_ok hb3
  obtain ⟨b2l, hb2, h⟩ := run_ro_bind_ok (ReadOnly.rB _ _) h
  obtain ⟨rfl, _, _⟩ := run_rB_ok hb2
  have tail : ∀ vl, run (do
      let vr ← vertexId3 n r
      oneLink3 l r
      if vl ≠ 0 then do
        let nv := min vr vl
        mergeS cfg 0 nv vl vr
        mergeAttrs cfg 0 nv vl vr
      else pure ()) m = (.ok u, m') →
      ∃ vr m1, run (vertexId3 n r) m = (.ok vr, m) ∧
        run (oneLink3 (X := X) l r) m = (.ok (), m1) ∧ SameTopo m1 m' ∧
        ((vl = 0 ∧ m' = m1) ∨ (vl ≠ 0 ∧ MergedIn cfg (vStores cfg) (min vr vl) vl vr m1 m')) := by
    intro vl h
    obtain ⟨vr, hvr, h⟩ := run_ro_bind_ok (readOnly_vertexId3 _ _) h
    obtain ⟨_, m1, hl, h⟩ := run_bind_ok h
    refine ⟨vr, m1, hvr, hl, ?_⟩
    by_cases hv : vl ≠ 0
    · rw [if_pos hv] at h
      have h : run (forM_ (vStores cfg) (fun s => mergeS cfg s (min vr vl) vl vr)) m1 = (.ok u, m') := h
      have hm := forM_merge_ok cfg (min vr vl) vl vr (vStores cfg) m1 m' u (vStores_nodup cfg)
        (by rw [((topoOnly_oneLink3 l r).run_ok hl).2]; exact hfc) h
      exact ⟨hm.topo, Or.inr ⟨hv, hm⟩⟩
    · rw [if_neg hv] at h
      obtain ⟨_, rfl⟩ := run_pure_ok h
      exact ⟨SameTopo.refl _, Or.inl ⟨by omega, rfl⟩⟩
  by_cases c1 : m.β 3 l ≠ 0
  · simp only [if_pos c1] at h
    obtain ⟨vl, hvl, h⟩ := run_ro_bind_ok (readOnly_vertexId3 _ _) h
    obtain ⟨vr, m1, a, b, c, d⟩ := tail vl h
    exact ⟨vl, vr, m1, Or.inl ⟨c1, hvl⟩, a, b, c, d⟩
  · simp only [if_neg c1] at h
    have c1' : m.β 3 l = 0 := by omega
    by_cases c2 : m.β 2 l ≠ 0
    · simp only [if_pos c2] at h
      obtain ⟨vl, hvl, h⟩ := run_ro_bind_ok (readOnly_vertexId3 _ _) h
      obtain ⟨vr, m1, a, b, c, d⟩ := tail vl h
      exact ⟨vl, vr, m1, Or.inr (Or.inl ⟨c1', c2, hvl⟩), a, b, c, d⟩
    · simp only [if_neg c2] at h
      obtain ⟨vl, hvl, h⟩ := run_ro_bind_ok (ReadOnly.pure _) h
      obtain ⟨hvl0, _⟩ := run_pure_ok hvl
      obtain ⟨vr, m1, a, b, c, d⟩ := tail vl h
      exact ⟨vl, vr, m1, Or.inr (Or.inr ⟨c1', by omega, hvl0⟩), a, b, c, d⟩

/-- **C05 (1-unsew)**: after the 3-D 1-unlink, when `l` is still 2- or 3-linked, the old vertex
    value is split between the vertex on the left-hand side (read through β2, else β3) and the
    vertex of `r = β1 l`, in every vertex-bound storage — unless both are still the same vertex,
    in which case nothing is touched -/
theorem C05_oneUnsew3_effect (cfg : Cfg X) (n l : Nat) (m m' : Map X) (u : Unit) (hfc : m.fc = 0)
    (h : run (oneUnsew3 cfg n l) m = (.ok u, m')) :
    ∃ vold m1, run (vertexId3 n (m.β 1 l)) m = (.ok vold, m) ∧
      run (oneUnlink3 (X := X) l) m = (.ok (), m1) ∧ SameTopo m1 m' ∧
      ((m1.β 2 l = 0 ∧ m1.β 3 l = 0 ∧ m' = m1) ∨
       (¬ (m1.β 2 l = 0 ∧ m1.β 3 l = 0) ∧ ∃ vl vr,
          run (vertexId3 n (if m1.β 2 l ≠ 0 then m1.β 2 l else m1.β 3 l)) m1 = (.ok vl, m1) ∧
          run (vertexId3 n (m.β 1 l)) m1 = (.ok vr, m1) ∧
          ((vl = vr ∧ m' = m1) ∨ (vl ≠ vr ∧ SplitIn cfg (vStores cfg) vl vr vold m1 m')))) := by
  unfold oneUnsew3 at h
  obtain ⟨r, hr, h⟩ := run_ro_bind_ok (ReadOnly.rB _ _) h
  obtain ⟨rfl, _, _⟩ := run_rB_ok hr
  obtain ⟨vold, hvold, h⟩ := run_ro_bind_ok (readOnly_vertexId3 _ _) h
  obtain ⟨_, m1, hl, h⟩ := run_bind_ok h
  refine ⟨vold, m1, hvold, hl, ?_⟩
  obtain ⟨b2l, hb2, h⟩ := run_ro_bind_ok (ReadOnly.rB _ _) h
  obtain ⟨rfl, _, _⟩ := run_rB_ok hb2
  obtain ⟨b3l, hb3, h⟩ := run_ro_bind_ok (ReadOnly.rB _ _) h
  obtain ⟨rfl, _, _⟩ := run_rB_ok hb3
  by_cases c : m1.β 2 l = 0 ∧ m1.β 3 l = 0
  · rw [if_pos c] at h
    obtain ⟨_, rfl⟩ := run_pure_ok h
    exact ⟨SameTopo.refl _, Or.inl ⟨c.1, c.2, rfl⟩⟩
  · rw [if_neg c] at h
    obtain ⟨vl, hvl, h⟩ := run_ro_bind_ok (readOnly_vertexId3 _ _) h
    obtain ⟨vr, hvr, h⟩ := run_ro_bind_ok (readOnly_vertexId3 _ _) h
    by_cases hv : vl ≠ vr
    · rw [if_pos hv] at h
      have h : run (forM_ (vStores cfg) (fun s => splitS cfg s vl vr vold)) m1 = (.ok u, m') := h
      have hm := forM_split_ok cfg vl vr vold (vStores cfg) m1 m' u (vStores_nodup cfg)
        (by rw [((topoOnly_oneUnlink3 l).run_ok hl).2]; exact hfc) h
      exact ⟨hm.topo, Or.inr ⟨c, vl, vr, hvl, hvr, Or.inr ⟨hv, hm⟩⟩⟩
    · rw [if_neg hv] at h
      obtain ⟨_, rfl⟩ := run_pure_ok h
      exact ⟨SameTopo.refl _, Or.inr ⟨c, vl, vr, hvl, hvr, Or.inl ⟨by omega, rfl⟩⟩⟩


/-! ## (b) 2-sew -/

theorem linkI_fc0 {i l r : Nat} {m m1 : Map X} {u : Unit} (hfc : m.fc = 0)
    (h : run (iLinkCore (X := X) i l r) m = (.ok u, m1)) : m1.fc = 0 := by
  rw [((topoOnly_iLinkCore i l r).run_ok h).2]; exact hfc

theorem unlinkI_fc0 {i l : Nat} {m m1 : Map X} {u : Unit} (hfc : m.fc = 0)
    (h : run (iUnlinkCore (X := X) i l) m = (.ok u, m1)) : m1.fc = 0 := by
  rw [((topoOnly_iUnlinkCore i l).run_ok h).2]; exact hfc

/-- **C05 (2-sew, both darts 1-free)**: only the edge storages are merged: old edge ids before the
    link, new edge id after it -/
theorem C05_twoSew3_free (cfg : Cfg X) (n l r : Nat) (m m' : Map X) (u : Unit) (hfc : m.fc = 0)
    (hl0 : m.β 1 l = 0) (hr0 : m.β 1 r = 0)
    (h : run (twoSew3 cfg n l r) m = (.ok u, m')) :
    ∃ el er m1 en, run (edgeId3 n l) m = (.ok el, m) ∧ run (edgeId3 n r) m = (.ok er, m) ∧
      run (iLinkCore (X := X) 2 l r) m = (.ok (), m1) ∧ run (edgeId3 n l) m1 = (.ok en, m1) ∧
      MergedIn cfg (eStores cfg) en el er m1 m' := by
  unfold twoSew3 at h
  obtain ⟨b1l, hb, h⟩ := run_ro_bind_ok (ReadOnly.rB _ _) h
  obtain ⟨rfl, _, _⟩ := run_rB_ok hb
  obtain ⟨b1r, hb', h⟩ := run_ro_bind_ok (ReadOnly.rB _ _) h
  obtain ⟨rfl, _, _⟩ := run_rB_ok hb'
  simp only [hl0, hr0, and_self, if_true] at h
  obtain ⟨el, hel, h⟩ := run_ro_bind_ok (readOnly_edgeId3 _ _) h
  obtain ⟨er, her, h⟩ := run_ro_bind_ok (readOnly_edgeId3 _ _) h
  obtain ⟨_, m1, hl, h⟩ := run_bind_ok h
  obtain ⟨en, hen, h⟩ := run_ro_bind_ok (readOnly_edgeId3 _ _) h
  have h : run (forM_ (eStores cfg) (fun s => mergeS cfg s en el er)) m1 = (.ok u, m') := h
  exact ⟨el, er, m1, en, hel, her, hl, hen,
    forM_merge_ok cfg en el er _ m1 m' u (eStores_nodup cfg) (linkI_fc0 hfc hl) h⟩

/-- **C05 (2-sew, one vertex to merge)**: `l` is 1-free, `r` is not: the vertex of `l` and the
    vertex of `β1 r` are merged into the new vertex id of `l`, then the edge storages -/
theorem C05_twoSew3_left (cfg : Cfg X) (n l r : Nat) (m m' : Map X) (u : Unit) (hfc : m.fc = 0)
    (hl0 : m.β 1 l = 0) (hr0 : m.β 1 r ≠ 0)
    (h : run (twoSew3 cfg n l r) m = (.ok u, m')) :
    ∃ el er lv b1rv m1 lvn en ma,
      run (edgeId3 n l) m = (.ok el, m) ∧ run (edgeId3 n r) m = (.ok er, m) ∧
      run (vertexId3 n l) m = (.ok lv, m) ∧ run (vertexId3 n (m.β 1 r)) m = (.ok b1rv, m) ∧
      run (iLinkCore (X := X) 2 l r) m = (.ok (), m1) ∧
      run (vertexId3 n l) m1 = (.ok lvn, m1) ∧ run (edgeId3 n l) m1 = (.ok en, m1) ∧
      MergedIn cfg (vStores cfg) lvn lv b1rv m1 ma ∧ MergedIn cfg (eStores cfg) en el er ma m' := by
  unfold twoSew3 at h
  obtain ⟨b1l, hb, h⟩ := run_ro_bind_ok (ReadOnly.rB _ _) h
  obtain ⟨rfl, _, _⟩ := run_rB_ok hb
  obtain ⟨b1r, hb', h⟩ := run_ro_bind_ok (ReadOnly.rB _ _) h
  obtain ⟨rfl, _, _⟩ := run_rB_ok hb'
  simp only [hl0, hr0, and_false, if_false, if_true] at h
  obtain ⟨el, hel, h⟩ := run_ro_bind_ok (readOnly_edgeId3 _ _) h
  obtain ⟨er, her, h⟩ := run_ro_bind_ok (readOnly_edgeId3 _ _) h
  obtain ⟨lv, hlv, h⟩ := run_ro_bind_ok (readOnly_vertexId3 _ _) h
  obtain ⟨b1rv, hb1rv, h⟩ := run_ro_bind_ok (readOnly_vertexId3 _ _) h
  obtain ⟨_, m1, hl, h⟩ := run_bind_ok h
  obtain ⟨lvn, hlvn, h⟩ := run_ro_bind_ok (readOnly_vertexId3 _ _) h
  obtain ⟨en, hen, h⟩ := run_ro_bind_ok (readOnly_edgeId3 _ _) h
  obtain ⟨_, mA, hA, h⟩ := run_bind_ok h
  obtain ⟨_, mB, hB, h⟩ := run_bind_ok h
  have hfc1 : m1.fc = 0 := linkI_fc0 hfc hl
  have hv := forM_merge_ok cfg lvn lv b1rv _ m1 mB () (vStores_nodup cfg) hfc1 (run_mergeVertex cfg _ _ _ hA hB)
  have h : run (forM_ (eStores cfg) (fun s => mergeS cfg s en el er)) mB = (.ok u, m') := h
  have hE := forM_merge_ok cfg en el er _ mB m' u (eStores_nodup cfg) (by rw [hv.fc]; exact hfc1) h
  exact ⟨el, er, lv, b1rv, m1, lvn, en, mB, hel, her, hlv, hb1rv, hl, hlvn, hen, hv, hE⟩

/-- **C05 (2-sew, one vertex to merge)**, mirror case: `r` is 1-free, `l` is not -/
theorem C05_twoSew3_right (cfg : Cfg X) (n l r : Nat) (m m' : Map X) (u : Unit) (hfc : m.fc = 0)
    (hl0 : m.β 1 l ≠ 0) (hr0 : m.β 1 r = 0)
    (h : run (twoSew3 cfg n l r) m = (.ok u, m')) :
    ∃ el er b1lv rv m1 rvn en ma,
      run (edgeId3 n l) m = (.ok el, m) ∧ run (edgeId3 n r) m = (.ok er, m) ∧
      run (vertexId3 n (m.β 1 l)) m = (.ok b1lv, m) ∧ run (vertexId3 n r) m = (.ok rv, m) ∧
      run (iLinkCore (X := X) 2 l r) m = (.ok (), m1) ∧
      run (vertexId3 n r) m1 = (.ok rvn, m1) ∧ run (edgeId3 n l) m1 = (.ok en, m1) ∧
      MergedIn cfg (vStores cfg) rvn b1lv rv m1 ma ∧ MergedIn cfg (eStores cfg) en el er ma m' := by
  unfold twoSew3 at h
  obtain ⟨b1l, hb, h⟩ := run_ro_bind_ok (ReadOnly.rB _ _) h
  obtain ⟨rfl, _, _⟩ := run_rB_ok hb
  obtain ⟨b1r, hb', h⟩ := run_ro_bind_ok (ReadOnly.rB _ _) h
  obtain ⟨rfl, _, _⟩ := run_rB_ok hb'
  simp only [hl0, hr0, false_and, if_false, if_true] at h
  obtain ⟨el, hel, h⟩ := run_ro_bind_ok (readOnly_edgeId3 _ _) h
  obtain ⟨er, her, h⟩ := run_ro_bind_ok (readOnly_edgeId3 _ _) h
  obtain ⟨b1lv, hb1lv, h⟩ := run_ro_bind_ok (readOnly_vertexId3 _ _) h
  obtain ⟨rv, hrv, h⟩ := run_ro_bind_ok (readOnly_vertexId3 _ _) h
  obtain ⟨_, m1, hl, h⟩ := run_bind_ok h
  obtain ⟨rvn, hrvn, h⟩ := run_ro_bind_ok (readOnly_vertexId3 _ _) h
  obtain ⟨en, hen, h⟩ := run_ro_bind_ok (readOnly_edgeId3 _ _) h
  obtain ⟨_, mA, hA, h⟩ := run_bind_ok h
  obtain ⟨_, mB, hB, h⟩ := run_bind_ok h
  have hfc1 : m1.fc = 0 := linkI_fc0 hfc hl
  have hv := forM_merge_ok cfg rvn b1lv rv _ m1 mB () (vStores_nodup cfg) hfc1 (run_mergeVertex cfg _ _ _ hA hB)
  have h : run (forM_ (eStores cfg) (fun s => mergeS cfg s en el er)) mB = (.ok u, m') := h
  have hE := forM_merge_ok cfg en el er _ mB m' u (eStores_nodup cfg) (by rw [hv.fc]; exact hfc1) h
  exact ⟨el, er, b1lv, rv, m1, rvn, en, mB, hel, her, hb1lv, hrv, hl, hrvn, hen, hv, hE⟩

/-- **C05 (2-sew, both vertices to merge)**: both darts have a successor.  The orientation test
    passed (or was skipped because a coordinate is missing); the two vertex merges, then the edge
    merge, are applied — in the order of the code: built-in vertices (both ends), user vertex
    storages (both ends), edge storages. -/
theorem C05_twoSew3_both (cfg : Cfg X) (n l r : Nat) (m m' : Map X) (u : Unit) (hfc : m.fc = 0)
    (hl0 : m.β 1 l ≠ 0) (hr0 : m.β 1 r ≠ 0)
    (h : run (twoSew3 cfg n l r) m = (.ok u, m')) :
    ∃ el er lv b1rv b1lv rv m1 lvn rvn en ma mb mc md,
      run (edgeId3 n l) m = (.ok el, m) ∧ run (edgeId3 n r) m = (.ok er, m) ∧
      run (vertexId3 n l) m = (.ok lv, m) ∧ run (vertexId3 n (m.β 1 r)) m = (.ok b1rv, m) ∧
      run (vertexId3 n (m.β 1 l)) m = (.ok b1lv, m) ∧ run (vertexId3 n r) m = (.ok rv, m) ∧
      badPair cfg (m.att 0 lv) (m.att 0 b1rv) (m.att 0 b1lv) (m.att 0 rv) = false ∧
      run (iLinkCore (X := X) 2 l r) m = (.ok (), m1) ∧
      run (vertexId3 n l) m1 = (.ok lvn, m1) ∧ run (vertexId3 n r) m1 = (.ok rvn, m1) ∧
      run (edgeId3 n l) m1 = (.ok en, m1) ∧
      MergedIn cfg [0] lvn lv b1rv m1 ma ∧ MergedIn cfg [0] rvn b1lv rv ma mb ∧
      MergedIn cfg (storagesOf cfg 0) lvn lv b1rv mb mc ∧ MergedIn cfg (storagesOf cfg 0) rvn b1lv rv mc md ∧
      MergedIn cfg (eStores cfg) en el er md m' := by
  unfold twoSew3 at h
  obtain ⟨b1l, hb, h⟩ := run_ro_bind_ok (ReadOnly.rB _ _) h
  obtain ⟨rfl, _, _⟩ := run_rB_ok hb
  obtain ⟨b1r, hb', h⟩ := run_ro_bind_ok (ReadOnly.rB _ _) h
  obtain ⟨rfl, _, _⟩ := run_rB_ok hb'
  simp only [hl0, hr0, false_and, and_false, if_false] at h
  obtain ⟨el, hel, h⟩ := run_ro_bind_ok (readOnly_edgeId3 _ _) h
  obtain ⟨er, her, h⟩ := run_ro_bind_ok (readOnly_edgeId3 _ _) h
  obtain ⟨lv, hlv, h⟩ := run_ro_bind_ok (readOnly_vertexId3 _ _) h
  obtain ⟨b1rv, hb1rv, h⟩ := run_ro_bind_ok (readOnly_vertexId3 _ _) h
  obtain ⟨b1lv, hb1lv, h⟩ := run_ro_bind_ok (readOnly_vertexId3 _ _) h
  obtain ⟨rv, hrv, h⟩ := run_ro_bind_ok (readOnly_vertexId3 _ _) h
  obtain ⟨pl, hpl, h⟩ := run_ro_bind_ok (ReadOnly.rA _ _) h
  obtain ⟨rfl, _⟩ := C04.rA_ok hpl
  obtain ⟨pb1r, hpb1r, h⟩ := run_ro_bind_ok (ReadOnly.rA _ _) h
  obtain ⟨rfl, _⟩ := C04.rA_ok hpb1r
  obtain ⟨pb1l, hpb1l, h⟩ := run_ro_bind_ok (ReadOnly.rA _ _) h
  obtain ⟨rfl, _⟩ := C04.rA_ok hpb1l
  obtain ⟨pr, hpr, h⟩ := run_ro_bind_ok (ReadOnly.rA _ _) h
  obtain ⟨rfl, _⟩ := C04.rA_ok hpr
  try simp only [] at h
  obtain ⟨hnb, h⟩ := run_ite_abort_ok h
  have hbad : badPair cfg (m.att 0 lv) (m.att 0 b1rv) (m.att 0 b1lv) (m.att 0 rv) = false := by
    cases hb : badPair cfg (m.att 0 lv) (m.att 0 b1rv) (m.att 0 b1lv) (m.att 0 rv) with
    | false => rfl
    | true => exact absurd hb hnb
  obtain ⟨_, m1, hl, h⟩ := run_bind_ok h
  obtain ⟨lvn, hlvn, h⟩ := run_ro_bind_ok (readOnly_vertexId3 _ _) h
  obtain ⟨rvn, hrvn, h⟩ := run_ro_bind_ok (readOnly_vertexId3 _ _) h
  obtain ⟨en, hen, h⟩ := run_ro_bind_ok (readOnly_edgeId3 _ _) h
  obtain ⟨_, mA, hA, h⟩ := run_bind_ok h
  obtain ⟨_, mB, hB, h⟩ := run_bind_ok h
  obtain ⟨_, mC, hC, h⟩ := run_bind_ok h
  obtain ⟨_, mD, hD, h⟩ := run_bind_ok h
  have hfc1 : m1.fc = 0 := linkI_fc0 hfc hl
  have nd0 : ([0] : List Nat).Nodup := by simp
  have rA' := forM_merge_ok cfg lvn lv b1rv [0] m1 mA () nd0 hfc1 (by rw [run_forM_single]; exact hA)
  have fA : mA.fc = 0 := by rw [rA'.fc]; exact hfc1
  have rB' := forM_merge_ok cfg rvn b1lv rv [0] mA mB () nd0 fA (by rw [run_forM_single]; exact hB)
  have fB : mB.fc = 0 := by rw [rB'.fc]; exact fA
  have rC' := forM_merge_ok cfg lvn lv b1rv _ mB mC () (storagesOf_nodup cfg 0) fB hC
  have fC : mC.fc = 0 := by rw [rC'.fc]; exact fB
  have rD' := forM_merge_ok cfg rvn b1lv rv _ mC mD () (storagesOf_nodup cfg 0) fC hD
  have fD : mD.fc = 0 := by rw [rD'.fc]; exact fC
  have h : run (forM_ (eStores cfg) (fun s => mergeS cfg s en el er)) mD = (.ok u, m') := h
  have rE' := forM_merge_ok cfg en el er _ mD m' u (eStores_nodup cfg) fD h
  exact ⟨el, er, lv, b1rv, b1lv, rv, m1, lvn, rvn, en, mA, mB, mC, mD, hel, her, hlv, hb1rv, hb1lv, hrv,
    hbad, hl, hlvn, hrvn, hen, rA', rB', rC', rD', rE'⟩

/-! ## (b) 2-unsew -/

/-- **C05 (2-unsew)**: the four cases of `two_unsew`.  The topology changes exactly as the 2-unlink
    does; the edge storages split the old edge id into the two new edge ids (of `l` and of
    `r = β2 l`, recomputed after the unlink: the edges may still be joined through β3); then the
    vertex of `l` (when `r` has a successor) and the vertex of `r` (when `l` has one) are split, in
    every vertex-bound storage. -/
theorem C05_twoUnsew3_effect (cfg : Cfg X) (n l : Nat) (m m' : Map X) (u : Unit) (hfc : m.fc = 0)
    (h : run (twoUnsew3 cfg n l) m = (.ok u, m')) :
    ∃ eold m1 enl enr me,
      run (edgeId3 n l) m = (.ok eold, m) ∧
      run (iUnlinkCore (X := X) 2 l) m = (.ok (), m1) ∧
      run (edgeId3 n l) m1 = (.ok enl, m1) ∧ run (edgeId3 n (m.β 2 l)) m1 = (.ok enr, m1) ∧
      SplitIn cfg (eStores cfg) enl enr eold m1 me ∧ SameTopo m1 m' ∧
      ((m.β 1 l = 0 ∧ m.β 1 (m.β 2 l) = 0 ∧ m' = me) ∨
       (m.β 1 l = 0 ∧ m.β 1 (m.β 2 l) ≠ 0 ∧ ∃ lvold a b,
          run (vertexId3 n l) m = (.ok lvold, m) ∧
          run (vertexId3 n l) me = (.ok a, me) ∧ run (vertexId3 n (m.β 1 (m.β 2 l))) me = (.ok b, me) ∧
          SplitIn cfg (vStores cfg) a b lvold me m') ∨
       (m.β 1 l ≠ 0 ∧ m.β 1 (m.β 2 l) = 0 ∧ ∃ rvold a b,
          run (vertexId3 n (m.β 2 l)) m = (.ok rvold, m) ∧
          run (vertexId3 n (m.β 1 l)) me = (.ok a, me) ∧ run (vertexId3 n (m.β 2 l)) me = (.ok b, me) ∧
          SplitIn cfg (vStores cfg) a b rvold me m') ∨
       (m.β 1 l ≠ 0 ∧ m.β 1 (m.β 2 l) ≠ 0 ∧ ∃ lvold rvold a b c d ma mb mc,
          run (vertexId3 n l) m = (.ok lvold, m) ∧ run (vertexId3 n (m.β 2 l)) m = (.ok rvold, m) ∧
          run (vertexId3 n l) me = (.ok a, me) ∧ run (vertexId3 n (m.β 1 (m.β 2 l))) me = (.ok b, me) ∧
          run (vertexId3 n (m.β 1 l)) me = (.ok c, me) ∧ run (vertexId3 n (m.β 2 l)) me = (.ok d, me) ∧
          SplitIn cfg [0] a b lvold me ma ∧ SplitIn cfg [0] c d rvold ma mb ∧
          SplitIn cfg (storagesOf cfg 0) a b lvold mb mc ∧ SplitIn cfg (storagesOf cfg 0) c d rvold mc m')) := by
  unfold twoUnsew3 at h
  obtain ⟨r, hr, h⟩ := run_ro_bind_ok (ReadOnly.rB _ _) h
  obtain ⟨rfl, _, _⟩ := run_rB_ok hr
  obtain ⟨b1l, hb, h⟩ := run_ro_bind_ok (ReadOnly.rB _ _) h
  obtain ⟨rfl, _, _⟩ := run_rB_ok hb
  obtain ⟨b1r, hb', h⟩ := run_ro_bind_ok (ReadOnly.rB _ _) h
  obtain ⟨rfl, _, _⟩ := run_rB_ok hb'
  by_cases c1 : m.β 1 l = 0 ∧ m.β 1 (m.β 2 l) = 0
  · rw [if_pos c1] at h
    obtain ⟨eold, he, h⟩ := run_ro_bind_ok (readOnly_edgeId3 _ _) h
    obtain ⟨_, m1, hl, h⟩ := run_bind_ok h
    have hfc1 : m1.fc = 0 := unlinkI_fc0 hfc hl
    obtain ⟨enl, henl, h⟩ := run_ro_bind_ok (readOnly_edgeId3 _ _) h
    obtain ⟨enr, henr, h⟩ := run_ro_bind_ok (readOnly_edgeId3 _ _) h
    have h : run (forM_ (eStores cfg) (fun s => splitS cfg s enl enr eold)) m1 = (.ok u, m') := h
    have hE := forM_split_ok cfg enl enr eold _ m1 m' u (eStores_nodup cfg) hfc1 h
    exact ⟨eold, m1, enl, enr, m', he, hl, henl, henr, hE, hE.topo, Or.inl ⟨c1.1, c1.2, rfl⟩⟩
  · rw [if_neg c1] at h
    by_cases c2 : m.β 1 l = 0
    · rw [if_pos c2] at h
      have c2' : m.β 1 (m.β 2 l) ≠ 0 := fun hh => c1 ⟨c2, hh⟩
      obtain ⟨eold, he, h⟩ := run_ro_bind_ok (readOnly_edgeId3 _ _) h
      obtain ⟨lvold, hlv, h⟩ := run_ro_bind_ok (readOnly_vertexId3 _ _) h
      obtain ⟨_, m1, hl, h⟩ := run_bind_ok h
      have hfc1 : m1.fc = 0 := unlinkI_fc0 hfc hl
      obtain ⟨enl, henl, h⟩ := run_ro_bind_ok (readOnly_edgeId3 _ _) h
      obtain ⟨enr, henr, h⟩ := run_ro_bind_ok (readOnly_edgeId3 _ _) h
      obtain ⟨_, me, hE0, h⟩ := run_bind_ok h
      have hE := forM_split_ok cfg enl enr eold _ m1 me () (eStores_nodup cfg) hfc1 hE0
      have hfce : me.fc = 0 := by rw [hE.fc]; exact hfc1
      obtain ⟨a, ha, h⟩ := run_ro_bind_ok (readOnly_vertexId3 _ _) h
      obtain ⟨b, hb2, h⟩ := run_ro_bind_ok (readOnly_vertexId3 _ _) h
      have h : run (forM_ (vStores cfg) (fun s => splitS cfg s a b lvold)) me = (.ok u, m') := h
      have hV := forM_split_ok cfg a b lvold _ me m' u (vStores_nodup cfg) hfce h
      exact ⟨eold, m1, enl, enr, me, he, hl, henl, henr, hE, hE.topo.trans hV.topo,
        Or.inr (Or.inl ⟨c2, c2', lvold, a, b, hlv, ha, hb2, hV⟩)⟩
    · rw [if_neg c2] at h
      by_cases c3 : m.β 1 (m.β 2 l) = 0
      · rw [if_pos c3] at h
        obtain ⟨eold, he, h⟩ := run_ro_bind_ok (readOnly_edgeId3 _ _) h
        obtain ⟨rvold, hrv, h⟩ := run_ro_bind_ok (readOnly_vertexId3 _ _) h
        obtain ⟨_, m1, hl, h⟩ := run_bind_ok h
        have hfc1 : m1.fc = 0 := unlinkI_fc0 hfc hl
        obtain ⟨enl, henl, h⟩ := run_ro_bind_ok (readOnly_edgeId3 _ _) h
        obtain ⟨enr, henr, h⟩ := run_ro_bind_ok (readOnly_edgeId3 _ _) h
        obtain ⟨_, me, hE0, h⟩ := run_bind_ok h
        have hE := forM_split_ok cfg enl enr eold _ m1 me () (eStores_nodup cfg) hfc1 hE0
        have hfce : me.fc = 0 := by rw [hE.fc]; exact hfc1
        obtain ⟨a, ha, h⟩ := run_ro_bind_ok (readOnly_vertexId3 _ _) h
        obtain ⟨b, hb2, h⟩ := run_ro_bind_ok (readOnly_vertexId3 _ _) h
        have h : run (forM_ (vStores cfg) (fun s => splitS cfg s a b rvold)) me = (.ok u, m') := h
        have hV := forM_split_ok cfg a b rvold _ me m' u (vStores_nodup cfg) hfce h
        exact ⟨eold, m1, enl, enr, me, he, hl, henl, henr, hE, hE.topo.trans hV.topo,
          Or.inr (Or.inr (Or.inl ⟨c2, c3, rvold, a, b, hrv, ha, hb2, hV⟩))⟩
      · rw [if_neg c3] at h
        obtain ⟨eold, he, h⟩ := run_ro_bind_ok (readOnly_edgeId3 _ _) h
        obtain ⟨lvold, hlv, h⟩ := run_ro_bind_ok (readOnly_vertexId3 _ _) h
        obtain ⟨rvold, hrv, h⟩ := run_ro_bind_ok (readOnly_vertexId3 _ _) h
        obtain ⟨_, m1, hl, h⟩ := run_bind_ok h
        have hfc1 : m1.fc = 0 := unlinkI_fc0 hfc hl
        obtain ⟨enl, henl, h⟩ := run_ro_bind_ok (readOnly_edgeId3 _ _) h
        obtain ⟨enr, henr, h⟩ := run_ro_bind_ok (readOnly_edgeId3 _ _) h
        obtain ⟨_, me, hE0, h⟩ := run_bind_ok h
        have hE := forM_split_ok cfg enl enr eold _ m1 me () (eStores_nodup cfg) hfc1 hE0
        have hfce : me.fc = 0 := by rw [hE.fc]; exact hfc1
        obtain ⟨a, ha, h⟩ := run_ro_bind_ok (readOnly_vertexId3 _ _) h
        obtain ⟨b, hb2, h⟩ := run_ro_bind_ok (readOnly_vertexId3 _ _) h
        obtain ⟨c, hc, h⟩ := run_ro_bind_ok (readOnly_vertexId3 _ _) h
        obtain ⟨d, hd, h⟩ := run_ro_bind_ok (readOnly_vertexId3 _ _) h
        obtain ⟨_, mA, hA, h⟩ := run_bind_ok h
        obtain ⟨_, mB, hB, h⟩ := run_bind_ok h
        obtain ⟨_, mC, hC, h⟩ := run_bind_ok h
        have nd0 : ([0] : List Nat).Nodup := by simp
        have rA' := forM_split_ok cfg a b lvold [0] me mA () nd0 hfce (by rw [run_forM_single]; exact hA)
        have fA : mA.fc = 0 := by rw [rA'.fc]; exact hfce
        have rB' := forM_split_ok cfg c d rvold [0] mA mB () nd0 fA (by rw [run_forM_single]; exact hB)
        have fB : mB.fc = 0 := by rw [rB'.fc]; exact fA
        have rC' := forM_split_ok cfg a b lvold _ mB mC () (storagesOf_nodup cfg 0) fB hC
        have fC : mC.fc = 0 := by rw [rC'.fc]; exact fB
        have rD' := forM_split_ok cfg c d rvold _ mC m' u (storagesOf_nodup cfg 0) fC h
        exact ⟨eold, m1, enl, enr, me, he, hl, henl, henr, hE,
          (((hE.topo.trans rA'.topo).trans rB'.topo).trans rC'.topo).trans rD'.topo,
          Or.inr (Or.inr (Or.inr ⟨c2, c3, lvold, rvold, a, b, c, d, mA, mB, mC, hlv, hrv, ha, hb2, hc, hd,
            rA', rB', rC', rD'⟩))⟩


/-! ## (b) 3-sew -/

/-- successive merges of id pairs, each into the smaller of its two ids, in every storage of `ss`
    (the `for (a, b) in pairs.filter(..) { merge(min(a, b), a, b) }` loops of `three_sew`) -/
inductive MergedPairs (cfg : Cfg X) (ss : List Nat) : List (Nat × Nat) → Map X → Map X → Prop
  | nil (m : Map X) : MergedPairs cfg ss [] m m
  | cons {p : Nat × Nat} {ps : List (Nat × Nat)} {m m1 m' : Map X} :
      MergedIn cfg ss (min p.1 p.2) p.1 p.2 m m1 → MergedPairs cfg ss ps m1 m' →
      MergedPairs cfg ss (p :: ps) m m'

theorem MergedPairs.topo {cfg : Cfg X} {ss : List Nat} {ps : List (Nat × Nat)} {m m' : Map X}
    (h : MergedPairs cfg ss ps m m') : SameTopo m m' ∧ m'.fc = m.fc := by
  induction h with
  | nil m => exact ⟨SameTopo.refl _, rfl⟩
  | cons h1 _ ih => exact ⟨h1.topo.trans ih.1, by rw [ih.2, h1.fc]⟩

theorem forM_pairs_ok (cfg : Cfg X) (ss : List Nat) (hnd : ss.Nodup) :
    ∀ (ps : List (Nat × Nat)) (m m' : Map X) (u : Unit), m.fc = 0 →
      run (forM_ ps (fun p => forM_ ss (fun s => mergeS cfg s (min p.1 p.2) p.1 p.2))) m = (.ok u, m') →
      MergedPairs cfg ss ps m m' := by
  intro ps
  induction ps with
  | nil =>
      intro m m' u _ h
      obtain ⟨_, rfl⟩ := run_pure_ok h
      exact MergedPairs.nil _
  | cons p ps ih =>
      intro m m' u hfc h
      unfold forM_ at h
      obtain ⟨_, m1, h1, h2⟩ := run_bind_ok h
      have hm := forM_merge_ok cfg (min p.1 p.2) p.1 p.2 ss m m1 () hnd hfc h1
      exact MergedPairs.cons hm (ih m1 m' u (by rw [hm.fc]; exact hfc) h2)

/-- the id pairs `three_sew` records for one pair `(l, r)` of the zipped face walks, computed on
    the map BEFORE the link: the two edge ids; the vertex of the head of `l` (`β1 l`, else `β2 l`)
    with the vertex of `r`; and, when `l` starts an open face (`β0 l = 0`), the vertex of `l` with
    the vertex of the head of `r` -/
def PairIds (n : Nat) (m : Map X) (l r : Nat) (es vs : List (Nat × Nat)) : Prop :=
  ∃ el er v1 v2, run (edgeId3 n l) m = (.ok el, m) ∧ run (edgeId3 n r) m = (.ok er, m) ∧
    run (vertexId3 n (if m.β 1 l = 0 then m.β 2 l else m.β 1 l)) m = (.ok v1, m) ∧
    run (vertexId3 n r) m = (.ok v2, m) ∧ es = [(el, er)] ∧
    ((m.β 0 l ≠ 0 ∧ vs = [(v1, v2)]) ∨
     (m.β 0 l = 0 ∧ ∃ v3 v4, run (vertexId3 n l) m = (.ok v3, m) ∧
        run (vertexId3 n (if m.β 1 r = 0 then m.β 2 r else m.β 1 r)) m = (.ok v4, m) ∧
        vs = [(v1, v2), (v3, v4)]))

/-- the lists collected over the zipped face walks -/
inductive Collected (n : Nat) (m : Map X) : List (Nat × Nat) → List (Nat × Nat) → List (Nat × Nat) → Prop
  | nil : Collected n m [] [] []
  | cons {l r : Nat} {rest es vs es' vs' : List (Nat × Nat)} :
      PairIds n m l r es vs → Collected n m rest es' vs' → Collected n m ((l, r) :: rest) (es ++ es') (vs ++ vs')

theorem threeSewCollect_ok (n : Nat) (m : Map X) :
    ∀ (ps es0 vs0 es vs : List (Nat × Nat)) (m' : Map X),
      run (threeSewCollect n ps es0 vs0) m = (.ok (es, vs), m') →
      ∃ es1 vs1, Collected n m ps es1 vs1 ∧ es = es0 ++ es1 ∧ vs = vs0 ++ vs1 := by
  intro ps
  induction ps with
  | nil =>
      intro es0 vs0 es vs m' h
      obtain ⟨hp, _⟩ := run_pure_ok h
      simp only [Prod.mk.injEq] at hp
      exact ⟨[], [], Collected.nil, by simp [hp.1], by simp [hp.2]⟩
  | cons p rest ih =>
      intro es0 vs0 es vs m' h
      obtain ⟨l, r⟩ := p
      unfold threeSewCollect at h
      obtain ⟨el, hel, h⟩ := run_ro_bind_ok (readOnly_edgeId3 _ _) h
      obtain ⟨er, her, h⟩ := run_ro_bind_ok (readOnly_edgeId3 _ _) h
      obtain ⟨b1l, hb1, h⟩ := run_ro_bind_ok (ReadOnly.rB _ _) h
      obtain ⟨rfl, _, _⟩ := run_rB_ok hb1
      obtain ⟨b2l, hb2, h⟩ := run_ro_bind_ok (ReadOnly.rB _ _) h
      obtain ⟨rfl, _, _⟩ := run_rB_ok hb2
      obtain ⟨v1, hv1, h⟩ := run_ro_bind_ok (readOnly_vertexId3 _ _) h
      obtain ⟨v2, hv2, h⟩ := run_ro_bind_ok (readOnly_vertexId3 _ _) h
      obtain ⟨b0l, hb0, h⟩ := run_ro_bind_ok (ReadOnly.rB _ _) h
      obtain ⟨rfl, _, _⟩ := run_rB_ok hb0
      by_cases c : m.β 0 l = 0
      · rw [if_pos c] at h
        obtain ⟨b1r, hc1, h⟩ := run_ro_bind_ok (ReadOnly.rB _ _) h
        obtain ⟨rfl, _, _⟩ := run_rB_ok hc1
        obtain ⟨b2r, hc2, h⟩ := run_ro_bind_ok (ReadOnly.rB _ _) h
        obtain ⟨rfl, _, _⟩ := run_rB_ok hc2
        obtain ⟨v3, hv3, h⟩ := run_ro_bind_ok (readOnly_vertexId3 _ _) h
        obtain ⟨v4, hv4, h⟩ := run_ro_bind_ok (readOnly_vertexId3 _ _) h
        obtain ⟨es1, vs1, hC, e1, e2⟩ := ih _ _ es vs m' h
        refine ⟨[(el, er)] ++ es1, [(v1, v2), (v3, v4)] ++ vs1, Collected.cons ?_ hC, ?_, ?_⟩
        · exact ⟨el, er, v1, v2, hel, her, hv1, hv2, rfl, Or.inr ⟨c, v3, v4, hv3, hv4, rfl⟩⟩
        · rw [e1, List.append_assoc]
        · rw [e2, List.append_assoc]
      · rw [if_neg c] at h
        obtain ⟨es1, vs1, hC, e1, e2⟩ := ih _ _ es vs m' h
        refine ⟨[(el, er)] ++ es1, [(v1, v2)] ++ vs1, Collected.cons ?_ hC, ?_, ?_⟩
        · exact ⟨el, er, v1, v2, hel, her, hv1, hv2, rfl, Or.inl ⟨c, rfl⟩⟩
        · rw [e1, List.append_assoc]
        · rw [e2, List.append_assoc]

/-- **C05 (3-sew)**: the two face orbits and the id pairs are read on the map BEFORE the link; the
    orientation test passed (or was skipped); the topology changes exactly as `three_link` does;
    then the face storages merge the two face ids into the smaller one, the edge storages merge
    every kept (edge, edge) pair, the vertex storages every kept (vertex, vertex) pair — each into
    the smaller id of the pair, in the order collected -/
theorem C05_threeSew3_effect (cfg : Cfg X) (n ld rd : Nat) (m m' : Map X) (u : Unit) (hfc : m.fc = 0)
    (h : run (threeSew3 cfg n ld rd) m = (.ok u, m')) :
    ∃ lo ro es vs m1 mf me,
      run (faceOrbits3 n ld rd) m = (.ok (lo, ro), m) ∧ Collected n m (lo.zip ro) es vs ∧
      run (threeLink3 (X := X) n ld rd) m = (.ok (), m1) ∧
      MergedIn cfg (fStores cfg) (min (listMin lo ld) (listMin ro rd)) (listMin lo ld) (listMin ro rd) m1 mf ∧
      MergedPairs cfg (eStores cfg) (es.filter keepPair) mf me ∧
      MergedPairs cfg (vStores cfg) (vs.filter keepPair) me m' ∧ SameTopo m1 m' := by
  unfold threeSew3 at h
  obtain ⟨⟨lo, ro⟩, hfo, h⟩ := run_ro_bind_ok (readOnly_faceOrbits3 _ _ _) h
  simp only [] at h
  obtain ⟨⟨edges, verts⟩, hcol, h⟩ := run_ro_bind_ok (readOnly_threeSewCollect _ _ _ _) h
  simp only [] at h
  obtain ⟨b1l, _, h⟩ := run_ro_bind_ok (ReadOnly.rB _ _) h
  obtain ⟨b2l, _, h⟩ := run_ro_bind_ok (ReadOnly.rB _ _) h
  obtain ⟨b1r, _, h⟩ := run_ro_bind_ok (ReadOnly.rB _ _) h
  obtain ⟨b2r, _, h⟩ := run_ro_bind_ok (ReadOnly.rB _ _) h
  obtain ⟨vl, _, h⟩ := run_ro_bind_ok (readOnly_vertexId3 _ _) h
  obtain ⟨vr, _, h⟩ := run_ro_bind_ok (readOnly_vertexId3 _ _) h
  obtain ⟨vb1l, _, h⟩ := run_ro_bind_ok (readOnly_vertexId3 _ _) h
  obtain ⟨vb1r, _, h⟩ := run_ro_bind_ok (readOnly_vertexId3 _ _) h
  obtain ⟨pl, _, h⟩ := run_ro_bind_ok (ReadOnly.rA _ _) h
  obtain ⟨pb1r, _, h⟩ := run_ro_bind_ok (ReadOnly.rA _ _) h
  obtain ⟨pb1l, _, h⟩ := run_ro_bind_ok (ReadOnly.rA _ _) h
  obtain ⟨pr, _, h⟩ := run_ro_bind_ok (ReadOnly.rA _ _) h
  try simp only [] at h
  obtain ⟨_, h⟩ := run_ite_abort_ok h
  obtain ⟨_, m1, hl, h⟩ := run_bind_ok h
  obtain ⟨_, mf, hF, h⟩ := run_bind_ok h
  obtain ⟨_, me, hE, h⟩ := run_bind_ok h
  obtain ⟨es1, vs1, hC, e1, e2⟩ := threeSewCollect_ok n m _ _ _ _ _ _ hcol
  simp only [List.nil_append] at e1 e2
  subst e1 e2
  have hfc1 : m1.fc = 0 := by rw [((topoOnly_threeLink3 n ld rd).run_ok hl).2]; exact hfc
  have hF' := forM_merge_ok cfg _ _ _ (fStores cfg) m1 mf () (fStores_nodup cfg) hfc1 hF
  have hfcf : mf.fc = 0 := by rw [hF'.fc]; exact hfc1
  have hE' := forM_pairs_ok cfg (eStores cfg) (eStores_nodup cfg) _ mf me () hfcf hE
  have hfce : me.fc = 0 := by rw [hE'.topo.2]; exact hfcf
  have hV' := forM_pairs_ok cfg (vStores cfg) (vStores_nodup cfg) _ me m' u hfce h
  exact ⟨lo, ro, edges, verts, m1, mf, me, hfo, hC, hl, hF', hE', hV',
    (hF'.topo.trans hE'.topo.1).trans hV'.topo.1⟩

theorem MergedPairs.other {cfg : Cfg X} {ss : List Nat} {ps : List (Nat × Nat)} {m m' : Map X}
    (h : MergedPairs cfg ss ps m m') : ∀ t e, t ∉ ss → m'.att t e = m.att t e := by
  induction h with
  | nil m => exact fun _ _ _ => rfl
  | cons h1 _ ih => intro t e ht; rw [ih t e ht, h1.other t e ht]

theorem storagesOf_kind {cfg : Cfg X} {k t : Nat} (h : t ∈ storagesOf cfg k) : t ≠ 0 ∧ cfg.kinds.getD t 4 = k := by
  unfold storagesOf at h
  have := (List.mem_filter.1 h).2
  simpa using this

/-- vertex-bound storages are bound neither to faces nor to edges -/
theorem vStores_sep (cfg : Cfg X) {t : Nat} (ht : t ∈ vStores cfg) : t ∉ fStores cfg ∧ t ∉ eStores cfg := by
  unfold vStores at ht
  rcases List.mem_cons.1 ht with rfl | ht'
  · exact ⟨fun h => (storagesOf_kind h).1 rfl, fun h => (storagesOf_kind h).1 rfl⟩
  · have k0 := (storagesOf_kind ht').2
    refine ⟨fun h => ?_, fun h => ?_⟩
    · have := (storagesOf_kind h).2; rw [k0] at this; cases this
    · have := (storagesOf_kind h).2; rw [k0] at this; cases this

/-- id pairs that share no identifier -/
def Disj (p q : Nat × Nat) : Prop := p.1 ≠ q.1 ∧ p.1 ≠ q.2 ∧ p.2 ≠ q.1 ∧ p.2 ≠ q.2

/-- **C05 (the property's proviso, on the chain)**: when no identifier takes part in two merges of
    the chain, every pair `(a, b)` ends with `merge*` of the two values held BEFORE the chain at
    `min a b`, the other identifier empty; identifiers that are in no pair, and storages outside
    `ss`, are untouched -/
theorem MergedPairs.spec {cfg : Cfg X} {ss : List Nat} {ps : List (Nat × Nat)} {m m' : Map X}
    (h : MergedPairs cfg ss ps m m') (hd : ps.Pairwise Disj) (hk : ∀ p, p ∈ ps → p.1 ≠ p.2) :
    (∀ p, p ∈ ps → ∀ t, t ∈ ss → ∃ v, mergeVal (cfg.law t) (m.att t p.1) (m.att t p.2) = .ok v ∧
        m'.att t (min p.1 p.2) = some v ∧ m'.att t (max p.1 p.2) = none) ∧
    (∀ t e, (∀ p, p ∈ ps → e ≠ p.1 ∧ e ≠ p.2) → m'.att t e = m.att t e) ∧
    (∀ t e, t ∉ ss → m'.att t e = m.att t e) := by
  induction h with
  | nil m => exact ⟨fun p hp => absurd hp (by simp), fun _ _ _ => rfl, fun _ _ _ => rfl⟩
  | @cons p ps m m1 m' h1 _ ih =>
      have hd' := List.pairwise_cons.1 hd
      obtain ⟨ih1, ih2, ih3⟩ := ih hd'.2 (fun q hq => hk q (by simp [hq]))
      have hpk : p.1 ≠ p.2 := hk p (by simp)
      -- the ids of `p` are in no later pair
      have later : ∀ e, (e = p.1 ∨ e = p.2) → ∀ q, q ∈ ps → e ≠ q.1 ∧ e ≠ q.2 := by
        intro e he q hq
        have := hd'.1 q hq
        rcases he with rfl | rfl
        · exact ⟨this.1, this.2.1⟩
        · exact ⟨this.2.2.1, this.2.2.2⟩
      refine ⟨?_, ?_, ?_⟩
      · intro q hq t ht
        rcases List.mem_cons.1 hq with rfl | hq'
        · obtain ⟨v, hv1, hv2⟩ := h1.merged hpk t ht
          refine ⟨v, hv1, ?_, ?_⟩
          · rw [ih2 t _ (later _ (by omega)), hv2]
          · rw [ih2 t _ (later _ (by omega))]
            exact h1.cleared t _ ht (by omega) (by omega)
        · obtain ⟨v, hv1, hv2, hv3⟩ := ih1 q hq' t ht
          obtain ⟨d1, d2, d3, d4⟩ := hd'.1 q hq'
          refine ⟨v, ?_, hv2, hv3⟩
          rw [h1.frame t q.1 ht (by omega) (by omega) (by omega),
            h1.frame t q.2 ht (by omega) (by omega) (by omega)] at hv1
          exact hv1
      · intro t e he
        have hp := he p (by simp)
        rw [ih2 t e (fun q hq => he q (by simp [hq]))]
        by_cases ht : t ∈ ss
        · exact h1.frame t e ht (by omega) hp.1 hp.2
        · exact h1.other t e ht
      · intro t e ht
        rw [ih3 t e ht, h1.other t e ht]

/-- **C05 (3-sew, vertices)**: under the property's proviso (no vertex id takes part in two of
    the kept pairs), after a successful 3-sew every kept pair `(a, b)` of vertex ids collected
    before the link holds `merge*(value of a, value of b)` at `min a b` and nothing at the other
    id, in every vertex-bound storage; the values merged are those of the map BEFORE the call;
    vertex ids in no kept pair keep their value -/
theorem C05_threeSew3_vertices (cfg : Cfg X) (n ld rd : Nat) (m m' : Map X) (u : Unit) (hfc : m.fc = 0)
    (h : run (threeSew3 cfg n ld rd) m = (.ok u, m')) :
    ∃ lo ro es vs, run (faceOrbits3 n ld rd) m = (.ok (lo, ro), m) ∧ Collected n m (lo.zip ro) es vs ∧
      ((vs.filter keepPair).Pairwise Disj →
        (∀ p, p ∈ vs.filter keepPair → ∀ t, t ∈ vStores cfg →
          ∃ v, mergeVal (cfg.law t) (m.att t p.1) (m.att t p.2) = .ok v ∧
            m'.att t (min p.1 p.2) = some v ∧ m'.att t (max p.1 p.2) = none) ∧
        (∀ t e, t ∈ vStores cfg → (∀ p, p ∈ vs.filter keepPair → e ≠ p.1 ∧ e ≠ p.2) →
          m'.att t e = m.att t e)) := by
  obtain ⟨lo, ro, es, vs, m1, mf, me, hfo, hC, hl, hF, hE, hV, _⟩ := C05_threeSew3_effect cfg n ld rd m m' u hfc h
  refine ⟨lo, ro, es, vs, hfo, hC, ?_⟩
  intro hd
  have hk : ∀ p, p ∈ vs.filter keepPair → p.1 ≠ p.2 := by
    intro p hp
    have := (List.mem_filter.1 hp).2
    unfold keepPair at this
    simp only [decide_eq_true_eq] at this
    exact this.1
  obtain ⟨s1, s2, _⟩ := hV.spec hd hk
  -- vertex-bound slots are the same in `m`, `m1`, `mf`, `me`
  have hbase : ∀ t e, t ∈ vStores cfg → me.att t e = m.att t e := by
    intro t e ht
    have hs := vStores_sep cfg ht
    rw [hE.other t e hs.2, hF.other t e hs.1]
    unfold Map.att
    rw [((topoOnly_threeLink3 n ld rd).run_ok hl).1]
  refine ⟨?_, ?_⟩
  · intro p hp t ht
    obtain ⟨v, hv1, hv2, hv3⟩ := s1 p hp t ht
    rw [hbase t _ ht, hbase t _ ht] at hv1
    exact ⟨v, hv1, hv2, hv3⟩
  · intro t e ht he
    rw [s2 t e he, hbase t e ht]


/-! ## (b) 3-unsew -/

/-- the splitting loop of `three_unsew` over the zipped face walks (ids are computed on the
    current state: the topology is the one the 3-unlink produced, only values change) -/
inductive UnsewnPairs (cfg : Cfg X) (n : Nat) : List (Nat × Nat) → Map X → Map X → Prop
  | nil (m : Map X) : UnsewnPairs cfg n [] m m
  | cons {l r el er v1 v2 : Nat} {rest : List (Nat × Nat)} {m ma mb mc m' : Map X} :
      run (edgeId3 n l) m = (.ok el, m) → run (edgeId3 n r) m = (.ok er, m) →
      SplitIn cfg (eStores cfg) el er (min el er) m ma →
      run (vertexId3 n (if ma.β 1 l = 0 then ma.β 2 l else ma.β 1 l)) ma = (.ok v1, ma) →
      run (vertexId3 n r) ma = (.ok v2, ma) →
      SplitIn cfg (vStores cfg) v1 v2 (min v1 v2) ma mb →
      ((mb.β 0 l ≠ 0 ∧ mc = mb) ∨
       (mb.β 0 l = 0 ∧ ∃ v3 v4, run (vertexId3 n l) mb = (.ok v3, mb) ∧
          run (vertexId3 n (if mb.β 1 r = 0 then mb.β 2 r else mb.β 1 r)) mb = (.ok v4, mb) ∧
          SplitIn cfg (vStores cfg) v3 v4 (min v3 v4) mb mc)) →
      UnsewnPairs cfg n rest mc m' → UnsewnPairs cfg n ((l, r) :: rest) m m'

theorem threeUnsewLoop_ok (cfg : Cfg X) (n : Nat) :
    ∀ (ps : List (Nat × Nat)) (m m' : Map X) (u : Unit), m.fc = 0 →
      run (threeUnsewLoop cfg n ps) m = (.ok u, m') → UnsewnPairs cfg n ps m m' := by
  intro ps
  induction ps with
  | nil =>
      intro m m' u _ h
      obtain ⟨_, rfl⟩ := run_pure_ok h
      exact UnsewnPairs.nil _
  | cons p rest ih =>
      intro m m' u hfc h
      obtain ⟨l, r⟩ := p
      unfold threeUnsewLoop at h
      obtain ⟨el, hel, h⟩ := run_ro_bind_ok (readOnly_edgeId3 _ _) h
      obtain ⟨er, her, h⟩ := run_ro_bind_ok (readOnly_edgeId3 _ _) h
      obtain ⟨_, ma, hA, h⟩ := run_bind_ok h
      have sA := forM_split_ok cfg el er (min el er) (eStores cfg) m ma () (eStores_nodup cfg) hfc hA
      have fA : ma.fc = 0 := by rw [sA.fc]; exact hfc
      obtain ⟨b1l, hb1, h⟩ := run_ro_bind_ok (ReadOnly.rB _ _) h
      obtain ⟨rfl, _, _⟩ := run_rB_ok hb1
      obtain ⟨b2l, hb2, h⟩ := run_ro_bind_ok (ReadOnly.rB _ _) h
      obtain ⟨rfl, _, _⟩ := run_rB_ok hb2
      obtain ⟨v1, hv1, h⟩ := run_ro_bind_ok (readOnly_vertexId3 _ _) h
      obtain ⟨v2, hv2, h⟩ := run_ro_bind_ok (readOnly_vertexId3 _ _) h
      obtain ⟨_, mb0, hB0, h⟩ := run_bind_ok h
      obtain ⟨_, mb, hB1, h⟩ := run_bind_ok h
      have sB := forM_split_ok cfg v1 v2 (min v1 v2) (vStores cfg) ma mb () (vStores_nodup cfg) fA
        (run_splitVertex cfg _ _ _ hB0 hB1)
      have fB : mb.fc = 0 := by rw [sB.fc]; exact fA
      obtain ⟨b0l, hb0, h⟩ := run_ro_bind_ok (ReadOnly.rB _ _) h
      obtain ⟨rfl, _, _⟩ := run_rB_ok hb0
      by_cases c : mb.β 0 l = 0
      · rw [if_pos c] at h
        obtain ⟨b1r, hc1, h⟩ := run_ro_bind_ok (ReadOnly.rB _ _) h
        obtain ⟨rfl, _, _⟩ := run_rB_ok hc1
        obtain ⟨b2r, hc2, h⟩ := run_ro_bind_ok (ReadOnly.rB _ _) h
        obtain ⟨rfl, _, _⟩ := run_rB_ok hc2
        obtain ⟨v3, hv3, h⟩ := run_ro_bind_ok (readOnly_vertexId3 _ _) h
        obtain ⟨v4, hv4, h⟩ := run_ro_bind_ok (readOnly_vertexId3 _ _) h
        obtain ⟨_, mc0, hC0, h⟩ := run_bind_ok h
        obtain ⟨_, mc, hC1, h⟩ := run_bind_ok h
        have sC := forM_split_ok cfg v3 v4 (min v3 v4) (vStores cfg) mb mc () (vStores_nodup cfg) fB
          (run_splitVertex cfg _ _ _ hC0 hC1)
        have fC : mc.fc = 0 := by rw [sC.fc]; exact fB
        exact UnsewnPairs.cons hel her sA hv1 hv2 sB (Or.inr ⟨c, v3, v4, hv3, hv4, sC⟩) (ih mc m' u fC h)
      · rw [if_neg c] at h
        exact UnsewnPairs.cons hel her sA hv1 hv2 sB (Or.inl ⟨c, rfl⟩) (ih mb m' u fB h)

/-- **C05 (3-unsew)**: the topology changes exactly as `three_unlink` does; then, on the unlinked
    map, the face storages split `min(lface, rface)` — the id `three_sew` merged into — between the
    two face ids, and for each pair of the zipped face walks the edge storages and the vertex
    storages split the smaller id of the pair between the two ids -/
theorem C05_threeUnsew3_effect (cfg : Cfg X) (n ld : Nat) (m m' : Map X) (u : Unit) (hfc : m.fc = 0)
    (h : run (threeUnsew3 cfg n ld) m = (.ok u, m')) :
    ∃ m1 lo ro mf,
      run (threeUnlink3 (X := X) n ld) m = (.ok (), m1) ∧
      run (faceOrbits3 n ld (m.β 3 ld)) m1 = (.ok (lo, ro), m1) ∧
      SplitIn cfg (fStores cfg) (listMin lo ld) (listMin ro (m.β 3 ld))
        (min (listMin lo ld) (listMin ro (m.β 3 ld))) m1 mf ∧
      UnsewnPairs cfg n (lo.zip ro) mf m' ∧ SameTopo m1 m' := by
  have ht := threeUnsew3_topology cfg n ld m m' u h
  unfold threeUnsew3 at h
  obtain ⟨rd, hrd, h⟩ := run_ro_bind_ok (ReadOnly.rB _ _) h
  obtain ⟨rfl, _, _⟩ := run_rB_ok hrd
  obtain ⟨_, m1, hl, h⟩ := run_bind_ok h
  obtain ⟨⟨lo, ro⟩, hfo, h⟩ := run_ro_bind_ok (readOnly_faceOrbits3 _ _ _) h
  simp only [] at h
  obtain ⟨_, mf, hF, h⟩ := run_bind_ok h
  have hfc1 : m1.fc = 0 := by rw [((topoOnly_threeUnlink3 n ld).run_ok hl).2]; exact hfc
  have sF := forM_split_ok cfg _ _ _ (fStores cfg) m1 mf () (fStores_nodup cfg) hfc1 hF
  have fF : mf.fc = 0 := by rw [sF.fc]; exact hfc1
  obtain ⟨m1', hl', st⟩ := ht
  rw [hl] at hl'
  simp only [Prod.mk.injEq, true_and] at hl'
  subst hl'
  exact ⟨m1, lo, ro, mf, hl, hfo, sF, threeUnsewLoop_ok cfg n _ mf m' u fF h, st⟩

/-! ## non-vacuity -/

open HC.C02 (exMap exCfg)

example : exMap.fc = 0 := rfl
/-- 3-sew of the two triangles of `C02.exMap` (all vertices defined; `VTerm` at 1 and 4, `FTerm` at 1) -/
example : (run (threeSew3 exCfg 16 1 4) exMap).1 = .ok () := by decide +kernel
/-- topology = 3-link: faces glued in lock-step, mirrored -/
example : (List.range 7).map ((run (threeSew3 exCfg 16 1 4) exMap).2.β 3) = [0, 4, 6, 5, 1, 3, 2] ∧
    (List.range 7).map ((run (threeLink3 16 1 4) exMap).2.β 3) = [0, 4, 6, 5, 1, 3, 2] := by decide +kernel
/-- the collected vertex pairs are `(β1 l, r)`: `(2, 4), (3, 6), (1, 5)`; each is merged into its
    `min`: vertex 2 holds the average of the old values of 2 and 4 (the same point here), 4 is
    empty; `VTerm` (storage 1) at 2 holds `merge_incomplete(4)` (only the value of 4 was defined),
    at 1 `merge_incomplete(1)`, at 3 `merge_from_none`; `FTerm` (storage 3) at face 1 holds
    `merge_incomplete(10)` -/
example : (run (threeSew3 exCfg 16 1 4) exMap).2.att 0 2 = some (.pt 1 0 0) ∧
    (run (threeSew3 exCfg 16 1 4) exMap).2.att 0 4 = none ∧
    (run (threeSew3 exCfg 16 1 4) exMap).2.att 1 2 = some (.tm (.minc (.leaf 4))) ∧
    (run (threeSew3 exCfg 16 1 4) exMap).2.att 1 1 = some (.tm (.minc (.leaf 1))) ∧
    (run (threeSew3 exCfg 16 1 4) exMap).2.att 1 3 = some (.tm .mnone) ∧
    (run (threeSew3 exCfg 16 1 4) exMap).2.att 3 1 = some (.tm (.minc (.leaf 10))) := by decide +kernel
/-- … and the 3-unsew of the result succeeds and splits again -/
example : (run (threeUnsew3 exCfg 16 2) (run (threeSew3 exCfg 16 1 4) exMap).2).1 = .ok () := by decide +kernel
example : (run (threeUnsew3 exCfg 16 2) (run (threeSew3 exCfg 16 1 4) exMap).2).2.att 1 4 =
    some (.tm (.spr (.minc (.leaf 4)))) := by decide +kernel
/-- 2-sew (both darts have a successor) and 1-sew / unsews on the same map -/
example : (run (twoSew3 exCfg 16 7 11) exMap).1 = .ok () ∧ exMap.β 1 7 ≠ 0 ∧ exMap.β 1 11 ≠ 0 := by decide +kernel
example : (run (twoUnsew3 exCfg 16 7) (run (twoSew3 exCfg 16 7 11) exMap).2).1 = .ok () := by decide +kernel
/-- the other three cases of `two_sew`: both darts 1-free, only `l`, only `r` -/
example : (run (twoSew3 exCfg 16 13 14) exMap).1 = .ok () ∧ exMap.β 1 13 = 0 ∧ exMap.β 1 14 = 0 := by decide +kernel
example : (run (twoSew3 exCfg 16 14 7) exMap).1 = .ok () ∧ (run (twoSew3 exCfg 16 7 14) exMap).1 = .ok () := by
  decide +kernel
example : (run (twoSew3 exCfg 16 14 7) exMap).2.att 0 8 = some (.pt 3 (5/2) 3) := by decide +kernel
example : (run (oneSew3 exCfg 16 13 14) exMap).1 = .ok () := by decide +kernel
/-- a 1-sew that merges: dart 13 of the chain 2-sewn to the square first (`β2 13 ≠ 0`) -/
example : (run (oneSew3 exCfg 16 13 14) (run (iLinkCore 2 13 9) exMap).2).1 = .ok () ∧
    (run (oneSew3 exCfg 16 13 14) (run (iLinkCore 2 13 9) exMap).2).2.att 0 9 = some (.pt 3 3 3) ∧
    (run (oneSew3 exCfg 16 13 14) (run (iLinkCore 2 13 9) exMap).2).2.att 0 14 = none := by decide +kernel
example : (run (oneUnsew3 exCfg 16 13) (run (oneSew3 exCfg 16 13 14) (run (iLinkCore 2 13 9) exMap).2).2).1 = .ok () := by
  decide +kernel
/-- the proviso of `C05_threeSew3_vertices` holds for the two triangles -/
example : ([(2, 4), (3, 6), (1, 5)] : List (Nat × Nat)).Pairwise Disj := by
  unfold Disj; decide

end HC.C05
