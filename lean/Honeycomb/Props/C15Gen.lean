/-
  C15 — the remeshing kernels `swap_edge` (honeycomb-kernels/src/remeshing/swap.rs), `cut_outer_edge` and
  `cut_inner_edge` (remeshing/cut.rs), TRANSLATED from the source on every run (`Gen/Remesh.lean`, written by
  `python3 tools/gen_lean.py remesh`), interpreted in the model's transaction monad, are EQUAL as programs to
  the hand-written `swapEdge` (Model/Kernels/Swap.lean), `cutOuterEdge`, `cutInnerEdge` (Model/Kernels/Cut.lean),
  which the C15 theorems are proved about.

  The public `map.sew::<I>` / `map.unsew::<I>` the kernels call are NOT given a meaning by the interpreter: the
  arms of `match I` in dim2/sews/mod.rs are translated too (`Gen.Remesh.sewDispatch`) and the interpreter looks the
  callee up in that table (`C15_gen_sew_dispatch`: `sew::<1>` IS `one_sew`, …).  The callees themselves
  (`CMap2::one_sew` …) are tied in Props/C01Gen2.lean, the link cores in Props/C01Gen.lean, the anchor `From`
  tables in Gen/Anchors.lean.  What the interpreter still takes as given: `link::<1>` / `link::<2>` of a 2-map are
  `one_link_core` / `two_link_core`, `read_attribute` / `write_attribute` / `remove_attribute` are `readAttr` /
  `writeAttr` / `removeAttr` of Model/Kernels/Swap.lean on the storage of the anchor kind, `read_vertex` /
  `write_vertex` act on storage 0, and the identifier functions are `vertexId2` / `edgeId2` / `faceId2`.
-/
import Honeycomb.Gen.Remesh
import Honeycomb.Model.Kernels.Swap
import Honeycomb.Model.Kernels.Cut
import Honeycomb.Props.C15

namespace HC.GenTie
open HC HC.C15
variable {X : Type}

/-- a value bound by a translated `let`: a dart / cell identifier, an `Option<anchor>`, an anchor or vertex value -/
inductive RemVal (X : Type) where
  | n (k : Nat)
  | o (v : Option X)
  | x (v : X)

/-- what the value-level functions of the source are on the stored values (the kernels are generic in the model
    up to these three): `Vertex2::average`, `EdgeAnchor::from(FaceAnchor)`, `VertexAnchor::from(EdgeAnchor)` -/
structure RemOps (X : Type) where
  avg : X → X → X
  f2e : X → X
  e2v : X → X

/-- the operations on `Val` (Model/Kernels/Cut.lean; the `From` tables behind them are generated, Gen/Anchors.lean) -/
def remValOps : RemOps Val := ⟨avgVal, faceToEdgeVal, edgeToVertexVal⟩

/-- numeric operand: `e`, `nd1 … nd6`, the null identifiers, bound variables -/
def remN (ps : List Nat) (env : List (RemVal X)) : Nat → Nat
  | 0 => ps.getD 0 0
  | 1 => ps.getD 1 0
  | 2 => ps.getD 2 0
  | 3 => ps.getD 3 0
  | 4 => ps.getD 4 0
  | 5 => ps.getD 5 0
  | 6 => ps.getD 6 0
  | 10 => 0
  | 11 => 0
  | a => match env.getD (a - 20) (.n 0) with
    | .n k => k
    | _ => 0

/-- operand holding an `Option<anchor>` -/
def remO (env : List (RemVal X)) (a : Nat) : Option (Option X) :=
  match env.getD (a - 20) (.n 0) with
  | .o v => some v
  | _ => none

/-- operand holding a value -/
def remX (env : List (RemVal X)) (a : Nat) : Option X :=
  match env.getD (a - 20) (.n 0) with
  | .x v => some v
  | _ => none

/-- the callee of a dispatch arm applied to the dispatcher's dart arguments (callee codes of Gen/Remesh.lean) -/
def remCallee (cfg : Cfg X) (n : Nat) (args : List Nat) : Nat → List Nat → Option (P X Unit)
  | 0, [p, q] => some (oneSew2 cfg n (args.getD p 0) (args.getD q 0))
  | 1, [p, q] => some (twoSew2 cfg n (args.getD p 0) (args.getD q 0))
  | 2, [p] => some (oneUnsew2 cfg n (args.getD p 0))
  | 3, [p] => some (twoUnsew2 cfg n (args.getD p 0))
  | _, _ => none

/-- `map.sew::<I>(t, args)` (k = 0) / `map.unsew::<I>(t, args)` (k = 1): the arm of the translated `match I` -/
def remDispatch (cfg : Cfg X) (n : Nat) (tbl : List (Nat × Nat × Nat × List Nat)) (k i : Nat) (args : List Nat) :
    Option (P X Unit) :=
  match tbl.find? (fun r => r.1 == k && r.2.1 == i) with
  | some r => remCallee cfg n args r.2.2.1 r.2.2.2
  | none => none

/-- `abort(EdgeSwapError::<variant v>)` -/
def remErr (errs : List String) (v : Nat) : Err := ⟨errs.getD v "", []⟩

/-- `value` or `<K>::from(value)` handed to `write_attribute` (kinds: 0 vertex, 1 edge, 2 face anchor) -/
def remConv (ops : RemOps X) : Nat → Nat → Option (X → X)
  | 2, 2 => some id
  | 1, 1 => some id
  | 0, 0 => some id
  | 1, 2 => some ops.f2e
  | 0, 1 => some ops.e2v
  | _, _ => none

/-- `match (read_vertex(a)?, read_vertex(b)?) { (Some(v1), Some(v2)) => average(&v1, &v2), _ => retry()? }` -/
def remMid (ops : RemOps X) (a b : Nat) : P X X := do
  let v1 ← rA 0 a
  let v2 ← rA 0 b
  match v1, v2 with
  | some v1, some v2 => pure (ops.avg v1 v2)
  | _, _ => Prog.retry

/-- `write_vertex(t, id, v)` (`TVar::replace` on storage 0) -/
def remWriteVtx (d : Nat) (v : X) : P X (Option X) := do
  let old ← rA 0 d
  wA 0 d (some v)
  pure old

/-- `if let Some(a) = o { k a }` -/
def remOnSome (o : Option X) (k : X → P X Unit) : P X Unit :=
  match o with
  | none => pure ()
  | some a => k a

/-- the meaning of a generated instruction list (see the header of Gen/Remesh.lean); `ps` = the parameters
    `e, nd1, …`; the fuel only makes the recursion structural -/
def interpRemesh (cfg : Cfg X) (ops : RemOps X) (n : Nat) (tbl : List (Nat × Nat × Nat × List Nat)) (errs : List String)
    (ps : List Nat) : Nat → List (RemVal X) → List (Nat × List Nat) → P X Unit
  | 0, _, _ => Prog.panic
  | _ + 1, _, [] => pure ()
  | f + 1, env, (0, [a, b, v]) :: rest =>
      if remN ps env a = remN ps env b then abort (remErr errs v) else
      interpRemesh cfg ops n tbl errs ps f env rest
  | f + 1, env, (1, [i, a]) :: rest => do
      let v ← rB i (remN ps env a)
      interpRemesh cfg ops n tbl errs ps f (env ++ [.n v]) rest
  | f + 1, env, (2, [i, a, b, j, c, d, v]) :: rest => do
      let x ← rB i (remN ps env a)
      -- `||` short-circuits: the second β is only read when the first comparison is false
      let bad ← (if x ≠ remN ps env b then pure true else do
        let y ← rB j (remN ps env c)
        pure (decide (y ≠ remN ps env d)) : P X Bool)
      if bad then abort (remErr errs v) else
      interpRemesh cfg ops n tbl errs ps f env rest
  | f + 1, env, (3, k :: i :: as) :: rest =>
      match remDispatch cfg n tbl k i (as.map (remN ps env)) with
      | some p => do p; interpRemesh cfg ops n tbl errs ps f env rest
      | none => Prog.panic
  | f + 1, env, (4, [1, a, b]) :: rest => do
      oneLinkCore (remN ps env a) (remN ps env b)
      interpRemesh cfg ops n tbl errs ps f env rest
  | f + 1, env, (4, [2, a, b]) :: rest => do
      iLinkCore 2 (remN ps env a) (remN ps env b)
      interpRemesh cfg ops n tbl errs ps f env rest
  | f + 1, env, (5, [k, a]) :: rest => do
      let v ← (if regd cfg (stVA + k) then do
          let fid ← faceId2 n (remN ps env a)
          removeAttr cfg (stVA + k) fid
        else pure none : P X (Option X))
      interpRemesh cfg ops n tbl errs ps f (env ++ [.o v]) rest
  | f + 1, env, (6, [k, a]) :: rest => do
      let v ← (if regd cfg (stVA + k) then readAttr cfg (stVA + k) (remN ps env a) else pure none : P X (Option X))
      interpRemesh cfg ops n tbl errs ps f (env ++ [.o v]) rest
  | f + 1, env, (7, [a]) :: rest => do
      let v ← vertexId2 n (remN ps env a)
      interpRemesh cfg ops n tbl errs ps f (env ++ [.n v]) rest
  | f + 1, env, (8, [a]) :: rest => do
      let v ← faceId2 n (remN ps env a)
      interpRemesh cfg ops n tbl errs ps f (env ++ [.n v]) rest
  | f + 1, env, (9, [a]) :: rest => do
      let v ← edgeId2 (remN ps env a)
      interpRemesh cfg ops n tbl errs ps f (env ++ [.n v]) rest
  | f + 1, env, (10, [a, b]) :: rest => do
      let v ← remMid ops (remN ps env a) (remN ps env b)
      interpRemesh cfg ops n tbl errs ps f (env ++ [.x v]) rest
  | f + 1, env, (11, [a, x]) :: rest =>
      match remX env x with
      | some v => do
          let _ ← remWriteVtx (remN ps env a) v
          interpRemesh cfg ops n tbl errs ps f env rest
      | none => Prog.panic
  | f + 1, env, (12, [x, k]) :: rest =>
      match remO env x with
      | some o => do
          remOnSome o (fun a => interpRemesh cfg ops n tbl errs ps f (env ++ [.x a]) (rest.take k))
          interpRemesh cfg ops n tbl errs ps f env (rest.drop k)
      | none => Prog.panic
  | f + 1, env, (13, [k, a, x, k']) :: rest =>
      match remX env x, remConv ops k k' with
      | some v, some c => do
          let _ ← writeAttr cfg (stVA + k) (remN ps env a) (c v)
          interpRemesh cfg ops n tbl errs ps f env rest
      | _, _ => Prog.panic
  | f + 1, env, (14, [k, m]) :: rest => do
      (if regd cfg (stVA + k) then interpRemesh cfg ops n tbl errs ps f env (rest.take m) else pure ())
      interpRemesh cfg ops n tbl errs ps f env (rest.drop m)
  | _, _, _ => Prog.panic

theorem remBindUnit (p : P X Unit) : p.bind (fun _ => Prog.ret ()) = p := Prog.bind_ret p

/-- **the translated dispatch of dim2/sews/mod.rs**: `sew::<1>` is `one_sew`, `sew::<2>` is `two_sew`, `unsew::<1>` is
    `one_unsew`, `unsew::<2>` is `two_unsew`, with the arguments in the order given; no other `I` has an arm; and the
    `force_` variants dispatch to the same callees -/
theorem C15_gen_sew_dispatch (cfg : Cfg X) (n l r : Nat) :
    remDispatch cfg n Gen.Remesh.sewDispatch 0 1 [l, r] = some (oneSew2 cfg n l r) ∧
    remDispatch cfg n Gen.Remesh.sewDispatch 0 2 [l, r] = some (twoSew2 cfg n l r) ∧
    remDispatch cfg n Gen.Remesh.sewDispatch 1 1 [l] = some (oneUnsew2 cfg n l) ∧
    remDispatch cfg n Gen.Remesh.sewDispatch 1 2 [l] = some (twoUnsew2 cfg n l) ∧
    (∀ k i, k < 2 → i ≠ 1 → i ≠ 2 → ∀ args, remDispatch cfg n Gen.Remesh.sewDispatch k i args = none) ∧
    (Gen.Remesh.sewDispatch.filter (fun r => r.1 ≥ 2)).map (fun r => (r.1 - 2, r.2)) =
      Gen.Remesh.sewDispatch.filter (fun r => r.1 < 2) := by
  refine ⟨rfl, rfl, rfl, rfl, ?_, by decide⟩
  intro k i hk h1 h2 args
  have : Gen.Remesh.sewDispatch.find? (fun r => r.1 == k && r.2.1 == i) = none := by
    simp only [Gen.Remesh.sewDispatch, List.find?_cons, List.find?_nil]
    have e1 : ((1 : Nat) == i) = false := by simpa using fun h => h1 h.symm
    have e2 : ((2 : Nat) == i) = false := by simpa using fun h => h2 h.symm
    simp [e1, e2]
  simp only [remDispatch, this]

theorem rem_disp_sew1 (cfg : Cfg X) (n l r : Nat) :
    remDispatch cfg n Gen.Remesh.sewDispatch 0 1 [l, r] = some (oneSew2 cfg n l r) := (C15_gen_sew_dispatch cfg n l r).1
theorem rem_disp_sew2 (cfg : Cfg X) (n l r : Nat) :
    remDispatch cfg n Gen.Remesh.sewDispatch 0 2 [l, r] = some (twoSew2 cfg n l r) := (C15_gen_sew_dispatch cfg n l r).2.1
theorem rem_disp_unsew1 (cfg : Cfg X) (n l : Nat) :
    remDispatch cfg n Gen.Remesh.sewDispatch 1 1 [l] = some (oneUnsew2 cfg n l) := (C15_gen_sew_dispatch cfg n l 0).2.2.1
theorem rem_disp_unsew2 (cfg : Cfg X) (n l : Nat) :
    remDispatch cfg n Gen.Remesh.sewDispatch 1 2 [l] = some (twoUnsew2 cfg n l) := (C15_gen_sew_dispatch cfg n l 0).2.2.2.1

/-- the interpreter of a kernel: the dispatch table and the error names are the translated ones -/
abbrev interpRemeshK (cfg : Cfg X) (ops : RemOps X) (n : Nat) (ps : List Nat) (fuel : Nat) (prog : List (Nat × List Nat)) : P X Unit :=
  interpRemesh cfg ops n Gen.Remesh.sewDispatch Gen.Remesh.swapErrors ps fuel [] prog

/-- **tie of `swap_edge`** (guards with their error variants, the β reads in order, the short-circuit topology test,
    six unsews and six sews with their arguments) -/
theorem C15_gen_swapEdge (cfg : Cfg X) (ops : RemOps X) (n e : Nat) :
    interpRemeshK cfg ops n [e] 32 Gen.Remesh.swapEdge = swapEdge cfg n e := by
  simp only [interpRemeshK, Gen.Remesh.swapEdge, interpRemesh, remN, remErr, Gen.Remesh.swapErrors, swapEdge, List.map, List.getD_cons_zero,
    List.getD_cons_succ, List.nil_append, List.cons_append, rem_disp_sew1, rem_disp_unsew1,
    Prog.bind_eq, Prog.pure_eq, remBindUnit]
  rfl

/-- `remMid` / `remWriteVtx` on `Val` are the model's `midpointOrRetry` / `writeVtx` -/
theorem remMid_val (a b : Nat) : remMid remValOps a b = midpointOrRetry a b := by
  unfold remMid midpointOrRetry remValOps
  simp only [Prog.bind_eq, Prog.pure_eq]
  refine congrArg _ (funext fun v1 => congrArg _ (funext fun v2 => ?_))
  cases v1 <;> cases v2 <;> rfl

theorem remWriteVtx_val (d : Nat) (v : Val) : remWriteVtx d v = writeVtx d v := rfl

/-- the three `if let Some(a) = … { … }` blocks of the model, as `remOnSome` -/
theorem rem_spreadFaceAnchor_onSome (cfg : Cfg Val) (n : Nat) (fa : Option Val) (nda ndb : Nat) :
    spreadFaceAnchor cfg n fa nda ndb = remOnSome fa (fun a => do
      let fid1 ← faceId2 n nda
      let fid2 ← faceId2 n ndb
      let _ ← writeAttr cfg stFA fid1 a
      let _ ← writeAttr cfg stFA fid2 a
      if regd cfg stEA then do
        let eid ← edgeId2 nda
        let _ ← writeAttr cfg stEA eid (faceToEdgeVal a)
        pure ()
      else pure ()) := by
  cases fa <;> rfl

theorem rem_spreadEdgeAnchor_onSome (cfg : Cfg Val) (n : Nat) (ea : Option Val) (nd1 : Nat) :
    spreadEdgeAnchor cfg n ea nd1 = remOnSome ea (fun a => do
      let vid ← vertexId2 n nd1
      let _ ← writeAttr cfg stVA vid (edgeToVertexVal a)
      pure ()) := by
  cases ea <;> rfl

theorem rem_spreadEdgeAnchorOuter_onSome (cfg : Cfg Val) (n : Nat) (ea : Option Val) (nd1 nd3 : Nat) :
    spreadEdgeAnchorOuter cfg n ea nd1 nd3 = remOnSome ea (fun a => do
      let vid ← vertexId2 n nd1
      let _ ← writeAttr cfg stVA vid (edgeToVertexVal a)
      let eid ← edgeId2 nd3
      let _ ← writeAttr cfg stEA eid a
      pure ()) := by
  cases ea <;> rfl

/-- **tie of `cut_outer_edge`** -/
theorem C15_gen_cutOuterEdge (cfg : Cfg Val) (n e nd1 nd2 nd3 : Nat) :
    interpRemeshK cfg remValOps n [e, nd1, nd2, nd3] 64 Gen.Remesh.cutOuterEdge = cutOuterEdge cfg n e nd1 nd2 nd3 := by
  simp only [interpRemeshK, Gen.Remesh.cutOuterEdge, interpRemesh, remN, remO, remX, remConv, cutOuterEdge, List.map, List.getD_cons_zero,
    List.getD_cons_succ, List.nil_append, List.cons_append, List.take, List.drop, rem_disp_sew1, rem_disp_unsew1,
    remMid_val, remWriteVtx_val, rem_spreadFaceAnchor_onSome, rem_spreadEdgeAnchorOuter_onSome, Nat.reduceSub,
    Prog.bind_eq, Prog.pure_eq, remBindUnit]
  rfl

/-- **tie of `cut_inner_edge`** -/
theorem C15_gen_cutInnerEdge (cfg : Cfg Val) (n e nd1 nd2 nd3 nd4 nd5 nd6 : Nat) :
    interpRemeshK cfg remValOps n [e, nd1, nd2, nd3, nd4, nd5, nd6] 64 Gen.Remesh.cutInnerEdge =
      cutInnerEdge cfg n e nd1 nd2 nd3 nd4 nd5 nd6 := by
  simp only [interpRemeshK, Gen.Remesh.cutInnerEdge, interpRemesh, remN, remO, remX, remConv, cutInnerEdge, List.map, List.getD_cons_zero,
    List.getD_cons_succ, List.nil_append, List.cons_append, List.take, List.drop, rem_disp_sew1, rem_disp_unsew1, rem_disp_sew2, rem_disp_unsew2,
    remMid_val, remWriteVtx_val, rem_spreadFaceAnchor_onSome, rem_spreadEdgeAnchor_onSome, Nat.reduceSub,
    Prog.bind_eq, Prog.pure_eq, remBindUnit]
  rfl

/-- **C15 (a) stated on the translated code**: every call of the translated `swap_edge` (the callees of its
    `sew::<1>` / `unsew::<1>` taken from the translated dispatch) on an in-use dart of a well-formed 2-map whose two
    faces at the edge are closed at the edge darts leaves the map well formed -/
theorem C15_gen_swap_preserves_WF (cfg : Cfg X) (ops : RemOps X) (m : Map X) (e : Nat) (hwf : WF 3 m)
    (he : C01.InUse m e) (hl : m.β 1 e ≠ 0 ∧ m.β 0 e ≠ 0)
    (hr : m.β 2 e ≠ 0 → m.β 1 (m.β 2 e) ≠ 0 ∧ m.β 0 (m.β 2 e) ≠ 0) :
    WF 3 (atomically (interpRemeshK cfg ops m.n [e] 32 Gen.Remesh.swapEdge) m).2 := by
  rw [C15_gen_swapEdge]
  exact C15_swap_preserves_WF cfg m e hwf he hl hr

/-- **C15 (b) stated on the translated code**: the translated `swap_edge` is the guard chain NullEdge /
    IncompleteEdge / BadTopology followed by the editing part -/
theorem C15_gen_swap_guards (cfg : Cfg X) (ops : RemOps X) (k e : Nat) (m : Map X)
    (hok : ∀ i d, i < 3 → d < m.n → m.okβ i d = true) (hrange : ∀ i d, i < 3 → d < m.n → m.β i d < m.n)
    (he : e < m.n) :
    run (interpRemeshK cfg ops k [e] 32 Gen.Remesh.swapEdge) m =
      if e = 0 then (.err errNullEdge, m)
      else if m.β 2 e = 0 then (.err errIncompleteEdge, m)
      else if m.β 1 (m.β 1 e) ≠ m.β 0 e ∨ m.β 1 (m.β 1 (m.β 2 e)) ≠ m.β 0 (m.β 2 e) then (.err errBadTopology, m)
      else run (swapBody cfg k e (m.β 2 e) (m.β 0 e) (m.β 1 e) (m.β 0 (m.β 2 e)) (m.β 1 (m.β 2 e))) m := by
  rw [C15_gen_swapEdge]
  exact C15_swap_guards cfg k e m hok hrange he

/-- **C15 (a) stated on the translated cut kernels** -/
theorem C15_gen_cutOuter_preserves_WF (cfg : Cfg Val) (m : Map Val) (e nd1 nd2 nd3 : Nat) (hwf : WF 3 m)
    (he : C01.InUse m e) (hl : m.β 1 e ≠ 0 ∧ m.β 0 e ≠ 0)
    (s1 : Spare m nd1) (s2 : Spare m nd2) (s3 : Spare m nd3) (h12 : nd1 ≠ nd2) :
    WF 3 (atomically (interpRemeshK cfg remValOps m.n [e, nd1, nd2, nd3] 64 Gen.Remesh.cutOuterEdge) m).2 := by
  rw [C15_gen_cutOuterEdge]
  exact C15_cutOuter_preserves_WF cfg m e nd1 nd2 nd3 hwf he hl s1 s2 s3 h12

theorem C15_gen_cutInner_preserves_WF (cfg : Cfg Val) (m : Map Val) (e nd1 nd2 nd3 nd4 nd5 nd6 : Nat) (hwf : WF 3 m)
    (he : C01.InUse m e) (h2e : m.β 2 e ≠ 0) (hl : m.β 1 e ≠ 0 ∧ m.β 0 e ≠ 0)
    (hr : m.β 1 (m.β 2 e) ≠ 0 ∧ m.β 0 (m.β 2 e) ≠ 0)
    (hs : ∀ x, x ∈ [nd1, nd2, nd3, nd4, nd5, nd6] → Spare m x) (h12 : nd1 ≠ nd2) (h45 : nd4 ≠ nd5) :
    WF 3 (atomically (interpRemeshK cfg remValOps m.n [e, nd1, nd2, nd3, nd4, nd5, nd6] 64 Gen.Remesh.cutInnerEdge) m).2 := by
  rw [C15_gen_cutInnerEdge]
  exact C15_cutInner_preserves_WF cfg m e nd1 nd2 nd3 nd4 nd5 nd6 hwf he h2e hl hr hs h12 h45

/-- the hypotheses of `C15_gen_swap_preserves_WF` are satisfiable (the call of `C15.lean`'s example) -/
example : WF 3 (atomically (interpRemeshK (stdCfg 3 0) remValOps unitSquare.n [2] 32 Gen.Remesh.swapEdge) unitSquare).2 :=
  C15_gen_swap_preserves_WF _ _ _ _ (by decide) (by decide) (by decide) (fun _ => by decide)

/-- the translated kernels RUN: on the unit square the interpreted lists give the outcome of the model -/
example : (atomically (interpRemeshK (stdCfg 3 0) remValOps 13 [2, 7, 8, 9, 10, 11, 12] 64 Gen.Remesh.cutInnerEdge)
    (unitSquare.addFreeDarts 6).2).1 = .ok () := by
  decide +kernel

end HC.GenTie
