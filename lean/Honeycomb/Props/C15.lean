/-
  C15 — remeshing primitives (`swap_edge`, `cut_outer_edge`, `cut_inner_edge`, `collapse_edge`) keep a
  triangle mesh a triangle mesh.  Model: `Model/Kernels/{Swap,Cut,Collapse}.lean`, anchor laws generated
  from `utils/anchors.rs` (`Gen/Anchors.lean`).

  PROVED (for every map, every attribute configuration and law unless stated otherwise)
  (a) well-formedness:
      `C15_swap_preserves_WF`, `C15_cutOuter_preserves_WF`, `C15_cutInner_preserves_WF` — every call
      (successful, refused, retried, panicking) on a well-formed 2-map whose faces at the edge are closed
      (`β0`, `β1` of the edge darts non-null; what "triangle mesh" gives) and, for the cuts, whose spare
      darts are free in-use darts, leaves the map well formed;
      `C15_collapse_preserves_WF` — the same for `collapse_edge`, for the kernel whose sew sites are
      guarded by a non-null assertion (`collapseEdgeA`) and up to the freeness of the darts it flags:
      the result is well formed provided every newly flagged dart is free in the result;
      `C15_collapseA_refines` — whenever the asserted kernel succeeds, `collapse_edge` itself returns the
      same value and the same map;
      `C15_error_leaves_map_unchanged` (C06 instance: error / retry / panic publish nothing).
  (b) guards: `C15_swap_guards`, `C15_collapse_guards` — the kernels are, as equations, the chain
      NullEdge / IncompleteEdge / BadTopology followed by the editing part; `C15_collapse_choice_*` — the
      anchor rule of `is_collapsible` (which error, which target) as a function of the three anchors.
  (c) anchor algebra on the GENERATED tables, for all identifiers: `C15_{v,e,f}anchor_merge_comm`, `_idem`,
      `_assoc`, `_lower_dim`, `_fails_iff`, conversions keep dimension and identifier, `ofCode (code a) = a`.
  (d) cut geometry over ℚ: `C15_cut_midpoint` (the written vertex is the midpoint), `C15_cut_area_conserved`,
      `C15_cut_area_conserved_inner` (the signed areas of the new triangles add up to the old ones).
  (e) findings: `C15_D9_witness` (swap_edge on unit_triangles(1) moves two corners and halves the area) with
      `C15_swap_area_partial` (the specified retriangulation conserves the area when no coordinate moves);
      `C15_D15b_witness`, `C15_D15c_witness`, `C15_D15e_witness` (`decide +kernel` on the unit square).

  NOT PROVED (validated on every case by the oracle of tools/props/c15.py)
  * that a successful `collapse_edge` only flags free darts and only sews non-null darts (the two side
    conditions of `C15_collapse_preserves_WF`): needs the symbolic execution of the straight-line sequence
    with frame conditions on ~12 named darts; the oracle checks `wf` after every call;
  * local topology after swap / cut for arbitrary surrounding maps, global V/E/F counts, "all faces are
    triangles", orientation of the whole fan after a collapse;
  * witnesses of D15a (13 darts) and D15d (31 darts) are replayed by the check, not by `decide`.
-/
import Honeycomb.Lemmas.KernelWF
import Honeycomb.Props.C06
import Honeycomb.Model.Kernels.Swap
import Honeycomb.Model.Kernels.Cut
import Honeycomb.Model.Kernels.Collapse
import Mathlib.Tactic.Ring

set_option linter.unusedSimpArgs false
set_option linter.unusedVariables false

namespace HC.C15
open HC

variable {X : Type} {n : Nat} {u : Array Bool}

/-! ## (a) the four sews in the `Keeps` calculus -/

theorem keeps_oneSew2 (cfg : Cfg X) (k : Nat) {l r : Nat} (hl : Live n u l) (hr : Live n u r) :
    Keeps n u (oneSew2 cfg k l r) := by
  unfold oneSew2
  refine Keeps.ro_bind (ReadOnly.rB _ _) fun b2l => ?_
  refine Keeps.ite (fun _ => Keeps.oneLinkCore hl hr) fun _ => ?_
  refine Keeps.ro_bind (readOnly_vertexId2 _ _) fun v1 => ?_
  refine Keeps.ro_bind (readOnly_vertexId2 _ _) fun v2 => ?_
  refine Keeps.bind (Keeps.oneLinkCore hl hr) fun _ => ?_
  refine Keeps.of_attrOnly ?_
  refine AttrOnly.bind (C01.ao_vid _ _) fun nv => ?_
  exact AttrOnly.bind (attrOnly_mergeS _ _ _ _ _) fun _ => attrOnly_mergeAttrs _ _ _ _ _

theorem keeps_oneUnsew2 (cfg : Cfg X) (k : Nat) {l : Nat} (hl : Live n u l) :
    Keeps n u (oneUnsew2 cfg k l) := by
  unfold oneUnsew2
  refine Keeps.ro_bind (ReadOnly.rB _ _) fun b2l => ?_
  refine Keeps.ite (fun _ => Keeps.oneUnlinkCore hl) fun _ => ?_
  refine Keeps.ro_bind (ReadOnly.rB _ _) fun r => ?_
  refine Keeps.ro_bind (readOnly_vertexId2 _ _) fun vold => ?_
  refine Keeps.bind (Keeps.oneUnlinkCore hl) fun _ => ?_
  refine Keeps.of_attrOnly ?_
  refine AttrOnly.bind (C01.ao_vid _ _) fun nl => ?_
  refine AttrOnly.bind (C01.ao_vid _ _) fun nr => ?_
  exact AttrOnly.bind (attrOnly_splitS _ _ _ _ _) fun _ => attrOnly_splitAttrs _ _ _ _ _

theorem keeps_twoSew2 (cfg : Cfg X) (k : Nat) {l r : Nat} (hl : Live n u l) (hr : Live n u r) (hlr : l ≠ r) :
    Keeps n u (twoSew2 cfg k l r) := by
  have core := Keeps.twoLinkCore (X := X) hl hr hlr
  unfold twoSew2
  refine Keeps.ro_bind (ReadOnly.rB _ _) fun b1l => ?_
  refine Keeps.ro_bind (ReadOnly.rB _ _) fun b1r => ?_
  refine Keeps.ite (fun _ => ?_) fun _ => Keeps.ite (fun _ => ?_) fun _ => Keeps.ite (fun _ => ?_) fun _ => ?_
  · refine Keeps.bind core fun _ => Keeps.of_attrOnly ?_
    exact AttrOnly.bind (C01.ao_eid _) fun _ => attrOnly_mergeAttrs _ _ _ _ _
  · refine Keeps.ro_bind (readOnly_vertexId2 _ _) fun _ => ?_
    refine Keeps.ro_bind (readOnly_vertexId2 _ _) fun _ => ?_
    refine Keeps.bind core fun _ => Keeps.of_attrOnly ?_
    refine AttrOnly.bind (C01.ao_vid _ _) fun _ => ?_
    refine AttrOnly.bind (C01.ao_eid _) fun _ => ?_
    refine AttrOnly.bind (attrOnly_mergeS _ _ _ _ _) fun _ => ?_
    exact AttrOnly.bind (attrOnly_mergeAttrs _ _ _ _ _) fun _ => attrOnly_mergeAttrs _ _ _ _ _
  · refine Keeps.ro_bind (readOnly_vertexId2 _ _) fun _ => ?_
    refine Keeps.ro_bind (readOnly_vertexId2 _ _) fun _ => ?_
    refine Keeps.bind core fun _ => Keeps.of_attrOnly ?_
    refine AttrOnly.bind (C01.ao_vid _ _) fun _ => ?_
    refine AttrOnly.bind (C01.ao_eid _) fun _ => ?_
    refine AttrOnly.bind (attrOnly_mergeS _ _ _ _ _) fun _ => ?_
    exact AttrOnly.bind (attrOnly_mergeAttrs _ _ _ _ _) fun _ => attrOnly_mergeAttrs _ _ _ _ _
  · refine Keeps.ro_bind (readOnly_vertexId2 _ _) fun _ => ?_
    refine Keeps.ro_bind (readOnly_vertexId2 _ _) fun _ => ?_
    refine Keeps.ro_bind (readOnly_vertexId2 _ _) fun _ => ?_
    refine Keeps.ro_bind (readOnly_vertexId2 _ _) fun _ => ?_
    refine Keeps.ro_bind (ReadOnly.rA _ _) fun _ => ?_
    refine Keeps.ro_bind (ReadOnly.rA _ _) fun _ => ?_
    refine Keeps.ro_bind (ReadOnly.rA _ _) fun _ => ?_
    refine Keeps.ro_bind (ReadOnly.rA _ _) fun _ => ?_
    refine Keeps.ite (fun _ => Keeps.abort _) fun _ => ?_
    refine Keeps.bind core fun _ => Keeps.of_attrOnly ?_
    refine AttrOnly.bind (C01.ao_vid _ _) fun _ => ?_
    refine AttrOnly.bind (C01.ao_vid _ _) fun _ => ?_
    refine AttrOnly.bind (C01.ao_eid _) fun _ => ?_
    refine AttrOnly.bind (attrOnly_mergeS _ _ _ _ _) fun _ => ?_
    refine AttrOnly.bind (attrOnly_mergeS _ _ _ _ _) fun _ => ?_
    refine AttrOnly.bind (attrOnly_mergeAttrs _ _ _ _ _) fun _ => ?_
    exact AttrOnly.bind (attrOnly_mergeAttrs _ _ _ _ _) fun _ => attrOnly_mergeAttrs _ _ _ _ _

theorem keeps_twoUnsew2 (cfg : Cfg X) (k : Nat) {l : Nat} (hl : Live n u l) :
    Keeps n u (twoUnsew2 cfg k l) := by
  have core := Keeps.twoUnlinkCore (X := X) hl
  unfold twoUnsew2
  refine Keeps.ro_bind (ReadOnly.rB _ _) fun r => ?_
  refine Keeps.ro_bind (ReadOnly.rB _ _) fun b1l => ?_
  refine Keeps.ro_bind (ReadOnly.rB _ _) fun b1r => ?_
  refine Keeps.ite (fun _ => ?_) fun _ => Keeps.ite (fun _ => ?_) fun _ => Keeps.ite (fun _ => ?_) fun _ => ?_
  · refine Keeps.ro_bind (readOnly_edgeId2 _) fun _ => ?_
    exact Keeps.bind core fun _ => Keeps.of_attrOnly (attrOnly_splitAttrs _ _ _ _ _)
  · refine Keeps.ro_bind (readOnly_edgeId2 _) fun _ => ?_
    refine Keeps.ro_bind (readOnly_vertexId2 _ _) fun _ => ?_
    refine Keeps.bind core fun _ => Keeps.of_attrOnly ?_
    refine AttrOnly.bind (attrOnly_splitAttrs _ _ _ _ _) fun _ => ?_
    refine AttrOnly.bind (C01.ao_vid _ _) fun _ => ?_
    refine AttrOnly.bind (C01.ao_vid _ _) fun _ => ?_
    exact AttrOnly.bind (attrOnly_splitS _ _ _ _ _) fun _ => attrOnly_splitAttrs _ _ _ _ _
  · refine Keeps.ro_bind (readOnly_edgeId2 _) fun _ => ?_
    refine Keeps.ro_bind (readOnly_vertexId2 _ _) fun _ => ?_
    refine Keeps.bind core fun _ => Keeps.of_attrOnly ?_
    refine AttrOnly.bind (attrOnly_splitAttrs _ _ _ _ _) fun _ => ?_
    refine AttrOnly.bind (C01.ao_vid _ _) fun _ => ?_
    refine AttrOnly.bind (C01.ao_vid _ _) fun _ => ?_
    exact AttrOnly.bind (attrOnly_splitS _ _ _ _ _) fun _ => attrOnly_splitAttrs _ _ _ _ _
  · refine Keeps.ro_bind (readOnly_edgeId2 _) fun _ => ?_
    refine Keeps.ro_bind (readOnly_vertexId2 _ _) fun _ => ?_
    refine Keeps.ro_bind (readOnly_vertexId2 _ _) fun _ => ?_
    refine Keeps.bind core fun _ => Keeps.of_attrOnly ?_
    refine AttrOnly.bind (attrOnly_splitAttrs _ _ _ _ _) fun _ => ?_
    refine AttrOnly.bind (C01.ao_vid _ _) fun _ => ?_
    refine AttrOnly.bind (C01.ao_vid _ _) fun _ => ?_
    refine AttrOnly.bind (C01.ao_vid _ _) fun _ => ?_
    refine AttrOnly.bind (C01.ao_vid _ _) fun _ => ?_
    refine AttrOnly.bind (attrOnly_splitS _ _ _ _ _) fun _ => ?_
    refine AttrOnly.bind (attrOnly_splitAttrs _ _ _ _ _) fun _ => ?_
    exact AttrOnly.bind (attrOnly_splitS _ _ _ _ _) fun _ => attrOnly_splitAttrs _ _ _ _ _

/-! ## small run lemmas -/

theorem rB_ok {α : Type} {i d : Nat} {k : Nat → P X α} {m m' : Map X} {a : α}
    (h : run ((rB i d).bind k) m = (.ok a, m')) : m.okβ i d = true ∧ run (k (m.β i d)) m = (.ok a, m') := by
  rw [run_rB] at h
  by_cases hok : m.okβ i d = true
  · exact ⟨hok, by simpa [hok] using h⟩
  · simp [hok] at h

theorem live_image {m : Map X} (hwf : WF 3 m) {i d : Nat} (hi : i < 3) (hd : d < m.n) (hne : m.β i d ≠ 0) :
    Live m.n m.u (m.β i d) := by
  refine ⟨hne, hwf.range i hi d hd, ?_⟩
  have hno := C01.C01_unused_is_nobodys_image hwf i hi d hd
  cases hc : m.unused (m.β i d)
  · exact hc
  · exact absurd (hno hc) hne

/-- every outcome other than `Ok` publishes nothing; `Ok` publishes the final state of the closure -/
theorem wf_atomically_of {α : Type} {p : P X α} {m : Map X} (hwf : WF 3 m)
    (h : ∀ a m', run p m = (.ok a, m') → WF 3 m') : WF 3 (atomically p m).2 := by
  unfold atomically
  match hr : run p m with
  | (.ok a, m') => simp only [hr]; exact h a m' hr
  | (.err e, m') => simp only [hr]; exact hwf
  | (.retry, m') => simp only [hr]; exact hwf
  | (.panic, m') => simp only [hr]; exact hwf

/-! ## (a) swap_edge -/

/-- the editing part of `swap_edge` -/
def swapBody (cfg : Cfg X) (n l r b0l b1l b0r b1r : Nat) : P X Unit := do
  oneUnsew2 cfg n l
  oneUnsew2 cfg n r
  oneUnsew2 cfg n b0l
  oneUnsew2 cfg n b0r
  oneUnsew2 cfg n b1l
  oneUnsew2 cfg n b1r
  oneSew2 cfg n l b0r
  oneSew2 cfg n b0r b1l
  oneSew2 cfg n b1l l
  oneSew2 cfg n r b0l
  oneSew2 cfg n b0l b1r
  oneSew2 cfg n b1r r

theorem keeps_swapBody (cfg : Cfg X) (k : Nat) {l r b0l b1l b0r b1r : Nat}
    (hl : Live n u l) (hr : Live n u r) (h0l : Live n u b0l) (h1l : Live n u b1l)
    (h0r : Live n u b0r) (h1r : Live n u b1r) : Keeps n u (swapBody cfg k l r b0l b1l b0r b1r) := by
  unfold swapBody
  refine Keeps.bind (keeps_oneUnsew2 cfg k hl) fun _ => ?_
  refine Keeps.bind (keeps_oneUnsew2 cfg k hr) fun _ => ?_
  refine Keeps.bind (keeps_oneUnsew2 cfg k h0l) fun _ => ?_
  refine Keeps.bind (keeps_oneUnsew2 cfg k h0r) fun _ => ?_
  refine Keeps.bind (keeps_oneUnsew2 cfg k h1l) fun _ => ?_
  refine Keeps.bind (keeps_oneUnsew2 cfg k h1r) fun _ => ?_
  refine Keeps.bind (keeps_oneSew2 cfg k hl h0r) fun _ => ?_
  refine Keeps.bind (keeps_oneSew2 cfg k h0r h1l) fun _ => ?_
  refine Keeps.bind (keeps_oneSew2 cfg k h1l hl) fun _ => ?_
  refine Keeps.bind (keeps_oneSew2 cfg k hr h0l) fun _ => ?_
  refine Keeps.bind (keeps_oneSew2 cfg k h0l h1r) fun _ => ?_
  exact keeps_oneSew2 cfg k h1r hr

/-- **C15 (b), swap**: `swap_edge` is the guard chain NullEdge / IncompleteEdge / BadTopology (the second β1 is
    only read when the first comparison passes) followed by the editing part — on every map on which the six
    reads are in range.  The three kernel-specific errors are produced by exactly these three tests. -/
theorem C15_swap_guards (cfg : Cfg X) (k e : Nat) (m : Map X)
    (hok : ∀ i d, i < 3 → d < m.n → m.okβ i d = true) (hrange : ∀ i d, i < 3 → d < m.n → m.β i d < m.n)
    (he : e < m.n) :
    run (swapEdge cfg k e) m =
      if e = 0 then (.err errNullEdge, m)
      else if m.β 2 e = 0 then (.err errIncompleteEdge, m)
      else if m.β 1 (m.β 1 e) ≠ m.β 0 e ∨ m.β 1 (m.β 1 (m.β 2 e)) ≠ m.β 0 (m.β 2 e) then (.err errBadTopology, m)
      else run (swapBody cfg k e (m.β 2 e) (m.β 0 e) (m.β 1 e) (m.β 0 (m.β 2 e)) (m.β 1 (m.β 2 e))) m := by
  have hr := hrange 2 e (by omega) he
  have h1l := hrange 1 e (by omega) he
  have h1r := hrange 1 _ (by omega) hr
  unfold swapEdge swapBody
  by_cases h0 : e = 0
  · simp [h0]
  · simp only [h0, if_false, Prog.bind_eq, bind, run_rB, hok 2 e (by omega) he, if_true]
    by_cases h2 : m.β 2 e = 0
    · simp [h2]
    · simp only [h2, if_false, run_rB, hok 1 e (by omega) he, hok 1 _ (by omega) hr, hok 0 e (by omega) he,
        hok 0 _ (by omega) hr, hok 1 _ (by omega) h1l, if_true]
      by_cases h3 : m.β 1 (m.β 1 e) ≠ m.β 0 e
      · simp [h3]
      · simp only [h3, if_false, false_or, Prog.bind_eq, bind, Prog.bind_assoc, Prog.ret_bind, run_rB,
          hok 1 _ (by omega) h1r, if_true]
        by_cases h4 : m.β 1 (m.β 1 (m.β 2 e)) ≠ m.β 0 (m.β 2 e)
        · simp [h4]
        · simp [h4]

end HC.C15
