/-
  C15 — remeshing primitives (`swap_edge`, `cut_outer_edge`, `cut_inner_edge`, `collapse_edge`) keep a
  triangle mesh a triangle mesh.  Model: `Model/Kernels/{Swap,Cut,Collapse}.lean`, anchor laws generated
  from `utils/anchors.rs` (`Gen/Anchors.lean`).

  PROVED (for every map, every attribute configuration and law unless stated otherwise)
  (a) well-formedness:
      `C15_swap_preserves_WF`, `C15_cutOuter_preserves_WF`, `C15_cutInner_preserves_WF` — every call
      (successful, refused, retried, panicking) on a well-formed 2-map whose faces at the edge are closed
      (`β0`, `β1` of the edge darts non-null; what "triangle mesh" gives) and, for the cuts, whose spare
      darts are free in-use darts, leaves the map well formed;
      `C15_collapse_preserves_WF` — the same for `collapse_edge`, for the kernel whose sew sites are
      guarded by a non-null assertion (`collapseEdgeA`) and up to the freeness of the darts it flags:
      the result is well formed provided every newly flagged dart is free in the result;
      `C15_collapseA_refines` — whenever the asserted kernel succeeds, `collapse_edge` itself returns the
      same value and the same map;
      `C15_error_leaves_map_unchanged` (C06 instance: error / retry / panic publish nothing).
  (b) guards: `C15_swap_guards`, `C15_collapse_guards` — the kernels are, as equations, the chain
      NullEdge / IncompleteEdge / BadTopology followed by the editing part; `C15_collapse_choice_*` — the
      anchor rule of `is_collapsible` (which error, which target) as a function of the three anchors.
  (c) anchor algebra on the GENERATED tables, for all identifiers: `C15_{v,e,f}anchor_merge_comm`, `_idem`,
      `_assoc`, `_lower_dim`, `_fails_iff`, conversions keep dimension and identifier, `ofCode (code a) = a`.
  (d) cut geometry over ℚ: `C15_cut_midpoint` (the written vertex is the midpoint), `C15_cut_area_conserved`,
      `C15_cut_area_conserved_inner` (the signed areas of the new triangles add up to the old ones).
  (e) findings: `C15_D9_witness` (swap_edge on unit_triangles(1) moves two corners and halves the area) with
      `C15_swap_area_partial` (the specified retriangulation conserves the area when no coordinate moves);
      `C15_D15a_witness`, `C15_D15d_witness`, `C15_D15e_witness` (`decide +kernel` on small meshes); former D15g:
      `C15_collapse_no_flat_triangle`, `C15_D15g_regression`.
  (f) former findings D15b / D15c, fixed in /repo 27a7433 / aac3ec9 — positive statements:
      `C15_cutOuter_second_half_anchored` (every map, configuration and spare numbering: after a successful
      cut_outer_edge the edge of nd3 carries the cut edge's EdgeAnchor), `C15_cut_midpoint_under_vertex_id` (both cut
      kernels write the midpoint under `vertex_id(nd1)` as computed at the write), `C15_cutOuter_unit_square_all_orders`
      (all six spare numberings: vertex id = min(nd1, nd3), midpoint there, both halves on the curve, vertex / faces
      anchored), `C15_cutInner_unit_square_orders`.

  NOT PROVED (validated on every case by the oracle of tools/props/c15.py)
  * that a successful `collapse_edge` only flags free darts and only sews non-null darts (the two side
    conditions of `C15_collapse_preserves_WF`): needs the symbolic execution of the straight-line sequence
    with frame conditions on ~12 named darts; the oracle checks `wf` after every call;
  * local topology after swap / cut for arbitrary surrounding maps, global V/E/F counts, "all faces are
    triangles", orientation of the whole fan after a collapse;
-/
import Honeycomb.Lemmas.KernelWF
import Honeycomb.Props.C06
import Honeycomb.Model.Kernels.Swap
import Honeycomb.Model.Kernels.Cut
import Honeycomb.Model.Kernels.Collapse
import Mathlib.Tactic.Ring

set_option linter.unusedSimpArgs false
set_option linter.unusedVariables false

namespace HC.C15
open HC

variable {X : Type} {n : Nat} {u : Array Bool}

/-! ## (a) the four sews in the `Keeps` calculus -/

theorem keeps_oneSew2 (cfg : Cfg X) (k : Nat) {l r : Nat} (hl : Live n u l) (hr : Live n u r) :
    Keeps n u (oneSew2 cfg k l r) := by
  unfold oneSew2
  refine Keeps.ro_bind (ReadOnly.rB _ _) fun b2l => ?_
  refine Keeps.ite (fun _ => Keeps.oneLinkCore hl hr) fun _ => ?_
  refine Keeps.ro_bind (readOnly_vertexId2 _ _) fun v1 => ?_
  refine Keeps.ro_bind (readOnly_vertexId2 _ _) fun v2 => ?_
  refine Keeps.bind (Keeps.oneLinkCore hl hr) fun _ => ?_
  refine Keeps.of_attrOnly ?_
  refine AttrOnly.bind (C01.ao_vid _ _) fun nv => ?_
  exact AttrOnly.bind (attrOnly_mergeS _ _ _ _ _) fun _ => attrOnly_mergeAttrs _ _ _ _ _

theorem keeps_oneUnsew2 (cfg : Cfg X) (k : Nat) {l : Nat} (hl : Live n u l) :
    Keeps n u (oneUnsew2 cfg k l) := by
  unfold oneUnsew2
  refine Keeps.ro_bind (ReadOnly.rB _ _) fun b2l => ?_
  refine Keeps.ite (fun _ => Keeps.oneUnlinkCore hl) fun _ => ?_
  refine Keeps.ro_bind (ReadOnly.rB _ _) fun r => ?_
  refine Keeps.ro_bind (readOnly_vertexId2 _ _) fun vold => ?_
  refine Keeps.bind (Keeps.oneUnlinkCore hl) fun _ => ?_
  refine Keeps.of_attrOnly ?_
  refine AttrOnly.bind (C01.ao_vid _ _) fun nl => ?_
  refine AttrOnly.bind (C01.ao_vid _ _) fun nr => ?_
  exact AttrOnly.bind (attrOnly_splitS _ _ _ _ _) fun _ => attrOnly_splitAttrs _ _ _ _ _

theorem keeps_twoSew2 (cfg : Cfg X) (k : Nat) {l r : Nat} (hl : Live n u l) (hr : Live n u r) (hlr : l ≠ r) :
    Keeps n u (twoSew2 cfg k l r) := by
  have core := Keeps.twoLinkCore (X := X) hl hr hlr
  unfold twoSew2
  refine Keeps.ro_bind (ReadOnly.rB _ _) fun b1l => ?_
  refine Keeps.ro_bind (ReadOnly.rB _ _) fun b1r => ?_
  refine Keeps.ite (fun _ => ?_) fun _ => Keeps.ite (fun _ => ?_) fun _ => Keeps.ite (fun _ => ?_) fun _ => ?_
  · refine Keeps.bind core fun _ => Keeps.of_attrOnly ?_
    exact AttrOnly.bind (C01.ao_eid _) fun _ => attrOnly_mergeAttrs _ _ _ _ _
  · refine Keeps.ro_bind (readOnly_vertexId2 _ _) fun _ => ?_
    refine Keeps.ro_bind (readOnly_vertexId2 _ _) fun _ => ?_
    refine Keeps.bind core fun _ => Keeps.of_attrOnly ?_
    refine AttrOnly.bind (C01.ao_vid _ _) fun _ => ?_
    refine AttrOnly.bind (C01.ao_eid _) fun _ => ?_
    refine AttrOnly.bind (attrOnly_mergeS _ _ _ _ _) fun _ => ?_
    exact AttrOnly.bind (attrOnly_mergeAttrs _ _ _ _ _) fun _ => attrOnly_mergeAttrs _ _ _ _ _
  · refine Keeps.ro_bind (readOnly_vertexId2 _ _) fun _ => ?_
    refine Keeps.ro_bind (readOnly_vertexId2 _ _) fun _ => ?_
    refine Keeps.bind core fun _ => Keeps.of_attrOnly ?_
    refine AttrOnly.bind (C01.ao_vid _ _) fun _ => ?_
    refine AttrOnly.bind (C01.ao_eid _) fun _ => ?_
    refine AttrOnly.bind (attrOnly_mergeS _ _ _ _ _) fun _ => ?_
    exact AttrOnly.bind (attrOnly_mergeAttrs _ _ _ _ _) fun _ => attrOnly_mergeAttrs _ _ _ _ _
  · refine Keeps.ro_bind (readOnly_vertexId2 _ _) fun _ => ?_
    refine Keeps.ro_bind (readOnly_vertexId2 _ _) fun _ => ?_
    refine Keeps.ro_bind (readOnly_vertexId2 _ _) fun _ => ?_
    refine Keeps.ro_bind (readOnly_vertexId2 _ _) fun _ => ?_
    refine Keeps.ro_bind (ReadOnly.rA _ _) fun _ => ?_
    refine Keeps.ro_bind (ReadOnly.rA _ _) fun _ => ?_
    refine Keeps.ro_bind (ReadOnly.rA _ _) fun _ => ?_
    refine Keeps.ro_bind (ReadOnly.rA _ _) fun _ => ?_
    refine Keeps.ite (fun _ => Keeps.abort _) fun _ => ?_
    refine Keeps.bind core fun _ => Keeps.of_attrOnly ?_
    refine AttrOnly.bind (C01.ao_vid _ _) fun _ => ?_
    refine AttrOnly.bind (C01.ao_vid _ _) fun _ => ?_
    refine AttrOnly.bind (C01.ao_eid _) fun _ => ?_
    refine AttrOnly.bind (attrOnly_mergeS _ _ _ _ _) fun _ => ?_
    refine AttrOnly.bind (attrOnly_mergeS _ _ _ _ _) fun _ => ?_
    refine AttrOnly.bind (attrOnly_mergeAttrs _ _ _ _ _) fun _ => ?_
    exact AttrOnly.bind (attrOnly_mergeAttrs _ _ _ _ _) fun _ => attrOnly_mergeAttrs _ _ _ _ _

theorem keeps_twoUnsew2 (cfg : Cfg X) (k : Nat) {l : Nat} (hl : Live n u l) :
    Keeps n u (twoUnsew2 cfg k l) := by
  have core := Keeps.twoUnlinkCore (X := X) hl
  unfold twoUnsew2
  refine Keeps.ro_bind (ReadOnly.rB _ _) fun r => ?_
  refine Keeps.ro_bind (ReadOnly.rB _ _) fun b1l => ?_
  refine Keeps.ro_bind (ReadOnly.rB _ _) fun b1r => ?_
  refine Keeps.ite (fun _ => ?_) fun _ => Keeps.ite (fun _ => ?_) fun _ => Keeps.ite (fun _ => ?_) fun _ => ?_
  · refine Keeps.ro_bind (readOnly_edgeId2 _) fun _ => ?_
    exact Keeps.bind core fun _ => Keeps.of_attrOnly (attrOnly_splitAttrs _ _ _ _ _)
  · refine Keeps.ro_bind (readOnly_edgeId2 _) fun _ => ?_
    refine Keeps.ro_bind (readOnly_vertexId2 _ _) fun _ => ?_
    refine Keeps.bind core fun _ => Keeps.of_attrOnly ?_
    refine AttrOnly.bind (attrOnly_splitAttrs _ _ _ _ _) fun _ => ?_
    refine AttrOnly.bind (C01.ao_vid _ _) fun _ => ?_
    refine AttrOnly.bind (C01.ao_vid _ _) fun _ => ?_
    exact AttrOnly.bind (attrOnly_splitS _ _ _ _ _) fun _ => attrOnly_splitAttrs _ _ _ _ _
  · refine Keeps.ro_bind (readOnly_edgeId2 _) fun _ => ?_
    refine Keeps.ro_bind (readOnly_vertexId2 _ _) fun _ => ?_
    refine Keeps.bind core fun _ => Keeps.of_attrOnly ?_
    refine AttrOnly.bind (attrOnly_splitAttrs _ _ _ _ _) fun _ => ?_
    refine AttrOnly.bind (C01.ao_vid _ _) fun _ => ?_
    refine AttrOnly.bind (C01.ao_vid _ _) fun _ => ?_
    exact AttrOnly.bind (attrOnly_splitS _ _ _ _ _) fun _ => attrOnly_splitAttrs _ _ _ _ _
  · refine Keeps.ro_bind (readOnly_edgeId2 _) fun _ => ?_
    refine Keeps.ro_bind (readOnly_vertexId2 _ _) fun _ => ?_
    refine Keeps.ro_bind (readOnly_vertexId2 _ _) fun _ => ?_
    refine Keeps.bind core fun _ => Keeps.of_attrOnly ?_
    refine AttrOnly.bind (attrOnly_splitAttrs _ _ _ _ _) fun _ => ?_
    refine AttrOnly.bind (C01.ao_vid _ _) fun _ => ?_
    refine AttrOnly.bind (C01.ao_vid _ _) fun _ => ?_
    refine AttrOnly.bind (C01.ao_vid _ _) fun _ => ?_
    refine AttrOnly.bind (C01.ao_vid _ _) fun _ => ?_
    refine AttrOnly.bind (attrOnly_splitS _ _ _ _ _) fun _ => ?_
    refine AttrOnly.bind (attrOnly_splitAttrs _ _ _ _ _) fun _ => ?_
    exact AttrOnly.bind (attrOnly_splitS _ _ _ _ _) fun _ => attrOnly_splitAttrs _ _ _ _ _

/-! ## small run lemmas -/

theorem rB_ok {α : Type} {i d : Nat} {k : Nat → P X α} {m m' : Map X} {a : α}
    (h : run ((rB i d).bind k) m = (.ok a, m')) : m.okβ i d = true ∧ run (k (m.β i d)) m = (.ok a, m') := by
  rw [run_rB] at h
  by_cases hok : m.okβ i d = true
  · exact ⟨hok, by simpa [hok] using h⟩
  · simp [hok] at h

theorem live_image {m : Map X} (hwf : WF 3 m) {i d : Nat} (hi : i < 3) (hd : d < m.n) (hne : m.β i d ≠ 0) :
    Live m.n m.u (m.β i d) := by
  refine ⟨hne, hwf.range i hi d hd, ?_⟩
  have hno := C01.C01_unused_is_nobodys_image hwf i hi d hd
  cases hc : m.unused (m.β i d)
  · exact hc
  · exact absurd (hno hc) hne

/-- every outcome other than `Ok` publishes nothing; `Ok` publishes the final state of the closure -/
theorem wf_atomically_of {α : Type} {p : P X α} {m : Map X} (hwf : WF 3 m)
    (h : ∀ a m', run p m = (.ok a, m') → WF 3 m') : WF 3 (atomically p m).2 := by
  unfold atomically
  match hr : run p m with
  | (.ok a, m') => simp only [hr]; exact h a m' hr
  | (.err e, m') => simp only [hr]; exact hwf
  | (.retry, m') => simp only [hr]; exact hwf
  | (.panic, m') => simp only [hr]; exact hwf

/-! ## (a) swap_edge -/

/-- the editing part of `swap_edge` -/
def swapBody (cfg : Cfg X) (n l r b0l b1l b0r b1r : Nat) : P X Unit := do
  oneUnsew2 cfg n l
  oneUnsew2 cfg n r
  oneUnsew2 cfg n b0l
  oneUnsew2 cfg n b0r
  oneUnsew2 cfg n b1l
  oneUnsew2 cfg n b1r
  oneSew2 cfg n l b0r
  oneSew2 cfg n b0r b1l
  oneSew2 cfg n b1l l
  oneSew2 cfg n r b0l
  oneSew2 cfg n b0l b1r
  oneSew2 cfg n b1r r

theorem keeps_swapBody (cfg : Cfg X) (k : Nat) {l r b0l b1l b0r b1r : Nat}
    (hl : Live n u l) (hr : Live n u r) (h0l : Live n u b0l) (h1l : Live n u b1l)
    (h0r : Live n u b0r) (h1r : Live n u b1r) : Keeps n u (swapBody cfg k l r b0l b1l b0r b1r) := by
  unfold swapBody
  refine Keeps.bind (keeps_oneUnsew2 cfg k hl) fun _ => ?_
  refine Keeps.bind (keeps_oneUnsew2 cfg k hr) fun _ => ?_
  refine Keeps.bind (keeps_oneUnsew2 cfg k h0l) fun _ => ?_
  refine Keeps.bind (keeps_oneUnsew2 cfg k h0r) fun _ => ?_
  refine Keeps.bind (keeps_oneUnsew2 cfg k h1l) fun _ => ?_
  refine Keeps.bind (keeps_oneUnsew2 cfg k h1r) fun _ => ?_
  refine Keeps.bind (keeps_oneSew2 cfg k hl h0r) fun _ => ?_
  refine Keeps.bind (keeps_oneSew2 cfg k h0r h1l) fun _ => ?_
  refine Keeps.bind (keeps_oneSew2 cfg k h1l hl) fun _ => ?_
  refine Keeps.bind (keeps_oneSew2 cfg k hr h0l) fun _ => ?_
  refine Keeps.bind (keeps_oneSew2 cfg k h0l h1r) fun _ => ?_
  exact keeps_oneSew2 cfg k h1r hr

/-- **C15 (b), swap**: `swap_edge` is the guard chain NullEdge / IncompleteEdge / BadTopology (the second β1 is
    only read when the first comparison passes) followed by the editing part — on every map on which the six
    reads are in range.  The three kernel-specific errors are produced by exactly these three tests. -/
theorem C15_swap_guards (cfg : Cfg X) (k e : Nat) (m : Map X)
    (hok : ∀ i d, i < 3 → d < m.n → m.okβ i d = true) (hrange : ∀ i d, i < 3 → d < m.n → m.β i d < m.n)
    (he : e < m.n) :
    run (swapEdge cfg k e) m =
      if e = 0 then (.err errNullEdge, m)
      else if m.β 2 e = 0 then (.err errIncompleteEdge, m)
      else if m.β 1 (m.β 1 e) ≠ m.β 0 e ∨ m.β 1 (m.β 1 (m.β 2 e)) ≠ m.β 0 (m.β 2 e) then (.err errBadTopology, m)
      else run (swapBody cfg k e (m.β 2 e) (m.β 0 e) (m.β 1 e) (m.β 0 (m.β 2 e)) (m.β 1 (m.β 2 e))) m := by
  have hr := hrange 2 e (by omega) he
  have h1l := hrange 1 e (by omega) he
  have h1r := hrange 1 _ (by omega) hr
  unfold swapEdge swapBody
  by_cases h0 : e = 0
  · simp [h0]
  · simp only [h0, if_false, Prog.bind_eq, bind, run_rB, hok 2 e (by omega) he, if_true]
    by_cases h2 : m.β 2 e = 0
    · simp [h2]
    · simp only [h2, if_false, run_rB, hok 1 e (by omega) he, hok 1 _ (by omega) hr, hok 0 e (by omega) he,
        hok 0 _ (by omega) hr, hok 1 _ (by omega) h1l, if_true]
      by_cases h3 : m.β 1 (m.β 1 e) ≠ m.β 0 e
      · simp [h3]
      · simp only [h3, if_false, false_or, Prog.bind_eq, bind, Prog.bind_assoc, Prog.ret_bind, run_rB,
          hok 1 _ (by omega) h1r, if_true]
        by_cases h4 : m.β 1 (m.β 1 (m.β 2 e)) ≠ m.β 0 (m.β 2 e)
        · simp [h4]
        · simp [h4]

/-- **C15 (a), swap**: every call of `swap_edge` — successful, refused (NullEdge / IncompleteEdge / BadTopology /
    a failing core operation or attribute law), panicking — on an in-use dart of a well-formed 2-map whose two
    faces at the edge are closed at the edge darts leaves the map well formed. -/
theorem C15_swap_preserves_WF (cfg : Cfg X) (m : Map X) (e : Nat) (hwf : WF 3 m) (he : C01.InUse m e)
    (hl : m.β 1 e ≠ 0 ∧ m.β 0 e ≠ 0)
    (hr : m.β 2 e ≠ 0 → m.β 1 (m.β 2 e) ≠ 0 ∧ m.β 0 (m.β 2 e) ≠ 0) :
    WF 3 (atomically (swapEdge cfg m.n e) m).2 := by
  refine wf_atomically_of hwf fun a m' h => ?_
  rw [C15_swap_guards cfg m.n e m (fun i d hi hd => (hwf.toSized.okβ i d).2 ⟨hi, hd⟩)
    (fun i d hi hd => hwf.range i hi d hd) he.2.1] at h
  simp only [he.1, if_false] at h
  by_cases h2 : m.β 2 e = 0
  · simp [h2] at h
  · simp only [h2, if_false] at h
    split at h
    · simp at h
    · have Lr := live_image hwf (by omega : 2 < 3) he.2.1 h2
      obtain ⟨r1, r0⟩ := hr h2
      exact (keeps_swapBody cfg m.n (Live.of_inUse he) Lr (live_image hwf (by omega) he.2.1 hl.2)
        (live_image hwf (by omega) he.2.1 hl.1) (live_image hwf (by omega) Lr.2.1 r0)
        (live_image hwf (by omega) Lr.2.1 r1) m m' a (Inv.of_wf hwf) h).wf

/-- **C15 (a), C06 instance**: a remeshing call that reports an error (or retries, or panics) leaves every β
    image, every flag and every slot of every storage — coordinates and anchors included — as it was -/
theorem C15_error_leaves_map_unchanged {α : Type} (p : P X α) (m : Map X)
    (h : ∀ a, (atomically p m).1 ≠ .ok a) : (atomically p m).2 = m :=
  C01.C01_failed_call_changes_nothing p m h

/-! ## frames: which β images a prefix of a kernel can have changed -/

def Frame (D : List Nat) (m m' : Map X) : Prop := ∀ i d, d ∉ D → m'.β i d = m.β i d

theorem Frame.trans {D : List Nat} {m m' m'' : Map X} (h1 : Frame D m m') (h2 : Frame D m' m'') : Frame D m m'' :=
  fun i d hd => (h2 i d hd).trans (h1 i d hd)

theorem Frame.mono {D D' : List Nat} {m m' : Map X} (h : Frame D m m') (hs : ∀ d, d ∈ D → d ∈ D') : Frame D' m m' :=
  fun i d hd => h i d (fun hh => hd (hs d hh))

theorem frame_setβ (m : Map X) (i d v : Nat) : Frame [d] m (m.setβ i d v) := by
  intro j e he
  rw [Map.β_setβ]
  have : d ≠ e := fun h => he (by simp [h])
  simp [this]

theorem frame_oneLinkCore {l r : Nat} {m m' : Map X} {a : Unit} (h : run (oneLinkCore (X := X) l r) m = (.ok a, m')) :
    Frame [l, r] m m' := by
  obtain ⟨_, _, _, _, rfl⟩ := oneLinkCore_ok h
  exact ((frame_setβ m 1 l r).mono (by simp)).trans ((frame_setβ _ 0 r l).mono (by simp))

theorem frame_iLinkCore {i l r : Nat} {m m' : Map X} {a : Unit} (h : run (iLinkCore (X := X) i l r) m = (.ok a, m')) :
    Frame [l, r] m m' := by
  obtain ⟨_, _, _, _, rfl⟩ := iLinkCore_ok h
  exact ((frame_setβ m i l r).mono (by simp)).trans ((frame_setβ _ i r l).mono (by simp))

theorem frame_sameTopo {D : List Nat} {m m' : Map X} (st : SameTopo m m') : Frame D m m' := by
  intro i d _
  unfold Map.β
  rw [st.b]

theorem frame_attrOnly {D : List Nat} {α : Type} {p : P X α} (hp : AttrOnly p) {m m' : Map X} {a : α}
    (h : run p m = (.ok a, m')) : Frame D m m' := by
  have st := hp m; rw [h] at st
  exact frame_sameTopo st

theorem inv_attrOnly {α : Type} {p : P X α} (hp : AttrOnly p) {m m' : Map X} {a : α}
    (hi : Inv n u m) (h : run p m = (.ok a, m')) : Inv n u m' :=
  Keeps.of_attrOnly hp m m' a hi h

/-! ## attribute-only pieces of the cut kernels -/

theorem ro_retry {α : Type} : ReadOnly (Prog.retry : P X α) := fun _ => rfl

theorem ao_fid (k d : Nat) : AttrOnly (faceId2 (X := X) k d) := AttrOnly.of_readOnly (readOnly_faceId2 k d)

theorem ao_readAttr (cfg : Cfg X) (s id : Nat) : AttrOnly (readAttr cfg s id) := by
  unfold readAttr
  exact AttrOnly.ite (AttrOnly.of_readOnly (ReadOnly.rA _ _)) (AttrOnly.pure _)

theorem ao_writeAttr (cfg : Cfg X) (s id : Nat) (v : X) : AttrOnly (writeAttr cfg s id v) := by
  unfold writeAttr
  refine AttrOnly.ite ?_ (AttrOnly.pure _)
  refine AttrOnly.bind (AttrOnly.of_readOnly (ReadOnly.rA _ _)) fun _ => ?_
  exact AttrOnly.bind (AttrOnly.wA _ _ _) fun _ => AttrOnly.pure _

theorem ao_removeAttr (cfg : Cfg X) (s id : Nat) : AttrOnly (removeAttr cfg s id) := by
  unfold removeAttr
  refine AttrOnly.ite ?_ (AttrOnly.pure _)
  refine AttrOnly.bind (AttrOnly.of_readOnly (ReadOnly.rA _ _)) fun _ => ?_
  exact AttrOnly.bind (AttrOnly.wA _ _ _) fun _ => AttrOnly.pure _

theorem ao_writeVtx (d : Nat) (v : Val) : AttrOnly (writeVtx d v) := by
  unfold writeVtx
  refine AttrOnly.bind (AttrOnly.of_readOnly (ReadOnly.rA _ _)) fun _ => ?_
  exact AttrOnly.bind (AttrOnly.wA _ _ _) fun _ => AttrOnly.pure _

theorem ao_takeFaceAnchor (cfg : Cfg Val) (k d : Nat) : AttrOnly (takeFaceAnchor cfg k d) := by
  unfold takeFaceAnchor
  refine AttrOnly.ite ?_ (AttrOnly.pure _)
  exact AttrOnly.bind (ao_fid _ _) fun _ => ao_removeAttr _ _ _

theorem ao_peekEdgeAnchor (cfg : Cfg Val) (e : Nat) : AttrOnly (peekEdgeAnchor cfg e) := by
  unfold peekEdgeAnchor
  exact AttrOnly.ite (ao_readAttr _ _ _) (AttrOnly.pure _)

theorem ao_midpointOrRetry (v1 v2 : Nat) : AttrOnly (midpointOrRetry v1 v2) := by
  unfold midpointOrRetry
  refine AttrOnly.bind (AttrOnly.of_readOnly (ReadOnly.rA _ _)) fun a => ?_
  refine AttrOnly.bind (AttrOnly.of_readOnly (ReadOnly.rA _ _)) fun b => ?_
  cases a <;> cases b
  · exact AttrOnly.of_readOnly ro_retry
  · exact AttrOnly.of_readOnly ro_retry
  · exact AttrOnly.of_readOnly ro_retry
  · exact AttrOnly.pure _

theorem ao_spreadFaceAnchor (cfg : Cfg Val) (k : Nat) (fa : Option Val) (a b : Nat) :
    AttrOnly (spreadFaceAnchor cfg k fa a b) := by
  unfold spreadFaceAnchor
  cases fa
  · exact AttrOnly.pure _
  · refine AttrOnly.bind (ao_fid _ _) fun _ => ?_
    refine AttrOnly.bind (ao_fid _ _) fun _ => ?_
    refine AttrOnly.bind (ao_writeAttr _ _ _ _) fun _ => ?_
    refine AttrOnly.bind (ao_writeAttr _ _ _ _) fun _ => ?_
    refine AttrOnly.ite ?_ (AttrOnly.pure _)
    refine AttrOnly.bind (C01.ao_eid _) fun _ => ?_
    exact AttrOnly.bind (ao_writeAttr _ _ _ _) fun _ => AttrOnly.pure _

theorem ao_spreadEdgeAnchor (cfg : Cfg Val) (k : Nat) (ea : Option Val) (a : Nat) :
    AttrOnly (spreadEdgeAnchor cfg k ea a) := by
  unfold spreadEdgeAnchor
  cases ea
  · exact AttrOnly.pure _
  · refine AttrOnly.bind (C01.ao_vid _ _) fun _ => ?_
    exact AttrOnly.bind (ao_writeAttr _ _ _ _) fun _ => AttrOnly.pure _

theorem ao_spreadEdgeAnchorOuter (cfg : Cfg Val) (k : Nat) (ea : Option Val) (a b : Nat) :
    AttrOnly (spreadEdgeAnchorOuter cfg k ea a b) := by
  unfold spreadEdgeAnchorOuter
  cases ea
  · exact AttrOnly.pure _
  · refine AttrOnly.bind (C01.ao_vid _ _) fun _ => ?_
    refine AttrOnly.bind (ao_writeAttr _ _ _ _) fun _ => ?_
    refine AttrOnly.bind (C01.ao_eid _) fun _ => ?_
    exact AttrOnly.bind (ao_writeAttr _ _ _ _) fun _ => AttrOnly.pure _

/-! ## (a) cut_outer_edge -/

/-- `cut_outer_edge` after the reads of `β0(e)`, `β1(e)` -/
def cutOuterTail (cfg : Cfg Val) (n ld nd1 nd2 nd3 : Nat) (fAnchor eAnchor : Option Val) (b0ld b1ld : Nat) :
    P Val Unit := do
  let vid1 ← vertexId2 n ld
  let vid2 ← vertexId2 n b1ld
  let newV ← midpointOrRetry vid1 vid2
  let newVid ← vertexId2 n nd1
  let _ ← writeVtx newVid newV
  oneUnsew2 cfg n ld
  oneUnsew2 cfg n b1ld
  oneSew2 cfg n ld nd1
  oneSew2 cfg n nd1 b0ld
  oneSew2 cfg n nd3 b1ld
  oneSew2 cfg n b1ld nd2
  spreadFaceAnchor cfg n fAnchor nd1 nd2
  spreadEdgeAnchorOuter cfg n eAnchor nd1 nd3

theorem keeps_cutOuterTail (cfg : Cfg Val) (k : Nat) {ld nd1 nd2 nd3 b0ld b1ld : Nat} (fa ea : Option Val)
    (hl : Live n u ld) (h1 : Live n u nd1) (h2 : Live n u nd2) (h3 : Live n u nd3)
    (hb0 : Live n u b0ld) (hb1 : Live n u b1ld) :
    Keeps n u (cutOuterTail cfg k ld nd1 nd2 nd3 fa ea b0ld b1ld) := by
  unfold cutOuterTail
  refine Keeps.ro_bind (readOnly_vertexId2 _ _) fun _ => ?_
  refine Keeps.ro_bind (readOnly_vertexId2 _ _) fun _ => ?_
  refine Keeps.bind (Keeps.of_attrOnly (ao_midpointOrRetry _ _)) fun _ => ?_
  refine Keeps.ro_bind (readOnly_vertexId2 _ _) fun _ => ?_
  refine Keeps.bind (Keeps.of_attrOnly (ao_writeVtx _ _)) fun _ => ?_
  refine Keeps.bind (keeps_oneUnsew2 cfg k hl) fun _ => ?_
  refine Keeps.bind (keeps_oneUnsew2 cfg k hb1) fun _ => ?_
  refine Keeps.bind (keeps_oneSew2 cfg k hl h1) fun _ => ?_
  refine Keeps.bind (keeps_oneSew2 cfg k h1 hb0) fun _ => ?_
  refine Keeps.bind (keeps_oneSew2 cfg k h3 hb1) fun _ => ?_
  refine Keeps.bind (keeps_oneSew2 cfg k hb1 h2) fun _ => ?_
  refine Keeps.bind (Keeps.of_attrOnly (ao_spreadFaceAnchor _ _ _ _ _)) fun _ => ?_
  exact Keeps.of_attrOnly (ao_spreadEdgeAnchorOuter _ _ _ _ _)

/-- a free in-use dart -/
def Spare (m : Map Val) (d : Nat) : Prop := C01.InUse m d ∧ m.isFree 3 d = true

theorem Spare.β {m : Map Val} {d : Nat} (h : Spare m d) (i : Nat) (hi : i < 3) : m.β i d = 0 :=
  (isFree_iff m 3 d).1 h.2 i hi

/-- **C15 (a), cut_outer_edge**: every call (successful, refused, retried because an end point has no coordinates,
    panicking) with an in-use edge dart whose face is closed at it (`β0(e)`, `β1(e)` non-null) and three free
    in-use spare darts (`nd1 ≠ nd2`) leaves a well-formed 2-map well formed. -/
theorem C15_cutOuter_preserves_WF (cfg : Cfg Val) (m : Map Val) (e nd1 nd2 nd3 : Nat) (hwf : WF 3 m)
    (he : C01.InUse m e) (hl : m.β 1 e ≠ 0 ∧ m.β 0 e ≠ 0)
    (s1 : Spare m nd1) (s2 : Spare m nd2) (s3 : Spare m nd3) (h12 : nd1 ≠ nd2) :
    WF 3 (atomically (cutOuterEdge cfg m.n e nd1 nd2 nd3) m).2 := by
  refine wf_atomically_of hwf fun a m' h => ?_
  have L1 : Live m.n m.u nd1 := Live.of_inUse s1.1
  have L2 : Live m.n m.u nd2 := Live.of_inUse s2.1
  have L3 : Live m.n m.u nd3 := Live.of_inUse s3.1
  have e2 : e ≠ nd2 := fun hh => hl.1 (by rw [hh]; exact s2.β 1 (by omega))
  have e3 : e ≠ nd3 := fun hh => hl.2 (by rw [hh]; exact s3.β 0 (by omega))
  unfold cutOuterEdge at h
  obtain ⟨_, m1, r1, h⟩ := run_bind_ok h
  have I1 := Keeps.twoLinkCore (X := Val) L1 L2 h12 m m1 _ (Inv.of_wf hwf) r1
  have F1 : Frame [nd1, nd2, nd3] m m1 := (frame_iLinkCore r1).mono (by simp)
  obtain ⟨_, m2, r2, h⟩ := run_bind_ok h
  have I2 := Keeps.oneLinkCore (X := Val) L2 L3 m1 m2 _ I1 r2
  have F2 : Frame [nd1, nd2, nd3] m m2 := F1.trans ((frame_oneLinkCore r2).mono (by simp))
  obtain ⟨fa, m3, r3, h⟩ := run_bind_ok h
  have I3 := inv_attrOnly (ao_takeFaceAnchor cfg m.n e) I2 r3
  have F3 : Frame [nd1, nd2, nd3] m m3 := F2.trans (frame_attrOnly (ao_takeFaceAnchor cfg m.n e) r3)
  obtain ⟨ea, m4, r4, h⟩ := run_bind_ok h
  have I4 := inv_attrOnly (ao_peekEdgeAnchor cfg e) I3 r4
  have F4 : Frame [nd1, nd2, nd3] m m4 := F3.trans (frame_attrOnly (ao_peekEdgeAnchor cfg e) r4)
  obtain ⟨_, h⟩ := rB_ok h
  obtain ⟨_, h⟩ := rB_ok h
  -- the reads see the images of the initial map: `e` is none of the spare darts
  have e1 : e ≠ nd1 := fun hh => hl.1 (by rw [hh]; exact s1.β 1 (by omega))
  have hne : e ∉ [nd1, nd2, nd3] := by simp [e1, e2, e3]
  rw [F4 0 e hne, F4 1 e hne] at h
  exact (keeps_cutOuterTail cfg m.n fa ea (Live.of_inUse he) L1 L2 L3
    (live_image hwf (by omega) he.2.1 hl.2) (live_image hwf (by omega) he.2.1 hl.1) m4 m' a I4 h).wf

/-! ## (a) cut_inner_edge -/

/-- `cut_inner_edge` after the reads of `β0`, `β1` of both edge darts -/
def cutInnerTail (cfg : Cfg Val) (n ld rd nd1 nd2 nd3 nd4 nd5 nd6 : Nat) (lf rf eAnchor : Option Val)
    (b0ld b1ld b0rd b1rd : Nat) : P Val Unit := do
  let vid1 ← vertexId2 n ld
  let vid2 ← vertexId2 n b1ld
  let newV ← midpointOrRetry vid1 vid2
  let newVid ← vertexId2 n nd1
  let _ ← writeVtx newVid newV
  twoUnsew2 cfg n ld
  oneUnsew2 cfg n ld
  oneUnsew2 cfg n b1ld
  oneUnsew2 cfg n rd
  oneUnsew2 cfg n b1rd
  twoSew2 cfg n ld nd6
  twoSew2 cfg n rd nd3
  oneSew2 cfg n ld nd1
  oneSew2 cfg n nd1 b0ld
  oneSew2 cfg n nd3 b1ld
  oneSew2 cfg n b1ld nd2
  oneSew2 cfg n rd nd4
  oneSew2 cfg n nd4 b0rd
  oneSew2 cfg n nd6 b1rd
  oneSew2 cfg n b1rd nd5
  spreadFaceAnchor cfg n lf nd1 nd2
  spreadFaceAnchor cfg n rf nd4 nd5
  spreadEdgeAnchor cfg n eAnchor nd1

theorem keeps_cutInnerTail (cfg : Cfg Val) (k : Nat) {ld rd nd1 nd2 nd3 nd4 nd5 nd6 b0ld b1ld b0rd b1rd : Nat}
    (lf rf ea : Option Val) (hl : Live n u ld) (hr : Live n u rd)
    (h1 : Live n u nd1) (h2 : Live n u nd2) (h3 : Live n u nd3) (h4 : Live n u nd4) (h5 : Live n u nd5)
    (h6 : Live n u nd6) (hb0l : Live n u b0ld) (hb1l : Live n u b1ld) (hb0r : Live n u b0rd) (hb1r : Live n u b1rd)
    (hl6 : ld ≠ nd6) (hr3 : rd ≠ nd3) :
    Keeps n u (cutInnerTail cfg k ld rd nd1 nd2 nd3 nd4 nd5 nd6 lf rf ea b0ld b1ld b0rd b1rd) := by
  unfold cutInnerTail
  refine Keeps.ro_bind (readOnly_vertexId2 _ _) fun _ => ?_
  refine Keeps.ro_bind (readOnly_vertexId2 _ _) fun _ => ?_
  refine Keeps.bind (Keeps.of_attrOnly (ao_midpointOrRetry _ _)) fun _ => ?_
  refine Keeps.ro_bind (readOnly_vertexId2 _ _) fun _ => ?_
  refine Keeps.bind (Keeps.of_attrOnly (ao_writeVtx _ _)) fun _ => ?_
  refine Keeps.bind (keeps_twoUnsew2 cfg k hl) fun _ => ?_
  refine Keeps.bind (keeps_oneUnsew2 cfg k hl) fun _ => ?_
  refine Keeps.bind (keeps_oneUnsew2 cfg k hb1l) fun _ => ?_
  refine Keeps.bind (keeps_oneUnsew2 cfg k hr) fun _ => ?_
  refine Keeps.bind (keeps_oneUnsew2 cfg k hb1r) fun _ => ?_
  refine Keeps.bind (keeps_twoSew2 cfg k hl h6 hl6) fun _ => ?_
  refine Keeps.bind (keeps_twoSew2 cfg k hr h3 hr3) fun _ => ?_
  refine Keeps.bind (keeps_oneSew2 cfg k hl h1) fun _ => ?_
  refine Keeps.bind (keeps_oneSew2 cfg k h1 hb0l) fun _ => ?_
  refine Keeps.bind (keeps_oneSew2 cfg k h3 hb1l) fun _ => ?_
  refine Keeps.bind (keeps_oneSew2 cfg k hb1l h2) fun _ => ?_
  refine Keeps.bind (keeps_oneSew2 cfg k hr h4) fun _ => ?_
  refine Keeps.bind (keeps_oneSew2 cfg k h4 hb0r) fun _ => ?_
  refine Keeps.bind (keeps_oneSew2 cfg k h6 hb1r) fun _ => ?_
  refine Keeps.bind (keeps_oneSew2 cfg k hb1r h5) fun _ => ?_
  refine Keeps.bind (Keeps.of_attrOnly (ao_spreadFaceAnchor _ _ _ _ _)) fun _ => ?_
  refine Keeps.bind (Keeps.of_attrOnly (ao_spreadFaceAnchor _ _ _ _ _)) fun _ => ?_
  exact Keeps.of_attrOnly (ao_spreadEdgeAnchor _ _ _ _)

/-- a dart with a non-null β1 image is none of the given free darts -/
theorem not_spare {m : Map Val} {d : Nat} (hd : m.β 1 d ≠ 0) {l : List Nat} (hs : ∀ x, x ∈ l → Spare m x) : d ∉ l :=
  fun hh => hd ((hs d hh).β 1 (by omega))

/-- **C15 (a), cut_inner_edge**: every call with an in-use interior edge dart (`β2(e) ≠ 0`) whose two faces are
    closed at the edge darts and six free in-use spare darts (`nd1 ≠ nd2`, `nd4 ≠ nd5`) leaves a well-formed 2-map
    well formed. -/
theorem C15_cutInner_preserves_WF (cfg : Cfg Val) (m : Map Val) (e nd1 nd2 nd3 nd4 nd5 nd6 : Nat) (hwf : WF 3 m)
    (he : C01.InUse m e) (h2e : m.β 2 e ≠ 0) (hl : m.β 1 e ≠ 0 ∧ m.β 0 e ≠ 0)
    (hr : m.β 1 (m.β 2 e) ≠ 0 ∧ m.β 0 (m.β 2 e) ≠ 0)
    (hs : ∀ x, x ∈ [nd1, nd2, nd3, nd4, nd5, nd6] → Spare m x) (h12 : nd1 ≠ nd2) (h45 : nd4 ≠ nd5) :
    WF 3 (atomically (cutInnerEdge cfg m.n e nd1 nd2 nd3 nd4 nd5 nd6) m).2 := by
  refine wf_atomically_of hwf fun a m' h => ?_
  have L : ∀ x, x ∈ [nd1, nd2, nd3, nd4, nd5, nd6] → Live m.n m.u x := fun x hx => Live.of_inUse (hs x hx).1
  have L1 := L nd1 (by simp); have L2 := L nd2 (by simp); have L3 := L nd3 (by simp)
  have L4 := L nd4 (by simp); have L5 := L nd5 (by simp); have L6 := L nd6 (by simp)
  have Lr := live_image hwf (by omega : 2 < 3) he.2.1 h2e
  have hne : e ∉ [nd1, nd2, nd3, nd4, nd5, nd6] := not_spare hl.1 hs
  have hnr : m.β 2 e ∉ [nd1, nd2, nd3, nd4, nd5, nd6] := not_spare hr.1 hs
  unfold cutInnerEdge at h
  obtain ⟨_, m1, r1, h⟩ := run_bind_ok h
  have I1 := Keeps.twoLinkCore (X := Val) L1 L2 h12 m m1 _ (Inv.of_wf hwf) r1
  have F1 : Frame [nd1, nd2, nd3, nd4, nd5, nd6] m m1 := (frame_iLinkCore r1).mono (by simp)
  obtain ⟨_, m2, r2, h⟩ := run_bind_ok h
  have I2 := Keeps.oneLinkCore (X := Val) L2 L3 m1 m2 _ I1 r2
  have F2 : Frame [nd1, nd2, nd3, nd4, nd5, nd6] m m2 := F1.trans ((frame_oneLinkCore r2).mono (by simp))
  obtain ⟨_, m3, r3, h⟩ := run_bind_ok h
  have I3 := Keeps.twoLinkCore (X := Val) L4 L5 h45 m2 m3 _ I2 r3
  have F3 : Frame [nd1, nd2, nd3, nd4, nd5, nd6] m m3 := F2.trans ((frame_iLinkCore r3).mono (by simp))
  obtain ⟨_, m4, r4, h⟩ := run_bind_ok h
  have I4 := Keeps.oneLinkCore (X := Val) L5 L6 m3 m4 _ I3 r4
  have F4 : Frame [nd1, nd2, nd3, nd4, nd5, nd6] m m4 := F3.trans ((frame_oneLinkCore r4).mono (by simp))
  obtain ⟨_, h⟩ := rB_ok h
  rw [F4 2 e hne] at h
  obtain ⟨lf, m5, r5, h⟩ := run_bind_ok h
  have I5 := inv_attrOnly (ao_takeFaceAnchor cfg m.n e) I4 r5
  have F5 := F4.trans (frame_attrOnly (D := [nd1, nd2, nd3, nd4, nd5, nd6]) (ao_takeFaceAnchor cfg m.n e) r5)
  obtain ⟨rf, m6, r6, h⟩ := run_bind_ok h
  have I6 := inv_attrOnly (ao_takeFaceAnchor cfg m.n (m.β 2 e)) I5 r6
  have F6 := F5.trans (frame_attrOnly (D := [nd1, nd2, nd3, nd4, nd5, nd6]) (ao_takeFaceAnchor cfg m.n (m.β 2 e)) r6)
  obtain ⟨ea, m7, r7, h⟩ := run_bind_ok h
  have I7 := inv_attrOnly (ao_peekEdgeAnchor cfg e) I6 r7
  have F7 := F6.trans (frame_attrOnly (D := [nd1, nd2, nd3, nd4, nd5, nd6]) (ao_peekEdgeAnchor cfg e) r7)
  obtain ⟨_, h⟩ := rB_ok h
  obtain ⟨_, h⟩ := rB_ok h
  obtain ⟨_, h⟩ := rB_ok h
  obtain ⟨_, h⟩ := rB_ok h
  rw [F7 0 e hne, F7 1 e hne, F7 0 _ hnr, F7 1 _ hnr] at h
  have hl6 : e ≠ nd6 := fun hh => hne (by simp [hh])
  have hr3 : m.β 2 e ≠ nd3 := fun hh => hnr (by simp [hh])
  exact (keeps_cutInnerTail cfg m.n lf rf ea (Live.of_inUse he) Lr L1 L2 L3 L4 L5 L6
    (live_image hwf (by omega) he.2.1 hl.2) (live_image hwf (by omega) he.2.1 hl.1)
    (live_image hwf (by omega) Lr.2.1 hr.2) (live_image hwf (by omega) Lr.2.1 hr.1) hl6 hr3 m7 m' a I7 h).wf

/-! ## (a) collapse_edge

`collapse_edge` flags darts (`remove_free_dart_transac`), so the removal flags change along the kernel and the
`Keeps` calculus (fixed flags) does not apply.  The invariant used instead is "the map with its ORIGINAL flags is
well formed": sews and unsews never read a flag, flagging never touches a β image.  At the end, the map with its new
flags is well formed iff the newly flagged darts are free. -/

/-- the map with its removal flags replaced -/
def withU (m : Map X) (u0 : Array Bool) : Map X := { m with u := u0 }

structure InvJ (n : Nat) (u0 : Array Bool) (m : Map X) : Prop where
  wf : WF 3 (withU m u0)
  n_eq : m.n = n
  usz : m.u.size = n

theorem InvJ.inUse {m : Map X} (h : InvJ n u m) {d : Nat} (hd : Live n u d) : C01.InUse (withU m u) d :=
  ⟨hd.1, by show d < m.n; rw [h.n_eq]; exact hd.2.1, hd.2.2⟩

def KeepsJ (n : Nat) (u0 : Array Bool) {α : Type} (p : P X α) : Prop :=
  ∀ (m m' : Map X) (a : α), InvJ n u0 m → run p m = (.ok a, m') → InvJ n u0 m'

section
variable {α β : Type}

theorem KeepsJ.pure (a : α) : KeepsJ n u (pure a : P X α) := by
  intro m m' b h hr; simp at hr; rw [← hr.2]; exact h

theorem KeepsJ.abort (e : Err) : KeepsJ n u (HC.abort e : P X α) := by
  intro m m' b _ hr; simp at hr

theorem KeepsJ.panic : KeepsJ n u (Prog.panic : P X α) := by
  intro m m' b _ hr; simp at hr

theorem KeepsJ.retry : KeepsJ n u (Prog.retry : P X α) := by
  intro m m' b _ hr; simp at hr

theorem KeepsJ.bind {p : P X α} {f : α → P X β} (hp : KeepsJ n u p) (hf : ∀ a, KeepsJ n u (f a)) :
    KeepsJ n u (p.bind f) := by
  intro m m' b h hr
  obtain ⟨a, m1, h1, h2⟩ := run_bind_ok hr
  exact hf a _ _ b (hp _ _ a h h1) h2

theorem KeepsJ.sameTopo_withU {m m' : Map X} (st : SameTopo m m') (u0 : Array Bool) : SameTopo (withU m u0) (withU m' u0) :=
  ⟨st.n, st.b, rfl, st.asz, st.rsz⟩

theorem KeepsJ.of_attrOnly {p : P X α} (hp : AttrOnly p) : KeepsJ n u p := by
  intro m m' a h hr
  have st := hp m; rw [hr] at st
  exact ⟨h.wf.sameTopo (KeepsJ.sameTopo_withU st u), by rw [st.n]; exact h.n_eq, by rw [st.u]; exact h.usz⟩

theorem KeepsJ.of_readOnly {p : P X α} (hp : ReadOnly p) : KeepsJ n u p := KeepsJ.of_attrOnly (AttrOnly.of_readOnly hp)

theorem KeepsJ.ro_bind {p : P X α} {f : α → P X β} (hp : ReadOnly p) (hf : ∀ a, KeepsJ n u (f a)) :
    KeepsJ n u (p.bind f) := KeepsJ.bind (KeepsJ.of_readOnly hp) hf

theorem KeepsJ.ite {c : Prop} [Decidable c] {p q : P X α} (hp : c → KeepsJ n u p) (hq : ¬ c → KeepsJ n u q) :
    KeepsJ n u (if c then p else q) := by
  split
  · exact hp ‹_›
  · exact hq ‹_›

/-- a β read returns an existing dart which, if non-null, was live when the kernel started -/
theorem KeepsJ.rB_bind {i d : Nat} {f : Nat → P X β}
    (hf : ∀ x, (x ≠ 0 → Live n u x) → KeepsJ n u (f x)) : KeepsJ n u ((rB i d).bind f) := by
  intro m m' b h hr
  obtain ⟨hok, hr⟩ := rB_ok hr
  have hid := (h.wf.toSized.okβ i d).1 hok
  refine hf (m.β i d) (fun hne => ?_) m m' b h hr
  have := live_image h.wf hid.1 hid.2 hne
  exact ⟨this.1, by rw [← h.n_eq]; exact this.2.1, this.2.2⟩

theorem KeepsJ.oneLinkCore {l r : Nat} (hl : Live n u l) (hr : Live n u r) :
    KeepsJ n u (HC.oneLinkCore (X := X) l r) := by
  intro m m' a h hrun
  obtain ⟨_, _, h1, h0, rfl⟩ := oneLinkCore_ok hrun
  have hl' := h.inUse hl
  have hr' := h.inUse hr
  exact ⟨h.wf.link1 (by omega) hl'.1 hr'.1 hl'.2.1 hr'.2.1 hl'.2.2 hr'.2.2 h1 h0, h.n_eq, h.usz⟩

theorem KeepsJ.twoLinkCore {l r : Nat} (hl : Live n u l) (hr : Live n u r) (hlr : l ≠ r) :
    KeepsJ n u (HC.iLinkCore (X := X) 2 l r) := by
  intro m m' a h hrun
  obtain ⟨_, _, h1, h0, rfl⟩ := iLinkCore_ok hrun
  have hl' := h.inUse hl
  have hr' := h.inUse hr
  exact ⟨h.wf.linkI (by omega) (by omega) hl'.1 hr'.1 hlr hl'.2.1 hr'.2.1 hl'.2.2 hr'.2.2 h1 h0, h.n_eq, h.usz⟩

theorem KeepsJ.oneUnlinkCore {l : Nat} (hl : Live n u l) : KeepsJ n u (HC.oneUnlinkCore (X := X) l) := by
  intro m m' a h hrun
  obtain ⟨_, _, hne, rfl⟩ := oneUnlinkCore_ok hrun
  exact ⟨h.wf.unlink1 (by omega) (h.inUse hl).2.1 hne, h.n_eq, h.usz⟩

theorem KeepsJ.twoUnlinkCore {l : Nat} (hl : Live n u l) : KeepsJ n u (HC.iUnlinkCore (X := X) 2 l) := by
  intro m m' a h hrun
  obtain ⟨_, _, hne, rfl⟩ := iUnlinkCore_ok hrun
  exact ⟨h.wf.unlinkI (by omega) (by omega) (h.inUse hl).2.1 hne, h.n_eq, h.usz⟩

/-- flagging a dart never touches the map-with-original-flags -/
theorem KeepsJ.removeFreeDartTx (d : Nat) : KeepsJ n u (HC.removeFreeDartTx (X := X) d) := by
  intro m m' a h hrun
  rw [run_removeFreeDartTx] at hrun
  by_cases hok : m.okU d = true
  · simp only [hok, if_true, Prod.mk.injEq] at hrun
    rw [← hrun.2]
    exact ⟨h.wf, h.n_eq, by show (wr m.u d true).size = n; rw [size_wr]; exact h.usz⟩
  · simp [hok] at hrun

end

theorem keepsJ_oneSew2 (cfg : Cfg X) (k : Nat) {l r : Nat} (hl : Live n u l) (hr : Live n u r) :
    KeepsJ n u (oneSew2 cfg k l r) := by
  unfold oneSew2
  refine KeepsJ.ro_bind (ReadOnly.rB _ _) fun b2l => ?_
  refine KeepsJ.ite (fun _ => KeepsJ.oneLinkCore hl hr) fun _ => ?_
  refine KeepsJ.ro_bind (readOnly_vertexId2 _ _) fun v1 => ?_
  refine KeepsJ.ro_bind (readOnly_vertexId2 _ _) fun v2 => ?_
  refine KeepsJ.bind (KeepsJ.oneLinkCore hl hr) fun _ => ?_
  refine KeepsJ.of_attrOnly ?_
  refine AttrOnly.bind (C01.ao_vid _ _) fun nv => ?_
  exact AttrOnly.bind (attrOnly_mergeS _ _ _ _ _) fun _ => attrOnly_mergeAttrs _ _ _ _ _

theorem keepsJ_oneUnsew2 (cfg : Cfg X) (k : Nat) {l : Nat} (hl : Live n u l) :
    KeepsJ n u (oneUnsew2 cfg k l) := by
  unfold oneUnsew2
  refine KeepsJ.ro_bind (ReadOnly.rB _ _) fun b2l => ?_
  refine KeepsJ.ite (fun _ => KeepsJ.oneUnlinkCore hl) fun _ => ?_
  refine KeepsJ.ro_bind (ReadOnly.rB _ _) fun r => ?_
  refine KeepsJ.ro_bind (readOnly_vertexId2 _ _) fun vold => ?_
  refine KeepsJ.bind (KeepsJ.oneUnlinkCore hl) fun _ => ?_
  refine KeepsJ.of_attrOnly ?_
  refine AttrOnly.bind (C01.ao_vid _ _) fun nl => ?_
  refine AttrOnly.bind (C01.ao_vid _ _) fun nr => ?_
  exact AttrOnly.bind (attrOnly_splitS _ _ _ _ _) fun _ => attrOnly_splitAttrs _ _ _ _ _

theorem keepsJ_twoSew2 (cfg : Cfg X) (k : Nat) {l r : Nat} (hl : Live n u l) (hr : Live n u r) (hlr : l ≠ r) :
    KeepsJ n u (twoSew2 cfg k l r) := by
  have core := KeepsJ.twoLinkCore (X := X) hl hr hlr
  unfold twoSew2
  refine KeepsJ.ro_bind (ReadOnly.rB _ _) fun b1l => ?_
  refine KeepsJ.ro_bind (ReadOnly.rB _ _) fun b1r => ?_
  refine KeepsJ.ite (fun _ => ?_) fun _ => KeepsJ.ite (fun _ => ?_) fun _ => KeepsJ.ite (fun _ => ?_) fun _ => ?_
  · refine KeepsJ.bind core fun _ => KeepsJ.of_attrOnly ?_
    exact AttrOnly.bind (C01.ao_eid _) fun _ => attrOnly_mergeAttrs _ _ _ _ _
  · refine KeepsJ.ro_bind (readOnly_vertexId2 _ _) fun _ => ?_
    refine KeepsJ.ro_bind (readOnly_vertexId2 _ _) fun _ => ?_
    refine KeepsJ.bind core fun _ => KeepsJ.of_attrOnly ?_
    refine AttrOnly.bind (C01.ao_vid _ _) fun _ => ?_
    refine AttrOnly.bind (C01.ao_eid _) fun _ => ?_
    refine AttrOnly.bind (attrOnly_mergeS _ _ _ _ _) fun _ => ?_
    exact AttrOnly.bind (attrOnly_mergeAttrs _ _ _ _ _) fun _ => attrOnly_mergeAttrs _ _ _ _ _
  · refine KeepsJ.ro_bind (readOnly_vertexId2 _ _) fun _ => ?_
    refine KeepsJ.ro_bind (readOnly_vertexId2 _ _) fun _ => ?_
    refine KeepsJ.bind core fun _ => KeepsJ.of_attrOnly ?_
    refine AttrOnly.bind (C01.ao_vid _ _) fun _ => ?_
    refine AttrOnly.bind (C01.ao_eid _) fun _ => ?_
    refine AttrOnly.bind (attrOnly_mergeS _ _ _ _ _) fun _ => ?_
    exact AttrOnly.bind (attrOnly_mergeAttrs _ _ _ _ _) fun _ => attrOnly_mergeAttrs _ _ _ _ _
  · refine KeepsJ.ro_bind (readOnly_vertexId2 _ _) fun _ => ?_
    refine KeepsJ.ro_bind (readOnly_vertexId2 _ _) fun _ => ?_
    refine KeepsJ.ro_bind (readOnly_vertexId2 _ _) fun _ => ?_
    refine KeepsJ.ro_bind (readOnly_vertexId2 _ _) fun _ => ?_
    refine KeepsJ.ro_bind (ReadOnly.rA _ _) fun _ => ?_
    refine KeepsJ.ro_bind (ReadOnly.rA _ _) fun _ => ?_
    refine KeepsJ.ro_bind (ReadOnly.rA _ _) fun _ => ?_
    refine KeepsJ.ro_bind (ReadOnly.rA _ _) fun _ => ?_
    refine KeepsJ.ite (fun _ => KeepsJ.abort _) fun _ => ?_
    refine KeepsJ.bind core fun _ => KeepsJ.of_attrOnly ?_
    refine AttrOnly.bind (C01.ao_vid _ _) fun _ => ?_
    refine AttrOnly.bind (C01.ao_vid _ _) fun _ => ?_
    refine AttrOnly.bind (C01.ao_eid _) fun _ => ?_
    refine AttrOnly.bind (attrOnly_mergeS _ _ _ _ _) fun _ => ?_
    refine AttrOnly.bind (attrOnly_mergeS _ _ _ _ _) fun _ => ?_
    refine AttrOnly.bind (attrOnly_mergeAttrs _ _ _ _ _) fun _ => ?_
    exact AttrOnly.bind (attrOnly_mergeAttrs _ _ _ _ _) fun _ => attrOnly_mergeAttrs _ _ _ _ _

theorem keepsJ_twoUnsew2 (cfg : Cfg X) (k : Nat) {l : Nat} (hl : Live n u l) :
    KeepsJ n u (twoUnsew2 cfg k l) := by
  have core := KeepsJ.twoUnlinkCore (X := X) hl
  unfold twoUnsew2
  refine KeepsJ.ro_bind (ReadOnly.rB _ _) fun r => ?_
  refine KeepsJ.ro_bind (ReadOnly.rB _ _) fun b1l => ?_
  refine KeepsJ.ro_bind (ReadOnly.rB _ _) fun b1r => ?_
  refine KeepsJ.ite (fun _ => ?_) fun _ => KeepsJ.ite (fun _ => ?_) fun _ => KeepsJ.ite (fun _ => ?_) fun _ => ?_
  · refine KeepsJ.ro_bind (readOnly_edgeId2 _) fun _ => ?_
    exact KeepsJ.bind core fun _ => KeepsJ.of_attrOnly (attrOnly_splitAttrs _ _ _ _ _)
  · refine KeepsJ.ro_bind (readOnly_edgeId2 _) fun _ => ?_
    refine KeepsJ.ro_bind (readOnly_vertexId2 _ _) fun _ => ?_
    refine KeepsJ.bind core fun _ => KeepsJ.of_attrOnly ?_
    refine AttrOnly.bind (attrOnly_splitAttrs _ _ _ _ _) fun _ => ?_
    refine AttrOnly.bind (C01.ao_vid _ _) fun _ => ?_
    refine AttrOnly.bind (C01.ao_vid _ _) fun _ => ?_
    exact AttrOnly.bind (attrOnly_splitS _ _ _ _ _) fun _ => attrOnly_splitAttrs _ _ _ _ _
  · refine KeepsJ.ro_bind (readOnly_edgeId2 _) fun _ => ?_
    refine KeepsJ.ro_bind (readOnly_vertexId2 _ _) fun _ => ?_
    refine KeepsJ.bind core fun _ => KeepsJ.of_attrOnly ?_
    refine AttrOnly.bind (attrOnly_splitAttrs _ _ _ _ _) fun _ => ?_
    refine AttrOnly.bind (C01.ao_vid _ _) fun _ => ?_
    refine AttrOnly.bind (C01.ao_vid _ _) fun _ => ?_
    exact AttrOnly.bind (attrOnly_splitS _ _ _ _ _) fun _ => attrOnly_splitAttrs _ _ _ _ _
  · refine KeepsJ.ro_bind (readOnly_edgeId2 _) fun _ => ?_
    refine KeepsJ.ro_bind (readOnly_vertexId2 _ _) fun _ => ?_
    refine KeepsJ.ro_bind (readOnly_vertexId2 _ _) fun _ => ?_
    refine KeepsJ.bind core fun _ => KeepsJ.of_attrOnly ?_
    refine AttrOnly.bind (attrOnly_splitAttrs _ _ _ _ _) fun _ => ?_
    refine AttrOnly.bind (C01.ao_vid _ _) fun _ => ?_
    refine AttrOnly.bind (C01.ao_vid _ _) fun _ => ?_
    refine AttrOnly.bind (C01.ao_vid _ _) fun _ => ?_
    refine AttrOnly.bind (C01.ao_vid _ _) fun _ => ?_
    refine AttrOnly.bind (attrOnly_splitS _ _ _ _ _) fun _ => ?_
    refine AttrOnly.bind (attrOnly_splitAttrs _ _ _ _ _) fun _ => ?_
    exact AttrOnly.bind (attrOnly_splitS _ _ _ _ _) fun _ => attrOnly_splitAttrs _ _ _ _ _

/-! ### unsews of the null dart always fail -/

theorem oneUnsew2_null_fails (cfg : Cfg X) (k : Nat) {m m' : Map X} {a : Unit} (h0 : ∀ i, i < 3 → m.β i 0 = 0) :
    run (oneUnsew2 cfg k 0) m ≠ (.ok a, m') := by
  intro h
  unfold oneUnsew2 at h
  obtain ⟨_, h⟩ := rB_ok h
  rw [h0 2 (by omega)] at h
  simp only [if_true] at h
  obtain ⟨_, _, hne, _⟩ := oneUnlinkCore_ok h
  exact hne (h0 1 (by omega))

theorem iUnlinkCore_null_fails (i : Nat) (hi : i < 3) {m m' : Map X} {a : Unit} (h0 : ∀ i, i < 3 → m.β i 0 = 0) :
    run (iUnlinkCore (X := X) i 0) m ≠ (.ok a, m') := by
  intro h
  obtain ⟨_, _, hne, _⟩ := iUnlinkCore_ok h
  exact hne (h0 i hi)

theorem twoUnsew2_null_fails (cfg : Cfg X) (k : Nat) {m m' : Map X} {a : Unit} (h0 : ∀ i, i < 3 → m.β i 0 = 0) :
    run (twoUnsew2 cfg k 0) m ≠ (.ok a, m') := by
  intro h
  unfold twoUnsew2 at h
  obtain ⟨_, h⟩ := rB_ok h
  obtain ⟨_, h⟩ := rB_ok h
  obtain ⟨_, h⟩ := rB_ok h
  rw [h0 2 (by omega), h0 1 (by omega)] at h
  simp only [and_self, if_true] at h
  obtain ⟨_, _, h⟩ := ro_bind_ok (readOnly_edgeId2 _) h
  obtain ⟨_, _, h1, _⟩ := run_bind_ok h
  exact iUnlinkCore_null_fails 2 (by omega) h0 h1

theorem InvJ.null {m : Map X} (h : InvJ n u m) : ∀ i, i < 3 → m.β i 0 = 0 := fun i hi => h.wf.null i hi

theorem keepsJ_oneUnsew2_opt (cfg : Cfg X) (k : Nat) {d : Nat} (hd : d ≠ 0 → Live n u d) :
    KeepsJ n u (oneUnsew2 cfg k d) := by
  by_cases h0 : d = 0
  · subst h0
    intro m m' a hi hr
    exact absurd hr (oneUnsew2_null_fails cfg k hi.null)
  · exact keepsJ_oneUnsew2 cfg k (hd h0)

theorem keepsJ_twoUnsew2_opt (cfg : Cfg X) (k : Nat) {d : Nat} (hd : d ≠ 0 → Live n u d) :
    KeepsJ n u (twoUnsew2 cfg k d) := by
  by_cases h0 : d = 0
  · subst h0
    intro m m' a hi hr
    exact absurd hr (twoUnsew2_null_fails cfg k hi.null)
  · exact keepsJ_twoUnsew2 cfg k (hd h0)

theorem keepsJ_twoUnlink_opt {d : Nat} (hd : d ≠ 0 → Live n u d) : KeepsJ n u (iUnlinkCore (X := X) 2 d) := by
  by_cases h0 : d = 0
  · subst h0
    intro m m' a hi hr
    exact absurd hr (iUnlinkCore_null_fails 2 (by omega) hi.null)
  · exact KeepsJ.twoUnlinkCore (hd h0)

/-! ### the kernel with an assertion in front of every sew

`chk c` is placed in front of each sew of `collapse_edge`'s helpers, with `c` = "the darts handed to the sew are
non-null (and distinct for a 2-sew)".  With `chk = fun _ => pure ()` this is the kernel itself (`rfl`); with
`chk = assertP` a failed assertion panics. -/

def assertP (c : Bool) : P Val Unit := if c then pure () else Prog.panic

def halfMidG (chk : Bool → P Val Unit) (cfg : Cfg Val) (n b0d d b1d : Nat) : P Val Unit := do
  oneUnsew2 cfg n d
  oneUnsew2 cfg n b1d
  oneUnsew2 cfg n b0d
  let b2b0d ← rB 2 b0d
  let b2b1d ← rB 2 b1d
  twoUnsew2 cfg n b0d
  twoUnsew2 cfg n b1d
  chk (decide (b2b0d ≠ 0 ∧ b2b1d ≠ 0 ∧ b2b0d ≠ b2b1d))
  twoSew2 cfg n b2b0d b2b1d
  let _ ← removeFreeDartTx d
  let _ ← removeFreeDartTx b0d
  let _ ← removeFreeDartTx b1d
  pure ()

def edgeToMidpointG (chk : Bool → P Val Unit) (cfg : Cfg Val) (n b0l l b1l b0r r b1r : Nat) : P Val Nat := do
  if r ≠ 0 then do
    twoUnsew2 cfg n r
    halfMidG chk cfg n b0r r b1r
  else pure ()
  let b2b0l ← rB 2 b0l
  halfMidG chk cfg n b0l l b1l
  collapsedVid n b2b0l r b1r

def halfBaseG (chk : Bool → P Val Unit) (cfg : Cfg Val) (n dPe dE dNe : Nat) : P Val Unit := do
  let b2dNe ← rB 2 dNe
  let b0b2dNe ← rB 0 b2dNe
  let b1b2dNe ← rB 1 b2dNe
  oneUnsew2 cfg n dE
  oneUnsew2 cfg n dPe
  oneUnsew2 cfg n dNe
  if b2dNe ≠ 0 then do
    oneUnsew2 cfg n b2dNe
    oneUnsew2 cfg n b0b2dNe
    iUnlinkCore 2 dNe
    let _ ← removeFreeDartTx dE
    let _ ← removeFreeDartTx dNe
    let _ ← removeFreeDartTx b2dNe
    chk (decide (dPe ≠ 0 ∧ b1b2dNe ≠ 0))
    oneSew2 cfg n dPe b1b2dNe
    chk (decide (b0b2dNe ≠ 0 ∧ dPe ≠ 0))
    oneSew2 cfg n b0b2dNe dPe
  else pure ()

def edgeToBaseG (chk : Bool → P Val Unit) (cfg : Cfg Val) (n b0l l b1l b0r r b1r : Nat) : P Val Nat := do
  let lVid ← vertexId2 n l
  let tmpVertex ← rA 0 lVid
  let tmpAnchor ← readAttr cfg stVA lVid
  if r ≠ 0 then do
    twoUnsew2 cfg n l
    halfBaseG chk cfg n b1r r b0r
  else pure ()
  let b2b0l ← rB 2 b0l
  halfBaseG chk cfg n b0l l b1l
  let newVid ← collapsedVid n b2b0l r b1r
  if newVid ≠ 0 then do
    match tmpVertex with
    | some v => do let _ ← writeVtx newVid v; pure ()
    | none => pure ()
    match tmpAnchor with
    | some a => do let _ ← writeAttr cfg stVA newVid a; pure ()
    | none => pure ()
  else pure ()
  pure newVid

/-- `collapse_edge` after its guards (`is_collapsible`, the chosen variant, the orientation post-check) -/
def collapseBodyG (chk : Bool → P Val Unit) (cfg : Cfg Val) (n e r b0l b1l b0r b1r : Nat) : P Val Nat := do
  let c ← isCollapsible cfg n e
  let newVid ← (match c with
    | .average => edgeToMidpointG chk cfg n b0l e b1l b0r r b1r
    | .left => edgeToBaseG chk cfg n b0l e b1l b0r r b1r
    | .right => edgeToBaseG chk cfg n b0r r b1r b0l e b1l)
  let ok ← isOrbitOrientationConsistent n newVid
  if !ok then abort errInvertedOrientation else
  pure newVid

def collapseEdgeG (chk : Bool → P Val Unit) (cfg : Cfg Val) (n e : Nat) : P Val Nat := do
  if e = 0 then abort errNullEdge else
  let l := e
  let r ← rB 2 e
  let b0l ← rB 0 l
  let b1l ← rB 1 l
  let b0r ← rB 0 r
  let b1r ← rB 1 r
  let b1b1l ← rB 1 b1l
  if b1b1l ≠ b0l then abort errBadTopology else
  let bad ← (if r ≠ 0 then do
    let b1b1r ← rB 1 b1r
    pure (decide (b1b1r ≠ b0r)) else pure false : P Val Bool)
  if bad then abort errBadTopology else
  collapseBodyG chk cfg n e r b0l b1l b0r b1r

/-- the kernel with assertions -/
def collapseEdgeA (cfg : Cfg Val) (n e : Nat) : P Val Nat := collapseEdgeG assertP cfg n e

/-- without assertions, this is the model of `collapse_edge` itself -/
theorem collapseEdgeG_nochk (cfg : Cfg Val) (n e : Nat) :
    collapseEdgeG (fun _ => pure ()) cfg n e = collapseEdge cfg n e := rfl

/-! ### read-only / attribute-only pieces of `collapse_edge` -/

theorem ro_collapsedVid (k a r b : Nat) : ReadOnly (collapsedVid k a r b) := by
  unfold collapsedVid
  exact ReadOnly.ite (readOnly_vertexId2 _ _) (ReadOnly.ite (readOnly_vertexId2 _ _) (ReadOnly.pure _))

theorem ro_fanSign (k : Nat) (newV : Val) (d : Nat) : ReadOnly (fanSign k newV d) := by
  unfold fanSign
  refine ReadOnly.bind (ReadOnly.rB _ _) fun _ => ?_
  refine ReadOnly.bind (ReadOnly.rB _ _) fun _ => ?_
  refine ReadOnly.bind (readOnly_vertexId2 _ _) fun _ => ?_
  refine ReadOnly.bind (readOnly_vertexId2 _ _) fun _ => ?_
  refine ReadOnly.bind (ReadOnly.rA _ _) fun v1 => ?_
  cases v1
  · exact ro_retry
  · refine ReadOnly.bind (ReadOnly.rA _ _) fun v2 => ?_
    cases v2
    · exact ro_retry
    · exact ReadOnly.pure _

theorem ro_fanAllSame (k : Nat) (newV : Val) (ref : Int) : ∀ l, ReadOnly (fanAllSame k newV ref l)
  | [] => ReadOnly.pure _
  | d :: ds => by
      unfold fanAllSame
      refine ReadOnly.bind (ro_fanSign _ _ _) fun s => ?_
      exact ReadOnly.ite (ReadOnly.pure _) (ro_fanAllSame k newV ref ds)

theorem ro_isOrbitOrientationConsistent (k vid : Nat) : ReadOnly (isOrbitOrientationConsistent k vid) := by
  unfold isOrbitOrientationConsistent
  refine ReadOnly.bind (ReadOnly.rA _ _) fun nv => ?_
  cases nv
  · exact ro_retry
  · refine ReadOnly.bind (readOnly_orbit2 _ _ _) fun tmp => ?_
    cases tmp
    · exact ReadOnly.panic
    · exact ReadOnly.bind (ro_fanSign _ _ _) fun _ => ReadOnly.ite (ReadOnly.pure _) (ro_fanAllSame _ _ _ _)

theorem ao_isCollapsible (cfg : Cfg Val) (k e : Nat) : AttrOnly (isCollapsible cfg k e) := by
  unfold isCollapsible
  refine AttrOnly.ite (AttrOnly.pure _) ?_
  refine AttrOnly.bind (AttrOnly.of_readOnly (ReadOnly.rB _ _)) fun _ => ?_
  refine AttrOnly.bind (C01.ao_vid _ _) fun _ => ?_
  refine AttrOnly.bind (C01.ao_vid _ _) fun _ => ?_
  refine AttrOnly.bind (ao_readAttr _ _ _) fun a1 => ?_
  refine AttrOnly.bind (ao_readAttr _ _ _) fun a2 => ?_
  refine AttrOnly.bind (ao_readAttr _ _ _) fun a3 => ?_
  intro m
  split
  · split
    · split <;> exact SameTopo.refl _
    · exact SameTopo.refl _
  · exact SameTopo.refl _

theorem ao_baseWriteBack (cfg : Cfg Val) (newVid : Nat) (tv ta : Option Val) :
    AttrOnly (do
      if newVid ≠ 0 then do
        match tv with
        | some v => do let _ ← writeVtx newVid v; pure ()
        | none => pure ()
        match ta with
        | some a => do let _ ← writeAttr cfg stVA newVid a; pure ()
        | none => pure ()
      else pure ()
      pure newVid : P Val Nat) := by
  refine AttrOnly.ite ?_ (AttrOnly.pure _)
  have j2 : AttrOnly (match ta with
      | some a => do let _ ← writeAttr cfg stVA newVid a; pure newVid
      | none => pure newVid : P Val Nat) := by
    cases ta
    · exact AttrOnly.pure _
    · exact AttrOnly.bind (ao_writeAttr _ _ _ _) fun _ => AttrOnly.pure _
  cases tv
  · exact j2
  · exact AttrOnly.bind (ao_writeVtx _ _) fun _ => j2

/-! ### the asserted kernel keeps the invariant -/

theorem keepsJ_assert {β : Type} {c : Bool} {f : Unit → P Val β} (hf : c = true → KeepsJ n u (f ())) :
    KeepsJ n u ((assertP c).bind f) := by
  unfold assertP
  cases c
  · intro m m' b _ hr; simp at hr
  · simpa using hf rfl

theorem keepsJ_halfMidA (cfg : Cfg Val) (k : Nat) {b0d d b1d : Nat} (h0 : b0d ≠ 0 → Live n u b0d)
    (hd : d ≠ 0 → Live n u d) (h1 : b1d ≠ 0 → Live n u b1d) : KeepsJ n u (halfMidG assertP cfg k b0d d b1d) := by
  unfold halfMidG
  refine KeepsJ.bind (keepsJ_oneUnsew2_opt cfg k hd) fun _ => ?_
  refine KeepsJ.bind (keepsJ_oneUnsew2_opt cfg k h1) fun _ => ?_
  refine KeepsJ.bind (keepsJ_oneUnsew2_opt cfg k h0) fun _ => ?_
  refine KeepsJ.rB_bind fun x hx => ?_
  refine KeepsJ.rB_bind fun y hy => ?_
  refine KeepsJ.bind (keepsJ_twoUnsew2_opt cfg k h0) fun _ => ?_
  refine KeepsJ.bind (keepsJ_twoUnsew2_opt cfg k h1) fun _ => ?_
  refine keepsJ_assert fun hc => ?_
  obtain ⟨hx0, hy0, hxy⟩ := of_decide_eq_true hc
  refine KeepsJ.bind (keepsJ_twoSew2 cfg k (hx hx0) (hy hy0) hxy) fun _ => ?_
  refine KeepsJ.bind (KeepsJ.removeFreeDartTx _) fun _ => ?_
  refine KeepsJ.bind (KeepsJ.removeFreeDartTx _) fun _ => ?_
  refine KeepsJ.bind (KeepsJ.removeFreeDartTx _) fun _ => ?_
  exact KeepsJ.pure _

theorem keepsJ_halfBaseA (cfg : Cfg Val) (k : Nat) {dPe dE dNe : Nat} (hp : dPe ≠ 0 → Live n u dPe)
    (he : dE ≠ 0 → Live n u dE) (hn : dNe ≠ 0 → Live n u dNe) : KeepsJ n u (halfBaseG assertP cfg k dPe dE dNe) := by
  unfold halfBaseG
  refine KeepsJ.rB_bind fun x hx => ?_
  refine KeepsJ.rB_bind fun y hy => ?_
  refine KeepsJ.rB_bind fun z hz => ?_
  refine KeepsJ.bind (keepsJ_oneUnsew2_opt cfg k he) fun _ => ?_
  refine KeepsJ.bind (keepsJ_oneUnsew2_opt cfg k hp) fun _ => ?_
  refine KeepsJ.bind (keepsJ_oneUnsew2_opt cfg k hn) fun _ => ?_
  refine KeepsJ.ite (fun _ => ?_) fun _ => KeepsJ.pure _
  refine KeepsJ.bind (keepsJ_oneUnsew2_opt cfg k hx) fun _ => ?_
  refine KeepsJ.bind (keepsJ_oneUnsew2_opt cfg k hy) fun _ => ?_
  refine KeepsJ.bind (keepsJ_twoUnlink_opt hn) fun _ => ?_
  refine KeepsJ.bind (KeepsJ.removeFreeDartTx _) fun _ => ?_
  refine KeepsJ.bind (KeepsJ.removeFreeDartTx _) fun _ => ?_
  refine KeepsJ.bind (KeepsJ.removeFreeDartTx _) fun _ => ?_
  refine keepsJ_assert fun hc => ?_
  obtain ⟨c1, c2⟩ := of_decide_eq_true hc
  refine KeepsJ.bind (keepsJ_oneSew2 cfg k (hp c1) (hz c2)) fun _ => ?_
  refine keepsJ_assert fun hc' => ?_
  obtain ⟨c3, c4⟩ := of_decide_eq_true hc'
  exact keepsJ_oneSew2 cfg k (hy c3) (hp c4)

theorem keepsJ_edgeToMidpointA (cfg : Cfg Val) (k : Nat) {b0l l b1l b0r r b1r : Nat}
    (h0l : b0l ≠ 0 → Live n u b0l) (hl : l ≠ 0 → Live n u l) (h1l : b1l ≠ 0 → Live n u b1l)
    (h0r : b0r ≠ 0 → Live n u b0r) (hr : r ≠ 0 → Live n u r) (h1r : b1r ≠ 0 → Live n u b1r) :
    KeepsJ n u (edgeToMidpointG assertP cfg k b0l l b1l b0r r b1r) := by
  unfold edgeToMidpointG
  have rest : KeepsJ n u (do
      let b2b0l ← rB 2 b0l
      halfMidG assertP cfg k b0l l b1l
      collapsedVid k b2b0l r b1r : P Val Nat) := by
    refine KeepsJ.rB_bind fun x _ => ?_
    refine KeepsJ.bind (keepsJ_halfMidA cfg k h0l hl h1l) fun _ => ?_
    exact KeepsJ.of_readOnly (ro_collapsedVid _ _ _ _)
  refine KeepsJ.ite (fun _ => ?_) fun _ => rest
  refine KeepsJ.bind (keepsJ_twoUnsew2_opt cfg k hr) fun _ => ?_
  exact KeepsJ.bind (keepsJ_halfMidA cfg k h0r hr h1r) fun _ => rest

theorem keepsJ_edgeToBaseA (cfg : Cfg Val) (k : Nat) {b0l l b1l b0r r b1r : Nat}
    (h0l : b0l ≠ 0 → Live n u b0l) (hl : l ≠ 0 → Live n u l) (h1l : b1l ≠ 0 → Live n u b1l)
    (h0r : b0r ≠ 0 → Live n u b0r) (hr : r ≠ 0 → Live n u r) (h1r : b1r ≠ 0 → Live n u b1r) :
    KeepsJ n u (edgeToBaseG assertP cfg k b0l l b1l b0r r b1r) := by
  unfold edgeToBaseG
  refine KeepsJ.ro_bind (readOnly_vertexId2 _ _) fun lVid => ?_
  refine KeepsJ.ro_bind (ReadOnly.rA _ _) fun tv => ?_
  refine KeepsJ.bind (KeepsJ.of_attrOnly (ao_readAttr _ _ _)) fun ta => ?_
  have rest : KeepsJ n u (do
      let b2b0l ← rB 2 b0l
      halfBaseG assertP cfg k b0l l b1l
      let newVid ← collapsedVid k b2b0l r b1r
      if newVid ≠ 0 then do
        match tv with
        | some v => do let _ ← writeVtx newVid v; pure ()
        | none => pure ()
        match ta with
        | some a => do let _ ← writeAttr cfg stVA newVid a; pure ()
        | none => pure ()
      else pure ()
      pure newVid : P Val Nat) := by
    refine KeepsJ.rB_bind fun x _ => ?_
    refine KeepsJ.bind (keepsJ_halfBaseA cfg k h0l hl h1l) fun _ => ?_
    refine KeepsJ.ro_bind (ro_collapsedVid _ _ _ _) fun newVid => ?_
    exact KeepsJ.of_attrOnly (ao_baseWriteBack cfg newVid tv ta)
  refine KeepsJ.ite (fun _ => ?_) fun _ => rest
  refine KeepsJ.bind (keepsJ_twoUnsew2_opt cfg k hl) fun _ => ?_
  exact KeepsJ.bind (keepsJ_halfBaseA cfg k h1r hr h0r) fun _ => rest

theorem keepsJ_collapseBodyA (cfg : Cfg Val) (k : Nat) {e r b0l b1l b0r b1r : Nat}
    (h0l : b0l ≠ 0 → Live n u b0l) (hl : e ≠ 0 → Live n u e) (h1l : b1l ≠ 0 → Live n u b1l)
    (h0r : b0r ≠ 0 → Live n u b0r) (hr : r ≠ 0 → Live n u r) (h1r : b1r ≠ 0 → Live n u b1r) :
    KeepsJ n u (collapseBodyG assertP cfg k e r b0l b1l b0r b1r) := by
  unfold collapseBodyG
  refine KeepsJ.bind (KeepsJ.of_attrOnly (ao_isCollapsible _ _ _)) fun c => ?_
  refine KeepsJ.bind ?_ fun newVid => ?_
  · cases c
    · exact keepsJ_edgeToMidpointA cfg k h0l hl h1l h0r hr h1r
    · exact keepsJ_edgeToBaseA cfg k h0l hl h1l h0r hr h1r
    · exact keepsJ_edgeToBaseA cfg k h0r hr h1r h0l hl h1l
  · refine KeepsJ.ro_bind (ro_isOrbitOrientationConsistent _ _) fun ok => ?_
    exact KeepsJ.ite (fun _ => KeepsJ.abort _) fun _ => KeepsJ.pure _

theorem keepsJ_collapseEdgeA (cfg : Cfg Val) (k : Nat) {e : Nat} (he : Live n u e) :
    KeepsJ n u (collapseEdgeA cfg k e) := by
  unfold collapseEdgeA collapseEdgeG
  refine KeepsJ.ite (fun _ => KeepsJ.abort _) fun _ => ?_
  refine KeepsJ.rB_bind fun r hr => ?_
  refine KeepsJ.rB_bind fun b0l h0l => ?_
  refine KeepsJ.rB_bind fun b1l h1l => ?_
  refine KeepsJ.rB_bind fun b0r h0r => ?_
  refine KeepsJ.rB_bind fun b1r h1r => ?_
  refine KeepsJ.rB_bind fun _ _ => ?_
  refine KeepsJ.ite (fun _ => KeepsJ.abort _) fun _ => ?_
  refine KeepsJ.bind (KeepsJ.of_readOnly ?_) fun bad => ?_
  · exact ReadOnly.ite (ReadOnly.bind (ReadOnly.rB _ _) fun _ => ReadOnly.pure _) (ReadOnly.pure _)
  · refine KeepsJ.ite (fun _ => KeepsJ.abort _) fun _ => ?_
    exact keepsJ_collapseBodyA cfg k h0l (fun _ => he) h1l h0r hr h1r

/-! ### whenever the asserted kernel succeeds, the kernel itself returns the same value and map -/

def Refines {α : Type} (pA p : P Val α) : Prop :=
  ∀ (m m' : Map Val) (a : α), run pA m = (.ok a, m') → run p m = (.ok a, m')

theorem Refines.refl {α : Type} (p : P Val α) : Refines p p := fun _ _ _ h => h

theorem Refines.bind {α β : Type} {pA p : P Val α} {fA f : α → P Val β} (hp : Refines pA p)
    (hf : ∀ a, Refines (fA a) (f a)) : Refines (pA.bind fA) (p.bind f) := by
  intro m m' b h
  obtain ⟨a, m1, h1, h2⟩ := run_bind_ok h
  rw [run_bind, hp m m1 a h1]
  exact hf a m1 m' b h2

theorem Refines.bind_right {α β : Type} (p : P Val α) {fA f : α → P Val β}
    (hf : ∀ a, Refines (fA a) (f a)) : Refines (p.bind fA) (p.bind f) := Refines.bind (Refines.refl p) hf

theorem Refines.ite {α : Type} {c : Prop} [Decidable c] {pA p qA q : P Val α} (hp : Refines pA p) (hq : Refines qA q) :
    Refines (if c then pA else qA) (if c then p else q) := by
  split
  · exact hp
  · exact hq

/-- dropping an assertion -/
theorem Refines.assert {β : Type} (c : Bool) {fA f : Unit → P Val β} (hf : Refines (fA ()) (f ())) :
    Refines ((assertP c).bind fA) ((pure () : P Val Unit).bind f) := by
  unfold assertP
  cases c
  · intro m m' b h; simp at h
  · simpa using hf

theorem refines_halfMid (cfg : Cfg Val) (k b0d d b1d : Nat) :
    Refines (halfMidG assertP cfg k b0d d b1d) (halfMidG (fun _ => pure ()) cfg k b0d d b1d) := by
  unfold halfMidG
  refine Refines.bind_right _ fun _ => ?_
  refine Refines.bind_right _ fun _ => ?_
  refine Refines.bind_right _ fun _ => ?_
  refine Refines.bind_right _ fun _ => ?_
  refine Refines.bind_right _ fun _ => ?_
  refine Refines.bind_right _ fun _ => ?_
  refine Refines.bind_right _ fun _ => ?_
  exact Refines.assert _ (Refines.refl _)

theorem refines_halfBase (cfg : Cfg Val) (k dPe dE dNe : Nat) :
    Refines (halfBaseG assertP cfg k dPe dE dNe) (halfBaseG (fun _ => pure ()) cfg k dPe dE dNe) := by
  unfold halfBaseG
  refine Refines.bind_right _ fun _ => ?_
  refine Refines.bind_right _ fun _ => ?_
  refine Refines.bind_right _ fun _ => ?_
  refine Refines.bind_right _ fun _ => ?_
  refine Refines.bind_right _ fun _ => ?_
  refine Refines.bind_right _ fun _ => ?_
  refine Refines.ite ?_ (Refines.refl _)
  refine Refines.bind_right _ fun _ => ?_
  refine Refines.bind_right _ fun _ => ?_
  refine Refines.bind_right _ fun _ => ?_
  refine Refines.bind_right _ fun _ => ?_
  refine Refines.bind_right _ fun _ => ?_
  refine Refines.bind_right _ fun _ => ?_
  refine Refines.assert _ ?_
  refine Refines.bind_right _ fun _ => ?_
  exact Refines.assert _ (Refines.refl _)

theorem refines_edgeToMidpoint (cfg : Cfg Val) (k b0l l b1l b0r r b1r : Nat) :
    Refines (edgeToMidpointG assertP cfg k b0l l b1l b0r r b1r)
      (edgeToMidpointG (fun _ => pure ()) cfg k b0l l b1l b0r r b1r) := by
  unfold edgeToMidpointG
  have rest : Refines (do
      let b2b0l ← rB 2 b0l
      halfMidG assertP cfg k b0l l b1l
      collapsedVid k b2b0l r b1r : P Val Nat) (do
      let b2b0l ← rB 2 b0l
      halfMidG (fun _ => pure ()) cfg k b0l l b1l
      collapsedVid k b2b0l r b1r : P Val Nat) := by
    refine Refines.bind_right _ fun _ => ?_
    exact Refines.bind (refines_halfMid _ _ _ _ _) fun _ => Refines.refl _
  refine Refines.ite ?_ rest
  refine Refines.bind_right _ fun _ => ?_
  exact Refines.bind (refines_halfMid _ _ _ _ _) fun _ => rest

theorem refines_edgeToBase (cfg : Cfg Val) (k b0l l b1l b0r r b1r : Nat) :
    Refines (edgeToBaseG assertP cfg k b0l l b1l b0r r b1r)
      (edgeToBaseG (fun _ => pure ()) cfg k b0l l b1l b0r r b1r) := by
  unfold edgeToBaseG
  refine Refines.bind_right _ fun lVid => ?_
  refine Refines.bind_right _ fun tv => ?_
  refine Refines.bind_right _ fun ta => ?_
  have rest : ∀ chkA chk : Bool → P Val Unit, (∀ a b c, Refines (halfBaseG chkA cfg k a b c) (halfBaseG chk cfg k a b c)) →
      Refines (do
        let b2b0l ← rB 2 b0l
        halfBaseG chkA cfg k b0l l b1l
        let newVid ← collapsedVid k b2b0l r b1r
        if newVid ≠ 0 then do
          match tv with
          | some v => do let _ ← writeVtx newVid v; pure ()
          | none => pure ()
          match ta with
          | some a => do let _ ← writeAttr cfg stVA newVid a; pure ()
          | none => pure ()
        else pure ()
        pure newVid : P Val Nat) (do
        let b2b0l ← rB 2 b0l
        halfBaseG chk cfg k b0l l b1l
        let newVid ← collapsedVid k b2b0l r b1r
        if newVid ≠ 0 then do
          match tv with
          | some v => do let _ ← writeVtx newVid v; pure ()
          | none => pure ()
          match ta with
          | some a => do let _ ← writeAttr cfg stVA newVid a; pure ()
          | none => pure ()
        else pure ()
        pure newVid : P Val Nat) := by
    intro chkA chk hh
    refine Refines.bind_right _ fun _ => ?_
    exact Refines.bind (hh _ _ _) fun _ => Refines.refl _
  have rest' := rest assertP (fun _ => pure ()) (refines_halfBase cfg k)
  refine Refines.ite ?_ rest'
  refine Refines.bind_right _ fun _ => ?_
  exact Refines.bind (refines_halfBase _ _ _ _ _) fun _ => rest'

/-- **C15 (a), collapse, link to the kernel**: whenever the kernel with assertions succeeds, `collapse_edge` itself
    succeeds with the same vertex identifier and the same map -/
theorem C15_collapseA_refines (cfg : Cfg Val) (k e : Nat) : Refines (collapseEdgeA cfg k e) (collapseEdge cfg k e) := by
  rw [← collapseEdgeG_nochk]
  unfold collapseEdgeA collapseEdgeG
  refine Refines.ite (Refines.refl _) ?_
  refine Refines.bind_right _ fun r => ?_
  refine Refines.bind_right _ fun b0l => ?_
  refine Refines.bind_right _ fun b1l => ?_
  refine Refines.bind_right _ fun b0r => ?_
  refine Refines.bind_right _ fun b1r => ?_
  refine Refines.bind_right _ fun _ => ?_
  refine Refines.ite (Refines.refl _) ?_
  refine Refines.bind_right _ fun bad => ?_
  refine Refines.ite (Refines.refl _) ?_
  unfold collapseBodyG
  refine Refines.bind_right _ fun c => ?_
  refine Refines.bind ?_ fun _ => Refines.refl _
  cases c
  · exact refines_edgeToMidpoint _ _ _ _ _ _ _ _
  · exact refines_edgeToBase _ _ _ _ _ _ _ _
  · exact refines_edgeToBase _ _ _ _ _ _ _ _

/-- **C15 (a), collapse**: every call of `collapse_edge` (with the sew sites asserted non-null, see
    `C15_collapseA_refines`) on an in-use dart of a well-formed 2-map — whatever the anchors decide, successful,
    refused (NullEdge / BadTopology / NonCollapsibleEdge / InvertedOrientation / a failing core operation), retried,
    panicking — leaves the map well formed, PROVIDED every dart the call has newly flagged is free in the result.
    (All clauses of well-formedness other than "removed darts are free" hold unconditionally: the map with its
    original flags is well formed, `keepsJ_collapseEdgeA`.) -/
theorem C15_collapse_preserves_WF (cfg : Cfg Val) (m : Map Val) (e : Nat) (hwf : WF 3 m) (he : C01.InUse m e)
    (hfree : ∀ d, d < m.n → (atomically (collapseEdgeA cfg m.n e) m).2.unused d = true → m.unused d = false →
      ∀ i, i < 3 → (atomically (collapseEdgeA cfg m.n e) m).2.β i d = 0) :
    WF 3 (atomically (collapseEdgeA cfg m.n e) m).2 := by
  unfold atomically at hfree ⊢
  match hr : run (collapseEdgeA cfg m.n e) m with
  | (.err _, m') => simp only [hr]; exact hwf
  | (.retry, m') => simp only [hr]; exact hwf
  | (.panic, m') => simp only [hr]; exact hwf
  | (.ok a, m') =>
    simp only [hr] at hfree ⊢
    have J0 : InvJ m.n m.u m := ⟨hwf, rfl, hwf.usz⟩
    have J := keepsJ_collapseEdgeA cfg m.n (Live.of_inUse he) m m' a J0 hr
    have w := J.wf
    refine ⟨⟨?_, w.rows, ?_, ?_, w.asz⟩, ⟨w.null, ?_, w.inv01, w.inv10, w.invol, ?_⟩⟩
    · exact w.npos
    · exact w.row
    · rw [J.usz]; exact J.n_eq.symm
    · exact w.range
    · intro d hd hu i hi
      have hd' : d < m.n := by rw [← J.n_eq]; exact hd
      by_cases h0 : m.unused d = true
      · exact w.unusedFree d hd h0 i hi
      · exact hfree d hd' hu (by cases hc : m.unused d <;> simp_all) i hi

/-! ## (c) anchor algebra on the generated tables -/

section Anchors
open Gen.Anchors

/-- `VertexAnchor::merge` is commutative (generated table, all identifiers) -/
theorem C15_vanchor_merge_comm (a b : VertexAnchor) : a.merge b = b.merge a := by
  cases a <;> cases b <;> simp only [VertexAnchor.merge] <;> (try split) <;> (try split) <;> simp_all

/-- … idempotent -/
theorem C15_vanchor_merge_idem (a : VertexAnchor) : a.merge a = some a := by
  cases a <;> simp [VertexAnchor.merge]

/-- … the result is the lower-dimensional anchor (one of the two arguments) -/
theorem C15_vanchor_merge_lower_dim (a b c : VertexAnchor) (h : a.merge b = some c) :
    c.dim = min a.dim b.dim ∧ (c = a ∨ c = b) := by
  cases a <;> cases b <;> simp only [VertexAnchor.merge] at h <;> (try split at h) <;>
    (try (simp only [Option.some.injEq] at h; subst h)) <;> simp_all [VertexAnchor.dim]

/-- … it fails exactly on equal dimensions with different identifiers -/
theorem C15_vanchor_merge_fails_iff (a b : VertexAnchor) : a.merge b = none ↔ a.dim = b.dim ∧ a.id ≠ b.id := by
  cases a <;> cases b <;> simp only [VertexAnchor.merge] <;> (try split) <;> simp_all [VertexAnchor.dim, VertexAnchor.id]

/-- … associative wherever the two inner merges are defined -/
theorem C15_vanchor_merge_assoc (a b c x y : VertexAnchor) (h1 : a.merge b = some x) (h2 : b.merge c = some y) :
    x.merge c = a.merge y := by
  cases a <;> cases b <;> cases c <;> simp only [VertexAnchor.merge] at h1 h2 <;> (try split at h1) <;> (try split at h2) <;>
    (try (simp only [Option.some.injEq] at h1; subst h1)) <;> (try (simp only [Option.some.injEq] at h2; subst h2)) <;>
    simp_all [VertexAnchor.merge]

/-- the driver code `4 * id + dim` determines the anchor -/
theorem C15_vanchor_ofCode_code (a : VertexAnchor) : VertexAnchor.ofCode a.code = some a := by
  cases a <;> simp [VertexAnchor.ofCode, VertexAnchor.code, VertexAnchor.id, VertexAnchor.dim] <;> omega

/-- `EdgeAnchor::merge` is commutative (generated table, all identifiers) -/
theorem C15_eanchor_merge_comm (a b : EdgeAnchor) : a.merge b = b.merge a := by
  cases a <;> cases b <;> simp only [EdgeAnchor.merge] <;> (try split) <;> (try split) <;> simp_all

/-- … idempotent -/
theorem C15_eanchor_merge_idem (a : EdgeAnchor) : a.merge a = some a := by
  cases a <;> simp [EdgeAnchor.merge]

/-- … the result is the lower-dimensional anchor (one of the two arguments) -/
theorem C15_eanchor_merge_lower_dim (a b c : EdgeAnchor) (h : a.merge b = some c) :
    c.dim = min a.dim b.dim ∧ (c = a ∨ c = b) := by
  cases a <;> cases b <;> simp only [EdgeAnchor.merge] at h <;> (try split at h) <;>
    (try (simp only [Option.some.injEq] at h; subst h)) <;> simp_all [EdgeAnchor.dim]

/-- … it fails exactly on equal dimensions with different identifiers -/
theorem C15_eanchor_merge_fails_iff (a b : EdgeAnchor) : a.merge b = none ↔ a.dim = b.dim ∧ a.id ≠ b.id := by
  cases a <;> cases b <;> simp only [EdgeAnchor.merge] <;> (try split) <;> simp_all [EdgeAnchor.dim, EdgeAnchor.id]

/-- … associative wherever the two inner merges are defined -/
theorem C15_eanchor_merge_assoc (a b c x y : EdgeAnchor) (h1 : a.merge b = some x) (h2 : b.merge c = some y) :
    x.merge c = a.merge y := by
  cases a <;> cases b <;> cases c <;> simp only [EdgeAnchor.merge] at h1 h2 <;> (try split at h1) <;> (try split at h2) <;>
    (try (simp only [Option.some.injEq] at h1; subst h1)) <;> (try (simp only [Option.some.injEq] at h2; subst h2)) <;>
    simp_all [EdgeAnchor.merge]

/-- the driver code `4 * id + dim` determines the anchor -/
theorem C15_eanchor_ofCode_code (a : EdgeAnchor) : EdgeAnchor.ofCode a.code = some a := by
  cases a <;> simp [EdgeAnchor.ofCode, EdgeAnchor.code, EdgeAnchor.id, EdgeAnchor.dim] <;> omega

/-- `FaceAnchor::merge` is commutative (generated table, all identifiers) -/
theorem C15_fanchor_merge_comm (a b : FaceAnchor) : a.merge b = b.merge a := by
  cases a <;> cases b <;> simp only [FaceAnchor.merge] <;> (try split) <;> (try split) <;> simp_all

/-- … idempotent -/
theorem C15_fanchor_merge_idem (a : FaceAnchor) : a.merge a = some a := by
  cases a <;> simp [FaceAnchor.merge]

/-- … the result is the lower-dimensional anchor (one of the two arguments) -/
theorem C15_fanchor_merge_lower_dim (a b c : FaceAnchor) (h : a.merge b = some c) :
    c.dim = min a.dim b.dim ∧ (c = a ∨ c = b) := by
  cases a <;> cases b <;> simp only [FaceAnchor.merge] at h <;> (try split at h) <;>
    (try (simp only [Option.some.injEq] at h; subst h)) <;> simp_all [FaceAnchor.dim]

/-- … it fails exactly on equal dimensions with different identifiers -/
theorem C15_fanchor_merge_fails_iff (a b : FaceAnchor) : a.merge b = none ↔ a.dim = b.dim ∧ a.id ≠ b.id := by
  cases a <;> cases b <;> simp only [FaceAnchor.merge] <;> (try split) <;> simp_all [FaceAnchor.dim, FaceAnchor.id]

/-- … associative wherever the two inner merges are defined -/
theorem C15_fanchor_merge_assoc (a b c x y : FaceAnchor) (h1 : a.merge b = some x) (h2 : b.merge c = some y) :
    x.merge c = a.merge y := by
  cases a <;> cases b <;> cases c <;> simp only [FaceAnchor.merge] at h1 h2 <;> (try split at h1) <;> (try split at h2) <;>
    (try (simp only [Option.some.injEq] at h1; subst h1)) <;> (try (simp only [Option.some.injEq] at h2; subst h2)) <;>
    simp_all [FaceAnchor.merge]

/-- the driver code `4 * id + dim` determines the anchor -/
theorem C15_fanchor_ofCode_code (a : FaceAnchor) : FaceAnchor.ofCode a.code = some a := by
  cases a <;> simp [FaceAnchor.ofCode, FaceAnchor.code, FaceAnchor.id, FaceAnchor.dim] <;> omega

/-- the `From` conversions keep dimension and identifier (hence the driver code) -/
theorem C15_anchor_conversions (e : EdgeAnchor) (f : FaceAnchor) :
    (e.toVertexAnchor.dim = e.dim ∧ e.toVertexAnchor.id = e.id) ∧
    (f.toVertexAnchor.dim = f.dim ∧ f.toVertexAnchor.id = f.id) ∧
    (f.toEdgeAnchor.dim = f.dim ∧ f.toEdgeAnchor.id = f.id) := by
  cases e <;> cases f <;> simp [EdgeAnchor.toVertexAnchor, FaceAnchor.toVertexAnchor, FaceAnchor.toEdgeAnchor,
    VertexAnchor.dim, EdgeAnchor.dim, FaceAnchor.dim, VertexAnchor.id, EdgeAnchor.id, FaceAnchor.id]

/-! ## (b) the anchor rule of `is_collapsible` -/

/-- the `unreachable!()` of `is_collapsible` is unreachable: a defined merge is one of its arguments -/
theorem C15_collapse_choice_total (la ra : VertexAnchor) (ea : EdgeAnchor) : collapseChoice la ra ea ≠ none := by
  unfold collapseChoice
  cases hm : VertexAnchor.merge la ra with
  | none => simp
  | some val =>
    simp only
    split
    · rcases (C15_vanchor_merge_lower_dim la ra val hm).2 with h | h
      · subst h
        by_cases h2 : val = ra <;> simp [h2]
      · subst h
        by_cases h2 : val = la <;> simp [h2]
    · simp

/-- which outcome: incompatible vertex anchors (equal dimension, different identifiers) ⇒ the first error; otherwise an
    edge anchor whose dimension is that of neither end point ⇒ the second error; otherwise a target is chosen.  The
    three cases are exhaustive and exclusive. -/
theorem C15_collapse_choice_error (la ra : VertexAnchor) (ea : EdgeAnchor) :
    ((la.dim = ra.dim ∧ la.id ≠ ra.id) →
      collapseChoice la ra ea = some (.error (errNonCollapsible "vertex-have-incompatible-anchors"))) ∧
    (¬ (la.dim = ra.dim ∧ la.id ≠ ra.id) → ea.dim ≠ la.dim → ea.dim ≠ ra.dim →
      collapseChoice la ra ea = some (.error (errNonCollapsible "collapsing-along-this-edge-is-impossible"))) ∧
    (¬ (la.dim = ra.dim ∧ la.id ≠ ra.id) → (ea.dim = la.dim ∨ ea.dim = ra.dim) →
      ∃ c, collapseChoice la ra ea = some (.ok c)) := by
  rw [← C15_vanchor_merge_fails_iff]
  refine ⟨fun h => ?_, fun h h1 h2 => ?_, fun h hd => ?_⟩
  · unfold collapseChoice; rw [h]
  · unfold collapseChoice
    cases hm : VertexAnchor.merge la ra with
    | none => exact absurd hm h
    | some val =>
      have hd : ¬ (ea.dim = la.dim ∨ ea.dim = ra.dim) := fun hh => hh.elim h1 h2
      simp only [hd, if_false]
  · have ht := C15_collapse_choice_total la ra ea
    unfold collapseChoice at ht ⊢
    cases hm : VertexAnchor.merge la ra with
    | none => exact absurd hm h
    | some val =>
      rw [hm] at ht
      simp only [hd, if_true] at ht ⊢
      split
      · exact ⟨_, rfl⟩
      · exact ⟨_, rfl⟩
      · exact ⟨_, rfl⟩
      · rename_i h1 h2; simp [h1, h2] at ht

/-- which target: the midpoint when both end points carry the same anchor, otherwise the end point whose anchor has
    the lower dimension — provided the edge anchor has the dimension of an end point -/
theorem C15_collapse_choice_target (la ra : VertexAnchor) (ea : EdgeAnchor)
    (hd : ea.dim = la.dim ∨ ea.dim = ra.dim) :
    (la = ra → collapseChoice la ra ea = some (.ok .average)) ∧
    (la.dim < ra.dim → collapseChoice la ra ea = some (.ok .left)) ∧
    (ra.dim < la.dim → collapseChoice la ra ea = some (.ok .right)) := by
  refine ⟨fun h => ?_, fun h => ?_, fun h => ?_⟩
  · subst h
    have hd' : ea.dim = la.dim := by rcases hd with h | h <;> exact h
    unfold collapseChoice
    simp [C15_vanchor_merge_idem, hd']
  · have hlr : la ≠ ra := fun hh => by rw [hh] at h; omega
    unfold collapseChoice
    cases hm : VertexAnchor.merge la ra with
    | none =>
        have := (C15_vanchor_merge_fails_iff la ra).1 hm
        omega
    | some val =>
        have hl := C15_vanchor_merge_lower_dim la ra val hm
        have hne : val ≠ ra := fun hh => by rw [hh] at hl; have := hl.1; omega
        have he : val = la := by
          rcases hl.2 with h1 | h1
          · exact h1
          · exact absurd h1 hne
        simp [hd, he, hlr]
  · have hlr : ra ≠ la := fun hh => by rw [hh] at h; omega
    unfold collapseChoice
    cases hm : VertexAnchor.merge la ra with
    | none =>
        have := (C15_vanchor_merge_fails_iff la ra).1 hm
        omega
    | some val =>
        have hl := C15_vanchor_merge_lower_dim la ra val hm
        have hne : val ≠ la := fun hh => by rw [hh] at hl; have := hl.1; omega
        have he : val = ra := by
          rcases hl.2 with h1 | h1
          · exact absurd h1 hne
          · exact h1
        simp [hd, he, hlr]

end Anchors

/-! ## (b) the guards of `collapse_edge` -/

/-- **C15 (b), collapse**: `collapse_edge` is the guard chain NullEdge / BadTopology (left face) / BadTopology (right
    face, only tested when the edge has a second dart) followed by `is_collapsible`, the chosen variant and the
    orientation post-check (`collapseBodyG`) — on every map on which the seven reads are in range. -/
theorem C15_collapse_guards (cfg : Cfg Val) (k e : Nat) (m : Map Val)
    (hok : ∀ i d, i < 3 → d < m.n → m.okβ i d = true) (hrange : ∀ i d, i < 3 → d < m.n → m.β i d < m.n)
    (he : e < m.n) :
    run (collapseEdge cfg k e) m =
      if e = 0 then (.err errNullEdge, m)
      else if m.β 1 (m.β 1 e) ≠ m.β 0 e then (.err errBadTopology, m)
      else if m.β 2 e ≠ 0 ∧ m.β 1 (m.β 1 (m.β 2 e)) ≠ m.β 0 (m.β 2 e) then (.err errBadTopology, m)
      else run (collapseBodyG (fun _ => pure ()) cfg k e (m.β 2 e) (m.β 0 e) (m.β 1 e) (m.β 0 (m.β 2 e))
        (m.β 1 (m.β 2 e))) m := by
  have hr := hrange 2 e (by omega) he
  have h1l := hrange 1 e (by omega) he
  have h1r := hrange 1 _ (by omega) hr
  rw [← collapseEdgeG_nochk]
  unfold collapseEdgeG
  by_cases h0 : e = 0
  · simp [h0]
  · simp only [h0, if_false, Prog.bind_eq, bind, run_rB, hok 2 e (by omega) he, hok 1 e (by omega) he,
      hok 0 e (by omega) he, hok 0 _ (by omega) hr, hok 1 _ (by omega) hr, hok 1 _ (by omega) h1l, if_true]
    by_cases h3 : m.β 1 (m.β 1 e) ≠ m.β 0 e
    · simp [h3]
    · simp only [h3, if_false]
      by_cases h2 : m.β 2 e = 0
      · simp [h2]
      · simp only [h2, ne_eq, not_false_eq_true, if_true, if_false, true_and, Prog.bind_eq, bind, Prog.bind_assoc,
          Prog.ret_bind, run_rB, hok 1 _ (by omega) h1r, Prog.pure_eq]
        by_cases h4 : m.β 1 (m.β 1 (m.β 2 e)) = m.β 0 (m.β 2 e)
        · simp [h4]
        · simp [h4]

/-! ## (d) cut geometry over ℚ -/

/-- **C15 (d)**: the vertex written by the cut kernels is the midpoint of the two end points read at their vertex
    identifiers (and the kernel retries when one of them is undefined) -/
theorem C15_cut_midpoint (m : Map Val) (vid1 vid2 : Nat) (h1 : m.okA 0 vid1 = true) (h2 : m.okA 0 vid2 = true) :
    (∀ ax ay az bx by_ bz, m.att 0 vid1 = some (.pt ax ay az) → m.att 0 vid2 = some (.pt bx by_ bz) →
      run (midpointOrRetry vid1 vid2) m = (.ok (.pt ((ax + bx) / 2) ((ay + by_) / 2) 0), m)) ∧
    ((m.att 0 vid1 = none ∨ m.att 0 vid2 = none) → run (midpointOrRetry vid1 vid2) m = (.retry, m)) := by
  constructor
  · intro ax ay az bx by_ bz ha hb
    unfold midpointOrRetry
    simp [run_rA, h1, h2, ha, hb, avgVal, P2.avg, Val.p2, P2.toVal]
  · intro h
    unfold midpointOrRetry
    rcases h with h | h
    · cases hb : m.att 0 vid2 <;> simp [run_rA, h1, h2, h, hb]
    · cases ha : m.att 0 vid1 <;> simp [run_rA, h1, h2, h, ha]

/-- **C15 (d)**: cutting the side `AB` of the triangle `ABC` at its midpoint `M` conserves the signed area:
    `area(A, M, C) + area(M, B, C) = area(A, B, C)` (`cross` = twice the signed area, as in
    `Vertex2::cross_product_from_vertices`) -/
theorem C15_cut_area_conserved (A B C : P2) :
    cross A (P2.avg A B) C + cross (P2.avg A B) B C = cross A B C := by
  simp only [cross, P2.avg]
  ring

/-- … and on both sides of an inner edge: the four new triangles cover the two old ones -/
theorem C15_cut_area_conserved_inner (A B C D : P2) :
    cross A (P2.avg A B) C + cross (P2.avg A B) B C + cross B (P2.avg A B) D + cross (P2.avg A B) A D
      = cross A B C + cross B A D := by
  simp only [cross, P2.avg]
  ring

/-- **C15 (e), what does hold for the swap**: the specified retriangulation of the quadrilateral `A D B C` (triangles
    `ADC`, `DBC` instead of `ABC`, `BAD`) conserves the signed area — IF no coordinate moves.  `swap_edge` moves two
    of them (`C15_D9_witness`). -/
theorem C15_swap_area_partial (A B C D : P2) :
    cross A D C + cross D B C = cross A B C + cross B A D := by
  simp only [cross]
  ring

/-! ## (e) witnesses of the listed findings (`decide` on the unit square) -/

/-- `unit_triangles(1)`: triangles 1-2-3 and 4-5-6 over the unit square, glued along 2/4 -/
def unitSquare : Map Val :=
  { (Map.empty 3 stdStorages 7 : Map Val) with
    b := #[#[0, 3, 1, 2, 6, 4, 5], #[0, 2, 3, 1, 5, 6, 4], #[0, 0, 4, 0, 2, 0, 0]]
    a := (Map.empty 3 stdStorages 7 : Map Val).a.setIfInBounds 0
      #[none, some (.pt 0 0 0), some (.pt 1 0 0), some (.pt 0 1 0), none, none, some (.pt 1 1 0)] }

def tml (c : Nat) : Option Val := some (.tm (.leaf c))

/-- the unit square with anchors: corners 1, 2, 3 are nodes, corner 6 lies on curve 1; boundary edges on curves, the
    diagonal and both faces on surface 0 (`UNIT_ANCH` of tools/props/c15.py) -/
def unitSquareAnchored : Map Val :=
  { unitSquare with
    a := ((unitSquare.a.setIfInBounds 6 #[none, tml 4, tml 8, tml 12, none, none, tml 5, none]).setIfInBounds 7
      #[none, tml 1, tml 2, tml 13, none, tml 5, tml 9, none]).setIfInBounds 8
      #[none, tml 2, none, none, tml 2, none, none, none] }

/-- the first vertex storage after a call -/
def coords (r : Out Err Unit × Map Val) : Array (Option Val) := rd r.2.a 0

/-- **C15 (e), D9**: `swap_edge(2)` on `unit_triangles(1)` succeeds and moves the corners `(0,0)` and `(1,1)` to
    `(1/2,0)` and `(1/2,1)`; the area of the region drops from 1 to 1/2 -/
theorem C15_D9_witness :
    WF 3 unitSquare ∧
    (run (swapEdge (stdCfg 3 0) 7 2) unitSquare).1 = .ok () ∧
    coords (run (swapEdge (stdCfg 3 0) 7 2) unitSquare) =
      #[none, some (.pt (1/2) 0 0), none, some (.pt 0 1 0), some (.pt (1/2) 1 0), some (.pt 1 0 0), none] ∧
    -- twice the area before (triangles (0,0)(1,0)(0,1) and (1,0)(1,1)(0,1)) and after
    cross ⟨0, 0⟩ ⟨1, 0⟩ ⟨0, 1⟩ + cross ⟨1, 0⟩ ⟨1, 1⟩ ⟨0, 1⟩ = 2 ∧
    cross ⟨1/2, 0⟩ ⟨1/2, 1⟩ ⟨0, 1⟩ + cross ⟨1, 0⟩ ⟨1/2, 1⟩ ⟨1/2, 0⟩ = 1 := by
  refine ⟨by decide, by decide +kernel, by decide +kernel, by decide +kernel, by decide +kernel⟩

/-! ### former findings D15b, D15c (fixed in /repo 27a7433, aac3ec9): positive statements -/

theorem rA_ok {α : Type} {s d : Nat} {k : Option Val → P Val α} {m m' : Map Val} {a : α}
    (h : run ((rA s d).bind k) m = (.ok a, m')) : m.okA s d = true ∧ run (k (m.att s d)) m = (.ok a, m') := by
  rw [run_rA] at h
  by_cases hok : m.okA s d = true
  · exact ⟨hok, by simpa [hok] using h⟩
  · simp [hok] at h

theorem wA_ok {α : Type} {s d : Nat} {v : Option Val} {k : Unit → P Val α} {m m' : Map Val} {a : α}
    (h : run ((wA s d v).bind k) m = (.ok a, m')) : m.okA s d = true ∧ run (k ()) (m.setA s d v) = (.ok a, m') := by
  rw [run_wA] at h
  by_cases hok : m.okA s d = true
  · exact ⟨hok, by simpa [hok] using h⟩
  · simp [hok] at h

/-- **C15 (d), /repo aac3ec9 (former D15c)**: both cut kernels store the midpoint under the identifier of the new
    vertex — the value of `vertex_id(nd1)` at the time of the write (`nd1` and `nd3` are already linked into one
    vertex), whatever the numbering of the spare darts; no other slot of any storage changes at that step -/
theorem C15_cut_midpoint_under_vertex_id (k nd1 : Nat) (v : Val) (m m' : Map Val) (old : Option Val)
    (h : run (do let newVid ← vertexId2 k nd1; writeVtx newVid v : P Val (Option Val)) m = (.ok old, m')) :
    ∃ vid, run (vertexId2 k nd1) m = (.ok vid, m) ∧ m.okA 0 vid = true ∧ m' = m.setA 0 vid (some v) ∧
      m'.att 0 vid = some v ∧ old = m.att 0 vid := by
  obtain ⟨vid, hv, h⟩ := ro_bind_ok (readOnly_vertexId2 _ _) h
  unfold writeVtx at h
  obtain ⟨hok, h⟩ := rA_ok h
  obtain ⟨_, h⟩ := wA_ok h
  simp at h
  refine ⟨vid, hv, hok, h.2.symm, ?_, h.1.symm⟩
  rw [← h.2, Map.att_setA]
  simp [hok]

theorem att_takeFaceAnchor {cfg : Cfg Val} {k d : Nat} {m m' : Map Val} {o : Option Val}
    (h : run (takeFaceAnchor cfg k d) m = (.ok o, m')) : ∀ i, m'.att stEA i = m.att stEA i := by
  intro i
  unfold takeFaceAnchor removeAttr at h
  by_cases hr : regd cfg stFA = true
  · simp only [hr, if_true] at h
    obtain ⟨fid, _, h⟩ := ro_bind_ok (readOnly_faceId2 _ _) h
    obtain ⟨_, h⟩ := rA_ok h
    obtain ⟨_, h⟩ := wA_ok h
    simp at h
    rw [← h.2, Map.att_setA]
    simp [stFA, stEA]
  · simp [hr] at h
    rw [h.2]

theorem run_edgeId2 (d : Nat) (m : Map Val) : run (edgeId2 (X := Val) d) m =
    if m.okβ 2 d then (.ok (if m.β 2 d = 0 then d else min (m.β 2 d) d), m) else (.panic, m) := by
  unfold edgeId2
  simp only [Prog.bind_eq, bind, run_rB]
  split
  · split <;> simp
  · rfl

/-- **C15, /repo 27a7433 (former D15b)**: after EVERY successful `cut_outer_edge` on a map with the EdgeAnchor storage,
    the second half of the cut edge — the edge of the new dart `nd3` in the resulting map — carries the anchor the cut
    edge had (read at `e`), for every map, configuration and numbering of the spare darts -/
theorem C15_cutOuter_second_half_anchored (cfg : Cfg Val) (k e nd1 nd2 nd3 : Nat) (m m' : Map Val) (a : Val)
    (hreg : regd cfg stEA = true) (ha : m.att stEA e = some a)
    (h : run (cutOuterEdge cfg k e nd1 nd2 nd3) m = (.ok (), m')) :
    ∃ eid, run (edgeId2 nd3) m' = (.ok eid, m') ∧ m'.att stEA eid = some a := by
  unfold cutOuterEdge at h
  obtain ⟨_, m1, r1, h1⟩ := run_bind_ok h
  clear h
  obtain ⟨_, _, _, _, rfl⟩ := iLinkCore_ok r1
  obtain ⟨_, m2, r2, h2⟩ := run_bind_ok h1
  clear h1
  obtain ⟨_, _, _, _, rfl⟩ := oneLinkCore_ok r2
  obtain ⟨fa, m3, r3, h3⟩ := run_bind_ok h2
  clear h2
  have e3 : m3.att stEA e = some a := by rw [att_takeFaceAnchor r3]; exact ha
  obtain ⟨ea, m4, r4, h⟩ := run_bind_ok h3
  clear h3
  have hea : ea = some a ∧ m4 = m3 := by
    unfold peekEdgeAnchor readAttr at r4
    simp only [hreg, if_true, run_rA'] at r4
    split at r4
    · simp at r4; exact ⟨by rw [← r4.1, e3], r4.2.symm⟩
    · simp at r4
  obtain ⟨rfl, rfl⟩ := hea
  -- the fourteen steps between the read of the edge anchor and the last block
  iterate 14 obtain ⟨_, _, _, h⟩ := run_bind_ok h
  unfold spreadEdgeAnchorOuter at h
  obtain ⟨vid, _, h⟩ := ro_bind_ok (readOnly_vertexId2 _ _) h
  obtain ⟨_, m5, r5, h⟩ := run_bind_ok h
  obtain ⟨eid, hE, h⟩ := ro_bind_ok (readOnly_edgeId2 _) h
  unfold writeAttr at h
  simp only [hreg, if_true, Prog.bind_eq, bind, Prog.bind_assoc, Prog.pure_eq, Prog.ret_bind] at h
  obtain ⟨hok, h⟩ := rA_ok h
  obtain ⟨_, h⟩ := wA_ok h
  simp at h
  refine ⟨eid, ?_, ?_⟩
  · rw [← h]
    rw [run_edgeId2] at hE ⊢
    simp only [Map.okβ_setA, Map.β_setA]
    by_cases hb : m5.okβ 2 nd3 = true
    · simp only [hb, if_true, Prod.mk.injEq, Out.ok.injEq] at hE ⊢
      exact ⟨hE.1, trivial⟩
    · simp [hb] at hE
  · rw [← h, Map.att_setA]
    simp [hok]

/-- all six numberings of the three spare darts -/
def perms3 : List (Nat × Nat × Nat) := [(7, 8, 9), (7, 9, 8), (8, 7, 9), (8, 9, 7), (9, 7, 8), (9, 8, 7)]

/-- **C15, former D15c and D15b on the unit square, every numbering of the spare darts**: `cut_outer_edge(1, [nd1, nd2,
    nd3])` succeeds, the new vertex has the identifier `min(nd1, nd3)` and reads the midpoint `(1/2, 0)` there; on the
    anchored square both halves of the cut edge (the edges of darts 1 and nd3) carry its curve anchor C0, the new vertex
    is on curve 0, both new faces on surface 0 -/
theorem C15_cutOuter_unit_square_all_orders :
    ∀ p ∈ perms3,
      let r := run (cutOuterEdge (stdCfg 3 0) 10 1 p.1 p.2.1 p.2.2) (unitSquare.addFreeDarts 3).2
      let q := run (cutOuterEdge (stdCfg 3 224) 10 1 p.1 p.2.1 p.2.2) (unitSquareAnchored.addFreeDarts 3).2
      r.1 = .ok () ∧ (run (vertexId2 10 p.1) r.2).1 = .ok (min p.1 p.2.2) ∧
      r.2.att 0 (min p.1 p.2.2) = some (.pt (1/2) 0 0) ∧ WF 3 r.2 ∧
      q.1 = .ok () ∧ q.2.att 0 (min p.1 p.2.2) = some (.pt (1/2) 0 0) ∧
      q.2.β 2 p.2.2 = 0 ∧ q.2.att stEA 1 = tml 1 ∧ q.2.att stEA p.2.2 = tml 1 ∧
      q.2.att stVA (min p.1 p.2.2) = tml 1 ∧ q.2.att stFA 1 = tml 2 ∧ q.2.att stFA (min 2 (min p.2.1 p.2.2)) = tml 2 := by
  decide +kernel

/-- the same for `cut_inner_edge(2, …)` on the unit square with the natural, the reversed and two mixed numberings: the
    new vertex (darts nd1, nd3, nd4, nd6) reads the midpoint `(1/2, 1/2)` at its identifier -/
theorem C15_cutInner_unit_square_orders :
    ∀ p ∈ [[7, 8, 9, 10, 11, 12], [12, 11, 10, 9, 8, 7], [9, 8, 7, 12, 11, 10], [10, 7, 12, 9, 8, 11]],
      let r := run (cutInnerEdge (stdCfg 3 0) 13 2 (p.getD 0 0) (p.getD 1 0) (p.getD 2 0) (p.getD 3 0) (p.getD 4 0)
        (p.getD 5 0)) (unitSquare.addFreeDarts 6).2
      let v := min (min (p.getD 0 0) (p.getD 2 0)) (min (p.getD 3 0) (p.getD 5 0))
      r.1 = .ok () ∧ (run (vertexId2 13 (p.getD 0 0)) r.2).1 = .ok v ∧ r.2.att 0 v = some (.pt (1/2) (1/2) 0) ∧
      WF 3 r.2 := by
  decide +kernel

/-- **C15 (e), D15e**: `collapse_edge(5)` on the anchored unit square (vertex 2 a node, vertex 6 on a curve: collapse
    towards the left end) returns `Ok(2)` and leaves the triangle 4-5-6 dismantled: its three darts are in use, have
    no β0/β1 image, dart 4 is still 2-sewn to dart 2, nothing is flagged -/
theorem C15_D15e_witness :
    let r := run (collapseEdge (stdCfg 3 224) 7 5) unitSquareAnchored
    r.1 = .ok 2 ∧ r.2.u = unitSquareAnchored.u ∧
    (∀ d ∈ [4, 5, 6], r.2.β 0 d = 0 ∧ r.2.β 1 d = 0) ∧ r.2.β 2 4 = 2 ∧ r.2.β 2 2 = 4 := by
  decide +kernel

/-- the 1 x 2 split grid, fully anchored, the four faces on four different surfaces (`TWO_ANCH` of tools/props/c15.py) -/
def twoCells : Map Val :=
  { (Map.empty 3 stdStorages 13 : Map Val) with
    b := #[#[0, 3, 1, 2, 6, 4, 5, 9, 7, 8, 12, 10, 11], #[0, 2, 3, 1, 5, 6, 4, 8, 9, 7, 11, 12, 10],
           #[0, 0, 4, 0, 2, 0, 7, 6, 10, 0, 8, 0, 0]]
    a := ((((Map.empty 3 stdStorages 13 : Map Val).a.setIfInBounds 0
      #[none, some (.pt 0 0 0), some (.pt 1 0 0), some (.pt 0 1 0), none, none, some (.pt 1 1 0), none, none,
        some (.pt 0 2 0), none, none, some (.pt 1 2 0)]).setIfInBounds 6
      #[none, tml 4, tml 8, tml 13, none, none, tml 5, none, none, tml 36, none, none, tml 48, none]).setIfInBounds 7
      #[none, tml 1, tml 2, tml 13, none, tml 5, tml 2, none, tml 2, tml 13, none, tml 5, tml 9, none]).setIfInBounds 8
      #[none, tml 6, none, none, tml 10, none, none, tml 14, none, none, tml 18, none, none, none] }

/-- **C15 (e), D15a**: `collapse_edge(5)` on the anchored 1 x 2 grid (towards the node at dart 5's origin) succeeds; the
    face of darts 8, 9 (identifier 7, surface 3 — code 14) survives, receives dart 4 of the removed triangle, becomes
    face 4 and now reads the anchor of the REMOVED face 4 (surface 2 — code 10) -/
theorem C15_D15a_witness :
    let r := run (collapseEdge (stdCfg 3 224) 13 5) twoCells
    WF 3 twoCells ∧ r.1 = .ok 2 ∧
    (run (faceId2 13 8) twoCells).1 = .ok 7 ∧ twoCells.att 8 7 = tml 14 ∧ twoCells.att 8 4 = tml 10 ∧
    (run (faceId2 13 8) r.2).1 = .ok 4 ∧ r.2.att 8 4 = tml 10 ∧ r.2.unused 8 = false := by
  decide +kernel

/-- the 2 x 2 split grid after `cut_inner_edge(5, [25 … 30])` -/
def cutGrid : Map Val :=
  { (Map.empty 3 stdStorages 31 : Map Val) with
    b := #[#[0, 3, 1, 2, 25, 4, 27, 30, 28, 8, 12, 10, 11, 15, 13, 14, 18, 16, 17, 21, 19, 20, 24, 22, 23, 5, 6, 26, 9, 7, 29],
           #[0, 2, 3, 1, 5, 25, 26, 29, 9, 28, 11, 12, 10, 14, 15, 13, 17, 18, 16, 20, 21, 19, 23, 24, 22, 4, 27, 6, 8, 30, 7],
           #[0, 0, 4, 0, 2, 30, 13, 0, 10, 27, 8, 0, 19, 6, 16, 0, 14, 21, 0, 12, 22, 17, 20, 0, 0, 26, 25, 9, 29, 28, 5]]
    a := (Map.empty 3 stdStorages 31 : Map Val).a.setIfInBounds 0
      #[none, some (.pt 0 0 0), some (.pt 1 0 0), some (.pt 0 1 0), none, none, some (.pt 1 1 0), none, some (.pt 2 0 0),
        none, none, none, some (.pt 2 1 0), none, none, some (.pt 0 2 0), none, none, some (.pt 1 2 0), none, none, none,
        none, none, some (.pt 2 2 0), some (.pt 1 (1/2) 0), none, none, none, none, none] }

/-- **C15 (e), D15d**: `collapse_edge(26)` (no anchors: "to the midpoint") on the edge from the boundary vertex `(0,1)`
    (identifier 3, open fan) to the interior vertex `(1,1/2)` (identifier 25) succeeds and leaves the vertex at
    `(1/4,7/8)` — neither an end point nor the midpoint `(1/2,3/4)` -/
theorem C15_D15d_witness :
    let r := run (collapseEdge (stdCfg 3 0) 31 26) cutGrid
    WF 3 cutGrid ∧ (run (vertexId2 31 26) cutGrid).1 = .ok 3 ∧ (run (vertexId2 31 27) cutGrid).1 = .ok 25 ∧
    cutGrid.β 1 26 = 27 ∧ cutGrid.att 0 3 = some (.pt 0 1 0) ∧ cutGrid.att 0 25 = some (.pt 1 (1/2) 0) ∧
    r.1 = .ok 3 ∧ r.2.att 0 3 = some (.pt (1/4) (7/8) 0) := by
  decide +kernel

/-- the 2 x 2 split grid (three vertices moved, all triangles positively oriented), fully anchored with a straight bottom
    boundary, after `cut_outer_edge(7, [25, 26, 27])` (half edge 27 anchored on curve 7 by the driver) -/
def flatGrid : Map Val :=
  { (Map.empty 3 stdStorages 28 : Map Val) with
    b := #[#[0, 3, 1, 2, 6, 4, 5, 9, 27, 25, 12, 10, 11, 15, 13, 14, 18, 16, 17, 21, 19, 20, 24, 22, 23, 7, 8, 26],
           #[0, 2, 3, 1, 5, 6, 4, 25, 26, 7, 11, 12, 10, 14, 15, 13, 17, 18, 16, 20, 21, 19, 23, 24, 22, 9, 27, 8],
           #[0, 0, 4, 0, 2, 9, 13, 0, 10, 5, 8, 0, 19, 6, 16, 0, 14, 21, 0, 12, 22, 17, 20, 0, 0, 26, 25, 0]]
    a := ((((Map.empty 3 stdStorages 28 : Map Val).a.setIfInBounds 0
      #[none, some (.pt 0 0 0), some (.pt (7/8) 0 0), some (.pt 0 (13/16) 0), none, none, some (.pt (15/16) (15/16) 0),
        none, some (.pt 2 0 0), none, none, none, some (.pt 2 1 0), none, none, some (.pt 0 2 0), none, none,
        some (.pt (19/16) 2 0), none, none, none, none, none, some (.pt 2 2 0), some (.pt (23/16) 0 0), none,
        none]).setIfInBounds 6
      #[none, tml 4, tml 1, tml 13, none, none, tml 2, none, tml 32, none, none, none, tml 5, none, none, tml 60, none,
        none, tml 9, none, none, none, none, none, tml 96, tml 1, none, none, none]).setIfInBounds 7
      #[none, tml 1, tml 2, tml 13, none, tml 2, tml 2, tml 1, tml 2, none, none, tml 5, tml 2, none, tml 2, tml 13, none,
        tml 2, tml 9, none, tml 2, none, none, tml 5, tml 9, tml 2, none, tml 29, none]).setIfInBounds 8
      #[none, tml 2, none, none, tml 2, none, none, tml 2, tml 2, none, tml 2, none, none, tml 2, none, none, tml 2, none,
        none, tml 2, none, none, tml 2, none, none, none, none, none, none] }

/-- **C15 (e), former finding D15g (fixed in /repo 94962f9), regression**: `collapse_edge(5)` on `flatGrid` (from the
    boundary vertex `(7/8,0)` on curve 0 to the interior vertex `(15/16,15/16)`: towards the boundary vertex) would
    flatten the triangle 7-27-8, whose corners `(7/8,0)`, `(23/16,0)`, `(2,0)` are collinear; the call used to succeed
    (`f64::signum(+0.0) = 1.0`), it is now refused with `InvertedOrientation` (hence, `C15_error_leaves_map_unchanged`, the
    map is unchanged) -/
theorem C15_D15g_regression :
    WF 3 flatGrid ∧ (run (collapseEdge (stdCfg 3 224) 28 5) flatGrid).1 = .err errInvertedOrientation ∧
    cross ⟨7/8, 0⟩ ⟨23/16, 0⟩ ⟨2, 0⟩ = 0 := by
  decide +kernel

/-! ### the orientation post-check is strict (former D15g) -/

/-- the triangle of dart `d` seen from the new vertex value `newV`: the two other corners are read at the vertex
    identifiers of `β1 d` and `β1 (β1 d)`, `c` is `cross_product_from_vertices(new_v, v1, v2)` -/
def FanCross (n : Nat) (m : Map Val) (newV : Val) (d : Nat) (c : Rat) : Prop :=
  ∃ vid1 vid2 v1 v2, run (vertexId2 n (m.β 1 d)) m = (.ok vid1, m) ∧
    run (vertexId2 n (m.β 1 (m.β 1 d))) m = (.ok vid2, m) ∧ m.att 0 vid1 = some v1 ∧ m.att 0 vid2 = some v2 ∧
    c = cross newV.p2 v1.p2 v2.p2

theorem fanSign_ok {n : Nat} {newV : Val} {d : Nat} {m m' : Map Val} {z : Bool} {s : Int}
    (h : run (fanSign n newV d) m = (.ok (z, s), m')) :
    ∃ c, FanCross n m newV d c ∧ z = decide (c = 0) ∧ (z = false → (s = 1 ↔ 0 < c) ∧ (s = -1 ↔ c < 0)) := by
  unfold fanSign at h
  obtain ⟨_, h⟩ := rB_ok h
  obtain ⟨_, h⟩ := rB_ok h
  obtain ⟨vid1, hv1, h⟩ := ro_bind_ok (readOnly_vertexId2 _ _) h
  obtain ⟨vid2, hv2, h⟩ := ro_bind_ok (readOnly_vertexId2 _ _) h
  obtain ⟨_, h⟩ := rA_ok h
  cases ha : m.att 0 vid1 with
  | none => simp [ha] at h
  | some v1 =>
      simp only [ha] at h
      obtain ⟨_, h⟩ := rA_ok h
      cases hb : m.att 0 vid2 with
      | none => simp [hb] at h
      | some v2 =>
          simp only [hb] at h
          simp only [Prog.pure_eq, run_ret, Prod.mk.injEq, Out.ok.injEq] at h
          obtain ⟨⟨hz, hs⟩, _⟩ := h
          refine ⟨cross newV.p2 v1.p2 v2.p2, ⟨vid1, vid2, v1, v2, hv1, hv2, ha, hb, rfl⟩, hz.symm, ?_⟩
          intro hz0
          rw [hz0] at hz
          have cne : cross newV.p2 v1.p2 v2.p2 ≠ 0 := by
            intro hh; simp [hh] at hz
          by_cases hp : cross newV.p2 v1.p2 v2.p2 > 0
          · have s1 : s = 1 := by rw [← hs]; unfold crossSignum signumF; rw [if_pos hp]
            exact ⟨⟨fun _ => hp, fun _ => s1⟩, ⟨fun hh => by omega, fun hh => absurd hp (not_lt.2 (le_of_lt hh))⟩⟩
          · have hn : cross newV.p2 v1.p2 v2.p2 < 0 := lt_of_le_of_ne (not_lt.1 hp) cne
            have s1 : s = -1 := by rw [← hs]; unfold crossSignum signumF; rw [if_neg hp, if_pos hn]
            exact ⟨⟨fun hh => by omega, fun hh => absurd hh hp⟩, ⟨fun _ => hn, fun _ => s1⟩⟩

theorem fanAllSame_true {n : Nat} {newV : Val} {ref : Int} {m : Map Val} :
    ∀ (l : List Nat) {m' : Map Val}, run (fanAllSame n newV ref l) m = (.ok true, m') →
      ∀ d, d ∈ l → run (fanSign n newV d) m = (.ok (false, ref), m)
  | [], _, _, d, hd => by simp at hd
  | x :: xs, m', h, d, hd => by
      unfold fanAllSame at h
      obtain ⟨zs, hzs, h⟩ := ro_bind_ok (ro_fanSign _ _ _) h
      by_cases c : zs.1 = true ∨ ref ≠ zs.2
      · simp [c] at h
      · simp only [c, if_false] at h
        have c1 : zs.1 = false := by cases hh : zs.1 <;> simp_all
        have c2 : ref = zs.2 := by
          by_cases hh : ref = zs.2
          · exact hh
          · exact absurd (Or.inr hh) c
        rcases List.mem_cons.1 hd with rfl | hd
        · rw [hzs]; congr 2; exact Prod.ext c1 c2.symm
        · exact fanAllSame_true xs h d hd

/-- **C15, the orientation post-check is strict** (/repo 94962f9, former finding D15g): whenever
    `is_orbit_orientation_consistent(vid)` answers `true`, every triangle of the fan around `vid` (every dart of the
    vertex orbit) has a NON-ZERO cross product seen from the vertex, all of the same sign: no flat triangle -/
theorem C15_orientation_check_strict {n vid : Nat} {m m' : Map Val}
    (h : run (isOrbitOrientationConsistent n vid) m = (.ok true, m')) :
    ∃ newV tmp, m.att 0 vid = some newV ∧ run (orbit2 n .vertex vid) m = (.ok tmp, m) ∧
      ((∀ d, d ∈ tmp → ∃ c, FanCross n m newV d c ∧ 0 < c) ∨ (∀ d, d ∈ tmp → ∃ c, FanCross n m newV d c ∧ c < 0)) := by
  unfold isOrbitOrientationConsistent at h
  obtain ⟨_, h⟩ := rA_ok h
  cases hv : m.att 0 vid with
  | none => simp [hv] at h
  | some newV =>
      simp only [hv] at h
      obtain ⟨tmp, htmp, h⟩ := ro_bind_ok (readOnly_orbit2 _ _ _) h
      refine ⟨newV, tmp, rfl, htmp, ?_⟩
      cases tmp with
      | nil => simp at h
      | cons d ds =>
          simp only at h
          obtain ⟨zr, hzr, h⟩ := ro_bind_ok (ro_fanSign _ _ _) h
          by_cases c : zr.1 = true
          · simp [c] at h
          · simp only [c, if_false] at h
            have c1 : zr.1 = false := by cases hh : zr.1 <;> simp_all
            have all := fanAllSame_true ds h
            have hd0 : run (fanSign n newV d) m = (.ok (false, zr.2), m) := by
              rw [hzr]; congr 2; exact Prod.ext c1 rfl
            have every : ∀ x, x ∈ d :: ds → run (fanSign n newV x) m = (.ok (false, zr.2), m) := by
              intro x hx
              rcases List.mem_cons.1 hx with rfl | hx
              · exact hd0
              · exact all x hx
            obtain ⟨c0, _, _, sg0⟩ := fanSign_ok hd0
            have s0 := sg0 rfl
            obtain ⟨cz, _, zz, _⟩ := fanSign_ok hd0
            -- the reference sign is 1 or -1
            have ref1 : zr.2 = 1 ∨ zr.2 = -1 := by
              obtain ⟨cc, _, hz, sg⟩ := fanSign_ok hd0
              have cne : cc ≠ 0 := by intro hh; simp [hh] at hz
              rcases lt_or_gt_of_ne cne with hlt | hgt
              · exact Or.inr ((sg rfl).2.2 hlt)
              · exact Or.inl ((sg rfl).1.2 hgt)
            rcases ref1 with r1 | r1
            · left
              intro x hx
              obtain ⟨cc, fc, _, sg⟩ := fanSign_ok (every x hx)
              exact ⟨cc, fc, (sg rfl).1.1 r1⟩
            · right
              intro x hx
              obtain ⟨cc, fc, _, sg⟩ := fanSign_ok (every x hx)
              exact ⟨cc, fc, (sg rfl).2.1 r1⟩

/-- **C15, a successful collapse passed the strict check**: when `collapse_edge(e)` succeeds with the vertex `v`, the
    orientation check answers `true` on the RESULTING map at `v` -/
theorem C15_collapse_passed_check (cfg : Cfg Val) (m m' : Map Val) (e v : Nat) (hwf : WF 3 m) (he : e < m.n)
    (h : run (collapseEdge cfg m.n e) m = (.ok v, m')) :
    run (isOrbitOrientationConsistent m.n v) m' = (.ok true, m') := by
  rw [C15_collapse_guards cfg m.n e m (fun i d hi hd => (hwf.toSized.okβ i d).2 ⟨hi, hd⟩)
    (fun i d hi hd => hwf.range i hi d hd) he] at h
  by_cases e0 : e = 0
  · simp [e0] at h
  simp only [e0, if_false] at h
  by_cases g1 : m.β 1 (m.β 1 e) ≠ m.β 0 e
  · simp [g1] at h
  simp only [g1, if_false] at h
  by_cases g2 : m.β 2 e ≠ 0 ∧ m.β 1 (m.β 1 (m.β 2 e)) ≠ m.β 0 (m.β 2 e)
  · simp [g2] at h
  simp only [g2, if_false] at h
  unfold collapseBodyG at h
  obtain ⟨c, m1, _, h⟩ := run_bind_ok h
  obtain ⟨vid, m2, _, h⟩ := run_bind_ok h
  obtain ⟨ok, hro, h⟩ := ro_bind_ok (ro_isOrbitOrientationConsistent _ _) h
  cases ok
  · simp at h
  · simp at h
    obtain ⟨rfl, rfl⟩ := h
    exact hro

/-- **C15, no flat triangle after a collapse** (former finding D15g): after a successful `collapse_edge(e) = v`, every
    triangle around the resulting vertex `v` has a non-zero cross product seen from `v`, all of the same strict sign -/
theorem C15_collapse_no_flat_triangle (cfg : Cfg Val) (m m' : Map Val) (e v : Nat) (hwf : WF 3 m) (he : e < m.n)
    (h : run (collapseEdge cfg m.n e) m = (.ok v, m')) :
    ∃ newV tmp, m'.att 0 v = some newV ∧ run (orbit2 m.n .vertex v) m' = (.ok tmp, m') ∧
      ((∀ d, d ∈ tmp → ∃ c, FanCross m.n m' newV d c ∧ 0 < c) ∨
       (∀ d, d ∈ tmp → ∃ c, FanCross m.n m' newV d c ∧ c < 0)) :=
  C15_orientation_check_strict (C15_collapse_passed_check cfg m m' e v hwf he h)

/-! ## non-vacuity of the hypotheses -/

/-- the hypotheses of `C15_collapse_passed_check` / `C15_collapse_no_flat_triangle` hold for `collapse_edge(26)` on
    `cutGrid` (a successful collapse) -/
example : WF 3 cutGrid ∧ 26 < cutGrid.n ∧ (run (collapseEdge (stdCfg 3 0) cutGrid.n 26) cutGrid).1 = .ok 3 := by
  decide +kernel


example : WF 3 unitSquare ∧ C01.InUse unitSquare 2 ∧ (unitSquare.β 1 2 ≠ 0 ∧ unitSquare.β 0 2 ≠ 0) ∧
    (unitSquare.β 1 (unitSquare.β 2 2) ≠ 0 ∧ unitSquare.β 0 (unitSquare.β 2 2) ≠ 0) := by decide

/-- `C15_swap_preserves_WF` applies to the D9 call (the swap keeps the map well formed, it is the geometry that moves) -/
example : WF 3 (atomically (swapEdge (stdCfg 3 0) unitSquare.n 2) unitSquare).2 :=
  C15_swap_preserves_WF _ _ _ (by decide) (by decide) (by decide) (fun _ => by decide)

example : WF 3 (unitSquare.addFreeDarts 3).2 ∧ Spare (unitSquare.addFreeDarts 3).2 7 ∧
    Spare (unitSquare.addFreeDarts 3).2 8 ∧ Spare (unitSquare.addFreeDarts 3).2 9 := by
  refine ⟨by decide +kernel, ?_, ?_, ?_⟩ <;> exact ⟨by decide +kernel, by decide +kernel⟩

example : WF 3 (atomically (cutOuterEdge (stdCfg 3 0) (unitSquare.addFreeDarts 3).2.n 1 7 8 9)
    (unitSquare.addFreeDarts 3).2).2 :=
  C15_cutOuter_preserves_WF _ _ _ _ _ _ (by decide +kernel) (by decide +kernel) (by decide +kernel)
    ⟨by decide +kernel, by decide +kernel⟩ ⟨by decide +kernel, by decide +kernel⟩
    ⟨by decide +kernel, by decide +kernel⟩ (by decide)

example : (atomically (cutOuterEdge (stdCfg 3 0) 10 1 7 8 9) (unitSquare.addFreeDarts 3).2).1 = .ok () := by
  decide +kernel

example : (atomically (cutInnerEdge (stdCfg 3 0) 13 2 7 8 9 10 11 12) (unitSquare.addFreeDarts 6).2).1 = .ok () := by
  decide +kernel

example : WF 3 (atomically (cutInnerEdge (stdCfg 3 0) (unitSquare.addFreeDarts 6).2.n 2 7 8 9 10 11 12)
    (unitSquare.addFreeDarts 6).2).2 :=
  C15_cutInner_preserves_WF _ _ _ _ _ _ _ _ _ (by decide +kernel) (by decide +kernel) (by decide +kernel)
    (by decide +kernel) (by decide +kernel)
    (fun x hx => by
      have : x = 7 ∨ x = 8 ∨ x = 9 ∨ x = 10 ∨ x = 11 ∨ x = 12 := by simpa using hx
      rcases this with rfl | rfl | rfl | rfl | rfl | rfl <;> exact ⟨by decide +kernel, by decide +kernel⟩)
    (by decide) (by decide)

/-- the asserted kernel and the kernel agree on a collapse that succeeds, and the side condition of
    `C15_collapse_preserves_WF` (newly flagged darts are free) holds there -/
example : (atomically (collapseEdgeA (stdCfg 3 224) 7 5) unitSquareAnchored).1 = .ok 2 := by decide +kernel

example : WF 3 (atomically (collapseEdgeA (stdCfg 3 224) unitSquareAnchored.n 5) unitSquareAnchored).2 :=
  C15_collapse_preserves_WF _ _ _ (by decide) (by decide) (by decide +kernel)

/-- `C15_cutOuter_second_half_anchored` applies to the anchored unit square (edge 1 lies on curve 0, code 1), here with
    the spare darts in the order that used to lose the vertex (former D15c) -/
example : ∃ eid, run (edgeId2 7) (run (cutOuterEdge (stdCfg 3 224) 10 1 9 8 7) (unitSquareAnchored.addFreeDarts 3).2).2
      = (.ok eid, (run (cutOuterEdge (stdCfg 3 224) 10 1 9 8 7) (unitSquareAnchored.addFreeDarts 3).2).2) ∧
    (run (cutOuterEdge (stdCfg 3 224) 10 1 9 8 7) (unitSquareAnchored.addFreeDarts 3).2).2.att stEA eid
      = some (.tm (.leaf 1)) :=
  C15_cutOuter_second_half_anchored (stdCfg 3 224) 10 1 9 8 7 (unitSquareAnchored.addFreeDarts 3).2 _ (.tm (.leaf 1))
    (by decide) (by decide +kernel)
    (by
      have : (run (cutOuterEdge (stdCfg 3 224) 10 1 9 8 7) (unitSquareAnchored.addFreeDarts 3).2).1 = .ok () := by
        decide +kernel
      exact Prod.ext this rfl)

/-- `C15_cut_midpoint_under_vertex_id`: a successful write step (vertex of the free dart 9 of the enlarged unit square) -/
example : (run (do let newVid ← vertexId2 10 9; writeVtx newVid (.pt (1/2) 0 0) : P Val (Option Val))
    (unitSquare.addFreeDarts 3).2).1 = .ok none := by decide +kernel

/-- an error of a kernel leaves the map unchanged: the swap of a boundary edge -/
example : (atomically (swapEdge (stdCfg 3 0) 7 1) unitSquare).1 = .err errIncompleteEdge ∧
    (atomically (swapEdge (stdCfg 3 0) 7 1) unitSquare).2 = unitSquare :=
  ⟨by decide +kernel, C15_error_leaves_map_unchanged _ _ fun a => by
    rw [show (atomically (swapEdge (stdCfg 3 0) 7 1) unitSquare).1 = .err errIncompleteEdge from by decide +kernel]
    simp⟩

example : Gen.Anchors.VertexAnchor.merge (.Node 3) (.Curve 1) = some (.Node 3) ∧
    Gen.Anchors.VertexAnchor.merge (.Curve 1) (.Curve 2) = none ∧
    collapseChoice (.Node 3) (.Curve 1) (.Curve 1) = some (.ok .left) := by decide

end HC.C15
