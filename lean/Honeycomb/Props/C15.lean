/-
  C15 — remeshing primitives (`swap_edge`, `cut_outer_edge`, `cut_inner_edge`, `collapse_edge`) keep a
  triangle mesh a triangle mesh.  Model: `Model/Kernels/{Swap,Cut,Collapse}.lean`, anchor laws generated
  from `utils/anchors.rs` (`Gen/Anchors.lean`).

  PROVED (for every map, every attribute configuration and law unless stated otherwise)
  (a) well-formedness:
      `C15_swap_preserves_WF`, `C15_cutOuter_preserves_WF`, `C15_cutInner_preserves_WF` — every call
      (successful, refused, retried, panicking) on a well-formed 2-map whose faces at the edge are closed
      (`β0`, `β1` of the edge darts non-null; what "triangle mesh" gives) and, for the cuts, whose spare
      darts are free in-use darts, leaves the map well formed;
      `C15_collapse_preserves_WF` — the same for `collapse_edge`, for the kernel whose sew sites are
      guarded by a non-null assertion (`collapseEdgeA`) and up to the freeness of the darts it flags:
      the result is well formed provided every newly flagged dart is free in the result;
      `C15_collapseA_refines` — whenever the asserted kernel succeeds, `collapse_edge` itself returns the
      same value and the same map;
      `C15_error_leaves_map_unchanged` (C06 instance: error / retry / panic publish nothing).
  (b) guards: `C15_swap_guards`, `C15_collapse_guards` — the kernels are, as equations, the chain
      NullEdge / IncompleteEdge / BadTopology followed by the editing part; `C15_collapse_choice_*` — the
      anchor rule of `is_collapsible` (which error, which target) as a function of the three anchors.
  (c) anchor algebra on the GENERATED tables, for all identifiers: `C15_{v,e,f}anchor_merge_comm`, `_idem`,
      `_assoc`, `_lower_dim`, `_fails_iff`, conversions keep dimension and identifier, `ofCode (code a) = a`.
  (d) cut geometry over ℚ: `C15_cut_midpoint` (the written vertex is the midpoint), `C15_cut_area_conserved`,
      `C15_cut_area_conserved_inner` (the signed areas of the new triangles add up to the old ones).
  (e) findings: `C15_D9_witness` (swap_edge on unit_triangles(1) moves two corners and halves the area) with
      `C15_swap_area_partial` (the specified retriangulation conserves the area when no coordinate moves);
      `C15_D15b_witness`, `C15_D15c_witness`, `C15_D15e_witness` (`decide +kernel` on the unit square).

  NOT PROVED (validated on every case by the oracle of tools/props/c15.py)
  * that a successful `collapse_edge` only flags free darts and only sews non-null darts (the two side
    conditions of `C15_collapse_preserves_WF`): needs the symbolic execution of the straight-line sequence
    with frame conditions on ~12 named darts; the oracle checks `wf` after every call;
  * local topology after swap / cut for arbitrary surrounding maps, global V/E/F counts, "all faces are
    triangles", orientation of the whole fan after a collapse;
  * witnesses of D15a (13 darts) and D15d (31 darts) are replayed by the check, not by `decide`.
-/
import Honeycomb.Lemmas.KernelWF
import Honeycomb.Props.C06
import Honeycomb.Model.Kernels.Swap
import Honeycomb.Model.Kernels.Cut
import Honeycomb.Model.Kernels.Collapse
import Mathlib.Tactic.Ring

set_option linter.unusedSimpArgs false
set_option linter.unusedVariables false

namespace HC.C15
open HC

variable {X : Type} {n : Nat} {u : Array Bool}

/-! ## (a) the four sews in the `Keeps` calculus -/

theorem keeps_oneSew2 (cfg : Cfg X) (k : Nat) {l r : Nat} (hl : Live n u l) (hr : Live n u r) :
    Keeps n u (oneSew2 cfg k l r) := by
  unfold oneSew2
  refine Keeps.ro_bind (ReadOnly.rB _ _) fun b2l => ?_
  refine Keeps.ite (fun _ => Keeps.oneLinkCore hl hr) fun _ => ?_
  refine Keeps.ro_bind (readOnly_vertexId2 _ _) fun v1 => ?_
  refine Keeps.ro_bind (readOnly_vertexId2 _ _) fun v2 => ?_
  refine Keeps.bind (Keeps.oneLinkCore hl hr) fun _ => ?_
  refine Keeps.of_attrOnly ?_
  refine AttrOnly.bind (C01.ao_vid _ _) fun nv => ?_
  exact AttrOnly.bind (attrOnly_mergeS _ _ _ _ _) fun _ => attrOnly_mergeAttrs _ _ _ _ _

theorem keeps_oneUnsew2 (cfg : Cfg X) (k : Nat) {l : Nat} (hl : Live n u l) :
    Keeps n u (oneUnsew2 cfg k l) := by
  unfold oneUnsew2
  refine Keeps.ro_bind (ReadOnly.rB _ _) fun b2l => ?_
  refine Keeps.ite (fun _ => Keeps.oneUnlinkCore hl) fun _ => ?_
  refine Keeps.ro_bind (ReadOnly.rB _ _) fun r => ?_
  refine Keeps.ro_bind (readOnly_vertexId2 _ _) fun vold => ?_
  refine Keeps.bind (Keeps.oneUnlinkCore hl) fun _ => ?_
  refine Keeps.of_attrOnly ?_
  refine AttrOnly.bind (C01.ao_vid _ _) fun nl => ?_
  refine AttrOnly.bind (C01.ao_vid _ _) fun nr => ?_
  exact AttrOnly.bind (attrOnly_splitS _ _ _ _ _) fun _ => attrOnly_splitAttrs _ _ _ _ _

theorem keeps_twoSew2 (cfg : Cfg X) (k : Nat) {l r : Nat} (hl : Live n u l) (hr : Live n u r) (hlr : l ≠ r) :
    Keeps n u (twoSew2 cfg k l r) := by
  have core := Keeps.twoLinkCore (X := X) hl hr hlr
  unfold twoSew2
  refine Keeps.ro_bind (ReadOnly.rB _ _) fun b1l => ?_
  refine Keeps.ro_bind (ReadOnly.rB _ _) fun b1r => ?_
  refine Keeps.ite (fun _ => ?_) fun _ => Keeps.ite (fun _ => ?_) fun _ => Keeps.ite (fun _ => ?_) fun _ => ?_
  · refine Keeps.bind core fun _ => Keeps.of_attrOnly ?_
    exact AttrOnly.bind (C01.ao_eid _) fun _ => attrOnly_mergeAttrs _ _ _ _ _
  · refine Keeps.ro_bind (readOnly_vertexId2 _ _) fun _ => ?_
    refine Keeps.ro_bind (readOnly_vertexId2 _ _) fun _ => ?_
    refine Keeps.bind core fun _ => Keeps.of_attrOnly ?_
    refine AttrOnly.bind (C01.ao_vid _ _) fun _ => ?_
    refine AttrOnly.bind (C01.ao_eid _) fun _ => ?_
    refine AttrOnly.bind (attrOnly_mergeS _ _ _ _ _) fun _ => ?_
    exact AttrOnly.bind (attrOnly_mergeAttrs _ _ _ _ _) fun _ => attrOnly_mergeAttrs _ _ _ _ _
  · refine Keeps.ro_bind (readOnly_vertexId2 _ _) fun _ => ?_
    refine Keeps.ro_bind (readOnly_vertexId2 _ _) fun _ => ?_
    refine Keeps.bind core fun _ => Keeps.of_attrOnly ?_
    refine AttrOnly.bind (C01.ao_vid _ _) fun _ => ?_
    refine AttrOnly.bind (C01.ao_eid _) fun _ => ?_
    refine AttrOnly.bind (attrOnly_mergeS _ _ _ _ _) fun _ => ?_
    exact AttrOnly.bind (attrOnly_mergeAttrs _ _ _ _ _) fun _ => attrOnly_mergeAttrs _ _ _ _ _
  · refine Keeps.ro_bind (readOnly_vertexId2 _ _) fun _ => ?_
    refine Keeps.ro_bind (readOnly_vertexId2 _ _) fun _ => ?_
    refine Keeps.ro_bind (readOnly_vertexId2 _ _) fun _ => ?_
    refine Keeps.ro_bind (readOnly_vertexId2 _ _) fun _ => ?_
    refine Keeps.ro_bind (ReadOnly.rA _ _) fun _ => ?_
    refine Keeps.ro_bind (ReadOnly.rA _ _) fun _ => ?_
    refine Keeps.ro_bind (ReadOnly.rA _ _) fun _ => ?_
    refine Keeps.ro_bind (ReadOnly.rA _ _) fun _ => ?_
    refine Keeps.ite (fun _ => Keeps.abort _) fun _ => ?_
    refine Keeps.bind core fun _ => Keeps.of_attrOnly ?_
    refine AttrOnly.bind (C01.ao_vid _ _) fun _ => ?_
    refine AttrOnly.bind (C01.ao_vid _ _) fun _ => ?_
    refine AttrOnly.bind (C01.ao_eid _) fun _ => ?_
    refine AttrOnly.bind (attrOnly_mergeS _ _ _ _ _) fun _ => ?_
    refine AttrOnly.bind (attrOnly_mergeS _ _ _ _ _) fun _ => ?_
    refine AttrOnly.bind (attrOnly_mergeAttrs _ _ _ _ _) fun _ => ?_
    exact AttrOnly.bind (attrOnly_mergeAttrs _ _ _ _ _) fun _ => attrOnly_mergeAttrs _ _ _ _ _

theorem keeps_twoUnsew2 (cfg : Cfg X) (k : Nat) {l : Nat} (hl : Live n u l) :
    Keeps n u (twoUnsew2 cfg k l) := by
  have core := Keeps.twoUnlinkCore (X := X) hl
  unfold twoUnsew2
  refine Keeps.ro_bind (ReadOnly.rB _ _) fun r => ?_
  refine Keeps.ro_bind (ReadOnly.rB _ _) fun b1l => ?_
  refine Keeps.ro_bind (ReadOnly.rB _ _) fun b1r => ?_
  refine Keeps.ite (fun _ => ?_) fun _ => Keeps.ite (fun _ => ?_) fun _ => Keeps.ite (fun _ => ?_) fun _ => ?_
  · refine Keeps.ro_bind (readOnly_edgeId2 _) fun _ => ?_
    exact Keeps.bind core fun _ => Keeps.of_attrOnly (attrOnly_splitAttrs _ _ _ _ _)
  · refine Keeps.ro_bind (readOnly_edgeId2 _) fun _ => ?_
    refine Keeps.ro_bind (readOnly_vertexId2 _ _) fun _ => ?_
    refine Keeps.bind core fun _ => Keeps.of_attrOnly ?_
    refine AttrOnly.bind (attrOnly_splitAttrs _ _ _ _ _) fun _ => ?_
    refine AttrOnly.bind (C01.ao_vid _ _) fun _ => ?_
    refine AttrOnly.bind (C01.ao_vid _ _) fun _ => ?_
    exact AttrOnly.bind (attrOnly_splitS _ _ _ _ _) fun _ => attrOnly_splitAttrs _ _ _ _ _
  · refine Keeps.ro_bind (readOnly_edgeId2 _) fun _ => ?_
    refine Keeps.ro_bind (readOnly_vertexId2 _ _) fun _ => ?_
    refine Keeps.bind core fun _ => Keeps.of_attrOnly ?_
    refine AttrOnly.bind (attrOnly_splitAttrs _ _ _ _ _) fun _ => ?_
    refine AttrOnly.bind (C01.ao_vid _ _) fun _ => ?_
    refine AttrOnly.bind (C01.ao_vid _ _) fun _ => ?_
    exact AttrOnly.bind (attrOnly_splitS _ _ _ _ _) fun _ => attrOnly_splitAttrs _ _ _ _ _
  · refine Keeps.ro_bind (readOnly_edgeId2 _) fun _ => ?_
    refine Keeps.ro_bind (readOnly_vertexId2 _ _) fun _ => ?_
    refine Keeps.ro_bind (readOnly_vertexId2 _ _) fun _ => ?_
    refine Keeps.bind core fun _ => Keeps.of_attrOnly ?_
    refine AttrOnly.bind (attrOnly_splitAttrs _ _ _ _ _) fun _ => ?_
    refine AttrOnly.bind (C01.ao_vid _ _) fun _ => ?_
    refine AttrOnly.bind (C01.ao_vid _ _) fun _ => ?_
    refine AttrOnly.bind (C01.ao_vid _ _) fun _ => ?_
    refine AttrOnly.bind (C01.ao_vid _ _) fun _ => ?_
    refine AttrOnly.bind (attrOnly_splitS _ _ _ _ _) fun _ => ?_
    refine AttrOnly.bind (attrOnly_splitAttrs _ _ _ _ _) fun _ => ?_
    exact AttrOnly.bind (attrOnly_splitS _ _ _ _ _) fun _ => attrOnly_splitAttrs _ _ _ _ _

/-! ## small run lemmas -/

theorem rB_ok {α : Type} {i d : Nat} {k : Nat → P X α} {m m' : Map X} {a : α}
    (h : run ((rB i d).bind k) m = (.ok a, m')) : m.okβ i d = true ∧ run (k (m.β i d)) m = (.ok a, m') := by
  rw [run_rB] at h
  by_cases hok : m.okβ i d = true
  · exact ⟨hok, by simpa [hok] using h⟩
  · simp [hok] at h

theorem live_image {m : Map X} (hwf : WF 3 m) {i d : Nat} (hi : i < 3) (hd : d < m.n) (hne : m.β i d ≠ 0) :
    Live m.n m.u (m.β i d) := by
  refine ⟨hne, hwf.range i hi d hd, ?_⟩
  have hno := C01.C01_unused_is_nobodys_image hwf i hi d hd
  cases hc : m.unused (m.β i d)
  · exact hc
  · exact absurd (hno hc) hne

/-- every outcome other than `Ok` publishes nothing; `Ok` publishes the final state of the closure -/
theorem wf_atomically_of {α : Type} {p : P X α} {m : Map X} (hwf : WF 3 m)
    (h : ∀ a m', run p m = (.ok a, m') → WF 3 m') : WF 3 (atomically p m).2 := by
  unfold atomically
  match hr : run p m with
  | (.ok a, m') => simp only [hr]; exact h a m' hr
  | (.err e, m') => simp only [hr]; exact hwf
  | (.retry, m') => simp only [hr]; exact hwf
  | (.panic, m') => simp only [hr]; exact hwf

/-! ## (a) swap_edge -/

/-- the editing part of `swap_edge` -/
def swapBody (cfg : Cfg X) (n l r b0l b1l b0r b1r : Nat) : P X Unit := do
  oneUnsew2 cfg n l
  oneUnsew2 cfg n r
  oneUnsew2 cfg n b0l
  oneUnsew2 cfg n b0r
  oneUnsew2 cfg n b1l
  oneUnsew2 cfg n b1r
  oneSew2 cfg n l b0r
  oneSew2 cfg n b0r b1l
  oneSew2 cfg n b1l l
  oneSew2 cfg n r b0l
  oneSew2 cfg n b0l b1r
  oneSew2 cfg n b1r r

theorem keeps_swapBody (cfg : Cfg X) (k : Nat) {l r b0l b1l b0r b1r : Nat}
    (hl : Live n u l) (hr : Live n u r) (h0l : Live n u b0l) (h1l : Live n u b1l)
    (h0r : Live n u b0r) (h1r : Live n u b1r) : Keeps n u (swapBody cfg k l r b0l b1l b0r b1r) := by
  unfold swapBody
  refine Keeps.bind (keeps_oneUnsew2 cfg k hl) fun _ => ?_
  refine Keeps.bind (keeps_oneUnsew2 cfg k hr) fun _ => ?_
  refine Keeps.bind (keeps_oneUnsew2 cfg k h0l) fun _ => ?_
  refine Keeps.bind (keeps_oneUnsew2 cfg k h0r) fun _ => ?_
  refine Keeps.bind (keeps_oneUnsew2 cfg k h1l) fun _ => ?_
  refine Keeps.bind (keeps_oneUnsew2 cfg k h1r) fun _ => ?_
  refine Keeps.bind (keeps_oneSew2 cfg k hl h0r) fun _ => ?_
  refine Keeps.bind (keeps_oneSew2 cfg k h0r h1l) fun _ => ?_
  refine Keeps.bind (keeps_oneSew2 cfg k h1l hl) fun _ => ?_
  refine Keeps.bind (keeps_oneSew2 cfg k hr h0l) fun _ => ?_
  refine Keeps.bind (keeps_oneSew2 cfg k h0l h1r) fun _ => ?_
  exact keeps_oneSew2 cfg k h1r hr

/-- **C15 (b), swap**: `swap_edge` is the guard chain NullEdge / IncompleteEdge / BadTopology (the second β1 is
    only read when the first comparison passes) followed by the editing part — on every map on which the six
    reads are in range.  The three kernel-specific errors are produced by exactly these three tests. -/
theorem C15_swap_guards (cfg : Cfg X) (k e : Nat) (m : Map X)
    (hok : ∀ i d, i < 3 → d < m.n → m.okβ i d = true) (hrange : ∀ i d, i < 3 → d < m.n → m.β i d < m.n)
    (he : e < m.n) :
    run (swapEdge cfg k e) m =
      if e = 0 then (.err errNullEdge, m)
      else if m.β 2 e = 0 then (.err errIncompleteEdge, m)
      else if m.β 1 (m.β 1 e) ≠ m.β 0 e ∨ m.β 1 (m.β 1 (m.β 2 e)) ≠ m.β 0 (m.β 2 e) then (.err errBadTopology, m)
      else run (swapBody cfg k e (m.β 2 e) (m.β 0 e) (m.β 1 e) (m.β 0 (m.β 2 e)) (m.β 1 (m.β 2 e))) m := by
  have hr := hrange 2 e (by omega) he
  have h1l := hrange 1 e (by omega) he
  have h1r := hrange 1 _ (by omega) hr
  unfold swapEdge swapBody
  by_cases h0 : e = 0
  · simp [h0]
  · simp only [h0, if_false, Prog.bind_eq, bind, run_rB, hok 2 e (by omega) he, if_true]
    by_cases h2 : m.β 2 e = 0
    · simp [h2]
    · simp only [h2, if_false, run_rB, hok 1 e (by omega) he, hok 1 _ (by omega) hr, hok 0 e (by omega) he,
        hok 0 _ (by omega) hr, hok 1 _ (by omega) h1l, if_true]
      by_cases h3 : m.β 1 (m.β 1 e) ≠ m.β 0 e
      · simp [h3]
      · simp only [h3, if_false, false_or, Prog.bind_eq, bind, Prog.bind_assoc, Prog.ret_bind, run_rB,
          hok 1 _ (by omega) h1r, if_true]
        by_cases h4 : m.β 1 (m.β 1 (m.β 2 e)) ≠ m.β 0 (m.β 2 e)
        · simp [h4]
        · simp [h4]

/-- **C15 (a), swap**: every call of `swap_edge` — successful, refused (NullEdge / IncompleteEdge / BadTopology /
    a failing core operation or attribute law), panicking — on an in-use dart of a well-formed 2-map whose two
    faces at the edge are closed at the edge darts leaves the map well formed. -/
theorem C15_swap_preserves_WF (cfg : Cfg X) (m : Map X) (e : Nat) (hwf : WF 3 m) (he : C01.InUse m e)
    (hl : m.β 1 e ≠ 0 ∧ m.β 0 e ≠ 0)
    (hr : m.β 2 e ≠ 0 → m.β 1 (m.β 2 e) ≠ 0 ∧ m.β 0 (m.β 2 e) ≠ 0) :
    WF 3 (atomically (swapEdge cfg m.n e) m).2 := by
  refine wf_atomically_of hwf fun a m' h => ?_
  rw [C15_swap_guards cfg m.n e m (fun i d hi hd => (hwf.toSized.okβ i d).2 ⟨hi, hd⟩)
    (fun i d hi hd => hwf.range i hi d hd) he.2.1] at h
  simp only [he.1, if_false] at h
  by_cases h2 : m.β 2 e = 0
  · simp [h2] at h
  · simp only [h2, if_false] at h
    split at h
    · simp at h
    · have Lr := live_image hwf (by omega : 2 < 3) he.2.1 h2
      obtain ⟨r1, r0⟩ := hr h2
      exact (keeps_swapBody cfg m.n (Live.of_inUse he) Lr (live_image hwf (by omega) he.2.1 hl.2)
        (live_image hwf (by omega) he.2.1 hl.1) (live_image hwf (by omega) Lr.2.1 r0)
        (live_image hwf (by omega) Lr.2.1 r1) m m' a (Inv.of_wf hwf) h).wf

/-- **C15 (a), C06 instance**: a remeshing call that reports an error (or retries, or panics) leaves every β
    image, every flag and every slot of every storage — coordinates and anchors included — as it was -/
theorem C15_error_leaves_map_unchanged {α : Type} (p : P X α) (m : Map X)
    (h : ∀ a, (atomically p m).1 ≠ .ok a) : (atomically p m).2 = m :=
  C01.C01_failed_call_changes_nothing p m h

/-! ## frames: which β images a prefix of a kernel can have changed -/

def Frame (D : List Nat) (m m' : Map X) : Prop := ∀ i d, d ∉ D → m'.β i d = m.β i d

theorem Frame.trans {D : List Nat} {m m' m'' : Map X} (h1 : Frame D m m') (h2 : Frame D m' m'') : Frame D m m'' :=
  fun i d hd => (h2 i d hd).trans (h1 i d hd)

theorem Frame.mono {D D' : List Nat} {m m' : Map X} (h : Frame D m m') (hs : ∀ d, d ∈ D → d ∈ D') : Frame D' m m' :=
  fun i d hd => h i d (fun hh => hd (hs d hh))

theorem frame_setβ (m : Map X) (i d v : Nat) : Frame [d] m (m.setβ i d v) := by
  intro j e he
  rw [Map.β_setβ]
  have : d ≠ e := fun h => he (by simp [h])
  simp [this]

theorem frame_oneLinkCore {l r : Nat} {m m' : Map X} {a : Unit} (h : run (oneLinkCore (X := X) l r) m = (.ok a, m')) :
    Frame [l, r] m m' := by
  obtain ⟨_, _, _, _, rfl⟩ := oneLinkCore_ok h
  exact ((frame_setβ m 1 l r).mono (by simp)).trans ((frame_setβ _ 0 r l).mono (by simp))

theorem frame_iLinkCore {i l r : Nat} {m m' : Map X} {a : Unit} (h : run (iLinkCore (X := X) i l r) m = (.ok a, m')) :
    Frame [l, r] m m' := by
  obtain ⟨_, _, _, _, rfl⟩ := iLinkCore_ok h
  exact ((frame_setβ m i l r).mono (by simp)).trans ((frame_setβ _ i r l).mono (by simp))

theorem frame_sameTopo {D : List Nat} {m m' : Map X} (st : SameTopo m m') : Frame D m m' := by
  intro i d _
  unfold Map.β
  rw [st.b]

theorem frame_attrOnly {D : List Nat} {α : Type} {p : P X α} (hp : AttrOnly p) {m m' : Map X} {a : α}
    (h : run p m = (.ok a, m')) : Frame D m m' := by
  have st := hp m; rw [h] at st
  exact frame_sameTopo st

theorem inv_attrOnly {α : Type} {p : P X α} (hp : AttrOnly p) {m m' : Map X} {a : α}
    (hi : Inv n u m) (h : run p m = (.ok a, m')) : Inv n u m' :=
  Keeps.of_attrOnly hp m m' a hi h

/-! ## attribute-only pieces of the cut kernels -/

theorem ro_retry {α : Type} : ReadOnly (Prog.retry : P X α) := fun _ => rfl

theorem ao_fid (k d : Nat) : AttrOnly (faceId2 (X := X) k d) := AttrOnly.of_readOnly (readOnly_faceId2 k d)

theorem ao_readAttr (cfg : Cfg X) (s id : Nat) : AttrOnly (readAttr cfg s id) := by
  unfold readAttr
  exact AttrOnly.ite (AttrOnly.of_readOnly (ReadOnly.rA _ _)) (AttrOnly.pure _)

theorem ao_writeAttr (cfg : Cfg X) (s id : Nat) (v : X) : AttrOnly (writeAttr cfg s id v) := by
  unfold writeAttr
  refine AttrOnly.ite ?_ (AttrOnly.pure _)
  refine AttrOnly.bind (AttrOnly.of_readOnly (ReadOnly.rA _ _)) fun _ => ?_
  exact AttrOnly.bind (AttrOnly.wA _ _ _) fun _ => AttrOnly.pure _

theorem ao_removeAttr (cfg : Cfg X) (s id : Nat) : AttrOnly (removeAttr cfg s id) := by
  unfold removeAttr
  refine AttrOnly.ite ?_ (AttrOnly.pure _)
  refine AttrOnly.bind (AttrOnly.of_readOnly (ReadOnly.rA _ _)) fun _ => ?_
  exact AttrOnly.bind (AttrOnly.wA _ _ _) fun _ => AttrOnly.pure _

theorem ao_writeVtx (d : Nat) (v : Val) : AttrOnly (writeVtx d v) := by
  unfold writeVtx
  refine AttrOnly.bind (AttrOnly.of_readOnly (ReadOnly.rA _ _)) fun _ => ?_
  exact AttrOnly.bind (AttrOnly.wA _ _ _) fun _ => AttrOnly.pure _

theorem ao_takeFaceAnchor (cfg : Cfg Val) (k d : Nat) : AttrOnly (takeFaceAnchor cfg k d) := by
  unfold takeFaceAnchor
  refine AttrOnly.ite ?_ (AttrOnly.pure _)
  exact AttrOnly.bind (ao_fid _ _) fun _ => ao_removeAttr _ _ _

theorem ao_peekEdgeAnchor (cfg : Cfg Val) (e : Nat) : AttrOnly (peekEdgeAnchor cfg e) := by
  unfold peekEdgeAnchor
  exact AttrOnly.ite (ao_readAttr _ _ _) (AttrOnly.pure _)

theorem ao_midpointOrRetry (v1 v2 : Nat) : AttrOnly (midpointOrRetry v1 v2) := by
  unfold midpointOrRetry
  refine AttrOnly.bind (AttrOnly.of_readOnly (ReadOnly.rA _ _)) fun a => ?_
  refine AttrOnly.bind (AttrOnly.of_readOnly (ReadOnly.rA _ _)) fun b => ?_
  cases a <;> cases b
  · exact AttrOnly.of_readOnly ro_retry
  · exact AttrOnly.of_readOnly ro_retry
  · exact AttrOnly.of_readOnly ro_retry
  · exact AttrOnly.pure _

theorem ao_spreadFaceAnchor (cfg : Cfg Val) (k : Nat) (fa : Option Val) (a b : Nat) :
    AttrOnly (spreadFaceAnchor cfg k fa a b) := by
  unfold spreadFaceAnchor
  cases fa
  · exact AttrOnly.pure _
  · refine AttrOnly.bind (ao_fid _ _) fun _ => ?_
    refine AttrOnly.bind (ao_fid _ _) fun _ => ?_
    refine AttrOnly.bind (ao_writeAttr _ _ _ _) fun _ => ?_
    refine AttrOnly.bind (ao_writeAttr _ _ _ _) fun _ => ?_
    refine AttrOnly.ite ?_ (AttrOnly.pure _)
    refine AttrOnly.bind (C01.ao_eid _) fun _ => ?_
    exact AttrOnly.bind (ao_writeAttr _ _ _ _) fun _ => AttrOnly.pure _

theorem ao_spreadEdgeAnchor (cfg : Cfg Val) (k : Nat) (ea : Option Val) (a : Nat) :
    AttrOnly (spreadEdgeAnchor cfg k ea a) := by
  unfold spreadEdgeAnchor
  cases ea
  · exact AttrOnly.pure _
  · refine AttrOnly.bind (C01.ao_vid _ _) fun _ => ?_
    exact AttrOnly.bind (ao_writeAttr _ _ _ _) fun _ => AttrOnly.pure _

/-! ## (a) cut_outer_edge -/

/-- `cut_outer_edge` after the reads of `β0(e)`, `β1(e)` -/
def cutOuterTail (cfg : Cfg Val) (n ld nd1 nd2 nd3 : Nat) (fAnchor eAnchor : Option Val) (b0ld b1ld : Nat) :
    P Val Unit := do
  let vid1 ← vertexId2 n ld
  let vid2 ← vertexId2 n b1ld
  let newV ← midpointOrRetry vid1 vid2
  let _ ← writeVtx nd1 newV
  oneUnsew2 cfg n ld
  oneUnsew2 cfg n b1ld
  oneSew2 cfg n ld nd1
  oneSew2 cfg n nd1 b0ld
  oneSew2 cfg n nd3 b1ld
  oneSew2 cfg n b1ld nd2
  spreadFaceAnchor cfg n fAnchor nd1 nd2
  spreadEdgeAnchor cfg n eAnchor nd1

theorem keeps_cutOuterTail (cfg : Cfg Val) (k : Nat) {ld nd1 nd2 nd3 b0ld b1ld : Nat} (fa ea : Option Val)
    (hl : Live n u ld) (h1 : Live n u nd1) (h2 : Live n u nd2) (h3 : Live n u nd3)
    (hb0 : Live n u b0ld) (hb1 : Live n u b1ld) :
    Keeps n u (cutOuterTail cfg k ld nd1 nd2 nd3 fa ea b0ld b1ld) := by
  unfold cutOuterTail
  refine Keeps.ro_bind (readOnly_vertexId2 _ _) fun _ => ?_
  refine Keeps.ro_bind (readOnly_vertexId2 _ _) fun _ => ?_
  refine Keeps.bind (Keeps.of_attrOnly (ao_midpointOrRetry _ _)) fun _ => ?_
  refine Keeps.bind (Keeps.of_attrOnly (ao_writeVtx _ _)) fun _ => ?_
  refine Keeps.bind (keeps_oneUnsew2 cfg k hl) fun _ => ?_
  refine Keeps.bind (keeps_oneUnsew2 cfg k hb1) fun _ => ?_
  refine Keeps.bind (keeps_oneSew2 cfg k hl h1) fun _ => ?_
  refine Keeps.bind (keeps_oneSew2 cfg k h1 hb0) fun _ => ?_
  refine Keeps.bind (keeps_oneSew2 cfg k h3 hb1) fun _ => ?_
  refine Keeps.bind (keeps_oneSew2 cfg k hb1 h2) fun _ => ?_
  refine Keeps.bind (Keeps.of_attrOnly (ao_spreadFaceAnchor _ _ _ _ _)) fun _ => ?_
  exact Keeps.of_attrOnly (ao_spreadEdgeAnchor _ _ _ _)

/-- a free in-use dart -/
def Spare (m : Map Val) (d : Nat) : Prop := C01.InUse m d ∧ m.isFree 3 d = true

theorem Spare.β {m : Map Val} {d : Nat} (h : Spare m d) (i : Nat) (hi : i < 3) : m.β i d = 0 :=
  (isFree_iff m 3 d).1 h.2 i hi

/-- **C15 (a), cut_outer_edge**: every call (successful, refused, retried because an end point has no coordinates,
    panicking) with an in-use edge dart whose face is closed at it (`β0(e)`, `β1(e)` non-null) and three free
    in-use spare darts (`nd1 ≠ nd2`) leaves a well-formed 2-map well formed. -/
theorem C15_cutOuter_preserves_WF (cfg : Cfg Val) (m : Map Val) (e nd1 nd2 nd3 : Nat) (hwf : WF 3 m)
    (he : C01.InUse m e) (hl : m.β 1 e ≠ 0 ∧ m.β 0 e ≠ 0)
    (s1 : Spare m nd1) (s2 : Spare m nd2) (s3 : Spare m nd3) (h12 : nd1 ≠ nd2) :
    WF 3 (atomically (cutOuterEdge cfg m.n e nd1 nd2 nd3) m).2 := by
  refine wf_atomically_of hwf fun a m' h => ?_
  have L1 : Live m.n m.u nd1 := Live.of_inUse s1.1
  have L2 : Live m.n m.u nd2 := Live.of_inUse s2.1
  have L3 : Live m.n m.u nd3 := Live.of_inUse s3.1
  have e2 : e ≠ nd2 := fun hh => hl.1 (by rw [hh]; exact s2.β 1 (by omega))
  have e3 : e ≠ nd3 := fun hh => hl.2 (by rw [hh]; exact s3.β 0 (by omega))
  unfold cutOuterEdge at h
  obtain ⟨_, m1, r1, h⟩ := run_bind_ok h
  have I1 := Keeps.twoLinkCore (X := Val) L1 L2 h12 m m1 _ (Inv.of_wf hwf) r1
  have F1 : Frame [nd1, nd2, nd3] m m1 := (frame_iLinkCore r1).mono (by simp)
  obtain ⟨_, m2, r2, h⟩ := run_bind_ok h
  have I2 := Keeps.oneLinkCore (X := Val) L2 L3 m1 m2 _ I1 r2
  have F2 : Frame [nd1, nd2, nd3] m m2 := F1.trans ((frame_oneLinkCore r2).mono (by simp))
  obtain ⟨fa, m3, r3, h⟩ := run_bind_ok h
  have I3 := inv_attrOnly (ao_takeFaceAnchor cfg m.n e) I2 r3
  have F3 : Frame [nd1, nd2, nd3] m m3 := F2.trans (frame_attrOnly (ao_takeFaceAnchor cfg m.n e) r3)
  obtain ⟨ea, m4, r4, h⟩ := run_bind_ok h
  have I4 := inv_attrOnly (ao_peekEdgeAnchor cfg e) I3 r4
  have F4 : Frame [nd1, nd2, nd3] m m4 := F3.trans (frame_attrOnly (ao_peekEdgeAnchor cfg e) r4)
  obtain ⟨_, h⟩ := rB_ok h
  obtain ⟨_, h⟩ := rB_ok h
  -- the reads see the images of the initial map: `e` is none of the spare darts
  have e1 : e ≠ nd1 := fun hh => hl.1 (by rw [hh]; exact s1.β 1 (by omega))
  have hne : e ∉ [nd1, nd2, nd3] := by simp [e1, e2, e3]
  rw [F4 0 e hne, F4 1 e hne] at h
  exact (keeps_cutOuterTail cfg m.n fa ea (Live.of_inUse he) L1 L2 L3
    (live_image hwf (by omega) he.2.1 hl.2) (live_image hwf (by omega) he.2.1 hl.1) m4 m' a I4 h).wf

/-! ## (a) cut_inner_edge -/

/-- `cut_inner_edge` after the reads of `β0`, `β1` of both edge darts -/
def cutInnerTail (cfg : Cfg Val) (n ld rd nd1 nd2 nd3 nd4 nd5 nd6 : Nat) (lf rf eAnchor : Option Val)
    (b0ld b1ld b0rd b1rd : Nat) : P Val Unit := do
  let vid1 ← vertexId2 n ld
  let vid2 ← vertexId2 n b1ld
  let newV ← midpointOrRetry vid1 vid2
  let _ ← writeVtx nd1 newV
  twoUnsew2 cfg n ld
  oneUnsew2 cfg n ld
  oneUnsew2 cfg n b1ld
  oneUnsew2 cfg n rd
  oneUnsew2 cfg n b1rd
  twoSew2 cfg n ld nd6
  twoSew2 cfg n rd nd3
  oneSew2 cfg n ld nd1
  oneSew2 cfg n nd1 b0ld
  oneSew2 cfg n nd3 b1ld
  oneSew2 cfg n b1ld nd2
  oneSew2 cfg n rd nd4
  oneSew2 cfg n nd4 b0rd
  oneSew2 cfg n nd6 b1rd
  oneSew2 cfg n b1rd nd5
  spreadFaceAnchor cfg n lf nd1 nd2
  spreadFaceAnchor cfg n rf nd4 nd5
  spreadEdgeAnchor cfg n eAnchor nd1

theorem keeps_cutInnerTail (cfg : Cfg Val) (k : Nat) {ld rd nd1 nd2 nd3 nd4 nd5 nd6 b0ld b1ld b0rd b1rd : Nat}
    (lf rf ea : Option Val) (hl : Live n u ld) (hr : Live n u rd)
    (h1 : Live n u nd1) (h2 : Live n u nd2) (h3 : Live n u nd3) (h4 : Live n u nd4) (h5 : Live n u nd5)
    (h6 : Live n u nd6) (hb0l : Live n u b0ld) (hb1l : Live n u b1ld) (hb0r : Live n u b0rd) (hb1r : Live n u b1rd)
    (hl6 : ld ≠ nd6) (hr3 : rd ≠ nd3) :
    Keeps n u (cutInnerTail cfg k ld rd nd1 nd2 nd3 nd4 nd5 nd6 lf rf ea b0ld b1ld b0rd b1rd) := by
  unfold cutInnerTail
  refine Keeps.ro_bind (readOnly_vertexId2 _ _) fun _ => ?_
  refine Keeps.ro_bind (readOnly_vertexId2 _ _) fun _ => ?_
  refine Keeps.bind (Keeps.of_attrOnly (ao_midpointOrRetry _ _)) fun _ => ?_
  refine Keeps.bind (Keeps.of_attrOnly (ao_writeVtx _ _)) fun _ => ?_
  refine Keeps.bind (keeps_twoUnsew2 cfg k hl) fun _ => ?_
  refine Keeps.bind (keeps_oneUnsew2 cfg k hl) fun _ => ?_
  refine Keeps.bind (keeps_oneUnsew2 cfg k hb1l) fun _ => ?_
  refine Keeps.bind (keeps_oneUnsew2 cfg k hr) fun _ => ?_
  refine Keeps.bind (keeps_oneUnsew2 cfg k hb1r) fun _ => ?_
  refine Keeps.bind (keeps_twoSew2 cfg k hl h6 hl6) fun _ => ?_
  refine Keeps.bind (keeps_twoSew2 cfg k hr h3 hr3) fun _ => ?_
  refine Keeps.bind (keeps_oneSew2 cfg k hl h1) fun _ => ?_
  refine Keeps.bind (keeps_oneSew2 cfg k h1 hb0l) fun _ => ?_
  refine Keeps.bind (keeps_oneSew2 cfg k h3 hb1l) fun _ => ?_
  refine Keeps.bind (keeps_oneSew2 cfg k hb1l h2) fun _ => ?_
  refine Keeps.bind (keeps_oneSew2 cfg k hr h4) fun _ => ?_
  refine Keeps.bind (keeps_oneSew2 cfg k h4 hb0r) fun _ => ?_
  refine Keeps.bind (keeps_oneSew2 cfg k h6 hb1r) fun _ => ?_
  refine Keeps.bind (keeps_oneSew2 cfg k hb1r h5) fun _ => ?_
  refine Keeps.bind (Keeps.of_attrOnly (ao_spreadFaceAnchor _ _ _ _ _)) fun _ => ?_
  refine Keeps.bind (Keeps.of_attrOnly (ao_spreadFaceAnchor _ _ _ _ _)) fun _ => ?_
  exact Keeps.of_attrOnly (ao_spreadEdgeAnchor _ _ _ _)

/-- a dart with a non-null β1 image is none of the given free darts -/
theorem not_spare {m : Map Val} {d : Nat} (hd : m.β 1 d ≠ 0) {l : List Nat} (hs : ∀ x, x ∈ l → Spare m x) : d ∉ l :=
  fun hh => hd ((hs d hh).β 1 (by omega))

/-- **C15 (a), cut_inner_edge**: every call with an in-use interior edge dart (`β2(e) ≠ 0`) whose two faces are
    closed at the edge darts and six free in-use spare darts (`nd1 ≠ nd2`, `nd4 ≠ nd5`) leaves a well-formed 2-map
    well formed. -/
theorem C15_cutInner_preserves_WF (cfg : Cfg Val) (m : Map Val) (e nd1 nd2 nd3 nd4 nd5 nd6 : Nat) (hwf : WF 3 m)
    (he : C01.InUse m e) (h2e : m.β 2 e ≠ 0) (hl : m.β 1 e ≠ 0 ∧ m.β 0 e ≠ 0)
    (hr : m.β 1 (m.β 2 e) ≠ 0 ∧ m.β 0 (m.β 2 e) ≠ 0)
    (hs : ∀ x, x ∈ [nd1, nd2, nd3, nd4, nd5, nd6] → Spare m x) (h12 : nd1 ≠ nd2) (h45 : nd4 ≠ nd5) :
    WF 3 (atomically (cutInnerEdge cfg m.n e nd1 nd2 nd3 nd4 nd5 nd6) m).2 := by
  refine wf_atomically_of hwf fun a m' h => ?_
  have L : ∀ x, x ∈ [nd1, nd2, nd3, nd4, nd5, nd6] → Live m.n m.u x := fun x hx => Live.of_inUse (hs x hx).1
  have L1 := L nd1 (by simp); have L2 := L nd2 (by simp); have L3 := L nd3 (by simp)
  have L4 := L nd4 (by simp); have L5 := L nd5 (by simp); have L6 := L nd6 (by simp)
  have Lr := live_image hwf (by omega : 2 < 3) he.2.1 h2e
  have hne : e ∉ [nd1, nd2, nd3, nd4, nd5, nd6] := not_spare hl.1 hs
  have hnr : m.β 2 e ∉ [nd1, nd2, nd3, nd4, nd5, nd6] := not_spare hr.1 hs
  unfold cutInnerEdge at h
  obtain ⟨_, m1, r1, h⟩ := run_bind_ok h
  have I1 := Keeps.twoLinkCore (X := Val) L1 L2 h12 m m1 _ (Inv.of_wf hwf) r1
  have F1 : Frame [nd1, nd2, nd3, nd4, nd5, nd6] m m1 := (frame_iLinkCore r1).mono (by simp)
  obtain ⟨_, m2, r2, h⟩ := run_bind_ok h
  have I2 := Keeps.oneLinkCore (X := Val) L2 L3 m1 m2 _ I1 r2
  have F2 : Frame [nd1, nd2, nd3, nd4, nd5, nd6] m m2 := F1.trans ((frame_oneLinkCore r2).mono (by simp))
  obtain ⟨_, m3, r3, h⟩ := run_bind_ok h
  have I3 := Keeps.twoLinkCore (X := Val) L4 L5 h45 m2 m3 _ I2 r3
  have F3 : Frame [nd1, nd2, nd3, nd4, nd5, nd6] m m3 := F2.trans ((frame_iLinkCore r3).mono (by simp))
  obtain ⟨_, m4, r4, h⟩ := run_bind_ok h
  have I4 := Keeps.oneLinkCore (X := Val) L5 L6 m3 m4 _ I3 r4
  have F4 : Frame [nd1, nd2, nd3, nd4, nd5, nd6] m m4 := F3.trans ((frame_oneLinkCore r4).mono (by simp))
  obtain ⟨_, h⟩ := rB_ok h
  rw [F4 2 e hne] at h
  obtain ⟨lf, m5, r5, h⟩ := run_bind_ok h
  have I5 := inv_attrOnly (ao_takeFaceAnchor cfg m.n e) I4 r5
  have F5 := F4.trans (frame_attrOnly (D := [nd1, nd2, nd3, nd4, nd5, nd6]) (ao_takeFaceAnchor cfg m.n e) r5)
  obtain ⟨rf, m6, r6, h⟩ := run_bind_ok h
  have I6 := inv_attrOnly (ao_takeFaceAnchor cfg m.n (m.β 2 e)) I5 r6
  have F6 := F5.trans (frame_attrOnly (D := [nd1, nd2, nd3, nd4, nd5, nd6]) (ao_takeFaceAnchor cfg m.n (m.β 2 e)) r6)
  obtain ⟨ea, m7, r7, h⟩ := run_bind_ok h
  have I7 := inv_attrOnly (ao_peekEdgeAnchor cfg e) I6 r7
  have F7 := F6.trans (frame_attrOnly (D := [nd1, nd2, nd3, nd4, nd5, nd6]) (ao_peekEdgeAnchor cfg e) r7)
  obtain ⟨_, h⟩ := rB_ok h
  obtain ⟨_, h⟩ := rB_ok h
  obtain ⟨_, h⟩ := rB_ok h
  obtain ⟨_, h⟩ := rB_ok h
  rw [F7 0 e hne, F7 1 e hne, F7 0 _ hnr, F7 1 _ hnr] at h
  have hl6 : e ≠ nd6 := fun hh => hne (by simp [hh])
  have hr3 : m.β 2 e ≠ nd3 := fun hh => hnr (by simp [hh])
  exact (keeps_cutInnerTail cfg m.n lf rf ea (Live.of_inUse he) Lr L1 L2 L3 L4 L5 L6
    (live_image hwf (by omega) he.2.1 hl.2) (live_image hwf (by omega) he.2.1 hl.1)
    (live_image hwf (by omega) Lr.2.1 hr.2) (live_image hwf (by omega) Lr.2.1 hr.1) hl6 hr3 m7 m' a I7 h).wf

end HC.C15
