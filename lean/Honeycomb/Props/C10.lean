/-
  C10 — building from cmap text yields a well-formed map or an error.

  The property is FALSE of the current code (`build_2d_from_cmap_file` validates nothing, D5).
  This file contains

  * one proved negation witness per failure class (`C10_fails_*`), each a concrete 3-dart file
    whose section layout is accepted (`parseFile f = .ok _`) and on which `load` returns an
    ill-formed map, returns a map that disagrees with the text, or panics;
  * the validator `validFile` a fixed loader would run on the parsed file, and its soundness
    `C10_validated_load_wf`: for EVERY file (any size) that passes it, `build` neither panics
    nor fails and returns a well-formed 2-map whose β images and removal flags are those written
    in the text.  This is the statement the property reduces to once the loader rejects the
    files that do not pass the validator.
-/
import Honeycomb.Lemmas.CmapText

namespace HC.C10
open HC HC.CmapText

/-! ## evaluation helpers -/

def isPanic : Out Err (Map Val) → Bool
  | .panic => true
  | _ => false

theorem eq_panic_of_isPanic {o : Out Err (Map Val)} (h : isPanic o = true) : o = .panic := by
  cases o <;> simp_all [isPanic]

/-- the load succeeds and the map satisfies a Boolean test -/
def loadsTo (ns : Nat) (f : List Line) (p : Map Val → Bool) : Bool :=
  match load ns f with
  | .ok m => p m
  | _ => false

theorem loadsTo_spec {ns : Nat} {f : List Line} {p : Map Val → Bool} (h : loadsTo ns f p = true) :
    ∃ m, load ns f = .ok m ∧ p m = true := by
  unfold loadsTo at h
  cases hl : load ns f with
  | ok m => rw [hl] at h; exact ⟨m, rfl, h⟩
  | err e => rw [hl] at h; cases h
  | retry => rw [hl] at h; cases h
  | panic => rw [hl] at h; cases h

/-- the section layout is accepted (`CMapFile::try_from` returns `Ok`) -/
def LayoutOK (f : List Line) : Prop := ∃ cf, parseFile f = .ok cf

def layoutOK (f : List Line) : Bool :=
  match parseFile f with
  | .ok _ => true
  | .error _ => false

theorem layoutOK_spec {f : List Line} (h : layoutOK f = true) : LayoutOK f := by
  unfold layoutOK at h
  unfold LayoutOK
  cases hp : parseFile f with
  | ok cf => exact ⟨cf, rfl⟩
  | error e => rw [hp] at h; cases h

/-- the token written for `β_i(d)` in a parsed file, and its value -/
def rowTok (cf : CFile) (i d : Nat) : String := (cf.betas.getD i []).getD d ""
def tβ (cf : CFile) (i d : Nat) : Nat := (parseU32 (rowTok cf i d)).getD 0

/-! ## negation witnesses (the current loader) -/

def header (n : String) : List Line := [["[META]"], [pkgVersion, "2", n], ["[BETAS]"]]

/-- β1(3) = 9 in a 3-dart file -/
def fileRange : List Line :=
  header "3" ++ [["0", "0", "1", "0"], ["0", "2", "0", "9"], ["0", "0", "0", "0"]]

/-- D5a: an image `≥ n_darts` is stored as given -/
theorem C10_fails_out_of_range :
    ∃ f m, LayoutOK f ∧ load 1 f = .ok m ∧ ¬ WF 3 m ∧ ¬ m.β 1 3 < m.n := by
  have h : loadsTo 1 fileRange (fun m => !decide (WF 3 m) && !decide (m.β 1 3 < m.n)) = true := by
    decide +kernel
  obtain ⟨m, hl, hp⟩ := loadsTo_spec h
  simp only [Bool.and_eq_true, Bool.not_eq_true', decide_eq_false_iff_not] at hp
  exact ⟨fileRange, m, layoutOK_spec (by decide +kernel), hl, hp.1, hp.2⟩

/-- β1(1) = 2 but β0(2) = 0 -/
def fileInverse : List Line :=
  header "3" ++ [["0", "0", "0", "0"], ["0", "2", "0", "0"], ["0", "0", "0", "0"]]

/-- D5b: β0 is not checked against β1 -/
theorem C10_fails_not_inverse :
    ∃ f m, LayoutOK f ∧ load 1 f = .ok m ∧ ¬ WF 3 m ∧ m.β 1 1 = 2 ∧ m.β 0 2 ≠ 1 := by
  have h : loadsTo 1 fileInverse
      (fun m => !decide (WF 3 m) && decide (m.β 1 1 = 2) && !decide (m.β 0 2 = 1)) = true := by
    decide +kernel
  obtain ⟨m, hl, hp⟩ := loadsTo_spec h
  simp only [Bool.and_eq_true, Bool.not_eq_true', decide_eq_false_iff_not, decide_eq_true_eq] at hp
  exact ⟨fileInverse, m, layoutOK_spec (by decide +kernel), hl, hp.1.1, hp.1.2, hp.2⟩

/-- β2(1) = 2 but β2(2) = 0 -/
def fileBeta2 : List Line :=
  header "3" ++ [["0", "0", "0", "0"], ["0", "0", "0", "0"], ["0", "2", "0", "0"]]

/-- D5c: β2 is not checked to be an involution -/
theorem C10_fails_asymmetric_beta2 :
    ∃ f m, LayoutOK f ∧ load 1 f = .ok m ∧ ¬ WF 3 m ∧ m.β 2 1 = 2 ∧ m.β 2 2 ≠ 1 := by
  have h : loadsTo 1 fileBeta2
      (fun m => !decide (WF 3 m) && decide (m.β 2 1 = 2) && !decide (m.β 2 2 = 1)) = true := by
    decide +kernel
  obtain ⟨m, hl, hp⟩ := loadsTo_spec h
  simp only [Bool.and_eq_true, Bool.not_eq_true', decide_eq_false_iff_not, decide_eq_true_eq] at hp
  exact ⟨fileBeta2, m, layoutOK_spec (by decide +kernel), hl, hp.1.1, hp.1.2, hp.2⟩

/-- the text gives the null dart the image β1(0) = 3 -/
def fileNull : List Line :=
  header "3" ++ [["0", "0", "0", "0"], ["3", "0", "0", "0"], ["0", "0", "0", "0"]]

/-- D5d: the null-dart column is never read: the text says β1(0) = 3, the returned map has
    β1(0) = 0 and no error is raised -/
theorem C10_fails_null_column_ignored :
    ∃ f cf m, parseFile f = .ok cf ∧ load 1 f = .ok m ∧ tβ cf 1 0 = 3 ∧ m.β 1 0 = 0 := by
  have h : loadsTo 1 fileNull (fun m => decide (m.β 1 0 = 0)) = true := by decide +kernel
  obtain ⟨m, hl, hp⟩ := loadsTo_spec h
  obtain ⟨cf, hcf⟩ := layoutOK_spec (f := fileNull) (by decide +kernel)
  have ht : tβ cf 1 0 = 3 := by
    have : (match parseFile fileNull with | .ok cf => decide (tβ cf 1 0 = 3) | .error _ => false) = true := by
      decide +kernel
    rw [hcf] at this
    simpa using this
  exact ⟨fileNull, cf, m, hcf, hl, ht, by simpa using hp⟩

/-- dart 1 is 1-linked to dart 2 and listed as unused -/
def fileUnusedLinked : List Line :=
  header "3" ++ [["0", "0", "1", "0"], ["0", "2", "0", "0"], ["0", "0", "0", "0"], ["[UNUSED]"], ["1"]]

/-- D5e: `remove_free_dart` asserts that the dart is free -/
theorem C10_fails_unused_linked_panics : ∃ f, LayoutOK f ∧ load 1 f = .panic :=
  ⟨fileUnusedLinked, layoutOK_spec (by decide +kernel), eq_panic_of_isPanic (by decide +kernel)⟩

def fileUnusedRepeated : List Line :=
  header "3" ++ [["0", "0", "0", "0"], ["0", "0", "0", "0"], ["0", "0", "0", "0"], ["[UNUSED]"], ["3", "3"]]

/-- D5e: `remove_free_dart` asserts that the dart was not already removed -/
theorem C10_fails_unused_repeated_panics : ∃ f, LayoutOK f ∧ load 1 f = .panic :=
  ⟨fileUnusedRepeated, layoutOK_spec (by decide +kernel), eq_panic_of_isPanic (by decide +kernel)⟩

def fileUnusedRange : List Line :=
  header "3" ++ [["0", "0", "0", "0"], ["0", "0", "0", "0"], ["0", "0", "0", "0"], ["[UNUSED]"], ["4"]]

/-- D5f: an unused id `≥ n_darts` indexes the β rows out of bounds -/
theorem C10_fails_unused_out_of_range_panics : ∃ f, LayoutOK f ∧ load 1 f = .panic :=
  ⟨fileUnusedRange, layoutOK_spec (by decide +kernel), eq_panic_of_isPanic (by decide +kernel)⟩

def fileVertexRange : List Line :=
  header "3" ++ [["0", "0", "0", "0"], ["0", "0", "0", "0"], ["0", "0", "0", "0"], ["[VERTICES]"],
    ["4", "0", "0"]]

/-- D5f: a vertex id `≥ n_darts` indexes the vertex storage out of bounds -/
theorem C10_fails_vertex_out_of_range_panics : ∃ f, LayoutOK f ∧ load 1 f = .panic :=
  ⟨fileVertexRange, layoutOK_spec (by decide +kernel), eq_panic_of_isPanic (by decide +kernel)⟩

/-- dart 3 is removed and the null dart does not exist, yet both get coordinates -/
def fileVertexMissing : List Line :=
  header "3" ++ [["0", "0", "0", "0"], ["0", "0", "0", "0"], ["0", "0", "0", "0"], ["[UNUSED]"], ["3"],
    ["[VERTICES]"], ["3", "1", "1"], ["0", "2", "2"]]

/-- D5g: vertices are stored for the null dart and for a removed dart -/
theorem C10_fails_vertex_on_missing_dart :
    ∃ f m, LayoutOK f ∧ load 1 f = .ok m ∧ m.unused 3 = true ∧ (m.att 0 3).isSome = true ∧
      (m.att 0 0).isSome = true := by
  have h : loadsTo 1 fileVertexMissing
      (fun m => m.unused 3 && (m.att 0 3).isSome && (m.att 0 0).isSome) = true := by
    decide +kernel
  obtain ⟨m, hl, hp⟩ := loadsTo_spec h
  simp only [Bool.and_eq_true] at hp
  exact ⟨fileVertexMissing, m, layoutOK_spec (by decide +kernel), hl, hp.1.1, hp.1.2, hp.2⟩

/-! ## the validator of a fixed loader, and its soundness -/

/-- ids named by the `[UNUSED]` section -/
def unusedToks (cf : CFile) : List String := (cf.unused.getD []).flatten
def unusedIds (cf : CFile) : List Nat := (unusedToks cf).map fun t => (parseU32 t).getD 0

def validVertexLine (n : Nat) (ids : List Nat) (l : Line) : Bool :=
  match l with
  | [tid, tx, ty] =>
    match parseU32 tid with
    | some id => decide (id < n) && decide (id ≠ 0) && !ids.contains id &&
        (parseCoord tx).isSome && (parseCoord ty).isSome
    | none => false
  | _ => false

/-- what a validating loader checks after `CMapFile::try_from`: dimension, three β lines of
    `n_darts` numerals (null column included and null), images in range, β0/β1 inverse, β2 a
    fixed-point-free involution, unused ids in range / free / distinct, vertex lines well formed
    with ids of existing (non-null, non-removed) darts -/
def validFile (cf : CFile) : Bool :=
  let n := cf.nd + 1
  decide (cf.dim = 2) && decide (cf.betas.length = 3) &&
  (List.range 3).all (fun i => decide ((cf.betas.getD i []).length = n)) &&
  (List.range 3).all (fun i => (List.range n).all fun d => (parseU32 (rowTok cf i d)).isSome) &&
  (List.range 3).all (fun i => decide (tβ cf i 0 = 0)) &&
  (List.range 3).all (fun i => (List.range n).all fun d => decide (tβ cf i d < n)) &&
  (List.range n).all (fun d => decide ((tβ cf 1 d ≠ 0 → tβ cf 0 (tβ cf 1 d) = d) ∧
    (tβ cf 0 d ≠ 0 → tβ cf 1 (tβ cf 0 d) = d))) &&
  (List.range n).all (fun d => decide (tβ cf 2 d ≠ 0 → tβ cf 2 (tβ cf 2 d) = d ∧ tβ cf 2 d ≠ d)) &&
  (unusedToks cf).all (fun t => (parseU32 t).isSome) &&
  (unusedIds cf).all (fun d => decide (d < n) && decide (tβ cf 0 d = 0) && decide (tβ cf 1 d = 0) &&
    decide (tβ cf 2 d = 0)) &&
  decide (unusedIds cf).Nodup &&
  (cf.vertices.getD []).all (validVertexLine n (unusedIds cf))

/-- **Soundness of the validator** (all sizes): a parsed file that passes `validFile` is built
    without panic or error into a well-formed 2-map whose β images and removal flags are the
    ones written in the text. -/
theorem C10_validated_load_wf (ns : Nat) (hns : 0 < ns) (cf : CFile) (hv : validFile cf = true) :
    ∃ m, build ns cf = .ok m ∧ WF 3 m ∧ m.n = cf.nd + 1 ∧
      (∀ i, i < 3 → ∀ d, d < cf.nd + 1 → m.β i d = tβ cf i d) ∧
      (∀ d, m.unused d = decide (d ∈ unusedIds cf)) := by
  unfold validFile at hv
  simp only [Bool.and_eq_true, decide_eq_true_eq, List.all_eq_true, List.mem_range] at hv
  obtain ⟨⟨⟨⟨⟨⟨⟨⟨⟨⟨⟨hdim, hlen⟩, hrow⟩, hparse⟩, hnull⟩, hrange⟩, hinv⟩, hinvol⟩, hup⟩, hufree⟩, hund⟩, hvert⟩ := hv
  -- the three β lines
  obtain ⟨l0, l1, l2, hb⟩ : ∃ l0 l1 l2, cf.betas = [l0, l1, l2] := by
    match hbs : cf.betas, hlen with
    | [a, b, c], _ => exact ⟨a, b, c, rfl⟩
  have hl0 : l0.length = cf.nd + 1 := by have := hrow 0 (by omega); rw [hb] at this; exact this
  have hl1 : l1.length = cf.nd + 1 := by have := hrow 1 (by omega); rw [hb] at this; exact this
  have hl2 : l2.length = cf.nd + 1 := by have := hrow 2 (by omega); rw [hb] at this; exact this
  have hg0 : ∀ e, l0.getD e "" = rowTok cf 0 e := fun e => by unfold rowTok; rw [hb]; rfl
  have hg1 : ∀ e, l1.getD e "" = rowTok cf 1 e := fun e => by unfold rowTok; rw [hb]; rfl
  have hg2 : ∀ e, l2.getD e "" = rowTok cf 2 e := fun e => by unfold rowTok; rw [hb]; rfl
  have hptok : ∀ i, i < 3 → ∀ e, e < cf.nd + 1 → parseU32 (rowTok cf i e) = some (tβ cf i e) := by
    intro i hi e he
    have := hparse i hi e he
    unfold tβ
    cases hp : parseU32 (rowTok cf i e) with
    | none => rw [hp] at this; cases this
    | some v => rfl
  -- stage 1
  have hsz0 : Sized 3 (Map.empty 3 ns (cf.nd + 1) : Map Val) := sized_empty ns _ (by omega)
  obtain ⟨m1, hrun1, hs1, hn1, hu1, ha1, hβ1⟩ :=
    betasLoop_ok (rowTok cf) (tβ cf) cf.nd 1 (Map.empty 3 ns (cf.nd + 1)) hsz0
      (by show 1 + cf.nd ≤ cf.nd + 1; omega)
      (fun i hi e _ he => hptok i hi e (by omega))
  have hn1' : m1.n = cf.nd + 1 := hn1
  have hβ1' : ∀ i, i < 3 → ∀ d, d < cf.nd + 1 → m1.β i d = tβ cf i d := by
    intro i hi d hd
    rw [hβ1 i d]
    by_cases h0 : d = 0
    · subst h0
      simp [β_empty, hnull i hi]
    · have : i < 3 ∧ 1 ≤ d ∧ d < 1 + cf.nd := by omega
      simp [this]
  have hr1 : betasLoop 1 (l0.drop 1) (l1.drop 1) (l2.drop 1) (Map.empty 3 ns (cf.nd + 1)) = .ok m1 := by
    rw [drop1_eq_map l0, drop1_eq_map l1, drop1_eq_map l2, hl0, hl1, hl2]
    simp only [Nat.add_sub_cancel, hg0, hg1, hg2]
    exact hrun1
  -- stage 2
  have hun1 : ∀ d, m1.unused d = false := by
    intro d
    show rd m1.u d = false
    rw [hu1]; exact unused_empty _ _ _
  obtain ⟨m2, hrun2, hs2, hn2, hb2, ha2, hu2⟩ :=
    unusedLoop_ok (unusedToks cf) (unusedIds cf) m1 (parsed_of_all _ hup) hund hs1
      (fun d hd => by
        obtain ⟨⟨⟨hdn, f0⟩, f1⟩, f2⟩ := hufree d hd
        refine ⟨by rw [hn1']; exact hdn, ?_, hun1 d⟩
        rw [isFree3, hβ1' 0 (by omega) d hdn, hβ1' 1 (by omega) d hdn, hβ1' 2 (by omega) d hdn,
          f0, f1, f2]
        rfl)
  -- stage 3
  have ha0 : 0 < m2.a.size := by rw [ha2, ha1, size_a_empty]; exact hns
  obtain ⟨m3, hrun3⟩ := verticesLoop_succeeds (cf.vertices.getD []) m2 hs2 ha0 (by
    intro l hl
    have hvl := hvert l hl
    unfold validVertexLine at hvl
    match l, hvl with
    | [tid, tx, ty], hvl =>
      simp only at hvl
      cases hp : parseU32 tid with
      | none => rw [hp] at hvl; cases hvl
      | some id =>
        rw [hp] at hvl
        simp only [Bool.and_eq_true, decide_eq_true_eq] at hvl
        obtain ⟨⟨⟨⟨hid, _⟩, _⟩, hx⟩, hy⟩ := hvl
        obtain ⟨x, hx⟩ := Option.isSome_iff_exists.mp hx
        obtain ⟨y, hy⟩ := Option.isSome_iff_exists.mp hy
        exact ⟨tid, tx, ty, id, x, y, rfl, hp, hx, hy, by rw [hn2, hn1']; exact hid⟩)
  obtain ⟨hs3, hn3, hb3, hu3⟩ := verticesLoop_frame _ _ _ hs2 hrun3
  have hn3' : m3.n = cf.nd + 1 := hn3.trans (hn2.trans hn1')
  have hβ3 : ∀ i d, m3.β i d = m1.β i d := by
    intro i d
    show rd (rd m3.b i) d = rd (rd m1.b i) d
    rw [hb3, hb2]
  have hβ : ∀ i, i < 3 → ∀ d, d < cf.nd + 1 → m3.β i d = tβ cf i d :=
    fun i hi d hd => (hβ3 i d).trans (hβ1' i hi d hd)
  have hun3 : ∀ d, m3.unused d = decide (d ∈ unusedIds cf) := by
    intro d
    show rd m3.u d = _
    rw [hu3]
    show m2.unused d = _
    rw [hu2 d, hun1 d, Bool.false_or]
  refine ⟨m3, build_of_stages hdim hb hl0 hl1 hl2 hr1 hrun2 hrun3, ⟨hs3, ?_⟩, hn3', hβ, hun3⟩
  -- WFβ from the validated table
  constructor
  · intro i hi
    rw [hβ i hi 0 (by omega)]; exact hnull i hi
  · intro i hi d hd
    rw [hn3'] at hd ⊢
    rw [hβ i hi d hd]; exact hrange i hi d hd
  · intro d hd h
    rw [hn3'] at hd
    rw [hβ 1 (by omega) d hd] at h ⊢
    rw [hβ 0 (by omega) _ (hrange 1 (by omega) d hd)]
    exact (hinv d hd).1 h
  · intro d hd h
    rw [hn3'] at hd
    rw [hβ 0 (by omega) d hd] at h ⊢
    rw [hβ 1 (by omega) _ (hrange 0 (by omega) d hd)]
    exact (hinv d hd).2 h
  · intro i hi h2 d hd h
    have hi2 : i = 2 := by omega
    subst hi2
    rw [hn3'] at hd
    rw [hβ 2 (by omega) d hd] at h ⊢
    rw [hβ 2 (by omega) _ (hrange 2 (by omega) d hd)]
    exact hinvol d hd h
  · intro d hd hu i hi
    rw [hn3'] at hd
    rw [hun3 d] at hu
    have hmem : d ∈ unusedIds cf := by simpa using hu
    obtain ⟨⟨⟨_, f0⟩, f1⟩, f2⟩ := hufree d hmem
    rw [hβ i hi d hd]
    have : i = 0 ∨ i = 1 ∨ i = 2 := by omega
    rcases this with rfl | rfl | rfl
    · exact f0
    · exact f1
    · exact f2

/-- the same through `load`: accepted layout + validator ⇒ well-formed map, never `panic`/`err` -/
theorem C10_validated_load (ns : Nat) (hns : 0 < ns) (f : List Line) (cf : CFile)
    (hp : parseFile f = .ok cf) (hv : validFile cf = true) :
    ∃ m, load ns f = .ok m ∧ WF 3 m ∧ m.n = cf.nd + 1 ∧
      (∀ i, i < 3 → ∀ d, d < cf.nd + 1 → m.β i d = tβ cf i d) ∧
      (∀ d, m.unused d = decide (d ∈ unusedIds cf)) := by
  obtain ⟨m, hb, r⟩ := C10_validated_load_wf ns hns cf hv
  exact ⟨m, by unfold load; rw [hp]; exact hb, r⟩

/-- every negation witness above is rejected by the validator (the extra hypothesis of the
    partial theorem excludes exactly the findings) -/
theorem C10_witnesses_rejected :
    ∀ f ∈ [fileRange, fileInverse, fileBeta2, fileNull, fileUnusedLinked, fileUnusedRepeated,
      fileUnusedRange, fileVertexRange, fileVertexMissing],
      (match parseFile f with | .ok cf => validFile cf | .error _ => true) = false := by
  decide +kernel

/-! ## non-vacuity: a file with links, a β2 pair, a removed dart, comments, `+`/leading-zero
    numerals and decimal coordinates passes the validator -/

def fileGood : List Line :=
  [["#", "example"], ["[meta]"], [pkgVersion, "2"], ["5", "#", "darts"], [],
   ["[BETAS]"], ["0", "0", "1", "0", "0", "0"], ["0", "+2", "0", "0", "0", "0"], ["0", "0", "0", "04", "3", "0#x"],
   ["[VERTICES]"], ["1", "0.25", "-2"], ["3", "1e1", "-5/8"],
   ["[UNUSED]"], ["5"]]

example : ∃ cf, parseFile fileGood = .ok cf ∧ validFile cf = true := by
  have : (match parseFile fileGood with | .ok cf => validFile cf | .error _ => false) = true := by
    decide +kernel
  cases hp : parseFile fileGood with
  | ok cf => rw [hp] at this; exact ⟨cf, rfl, this⟩
  | error e => rw [hp] at this; cases this

example : ∃ m, load 1 fileGood = .ok m ∧ WF 3 m := by
  have : (match parseFile fileGood with | .ok cf => validFile cf | .error _ => false) = true := by
    decide +kernel
  cases hp : parseFile fileGood with
  | ok cf =>
    rw [hp] at this
    obtain ⟨m, h1, h2, _⟩ := C10_validated_load 1 (by decide) fileGood cf hp this
    exact ⟨m, h1, h2⟩
  | error e => rw [hp] at this; cases this

end HC.C10
