/-
  C10 — building from cmap text yields a well-formed map or an error.

  Since the loader fix 7170072 (`build_2d_from_cmap_file` validates the map it builds) the
  property HOLDS of the model of the code:

  * `C10_build_wf_or_error` / `C10_load_wf_or_error`: for EVERY parsed file `cf` (every text whose
    section layout is accepted by `parseFile`, any size), `build ns cf` is `.err _`, or `.ok m`
    with `WF 3 m` and `Agrees cf m` — the number of darts, every β image (null-dart column
    included: the token written for `β_i(d)` is a numeral denoting the stored image), the removal
    flags (exactly the ids named in `[UNUSED]`), and the vertex storage (the lines of
    `[VERTICES]` applied in order, the last line naming an id wins; every line names an existing,
    non-null, not removed dart).  `C10_load_never_panics`: `load` never returns `panic`.
  * the former negation witnesses D5a–D5g are kept as `example`s: each of those files is now
    REJECTED with `InconsistentData`.
-/
import Honeycomb.Lemmas.CmapText

namespace HC.C10
open HC HC.CmapText

/-! ## what "agrees with the text" means -/

/-- the token written for `β_i(d)` in a parsed file -/
def rowTok (cf : CFile) (i d : Nat) : String := (cf.betas.getD i []).getD d ""

/-- tokens / ids of the `[UNUSED]` section -/
def unusedToks (cf : CFile) : List String := (cf.unused.getD []).flatten
def unusedIds (cf : CFile) : List Nat := (unusedToks cf).map fun t => (parseU32 t).getD 0

structure Agrees (cf : CFile) (m : Map Val) : Prop where
  n : m.n = cf.nd + 1
  /-- every image, null-dart column included, is the one written in the text -/
  β : ∀ i, i < 3 → ∀ d, d < cf.nd + 1 → parseU32 (rowTok cf i d) = some (m.β i d)
  /-- the removed darts are exactly the ids named in `[UNUSED]` (all numerals) -/
  unusedNum : ∀ t ∈ unusedToks cf, (parseU32 t).isSome = true
  unused : ∀ d, m.unused d = decide (d ∈ unusedIds cf)
  /-- vertex storage = the `[VERTICES]` lines applied in order (last line wins) -/
  vertex : ∀ e, m.att 0 e = applyLines (cf.vertices.getD []) (fun _ => none) e
  /-- every vertex line is well formed and names an existing, non-null, not removed dart -/
  vertexLines : ∀ l ∈ cf.vertices.getD [], ∃ v, parseVertexLine l = .ok v ∧ v.1 ≠ 0 ∧ v.1 < m.n ∧
    m.unused v.1 = false

/-! ## the property -/

theorem C10_build_wf_or_error (ns : Nat) (hns : 0 < ns) (cf : CFile) :
    (∃ e, build ns cf = .err e) ∨ (∃ m, build ns cf = .ok m ∧ WF 3 m ∧ Agrees cf m) := by
  by_cases hd' : ¬ (cf.dim = 2)
  · exact .inl ⟨_, by unfold build; rw [if_pos hd']⟩
  have hd : cf.dim = 2 := Classical.not_not.mp hd'
  have hdn : ¬ cf.dim ≠ 2 := fun h => h hd
  match hb : cf.betas with
  | [] => exact .inl ⟨_, by unfold build; rw [if_neg hdn]; simp only [hb]; rfl⟩
  | [_] => exact .inl ⟨_, by unfold build; rw [if_neg hdn]; simp only [hb]; rfl⟩
  | [_, _] => exact .inl ⟨_, by unfold build; rw [if_neg hdn]; simp only [hb]; rfl⟩
  | _ :: _ :: _ :: _ :: _ => exact .inl ⟨_, by unfold build; rw [if_neg hdn]; simp only [hb]; rfl⟩
  | [l0, l1, l2] =>
    by_cases h0' : ¬ (l0.length = cf.nd + 1)
    · exact .inl ⟨_, by unfold build; rw [if_neg hdn]; simp only [hb]; rw [if_pos h0']⟩
    have h0 : l0.length = cf.nd + 1 := Classical.not_not.mp h0'
    by_cases h1' : ¬ (l1.length = cf.nd + 1)
    · exact .inl ⟨_, by
        unfold build; rw [if_neg hdn]; simp only [hb]
        rw [if_neg (fun h => h h0), if_pos h1']⟩
    have h1 : l1.length = cf.nd + 1 := Classical.not_not.mp h1'
    by_cases h2' : ¬ (l2.length = cf.nd + 1)
    · exact .inl ⟨_, by
        unfold build; rw [if_neg hdn]; simp only [hb]
        rw [if_neg (fun h => h h0), if_neg (fun h => h h1), if_pos h2']⟩
    have h2 : l2.length = cf.nd + 1 := Classical.not_not.mp h2'
    cases hr : parseRows l0 l1 l2 with
    | error e =>
      exact .inl ⟨e, by
        unfold build
        rw [if_neg hdn]
        simp only [hb]
        rw [if_neg (fun h => h h0), if_neg (fun h => h h1), if_neg (fun h => h h2)]
        simp only [hr]⟩
    | ok rows =>
      have hpre : build ns cf = buildRows ns cf rows := by
        unfold build
        rw [if_neg hdn]
        simp only [hb]
        rw [if_neg (fun h => h h0), if_neg (fun h => h h1), if_neg (fun h => h h2)]
        simp only [hr]
      rw [hpre]
      unfold buildRows
      by_cases hnull' : ¬ (nullOK (tbl rows) = true)
      · exact .inl ⟨errInconsistent 4, by simp [hnull']⟩
      have hnull : nullOK (tbl rows) = true := Classical.not_not.mp hnull'
      by_cases hrange' : ¬ (rangeOK (tbl rows) (cf.nd + 1) = true)
      · exact .inl ⟨errInconsistent 5, by simp [hnull, hrange']⟩
      have hrange : rangeOK (tbl rows) (cf.nd + 1) = true := Classical.not_not.mp hrange'
      simp only [hnull, hrange, Bool.not_true, Bool.false_eq_true, if_false]
      cases hchk : (List.range' 1 cf.nd).findSome? (dartCheck (tbl rows)) with
      | some e => exact .inl ⟨e, rfl⟩
      | none =>
        simp only
        unfold buildMap
        -- the table and what the checks say about it
        let T := tbl rows
        have hinv := parseRows_inv l0 l1 l2 rows hr (h0.trans h1.symm) (h1.trans h2.symm)
        have hg0 : ∀ e, rowTok cf 0 e = l0.getD e "" := fun e => by unfold rowTok; rw [hb]; rfl
        have hg1 : ∀ e, rowTok cf 1 e = l1.getD e "" := fun e => by unfold rowTok; rw [hb]; rfl
        have hg2 : ∀ e, rowTok cf 2 e = l2.getD e "" := fun e => by unfold rowTok; rw [hb]; rfl
        have htok : ∀ i, i < 3 → ∀ e, e < cf.nd + 1 → parseU32 (rowTok cf i e) = some (T i e) := by
          intro i hi e he
          obtain ⟨a, b, c⟩ := hinv e (by rw [h0]; exact he)
          match i, hi with
          | 0, _ => rw [hg0]; exact a
          | 1, _ => rw [hg1]; exact b
          | 2, _ => rw [hg2]; exact c
        have hT0 : ∀ i, i < 3 → T i 0 = 0 := by
          intro i hi
          unfold nullOK at hnull
          simp only [Bool.and_eq_true, decide_eq_true_eq] at hnull
          match i, hi with
          | 0, _ => exact hnull.1.1
          | 1, _ => exact hnull.1.2
          | 2, _ => exact hnull.2
        have hTr : ∀ i, i < 3 → ∀ d, d < cf.nd + 1 → T i d < cf.nd + 1 := by
          intro i hi d hd'
          unfold rangeOK at hrange
          have := List.all_eq_true.mp hrange d (List.mem_range.mpr hd')
          simp only [Bool.and_eq_true, decide_eq_true_eq] at this
          match i, hi with
          | 0, _ => exact this.1.1
          | 1, _ => exact this.1.2
          | 2, _ => exact this.2
        have hTc : ∀ d, 1 ≤ d → d < cf.nd + 1 → dartCheck T d = none := by
          intro d hd1 hd2
          exact (List.findSome?_eq_none_iff.mp hchk) d (List.mem_range'_1.mpr ⟨hd1, by omega⟩)
        have hTinv : ∀ d, d < cf.nd + 1 → (T 1 d ≠ 0 → T 0 (T 1 d) = d) ∧ (T 0 d ≠ 0 → T 1 (T 0 d) = d) ∧
            (T 2 d ≠ 0 → T 2 (T 2 d) = d ∧ T 2 d ≠ d) := by
          intro d hd'
          by_cases hz : d = 0
          · subst hz
            rw [hT0 0 (by omega), hT0 1 (by omega), hT0 2 (by omega)]
            exact ⟨fun h => absurd rfl h, fun h => absurd rfl h, fun h => absurd rfl h⟩
          · have hc := hTc d (by omega) hd'
            unfold dartCheck at hc
            split at hc
            · cases hc
            · rename_i c1
              split at hc
              · cases hc
              · rename_i c2
                refine ⟨fun h => ?_, fun h => ?_, fun h => ?_⟩
                · exact Classical.byContradiction fun hn => c1 (.inl ⟨h, hn⟩)
                · exact Classical.byContradiction fun hn => c1 (.inr ⟨h, hn⟩)
                · constructor
                  · exact Classical.byContradiction fun hn => c2 ⟨h, .inl hn⟩
                  · exact fun hn => c2 ⟨h, .inr hn⟩
        -- the β loop always succeeds
        have hsz0 : Sized 3 (Map.empty 3 ns (cf.nd + 1) : Map Val) := sized_empty ns _ (by omega)
        obtain ⟨m1, hrun1, hs1, hn1, hu1, ha1, hβ1⟩ :=
          setLoop_ok T cf.nd 1 (Map.empty 3 ns (cf.nd + 1)) hsz0 (by show 1 + cf.nd ≤ cf.nd + 1; omega)
        have hn1' : m1.n = cf.nd + 1 := hn1
        have hβ1' : ∀ i, i < 3 → ∀ d, d < cf.nd + 1 → m1.β i d = T i d := by
          intro i hi d hd'
          rw [hβ1 i d]
          by_cases hz : d = 0
          · subst hz
            simp [β_empty, hT0 i hi]
          · have : i < 3 ∧ 1 ≤ d ∧ d < 1 + cf.nd := by omega
            simp [this]
        have hun1 : ∀ d, m1.unused d = false := by
          intro d
          show rd m1.u d = false
          rw [hu1]; exact unused_empty _ _ _
        have hatt1 : ∀ s e, m1.att s e = none := by
          intro s e
          show rd (rd m1.a s) e = none
          rw [ha1]; exact att_empty _ _ _ _
        rw [show setLoop (tbl rows) (List.range' 1 cf.nd) (Map.empty 3 ns (cf.nd + 1)) = .ok m1 from hrun1]
        simp only
        -- the unused loop: error or success, never panic
        rcases unusedLoop_total ((cf.unused.getD []).flatten) m1 hs1 with
          ⟨e, he⟩ | ⟨m2, hrun2, hs2, hn2, hb2, ha2, hfl2, hfr2, hnum2⟩
        · exact .inl ⟨e, by rw [he]⟩
        rw [hrun2]
        simp only
        have ha0 : 0 < m2.a.size := by rw [ha2, ha1, size_a_empty]; exact hns
        rcases verticesLoop_total (cf.vertices.getD []) m2 hs2 ha0 with
          ⟨e, he⟩ | ⟨m3, hrun3, hs3, _, hn3, hb3, hu3, hatt3, _, hall3⟩
        · exact .inl ⟨e, he⟩
        refine .inr ⟨m3, hrun3, ?_, ?_⟩
        · -- WF
          have hn3' : m3.n = cf.nd + 1 := hn3.trans (hn2.trans hn1')
          have hβ : ∀ i, i < 3 → ∀ d, d < cf.nd + 1 → m3.β i d = T i d := by
            intro i hi d hd'
            show rd (rd m3.b i) d = _
            rw [hb3, hb2]
            exact hβ1' i hi d hd'
          refine ⟨hs3, ?_⟩
          constructor
          · intro i hi
            rw [hβ i hi 0 (by omega)]; exact hT0 i hi
          · intro i hi d hd'
            rw [hn3'] at hd' ⊢
            rw [hβ i hi d hd']; exact hTr i hi d hd'
          · intro d hd' h
            rw [hn3'] at hd'
            rw [hβ 1 (by omega) d hd'] at h ⊢
            rw [hβ 0 (by omega) _ (hTr 1 (by omega) d hd')]
            exact (hTinv d hd').1 h
          · intro d hd' h
            rw [hn3'] at hd'
            rw [hβ 0 (by omega) d hd'] at h ⊢
            rw [hβ 1 (by omega) _ (hTr 0 (by omega) d hd')]
            exact (hTinv d hd').2.1 h
          · intro i hi h2' d hd' h
            have hi2 : i = 2 := by omega
            subst hi2
            rw [hn3'] at hd'
            rw [hβ 2 (by omega) d hd'] at h ⊢
            rw [hβ 2 (by omega) _ (hTr 2 (by omega) d hd')]
            exact (hTinv d hd').2.2 h
          · intro d hd' hu i hi
            have hu2 : m2.unused d = true := by
              have : m3.unused d = m2.unused d := by show rd m3.u d = rd m2.u d; rw [hu3]
              rw [← this]; exact hu
            rcases hfr2 d hu2 with h | ⟨_, _, hfree⟩
            · rw [hun1 d] at h; cases h
            · rw [isFree3] at hfree
              simp only [Bool.and_eq_true, decide_eq_true_eq] at hfree
              have : m3.β i d = m1.β i d := by show rd (rd m3.b i) d = rd (rd m1.b i) d; rw [hb3, hb2]
              rw [this]
              match i, hi with
              | 0, _ => exact hfree.1.1
              | 1, _ => exact hfree.1.2
              | 2, _ => exact hfree.2
        · -- Agrees
          have hn3' : m3.n = cf.nd + 1 := hn3.trans (hn2.trans hn1')
          refine ⟨hn3', ?_, hnum2, ?_, ?_, ?_⟩
          · intro i hi d hd'
            rw [htok i hi d hd']
            congr 1
            show T i d = rd (rd m3.b i) d
            rw [hb3, hb2]
            exact (hβ1' i hi d hd').symm
          · intro d
            show rd m3.u d = _
            rw [hu3]
            show m2.unused d = _
            rw [hfl2 d, hun1 d, Bool.false_or]
            rfl
          · intro e
            rw [hatt3 e]
            have : m2.att 0 = fun _ => none := by
              funext x
              show rd (rd m2.a 0) x = none
              rw [ha2]; exact hatt1 0 x
            rw [this]
          · intro l hl
            obtain ⟨v, a, b, c, d⟩ := hall3 l hl
            refine ⟨v, a, b, by rw [hn3, ]; exact c, ?_⟩
            show rd m3.u v.1 = false
            rw [hu3]; exact d

/-- **C10**: every text whose section layout is accepted is rejected with a `BuilderError` or
    built into a well-formed 2-map that agrees with the text -/
theorem C10_load_wf_or_error (ns : Nat) (hns : 0 < ns) (f : List Line) (cf : CFile)
    (hp : parseFile f = .ok cf) :
    (∃ e, load ns f = .err e) ∨ (∃ m, load ns f = .ok m ∧ WF 3 m ∧ Agrees cf m) := by
  unfold load
  rw [hp]
  exact C10_build_wf_or_error ns hns cf

/-- no text at all makes the loader panic (rejected layouts are errors of `load`; through the
    public `from_cmap_file` they are the documented panic of the section parser) -/
theorem C10_load_never_panics (ns : Nat) (hns : 0 < ns) (f : List Line) : load ns f ≠ .panic := by
  cases hp : parseFile f with
  | error e => unfold load; rw [hp]; intro h; cases h
  | ok cf =>
    rcases C10_load_wf_or_error ns hns f cf hp with ⟨e, he⟩ | ⟨m, hm, _⟩
    · rw [he]; intro h; cases h
    · rw [hm]; intro h; cases h

/-! ## the former findings D5a–D5g: every witness file is now rejected -/

def errOf : Out Err (Map Val) → Option Err
  | .err e => some e
  | _ => none

def header (n : String) : List Line := [["[META]"], [pkgVersion, "2", n], ["[BETAS]"]]

/-- D5a: β1(3) = 9 in a 3-dart file -/
def fileRange : List Line :=
  header "3" ++ [["0", "0", "1", "0"], ["0", "2", "0", "9"], ["0", "0", "0", "0"]]
example : errOf (load 1 fileRange) = some (errInconsistent 5) := by decide +kernel

/-- D5b: β1(1) = 2 but β0(2) = 0 -/
def fileInverse : List Line :=
  header "3" ++ [["0", "0", "0", "0"], ["0", "2", "0", "0"], ["0", "0", "0", "0"]]
example : errOf (load 1 fileInverse) = some (errInconsistent 6) := by decide +kernel

/-- D5c: β2(1) = 2 but β2(2) = 0 -/
def fileBeta2 : List Line :=
  header "3" ++ [["0", "0", "0", "0"], ["0", "0", "0", "0"], ["0", "2", "0", "0"]]
example : errOf (load 1 fileBeta2) = some (errInconsistent 7) := by decide +kernel

/-- D5d: the text gives the null dart the image β1(0) = 3 / a non-numeric image -/
def fileNull : List Line :=
  header "3" ++ [["0", "0", "0", "0"], ["3", "0", "0", "0"], ["0", "0", "0", "0"]]
example : errOf (load 1 fileNull) = some (errInconsistent 4) := by decide +kernel
def fileNullX : List Line :=
  header "3" ++ [["0", "0", "0", "0"], ["x", "0", "0", "0"], ["0", "0", "0", "0"]]
example : errOf (load 1 fileNullX) = some (errBadValue 1) := by decide +kernel

/-- D5e: a linked dart / a repeated id in `[UNUSED]` -/
def fileUnusedLinked : List Line :=
  header "3" ++ [["0", "0", "1", "0"], ["0", "2", "0", "0"], ["0", "0", "0", "0"], ["[UNUSED]"], ["1"]]
example : errOf (load 1 fileUnusedLinked) = some (errInconsistent 8) := by decide +kernel
def fileUnusedRepeated : List Line :=
  header "3" ++ [["0", "0", "0", "0"], ["0", "0", "0", "0"], ["0", "0", "0", "0"], ["[UNUSED]"], ["3", "3"]]
example : errOf (load 1 fileUnusedRepeated) = some (errInconsistent 8) := by decide +kernel

/-- D5f: ids `≥ n_darts` -/
def fileUnusedRange : List Line :=
  header "3" ++ [["0", "0", "0", "0"], ["0", "0", "0", "0"], ["0", "0", "0", "0"], ["[UNUSED]"], ["4"]]
example : errOf (load 1 fileUnusedRange) = some (errInconsistent 8) := by decide +kernel
def fileVertexRange : List Line :=
  header "3" ++ [["0", "0", "0", "0"], ["0", "0", "0", "0"], ["0", "0", "0", "0"], ["[VERTICES]"],
    ["4", "0", "0"]]
example : errOf (load 1 fileVertexRange) = some (errInconsistent 9) := by decide +kernel

/-- D5g: a vertex line for a removed dart / for the null dart -/
def fileVertexMissing : List Line :=
  header "3" ++ [["0", "0", "0", "0"], ["0", "0", "0", "0"], ["0", "0", "0", "0"], ["[UNUSED]"], ["3"],
    ["[VERTICES]"], ["3", "1", "1"]]
example : errOf (load 1 fileVertexMissing) = some (errInconsistent 9) := by decide +kernel
def fileVertexNull : List Line :=
  header "3" ++ [["0", "0", "0", "0"], ["0", "0", "0", "0"], ["0", "0", "0", "0"],
    ["[VERTICES]"], ["0", "2", "2"]]
example : errOf (load 1 fileVertexNull) = some (errInconsistent 9) := by decide +kernel

/-! ## non-vacuity: the `ok` branch is inhabited — a file with links, a β2 pair, a removed dart,
    comments, `+` / leading-zero numerals, decimal coordinates and a repeated vertex id loads -/

def fileGood : List Line :=
  [["#", "example"], ["[meta]"], [pkgVersion, "2"], ["5", "#", "darts"], [],
   ["[BETAS]"], ["0", "0", "1", "0", "0", "0"], ["0", "+2", "0", "0", "0", "0"], ["0", "0", "0", "04", "3", "0#x"],
   ["[VERTICES]"], ["1", "0.25", "-2"], ["3", "1e1", "-5/8"], ["1", "7", "7"],
   ["[UNUSED]"], ["5"]]

def okMap : Out Err (Map Val) → Option (Map Val)
  | .ok m => some m
  | _ => none

example : ((okMap (load 1 fileGood)).map fun m => (m.n, m.β 1 1, m.β 0 2, m.β 2 3, m.β 2 4, m.unused 5)) =
    some (6, 2, 1, 4, 3, true) := by decide +kernel

example : ((okMap (load 1 fileGood)).map fun m => (m.att 0 1, m.att 0 2)) =
    some (some (.pt 7 7 0), none) := by decide +kernel

example : ∃ cf m, parseFile fileGood = .ok cf ∧ load 1 fileGood = .ok m ∧ WF 3 m ∧ Agrees cf m := by
  have hl : (match parseFile fileGood with | .ok _ => true | .error _ => false) = true := by
    decide +kernel
  have hok : (okMap (load 1 fileGood)).isSome = true := by decide +kernel
  cases hp : parseFile fileGood with
  | error e => rw [hp] at hl; cases hl
  | ok cf =>
    rcases C10_load_wf_or_error 1 (by decide) fileGood cf hp with ⟨e, he⟩ | ⟨m, hm, hw, ha⟩
    · rw [he] at hok; cases hok
    · exact ⟨cf, m, rfl, hm, hw, ha⟩

end HC.C10
