/-
  C11 — VTK export and import preserve the mesh.

  Model: `Honeycomb/Model/Vtk.lean` (`exportPiece`, `importCells` / `importLegacy`, `roundTrip`), on the
  DATA of the legacy piece; `vtkio` is outside.

  PROVED here
  (a1) `C11_import_ok_WF`, `C11_importLegacy_ok_WF`, `C11_roundTrip_ok_WF`: for EVERY point list and
       EVERY cell list (conforming or not, any types, any indices), a map returned by the import is
       `WF 3`: the pre-sew map is a well-formed union of β1-cycles on consecutive darts, every dart of
       the sew buffer is a non-null in-use dart, two distinct keys hold distinct darts, and each
       `force_sew::<2>` is an instance of `C01.safe_twoSew2`.
  (a2) `C11_buildCells_structure`: the map before the sew phase: `1 + Σ kⱼ` darts; the j-th polygonal
       cell occupies `kⱼ` consecutive darts in a β1 cycle, all 2-free, and dart `d0ⱼ + i` carries the
       coordinates of the cell's i-th point (z dropped).
  (a4) `C11_import_faces_and_gluing`: for EVERY input, a returned map has the darts, β0 and β1 of the
       pre-sew map (one face per polygonal cell) and its 2-links only join corners whose sides run
       between the same two point indices in opposite directions (soundness of the gluing).
  (a5) `C11_import_gluing_complete`: if no directed side (pair of point indices) is used twice, a returned
       map glues EVERY pair of sides traversed in opposite directions between different point indices:
       with (a4), `β2 d = e` exactly for such pairs.
  (a3) `C11_sew_keeps_equal_coordinates`: one `force_sew::<2>` whose two vertex merges average EQUAL
       coordinates leaves exactly these coordinates at the two new vertex ids (over `Rat`
       `(a + a) / 2 = a`; the float version is an assumption of the tie).
  (b)  `C11_export_points`, `C11_export_cells`, `C11_export_walk`: the exported points are the values of
       the `iter_vertices` ids in order (z = 0); the cells are the Lines of the 2-free edge ids followed by
       one cell per face id with at least three darts in its β1-only orbit, listing the point indices
       of the vertex ids of these darts, with the type chosen by the count; on a well-formed map that
       orbit is a duplicate-free β1-walk starting at the face id.
  (d)  `C11_crack_is_sewn`: the witness of the known finding C11-crack (two 2-free sides running
       between the same two vertices in opposite directions are sewn by export + import).

  CONTINUED in Props/C11b.lean ((a6) `C11_import_conforming_ok`: the import of a conforming list is total and
  keeps every coordinate through all the sews) and Props/C11c.lean ((c1)–(c4): export in closed form, and the
  composition export → import on meshes without cracks: per-face copy, adjacency, bijection).

  NOT PROVED: see SPEC["not_proved"] of tools/props/c11.py (vtkio and float rounding are outside the model).
-/
import Honeycomb.Model.Vtk
import Honeycomb.Props.C01
import Honeycomb.Props.C03
import Honeycomb.Props.C04

set_option linter.unusedSimpArgs false
set_option linter.unusedVariables false

namespace HC.C11
open HC HC.Vtk

/-! ## generic helpers -/

theorem atomically_ok {α : Type} {p : P Val α} {m m' : Map Val} {a : α}
    (h : atomically p m = (.ok a, m')) : run p m = (.ok a, m') := by
  unfold atomically at h
  match hr : run p m with
  | (.ok b, m1) => rw [hr] at h; exact h
  | (.err e, m1) => rw [hr] at h; simp at h
  | (.retry, m1) => rw [hr] at h; simp at h
  | (.panic, m1) => rw [hr] at h; simp at h

/-- an invariant of every successful step is an invariant of a successful fold -/
theorem foldOut_inv {α σ : Type} {f : α → σ → Out Err σ} {Q : σ → Prop}
    (hf : ∀ x s s', Q s → f x s = .ok s' → Q s') :
    ∀ (l : List α) (s s' : σ), Q s → foldOut f l s = .ok s' → Q s' := by
  intro l
  induction l with
  | nil => intro s s' hq h; simp [foldOut] at h; subst h; exact hq
  | cons x xs ih =>
      intro s s' hq h
      unfold foldOut at h
      match hx : f x s with
      | .ok s1 => rw [hx] at h; exact ih s1 s' (hf x s s1 hq hx) h
      | .err e => rw [hx] at h; simp at h
      | .retry => rw [hx] at h; simp at h
      | .panic => rw [hx] at h; simp at h

/-! ## (a1) every imported map is well formed -/

/-- invariant of the cell phase and of the sew phase: a well-formed map without removed darts, and a
    buffer of non-null darts below `bound`, two entries with the same dart having the same key -/
structure Inv (bound : Nat) (st : Map Val × Buf) : Prop where
  wf : WF 3 st.1
  used : ∀ d, st.1.unused d = false
  le : bound ≤ st.1.n
  pos : ∀ e, e ∈ st.2 → e.2 ≠ 0
  lt : ∀ e, e ∈ st.2 → e.2 < bound
  inj : ∀ a, a ∈ st.2 → ∀ b, b ∈ st.2 → a.2 = b.2 → a.1 = b.1

theorem inv_empty : Inv 1 (emptyMap, ([] : Buf)) where
  wf := by decide
  used := by
    intro d
    show rd emptyMap.u d = false
    by_cases h : d < 1
    · have : d = 0 := by omega
      subst this; decide
    · exact rd_oob _ _ (by simp [emptyMap, Map.empty]; omega)
  le := by decide
  pos := by intro e he; simp at he
  lt := by intro e he; simp at he
  inj := by intro a ha; simp at ha

theorem mem_bufErase {b : Buf} {k : Nat × Nat} {e : (Nat × Nat) × Nat} (h : e ∈ bufErase b k) :
    e ∈ b ∧ e.1 ≠ k := by
  unfold bufErase at h
  rw [List.mem_filter] at h
  exact ⟨h.1, by simpa using h.2⟩

theorem mem_bufInsert {b : Buf} {k : Nat × Nat} {d : Nat} {e : (Nat × Nat) × Nat}
    (h : e ∈ bufInsert b k d) : (e ∈ b ∧ e.1 ≠ k) ∨ e = (k, d) := by
  unfold bufInsert at h
  rw [List.mem_append] at h
  rcases h with h | h
  · rw [List.mem_filter] at h
    exact Or.inl ⟨h.1, by simpa using h.2⟩
  · exact Or.inr (by simpa using h)

theorem bufMin_mem : ∀ {b : Buf} {e : (Nat × Nat) × Nat}, bufMin b = some e → e ∈ b := by
  intro b
  induction b with
  | nil => intro e h; simp [bufMin] at h
  | cons x xs ih =>
      intro e h
      unfold bufMin at h
      match hm : bufMin xs with
      | none => rw [hm] at h; simp at h; subst h; exact List.mem_cons_self
      | some f =>
          rw [hm] at h
          simp only at h
          split at h
          · simp at h; subst h; exact List.mem_cons_of_mem _ (ih hm)
          · simp at h; subst h; exact List.mem_cons_self

theorem bufFind_mem {b : Buf} {k : Nat × Nat} {d : Nat} (h : bufFind b k = some d) :
    ∃ e, e ∈ b ∧ e.1 = k ∧ e.2 = d := by
  unfold bufFind at h
  match hf : b.find? (fun e => e.1 = k) with
  | some e =>
      rw [hf] at h
      simp at h
      exact ⟨e, List.mem_of_find?_eq_some hf, by simpa using List.find?_some hf, h⟩
  | none => rw [hf] at h; simp at h

/-- the darts are unchanged (count and removal flags) -/
def SameDarts (m m' : Map Val) : Prop := m'.n = m.n ∧ m'.u = m.u

theorem SameDarts.unused {m m' : Map Val} (h : SameDarts m m') (d : Nat) : m'.unused d = m.unused d := by
  unfold Map.unused; rw [h.2]

theorem sameDarts_of_sameTopo {m m' : Map Val} (h : SameTopo m m') : SameDarts m m' := ⟨h.n, h.u⟩

theorem readOnly_rA' (s d : Nat) : ReadOnly (rA s d : P Val (Option Val)) := ReadOnly.rA s d

theorem attrOnly_writeVtx (id : Nat) (v : Val) : AttrOnly (writeVtx id v) := by
  unfold writeVtx
  refine AttrOnly.bind (AttrOnly.of_readOnly (ReadOnly.rA _ _)) fun old => ?_
  exact AttrOnly.bind (AttrOnly.wA _ _ _) fun _ => AttrOnly.pure _

theorem inUse_of {bound : Nat} {st : Map Val × Buf} (h : Inv bound st) {d : Nat} (h0 : d ≠ 0)
    (hd : d < st.1.n) : C01.InUse st.1 d := ⟨h0, hd, h.used d⟩

/-- the 1-link of a corner -/
theorem link1_step {m m' : Map Val} {l r : Nat} {u : Unit} (hwf : WF 3 m) (hl : C01.InUse m l)
    (hr : C01.InUse m r) (h : atomically (oneLinkCore (X := Val) l r) m = (.ok u, m')) :
    WF 3 m' ∧ SameDarts m m' := by
  have hrun := atomically_ok h
  refine ⟨C01.safe_oneLinkCore l r m m' u hwf ⟨hl, hr⟩ hrun, ?_⟩
  obtain ⟨_, _, _, _, rfl⟩ := oneLinkCore_ok hrun
  exact ⟨rfl, rfl⟩

/-- the 2-sew of the sew phase -/
theorem sew2_step {cfg : Cfg Val} {m m' : Map Val} {l r : Nat} {u : Unit} (hwf : WF 3 m)
    (hl : C01.InUse m l) (hr : C01.InUse m r) (hne : l ≠ r)
    (h : atomically (twoSew2 cfg m.n l r) m = (.ok u, m')) : WF 3 m' ∧ SameDarts m m' := by
  have hrun := atomically_ok h
  refine ⟨C01.safe_twoSew2 cfg m.n l r m m' u hwf ⟨hl, hr, hne⟩ hrun, ?_⟩
  obtain ⟨m1, h1, st⟩ := C04.C04_twoSew2_topology cfg m.n l r m m' u hrun
  obtain ⟨_, _, _, _, rfl⟩ := iLinkCore_ok h1
  exact ⟨st.n, st.u⟩

theorem vtx_step {m m' : Map Val} {id : Nat} {v : Val} {o : Option Val} (hwf : WF 3 m)
    (h : atomically (writeVtx id v) m = (.ok o, m')) : WF 3 m' ∧ SameDarts m m' := by
  have hrun := atomically_ok h
  have st := C04.AttrOnly.run_ok (attrOnly_writeVtx id v) hrun
  exact ⟨hwf.sameTopo st, sameDarts_of_sameTopo st⟩

/-- one corner: the new dart `d0 + i` enters the buffer -/
theorem corner_inv {pts : List Val} {vids : List Nat} {d0 i : Nat} {st st' : Map Val × Buf}
    (hd0 : d0 ≠ 0) (hi : i < vids.length) (hn : d0 + vids.length ≤ st.1.n)
    (h : Inv (d0 + i) st) (hc : corner pts vids d0 i st = .ok st') :
    Inv (d0 + (i + 1)) st' ∧ st'.1.n = st.1.n := by
  unfold corner at hc
  simp only at hc
  split at hc
  · simp at hc
  · rename_i p hp
    split at hc
    · rename_i o m1 hw
      obtain ⟨wf1, sd1⟩ := vtx_step h.wf hw
      have used1 : ∀ d, m1.unused d = false := fun d => by rw [sd1.unused]; exact h.used d
      split at hc
      · rename_i u m2 hl
        have hdi : C01.InUse m1 (d0 + i) := ⟨by omega, by rw [sd1.1]; omega, used1 _⟩
        have hdn : C01.InUse m1 (if i = vids.length - 1 then d0 else d0 + i + 1) := by
          refine ⟨?_, ?_, used1 _⟩
          · split <;> omega
          · rw [sd1.1]; split <;> omega
        obtain ⟨wf2, sd2⟩ := link1_step wf1 hdi hdn hl
        simp only [Out.ok.injEq] at hc
        subst hc
        have hn2 : m2.n = st.1.n := by rw [sd2.1, sd1.1]
        refine ⟨⟨wf2, fun d => by rw [sd2.unused]; exact used1 d, by rw [hn2]; omega, ?_, ?_, ?_⟩, hn2⟩
        · intro e he
          rcases mem_bufInsert he with ⟨h1, _⟩ | rfl
          · exact h.pos e h1
          · show d0 + i ≠ 0; omega
        · intro e he
          rcases mem_bufInsert he with ⟨h1, _⟩ | rfl
          · have := h.lt e h1; omega
          · show d0 + i < d0 + (i + 1); omega
        · intro a ha b hb hab
          rcases mem_bufInsert ha with ⟨h1, _⟩ | rfl
          · rcases mem_bufInsert hb with ⟨h2, _⟩ | rfl
            · exact h.inj a h1 b h2 hab
            · exfalso; have := h.lt a h1; simp only at hab; omega
          · rcases mem_bufInsert hb with ⟨h2, _⟩ | rfl
            · exfalso; have := h.lt b h2; simp only at hab; omega
            · rfl
      · simp at hc
    · simp at hc

/-- the corners `s, s+1, …, s+len-1` -/
theorem corners_inv {pts : List Val} {vids : List Nat} {d0 : Nat} (hd0 : d0 ≠ 0) :
    ∀ (len s : Nat) (st st' : Map Val × Buf), s + len = vids.length → d0 + vids.length ≤ st.1.n →
      Inv (d0 + s) st → foldOut (corner pts vids d0) (List.range' s len) st = .ok st' →
      Inv (d0 + vids.length) st' ∧ st'.1.n = st.1.n := by
  intro len
  induction len with
  | zero =>
      intro s st st' hs hn h hf
      simp [foldOut] at hf
      subst hf
      have : s = vids.length := by omega
      subst this
      exact ⟨h, rfl⟩
  | succ len ih =>
      intro s st st' hs hn h hf
      rw [List.range'_succ] at hf
      unfold foldOut at hf
      match hx : corner pts vids d0 s st with
      | .ok s1 =>
          rw [hx] at hf
          obtain ⟨h1, n1⟩ := corner_inv hd0 (by omega) hn h hx
          obtain ⟨h2, n2⟩ := ih (s + 1) s1 st' (by omega) (by rw [n1]; exact hn) h1 hf
          exact ⟨h2, by rw [n2, n1]⟩
      | .err e => rw [hx] at hf; simp at hf
      | .retry => rw [hx] at hf; simp at hf
      | .panic => rw [hx] at hf; simp at hf

theorem addFreeDarts_used {m : Map Val} (hwf : WF 3 m) (hu : ∀ d, m.unused d = false) (k : Nat) :
    ∀ d, (m.addFreeDarts k).2.unused d = false := by
  intro d
  by_cases hd : d < m.n + k
  · rw [addFreeDarts_unused hwf.toSized k d]
    split
    · exact hu d
    · rfl
  · show rd (m.addFreeDarts k).2.u d = false
    refine rd_oob _ _ ?_
    have := (hwf.toSized.addFreeDarts k).usz
    rw [this, addFreeDarts_n]; omega

theorem buildFace_inv {pts : List Val} {vids : List Nat} {st st' : Map Val × Buf}
    (h : Inv st.1.n st) (hb : buildFace pts vids st = .ok st') : Inv st'.1.n st' := by
  unfold buildFace at hb
  simp only at hb
  rw [List.range_eq_range'] at hb
  have hpos : st.1.n ≠ 0 := by have := h.wf.npos; omega
  have h0 : Inv (st.1.n + 0) ((st.1.addFreeDarts vids.length).2, st.2) :=
    { wf := h.wf.addFreeDarts (by omega) _
      used := addFreeDarts_used h.wf h.used _
      le := by show st.1.n + 0 ≤ st.1.n + vids.length; omega
      pos := h.pos
      lt := fun e he => by have := h.lt e he; omega
      inj := h.inj }
  obtain ⟨h1, n1⟩ := corners_inv (pts := pts) (vids := vids) (d0 := st.1.n) hpos vids.length 0 _ st'
    (by omega) (by show st.1.n + vids.length ≤ st.1.n + vids.length; omega) h0 hb
  have : st'.1.n = st.1.n + vids.length := n1
  rw [this]; exact h1

theorem cellStep_inv {pts : List Val} {c : VCell} {st st' : Map Val × Buf}
    (h : Inv st.1.n st) (hc : cellStep pts c st = .ok st') : Inv st'.1.n st' := by
  unfold cellStep at hc
  split at hc
  all_goals first
    | (simp at hc; done)
    | (split at hc
       · simp at hc
       · first
         | (simp only [Out.ok.injEq] at hc; subst hc; exact h)
         | exact buildFace_inv h hc)
    | exact buildFace_inv h hc

theorem buildCells_inv {pts : List Val} {cells : List VCell} {st : Map Val × Buf}
    (h : buildCells pts cells = .ok st) : Inv st.1.n st := by
  unfold buildCells at h
  exact foldOut_inv (Q := fun s => Inv s.1.n s) (fun x s s' hq hx => cellStep_inv hq hx) cells _ st
    inv_empty h

/-- the sew phase keeps the invariant, whatever the keys -/
theorem sewLoop_inv : ∀ (fuel : Nat) (buf : Buf) (m m' : Map Val), Inv m.n (m, buf) →
    sewLoop fuel buf m = .ok m' → WF 3 m' := by
  intro fuel
  induction fuel with
  | zero => intro buf m m' _ h; simp [sewLoop] at h
  | succ f ih =>
      intro buf m m' h hs
      unfold sewLoop at hs
      split at hs
      · simp at hs; subst hs; exact h.wf
      · rename_i e he
        have hem := bufMin_mem he
        simp only at hs
        split at hs
        · -- no opposite side
          refine ih _ m m' ?_ hs
          exact { wf := h.wf, used := h.used, le := h.le
                  pos := fun x hx => h.pos x (mem_bufErase hx).1
                  lt := fun x hx => h.lt x (mem_bufErase hx).1
                  inj := fun a ha b hb => h.inj a (mem_bufErase ha).1 b (mem_bufErase hb).1 }
        · rename_i d1 hf
          obtain ⟨e1, he1, hk1, hd1⟩ := bufFind_mem hf
          obtain ⟨he1b, hne1⟩ := mem_bufErase he1
          have hne : e.2 ≠ d1 := by
            intro heq
            exact hne1 (h.inj e1 he1b e hem (by rw [hd1, heq]))
          have hl : C01.InUse m e.2 := ⟨h.pos e hem, h.lt e hem, h.used _⟩
          have hr : C01.InUse m d1 := by
            rw [← hd1]; exact ⟨h.pos e1 he1b, h.lt e1 he1b, h.used _⟩
          split at hs
          · rename_i u m2 hsew
            obtain ⟨wf2, sd2⟩ := sew2_step h.wf hl hr hne hsew
            refine ih _ m2 m' ?_ hs
            exact { wf := wf2, used := fun d => by rw [sd2.unused]; exact h.used d, le := Nat.le_refl _
                    pos := fun x hx => h.pos x (mem_bufErase (mem_bufErase hx).1).1
                    lt := fun x hx => by rw [sd2.1]; exact h.lt x (mem_bufErase (mem_bufErase hx).1).1
                    inj := fun a ha b hb => h.inj a (mem_bufErase (mem_bufErase ha).1).1 b
                      (mem_bufErase (mem_bufErase hb).1).1 }
          · simp at hs

/-- **C11 (a1)**: whatever the points, the cells (conforming or not) and the requested attributes, a
    map returned by `build_2d_from_vtk` is well formed -/
theorem C11_import_ok_WF (pts : List Val) (cells : List VCell) (mask : Nat) (m : Map Val)
    (h : importCells pts cells mask = .ok m) : WF 3 m := by
  unfold importCells at h
  match hb : buildCells pts cells with
  | .ok (m0, buf) =>
      rw [hb] at h
      exact sewLoop_inv _ buf m0 m (buildCells_inv hb) h
  | .err e => rw [hb] at h; simp at h
  | .retry => rw [hb] at h; simp at h
  | .panic => rw [hb] at h; simp at h

/-- the same on the raw legacy description (any `num_cells`, flat list and type list) -/
theorem C11_importLegacy_ok_WF (pts : List Val) (nc : Nat) (verts types : List Nat) (mask : Nat)
    (m : Map Val) (h : importLegacy pts nc verts types mask = .ok m) : WF 3 m := by
  unfold importLegacy at h
  split at h
  · simp at h
  · simp only at h
    split at h
    · simp at h
    · exact C11_import_ok_WF _ _ _ _ h

/-- export followed by import never yields a malformed map (for ANY source map, well formed or not) -/
theorem C11_roundTrip_ok_WF (m m' : Map Val) (h : roundTrip m = .ok m') : WF 3 m' := by
  unfold roundTrip at h
  split at h
  · exact C11_importLegacy_ok_WF _ _ _ _ _ _ h
  all_goals simp at h

/-! ## (a2) the map before the sew phase -/

theorem run_writeVtx_ok {id : Nat} {v : Val} {o : Option Val} {m m' : Map Val}
    (h : run (writeVtx id v) m = (.ok o, m')) : m.okA 0 id = true ∧ m' = m.setA 0 id (some v) := by
  unfold writeVtx at h
  simp only [Prog.bind_eq, bind, run_rA] at h
  by_cases h1 : m.okA 0 id = true
  · simp only [h1, if_true, run_wA, Prog.pure_eq, run_ret, Prod.mk.injEq] at h
    exact ⟨h1, h.2.symm⟩
  · simp [h1] at h

/-- the successor of corner `i` in a cell of `k` corners starting at `d0` -/
theorem next_eq (d0 i k : Nat) (hi : i < k) :
    (if i = k - 1 then d0 else d0 + i + 1) = d0 + (i + 1) % k := by
  split
  · rename_i h
    have : i + 1 = k := by omega
    rw [this, Nat.mod_self]; rfl
  · rename_i h
    rw [Nat.mod_eq_of_lt (by omega)]; omega

/-- what one corner writes -/
theorem corner_effect {fp : List Val} {vids : List Nat} {d0 i : Nat} {st st' : Map Val × Buf}
    (hc : corner fp vids d0 i st = .ok st') :
    ∃ p, fp[vids.getD i 0]? = some p ∧ st'.1.n = st.1.n ∧
      (∀ j d, st'.1.β j d =
        if j = 0 ∧ d = (if i = vids.length - 1 then d0 else d0 + i + 1) then d0 + i
        else if j = 1 ∧ d = d0 + i then (if i = vids.length - 1 then d0 else d0 + i + 1)
        else st.1.β j d) ∧
      (∀ d, st'.1.att 0 d = if d = d0 + i then some p else st.1.att 0 d) := by
  unfold corner at hc
  simp only at hc
  split at hc
  · simp at hc
  · rename_i p hp
    split at hc
    · rename_i o m1 hw
      obtain ⟨ok1, rfl⟩ := run_writeVtx_ok (atomically_ok hw)
      split at hc
      · rename_i u m2 hl
        obtain ⟨ob1, ob0, _, _, rfl⟩ := oneLinkCore_ok (atomically_ok hl)
        simp only [Out.ok.injEq] at hc
        subst hc
        refine ⟨p, hp, rfl, ?_, ?_⟩
        · intro j d
          simp only [Map.β_setβ, Map.okβ_setβ, ob1, ob0, Map.β_setA, and_true]
          by_cases c1 : j = 0 ∧ d = (if i = vids.length - 1 then d0 else d0 + i + 1)
          · obtain ⟨rfl, rfl⟩ := c1
            simp
          · have c1' : ¬ (0 = j ∧ (if i = vids.length - 1 then d0 else d0 + i + 1) = d) := by
              intro hh; exact c1 ⟨hh.1.symm, hh.2.symm⟩
            rw [if_neg c1', if_neg c1]
            by_cases c2 : j = 1 ∧ d = d0 + i
            · obtain ⟨rfl, rfl⟩ := c2
              simp
            · have c2' : ¬ (1 = j ∧ d0 + i = d) := by
                intro hh; exact c2 ⟨hh.1.symm, hh.2.symm⟩
              rw [if_neg c2', if_neg c2]
        · intro d
          show ((st.1.setA 0 (d0 + i) (some p)).att 0 d) = _
          rw [Map.att_setA]
          by_cases c : d = d0 + i
          · subst c; simp [ok1]
          · have c' : ¬ (0 = 0 ∧ d0 + i = d ∧ st.1.okA 0 (d0 + i) = true) := by
              intro hh; exact c hh.2.1.symm
            rw [if_neg c', if_neg c]
      · simp at hc
    · simp at hc

/-- state of a cell under construction: corners `< s` done, nothing below `d0` touched, no β2 -/
structure Partial (fp : List Val) (vids : List Nat) (d0 s : Nat) (m0 m : Map Val) : Prop where
  n : m.n = m0.n
  frame : ∀ d, d < d0 → (∀ j, m.β j d = m0.β j d) ∧ m.att 0 d = m0.att 0 d
  b2 : (∀ d, m0.β 2 d = 0) → ∀ d, m.β 2 d = 0
  done : ∀ i, i < s → m.β 1 (d0 + i) = d0 + (i + 1) % vids.length ∧
    ∃ p, fp[vids.getD i 0]? = some p ∧ m.att 0 (d0 + i) = some p

theorem corners_spec {fp : List Val} {vids : List Nat} {d0 : Nat} {m0 : Map Val} :
    ∀ (len s : Nat) (st st' : Map Val × Buf), s + len = vids.length →
      Partial fp vids d0 s m0 st.1 → foldOut (corner fp vids d0) (List.range' s len) st = .ok st' →
      Partial fp vids d0 vids.length m0 st'.1 := by
  intro len
  induction len with
  | zero =>
      intro s st st' hs h hf
      simp [foldOut] at hf
      subst hf
      have : s = vids.length := by omega
      subst this
      exact h
  | succ len ih =>
      intro s st st' hs h hf
      rw [List.range'_succ] at hf
      unfold foldOut at hf
      match hx : corner fp vids d0 s st with
      | .ok s1 =>
          rw [hx] at hf
          refine ih (s + 1) s1 st' (by omega) ?_ hf
          obtain ⟨p, hp, hn, hβ, hatt⟩ := corner_effect hx
          have hslt : s < vids.length := by omega
          have hnext := next_eq d0 s vids.length hslt
          refine ⟨by rw [hn, h.n], ?_, ?_, ?_⟩
          · intro d hd
            refine ⟨fun j => ?_, ?_⟩
            · rw [hβ, hnext]
              have c1 : ¬ (j = 0 ∧ d = d0 + (s + 1) % vids.length) := by intro hh; omega
              have c2 : ¬ (j = 1 ∧ d = d0 + s) := by intro hh; omega
              rw [if_neg c1, if_neg c2]
              exact (h.frame d hd).1 j
            · rw [hatt, if_neg (by omega)]
              exact (h.frame d hd).2
          · intro h0 d
            rw [hβ]
            have c1 : ¬ ((2 : Nat) = 0 ∧ d = (if s = vids.length - 1 then d0 else d0 + s + 1)) := by
              intro hh; omega
            have c2 : ¬ ((2 : Nat) = 1 ∧ d = d0 + s) := by intro hh; omega
            rw [if_neg c1, if_neg c2]
            exact h.b2 h0 d
          · intro i hi
            by_cases hieq : i = s
            · subst hieq
              refine ⟨?_, p, hp, ?_⟩
              · rw [hβ, hnext]
                have c1 : ¬ ((1 : Nat) = 0 ∧ d0 + i = d0 + (i + 1) % vids.length) := by intro hh; omega
                rw [if_neg c1, if_pos ⟨rfl, rfl⟩]
              · rw [hatt, if_pos rfl]
            · have hi' : i < s := by omega
              obtain ⟨hb, q, hq, ha⟩ := h.done i hi'
              refine ⟨?_, q, hq, ?_⟩
              · rw [hβ]
                have c1 : ¬ ((1 : Nat) = 0 ∧ d0 + i = (if s = vids.length - 1 then d0 else d0 + s + 1)) := by
                  intro hh; omega
                have c2 : ¬ ((1 : Nat) = 1 ∧ d0 + i = d0 + s) := by intro hh; omega
                rw [if_neg c1, if_neg c2]
                exact hb
              · rw [hatt, if_neg (by omega)]
                exact ha
      | .err e => rw [hx] at hf; simp at hf
      | .retry => rw [hx] at hf; simp at hf
      | .panic => rw [hx] at hf; simp at hf

theorem addFreeDarts_att {m : Map Val} (h : Sized 3 m) (k s d : Nat) (hd : d < m.n) :
    (m.addFreeDarts k).2.att s d = m.att s d := by
  unfold Map.addFreeDarts Map.att
  simp only
  by_cases hs : s < m.a.size
  · rw [rd_map _ _ _ hs]
    exact rd_ext_lt _ _ _ _ (by have := h.asz s hs; omega)
  · rw [rd_oob (m.a.map _) s (by simp; omega), rd_oob m.a s (by omega)]

/-- one polygonal cell: `k` new darts in a β1 cycle carrying the cell's points; nothing else moves -/
theorem buildFace_spec {fp : List Val} {vids : List Nat} {st st' : Map Val × Buf} (hwf : WF 3 st.1)
    (hb : buildFace fp vids st = .ok st') :
    st'.1.n = st.1.n + vids.length ∧
    (∀ d, d < st.1.n → (∀ j, j < 3 → st'.1.β j d = st.1.β j d) ∧ st'.1.att 0 d = st.1.att 0 d) ∧
    ((∀ d, st.1.β 2 d = 0) → ∀ d, st'.1.β 2 d = 0) ∧
    ∀ i, i < vids.length → st'.1.β 1 (st.1.n + i) = st.1.n + (i + 1) % vids.length ∧
      ∃ p, fp[vids.getD i 0]? = some p ∧ st'.1.att 0 (st.1.n + i) = some p := by
  unfold buildFace at hb
  simp only at hb
  rw [List.range_eq_range'] at hb
  have hsz := hwf.toSized
  have h0 : Partial fp vids st.1.n 0 (st.1.addFreeDarts vids.length).2 (st.1.addFreeDarts vids.length).2 :=
    ⟨rfl, fun d _ => ⟨fun _ => rfl, rfl⟩, fun h => h, fun i hi => absurd hi (by omega)⟩
  have hp := corners_spec (fp := fp) (vids := vids) (d0 := st.1.n) vids.length 0 _ st' (by omega) h0 hb
  refine ⟨by rw [hp.n]; rfl, ?_, ?_, hp.done⟩
  · intro d hd
    refine ⟨fun j hj => ?_, ?_⟩
    · rw [(hp.frame d hd).1 j, addFreeDarts_β hsz _ j d hj, if_pos hd]
    · rw [(hp.frame d hd).2, addFreeDarts_att hsz _ 0 d hd]
  · intro h0' d
    refine hp.b2 ?_ d
    intro e
    rw [addFreeDarts_β hsz _ 2 e (by omega)]
    split
    · exact h0' e
    · rfl

/-- the polygonal cells of a list (Triangle, Polygon, Quad), in order -/
def faceLists (cells : List VCell) : List (List Nat) :=
  cells.filterMap (fun c => if c.ty = 5 ∨ c.ty = 7 ∨ c.ty = 9 then some c.vids else none)

/-- from dart `s` on, the map consists of the given cells one after the other: the cell `v` occupies
    the darts `s … s + |v| - 1`, in a β1 cycle, 2-free, dart `s + i` carrying the point `v[i]` -/
def FacesAt (fp : List Val) (m : Map Val) : Nat → List (List Nat) → Prop
  | _, [] => True
  | s, v :: vs =>
      (∀ i, i < v.length → m.β 1 (s + i) = s + (i + 1) % v.length ∧ m.β 2 (s + i) = 0 ∧
        ∃ p, fp[v.getD i 0]? = some p ∧ m.att 0 (s + i) = some p) ∧
      FacesAt fp m (s + v.length) vs

theorem cellStep_cases {fp : List Val} {c : VCell} {st s1 : Map Val × Buf}
    (hc : cellStep fp c st = .ok s1) :
    (¬ (c.ty = 5 ∨ c.ty = 7 ∨ c.ty = 9) ∧ s1 = st) ∨
    ((c.ty = 5 ∨ c.ty = 7 ∨ c.ty = 9) ∧ buildFace fp c.vids st = .ok s1) := by
  unfold cellStep at hc
  split at hc
  all_goals first
    | (simp at hc; done)
    | (rename_i hty
       split at hc
       · simp at hc
       · first
         | (simp only [Out.ok.injEq] at hc; subst hc; left; exact ⟨by omega, rfl⟩)
         | (right; exact ⟨by omega, hc⟩))
    | (rename_i hty; right; exact ⟨by omega, hc⟩)

theorem cells_spec {fp : List Val} :
    ∀ (cells : List VCell) (st st' : Map Val × Buf), Inv st.1.n st → (∀ d, st.1.β 2 d = 0) →
      foldOut (cellStep fp) cells st = .ok st' →
      st'.1.n = st.1.n + ((faceLists cells).map List.length).sum ∧
      (∀ d, d < st.1.n → (∀ j, j < 3 → st'.1.β j d = st.1.β j d) ∧ st'.1.att 0 d = st.1.att 0 d) ∧
      (∀ d, st'.1.β 2 d = 0) ∧
      FacesAt fp st'.1 st.1.n (faceLists cells) := by
  intro cells
  induction cells with
  | nil =>
      intro st st' _ h0 hf
      simp [foldOut] at hf
      subst hf
      exact ⟨by simp [faceLists], fun d _ => ⟨fun _ _ => rfl, rfl⟩, h0, trivial⟩
  | cons c cs ih =>
      intro st st' hinv h0 hf
      unfold foldOut at hf
      match hx : cellStep fp c st with
      | .ok s1 =>
          rw [hx] at hf
          have hinv1 := cellStep_inv hinv hx
          rcases cellStep_cases hx with ⟨hty, rfl⟩ | ⟨hty, hb⟩
          · have : faceLists (c :: cs) = faceLists cs := by
              simp [faceLists, List.filterMap_cons, hty]
            rw [this]
            exact ih s1 st' hinv h0 hf
          · have hfl : faceLists (c :: cs) = c.vids :: faceLists cs := by
              simp [faceLists, List.filterMap_cons, hty]
            rw [hfl]
            obtain ⟨n1, fr1, b21, cor1⟩ := buildFace_spec hinv.wf hb
            obtain ⟨n2, fr2, b22, fa2⟩ := ih s1 st' hinv1 (b21 h0) hf
            refine ⟨?_, ?_, b22, ⟨?_, ?_⟩⟩
            · rw [n2, n1]; simp [List.sum_cons]; omega
            · intro d hd
              have hd1 : d < s1.1.n := by omega
              refine ⟨fun j hj => ?_, ?_⟩
              · rw [(fr2 d hd1).1 j hj, (fr1 d hd).1 j hj]
              · rw [(fr2 d hd1).2, (fr1 d hd).2]
            · intro i hi
              have hd1 : st.1.n + i < s1.1.n := by omega
              obtain ⟨hb1, p, hp, ha⟩ := cor1 i hi
              refine ⟨?_, b22 _, p, hp, ?_⟩
              · rw [(fr2 _ hd1).1 1 (by omega), hb1]
              · rw [(fr2 _ hd1).2, ha]
            · rw [← n1]; exact fa2
      | .err e => rw [hx] at hf; simp at hf
      | .retry => rw [hx] at hf; simp at hf
      | .panic => rw [hx] at hf; simp at hf

theorem emptyMap_b2 : ∀ d, emptyMap.β 2 d = 0 := by
  intro d
  by_cases h : d < 1
  · have : d = 0 := by omega
    subst this; decide
  · unfold Map.β
    exact rd_oob _ _ (by
      have : (rd emptyMap.b 2).size = 1 := by decide
      omega)

/-- **C11 (a2)**: the map handed to the sew phase.  It has one dart per corner of the polygonal cells
    (`Vertex` / `Line` cells allocate nothing); the j-th polygonal cell occupies consecutive darts in a
    β1 cycle; dart `d0ⱼ + i` carries the coordinates of the cell's i-th point (z dropped); no dart is
    2-sewn yet. -/
theorem C11_buildCells_structure (pts : List Val) (cells : List VCell) (m : Map Val) (buf : Buf)
    (h : buildCells pts cells = .ok (m, buf)) :
    m.n = 1 + ((faceLists cells).map List.length).sum ∧ (∀ d, m.β 2 d = 0) ∧
      FacesAt (pts.map flat) m 1 (faceLists cells) := by
  unfold buildCells at h
  obtain ⟨hn, _, hb2, hfa⟩ := cells_spec cells (emptyMap, []) (m, buf) inv_empty emptyMap_b2 h
  exact ⟨hn, hb2, hfa⟩

/-- non-vacuity: two triangles and a quad (plus an ignored `Line`) over six points -/
def exPts : List Val := [.pt 0 0 5, .pt 1 0 0, .pt 1 1 0, .pt 0 1 0, .pt 2 0 0, .pt 2 1 0]
def exCells : List VCell := [⟨5, [0, 1, 2]⟩, ⟨3, [0, 1]⟩, ⟨5, [0, 2, 3]⟩, ⟨9, [1, 4, 5, 2]⟩]

/-- result of a computation, for the non-vacuity examples -/
def okGet {α : Type} [Inhabited α] : Out Err α → α
  | .ok a => a
  | _ => default
def isOk {α : Type} : Out Err α → Bool
  | .ok _ => true
  | _ => false
theorem eq_ok_of_isOk {α : Type} [Inhabited α] {o : Out Err α} (h : isOk o = true) : o = .ok (okGet o) := by
  cases o <;> simp_all [isOk, okGet]

instance : Inhabited (Map Val) := ⟨emptyMap⟩

example : buildCells exPts exCells = .ok (okGet (buildCells exPts exCells)) :=
  eq_ok_of_isOk (by decide +kernel)
example : (okGet (buildCells exPts exCells)).1.n = 11 ∧ (okGet (buildCells exPts exCells)).2.length = 10 := by
  decide +kernel
example : importCells exPts exCells 7 = .ok (okGet (importCells exPts exCells 7)) :=
  eq_ok_of_isOk (by decide +kernel)
/-- the two triangles are glued along (0,2)/(2,0), the second triangle… and the quad along (1,2)/(2,1);
    the z of point 0 is dropped -/
example : (okGet (importCells exPts exCells 7)).β 2 3 = 4 ∧ (okGet (importCells exPts exCells 7)).β 2 2 = 10 ∧
    (okGet (importCells exPts exCells 7)).att 0 1 = some (.pt 0 0 0) := by decide +kernel
example : WF 3 (okGet (importCells exPts exCells 7)) :=
  C11_import_ok_WF _ _ _ _ (eq_ok_of_isOk (by decide +kernel))
/-- the same cells as raw legacy data (`CELLS 4 17`, `CELL_TYPES 4`) -/
example : WF 3 (okGet (importLegacy exPts 4 [3, 0, 1, 2, 2, 0, 1, 3, 0, 2, 3, 4, 1, 4, 5, 2] [5, 3, 5, 9])) :=
  C11_importLegacy_ok_WF _ _ _ _ _ _ (eq_ok_of_isOk (by decide +kernel))
/-- a wrong `num_cells` is an error, a wrong component count a panic, an unsupported type an error -/
example : (match importLegacy exPts 3 [3, 0, 1, 2] [5] with | .err e => e = errBadVtk 1 | _ => False) ∧
    (match importLegacy exPts 2 [3, 0, 1, 2] [5, 5] with | .panic => True | _ => False) ∧
    (match importLegacy exPts 1 [4, 0, 1, 2, 3] [10] with | .err e => e = errUnsupported 7 | _ => False) :=
  ⟨rfl, trivial, rfl⟩
example : faceLists exCells = [[0, 1, 2], [0, 2, 3], [1, 4, 5, 2]] := by decide

/-! ## (a4) the sew phase only adds 2-links, between darts filed under opposite keys -/

/-- what the sew phase may do to a map: same darts, same β0 / β1, and every new 2-link joins two darts
    that the buffer files under opposite keys -/
structure SewnFrom (buf : Buf) (m m' : Map Val) : Prop where
  n : m'.n = m.n
  b01 : ∀ j d, j ≠ 2 → m'.β j d = m.β j d
  b2 : ∀ d, m'.β 2 d ≠ m.β 2 d →
    ∃ a b, ((a, b), d) ∈ buf ∧ ((b, a), m'.β 2 d) ∈ buf

theorem sew2_topo {m m' : Map Val} {l r : Nat} {u : Unit}
    (h : atomically (twoSew2 cfg0 m.n l r) m = (.ok u, m')) :
    m'.n = m.n ∧ (∀ j d, j ≠ 2 → m'.β j d = m.β j d) ∧
    (∀ d, m'.β 2 d ≠ m.β 2 d → (d = l ∧ m'.β 2 d = r) ∨ (d = r ∧ m'.β 2 d = l)) := by
  have hrun := atomically_ok h
  obtain ⟨m1, h1, st⟩ := C04.C04_twoSew2_topology cfg0 m.n l r m m' u hrun
  obtain ⟨o1, o2, _, _, rfl⟩ := iLinkCore_ok h1
  have hβ : ∀ j d, m'.β j d = ((m.setβ 2 l r).setβ 2 r l).β j d := fun j d => st.β j d
  refine ⟨st.n, ?_, ?_⟩
  · intro j d hj
    rw [hβ, Map.β_setβ, Map.β_setβ]
    have c1 : ¬ (2 = j ∧ r = d ∧ (m.setβ 2 l r).okβ 2 r = true) := fun hh => hj hh.1.symm
    have c2 : ¬ (2 = j ∧ l = d ∧ m.okβ 2 l = true) := fun hh => hj hh.1.symm
    rw [if_neg c1, if_neg c2]
  · intro d hd
    rw [hβ] at hd ⊢
    rw [Map.β_setβ, Map.β_setβ] at hd ⊢
    simp only [Map.okβ_setβ, o1, o2, and_true, true_and] at hd ⊢
    by_cases c1 : r = d
    · subst c1; simp
    · rw [if_neg c1] at hd ⊢
      by_cases c2 : l = d
      · subst c2; simp
      · rw [if_neg c2] at hd; exact absurd rfl hd

theorem sewLoop_sewn : ∀ (fuel : Nat) (buf : Buf) (m m' : Map Val),
    sewLoop fuel buf m = .ok m' → SewnFrom buf m m' := by
  intro fuel
  induction fuel with
  | zero => intro buf m m' h; simp [sewLoop] at h
  | succ f ih =>
      intro buf m m' hs
      unfold sewLoop at hs
      split at hs
      · simp at hs; subst hs
        exact ⟨rfl, fun _ _ _ => rfl, fun d hd => absurd rfl hd⟩
      · rename_i e he
        have hem := bufMin_mem he
        simp only at hs
        split at hs
        · have r := ih _ m m' hs
          refine ⟨r.n, r.b01, fun d hd => ?_⟩
          obtain ⟨a, b, h1, h2⟩ := r.b2 d hd
          exact ⟨a, b, (mem_bufErase h1).1, (mem_bufErase h2).1⟩
        · rename_i d1 hf
          obtain ⟨e1, he1, hk1, hd1⟩ := bufFind_mem hf
          obtain ⟨he1b, _⟩ := mem_bufErase he1
          split at hs
          · rename_i u m2 hsew
            obtain ⟨n2, b012, b22⟩ := sew2_topo hsew
            have r := ih _ m2 m' hs
            refine ⟨by rw [r.n, n2], fun j d hj => by rw [r.b01 j d hj, b012 j d hj], fun d hd => ?_⟩
            by_cases c : m'.β 2 d = m2.β 2 d
            · -- the link of this round
              have hd2 : m2.β 2 d ≠ m.β 2 d := by rw [← c]; exact hd
              rw [c]
              have hE : e = ((e.1.1, e.1.2), e.2) := rfl
              have hE1 : e1 = ((e.1.2, e.1.1), d1) := by
                rw [← hk1, ← hd1]
              rcases b22 d hd2 with ⟨rfl, hr⟩ | ⟨rfl, hr⟩
              · rw [hr]
                exact ⟨e.1.1, e.1.2, by rw [← hE]; exact hem, by rw [← hE1]; exact he1b⟩
              · rw [hr]
                exact ⟨e.1.2, e.1.1, by rw [← hE1]; exact he1b, by rw [← hE]; exact hem⟩
            · obtain ⟨a, b, h1, h2⟩ := r.b2 d c
              exact ⟨a, b, (mem_bufErase (mem_bufErase h1).1).1, (mem_bufErase (mem_bufErase h2).1).1⟩
          · simp at hs

/-- dart `d` is corner `i` of one of the cells laid out from dart `s` on, and `k` is the pair of point
    indices of the side leaving that corner -/
def SideOf : Nat → List (List Nat) → Nat → Nat × Nat → Prop
  | _, [], _, _ => False
  | s, v :: vs, d, k =>
      (∃ i, i < v.length ∧ d = s + i ∧ k = (v.getD i 0, v.getD ((i + 1) % v.length) 0)) ∨
      SideOf (s + v.length) vs d k

theorem corner_keys {fp : List Val} {vids : List Nat} {d0 i : Nat} {st st' : Map Val × Buf}
    (hc : corner fp vids d0 i st = .ok st') :
    ∀ e, e ∈ st'.2 → e ∈ st.2 ∨
      (e.2 = d0 + i ∧ e.1 = (vids.getD i 0, vids.getD ((i + 1) % vids.length) 0)) := by
  unfold corner at hc
  simp only at hc
  split at hc
  · simp at hc
  · split at hc
    · split at hc
      · simp only [Out.ok.injEq] at hc
        subst hc
        intro e he
        rcases mem_bufInsert he with ⟨h1, _⟩ | rfl
        · exact Or.inl h1
        · exact Or.inr ⟨rfl, rfl⟩
      · simp at hc
    · simp at hc

theorem corners_keys {fp : List Val} {vids : List Nat} {d0 : Nat} {buf0 : Buf} :
    ∀ (len s : Nat) (st st' : Map Val × Buf), s + len = vids.length →
      (∀ e, e ∈ st.2 → e ∈ buf0 ∨ ∃ i, i < vids.length ∧ e.2 = d0 + i ∧
        e.1 = (vids.getD i 0, vids.getD ((i + 1) % vids.length) 0)) →
      foldOut (corner fp vids d0) (List.range' s len) st = .ok st' →
      ∀ e, e ∈ st'.2 → e ∈ buf0 ∨ ∃ i, i < vids.length ∧ e.2 = d0 + i ∧
        e.1 = (vids.getD i 0, vids.getD ((i + 1) % vids.length) 0) := by
  intro len
  induction len with
  | zero =>
      intro s st st' _ h hf
      simp [foldOut] at hf
      subst hf
      exact h
  | succ len ih =>
      intro s st st' hs h hf
      rw [List.range'_succ] at hf
      unfold foldOut at hf
      match hx : corner fp vids d0 s st with
      | .ok s1 =>
          rw [hx] at hf
          refine ih (s + 1) s1 st' (by omega) ?_ hf
          intro e he
          rcases corner_keys hx e he with h1 | ⟨h1, h2⟩
          · exact h e h1
          · exact Or.inr ⟨s, by omega, h1, h2⟩
      | .err e => rw [hx] at hf; simp at hf
      | .retry => rw [hx] at hf; simp at hf
      | .panic => rw [hx] at hf; simp at hf

theorem buildFace_keys {fp : List Val} {vids : List Nat} {st st' : Map Val × Buf}
    (hb : buildFace fp vids st = .ok st') :
    ∀ e, e ∈ st'.2 → e ∈ st.2 ∨ ∃ i, i < vids.length ∧ e.2 = st.1.n + i ∧
      e.1 = (vids.getD i 0, vids.getD ((i + 1) % vids.length) 0) := by
  unfold buildFace at hb
  simp only at hb
  rw [List.range_eq_range'] at hb
  exact corners_keys (fp := fp) (vids := vids) (d0 := st.1.n) (buf0 := st.2) vids.length 0
    ((st.1.addFreeDarts vids.length).2, st.2) st' (by omega) (fun e he => Or.inl he) hb

theorem cells_keys {fp : List Val} :
    ∀ (cells : List VCell) (st st' : Map Val × Buf), Inv st.1.n st →
      foldOut (cellStep fp) cells st = .ok st' →
      ∀ e, e ∈ st'.2 → e ∈ st.2 ∨ SideOf st.1.n (faceLists cells) e.2 e.1 := by
  intro cells
  induction cells with
  | nil =>
      intro st st' _ hf
      simp [foldOut] at hf
      subst hf
      exact fun e he => Or.inl he
  | cons c cs ih =>
      intro st st' hinv hf
      unfold foldOut at hf
      match hx : cellStep fp c st with
      | .ok s1 =>
          rw [hx] at hf
          have hinv1 := cellStep_inv hinv hx
          rcases cellStep_cases hx with ⟨hty, rfl⟩ | ⟨hty, hb⟩
          · have : faceLists (c :: cs) = faceLists cs := by
              simp [faceLists, List.filterMap_cons, hty]
            rw [this]
            exact ih s1 st' hinv hf
          · have hfl : faceLists (c :: cs) = c.vids :: faceLists cs := by
              simp [faceLists, List.filterMap_cons, hty]
            rw [hfl]
            obtain ⟨n1, _, _, _⟩ := buildFace_spec hinv.wf hb
            intro e he
            rcases ih s1 st' hinv1 hf e he with h1 | h1
            · rcases buildFace_keys hb e h1 with h2 | ⟨i, hi, h2, h3⟩
              · exact Or.inl h2
              · exact Or.inr (Or.inl ⟨i, hi, h2, h3⟩)
            · rw [n1] at h1
              exact Or.inr (Or.inr h1)
      | .err e => rw [hx] at hf; simp at hf
      | .retry => rw [hx] at hf; simp at hf
      | .panic => rw [hx] at hf; simp at hf

/-- **C11 (a4)**, for EVERY input: a map returned by the import has exactly the darts, the β0 and the β1
    of the pre-sew map — so, with `C11_buildCells_structure`, ONE FACE PER polygonal CELL, on
    consecutive darts in the order of the cell's points — and its 2-links are SOUND: `β2 d = e ≠ 0` only
    if `d` is a corner whose side runs from point `a` to point `b` and `e` a corner whose side runs from
    `b` to `a` (sides traversed in opposite directions).  Completeness (every such pair is glued) holds
    for conforming lists only and is not proved (oracle). -/
theorem C11_import_faces_and_gluing (pts : List Val) (cells : List VCell) (mask : Nat) (m : Map Val)
    (h : importCells pts cells mask = .ok m) :
    ∃ m0 buf, buildCells pts cells = .ok (m0, buf) ∧ m.n = m0.n ∧
      (∀ j d, j ≠ 2 → m.β j d = m0.β j d) ∧
      ∀ d, m.β 2 d ≠ 0 → ∃ a b, SideOf 1 (faceLists cells) d (a, b) ∧
        SideOf 1 (faceLists cells) (m.β 2 d) (b, a) := by
  unfold importCells at h
  match hb : buildCells pts cells with
  | .ok (m0, buf) =>
      rw [hb] at h
      simp only at h
      have r := sewLoop_sewn _ buf m0 m h
      obtain ⟨_, hb2, _⟩ := C11_buildCells_structure pts cells m0 buf hb
      have hk := cells_keys cells (emptyMap, []) (m0, buf) inv_empty (by unfold buildCells at hb; exact hb)
      refine ⟨m0, buf, rfl, r.n, r.b01, fun d hd => ?_⟩
      obtain ⟨a, b, h1, h2⟩ := r.b2 d (by rw [hb2]; exact hd)
      refine ⟨a, b, ?_, ?_⟩
      · rcases hk _ h1 with h' | h'
        · simp at h'
        · exact h'
      · rcases hk _ h2 with h' | h'
        · simp at h'
        · exact h'
  | .err e => rw [hb] at h; simp at h
  | .retry => rw [hb] at h; simp at h
  | .panic => rw [hb] at h; simp at h

/-- non-vacuity: in the import of `exCells`, dart 3 (side 2 → 0 of the first triangle) is glued with
    dart 4 (side 0 → 2 of the second one) -/
example : SideOf 1 (faceLists exCells) 3 (2, 0) ∧ SideOf 1 (faceLists exCells) 4 (0, 2) := by
  constructor
  · exact Or.inl ⟨2, by decide, rfl, rfl⟩
  · exact Or.inr (Or.inl ⟨0, by decide, rfl, rfl⟩)


/-! ## (a5) completeness of the gluing when no directed side is repeated -/

/-- the buffer is a map: one entry per key (always true of a `BTreeMap`) -/
def UniqueKeys (buf : Buf) : Prop := ∀ a, a ∈ buf → ∀ b, b ∈ buf → a.1 = b.1 → a = b

theorem uniqueKeys_insert {buf : Buf} (h : UniqueKeys buf) (k : Nat × Nat) (d : Nat) :
    UniqueKeys (bufInsert buf k d) := by
  intro a ha b hb hab
  rcases mem_bufInsert ha with ⟨h1, n1⟩ | rfl
  · rcases mem_bufInsert hb with ⟨h2, n2⟩ | rfl
    · exact h a h1 b h2 hab
    · exact absurd hab n1
  · rcases mem_bufInsert hb with ⟨h2, n2⟩ | rfl
    · exact absurd hab.symm n2
    · rfl

theorem uniqueKeys_erase {buf : Buf} (h : UniqueKeys buf) (k : Nat × Nat) : UniqueKeys (bufErase buf k) :=
  fun a ha b hb hab => h a (mem_bufErase ha).1 b (mem_bufErase hb).1 hab

theorem mem_bufErase_of {b : Buf} {k : Nat × Nat} {e : (Nat × Nat) × Nat} (h : e ∈ b) (hk : e.1 ≠ k) :
    e ∈ bufErase b k := by
  unfold bufErase
  rw [List.mem_filter]
  exact ⟨h, by simpa using hk⟩

theorem bufFind_none {b : Buf} {k : Nat × Nat} (h : bufFind b k = none) : ∀ x, x ∈ b → x.1 ≠ k := by
  unfold bufFind at h
  match hf : b.find? (fun e => e.1 = k) with
  | some e => rw [hf] at h; simp at h
  | none =>
      intro x hx hk
      have := List.find?_eq_none.1 hf x hx
      simp [hk] at this

theorem corner_unique {fp : List Val} {vids : List Nat} {d0 i : Nat} {st st' : Map Val × Buf}
    (h : UniqueKeys st.2) (hc : corner fp vids d0 i st = .ok st') : UniqueKeys st'.2 := by
  unfold corner at hc
  simp only at hc
  split at hc
  · simp at hc
  · split at hc
    · split at hc
      · simp only [Out.ok.injEq] at hc
        subst hc
        exact uniqueKeys_insert h _ _
      · simp at hc
    · simp at hc

theorem cellStep_unique {fp : List Val} {c : VCell} {st st' : Map Val × Buf}
    (h : UniqueKeys st.2) (hc : cellStep fp c st = .ok st') : UniqueKeys st'.2 := by
  rcases cellStep_cases hc with ⟨_, rfl⟩ | ⟨_, hb⟩
  · exact h
  · unfold buildFace at hb
    simp only at hb
    exact foldOut_inv (f := corner fp c.vids (st.1.addFreeDarts c.vids.length).1)
      (Q := fun s : Map Val × Buf => UniqueKeys s.2)
      (fun x s s' hq hx => corner_unique hq hx) _ ((st.1.addFreeDarts c.vids.length).2, st.2) st' h hb

theorem buildCells_unique {pts : List Val} {cells : List VCell} {st : Map Val × Buf}
    (h : buildCells pts cells = .ok st) : UniqueKeys st.2 := by
  unfold buildCells at h
  exact foldOut_inv (Q := fun s : Map Val × Buf => UniqueKeys s.2)
    (fun x s s' hq hx => cellStep_unique hq hx) cells _ st (by intro a ha; simp at ha) h

/-- the 2-link performed by a successful sew -/
theorem sew2_links {m m' : Map Val} {l r : Nat} {u : Unit} (hne : l ≠ r)
    (h : atomically (twoSew2 cfg0 m.n l r) m = (.ok u, m')) :
    m'.β 2 l = r ∧ m'.β 2 r = l ∧ ∀ d, d ≠ l → d ≠ r → m'.β 2 d = m.β 2 d := by
  have hrun := atomically_ok h
  obtain ⟨m1, h1, st⟩ := C04.C04_twoSew2_topology cfg0 m.n l r m m' u hrun
  obtain ⟨o1, o2, _, _, rfl⟩ := iLinkCore_ok h1
  have hβ : ∀ j d, m'.β j d = ((m.setβ 2 l r).setβ 2 r l).β j d := fun j d => st.β j d
  refine ⟨?_, ?_, ?_⟩
  · rw [hβ, Map.β_setβ, Map.β_setβ]
    simp only [Map.okβ_setβ, o1, o2, and_true, true_and]
    rw [if_neg (fun e => hne e.symm)]; simp
  · rw [hβ, Map.β_setβ]
    simp only [Map.okβ_setβ, o2, and_true, true_and]; simp
  · intro d h1 h2
    rw [hβ, Map.β_setβ, Map.β_setβ]
    simp only [Map.okβ_setβ, o1, o2, and_true, true_and]
    rw [if_neg (fun e => h2 e.symm), if_neg (fun e => h1 e.symm)]

theorem bufMin_none {b : Buf} (h : bufMin b = none) : b = [] := by
  cases b with
  | nil => rfl
  | cons x xs =>
      exfalso
      unfold bufMin at h
      split at h
      · simp at h
      · split at h <;> simp at h

theorem swap_ne {k : Nat × Nat} (h : k.1 ≠ k.2) : (k.2, k.1) ≠ k := by
  intro e
  have := congrArg Prod.fst e
  simp at this
  exact h this.symm

/-- the sew phase glues EVERY pair of entries filed under opposite keys -/
theorem sewLoop_complete : ∀ (fuel : Nat) (buf : Buf) (m m' : Map Val), Inv m.n (m, buf) →
    UniqueKeys buf → (∀ e, e ∈ buf → m.β 2 e.2 = 0) → sewLoop fuel buf m = .ok m' →
    ∀ e1, e1 ∈ buf → ∀ e2, e2 ∈ buf → e2.1 = (e1.1.2, e1.1.1) → e1.1.1 ≠ e1.1.2 →
      m'.β 2 e1.2 = e2.2 := by
  intro fuel
  induction fuel with
  | zero => intro buf m m' _ _ _ h; simp [sewLoop] at h
  | succ f ih =>
      intro buf m m' hinv huq hfree hs e1 he1 e2 he2 hk hab
      unfold sewLoop at hs
      split at hs
      · rename_i hnone
        -- empty buffer
        rw [bufMin_none hnone] at he1
        simp at he1
      · rename_i e he
        have hem := bufMin_mem he
        simp only at hs
        have hk' : e1.1 = (e2.1.2, e2.1.1) := by rw [hk]
        have hab2 : e2.1.1 ≠ e2.1.2 := by rw [hk]; exact fun h => hab h.symm
        split at hs
        · rename_i hnone
          have hno := bufFind_none hnone
          have invr : Inv m.n (m, bufErase buf e.1) :=
            { wf := hinv.wf, used := hinv.used, le := hinv.le
              pos := fun x hx => hinv.pos x (mem_bufErase hx).1
              lt := fun x hx => hinv.lt x (mem_bufErase hx).1
              inj := fun a ha b hb => hinv.inj a (mem_bufErase ha).1 b (mem_bufErase hb).1 }
          by_cases c1 : e1.1 = e.1
          · exfalso
            have : e2 ∈ bufErase buf e.1 := mem_bufErase_of he2 (by
              rw [hk, ← c1]; exact swap_ne hab)
            exact hno e2 this (by rw [hk, c1])
          · by_cases c2 : e2.1 = e.1
            · exfalso
              have : e1 ∈ bufErase buf e.1 := mem_bufErase_of he1 c1
              exact hno e1 this (by rw [hk', c2])
            · exact ih _ m m' invr (uniqueKeys_erase huq _)
                (fun x hx => hfree x (mem_bufErase hx).1) hs e1 (mem_bufErase_of he1 c1)
                e2 (mem_bufErase_of he2 c2) hk hab
        · rename_i d1 hf
          obtain ⟨x1, hx1, hxk, hxd⟩ := bufFind_mem hf
          obtain ⟨hx1b, hx1ne⟩ := mem_bufErase hx1
          have hne : e.2 ≠ d1 := by
            intro heq
            exact hx1ne (hinv.inj x1 hx1b e hem (by rw [hxd, heq]))
          have hl : C01.InUse m e.2 := ⟨hinv.pos e hem, hinv.lt e hem, hinv.used _⟩
          have hr : C01.InUse m d1 := by
            rw [← hxd]; exact ⟨hinv.pos x1 hx1b, hinv.lt x1 hx1b, hinv.used _⟩
          split at hs
          · rename_i u m2 hsew
            obtain ⟨wf2, sd2⟩ := sew2_step hinv.wf hl hr hne hsew
            obtain ⟨l1, l2, l3⟩ := sew2_links hne hsew
            -- the remaining entries
            have sub : ∀ x, x ∈ bufErase (bufErase buf e.1) (e.1.2, e.1.1) → x ∈ buf ∧ x.1 ≠ e.1 ∧
                x.1 ≠ (e.1.2, e.1.1) := fun x hx =>
              ⟨(mem_bufErase (mem_bufErase hx).1).1, (mem_bufErase (mem_bufErase hx).1).2, (mem_bufErase hx).2⟩
            have dartne : ∀ x, x ∈ bufErase (bufErase buf e.1) (e.1.2, e.1.1) → x.2 ≠ e.2 ∧ x.2 ≠ d1 := by
              intro x hx
              obtain ⟨xb, xk1, xk2⟩ := sub x hx
              refine ⟨fun hh => xk1 (hinv.inj x xb e hem hh), fun hh => xk2 ?_⟩
              rw [← hxk]
              exact hinv.inj x xb x1 hx1b (by rw [hh, hxd])
            have invr : Inv m2.n (m2, bufErase (bufErase buf e.1) (e.1.2, e.1.1)) :=
              { wf := wf2, used := fun d => by rw [sd2.unused]; exact hinv.used d, le := Nat.le_refl _
                pos := fun x hx => hinv.pos x (sub x hx).1
                lt := fun x hx => by rw [sd2.1]; exact hinv.lt x (sub x hx).1
                inj := fun a ha b hb => hinv.inj a (sub a ha).1 b (sub b hb).1 }
            have free2 : ∀ x, x ∈ bufErase (bufErase buf e.1) (e.1.2, e.1.1) → m2.β 2 x.2 = 0 := by
              intro x hx
              rw [l3 _ (dartne x hx).1 (dartne x hx).2]
              exact hfree x (sub x hx).1
            have later := sewLoop_sewn _ _ m2 m' hs
            -- darts of this round are not touched any more
            have keep : ∀ d, (d = e.2 ∨ d = d1) → m'.β 2 d = m2.β 2 d := by
              intro d hd
              by_cases c : m'.β 2 d = m2.β 2 d
              · exact c
              · exfalso
                obtain ⟨a, b, h1, _⟩ := later.b2 d c
                have := dartne _ h1
                rcases hd with rfl | rfl
                · exact this.1 rfl
                · exact this.2 rfl
            by_cases c1 : e1.1 = e.1
            · have E1 : e1 = e := huq e1 he1 e hem c1
              have E2 : e2 = x1 := huq e2 he2 x1 hx1b (by rw [hk, c1, hxk])
              rw [E1, E2, hxd, keep _ (Or.inl rfl), l1]
            · by_cases c2 : e2.1 = e.1
              · have E2 : e2 = e := huq e2 he2 e hem c2
                have E1 : e1 = x1 := huq e1 he1 x1 hx1b (by rw [hk', c2, hxk])
                rw [E1, E2, hxd, keep _ (Or.inr rfl), l2]
              · have c3 : e1.1 ≠ (e.1.2, e.1.1) := by
                  intro hh; apply c2; rw [hk, hh]
                have c4 : e2.1 ≠ (e.1.2, e.1.1) := by
                  intro hh; apply c1; rw [hk', hh]
                exact ih _ m2 m' invr (uniqueKeys_erase (uniqueKeys_erase huq _) _) free2 hs
                  e1 (mem_bufErase_of (mem_bufErase_of he1 c1) c3)
                  e2 (mem_bufErase_of (mem_bufErase_of he2 c2) c4) hk hab
          · simp at hs


/-- the directed sides of a cell, as pairs of point indices -/
def sidesOf (v : List Nat) : List (Nat × Nat) :=
  (List.range v.length).map (fun i => (v.getD i 0, v.getD ((i + 1) % v.length) 0))
/-- all directed sides of a list of cells -/
def allSides (vs : List (List Nat)) : List (Nat × Nat) := (vs.map sidesOf).flatten

theorem mem_sidesOf {v : List Nat} {k : Nat × Nat} :
    k ∈ sidesOf v ↔ ∃ i, i < v.length ∧ k = (v.getD i 0, v.getD ((i + 1) % v.length) 0) := by
  unfold sidesOf
  rw [List.mem_map]
  constructor
  · rintro ⟨i, hi, rfl⟩; exact ⟨i, List.mem_range.1 hi, rfl⟩
  · rintro ⟨i, hi, rfl⟩; exact ⟨i, List.mem_range.2 hi, rfl⟩

theorem sidesOf_inj {v : List Nat} (h : (sidesOf v).Nodup) {i j : Nat} (hi : i < v.length) (hj : j < v.length)
    (e : (v.getD i 0, v.getD ((i + 1) % v.length) 0) = (v.getD j 0, v.getD ((j + 1) % v.length) 0)) :
    i = j := by
  have li : i < (sidesOf v).length := by simp [sidesOf]; exact hi
  have lj : j < (sidesOf v).length := by simp [sidesOf]; exact hj
  have gi : (sidesOf v)[i] = (v.getD i 0, v.getD ((i + 1) % v.length) 0) := by simp [sidesOf]
  have gj : (sidesOf v)[j] = (v.getD j 0, v.getD ((j + 1) % v.length) 0) := by simp [sidesOf]
  exact (List.getElem_inj (h₀ := li) (h₁ := lj) h).1 (by rw [gi, gj, e])

theorem mem_bufInsert_self (b : Buf) (k : Nat × Nat) (d : Nat) : (k, d) ∈ bufInsert b k d := by
  unfold bufInsert; simp

theorem mem_bufInsert_of {b : Buf} {k : Nat × Nat} {d : Nat} {e : (Nat × Nat) × Nat} (h : e ∈ b)
    (hk : e.1 ≠ k) : e ∈ bufInsert b k d := by
  unfold bufInsert
  rw [List.mem_append]
  left
  rw [List.mem_filter]
  exact ⟨h, by simpa using hk⟩

theorem corner_buf {fp : List Val} {vids : List Nat} {d0 i : Nat} {st st' : Map Val × Buf}
    (hc : corner fp vids d0 i st = .ok st') :
    st'.2 = bufInsert st.2 (vids.getD i 0, vids.getD ((i + 1) % vids.length) 0) (d0 + i) := by
  unfold corner at hc
  simp only at hc
  split at hc
  · simp at hc
  · split at hc
    · split at hc
      · simp only [Out.ok.injEq] at hc
        subst hc
        rfl
      · simp at hc
    · simp at hc

/-- the corners of one cell all enter the buffer, and displace nothing, when the cell's sides are
    pairwise distinct and new -/
theorem corners_complete {fp : List Val} {vids : List Nat} {d0 : Nat} {buf0 : Buf}
    (hnd : (sidesOf vids).Nodup) (hnew : ∀ e, e ∈ buf0 → e.1 ∉ sidesOf vids) :
    ∀ (len s : Nat) (st st' : Map Val × Buf), s + len = vids.length →
      ((∀ e, e ∈ buf0 → e ∈ st.2) ∧
       (∀ i, i < s → ((vids.getD i 0, vids.getD ((i + 1) % vids.length) 0), d0 + i) ∈ st.2) ∧
       (∀ e, e ∈ st.2 → e ∈ buf0 ∨ ∃ i, i < s ∧
          e = ((vids.getD i 0, vids.getD ((i + 1) % vids.length) 0), d0 + i))) →
      foldOut (corner fp vids d0) (List.range' s len) st = .ok st' →
      (∀ e, e ∈ buf0 → e ∈ st'.2) ∧
      (∀ i, i < vids.length → ((vids.getD i 0, vids.getD ((i + 1) % vids.length) 0), d0 + i) ∈ st'.2) := by
  intro len
  induction len with
  | zero =>
      intro s st st' hs h hf
      simp [foldOut] at hf
      subst hf
      have : s = vids.length := by omega
      subst this
      exact ⟨h.1, h.2.1⟩
  | succ len ih =>
      intro s st st' hs h hf
      rw [List.range'_succ] at hf
      unfold foldOut at hf
      match hx : corner fp vids d0 s st with
      | .ok s1 =>
          rw [hx] at hf
          refine ih (s + 1) s1 st' (by omega) ?_ hf
          have hbuf := corner_buf hx
          have hslt : s < vids.length := by omega
          -- no entry of the buffer has the key of corner `s`
          have fresh : ∀ e, e ∈ st.2 → e.1 ≠ (vids.getD s 0, vids.getD ((s + 1) % vids.length) 0) := by
            intro e he hk
            rcases h.2.2 e he with h0 | ⟨i, hi, rfl⟩
            · exact hnew e h0 (mem_sidesOf.2 ⟨s, hslt, hk⟩)
            · have := sidesOf_inj hnd (by omega) hslt hk
              omega
          refine ⟨?_, ?_, ?_⟩
          · intro e he
            rw [hbuf]
            exact mem_bufInsert_of (h.1 e he) (fresh e (h.1 e he))
          · intro i hi
            rw [hbuf]
            by_cases c : i = s
            · subst c; exact mem_bufInsert_self _ _ _
            · have hm := h.2.1 i (by omega)
              exact mem_bufInsert_of hm (fresh _ hm)
          · intro e he
            rw [hbuf] at he
            rcases mem_bufInsert he with ⟨h1, _⟩ | rfl
            · rcases h.2.2 e h1 with h0 | ⟨i, hi, rfl⟩
              · exact Or.inl h0
              · exact Or.inr ⟨i, by omega, rfl⟩
            · exact Or.inr ⟨s, by omega, rfl⟩
      | .err e => rw [hx] at hf; simp at hf
      | .retry => rw [hx] at hf; simp at hf
      | .panic => rw [hx] at hf; simp at hf

theorem buildFace_complete {fp : List Val} {vids : List Nat} {st st' : Map Val × Buf}
    (hnd : (sidesOf vids).Nodup) (hnew : ∀ e, e ∈ st.2 → e.1 ∉ sidesOf vids)
    (hb : buildFace fp vids st = .ok st') :
    (∀ e, e ∈ st.2 → e ∈ st'.2) ∧
    (∀ i, i < vids.length → ((vids.getD i 0, vids.getD ((i + 1) % vids.length) 0), st.1.n + i) ∈ st'.2) := by
  unfold buildFace at hb
  simp only at hb
  rw [List.range_eq_range'] at hb
  exact corners_complete (fp := fp) (vids := vids) (d0 := st.1.n) (buf0 := st.2) hnd hnew vids.length 0
    ((st.1.addFreeDarts vids.length).2, st.2) st' (by omega)
    ⟨fun e he => he, fun i hi => absurd hi (by omega), fun e he => Or.inl he⟩ hb

theorem allSides_cons (v : List Nat) (vs : List (List Nat)) : allSides (v :: vs) = sidesOf v ++ allSides vs := by
  simp [allSides]

theorem cells_complete {fp : List Val} :
    ∀ (cells : List VCell) (st st' : Map Val × Buf), Inv st.1.n st →
      (allSides (faceLists cells)).Nodup → (∀ e, e ∈ st.2 → e.1 ∉ allSides (faceLists cells)) →
      foldOut (cellStep fp) cells st = .ok st' →
      (∀ e, e ∈ st.2 → e ∈ st'.2) ∧
      (∀ d k, SideOf st.1.n (faceLists cells) d k → (k, d) ∈ st'.2) := by
  intro cells
  induction cells with
  | nil =>
      intro st st' _ _ _ hf
      simp [foldOut] at hf
      subst hf
      exact ⟨fun e he => he, fun d k h => by simp [faceLists, SideOf] at h⟩
  | cons c cs ih =>
      intro st st' hinv hnd hnew hf
      unfold foldOut at hf
      match hx : cellStep fp c st with
      | .ok s1 =>
          rw [hx] at hf
          have hinv1 := cellStep_inv hinv hx
          rcases cellStep_cases hx with ⟨hty, rfl⟩ | ⟨hty, hb⟩
          · have : faceLists (c :: cs) = faceLists cs := by
              simp [faceLists, List.filterMap_cons, hty]
            rw [this] at hnd hnew ⊢
            exact ih s1 st' hinv hnd hnew hf
          · have hfl : faceLists (c :: cs) = c.vids :: faceLists cs := by
              simp [faceLists, List.filterMap_cons, hty]
            rw [hfl] at hnd hnew ⊢
            rw [allSides_cons] at hnd hnew
            obtain ⟨nd1, nd2, ndx⟩ := List.nodup_append.1 hnd
            obtain ⟨n1, _, _, _⟩ := buildFace_spec hinv.wf hb
            have hnew1 : ∀ e, e ∈ st.2 → e.1 ∉ sidesOf c.vids := fun e he hm =>
              hnew e he (List.mem_append_left _ hm)
            obtain ⟨keep1, all1⟩ := buildFace_complete nd1 hnew1 hb
            have hnew2 : ∀ e, e ∈ s1.2 → e.1 ∉ allSides (faceLists cs) := by
              intro e he hm
              rcases buildFace_keys hb e he with h0 | ⟨i, hi, _, hk⟩
              · exact hnew e h0 (List.mem_append_right _ hm)
              · exact ndx _ (mem_sidesOf.2 ⟨i, hi, hk⟩) _ hm rfl
            obtain ⟨keep2, all2⟩ := ih s1 st' hinv1 nd2 hnew2 hf
            refine ⟨fun e he => keep2 e (keep1 e he), ?_⟩
            intro d k hs
            rcases hs with ⟨i, hi, rfl, rfl⟩ | hs
            · exact keep2 _ (all1 i hi)
            · rw [← n1] at hs
              exact all2 d k hs
      | .err e => rw [hx] at hf; simp at hf
      | .retry => rw [hx] at hf; simp at hf
      | .panic => rw [hx] at hf; simp at hf

/-- **C11 (a5)**: if no directed side (pair of point indices) is used twice by the polygonal cells —
    half of the property's notion of a conforming list — then a map returned by the import glues EVERY
    pair of sides traversed in opposite directions between two different point indices: with
    `C11_import_faces_and_gluing`, `β2 d = e` EXACTLY when `d` and `e` are such a pair.  (That the import
    of a conforming list does return a map is not proved: it needs the coordinates, see the header.) -/
theorem C11_import_gluing_complete (pts : List Val) (cells : List VCell) (mask : Nat) (m : Map Val)
    (h : importCells pts cells mask = .ok m) (hnd : (allSides (faceLists cells)).Nodup)
    {d e a b : Nat} (hd : SideOf 1 (faceLists cells) d (a, b)) (he : SideOf 1 (faceLists cells) e (b, a))
    (hab : a ≠ b) : m.β 2 d = e := by
  unfold importCells at h
  match hb : buildCells pts cells with
  | .ok (m0, buf) =>
      rw [hb] at h
      simp only at h
      obtain ⟨_, hb2, _⟩ := C11_buildCells_structure pts cells m0 buf hb
      have hfold : foldOut (cellStep (pts.map flat)) cells (emptyMap, []) = .ok (m0, buf) := by
        unfold buildCells at hb; exact hb
      obtain ⟨_, hall⟩ := cells_complete cells (emptyMap, []) (m0, buf) inv_empty hnd
        (by intro x hx; simp at hx) hfold
      exact sewLoop_complete _ buf m0 m (buildCells_inv hb) (buildCells_unique hb)
        (fun x _ => hb2 x.2) h ((a, b), d) (hall d (a, b) hd) ((b, a), e) (hall e (b, a) he) rfl hab
  | .err e => rw [hb] at h; simp at h
  | .retry => rw [hb] at h; simp at h
  | .panic => rw [hb] at h; simp at h

/-- non-vacuity: the sides of `exCells` are pairwise distinct; darts 3 and 4 are glued -/
example : (allSides (faceLists exCells)).Nodup := by decide
example : (okGet (importCells exPts exCells 0)).β 2 3 = 4 :=
  C11_import_gluing_complete exPts exCells 0 _ (eq_ok_of_isOk (by decide +kernel)) (by decide)
    (a := 2) (b := 0) (Or.inl ⟨2, by decide, rfl, rfl⟩) (Or.inr (Or.inl ⟨0, by decide, rfl, rfl⟩)) (by decide)


/-! ## (a3) a 2-sew that merges equal coordinates keeps them -/

theorem avg_self (x y z : Rat) : avgLaw.merge (.pt x y z) (.pt x y z) = .ok (.pt x y z) := by
  have e : ∀ a : Rat, (a + a) / 2 = a := fun a => by grind
  simp [avgLaw, e]

/-- **C11 (a3)**: one `force_sew::<2>(l, r)` of the sew phase, both darts having a successor (always
    the case after the cell phase).  `lv, b1rv` are the identifiers of the two old vertices merged at
    the origin of `l`, `b1lv, rv` those merged at its end; `lvn, rvn` the identifiers after the link.
    If the merged vertices carry EQUAL coordinates `p` (resp. `q`) — the situation of a conforming
    list, where both darts run between the same two points — and the two ends are different vertices,
    the new vertices carry exactly `p` and `q`: averaging is invisible. -/
theorem C11_sew_keeps_equal_coordinates (n l r : Nat) (m m' : Map Val) (u : Unit) (hfc : m.fc = 0)
    (hl0 : m.β 1 l ≠ 0) (hr0 : m.β 1 r ≠ 0) (h : run (twoSew2 cfg0 n l r) m = (.ok u, m')) :
    ∃ lv b1rv b1lv rv m1 lvn rvn,
      run (vertexId2 n l) m = (.ok lv, m) ∧ run (vertexId2 n (m.β 1 r)) m = (.ok b1rv, m) ∧
      run (vertexId2 n (m.β 1 l)) m = (.ok b1lv, m) ∧ run (vertexId2 n r) m = (.ok rv, m) ∧
      run (iLinkCore (X := Val) 2 l r) m = (.ok (), m1) ∧
      run (vertexId2 n l) m1 = (.ok lvn, m1) ∧ run (vertexId2 n r) m1 = (.ok rvn, m1) ∧
      ∀ (x y z x' y' z' : Rat),
        m.att 0 lv = some (.pt x y z) → m.att 0 b1rv = some (.pt x y z) →
        m.att 0 b1lv = some (.pt x' y' z') → m.att 0 rv = some (.pt x' y' z') →
        (∀ a, a ∈ [lvn, lv, b1rv] → ∀ b, b ∈ [rvn, b1lv, rv] → a ≠ b) →
        m'.att 0 lvn = some (.pt x y z) ∧ m'.att 0 rvn = some (.pt x' y' z') := by
  obtain ⟨lv, b1rv, b1lv, rv, m1, lvn, rvn, eid, ma, mb, mc, md, h1, h2, h3, h4, _, hlk, h5, h6, _,
    mA, mB, mC, mD, mE⟩ := C04.C04_twoSew2_both cfg0 n l r m m' u hfc hl0 hr0 h
  refine ⟨lv, b1rv, b1lv, rv, m1, lvn, rvn, h1, h2, h3, h4, hlk, h5, h6, ?_⟩
  intro x y z x' y' z' a1 a2 a3 a4 hd
  obtain ⟨_, _, _, _, rfl⟩ := iLinkCore_ok hlk
  have att1 : ∀ e, ((m.setβ 2 l r).setβ 2 r l).att 0 e = m.att 0 e := fun _ => rfl
  have mem0 : (0 : Nat) ∈ [0] := by simp
  have n0v : (0 : Nat) ∉ storagesOf cfg0 0 := C04.zero_notin_storagesOf cfg0 0
  have n0e : (0 : Nat) ∉ C04.eStores cfg0 := C04.zero_notin_storagesOf cfg0 1
  have ne := fun a ha b hb => hd a ha b hb
  -- first merge: the origin of `l`
  have hA : ma.att 0 lvn = some (.pt x y z) := by
    by_cases e : lv = b1rv
    · rw [mA.moved e 0 mem0, att1, a1]
    · obtain ⟨v, hv, hv'⟩ := mA.merged e 0 mem0
      rw [att1, att1, a1, a2] at hv
      have : (cfg0.law 0) = avgLaw := rfl
      rw [this] at hv
      simp only [mergeVal] at hv
      rw [avg_self] at hv
      cases hv
      exact hv'
  have fA : ∀ e, e ≠ lvn → e ≠ lv → e ≠ b1rv → ma.att 0 e = m.att 0 e := fun e c1 c2 c3 => by
    rw [mA.frame 0 e mem0 c1 c2 c3, att1]
  -- second merge: the end of `l`
  have b3 : ma.att 0 b1lv = some (.pt x' y' z') := by
    rw [fA b1lv (fun e => ne lvn (by simp) b1lv (by simp) e.symm)
      (fun e => ne lv (by simp) b1lv (by simp) e.symm) (fun e => ne b1rv (by simp) b1lv (by simp) e.symm), a3]
  have b4 : ma.att 0 rv = some (.pt x' y' z') := by
    rw [fA rv (fun e => ne lvn (by simp) rv (by simp) e.symm)
      (fun e => ne lv (by simp) rv (by simp) e.symm) (fun e => ne b1rv (by simp) rv (by simp) e.symm), a4]
  have hB : mb.att 0 rvn = some (.pt x' y' z') := by
    by_cases e : b1lv = rv
    · rw [mB.moved e 0 mem0, b3]
    · obtain ⟨v, hv, hv'⟩ := mB.merged e 0 mem0
      rw [b3, b4] at hv
      have : (cfg0.law 0) = avgLaw := rfl
      rw [this] at hv
      simp only [mergeVal] at hv
      rw [avg_self] at hv
      cases hv
      exact hv'
  have hB' : mb.att 0 lvn = some (.pt x y z) := by
    rw [mB.frame 0 lvn mem0 (ne lvn (by simp) rvn (by simp)) (ne lvn (by simp) b1lv (by simp))
      (ne lvn (by simp) rv (by simp)), hA]
  constructor
  · rw [mE.other 0 lvn n0e, mD.other 0 lvn n0v, mC.other 0 lvn n0v, hB']
  · rw [mE.other 0 rvn n0e, mD.other 0 rvn n0v, mC.other 0 rvn n0v, hB]

/-- non-vacuity: the first sew of the import of `exCells`: darts 3 (side 2→0 of the first triangle) and
    4 (side 0→2 of the second).  Both new vertices keep their coordinates. -/
def exPre : Map Val := (okGet (buildCells exPts exCells)).1
example : (run (twoSew2 cfg0 exPre.n 3 4) exPre).1 = .ok () := by decide +kernel
example : exPre.fc = 0 ∧ exPre.β 1 3 ≠ 0 ∧ exPre.β 1 4 ≠ 0 := by decide +kernel
example : exPre.att 0 3 = some (.pt 1 1 0) ∧ exPre.att 0 5 = some (.pt 1 1 0) ∧
    ((run (twoSew2 cfg0 exPre.n 3 4) exPre).2).att 0 3 = some (.pt 1 1 0) ∧
    ((run (twoSew2 cfg0 exPre.n 3 4) exPre).2).att 0 5 = none := by decide +kernel

/-! ## (b) export -/

theorem optAll_eq_some {α : Type} : ∀ {l : List (Option α)} {r : List α}, optAll l = some r → l = r.map some := by
  intro l
  induction l with
  | nil => intro r h; simp [optAll] at h; subst h; rfl
  | cons x xs ih =>
      intro r h
      cases x with
      | none => simp [optAll] at h
      | some a =>
          unfold optAll at h
          match hx : optAll xs with
          | none => rw [hx] at h; simp at h
          | some as =>
              rw [hx] at h
              simp at h
              subst h
              rw [List.map_cons, ← ih hx]

/-- **C11 (b), points**: the exported point `k` is the value stored at the k-th identifier of
    `iter_vertices` (every identifier has a value, else the export panics), with `z = 0` -/
theorem C11_export_points (m : Map Val) (pts : List Val) (cells : List VCell)
    (h : exportPiece m = .ok (pts, cells)) :
    ∃ raw : List Val, (iterVertices2 m).map (fun v => m.att 0 v) = raw.map some ∧ pts = raw.map flat := by
  unfold exportPiece at h
  simp only at h
  split at h
  · simp at h
  · rename_i raw hraw
    split at h
    · simp at h
    · split at h
      · simp at h
      · simp only [Out.ok.injEq, Prod.mk.injEq] at h
        exact ⟨raw, optAll_eq_some hraw, h.1.symm⟩

theorem lineCell_some {m : Map Val} {vids : List Nat} {e : Nat} {c : VCell} (h : lineCell m vids e = some c) :
    ∃ a b, pointOf m vids e = some a ∧ pointOf m vids (m.β 1 e) = some b ∧ c = ⟨3, [a, b]⟩ := by
  unfold lineCell at h
  split at h
  · simp at h
  · rename_i a ha
    split at h
    · simp at h
    · rename_i b hb
      simp at h
      exact ⟨a, b, ha, hb, h.symm⟩

theorem faceCell_some {m : Map Val} {vids : List Nat} {f : Nat} {c : Option VCell}
    (h : faceCell m vids f = some c) :
    ∃ o ix, walk1 m f = some o ∧ o.map (pointOf m vids) = ix.map some ∧
      ((ix.length ≤ 2 ∧ c = none) ∨ (3 ≤ ix.length ∧ c = some ⟨cellTypeOfCount ix.length, ix⟩)) := by
  unfold faceCell at h
  split at h
  · simp at h
  · rename_i o ho
    split at h
    · simp at h
    · rename_i ix hix
      refine ⟨o, ix, ho, optAll_eq_some hix, ?_⟩
      split at h
      · rename_i hle; simp at h; exact Or.inl ⟨hle, h.symm⟩
      · rename_i hle; simp at h; exact Or.inr ⟨by omega, h.symm⟩

/-- **C11 (b), cells**: the exported cells are, in this order, one `Line` per 2-free edge identifier
    (`iter_edges` order) joining the point of the dart's vertex to the point of its successor's vertex,
    then one cell per face identifier (`iter_faces` order) whose β1-only orbit `o` has at least three
    darts: Triangle / Quad / Polygon by the count, listing the points of the vertices of `o`'s darts in
    order.  Faces with at most two darts are dropped. -/
theorem C11_export_cells (m : Map Val) (pts : List Val) (cells : List VCell)
    (h : exportPiece m = .ok (pts, cells)) :
    ∃ (lines : List VCell) (fcs : List (Option VCell)),
      (boundaryEdges m).map (lineCell m (iterVertices2 m)) = lines.map some ∧
      (iterFaces2 m).map (faceCell m (iterVertices2 m)) = fcs.map some ∧
      cells = lines ++ fcs.filterMap id ∧
      (∀ c, c ∈ lines → ∃ e a b, e ∈ boundaryEdges m ∧ pointOf m (iterVertices2 m) e = some a ∧
        pointOf m (iterVertices2 m) (m.β 1 e) = some b ∧ c = ⟨3, [a, b]⟩) ∧
      (∀ c, c ∈ fcs.filterMap id → ∃ f o, f ∈ iterFaces2 m ∧ walk1 m f = some o ∧ 3 ≤ o.length ∧
        o.map (pointOf m (iterVertices2 m)) = c.vids.map some ∧ c.ty = cellTypeOfCount o.length) := by
  unfold exportPiece at h
  simp only at h
  split at h
  · simp at h
  · split at h
    · simp at h
    · rename_i lines hlines
      split at h
      · simp at h
      · rename_i fcs hfcs
        simp only [Out.ok.injEq, Prod.mk.injEq] at h
        have hl := optAll_eq_some hlines
        have hf := optAll_eq_some hfcs
        refine ⟨lines, fcs, hl, hf, h.2.symm, ?_, ?_⟩
        · intro c hc
          have : some c ∈ (boundaryEdges m).map (lineCell m (iterVertices2 m)) := by
            rw [hl]; exact List.mem_map_of_mem hc
          obtain ⟨e, he, hce⟩ := List.mem_map.1 this
          obtain ⟨a, b, ha, hb, rfl⟩ := lineCell_some hce
          exact ⟨e, a, b, he, ha, hb, rfl⟩
        · intro c hc
          rw [List.mem_filterMap] at hc
          obtain ⟨oc, hoc, hid⟩ := hc
          simp only [id] at hid
          subst hid
          have : some (some c) ∈ (iterFaces2 m).map (faceCell m (iterVertices2 m)) := by
            rw [hf]; exact List.mem_map_of_mem hoc
          obtain ⟨f, hfm, hcf⟩ := List.mem_map.1 this
          obtain ⟨o, ix, ho, hix, hcase⟩ := faceCell_some hcf
          have hlen : o.length = ix.length := by
            have := congrArg List.length hix
            simpa using this
          rcases hcase with ⟨_, hn⟩ | ⟨h3, hs⟩
          · simp at hn
          · simp only [Option.some.injEq] at hs
            subst hs
            exact ⟨f, o, hfm, ho, by omega, hix, by rw [hlen]⟩

/-- consecutive elements of the list are related by `f` -/
def Walk (f : Nat → Nat) : List Nat → Prop
  | [] => True
  | [_] => True
  | x :: y :: r => y = f x ∧ Walk f (y :: r)

theorem walk_snoc {f : Nat → Nat} : ∀ (l : List Nat) (x : Nat), Walk f (l ++ [x]) →
    Walk f (l ++ [x] ++ [f x]) := by
  intro l
  induction l with
  | nil => intro x _; exact ⟨rfl, trivial⟩
  | cons a l ih =>
      intro x h
      cases l with
      | nil => exact ⟨h.1, rfl, trivial⟩
      | cons b l =>
          exact ⟨h.1, ih x h.2⟩

/-- a BFS whose generator yields ONE image per dart walks along that image -/
theorem bfsPure_walk (f : Nat → Nat) : ∀ (fuel : Nat) (p mk out : List Nat), p.length ≤ 1 →
    Walk f (out ++ p) → Walk f (bfsPure (fun x => [f x]) fuel p mk out) := by
  intro fuel
  induction fuel with
  | zero =>
      intro p mk out hp h
      unfold bfsPure
      cases p with
      | nil => simpa using h
      | cons d rest =>
          have : rest = [] := by cases rest with | nil => rfl | cons _ _ => simp at hp
          subst this
          -- out is a prefix of a walk
          clear hp
          induction out with
          | nil => trivial
          | cons a out ih =>
              cases out with
              | nil => trivial
              | cons b out => exact ⟨h.1, ih h.2⟩
  | succ fuel ih =>
      intro p mk out hp h
      cases p with
      | nil => unfold bfsPure; simpa using h
      | cons d rest =>
          have : rest = [] := by cases rest with | nil => rfl | cons _ _ => simp at hp
          subst this
          unfold bfsPure
          simp only [List.foldl_cons, List.foldl_nil, bfsCheck]
          split
          · exact ih _ _ _ (by simp) (by simpa using h)
          · exact ih _ _ _ (by simp) (by simpa using walk_snoc out d h)

theorem g2_custom1 (m : Map Val) : C03.g2 m (.custom [1]) = fun x => [m.β 1 x] := by
  funext x; simp [C03.g2]

/-- **C11 (b), walk**: on a well-formed map the darts listed for the face identifier `f` are a
    duplicate-free β1-walk of existing non-null darts starting at `f` (`o[i+1] = β1 o[i]`) -/
theorem C11_export_walk {m : Map Val} (hwf : WF 3 m) {f : Nat} (hf0 : f ≠ 0) (hf : f < m.n) :
    ∃ o, walk1 m f = some o ∧ o.head? = some f ∧ o.Nodup ∧ Walk (m.β 1) o ∧
      ∀ x, x ∈ o → x ≠ 0 ∧ x < m.n ∧ Reach (fun y => [m.β 1 y]) f x := by
  have hp : C03.PolOK (.custom [1]) := by intro b hb; simp at hb; omega
  obtain ⟨hrun, hhead, hnd, h0, hmem, hlt⟩ := C03.C03_orbit2_spec hwf hp hf0 hf
  refine ⟨C03.orb m (.custom [1]) f, ?_, hhead, hnd, ?_, ?_⟩
  · unfold walk1; rw [hrun]
  · unfold C03.orb
    rw [g2_custom1]
    exact bfsPure_walk (m.β 1) _ _ _ _ (by simp) trivial
  · intro x hx
    have := (hmem x).1 hx
    rw [g2_custom1] at this
    exact ⟨this.1, hlt x hx, this.2⟩

/-- every element but the first is the image of an element but the last -/
theorem walk_pred {f : Nat → Nat} : ∀ (l : List Nat), Walk f l → ∀ y, y ∈ l.tail →
    ∃ x, x ∈ l.dropLast ∧ y = f x := by
  intro l
  induction l with
  | nil => intro _ y hy; simp at hy
  | cons a l ih =>
      intro h y hy
      cases l with
      | nil => simp at hy
      | cons b l =>
          simp only [List.tail_cons, List.mem_cons] at hy
          rcases hy with rfl | hy
          · exact ⟨a, by simp [List.dropLast], h.1⟩
          · obtain ⟨x, hx, e⟩ := ih h.2 y (by simpa using hy)
            exact ⟨x, by rw [List.dropLast_cons_cons]; exact List.mem_cons_of_mem _ hx, e⟩

theorem getLast_not_mem_dropLast : ∀ (l : List Nat) (hne : l ≠ []), l.Nodup → l.getLast hne ∉ l.dropLast := by
  intro l hne hnd hmem
  have e := List.dropLast_concat_getLast hne
  rw [← e] at hnd
  have := (List.nodup_append.1 hnd).2.2 _ hmem (l.getLast hne) (by simp)
  exact this rfl

/-- **C11 (b), closed faces**: if no dart of the walk is 1-free (the face is closed), the successor of
    the last listed dart is the face identifier: the exported polygon is the whole closed β1 cycle -/
theorem C11_export_walk_closed {m : Map Val} (hwf : WF 3 m) {f : Nat} (hf0 : f ≠ 0) (hf : f < m.n)
    {o : List Nat} (ho : walk1 m f = some o) (hcl : ∀ x, x ∈ o → m.β 1 x ≠ 0) :
    ∃ hne : o ≠ [], m.β 1 (o.getLast hne) = f := by
  obtain ⟨o', ho', hhead, hnd, hwalk, hmemo⟩ := C11_export_walk hwf hf0 hf
  rw [ho] at ho'
  simp only [Option.some.injEq] at ho'
  subst ho'
  have hp : C03.PolOK (.custom [1]) := by intro b hb; simp at hb; omega
  have hmem := (C03.C03_orbit2_spec hwf hp hf0 hf).2.2.2.2.1
  have hoeq : o = C03.orb m (.custom [1]) f := by
    have := (C03.C03_orbit2_spec hwf hp hf0 hf).1
    unfold walk1 at ho
    rw [this] at ho
    simpa using ho.symm
  have hne : o ≠ [] := by intro e; rw [e] at hhead; simp at hhead
  refine ⟨hne, ?_⟩
  have hz := List.getLast_mem hne
  have hz1 := hcl _ hz
  -- the successor of the last dart is in the orbit
  have hmem' := hmem
  rw [← hoeq, g2_custom1] at hmem'
  have hin : m.β 1 (o.getLast hne) ∈ o :=
    (hmem' _).2 ⟨hz1, .tail (hmemo _ hz).2.2 (by simp)⟩
  -- it is the head, or the image of a dart that is not the last one
  cases o with
  | nil => exact absurd rfl hne
  | cons a rest =>
      simp only [List.head?_cons, Option.some.injEq] at hhead
      subst hhead
      rcases List.mem_cons.1 hin with e | hin'
      · exact e
      · exfalso
        obtain ⟨x, hx, e⟩ := walk_pred _ hwalk _ (by simpa using hin')
        have hxo : x ∈ a :: rest := List.dropLast_subset _ hx
        have hxlt := (hmemo x hxo).2.1
        have hzlt := (hmemo _ hz).2.1
        have i1 := hwf.inv01 _ hzlt hz1
        have i2 := hwf.inv01 x hxlt (by rw [← e]; exact hz1)
        have : (a :: rest).getLast hne = x := by rw [← i1, e, i2]
        rw [← this] at hx
        exact getLast_not_mem_dropLast _ hne hnd hx

theorem indexIn_spec : ∀ (l : List Nat) (v : Nat), v ∈ l → ∃ k, indexIn l v = some k ∧ l[k]? = some v := by
  intro l
  induction l with
  | nil => intro v h; simp at h
  | cons x xs ih =>
      intro v h
      unfold indexIn
      by_cases e : x = v
      · subst e; exact ⟨0, by simp, by simp⟩
      · rcases List.mem_cons.1 h with h | h
        · exact absurd h.symm e
        · obtain ⟨k, hk, hk'⟩ := ih v h
          exact ⟨k + 1, by simp [e, hk], by simpa using hk'⟩

/-- **C11 (b), point indices**: the index listed for an in-use dart `d` is the position, in
    `iter_vertices`, of the vertex identifier of `d` (the smallest dart of its vertex orbit, C03) -/
theorem C11_export_pointOf {m : Map Val} (hwf : WF 3 m) {d : Nat} (hd0 : d ≠ 0) (hd : d < m.n)
    (hu : m.unused d = false) :
    ∃ k, pointOf m (iterVertices2 m) d = some k ∧
      (iterVertices2 m)[k]? = some (C03.cellId m .vertex d) := by
  have hv := (C03.C03_vertexId2_min hwf hd0 hd).1
  have hmem : C03.cellId m .vertex d ∈ iterVertices2 m :=
    (C03.C03_iterVertices2_mem hwf _).2 ⟨d, hd0, hd, hu, rfl⟩
  obtain ⟨k, hk, hk'⟩ := indexIn_spec _ _ hmem
  refine ⟨k, ?_, hk'⟩
  unfold pointOf vidNT
  rw [hv]
  exact hk

/-- non-vacuity of (b): the map imported from `exCells` is exported again -/
def exMap : Map Val := okGet (importCells exPts exCells 0)
instance : Inhabited (List Val × List VCell) := ⟨([], [])⟩
example : exportPiece exMap = .ok (okGet (exportPiece exMap)) := eq_ok_of_isOk (by decide +kernel)
example : (okGet (exportPiece exMap)).1.length = 6 ∧ (okGet (exportPiece exMap)).2.length = 9 ∧
    (okGet (exportPiece exMap)).2.getLast? = some ⟨9, [1, 4, 5, 2]⟩ := by decide +kernel
example : WF 3 exMap := C11_import_ok_WF _ _ _ _ (eq_ok_of_isOk (by decide +kernel))
example : walk1 exMap 7 = some [7, 8, 9, 10] ∧ ∀ x, x ∈ [7, 8, 9, 10] → exMap.β 1 x ≠ 0 := by decide +kernel
example : exMap.unused 7 = false ∧ pointOf exMap (iterVertices2 exMap) 7 = some 1 := by decide +kernel
/-- the round trip of this mesh gives the same map up to the numbering of the darts -/
example : roundTrip exMap = .ok (okGet (roundTrip exMap)) := eq_ok_of_isOk (by decide +kernel)
example : WF 3 (okGet (roundTrip exMap)) := C11_roundTrip_ok_WF _ _ (eq_ok_of_isOk (by decide +kernel))

/-! ## (d) the known finding C11-crack: free opposite sides are sewn by the import -/

/-- number of 2-free in-use darts (boundary sides) -/
def nFree2 (m : Map Val) : Nat :=
  ((List.range m.n).filter (fun d => d ≠ 0 ∧ m.unused d = false ∧ m.β 2 d = 0)).length

/-- the square A B C D with two interior vertices u, v, cut into six counter-clockwise triangles -/
def crackPts : List Val := [.pt 0 0 0, .pt 4 0 0, .pt 4 4 0, .pt 0 4 0, .pt 1 2 0, .pt 3 2 0]
def crackCells : List VCell :=
  [⟨5, [0, 1, 4]⟩, ⟨5, [1, 5, 4]⟩, ⟨5, [1, 2, 5]⟩, ⟨5, [2, 3, 5]⟩, ⟨5, [3, 4, 5]⟩, ⟨5, [3, 0, 4]⟩]
/-- … in which the interior edge u–v (dart 14 runs u → v) has been 2-unsewn: a crack.  Both end
    vertices are interior, so they stay whole: the two sides of the crack run between the same two
    vertices in opposite directions. -/
def crackMap : Map Val :=
  (atomically (twoUnsew2 cfg0 19 14) (okGet (importCells crackPts crackCells 0))).2

/-- the checks are bundled so that the kernel evaluates the two maps once -/
def checkBefore (m : Map Val) : Bool :=
  decide (WF 3 m) && decide (∀ d, d < m.n → d ≠ 0 → m.β 1 (m.β 1 (m.β 1 d)) = d) &&
  decide ((iterFaces2 m).length = 6) && decide ((iterVertices2 m).length = 6) && decide (nFree2 m = 6) &&
  decide (m.β 2 14 = 0) && decide (m.β 2 5 = 0)
def checkAfter (m' : Map Val) : Bool :=
  decide ((iterFaces2 m').length = 6) && decide ((iterVertices2 m').length = 6) && decide (nFree2 m' = 4)

theorem crack_before : checkBefore crackMap = true := by decide +kernel
theorem crack_after : (isOk (roundTrip crackMap) && checkAfter (okGet (roundTrip crackMap))) = true := by
  decide +kernel

/-- **C11 (d)**, witness of the known finding: `crackMap` is a well-formed planar mesh of six closed
    triangles with six vertices and six boundary sides (four of the square, two of the crack: darts 14
    and 5); export followed by import succeeds and yields a mesh with six triangles and six vertices
    again but only FOUR boundary sides: the crack has been sewn.  Hence "two faces share a side exactly
    when they did / same boundary" fails for this input, and the hypothesis of DESIGN §7 (c) ("no two
    darts share the same (origin, target) vertex pair") does not exclude it. -/
theorem C11_crack_is_sewn :
    WF 3 crackMap ∧ (∀ d, d < crackMap.n → d ≠ 0 → crackMap.β 1 (crackMap.β 1 (crackMap.β 1 d)) = d) ∧
    (iterFaces2 crackMap).length = 6 ∧ (iterVertices2 crackMap).length = 6 ∧ nFree2 crackMap = 6 ∧
    crackMap.β 2 14 = 0 ∧ crackMap.β 2 5 = 0 ∧
    roundTrip crackMap = .ok (okGet (roundTrip crackMap)) ∧
    (iterFaces2 (okGet (roundTrip crackMap))).length = 6 ∧
    (iterVertices2 (okGet (roundTrip crackMap))).length = 6 ∧
    nFree2 (okGet (roundTrip crackMap)) = 4 := by
  have hb := crack_before
  have ha := crack_after
  simp only [checkBefore, checkAfter, Bool.and_eq_true, decide_eq_true_eq] at hb ha
  obtain ⟨⟨⟨⟨⟨⟨b1, b2⟩, b3⟩, b4⟩, b5⟩, b6⟩, b7⟩ := hb
  obtain ⟨a0, ⟨a1, a2⟩, a3⟩ := ha
  exact ⟨b1, b2, b3, b4, b5, b6, b7, eq_ok_of_isOk a0, a1, a2, a3⟩

end HC.C11
