/-
  C16 / C17 — the chain: every crossing of the boundary with a grid line and every retained point of interest is a
  vertex of the map the modelled pipeline returns (the central clause of C16; for capture: anchored to a node).

  See the end of the file for the statement (`C16_crossings_are_vertices`, `C16_poi_are_vertices`,
  `C17_poi_are_node_vertices`) and the list of what is proved and what is a named hypothesis.
-/
import Honeycomb.Props.C14c
import Honeycomb.Props.C16Cross
import Honeycomb.Props.C16Insert
import Honeycomb.Props.C16Edges
import Honeycomb.Props.C16EdgeInsert

set_option linter.unusedSimpArgs false
set_option linter.unusedVariables false

namespace HC.C16
open HC

/-! ## "the dart `x` starts at a vertex carrying the value `P`" -/

/-- `x` is a dart in use and the slot of its vertex identifier in the coordinate storage holds `P` -/
def Carries (m : Map Val) (x : Nat) (P : Val) : Prop :=
  C01.InUse m x ∧ m.att 0 (C03.cellId m .vertex x) = some P

/-- the cell identifier only depends on the set of darts reachable -/
theorem cellId_of_reach {m m' : Map Val} (hwf : WF 3 m) (hwf' : WF 3 m') {y : Nat} (hy0 : y ≠ 0) (hy : y < m.n)
    (hy' : y < m'.n) (h : ∀ x, x ≠ 0 → (Reach (C03.g2 m' .vertex) y x ↔ Reach (C03.g2 m .vertex) y x)) :
    C03.cellId m' .vertex y = C03.cellId m .vertex y := by
  have s' := C03.cellId_spec hwf' (pol := .vertex) trivial hy0 hy'
  have s := C03.cellId_spec hwf (pol := .vertex) trivial hy0 hy
  have same : ∀ x, x ∈ C03.orb m' .vertex y ↔ x ∈ C03.orb m .vertex y := by
    intro x
    rw [C03.mem_orb hwf' (pol := .vertex) trivial hy0 hy', C03.mem_orb hwf (pol := .vertex) trivial hy0 hy]
    constructor
    · rintro ⟨a, b⟩; exact ⟨a, (h x a).1 b⟩
    · rintro ⟨a, b⟩; exact ⟨a, (h x a).2 b⟩
  exact Nat.le_antisymm (s'.2 _ ((same _).2 s.1)) (s.2 _ ((same _).1 s'.1))

/-- the dart after the opposite dart starts at the same vertex -/
theorem cellId_b1b2 {m : Map Val} (hwf : WF 3 m) {x : Nat} (hx0 : x ≠ 0) (hx : x < m.n)
    (hy0 : m.β 1 (m.β 2 x) ≠ 0) : C03.cellId m .vertex (m.β 1 (m.β 2 x)) = C03.cellId m .vertex x := by
  have hy : m.β 1 (m.β 2 x) < m.n := hwf.range 1 (by omega) _ (hwf.range 2 (by omega) _ hx)
  refine ((C03.C03_same_id_iff_same_cell hwf (pol := .vertex) trivial hx0 hx hy0 hy).1.2 ?_).symm
  exact Reach.tail (Reach.refl x) (by simp [C03.g2])

/-! ## `add_free_darts` keeps the vertices -/

theorem reach_addFreeDarts {m : Map Val} (hwf : WF 3 m) (k : Nat) {y : Nat} (hy : y < m.n) (x : Nat) :
    Reach (C03.g2 (m.addFreeDarts k).2 .vertex) y x ↔ Reach (C03.g2 m .vertex) y x := by
  have hs := hwf.toSized
  have eβ : ∀ i d, i < 3 → d < m.n → (m.addFreeDarts k).2.β i d = m.β i d := by
    intro i d hi hd; rw [addFreeDarts_β hs k i d hi, if_pos hd]
  have eg : ∀ d, d < m.n → C03.g2 (m.addFreeDarts k).2 .vertex d = C03.g2 m .vertex d := by
    intro d hd
    simp only [C03.g2]
    rw [eβ 2 d (by omega) hd, eβ 0 d (by omega) hd, eβ 1 _ (by omega) (hwf.range 2 (by omega) d hd),
      eβ 2 _ (by omega) (hwf.range 0 (by omega) d hd)]
  have hlt : ∀ d, d < m.n → ∀ z, z ∈ C03.g2 m .vertex d → z < m.n := by
    intro d hd z hz
    simp only [C03.g2, List.mem_cons, List.mem_nil_iff, or_false] at hz
    rcases hz with rfl | rfl
    · exact hwf.range 1 (by omega) _ (hwf.range 2 (by omega) d hd)
    · exact hwf.range 2 (by omega) _ (hwf.range 0 (by omega) d hd)
  constructor
  · intro h
    have : Reach (C03.g2 m .vertex) y x ∧ x < m.n := by
      induction h with
      | refl => exact ⟨Reach.refl _, hy⟩
      | tail _ hc ih =>
          rw [eg _ ih.2] at hc
          exact ⟨Reach.tail ih.1 hc, hlt _ ih.2 _ hc⟩
    exact this.1
  · intro h
    have : Reach (C03.g2 (m.addFreeDarts k).2 .vertex) y x ∧ x < m.n := by
      induction h with
      | refl => exact ⟨Reach.refl _, hy⟩
      | tail _ hc ih =>
          exact ⟨Reach.tail ih.1 (by rw [eg _ ih.2]; exact hc), hlt _ ih.2 _ hc⟩
    exact this.1

theorem carries_addFreeDarts {m : Map Val} (hwf : WF 3 m) (k : Nat) {x : Nat} {P : Val} (h : Carries m x P) :
    Carries (m.addFreeDarts k).2 x P := by
  have hs := hwf.toSized
  obtain ⟨⟨x0, xlt, xu⟩, hat⟩ := h
  have w' : WF 3 (m.addFreeDarts k).2 := hwf.addFreeDarts (by omega) k
  have hn : (m.addFreeDarts k).2.n = m.n + k := rfl
  have hid : C03.cellId (m.addFreeDarts k).2 .vertex x = C03.cellId m .vertex x :=
    cellId_of_reach hwf w' x0 xlt (by rw [hn]; omega) (fun z _ => reach_addFreeDarts hwf k xlt z)
  refine ⟨⟨x0, by rw [hn]; omega, by rw [addFreeDarts_unused hs, if_pos xlt]; exact xu⟩, ?_⟩
  rw [hid]
  -- the storage keeps its old slots
  have hv := (C03.cellId_spec hwf (pol := .vertex) trivial x0 xlt).1
  have hvlt : C03.cellId m .vertex x < m.n :=
    ((C03.C03_orbit2_spec hwf (pol := .vertex) trivial x0 xlt).2.2.2.2.2) _ hv
  rw [← hat]
  unfold Map.addFreeDarts Map.att
  simp only
  by_cases h0 : 0 < m.a.size
  · rw [rd_map _ _ _ h0, rd_ext_lt _ _ _ _ (by have := hs.asz 0 h0; omega)]
  · rw [rd_oob (a := m.a.map _) (i := 0) (by simpa using Nat.le_of_not_lt h0), rd_oob (a := m.a) (i := 0) (Nat.le_of_not_lt h0)]

/-! ## one `insert_vertices_on_edge` on a block `off ..+ 2·len` -/

/-- darts outside the block keep what they carry -/
theorem carries_insert_frame {m m' : Map Val} {e off len : Nat} {ts : List Rat} (hlen : ts.length = len) (hwf : WF 3 m)
    (he : C01.InUse m e) (hlive : ∀ d, d ∈ List.range' off (2 * len) → m.unused d = false)
    (hr : run (insertVerticesOnEdge m.n e (List.range' off (2 * len)) ts) m = (.ok (), m'))
    {x : Nat} {P : Val} (hx : x < off ∨ off + 2 * len ≤ x) (h : Carries m x P) : Carries m' x P := by
  have hfhnd : ((List.range' off (2 * len)).take ts.length).Nodup := (List.nodup_range').sublist (List.take_sublist _ _)
  have inv := C14.insertVertices_inv m m' e _ _ hwf he hlive (fun _ => List.nodup_range') hr
  obtain ⟨⟨x0, xlt, xu⟩, hat⟩ := h
  have hold : C14.OldDart m e ((List.range' off (2 * len)).take ts.length) ((List.range' off (2 * len)).drop ts.length) x := by
    refine ⟨fun hh => ?_, fun _ hh => ?_⟩
    · have := List.mem_range'_1.1 (List.mem_of_mem_take hh); omega
    · have := List.mem_range'_1.1 (List.mem_of_mem_drop hh); omega
  have := C14.C14_old_vertices_keep_coordinates m m' e _ _ hwf he hlive hfhnd (fun _ => List.nodup_range') hr x hold x0 xlt 0
  exact ⟨⟨x0, by rw [inv.n_eq]; exact xlt, by unfold Map.unused; rw [inv.u_eq]; exact xu⟩, by rw [this]; exact hat⟩

/-- the new vertices: the `i`-th dart of the first half, and its mirror on the second side, start at the point at
    position `ts[i]` between the two end points of the edge -/
theorem carries_insert_new {m m' : Map Val} {e off len : Nat} {ts : List Rat} (hlen : ts.length = len) (hwf : WF 3 m)
    (he : C01.InUse m e) (hb1 : m.β 1 e ≠ 0) (hlive : ∀ d, d ∈ List.range' off (2 * len) → m.unused d = false)
    (hr : run (insertVerticesOnEdge m.n e (List.range' off (2 * len)) ts) m = (.ok (), m'))
    {v1 v2 : Val} (h1 : Carries m e v1) (h2 : Carries m (m.β 1 e) v2) {i : Nat} {t : Rat} (hi : ts[i]? = some t) :
    Carries m' (off + i) (placeVal v1 v2 (some t)) ∧
    (m.β 2 e ≠ 0 → Carries m' (off + (len + (len - 1 - i))) (placeVal v1 v2 (some t))) := by
  have hilt : i < len := by
    rcases Nat.lt_or_ge i len with h | h
    · exact h
    · rw [List.getElem?_eq_none (by rw [hlen]; exact h)] at hi; cases hi
  have hsplit : List.range' off (2 * len) = List.range' off len ++ List.range' (off + len) len := by
    rw [show 2 * len = len + len by omega, ← List.range'_append, Nat.one_mul]
  have htake : (List.range' off (2 * len)).take ts.length = List.range' off len := by
    rw [hlen, hsplit, List.take_left' (by rw [List.length_range'])]
  have hdrop : (List.range' off (2 * len)).drop ts.length = List.range' (off + len) len := by
    rw [hlen, hsplit, List.drop_left' (by rw [List.length_range'])]
  have hfhnd : ((List.range' off (2 * len)).take ts.length).Nodup := by rw [htake]; exact List.nodup_range'
  have inv := C14.insertVertices_inv m m' e _ _ hwf he hlive (fun _ => List.nodup_range') hr
  obtain ⟨w', hres⟩ := C14.C14_insertVertices_beta_structure m m' e _ _ hwf he hlive hfhnd (fun _ => List.nodup_range') hr
  obtain ⟨vid1, vid2, a1, a2, r1, r2, g1, g2', hpos, _⟩ :=
    C14.C14_new_vertex_position_full m m' e _ _ hwf he hlive hfhnd (fun _ => List.nodup_range') hr
  rw [htake] at hpos hres
  rw [hdrop] at hres
  -- the two end points that were read are the ones carried
  have e1 : vid1 = C03.cellId m .vertex e := by
    have := (C03.C03_vertexId2_min hwf he.1 he.2.1).1
    rw [this] at r1; injection r1 with r1; injection r1 with r1; exact r1.symm
  have hb1lt : m.β 1 e < m.n := hwf.range 1 (by omega) e he.2.1
  have e2 : vid2 = C03.cellId m .vertex (m.β 1 e) := by
    rw [if_pos hb1] at r2
    have := (C03.C03_vertexId2_min hwf hb1 hb1lt).1
    rw [this] at r2; injection r2 with r2; injection r2 with r2; exact r2.symm
  have ea1 : a1 = v1 := by rw [e1, h1.2] at g1; injection g1 with g1; exact g1.symm
  have ea2 : a2 = v2 := by rw [e2, h2.2] at g2'; injection g2' with g2'; exact g2'.symm
  subst ea1 ea2
  -- the `i`-th dart of the first half
  have hd_lt : off + i < m.n := by
    have := hlive (off + i) (List.mem_range'_1.2 ⟨by omega, by omega⟩)
    have hok := (C14.insertVertices_ok_elim hr).2.1 (off + i) (List.mem_range'_1.2 ⟨by omega, by omega⟩)
    exact ((hwf.toSized.okβ 0 _).1 hok.1).2
  have hd0 : off + i ≠ 0 := by
    refine (C14.insertVertices_ok_elim hr).2.2.2.1 (off + i) ?_
    rw [htake]; exact List.mem_range'_1.2 ⟨by omega, by omega⟩
  have iu : C01.InUse m' (off + i) :=
    ⟨hd0, by rw [inv.n_eq]; exact hd_lt, by unfold Map.unused; rw [inv.u_eq]; exact hlive _ (List.mem_range'_1.2 ⟨by omega, by omega⟩)⟩
  have hmemz : (t, off + i) ∈ ts.zip (List.range' off len) := by
    have : (ts.zip (List.range' off len))[i]? = some (t, off + i) := by
      rw [List.getElem?_zip_eq_some]
      exact ⟨hi, by rw [List.getElem?_range' hilt]; simp⟩
    exact List.mem_of_getElem? this
  have hrun := (C03.C03_vertexId2_min w' hd0 (by rw [inv.n_eq]; exact hd_lt)).1
  rw [inv.n_eq] at hrun
  have c1 : Carries m' (off + i) (placeVal a1 a2 (some t)) :=
    ⟨iu, hpos (t, off + i) hmemz _ (by rw [hrun])⟩
  refine ⟨c1, fun he2 => ?_⟩
  -- its mirror: β1 (β2 ·) is the dart of the first half
  obtain ⟨hpz, hpl1, _⟩ := hres.pairs he2
  have hchain := C14.B1Chain.index (List.range' off len) e i hres.side1.1 (by rw [List.length_range']; exact hilt)
  have hfi : (e :: List.range' off len).getD (i + 1) 0 = off + i := by
    rw [List.getD_cons_succ, range'_getD hilt]
  have hb2 : m'.β 2 (off + (len + (len - 1 - i))) = (e :: List.range' off len).getD i 0 := by
    cases i with
    | zero =>
        have hl : (List.range' (off + len) len).getLastD (m.β 2 e) = off + (len + (len - 1 - 0)) := by
          rw [C14.getLastD_index, List.length_range']
          have : len = (len - 1) + 1 := by omega
          rw [this, List.getD_cons_succ, range'_getD (by omega)]
          omega
        rw [← hl, hpl1]; rfl
    | succ i' =>
        have := C14.zip_index (Q := fun p => m'.β 2 p.1 = p.2 ∧ m'.β 2 p.2 = p.1) hpz (len - (i' + 1))
          (by simp only [List.length_cons, List.length_range']; omega)
          (by simp only [List.length_reverse, List.length_range']; omega)
        have e1' : (m.β 2 e :: List.range' (off + len) len).getD (len - (i' + 1)) 0 = off + (len + (len - 1 - (i' + 1))) := by
          have : len - (i' + 1) = (len - 1 - (i' + 1)) + 1 := by omega
          rw [this, List.getD_cons_succ, range'_getD (by omega)]
          omega
        have e2' : (List.range' off len).reverse.getD (len - (i' + 1)) 0 = (e :: List.range' off len).getD (i' + 1) 0 := by
          rw [List.getD_cons_succ, List.getD_eq_getElem?_getD,
            List.getElem?_eq_getElem (by simp only [List.length_reverse, List.length_range']; omega), List.getElem_reverse]
          simp only [List.length_range', List.getElem_range', Option.getD_some]
          rw [range'_getD (by omega)]
          omega
        rw [e1', e2'] at this
        exact this.1
  have hx_lt : off + (len + (len - 1 - i)) < m.n := by
    have hok := (C14.insertVertices_ok_elim hr).2.1 (off + (len + (len - 1 - i))) (List.mem_range'_1.2 ⟨by omega, by omega⟩)
    exact ((hwf.toSized.okβ 0 _).1 hok.1).2
  have hx0 : off + (len + (len - 1 - i)) ≠ 0 := by
    refine (C14.insertVertices_ok_elim hr).2.2.2.2.1 he2 _ ?_
    rw [hdrop]; exact List.mem_range'_1.2 ⟨by omega, by omega⟩
  have hx_lt' : off + (len + (len - 1 - i)) < m'.n := by rw [inv.n_eq]; exact hx_lt
  have hstep : m'.β 1 (m'.β 2 (off + (len + (len - 1 - i)))) = off + i := by rw [hb2, hchain, hfi]
  have hid := cellId_b1b2 w' hx0 hx_lt' (by rw [hstep]; exact hd0)
  rw [hstep] at hid
  exact ⟨⟨hx0, hx_lt', by unfold Map.unused; rw [inv.u_eq]; exact hlive _ (List.mem_range'_1.2 ⟨by omega, by omega⟩)⟩,
    by rw [← hid]; exact c1.2⟩

end HC.C16
