/-
  C16 / C17 — the chain: every crossing of the boundary with a grid line and every retained point of interest is a
  vertex of the map the modelled pipeline returns (the central clause of C16; for capture: anchored to a node).

  `pipelineMap m0 g eps poi verts segs ha keys2 keys4` = steps 1-5 of the model on the grid map `m0`
  (`slotsAll` / `segmentsOf` → `stepsTwoThree` → `edgeData` → `stepFive`), `keys2` / `keys4` the iteration orders of the two
  `HashMap`s; "`x` is a vertex at `P`" is `Carries m x P`: `x` is a dart in use and the slot of its vertex identifier
  (`C03.cellId m .vertex x`, what `vertex_id` returns) in the coordinate storage holds `P`.

  THEOREMS
  * `C16_crossings_are_vertices`  for every grid, every geometry whose segments are in eps-general position (`GenPos`), both
                                  iteration orders arbitrary: if the pipeline succeeds, every crossing of every segment with
                                  a grid line is a vertex of the result, at the crossing point
  * `C16_poi_are_vertices`        every point of interest lying on a chain between two crossings is a vertex of the result,
                                  at its own coordinates (no general-position hypothesis)
  * `C17_poi_are_node_vertices`   … and in capture (anchor storages) that vertex is anchored `Node(j)`
  with, on the way,
  * `insertIntersections_carries` the ALL-EDGES INDUCTION of step 3 (distinct edges get disjoint fresh blocks; the per-edge
    `C16_steps23_carries`         facts of C14 transport along the frame `carries_insert_frame`): every written slot's dart
                                  starts at the point at position `t` of the side that was hit, whatever the order
  * `carries_buildBaseEdge`       `build_base_edge` keeps the vertex (identifier and slot) of every older dart — the two new
                                  darts are spliced into the two end vertices (orbit calculus on the explicit β tables)
  * `carriesS_insertOneEdge`, `insertEdgesFrom_carries`, `C16_stepFive_carries`
                                  step 5 keeps every older vertex with its coordinates and anchors, and turns every
                                  intermediate point into a vertex (anchored `Node(edge index)`)

  PROVED / DISCHARGED inside the chain: completeness and slot of the crossing (`C16_crossings_complete`,
  `C16_slots_genpos`); identifiers = slot numbers; the induction over all edges of step 3; well-formedness and absence of
  tags after step 3; vertex stability through `add_free_darts`, `build_base_edge`, `insert_vertices_on_edge`, the placeholder
  replacement and `mark_boundary`; independence of both `HashMap` orders (they are universally quantified parameters).

  FULL FORMS (`C16_crossings_are_vertices`, `C16_poi_are_vertices`, `C17_poi_are_node_vertices`): `KeysOK` and `EdgeDartsInUse`
  are PROVED (`keysOK_of_hit_edges`, `C16_edge_darts_in_use` with the second all-edges induction `insertIntersections_linked`
  and the analysis of `new_segments` in general position `segmentsFrom_ok`); what is left: `SideCoords`, `HitDartsOK` (about
  the grid map only; both are theorems on the builder's grid: `Props/C16ChainGrid.lean`), `KeysAreHitEdges` (about the `HashMap`
  only), "the keys of step 4 are intersections", `GenPos`, success of the run, `OnChain`.  The `_partial` forms below keep
  `KeysOK` / `EdgeDartsInUse` as hypotheses.

  NAMED HYPOTHESES of the `_partial` forms (each satisfiable — the two examples at the end instantiate everything on a 3 × 1 grid — and each
  evaluated by the tie on every generated case):
  * success of the run (`pipelineMap … = some m'`): in particular step 5 does not hit the consecutive-darts panic of
    `build_base_edge` and `insert_vertices_on_edge` finds its end points; a panicking run returns no map
  * `SideCoords`      the grid map carries, at the dart of every crossing, the side the kernel computed (builder coordinates +
                      `C16_crossings_sound`; tie: oracle clause `position` of the `gids` stream)
  * `KeysOK`          the iteration order of step 2 lists distinct in-use identifier darts, among them every hit edge
                      (what a `HashMap` keyed by `edge_id` yields; tie: the order is read off the implementation)
  * `EdgeDartsInUse`  the start / end darts step 4 hands to step 5 are in use (tie: clause `edge-darts-in-use`)
  * `OnChain`         (points of interest only) the point lies on a chain leaving an intersection key — false exactly for the
                      loops inside one cell of findings D16a / D17a
  NOT NEEDED by these clauses, and not proved: that each new edge lies inside ONE cell (`EdgesInOneCell`: a geometric
  statement about faces, evaluated by the tie clause `edges-in-one-cell`; `C16_between_crossings_one_cell` covers one
  segment); f64 rounding.
-/
import Honeycomb.Props.C14c
import Honeycomb.Props.C16Cross
import Honeycomb.Props.C16Insert
import Honeycomb.Props.C16Edges
import Honeycomb.Props.C16EdgeInsert

set_option linter.unusedSimpArgs false
set_option linter.unusedVariables false

namespace HC.C16
open HC

/-! ## "the dart `x` starts at a vertex carrying the value `P`" -/

/-- `x` is a dart in use and the slot of its vertex identifier in the coordinate storage holds `P` -/
def CarriesS (m : Map Val) (s x : Nat) (P : Val) : Prop :=
  C01.InUse m x ∧ m.att s (C03.cellId m .vertex x) = some P

/-- … in the coordinate storage -/
def Carries (m : Map Val) (x : Nat) (P : Val) : Prop := CarriesS m 0 x P

/-- the cell identifier only depends on the set of darts reachable -/
theorem cellId_of_reach {m m' : Map Val} (hwf : WF 3 m) (hwf' : WF 3 m') {y : Nat} (hy0 : y ≠ 0) (hy : y < m.n)
    (hy' : y < m'.n) (h : ∀ x, x ≠ 0 → (Reach (C03.g2 m' .vertex) y x ↔ Reach (C03.g2 m .vertex) y x)) :
    C03.cellId m' .vertex y = C03.cellId m .vertex y := by
  have s' := C03.cellId_spec hwf' (pol := .vertex) trivial hy0 hy'
  have s := C03.cellId_spec hwf (pol := .vertex) trivial hy0 hy
  have same : ∀ x, x ∈ C03.orb m' .vertex y ↔ x ∈ C03.orb m .vertex y := by
    intro x
    rw [C03.mem_orb hwf' (pol := .vertex) trivial hy0 hy', C03.mem_orb hwf (pol := .vertex) trivial hy0 hy]
    constructor
    · rintro ⟨a, b⟩; exact ⟨a, (h x a).1 b⟩
    · rintro ⟨a, b⟩; exact ⟨a, (h x a).2 b⟩
  exact Nat.le_antisymm (s'.2 _ ((same _).2 s.1)) (s.2 _ ((same _).1 s'.1))

/-- the dart after the opposite dart starts at the same vertex -/
theorem cellId_b1b2 {m : Map Val} (hwf : WF 3 m) {x : Nat} (hx0 : x ≠ 0) (hx : x < m.n)
    (hy0 : m.β 1 (m.β 2 x) ≠ 0) : C03.cellId m .vertex (m.β 1 (m.β 2 x)) = C03.cellId m .vertex x := by
  have hy : m.β 1 (m.β 2 x) < m.n := hwf.range 1 (by omega) _ (hwf.range 2 (by omega) _ hx)
  refine ((C03.C03_same_id_iff_same_cell hwf (pol := .vertex) trivial hx0 hx hy0 hy).1.2 ?_).symm
  exact Reach.tail (Reach.refl x) (by simp [C03.g2])

/-! ## `add_free_darts` keeps the vertices -/

theorem reach_addFreeDarts {m : Map Val} (hwf : WF 3 m) (k : Nat) {y : Nat} (hy : y < m.n) (x : Nat) :
    Reach (C03.g2 (m.addFreeDarts k).2 .vertex) y x ↔ Reach (C03.g2 m .vertex) y x := by
  have hs := hwf.toSized
  have eβ : ∀ i d, i < 3 → d < m.n → (m.addFreeDarts k).2.β i d = m.β i d := by
    intro i d hi hd; rw [addFreeDarts_β hs k i d hi, if_pos hd]
  have eg : ∀ d, d < m.n → C03.g2 (m.addFreeDarts k).2 .vertex d = C03.g2 m .vertex d := by
    intro d hd
    simp only [C03.g2]
    rw [eβ 2 d (by omega) hd, eβ 0 d (by omega) hd, eβ 1 _ (by omega) (hwf.range 2 (by omega) d hd),
      eβ 2 _ (by omega) (hwf.range 0 (by omega) d hd)]
  have hlt : ∀ d, d < m.n → ∀ z, z ∈ C03.g2 m .vertex d → z < m.n := by
    intro d hd z hz
    simp only [C03.g2, List.mem_cons, List.mem_nil_iff, or_false] at hz
    rcases hz with rfl | rfl
    · exact hwf.range 1 (by omega) _ (hwf.range 2 (by omega) d hd)
    · exact hwf.range 2 (by omega) _ (hwf.range 0 (by omega) d hd)
  constructor
  · intro h
    have : Reach (C03.g2 m .vertex) y x ∧ x < m.n := by
      induction h with
      | refl => exact ⟨Reach.refl _, hy⟩
      | tail _ hc ih =>
          rw [eg _ ih.2] at hc
          exact ⟨Reach.tail ih.1 hc, hlt _ ih.2 _ hc⟩
    exact this.1
  · intro h
    have : Reach (C03.g2 (m.addFreeDarts k).2 .vertex) y x ∧ x < m.n := by
      induction h with
      | refl => exact ⟨Reach.refl _, hy⟩
      | tail _ hc ih =>
          exact ⟨Reach.tail ih.1 (by rw [eg _ ih.2]; exact hc), hlt _ ih.2 _ hc⟩
    exact this.1

theorem carries_addFreeDarts {m : Map Val} (hwf : WF 3 m) (k : Nat) {x : Nat} {P : Val} (h : Carries m x P) :
    Carries (m.addFreeDarts k).2 x P := by
  have hs := hwf.toSized
  obtain ⟨⟨x0, xlt, xu⟩, hat⟩ := h
  have w' : WF 3 (m.addFreeDarts k).2 := hwf.addFreeDarts (by omega) k
  have hn : (m.addFreeDarts k).2.n = m.n + k := rfl
  have hid : C03.cellId (m.addFreeDarts k).2 .vertex x = C03.cellId m .vertex x :=
    cellId_of_reach hwf w' x0 xlt (by rw [hn]; omega) (fun z _ => reach_addFreeDarts hwf k xlt z)
  refine ⟨⟨x0, by rw [hn]; omega, by rw [addFreeDarts_unused hs, if_pos xlt]; exact xu⟩, ?_⟩
  rw [hid]
  -- the storage keeps its old slots
  have hv := (C03.cellId_spec hwf (pol := .vertex) trivial x0 xlt).1
  have hvlt : C03.cellId m .vertex x < m.n :=
    ((C03.C03_orbit2_spec hwf (pol := .vertex) trivial x0 xlt).2.2.2.2.2) _ hv
  rw [← hat]
  unfold Map.addFreeDarts Map.att
  simp only
  by_cases h0 : 0 < m.a.size
  · rw [rd_map _ _ _ h0, rd_ext_lt _ _ _ _ (by have := hs.asz 0 h0; omega)]
  · rw [rd_oob (a := m.a.map _) (i := 0) (by simpa using Nat.le_of_not_lt h0), rd_oob (a := m.a) (i := 0) (Nat.le_of_not_lt h0)]

/-! ## one `insert_vertices_on_edge` on a block `off ..+ 2·len` -/

/-- darts outside the block keep what they carry -/
theorem carries_insert_frame {m m' : Map Val} {e off len : Nat} {ts : List Rat} (hlen : ts.length = len) (hwf : WF 3 m)
    (he : C01.InUse m e) (hlive : ∀ d, d ∈ List.range' off (2 * len) → m.unused d = false)
    (hr : run (insertVerticesOnEdge m.n e (List.range' off (2 * len)) ts) m = (.ok (), m'))
    {x s : Nat} {P : Val} (hx : x < off ∨ off + 2 * len ≤ x) (h : CarriesS m s x P) : CarriesS m' s x P := by
  have hfhnd : ((List.range' off (2 * len)).take ts.length).Nodup := (List.nodup_range').sublist (List.take_sublist _ _)
  have inv := C14.insertVertices_inv m m' e _ _ hwf he hlive (fun _ => List.nodup_range') hr
  obtain ⟨⟨x0, xlt, xu⟩, hat⟩ := h
  have hold : C14.OldDart m e ((List.range' off (2 * len)).take ts.length) ((List.range' off (2 * len)).drop ts.length) x := by
    refine ⟨fun hh => ?_, fun _ hh => ?_⟩
    · have := List.mem_range'_1.1 (List.mem_of_mem_take hh); omega
    · have := List.mem_range'_1.1 (List.mem_of_mem_drop hh); omega
  have := C14.C14_old_vertices_keep_coordinates m m' e _ _ hwf he hlive hfhnd (fun _ => List.nodup_range') hr x hold x0 xlt s
  exact ⟨⟨x0, by rw [inv.n_eq]; exact xlt, by unfold Map.unused; rw [inv.u_eq]; exact xu⟩, by rw [this]; exact hat⟩

/-- the new vertices: the `i`-th dart of the first half, and its mirror on the second side, start at the point at
    position `ts[i]` between the two end points of the edge -/
theorem carries_insert_new {m m' : Map Val} {e off len : Nat} {ts : List Rat} (hlen : ts.length = len) (hwf : WF 3 m)
    (he : C01.InUse m e) (hb1 : m.β 1 e ≠ 0) (hlive : ∀ d, d ∈ List.range' off (2 * len) → m.unused d = false)
    (hr : run (insertVerticesOnEdge m.n e (List.range' off (2 * len)) ts) m = (.ok (), m'))
    {v1 v2 : Val} (h1 : Carries m e v1) (h2 : Carries m (m.β 1 e) v2) {i : Nat} {t : Rat} (hi : ts[i]? = some t) :
    Carries m' (off + i) (placeVal v1 v2 (some t)) ∧
    (m.β 2 e ≠ 0 → Carries m' (off + (len + (len - 1 - i))) (placeVal v1 v2 (some t))) := by
  have hilt : i < len := by
    rcases Nat.lt_or_ge i len with h | h
    · exact h
    · rw [List.getElem?_eq_none (by rw [hlen]; exact h)] at hi; cases hi
  have hsplit : List.range' off (2 * len) = List.range' off len ++ List.range' (off + len) len := by
    rw [show 2 * len = len + len by omega, ← List.range'_append, Nat.one_mul]
  have htake : (List.range' off (2 * len)).take ts.length = List.range' off len := by
    rw [hlen, hsplit, List.take_left' (by rw [List.length_range'])]
  have hdrop : (List.range' off (2 * len)).drop ts.length = List.range' (off + len) len := by
    rw [hlen, hsplit, List.drop_left' (by rw [List.length_range'])]
  have hfhnd : ((List.range' off (2 * len)).take ts.length).Nodup := by rw [htake]; exact List.nodup_range'
  have inv := C14.insertVertices_inv m m' e _ _ hwf he hlive (fun _ => List.nodup_range') hr
  obtain ⟨w', hres⟩ := C14.C14_insertVertices_beta_structure m m' e _ _ hwf he hlive hfhnd (fun _ => List.nodup_range') hr
  obtain ⟨vid1, vid2, a1, a2, r1, r2, g1, g2', hpos, _⟩ :=
    C14.C14_new_vertex_position_full m m' e _ _ hwf he hlive hfhnd (fun _ => List.nodup_range') hr
  rw [htake] at hpos hres
  rw [hdrop] at hres
  -- the two end points that were read are the ones carried
  have e1 : vid1 = C03.cellId m .vertex e := by
    have := (C03.C03_vertexId2_min hwf he.1 he.2.1).1
    rw [this] at r1; injection r1 with r1; injection r1 with r1; exact r1.symm
  have hb1lt : m.β 1 e < m.n := hwf.range 1 (by omega) e he.2.1
  have e2 : vid2 = C03.cellId m .vertex (m.β 1 e) := by
    rw [if_pos hb1] at r2
    have := (C03.C03_vertexId2_min hwf hb1 hb1lt).1
    rw [this] at r2; injection r2 with r2; injection r2 with r2; exact r2.symm
  have ea1 : a1 = v1 := by rw [e1, h1.2] at g1; injection g1 with g1; exact g1.symm
  have ea2 : a2 = v2 := by rw [e2, h2.2] at g2'; injection g2' with g2'; exact g2'.symm
  subst ea1 ea2
  -- the `i`-th dart of the first half
  have hd_lt : off + i < m.n := by
    have := hlive (off + i) (List.mem_range'_1.2 ⟨by omega, by omega⟩)
    have hok := (C14.insertVertices_ok_elim hr).2.1 (off + i) (List.mem_range'_1.2 ⟨by omega, by omega⟩)
    exact ((hwf.toSized.okβ 0 _).1 hok.1).2
  have hd0 : off + i ≠ 0 := by
    refine (C14.insertVertices_ok_elim hr).2.2.2.1 (off + i) ?_
    rw [htake]; exact List.mem_range'_1.2 ⟨by omega, by omega⟩
  have iu : C01.InUse m' (off + i) :=
    ⟨hd0, by rw [inv.n_eq]; exact hd_lt, by unfold Map.unused; rw [inv.u_eq]; exact hlive _ (List.mem_range'_1.2 ⟨by omega, by omega⟩)⟩
  have hmemz : (t, off + i) ∈ ts.zip (List.range' off len) := by
    have : (ts.zip (List.range' off len))[i]? = some (t, off + i) := by
      rw [List.getElem?_zip_eq_some]
      exact ⟨hi, by rw [List.getElem?_range' hilt]; simp⟩
    exact List.mem_of_getElem? this
  have hrun := (C03.C03_vertexId2_min w' hd0 (by rw [inv.n_eq]; exact hd_lt)).1
  rw [inv.n_eq] at hrun
  have c1 : Carries m' (off + i) (placeVal a1 a2 (some t)) :=
    ⟨iu, hpos (t, off + i) hmemz _ (by rw [hrun])⟩
  refine ⟨c1, fun he2 => ?_⟩
  -- its mirror: β1 (β2 ·) is the dart of the first half
  obtain ⟨hpz, hpl1, _⟩ := hres.pairs he2
  have hchain := C14.B1Chain.index (List.range' off len) e i hres.side1.1 (by rw [List.length_range']; exact hilt)
  have hfi : (e :: List.range' off len).getD (i + 1) 0 = off + i := by
    rw [List.getD_cons_succ, range'_getD hilt]
  have hb2 : m'.β 2 (off + (len + (len - 1 - i))) = (e :: List.range' off len).getD i 0 := by
    cases i with
    | zero =>
        have hl : (List.range' (off + len) len).getLastD (m.β 2 e) = off + (len + (len - 1 - 0)) := by
          rw [C14.getLastD_index, List.length_range']
          have : len = (len - 1) + 1 := by omega
          rw [this, List.getD_cons_succ, range'_getD (by omega)]
          omega
        rw [← hl, hpl1]; rfl
    | succ i' =>
        have := C14.zip_index (Q := fun p => m'.β 2 p.1 = p.2 ∧ m'.β 2 p.2 = p.1) hpz (len - (i' + 1))
          (by simp only [List.length_cons, List.length_range']; omega)
          (by simp only [List.length_reverse, List.length_range']; omega)
        have e1' : (m.β 2 e :: List.range' (off + len) len).getD (len - (i' + 1)) 0 = off + (len + (len - 1 - (i' + 1))) := by
          have : len - (i' + 1) = (len - 1 - (i' + 1)) + 1 := by omega
          rw [this, List.getD_cons_succ, range'_getD (by omega)]
          omega
        have e2' : (List.range' off len).reverse.getD (len - (i' + 1)) 0 = (e :: List.range' off len).getD (i' + 1) 0 := by
          rw [List.getD_cons_succ, List.getD_eq_getElem?_getD,
            List.getElem?_eq_getElem (by simp only [List.length_reverse, List.length_range']; omega), List.getElem_reverse]
          simp only [List.length_range', List.getElem_range', Option.getD_some]
          rw [range'_getD (by omega)]
          omega
        rw [e1', e2'] at this
        exact this.1
  have hx_lt : off + (len + (len - 1 - i)) < m.n := by
    have hok := (C14.insertVertices_ok_elim hr).2.1 (off + (len + (len - 1 - i))) (List.mem_range'_1.2 ⟨by omega, by omega⟩)
    exact ((hwf.toSized.okβ 0 _).1 hok.1).2
  have hx0 : off + (len + (len - 1 - i)) ≠ 0 := by
    refine (C14.insertVertices_ok_elim hr).2.2.2.2.1 he2 _ ?_
    rw [hdrop]; exact List.mem_range'_1.2 ⟨by omega, by omega⟩
  have hx_lt' : off + (len + (len - 1 - i)) < m'.n := by rw [inv.n_eq]; exact hx_lt
  have hstep : m'.β 1 (m'.β 2 (off + (len + (len - 1 - i)))) = off + i := by rw [hb2, hchain, hfi]
  have hid := cellId_b1b2 w' hx0 hx_lt' (by rw [hstep]; exact hd0)
  rw [hstep] at hid
  exact ⟨⟨hx0, hx_lt', by unfold Map.unused; rw [inv.u_eq]; exact hlive _ (List.mem_range'_1.2 ⟨by omega, by omega⟩)⟩,
    by rw [← hid]; exact c1.2⟩

/-! ## the all-edges induction of `insert_intersections` -/

/-- a dart with a non-null image is not one of the darts still free -/
theorem not_fresh {m : Map Val} {off : Nat} (hfresh : ∀ d, off ≤ d → d < m.n → m.unused d = false ∧ ∀ i, i < 3 → m.β i d = 0)
    {d : Nat} (hd : d < m.n) {j : Nat} (hj : j < 3) (hne : m.β j d ≠ 0) : d < off := by
  rcases Nat.lt_or_ge d off with h | h
  · exact h
  · exact absurd ((hfresh d h hd).2 j hj) hne

/-- **C16, step 3 — every edge**: `insert_intersections` over the groups in the iteration order, blocks handed out
    consecutively from `off`.  Distinct edges get disjoint fresh blocks, so the per-edge facts transport along the frame:
    the result is well formed, every dart below `off` keeps what it carries, and the `i`-th hit of the `j`-th edge `e`
    (positions sorted) has its dart of the first half `o + i` — and, on a two-dart edge, the mirror dart
    `o + len + (len-1-i)` — starting at the point at position `h.t` between the two end points of `e` -/
theorem insertIntersections_carries : ∀ (gs : List (Nat × List Hit)) (m m' : Map Val) (off : Nat), WF 3 m →
    (∀ d, off ≤ d → d < m.n → m.unused d = false ∧ ∀ i, i < 3 → m.β i d = 0) →
    off + 2 * (gs.map (·.2.length)).sum ≤ m.n → 0 < off →
    (∀ g, g ∈ gs → C01.InUse m g.1 ∧ g.1 < off ∧ m.β 1 g.1 ≠ 0) →
    (gs.map (·.1)).Nodup → (∀ g, g ∈ gs → ∀ g', g' ∈ gs → m.β 2 g.1 ≠ g'.1) →
    run (insertIntersections m.n (gs.zip (slicesFrom off (gs.map (·.2.length))))) m = (.ok (), m') →
    WF 3 m' ∧ m'.n = m.n ∧ m'.u = m.u ∧ (∀ s d, s ≠ 0 → m'.att s d = m.att s d) ∧
    (∀ x P, x < off → Carries m x P → Carries m' x P) ∧
    (∀ (j : Nat) (g : Nat × List Hit), gs[j]? = some g → ∀ v1 v2, Carries m g.1 v1 → Carries m (m.β 1 g.1) v2 →
      ∀ (i : Nat) (h : Hit), g.2[i]? = some h →
        Carries m' (off + 2 * ((gs.map (·.2.length)).take j).sum + i) (placeVal v1 v2 (some h.t)) ∧
        (m.β 2 g.1 ≠ 0 → Carries m' (off + 2 * ((gs.map (·.2.length)).take j).sum + (g.2.length + (g.2.length - 1 - i)))
          (placeVal v1 v2 (some h.t)))) := by
  intro gs
  induction gs with
  | nil =>
      intro m m' off hwf _ _ _ _ _ _ hr
      simp only [List.map_nil, slicesFrom, List.zip_nil_right, insertIntersections, Prog.pure_eq, run_ret,
        Prod.mk.injEq] at hr
      rw [← hr.2]
      exact ⟨hwf, rfl, rfl, fun _ _ _ => rfl, fun _ _ _ h => h, fun j g hg => by simp at hg⟩
  | cons g rest ih =>
      intro m m' off hwf hfresh hroom hpos hkeys hnd hcan hr
      simp only [List.map_cons, slicesFrom, List.zip_cons_cons, insertIntersections, Prog.bind_eq] at hr
      obtain ⟨_, m1, h1, h2⟩ := run_bind_ok hr
      simp only [List.map_cons, List.sum_cons] at hroom
      set len := g.2.length with hlen
      obtain ⟨ig, glt, gb1⟩ := hkeys g List.mem_cons_self
      have hts : (g.2.map (·.t)).length = len := by rw [List.length_map]
      have hlive : ∀ d, d ∈ List.range' off (2 * len) → m.unused d = false := by
        intro d hd
        have := List.mem_range'_1.1 hd
        exact (hfresh d (by omega) (by omega)).1
      have hfhnd : ((List.range' off (2 * len)).take (g.2.map (·.t)).length).Nodup :=
        (List.nodup_range').sublist (List.take_sublist _ _)
      have inv := C14.insertVertices_inv m m1 g.1 _ _ hwf ig hlive (fun _ => List.nodup_range') h1
      obtain ⟨w1, hres⟩ := C14.C14_insertVertices_beta_structure m m1 g.1 _ _ hwf ig hlive hfhnd
        (fun _ => List.nodup_range') h1
      -- the darts the insertion touches
      have inF : ∀ y, y ∈ (List.range' off (2 * len)).take (g.2.map (·.t)).length → off ≤ y ∧ y < off + 2 * len := by
        intro y hy; have := List.mem_range'_1.1 (List.mem_of_mem_take hy); omega
      have inS : ∀ y, y ∈ (List.range' off (2 * len)).drop (g.2.map (·.t)).length → off ≤ y ∧ y < off + 2 * len := by
        intro y hy; have := List.mem_range'_1.1 (List.mem_of_mem_drop hy); omega
      have hb2lt : m.β 2 g.1 < off := by
        by_cases hz : m.β 2 g.1 = 0
        · rw [hz]; exact hpos
        · have hi := hwf.invol 2 (by omega) (by omega) g.1 ig.2.1 hz
          exact not_fresh hfresh (hwf.range 2 (by omega) _ ig.2.1) (by omega : 2 < 3) (by rw [hi.1]; exact ig.1)
      -- a dart below `off` other than the edge's two darts keeps its β1 / β2 images
      have fr1 : ∀ y, y < off → y ≠ g.1 → y ≠ m.β 2 g.1 → m1.β 1 y = m.β 1 y := by
        intro y hy a b
        refine hres.frame1 y ?_ (fun _ => ?_)
        · intro hh; rcases List.mem_cons.1 hh with h | h
          · exact a h
          · have := inF y h; omega
        · intro hh; rcases List.mem_cons.1 hh with h | h
          · exact b h
          · have := inS y h; omega
      have fr2 : ∀ y, y < off → y ≠ g.1 → y ≠ m.β 2 g.1 → m1.β 2 y = m.β 2 y := by
        intro y hy a b
        refine hres.frame2 y (fun _ => ⟨?_, ?_⟩)
        · intro hh; rcases List.mem_cons.1 hh with h | h
          · exact a h
          · have := inF y h; omega
        · intro hh; rcases List.mem_cons.1 hh with h | h
          · exact b h
          · have := inS y h; omega
      have hsub : ∀ g', g' ∈ rest → g' ∈ g :: rest := fun g' h => List.mem_cons_of_mem _ h
      have hne_g : ∀ g', g' ∈ rest → g'.1 ≠ g.1 := by
        intro g' hg' e
        simp only [List.map_cons, List.nodup_cons, List.mem_map, not_exists, not_and] at hnd
        exact hnd.1 g' hg' e
      -- the hypotheses for the remaining edges, on the new map
      have hfresh1 : ∀ d, off + 2 * len ≤ d → d < m1.n → m1.unused d = false ∧ ∀ i, i < 3 → m1.β i d = 0 := by
        intro d hd hdn
        rw [inv.n_eq] at hdn
        obtain ⟨fu, fb⟩ := hfresh d (by omega) hdn
        refine ⟨by unfold Map.unused; rw [inv.u_eq]; exact fu, ?_⟩
        have o1 : d ∉ g.1 :: (List.range' off (2 * len)).take (g.2.map (·.t)).length := by
          intro hh; rcases List.mem_cons.1 hh with h | h
          · omega
          · have := inF d h; omega
        have o2 : d ∉ m.β 2 g.1 :: (List.range' off (2 * len)).drop (g.2.map (·.t)).length := by
          intro hh; rcases List.mem_cons.1 hh with h | h
          · omega
          · have := inS d h; omega
        intro i hi
        rcases (by omega : i = 0 ∨ i = 1 ∨ i = 2) with rfl | rfl | rfl
        · rw [hres.frame0 d (fun h => o1 (List.mem_cons_of_mem _ h)) ?_ (fun _ => ⟨fun h => o2 (List.mem_cons_of_mem _ h), ?_⟩)]
          · exact fb 0 (by omega)
          · intro e
            have hb : m.β 0 (m.β 1 g.1) = g.1 := hwf.inv01 g.1 ig.2.1 gb1
            rw [← e, fb 0 (by omega)] at hb; exact ig.1 hb.symm
          · intro e
            by_cases hz : m.β 1 (m.β 2 g.1) = 0
            · rw [hz] at e; omega
            · have hb : m.β 0 (m.β 1 (m.β 2 g.1)) = m.β 2 g.1 := hwf.inv01 _ (hwf.range 2 (by omega) _ ig.2.1) hz
              rw [← e, fb 0 (by omega)] at hb
              have : m.β 1 (m.β 2 g.1) = 0 := by rw [← hb]; exact hwf.null 1 (by omega)
              exact hz this
        · rw [hres.frame1 d o1 (fun _ => o2)]; exact fb 1 (by omega)
        · rw [hres.frame2 d (fun _ => ⟨o1, o2⟩)]; exact fb 2 (by omega)
      have hkeys1 : ∀ g', g' ∈ rest → C01.InUse m1 g'.1 ∧ g'.1 < off + 2 * len ∧ m1.β 1 g'.1 ≠ 0 := by
        intro g' hg'
        obtain ⟨a, b, c⟩ := hkeys g' (hsub g' hg')
        refine ⟨⟨a.1, by rw [inv.n_eq]; exact a.2.1, by unfold Map.unused; rw [inv.u_eq]; exact a.2.2⟩, by omega, ?_⟩
        rw [fr1 g'.1 b (hne_g g' hg') (fun e => hcan g List.mem_cons_self g' (hsub g' hg') e.symm)]; exact c
      have hcan1 : ∀ a, a ∈ rest → ∀ b, b ∈ rest → m1.β 2 a.1 ≠ b.1 := by
        intro a ha b hb
        rw [fr2 a.1 (hkeys a (hsub a ha)).2.1 (hne_g a ha) (fun e => hcan g List.mem_cons_self a (hsub a ha) e.symm)]
        exact hcan a (hsub a ha) b (hsub b hb)
      rw [← inv.n_eq] at h2
      obtain ⟨_, _, _, _, _, _, _, _, _, hatt1⟩ := C14.C14_new_vertex_position_full m m1 g.1 _ _ hwf ig hlive hfhnd
        (fun _ => List.nodup_range') h1
      obtain ⟨w', n', u', att', frame', res'⟩ := ih m1 m' (off + 2 * len) w1 hfresh1 (by rw [inv.n_eq]; omega) (by omega) hkeys1
        (by simp only [List.map_cons, List.nodup_cons] at hnd; exact hnd.2) hcan1 h2
      have frame01 : ∀ x P, x < off → Carries m x P → Carries m1 x P := fun x P hx hc =>
        carries_insert_frame hts hwf ig hlive h1 (Or.inl hx) hc
      refine ⟨w', by rw [n', inv.n_eq], by rw [u', inv.u_eq],
        fun s d hs0 => by rw [att' s d hs0]; exact hatt1 s d (Or.inl hs0),
        fun x P hx hc => frame' x P (by omega) (frame01 x P hx hc), ?_⟩
      intro j gj hj v1 v2 c1 c2 i h hi
      cases j with
      | zero =>
          simp only [List.getElem?_cons_zero, Option.some.injEq] at hj
          subst hj
          simp only [List.take_zero, List.sum_nil, Nat.mul_zero, Nat.add_zero]
          have hti : (g.2.map (·.t))[i]? = some h.t := by rw [List.getElem?_map, hi]; rfl
          obtain ⟨a, b⟩ := carries_insert_new hts hwf ig gb1 hlive h1 c1 c2 hti
          have hilt : i < len := by
            rcases Nat.lt_or_ge i len with hh | hh
            · exact hh
            · rw [List.getElem?_eq_none hh] at hi; cases hi
          exact ⟨frame' _ _ (by omega) a, fun he2 => frame' _ _ (by omega) (b he2)⟩
      | succ j' =>
          simp only [List.getElem?_cons_succ] at hj
          have hgj : gj ∈ rest := List.mem_of_getElem? hj
          obtain ⟨a, b, c⟩ := hkeys gj (hsub gj hgj)
          have hne1 := hne_g gj hgj
          have hne2 : gj.1 ≠ m.β 2 g.1 := fun e => hcan g List.mem_cons_self gj (hsub gj hgj) e.symm
          have hb1lt : m.β 1 gj.1 < off :=
            not_fresh hfresh (hwf.range 1 (by omega) _ a.2.1) (by omega : 0 < 3) (by rw [hwf.inv01 _ a.2.1 c]; exact a.1)
          have := res' j' gj hj v1 v2 (frame01 _ _ b c1) (by rw [fr1 gj.1 b hne1 hne2]; exact frame01 _ _ hb1lt c2) i h hi
          rw [fr2 gj.1 b hne1 hne2] at this
          have harith : off + 2 * len + 2 * (List.take j' (List.map (fun x => x.2.length) rest)).sum =
              off + 2 * (List.take (j' + 1) (len :: List.map (fun x => x.2.length) rest)).sum := by
            rw [List.take_succ_cons, List.sum_cons]; omega
          rw [harith] at this
          exact this

/-! ## steps 2 + 3 on a map -/

theorem placeVal_flip (v1 v2 : Val) (t : Rat) : placeVal v2 v1 (some (1 - t)) = placeVal v1 v2 (some t) := by
  simp only [placeVal, P2.place, P2.lerp, P2.toVal, Val.pt.injEq, and_true]
  constructor <;> ring

/-- two canonical darts (`edge_id(e) = e`) of a well-formed map are not β2 images of each other -/
theorem canonical_not_opposite {m : Map Val} (hwf : WF 3 m) {e e' : Nat} (he : C01.InUse m e) (he' : e' ≠ 0)
    (hc : edgeOf (m.β 2) e = e) (hc' : edgeOf (m.β 2) e' = e') : m.β 2 e ≠ e' := by
  intro h
  have h2 : m.β 2 e ≠ 0 := by rw [h]; exact he'
  have hi := hwf.invol 2 (by omega) (by omega) e he.2.1 h2
  unfold edgeOf at hc hc'
  have a : ¬ (m.β 2 e ≠ 0 ∧ m.β 2 e < e) := by
    intro hh; rw [if_pos hh] at hc; exact hi.2 hc
  have b : ¬ (m.β 2 e' ≠ 0 ∧ m.β 2 e' < e') := by
    intro hh; rw [if_pos hh] at hc'
    rw [← h, hi.1] at hc'
    exact hi.2 hc'.symm
  rw [← h, hi.1] at b
  have : ¬ (e ≠ 0 ∧ e < m.β 2 e) := b
  have := he.1
  have := hi.2
  omega

/-- **C16, steps 2 + 3 on the map — every written slot is a vertex**: for every iteration order `keys` of the `HashMap`
    (distinct in-use canonical darts with a successor, among them the edge of every written slot), when
    `intersection_darts` succeeds the map is well formed, every dart keeps what it carried, and the slot `K` holding
    `(d, t)` has its dart `res[K]` starting at the point at position `t` between the two end points of `d` -/
theorem C16_steps23_carries {m0 m3 : Map Val} {slots : List Slot} {keys res : List Nat} (hwf : WF 3 m0) (hk : keys.Nodup)
    (hkeys : ∀ e, e ∈ keys → C01.InUse m0 e ∧ m0.β 1 e ≠ 0 ∧ edgeOf (m0.β 2) e = e)
    (hall : ∀ (K d : Nat) (t : Rat), slots[K]? = some (some (d, t)) → edgeOf (m0.β 2) d ∈ keys)
    (hrun : stepsTwoThree m0 slots keys = (res, .ok (), m3)) :
    WF 3 m3 ∧ ((∀ d, m0.att sBd d = none) → ∀ d, m3.att sBd d = none) ∧ (∀ x P, Carries m0 x P → Carries m3 x P) ∧
    ∀ (K d : Nat) (t : Rat), slots[K]? = some (some (d, t)) → C01.InUse m0 d → m0.β 1 d ≠ 0 → ∀ v1 v2, Carries m0 d v1 →
      Carries m0 (m0.β 1 d) v2 → ∃ x, res[K]? = some x ∧ Carries m3 x (placeVal v1 v2 (some t)) := by
  unfold stepsTwoThree at hrun
  simp only at hrun
  set hs := hitsOf (m0.β 2) slots with hhs
  set gs := groupsOf hs keys with hgs
  set tot := 2 * (gs.map (·.2.length)).sum with htot
  have hsz := hwf.toSized
  have hfst : (m0.addFreeDarts tot).1 = m0.n := rfl
  have hn1 : (m0.addFreeDarts tot).2.n = m0.n + tot := rfl
  rw [hfst] at hrun
  simp only [Prod.mk.injEq] at hrun
  obtain ⟨hres, hout, hm3⟩ := hrun
  have hr : run (insertIntersections (m0.addFreeDarts tot).2.n (gs.zip (slicesFrom m0.n (gs.map (·.2.length)))))
      (m0.addFreeDarts tot).2 = (.ok (), m3) := Prod.ext hout hm3
  have w1 : WF 3 (m0.addFreeDarts tot).2 := hwf.addFreeDarts (by omega) tot
  have eβ : ∀ i d, i < 3 → d < m0.n → (m0.addFreeDarts tot).2.β i d = m0.β i d := by
    intro i d hi hd; rw [addFreeDarts_β hsz tot i d hi, if_pos hd]
  have iu1 : ∀ {d}, C01.InUse m0 d → C01.InUse (m0.addFreeDarts tot).2 d := by
    intro d h
    exact ⟨h.1, by rw [hn1]; have := h.2.1; omega, by rw [addFreeDarts_unused hsz, if_pos h.2.1]; exact h.2.2⟩
  have hmemg : ∀ g, g ∈ gs → g.1 ∈ keys ∧ g.2 = groupOf hs g.1 := by
    intro g hg
    rw [hgs] at hg; unfold groupsOf at hg
    obtain ⟨e, he, rfl⟩ := List.mem_map.1 hg
    exact ⟨he, rfl⟩
  have hmap1 : gs.map (·.1) = keys := by
    rw [hgs]; unfold groupsOf; rw [List.map_map]
    exact List.map_id' _
  obtain ⟨w3, n3, _, att3, frame, resall⟩ := insertIntersections_carries gs _ m3 m0.n w1
    (by intro d hd hdn
        refine ⟨by rw [addFreeDarts_unused hsz, if_neg (by omega)], fun i hi => ?_⟩
        rw [addFreeDarts_β hsz tot i d hi, if_neg (by omega)])
    (by rw [hn1]) hsz.npos
    (by intro g hg
        obtain ⟨a, b, _⟩ := hkeys g.1 (hmemg g hg).1
        exact ⟨iu1 a, a.2.1, by rw [eβ 1 _ (by omega) a.2.1]; exact b⟩)
    (by rw [hmap1]; exact hk)
    (by intro g hg g' hg'
        obtain ⟨a, _, c⟩ := hkeys g.1 (hmemg g hg).1
        obtain ⟨a', _, c'⟩ := hkeys g'.1 (hmemg g' hg').1
        rw [eβ 2 _ (by omega) a.2.1]
        exact canonical_not_opposite hwf a a'.1 c c') hr
  refine ⟨w3, fun hnt d => by rw [att3 sBd d (by decide)]; exact addFreeDarts_att_none sBd hnt tot d,
    fun x P hc => frame x P hc.1.2.1 (carries_addFreeDarts hwf tot hc), ?_⟩
  intro K d t hK hd hb1 v1 v2 c1 c2
  -- the hit of the slot
  set e := edgeOf (m0.β 2) d with he
  set h : Hit := { idx := K, t := if e ≠ d then 1 - t else t, dart := d } with hh
  have hx : (e, h) ∈ hs := (C16_hits_slot_numbers (m0.β 2) slots _).2 ⟨K, d, t, hK, rfl⟩
  have hek : e ∈ keys := hall K d t hK
  obtain ⟨j, hj⟩ := List.getElem?_of_mem hek
  obtain ⟨i, hi⟩ := List.getElem?_of_mem (mem_groupOf.2 hx)
  have hval := intersection_ids_at (base := m0.n) (hits_idx_nodup (m0.β 2) slots) hk slots.length
    (fun x hx' => hits_idx_lt (m0.β 2) slots hx') hx hj hi
  rw [← hgs, hres] at hval
  have hgj : gs[j]? = some (e, groupOf hs e) := by
    rw [hgs]; unfold groupsOf; rw [List.getElem?_map, hj]; rfl
  obtain ⟨ie, eb1, ecan⟩ := hkeys e hek
  by_cases hed : e = d
  · -- the identifier dart of the edge was hit
    have := (resall j _ hgj v1 v2 (by rw [hed]; exact carries_addFreeDarts hwf tot c1)
      (by rw [hed, eβ 1 _ (by omega) hd.2.1]; exact carries_addFreeDarts hwf tot c2) i h hi).1
    refine ⟨_, hval, ?_⟩
    have ht : h.t = t := by rw [hh]; simp only; rw [if_neg (fun hne => hne hed)]
    have hdart : h.dart = e := by rw [hh]; exact hed.symm
    rw [if_pos hdart]
    rw [ht] at this
    exact this
  · -- the opposite dart was hit: `e = β2 d`, positions run the other way
    have heb : e = m0.β 2 d ∧ m0.β 2 d ≠ 0 := by
      have : edgeOf (m0.β 2) d = e := he.symm
      unfold edgeOf at this
      by_cases hc : m0.β 2 d ≠ 0 ∧ m0.β 2 d < d
      · rw [if_pos hc] at this; exact ⟨this.symm, hc.1⟩
      · rw [if_neg hc] at this; exact absurd this.symm hed
    have hi2 := hwf.invol 2 (by omega) (by omega) d hd.2.1 heb.2
    have hb2e : m0.β 2 e = d := by rw [heb.1]; exact hi2.1
    -- the end points of `e` are those of `d`, swapped
    have ce1 : Carries m0 e v2 := by
      refine ⟨ie, ?_⟩
      have := cellId_b1b2 hwf ie.1 ie.2.1 (by rw [hb2e]; exact hb1)
      rw [hb2e] at this
      rw [← this]; exact c2.2
    have ce2 : Carries m0 (m0.β 1 e) v1 := by
      refine ⟨inUse_image hwf (by omega) ie.2.1 eb1, ?_⟩
      have := cellId_b1b2 hwf hd.1 hd.2.1 (by rw [← heb.1]; exact eb1)
      rw [← heb.1] at this
      rw [this]; exact c1.2
    have := (resall j _ hgj v2 v1 (carries_addFreeDarts hwf tot ce1)
      (by rw [eβ 1 _ (by omega) ie.2.1]; exact carries_addFreeDarts hwf tot ce2) i h hi).2
      (by rw [eβ 2 _ (by omega) ie.2.1, hb2e]; exact hd.1)
    refine ⟨_, hval, ?_⟩
    have ht : h.t = 1 - t := by rw [hh]; simp only; rw [if_pos hed]
    have hdart : h.dart ≠ e := by rw [hh]; exact fun e' => hed e'.symm
    rw [if_neg hdart]
    rw [ht, placeVal_flip] at this
    exact this

/-! ## step 5 keeps the vertices: `build_base_edge` -/

theorem beta_oob {m : Map Val} (hwf : WF 3 m) {i d : Nat} (hi : i < 3) (hd : m.n ≤ d) : m.β i d = 0 := by
  unfold Map.β
  rw [rd_oob _ d (by rw [hwf.toSized.row i hi]; exact hd)]; rfl

/-- a free dart is nobody's image -/
theorem free_not_image {m : Map Val} (hwf : WF 3 m) {a : Nat} (ha0 : a ≠ 0) (hfree : ∀ i, i < 3 → m.β i a = 0)
    (i : Nat) (hi : i < 3) (d : Nat) : m.β i d ≠ a := by
  intro h
  by_cases hd : d < m.n
  · have hne : m.β i d ≠ 0 := by rw [h]; exact ha0
    rcases (by omega : i = 0 ∨ i = 1 ∨ i = 2) with rfl | rfl | rfl
    · have := hwf.inv10 d hd hne
      rw [h, hfree 1 (by omega)] at this
      rw [← this, hwf.null 0 (by omega)] at h; exact ha0 h.symm
    · have := hwf.inv01 d hd hne
      rw [h, hfree 0 (by omega)] at this
      rw [← this, hwf.null 1 (by omega)] at h; exact ha0 h.symm
    · have := (hwf.invol 2 (by omega) (by omega) d hd hne).1
      rw [h, hfree 2 (by omega)] at this
      rw [← this, hwf.null 2 (by omega)] at h; exact ha0 h.symm
  · rw [beta_oob hwf hi (Nat.le_of_not_lt hd)] at h; exact ha0 h.symm

/-- **C16, step 5 — `build_base_edge` keeps the vertices**: a dart below the two new darts starts at the same vertex
    (same identifier) as before, and the coordinate storage is untouched: it keeps what it carries -/
theorem carries_buildBaseEdge {m m' : Map Val} {start stop dNew b2dNew : Nat} (hwf : WF 3 m)
    (hs : C01.InUse m start) (he : C01.InUse m stop) (hd1 : C01.InUse m dNew) (hd2 : C01.InUse m b2dNew)
    (hf1 : ∀ i, i < 3 → m.β i dNew = 0) (hf2 : ∀ i, i < 3 → m.β i b2dNew = 0) (hne : dNew ≠ b2dNew)
    (hr : run (buildBaseEdge start stop dNew b2dNew) m = (.ok (), m'))
    {y s : Nat} {P : Val} (hya : y < dNew) (hyb : y < b2dNew) (hc : CarriesS m s y P) : CarriesS m' s y P := by
  obtain ⟨w', n', u', a', _, hb1s, hb0e, e1, e2, e3, e4, e5, e6, e7⟩ :=
    C16_buildBaseEdge_spec hwf hs he hd1 hd2 hf1 hf2 hne hr
  obtain ⟨⟨y0, ylt, yu⟩, hat⟩ := hc
  set p := m.β 1 start with hp
  set q := m.β 0 stop with hq
  have na := free_not_image hwf hd1.1 hf1
  have nb := free_not_image hwf hd2.1 hf2
  have hq1 : m.β 1 q = stop := hwf.inv10 stop he.2.1 hb0e
  have hp0 : m.β 0 p = start := hwf.inv01 start hs.2.1 hb1s
  have sa : start ≠ dNew := fun e => hb1s (by rw [hp, e]; exact hf1 1 (by omega))
  have sb : start ≠ b2dNew := fun e => hb1s (by rw [hp, e]; exact hf2 1 (by omega))
  have ta : stop ≠ dNew := fun e => hb0e (by rw [hq, e]; exact hf1 0 (by omega))
  have tb : stop ≠ b2dNew := fun e => hb0e (by rw [hq, e]; exact hf2 0 (by omega))
  have pa : p ≠ dNew := na 1 (by omega) start
  have pb : p ≠ b2dNew := nb 1 (by omega) start
  have qa : q ≠ dNew := na 0 (by omega) stop
  have qb : q ≠ b2dNew := nb 0 (by omega) stop
  -- β0 of the result at the four darts
  have slt' : start < m'.n := by rw [n']; exact hs.2.1
  have z1 : m'.β 0 dNew = start := by have := w'.inv01 start slt' (by rw [e1]; exact hd1.1); rwa [e1] at this
  have z2 : m'.β 0 stop = dNew := by
    have := w'.inv01 dNew (by rw [n']; exact hd1.2.1) (by rw [e2]; exact he.1); rwa [e2] at this
  have qlt : q < m.n := hwf.range 0 (by omega) stop he.2.1
  have z3 : m'.β 0 b2dNew = q := by
    have := w'.inv01 q (by rw [n']; exact qlt) (by rw [e3]; exact hd2.1); rwa [e3] at this
  have z4 : m'.β 0 p = b2dNew := by
    have := w'.inv01 b2dNew (by rw [n']; exact hd2.2.1) (by rw [e4]; exact hb1s); rwa [e4] at this
  have b2old : ∀ d, d ≠ dNew → d ≠ b2dNew → m'.β 2 d = m.β 2 d := fun d h1 h2 => by rw [e5, if_neg h1, if_neg h2]
  have b2a : m'.β 2 dNew = b2dNew := by rw [e5, if_pos rfl]
  have b2b : m'.β 2 b2dNew = dNew := by rw [e5, if_neg hne.symm, if_pos rfl]
  have null1 := hwf.null 1 (by omega)
  have null2 := hwf.null 2 (by omega)
  have null0 := hwf.null 0 (by omega)
  have b10 : m'.β 1 0 = 0 := by
    rw [e6 0 (Ne.symm hs.1) (Ne.symm hb0e) (Ne.symm hd1.1) (Ne.symm hd2.1)]; exact null1
  have b00 : m'.β 0 0 = 0 := by
    rw [e7 0 (Ne.symm he.1) (Ne.symm hb1s) (Ne.symm hd1.1) (Ne.symm hd2.1)]; exact null0
  have b20 : m'.β 2 0 = 0 := by rw [b2old 0 (Ne.symm hd1.1) (Ne.symm hd2.1)]; exact null2
  have mem1 : ∀ x, m.β 1 (m.β 2 x) ∈ C03.g2 m .vertex x := fun x => by simp [C03.g2]
  have mem2 : ∀ x, m.β 2 (m.β 0 x) ∈ C03.g2 m .vertex x := fun x => by simp [C03.g2]
  have mem1' : ∀ x, m'.β 1 (m'.β 2 x) ∈ C03.g2 m' .vertex x := fun x => by simp [C03.g2]
  have mem2' : ∀ x, m'.β 2 (m'.β 0 x) ∈ C03.g2 m' .vertex x := fun x => by simp [C03.g2]
  -- (i) what is reachable afterwards was reachable, or is one of the two new darts
  have dir1 : ∀ x, Reach (C03.g2 m' .vertex) y x →
      x = 0 ∨ (x ≠ dNew ∧ x ≠ b2dNew ∧ Reach (C03.g2 m .vertex) y x) ∨
      (x = dNew ∧ Reach (C03.g2 m .vertex) y p) ∨ (x = b2dNew ∧ Reach (C03.g2 m .vertex) y stop) := by
    intro x hx
    refine C14.reach_vertex_closed (m := m') (fun x => x = 0 ∨ (x ≠ dNew ∧ x ≠ b2dNew ∧ Reach (C03.g2 m .vertex) y x) ∨
      (x = dNew ∧ Reach (C03.g2 m .vertex) y p) ∨ (x = b2dNew ∧ Reach (C03.g2 m .vertex) y stop)) (Or.inl rfl) ?_
      (Or.inr (Or.inl ⟨by omega, by omega, Reach.refl y⟩)) hx
    -- an old value reached in the old map, repackaged
    have old : ∀ z, Reach (C03.g2 m .vertex) y z → z ≠ dNew → z ≠ b2dNew →
        (z = 0 ∨ (z ≠ dNew ∧ z ≠ b2dNew ∧ Reach (C03.g2 m .vertex) y z) ∨
        (z = dNew ∧ Reach (C03.g2 m .vertex) y p) ∨ (z = b2dNew ∧ Reach (C03.g2 m .vertex) y stop)) :=
      fun z hz h1 h2 => Or.inr (Or.inl ⟨h1, h2, hz⟩)
    intro x hS
    rcases hS with rfl | ⟨xa, xb, R⟩ | ⟨rfl, R⟩ | ⟨rfl, R⟩
    · exact ⟨Or.inl (by rw [b20, b10]), Or.inl (by rw [b00, b20])⟩
    · constructor
      · -- β1' (β2' x)
        rw [b2old x xa xb]
        by_cases h1 : m.β 2 x = start
        · rw [h1, e1]; exact Or.inr (Or.inr (Or.inl ⟨rfl, Reach.tail R (by rw [hp, ← h1]; exact mem1 x)⟩))
        · by_cases h2 : m.β 2 x = q
          · rw [h2, e3]; exact Or.inr (Or.inr (Or.inr ⟨rfl, Reach.tail R (by rw [← hq1, ← h2]; exact mem1 x)⟩))
          · rw [e6 _ h1 h2 (na 2 (by omega) x) (nb 2 (by omega) x)]
            exact old _ (Reach.tail R (mem1 x)) (na 1 (by omega) _) (nb 1 (by omega) _)
      · -- β2' (β0' x)
        by_cases h1 : x = stop
        · rw [h1, z2, b2a]; exact Or.inr (Or.inr (Or.inr ⟨rfl, by rw [← h1]; exact R⟩))
        · by_cases h2 : x = p
          · rw [h2, z4, b2b]; exact Or.inr (Or.inr (Or.inl ⟨rfl, by rw [← h2]; exact R⟩))
          · rw [e7 x h1 h2 xa xb, b2old _ (na 0 (by omega) x) (nb 0 (by omega) x)]
            exact old _ (Reach.tail R (mem2 x)) (na 2 (by omega) _) (nb 2 (by omega) _)
    · constructor
      · rw [b2a, e4]; exact old _ R pa pb
      · rw [z1, b2old _ sa sb]
        refine old _ (Reach.tail R ?_) (na 2 (by omega) _) (nb 2 (by omega) _)
        have := mem2 p; rw [hp0] at this; exact this
    · constructor
      · rw [b2b, e2]; exact old _ R ta tb
      · rw [z3, b2old _ qa qb]
        exact old _ (Reach.tail R (mem2 stop)) (na 2 (by omega) _) (nb 2 (by omega) _)
  -- (ii) what was reachable still is
  have dir2 : ∀ x, Reach (C03.g2 m .vertex) y x → x ≠ 0 → Reach (C03.g2 m' .vertex) y x := by
    intro x hx
    induction hx with
    | refl => intro _; exact Reach.refl y
    | @tail b' c R hcm ih =>
        intro hc0
        simp only [C03.g2, List.mem_cons, List.not_mem_nil, or_false] at hcm
        have hb0' : b' ≠ 0 := by
          intro e0; rcases hcm with h | h
          · rw [h, e0, null2, null1] at hc0; exact hc0 rfl
          · rw [h, e0, null0, null2] at hc0; exact hc0 rfl
        have R' := ih hb0'
        -- `b'` is an old dart
        have ba : b' ≠ dNew := by
          intro e
          have : Reach (C03.g2 m .vertex) y dNew := by rw [← e]; exact R
          cases this with
          | refl => omega
          | tail _ hm =>
              simp only [C03.g2, List.mem_cons, List.not_mem_nil, or_false] at hm
              rcases hm with h | h
              · exact na 1 (by omega) _ h.symm
              · exact na 2 (by omega) _ h.symm
        have bb : b' ≠ b2dNew := by
          intro e
          have : Reach (C03.g2 m .vertex) y b2dNew := by rw [← e]; exact R
          cases this with
          | refl => omega
          | tail _ hm =>
              simp only [C03.g2, List.mem_cons, List.not_mem_nil, or_false] at hm
              rcases hm with h | h
              · exact nb 1 (by omega) _ h.symm
              · exact nb 2 (by omega) _ h.symm
        rcases hcm with rfl | rfl
        · by_cases h1 : m.β 2 b' = start
          · -- through the first new dart
            have s1 : Reach (C03.g2 m' .vertex) y dNew := by
              have := mem1' b'; rw [b2old b' ba bb, h1, e1] at this; exact Reach.tail R' this
            have := mem1' dNew; rw [b2a, e4] at this
            rw [h1]; exact Reach.tail s1 this
          · by_cases h2 : m.β 2 b' = q
            · have s1 : Reach (C03.g2 m' .vertex) y b2dNew := by
                have := mem1' b'; rw [b2old b' ba bb, h2, e3] at this; exact Reach.tail R' this
              have := mem1' b2dNew; rw [b2b, e2] at this
              rw [h2, hq1]; exact Reach.tail s1 this
            · have := mem1' b'
              rw [b2old b' ba bb, e6 _ h1 h2 (na 2 (by omega) b') (nb 2 (by omega) b')] at this
              exact Reach.tail R' this
        · by_cases h1 : b' = stop
          · have s1 : Reach (C03.g2 m' .vertex) y b2dNew := by
              have := mem2' b'; rw [h1, z2, b2a] at this; rw [h1] at R'; exact Reach.tail R' this
            have := mem2' b2dNew; rw [z3, b2old _ qa qb] at this
            rw [h1]; exact Reach.tail s1 this
          · by_cases h2 : b' = p
            · have s1 : Reach (C03.g2 m' .vertex) y dNew := by
                have := mem2' b'; rw [h2, z4, b2b] at this; rw [h2] at R'; exact Reach.tail R' this
              have := mem2' dNew; rw [z1, b2old _ sa sb] at this
              rw [h2, hp0]; exact Reach.tail s1 this
            · have := mem2' b'
              rw [e7 b' h1 h2 ba bb, b2old _ (na 0 (by omega) b') (nb 0 (by omega) b')] at this
              exact Reach.tail R' this
  -- the identifier: the smallest dart of the vertex
  have ylt' : y < m'.n := by rw [n']; exact ylt
  have s' := C03.cellId_spec w' (pol := .vertex) trivial y0 ylt'
  have s := C03.cellId_spec hwf (pol := .vertex) trivial y0 ylt
  have hid : C03.cellId m' .vertex y = C03.cellId m .vertex y := by
    apply Nat.le_antisymm
    · apply s'.2
      rw [C03.mem_orb w' (pol := .vertex) trivial y0 ylt']
      have := (C03.mem_orb hwf (pol := .vertex) trivial y0 ylt _).1 s.1
      exact ⟨this.1, dir2 _ this.2 this.1⟩
    · have hm := (C03.mem_orb w' (pol := .vertex) trivial y0 ylt' _).1 s'.1
      have hself : C03.cellId m' .vertex y ≤ y := s'.2 y (C03.self_mem_orb w' (pol := .vertex) trivial y0 ylt')
      rcases dir1 _ hm.2 with h | ⟨_, _, R⟩ | ⟨h, _⟩ | ⟨h, _⟩
      · exact absurd h hm.1
      · exact s.2 _ ((C03.mem_orb hwf (pol := .vertex) trivial y0 ylt _).2 ⟨hm.1, R⟩)
      · omega
      · omega
  exact ⟨⟨y0, ylt', by unfold Map.unused; rw [u']; exact yu⟩, by rw [hid, a']; exact hat⟩

/-! ## step 5 keeps the vertices: one iteration, the whole loop -/

theorem cellId_congr_b {m m' : Map Val} (hb : m'.b = m.b) (hn : m'.n = m.n) (pol : Policy) (d : Nat) :
    C03.cellId m' pol d = C03.cellId m pol d := by
  have hβ : m'.β = m.β := by funext i x; unfold Map.β; rw [hb]
  have hg : C03.g2 m' pol = C03.g2 m pol := by
    funext x; cases pol <;> simp only [C03.g2, hβ]
  unfold C03.cellId C03.orb
  rw [hg, hn]

theorem markBoundary_attrs (stop : Nat) : ∀ (fuel d : Nat) (m m' : Map Val), run (markBoundary stop fuel d) m = (.ok (), m') →
    m'.b = m.b ∧ m'.n = m.n ∧ m'.u = m.u ∧ ∀ s x, s ≠ sBd → m'.att s x = m.att s x := by
  intro fuel
  induction fuel with
  | zero => intro d m m' h; simp [markBoundary, run] at h
  | succ f ih =>
      intro d m m' h
      unfold markBoundary at h
      by_cases hds : d = stop
      · rw [if_pos hds] at h
        simp only [Prog.pure_eq, run_ret, Prod.mk.injEq] at h
        rw [← h.2]; exact ⟨rfl, rfl, rfl, fun _ _ _ => rfl⟩
      · rw [if_neg hds] at h
        simp only [Prog.bind_eq] at h
        have h := C14.rA_bind_ok h
        rw [run_wA] at h
        by_cases ok1 : m.okA sBd d = true
        · simp only [ok1, if_true] at h
          obtain ⟨_, h⟩ := C14.rB_bind_ok h
          have h := C14.rA_bind_ok h
          rw [run_wA] at h
          by_cases ok2 : (m.setA sBd d (some bdLeft)).okA sBd ((m.setA sBd d (some bdLeft)).β 2 d) = true
          · simp only [ok2, if_true] at h
            obtain ⟨_, h⟩ := C14.rB_bind_ok h
            obtain ⟨a, b, c, e⟩ := ih _ _ _ h
            refine ⟨a, b, c, ?_⟩
            intro s x hs
            rw [e s x hs, Map.att_setA, if_neg (fun hh => hs hh.1.symm), Map.att_setA, if_neg (fun hh => hs hh.1.symm)]
          · simp [ok2] at h
        · simp [ok1] at h

/-- **C16, step 5 — one iteration keeps the vertices below its block**: a dart below `next` keeps its vertex identifier and
    the value of that slot in every storage but `Boundary` (coordinates, anchors) -/
theorem carriesS_insertOneEdge {m m' : Map Val} {next i : Nat} {ha : Bool} {e : MEdge} (I : EInv m next)
    (hs : C01.InUse m e.start) (he : C01.InUse m e.stop) (hroom : next + (2 + 2 * e.inter.length) ≤ m.n)
    (hr : run (insertOneEdge m.n ha i e (List.range' next (2 + 2 * e.inter.length))) m = (.ok (), m'))
    {s y : Nat} {P : Val} (hs9 : s ≠ sBd) (hy : y < next) (hc : CarriesS m s y P) : CarriesS m' s y P := by
  have hwf := I.wf
  set k := e.inter.length with hk
  unfold insertOneEdge at hr
  simp only [Prog.bind_eq] at hr
  rw [rg' (by omega : 0 < 2 + 2 * k), rg' (by omega : 1 < 2 + 2 * k), Nat.add_zero] at hr
  obtain ⟨_, m1, h1, hrA⟩ := run_bind_ok hr
  clear hr
  obtain ⟨u0, f0, t0⟩ := I.fresh next (Nat.le_refl _) (by omega)
  obtain ⟨u1, f1, t1⟩ := I.fresh (next + 1) (by omega) (by omega)
  have id0 : C01.InUse m next := ⟨by have := I.pos; omega, by omega, u0⟩
  have id1 : C01.InUse m (next + 1) := ⟨by omega, by omega, u1⟩
  obtain ⟨w1, n1, uu1, a1, _, hb1s, hb0e, e1, e2, e3, e4, e5, e6, e7⟩ :=
    C16_buildBaseEdge_spec hwf hs he id0 id1 f0 f1 (by omega) h1
  have c1 : CarriesS m1 s y P := carries_buildBaseEdge hwf hs he id0 id1 f0 f1 (by omega) h1 hy (by omega) hc
  have notFresh : ∀ d, d < m.n → (∃ j, j < 3 ∧ m.β j d ≠ 0) → d < next := by
    intro d hd ⟨j, hj, hne⟩
    rcases Nat.lt_or_ge d next with h' | h'
    · exact h'
    · exact absurd ((I.fresh d h' hd).2.1 j hj) hne
  have hstart : e.start < next := notFresh _ hs.2.1 ⟨1, by omega, hb1s⟩
  have hstop : e.stop < next := notFresh _ he.2.1 ⟨0, by omega, hb0e⟩
  have hb1s_lt : m.β 1 e.start < m.n := hwf.range 1 (by omega) _ hs.2.1
  have hb0e_lt : m.β 0 e.stop < m.n := hwf.range 0 (by omega) _ he.2.1
  have hb1s' : m.β 1 e.start < next := notFresh _ hb1s_lt ⟨0, by omega, by rw [hwf.inv01 _ hs.2.1 hb1s]; exact hs.1⟩
  have hb0e' : m.β 0 e.stop < next := notFresh _ hb0e_lt ⟨1, by omega, by rw [hwf.inv10 _ he.2.1 hb0e]; exact he.1⟩
  -- the darts of the block beyond the base edge are still free
  have free1 : ∀ d, next + 2 ≤ d → d < m.n → ∀ j, j < 3 → m1.β j d = 0 := by
    intro d hd hdn j hj
    have hf := (I.fresh d (by omega) hdn).2.1
    rcases (by omega : j = 0 ∨ j = 1 ∨ j = 2) with rfl | rfl | rfl
    · rw [e7 d (by omega) (by omega) (by omega) (by omega)]; exact hf 0 (by omega)
    · rw [e6 d (by omega) (by omega) (by omega) (by omega)]; exact hf 1 (by omega)
    · rw [e5 d, if_neg (by omega), if_neg (by omega)]; exact hf 2 (by omega)
  obtain ⟨_, m3, h3, hrB⟩ := run_bind_ok hrA
  obtain ⟨_, hmark⟩ := C14.rB_bind_ok hrB
  clear hrA hrB
  obtain ⟨mb, mn, mu, matt⟩ := markBoundary_attrs _ _ _ _ _ hmark
  -- it is enough to reach the map before `mark_boundary`
  suffices c3 : CarriesS m3 s y P by
    obtain ⟨⟨y0, ylt, yu⟩, hat⟩ := c3
    refine ⟨⟨y0, by rw [mn]; exact ylt, by unfold Map.unused; rw [mu]; exact yu⟩, ?_⟩
    rw [cellId_congr_b mb mn, matt s _ hs9]; exact hat
  by_cases hemp : e.inter.isEmpty = true
  · rw [if_pos hemp] at h3
    simp only [Prog.pure_eq, run_ret, Prod.mk.injEq] at h3
    rw [← h3.2]; exact c1
  · rw [if_neg hemp] at h3
    have hkpos : 0 < k := by
      rw [hk]; cases hi : e.inter with
      | nil => rw [hi] at hemp; simp at hemp
      | cons _ _ => simp
    obtain ⟨eid, heid, h3a⟩ := ro_bind_ok (readOnly_edgeId2 (X := Val) next) h3
    obtain ⟨_, m2, h2, h3b⟩ := run_bind_ok h3a
    obtain ⟨_, h3c⟩ := C14.rB_bind_ok h3b
    clear h3 h3a h3b
    have b2n : m1.β 2 next = next + 1 := by rw [e5, if_pos rfl]
    have heq : eid = next := by
      rw [edgeId2_min heid, b2n, if_neg (by omega)]; exact Nat.min_eq_right (by omega)
    subst heq
    have ieid : C01.InUse m1 eid := ⟨id0.1, by rw [n1]; exact id0.2.1, by unfold Map.unused; rw [uu1]; exact id0.2.2⟩
    have hslice : (List.range' eid (2 + 2 * k)).drop 2 = List.range' (eid + 2) (2 * k) := by
      rw [List.drop_range']; congr 1 <;> omega
    rw [hslice, ← n1] at h2
    have hmem : ∀ d, d ∈ List.range' (eid + 2) (2 * k) → eid + 2 ≤ d ∧ d < eid + 2 + 2 * k := by
      intro d hd; rw [List.mem_range'_1] at hd; exact hd
    have hlive : ∀ d, d ∈ List.range' (eid + 2) (2 * k) → m1.unused d = false := by
      intro d hd
      obtain ⟨a, b⟩ := hmem d hd
      unfold Map.unused; rw [uu1]
      exact (I.fresh d (by omega) (by omega)).1
    have hlen : (e.inter.map fun _ => (1 / 2 : Rat)).length = k := by rw [List.length_map]
    have c2 : CarriesS m2 s y P := carries_insert_frame hlen w1 ieid hlive h2 (Or.inl (by omega)) c1
    have hsplit : List.range' (eid + 2) (2 * k) = List.range' (eid + 2) k ++ List.range' (eid + 2 + k) k := by
      rw [show 2 * k = k + k by omega, ← List.range'_append, Nat.one_mul]
    have htake : (List.range' (eid + 2) (2 * k)).take (e.inter.map fun _ => (1 / 2 : Rat)).length = List.range' (eid + 2) k := by
      rw [hlen, hsplit, List.take_left' (by rw [List.length_range'])]
    have hdrop : (List.range' (eid + 2) (2 * k)).drop (e.inter.map fun _ => (1 / 2 : Rat)).length = List.range' (eid + 2 + k) k := by
      rw [hlen, hsplit, List.drop_left' (by rw [List.length_range'])]
    have hfhnd : ((List.range' (eid + 2) (2 * k)).take (e.inter.map fun _ => (1 / 2 : Rat)).length).Nodup := by
      rw [htake]; exact List.nodup_range'
    obtain ⟨w2, hres⟩ := C14.C14_insertVertices_beta_structure m1 m2 eid _ _ w1 ieid hlive hfhnd
      (fun _ => List.nodup_range') h2
    have inv2 := C14.insertVertices_inv m1 m2 eid _ _ w1 ieid hlive (fun _ => List.nodup_range') h2
    have hdist := C14.C14_new_darts_distinct_vertices m1 m2 eid _ _ w1 ieid hlive hfhnd (fun _ => List.nodup_range') h2
    rw [htake] at hres hdist
    rw [hdrop] at hres
    set fh := List.range' (eid + 2) k with hfh
    set sh := List.range' (eid + 2 + k) k with hsh
    obtain ⟨hch, _⟩ := hres.side1
    have hwalk : walkB1 m2 (m2.β 1 eid) e.inter.length = fh := by
      have := walk_of_chain fh eid hch
      rw [hfh, List.length_range'] at this
      rw [← hk]; exact this
    have hnd2 : ((walkB1 m2 (m2.β 1 eid) e.inter.length).map (fun x => (run (vertexId2 m.n x) m2).1)).Nodup := by
      rw [hwalk]
      have hz : ((e.inter.map fun _ => (1 / 2 : Rat)).zip fh).map (fun x => (run (vertexId2 m1.n x.2) m2).1) =
          fh.map (fun x => (run (vertexId2 m1.n x) m2).1) := by
        have : (fun x : Rat × Nat => (run (vertexId2 m1.n x.2) m2).1) =
            (fun x : Nat => (run (vertexId2 m1.n x) m2).1) ∘ Prod.snd := rfl
        rw [this, ← List.map_map, List.map_snd_zip (by rw [hlen, hfh, List.length_range'])]
      rw [hz, n1] at hdist
      exact hdist
    obtain ⟨hb3, _, hfr⟩ := replaceInter_att m.n ha i _ _ m2 m3 h3c hnd2
    rw [hwalk] at hfr
    have st3 := replaceInter_eff m.n ha i _ _ _ _ h3c
    obtain ⟨⟨y0, ylt2, yu2⟩, hat2⟩ := c2
    have hn2 : m2.n = m.n := by rw [inv2.n_eq, n1]
    refine ⟨⟨y0, by rw [st3.1.n]; exact ylt2, by unfold Map.unused; rw [st3.1.u]; exact yu2⟩, ?_⟩
    rw [cellId_congr_b hb3 st3.1.n, hfr s _ (Or.inr ?_)]
    · exact hat2
    -- the vertex of an intermediate dart contains new darts only
    intro x hx hrun
    have hxr := List.mem_range'_1.1 (by rw [hfh] at hx; exact hx)
    have hx0 : x ≠ 0 := by omega
    have hxlt : x < m2.n := by rw [hn2]; omega
    have hvid := (C03.C03_vertexId2_min w2 hx0 hxlt).1
    rw [hn2] at hvid
    rw [hvid] at hrun
    simp only [Out.ok.injEq] at hrun
    have hreach := ((C03.C03_same_id_iff_same_cell w2 (pol := .vertex) trivial hx0 hxlt y0 ylt2).1).1 hrun
    have hxt : x = fh.getD (x - (eid + 2)) 0 := by rw [hfh, rg' (by omega)]; omega
    rw [hxt] at hreach
    have := C14.new_vertex_darts m1 m2 eid fh sh w1 w2 inv2.n_eq ieid.2.1
      (fun z hz => by have := List.mem_range'_1.1 (by rw [hfh] at hz; exact hz); rw [n1]; exact ⟨by omega, by omega⟩)
      (fun z hz j hj => by have := List.mem_range'_1.1 (by rw [hfh] at hz; exact hz); exact free1 z (by omega) (by omega) j hj)
      (fun _ => ⟨by rw [hfh, hsh, List.length_range', List.length_range'], by rw [b2n, n1]; omega,
        fun z hz => by have := List.mem_range'_1.1 (by rw [hsh] at hz; exact hz); rw [n1]; exact ⟨by omega, by omega⟩⟩)
      hres (x - (eid + 2)) (by rw [hfh, List.length_range']; omega) y hreach
    rcases this with h | h | ⟨_, h⟩
    · rw [← hxt] at h; omega
    · exact y0 h
    · -- a dart of the second side: `eid + 1` or beyond
      rw [hfh, List.length_range', b2n] at h
      by_cases hz : k - (x - (eid + 2)) = 0
      · omega
      · have : k - (x - (eid + 2)) = (k - (x - (eid + 2)) - 1) + 1 := by omega
        rw [this, List.getD_cons_succ, hsh, rg' (by omega)] at h
        omega

/-- **C16 / C17, step 5 — the whole loop keeps the vertices and creates those of the points of interest**: every dart
    below the first block keeps its vertex and the values of its slot (coordinates, anchors); the `q`-th point of interest
    of the `j`-th edge is the coordinate of a vertex of the result, anchored — with the anchor storages — `Node(i + j)` -/
theorem insertEdgesFrom_carries (ha : Bool) : ∀ (edges : List MEdge) (m m' : Map Val) (next i : Nat), EInv m next →
    (∀ e, e ∈ edges → C01.InUse m e.start ∧ C01.InUse m e.stop) →
    next + (edges.map fun e => 2 + 2 * e.inter.length).sum ≤ m.n →
    run (insertEdgesFrom m.n ha i (edges.zip (edgeSlices next edges))) m = (.ok (), m') →
    (∀ s y P, s ≠ sBd → y < next → CarriesS m s y P → CarriesS m' s y P) ∧
    (∀ (j : Nat) (e : MEdge), edges[j]? = some e → ∀ (q : Nat) (pt : Pt), e.inter[q]? = some pt →
      ∃ x, CarriesS m' 0 x (.pt pt.1 pt.2 0) ∧ (ha = true → CarriesS m' sVA x (.tm (.leaf (4 * (i + j)))))) := by
  intro edges
  induction edges with
  | nil =>
      intro m m' next i I _ _ h
      simp only [edgeSlices, List.zip_nil_right, insertEdgesFrom, Prog.pure_eq, run_ret, Prod.mk.injEq] at h
      rw [← h.2]
      exact ⟨fun _ _ _ _ _ hc => hc, fun j e he => by simp at he⟩
  | cons e es ih =>
      intro m m' next i I hio hroom h
      simp only [edgeSlices, List.zip_cons_cons, insertEdgesFrom, Prog.bind_eq] at h
      obtain ⟨_, m1, h1, h2⟩ := run_bind_ok h
      simp only [List.map_cons, List.sum_cons] at hroom
      obtain ⟨hs, he⟩ := hio e List.mem_cons_self
      obtain ⟨I1, n1, u1⟩ := C16_insertOneEdge_inv I hs he (by omega) h1
      rw [← n1] at h2
      have hio' : ∀ e', e' ∈ es → C01.InUse m1 e'.start ∧ C01.InUse m1 e'.stop := by
        intro e' he'
        obtain ⟨a, b⟩ := hio e' (List.mem_cons_of_mem _ he')
        exact ⟨⟨a.1, by rw [n1]; exact a.2.1, by unfold Map.unused; rw [u1]; exact a.2.2⟩,
          ⟨b.1, by rw [n1]; exact b.2.1, by unfold Map.unused; rw [u1]; exact b.2.2⟩⟩
      obtain ⟨frame', pois'⟩ := ih m1 m' _ (i + 1) I1 hio' (by rw [n1]; omega) h2
      refine ⟨fun s y P hs9 hy hc => frame' s y P hs9 (by omega) (carriesS_insertOneEdge I hs he (by omega) h1 hs9 hy hc), ?_⟩
      intro j ej hj q pt hq
      cases j with
      | zero =>
          simp only [List.getElem?_cons_zero, Option.some.injEq] at hj
          subst hj
          obtain ⟨_, _, _, hpt, _⟩ := C16_insertOneEdge_shape I hs he (by omega) h1
          have hqlt : q < e.inter.length := by
            rcases Nat.lt_or_ge q e.inter.length with hh | hh
            · exact hh
            · rw [List.getElem?_eq_none hh] at hq; cases hq
          have hx0 : next + 2 + q ≠ 0 := by omega
          have hxlt : next + 2 + q < m1.n := by rw [n1]; omega
          have iu : C01.InUse m1 (next + 2 + q) :=
            ⟨hx0, hxlt, by unfold Map.unused; rw [u1]; exact (I.fresh _ (by omega) (by omega)).1⟩
          have hrun := (C03.C03_vertexId2_min I1.wf hx0 hxlt).1
          rw [n1] at hrun
          obtain ⟨p0, pa⟩ := hpt q pt hq _ (by rw [hrun])
          refine ⟨next + 2 + q, frame' 0 _ _ (by decide) (by omega) ⟨iu, p0⟩, fun hat => ?_⟩
          rw [Nat.add_zero]
          exact frame' sVA _ _ (by decide) (by omega) ⟨iu, pa hat⟩
      | succ j' =>
          simp only [List.getElem?_cons_succ] at hj
          obtain ⟨x, c0, ca⟩ := pois' j' ej hj q pt hq
          exact ⟨x, c0, fun hat => by have := ca hat; rwa [show i + 1 + j' = i + (j' + 1) by omega] at this⟩

/-- **C16 / C17, step 5 on a map** (`insert_edges_in_map` from an untagged well-formed map): every dart keeps its vertex
    and what its slot holds (coordinates, anchors); every intermediate point of every edge is the coordinate of a vertex,
    anchored `Node(index of the edge)` when the map has the anchor storages -/
theorem C16_stepFive_carries {m m' : Map Val} {ha : Bool} {edges : List MEdge} (hwf : WF 3 m)
    (hnotag : ∀ d, m.att sBd d = none)
    (hio : ∀ e, e ∈ edges → C01.InUse m e.start ∧ C01.InUse m e.stop)
    (hr : stepFive m ha edges = (.ok (), m')) :
    (∀ s y P, s ≠ sBd → CarriesS m s y P → CarriesS m' s y P) ∧
    (∀ (j : Nat) (e : MEdge), edges[j]? = some e → ∀ (q : Nat) (pt : Pt), e.inter[q]? = some pt →
      ∃ x, CarriesS m' 0 x (.pt pt.1 pt.2 0) ∧ (ha = true → CarriesS m' sVA x (.tm (.leaf (4 * j))))) := by
  unfold stepFive at hr
  simp only at hr
  set k := (edges.map fun e => 2 + 2 * e.inter.length).sum with hk
  have hs := hwf.toSized
  have w1 : WF 3 (m.addFreeDarts k).2 := hwf.addFreeDarts (by omega) k
  have hn1 : (m.addFreeDarts k).2.n = m.n + k := rfl
  have t1 := addFreeDarts_att_none sBd hnotag k
  have I1 : EInv (m.addFreeDarts k).2 m.n := by
    refine ⟨w1, fun d => Or.inl (t1 d), ?_, hs.npos, ?_⟩
    · intro d _ _ _
      show (m.addFreeDarts k).2.att sBd d = _ ↔ (m.addFreeDarts k).2.att sBd _ = _
      rw [t1, t1]; simp
    · intro d hd hdn
      refine ⟨?_, ?_, t1 d⟩
      · rw [addFreeDarts_unused hs, if_neg (by omega)]
      · intro i hi; rw [addFreeDarts_β hs k i d hi, if_neg (by omega)]
  have hio' : ∀ e, e ∈ edges → C01.InUse (m.addFreeDarts k).2 e.start ∧ C01.InUse (m.addFreeDarts k).2 e.stop := by
    intro e he
    obtain ⟨a, b⟩ := hio e he
    refine ⟨⟨a.1, by rw [hn1]; have := a.2.1; omega, ?_⟩, ⟨b.1, by rw [hn1]; have := b.2.1; omega, ?_⟩⟩
    · rw [addFreeDarts_unused hs, if_pos a.2.1]; exact a.2.2
    · rw [addFreeDarts_unused hs, if_pos b.2.1]; exact b.2.2
  have hfst : (m.addFreeDarts k).1 = m.n := rfl
  rw [hfst] at hr
  obtain ⟨frame, pois⟩ := insertEdgesFrom_carries ha edges _ m' m.n 0 I1 hio' (by rw [hn1]) hr
  refine ⟨fun s y P hs9 hc => frame s y P hs9 hc.1.2.1 ?_, fun j e hj q pt hq => ?_⟩
  · -- `add_free_darts` first
    obtain ⟨⟨y0, ylt, yu⟩, hat⟩ := hc
    have hid : C03.cellId (m.addFreeDarts k).2 .vertex y = C03.cellId m .vertex y :=
      cellId_of_reach hwf w1 y0 ylt (by rw [hn1]; omega) (fun z _ => reach_addFreeDarts hwf k ylt z)
    refine ⟨⟨y0, by rw [hn1]; omega, by rw [addFreeDarts_unused hs, if_pos ylt]; exact yu⟩, ?_⟩
    rw [hid, ← hat]
    have hv := (C03.cellId_spec hwf (pol := .vertex) trivial y0 ylt).1
    have hvlt : C03.cellId m .vertex y < m.n :=
      ((C03.C03_orbit2_spec hwf (pol := .vertex) trivial y0 ylt).2.2.2.2.2) _ hv
    unfold Map.addFreeDarts Map.att
    simp only
    by_cases h0 : s < m.a.size
    · rw [rd_map _ _ _ h0, rd_ext_lt _ _ _ _ (by have := hs.asz s h0; omega)]
    · rw [rd_oob (a := m.a.map _) (i := s) (by simpa using Nat.le_of_not_lt h0), rd_oob (a := m.a) (i := s) (Nat.le_of_not_lt h0)]
  · obtain ⟨x, c0, ca⟩ := pois j e hj q pt hq
    exact ⟨x, c0, fun hat => by have := ca hat; rwa [Nat.zero_add] at this⟩

/-! ## the new darts of step 3 are in use and 2-linked (towards `EdgeDartsInUse`) -/

/-- one insertion on a block `off ..+ 2·len`: the new darts are in use; on a two-dart edge they are 2-linked -/
theorem insert_block_linked {m m' : Map Val} {e off len : Nat} {ts : List Rat} (hlen : ts.length = len) (hwf : WF 3 m)
    (he : C01.InUse m e) (hlive : ∀ d, d ∈ List.range' off (2 * len) → m.unused d = false)
    (hr : run (insertVerticesOnEdge m.n e (List.range' off (2 * len)) ts) m = (.ok (), m')) {i : Nat} (hilt : i < len) :
    C01.InUse m' (off + i) ∧
    (m.β 2 e ≠ 0 → C01.InUse m' (off + (len + (len - 1 - i))) ∧ m'.β 2 (off + i) ≠ 0 ∧
      m'.β 2 (off + (len + (len - 1 - i))) ≠ 0) := by
  have hsplit : List.range' off (2 * len) = List.range' off len ++ List.range' (off + len) len := by
    rw [show 2 * len = len + len by omega, ← List.range'_append, Nat.one_mul]
  have htake : (List.range' off (2 * len)).take ts.length = List.range' off len := by
    rw [hlen, hsplit, List.take_left' (by rw [List.length_range'])]
  have hdrop : (List.range' off (2 * len)).drop ts.length = List.range' (off + len) len := by
    rw [hlen, hsplit, List.drop_left' (by rw [List.length_range'])]
  have hfhnd : ((List.range' off (2 * len)).take ts.length).Nodup := by rw [htake]; exact List.nodup_range'
  have inv := C14.insertVertices_inv m m' e _ _ hwf he hlive (fun _ => List.nodup_range') hr
  have H := C14.insHyp_insertVertices m m' e _ _ hwf he hlive hfhnd (fun _ => List.nodup_range') hr
  rw [htake, hdrop] at H
  have el := C14.insertVertices_ok_elim hr
  have lt_of : ∀ d, d ∈ List.range' off (2 * len) → d < m.n := fun d hd => ((hwf.toSized.okβ 0 _).1 (el.2.1 d hd).1).2
  have m1 : off + i ∈ List.range' off (2 * len) := List.mem_range'_1.2 ⟨by omega, by omega⟩
  have hd0 : off + i ≠ 0 := el.2.2.2.1 (off + i) (by rw [htake]; exact List.mem_range'_1.2 ⟨by omega, by omega⟩)
  have iu : ∀ d, d ∈ List.range' off (2 * len) → d ≠ 0 → C01.InUse m' d := fun d hd h0 =>
    ⟨h0, by rw [inv.n_eq]; exact lt_of d hd, by unfold Map.unused; rw [inv.u_eq]; exact hlive d hd⟩
  refine ⟨iu _ m1 hd0, fun he2 => ?_⟩
  have m2 : off + (len + (len - 1 - i)) ∈ List.range' off (2 * len) := List.mem_range'_1.2 ⟨by omega, by omega⟩
  have hx0 : off + (len + (len - 1 - i)) ≠ 0 :=
    el.2.2.2.2.1 he2 _ (by rw [hdrop]; exact List.mem_range'_1.2 ⟨by omega, by omega⟩)
  have hlenF : (List.range' off len).length = len := List.length_range'
  -- β2 pairs `S2[j]` with `S1[len - j]`
  have p1 := H.pairs_index he2 (len - 1 - i) (by rw [hlenF]; omega)
  have p2 := H.pairs_index he2 (len - i) (by rw [hlenF]; omega)
  rw [hlenF] at p1 p2
  have e1 : (e :: List.range' off len).getD (len - (len - 1 - i)) 0 = off + i := by
    have : len - (len - 1 - i) = i + 1 := by omega
    rw [this, List.getD_cons_succ, range'_getD hilt]
  have e2 : (m.β 2 e :: List.range' (off + len) len).getD (len - i) 0 = off + (len + (len - 1 - i)) := by
    have : len - i = (len - 1 - i) + 1 := by omega
    rw [this, List.getD_cons_succ, range'_getD (by omega)]; omega
  refine ⟨iu _ m2 hx0, ?_, ?_⟩
  · -- the partner of `off + i` is `S2[len - 1 - i]`: the old opposite dart or a dart of the second half
    rw [← e1, p1.2]
    by_cases hz : len - 1 - i = 0
    · rw [hz]; simpa using he2
    · have : len - 1 - i = (len - 1 - i - 1) + 1 := by omega
      rw [this, List.getD_cons_succ, range'_getD (by omega)]
      intro h0
      exact el.2.2.2.2.1 he2 _ (by rw [hdrop]; exact List.mem_range'_1.2 ⟨by omega, by omega⟩) h0
  · rw [← e2, p2.1]
    by_cases hz : len - (len - i) = 0
    · rw [hz]; simpa using he.1
    · have : len - (len - i) = (len - (len - i) - 1) + 1 := by omega
      rw [this, List.getD_cons_succ, range'_getD (by omega)]
      intro h0
      exact el.2.2.2.1 _ (by rw [htake]; exact List.mem_range'_1.2 ⟨by omega, by omega⟩) h0

/-- the all-edges induction again, for the discrete facts: every new dart of every block is in use, and 2-linked when its
    grid edge was; β2 of the darts below `off` that belong to no processed edge is unchanged -/
theorem insertIntersections_linked : ∀ (gs : List (Nat × List Hit)) (m m' : Map Val) (off : Nat), WF 3 m →
    (∀ d, off ≤ d → d < m.n → m.unused d = false ∧ ∀ i, i < 3 → m.β i d = 0) →
    off + 2 * (gs.map (·.2.length)).sum ≤ m.n → 0 < off →
    (∀ g, g ∈ gs → C01.InUse m g.1 ∧ g.1 < off ∧ m.β 1 g.1 ≠ 0) →
    (gs.map (·.1)).Nodup → (∀ g, g ∈ gs → ∀ g', g' ∈ gs → m.β 2 g.1 ≠ g'.1) →
    run (insertIntersections m.n (gs.zip (slicesFrom off (gs.map (·.2.length))))) m = (.ok (), m') →
    WF 3 m' ∧ m'.n = m.n ∧ m'.u = m.u ∧
    (∀ y, y < off → (∀ g, g ∈ gs → y ≠ g.1 ∧ y ≠ m.β 2 g.1) → m'.β 2 y = m.β 2 y) ∧
    (∀ (j : Nat) (g : Nat × List Hit), gs[j]? = some g → ∀ (i : Nat), i < g.2.length →
        C01.InUse m' (off + 2 * ((gs.map (·.2.length)).take j).sum + i) ∧
        (m.β 2 g.1 ≠ 0 →
          C01.InUse m' (off + 2 * ((gs.map (·.2.length)).take j).sum + (g.2.length + (g.2.length - 1 - i))) ∧
          m'.β 2 (off + 2 * ((gs.map (·.2.length)).take j).sum + i) ≠ 0 ∧
          m'.β 2 (off + 2 * ((gs.map (·.2.length)).take j).sum + (g.2.length + (g.2.length - 1 - i))) ≠ 0)) := by
  intro gs
  induction gs with
  | nil =>
      intro m m' off hwf _ _ _ _ _ _ hr
      simp only [List.map_nil, slicesFrom, List.zip_nil_right, insertIntersections, Prog.pure_eq, run_ret,
        Prod.mk.injEq] at hr
      rw [← hr.2]
      exact ⟨hwf, rfl, rfl, fun _ _ _ => rfl, fun j g hg => by simp at hg⟩
  | cons g rest ih =>
      intro m m' off hwf hfresh hroom hpos hkeys hnd hcan hr
      simp only [List.map_cons, slicesFrom, List.zip_cons_cons, insertIntersections, Prog.bind_eq] at hr
      obtain ⟨_, m1, h1, h2⟩ := run_bind_ok hr
      simp only [List.map_cons, List.sum_cons] at hroom
      set len := g.2.length with hlen
      obtain ⟨ig, glt, gb1⟩ := hkeys g List.mem_cons_self
      have hts : (g.2.map (·.t)).length = len := by rw [List.length_map]
      have hlive : ∀ d, d ∈ List.range' off (2 * len) → m.unused d = false := by
        intro d hd
        have := List.mem_range'_1.1 hd
        exact (hfresh d (by omega) (by omega)).1
      have hfhnd : ((List.range' off (2 * len)).take (g.2.map (·.t)).length).Nodup :=
        (List.nodup_range').sublist (List.take_sublist _ _)
      have inv := C14.insertVertices_inv m m1 g.1 _ _ hwf ig hlive (fun _ => List.nodup_range') h1
      obtain ⟨w1, hres⟩ := C14.C14_insertVertices_beta_structure m m1 g.1 _ _ hwf ig hlive hfhnd
        (fun _ => List.nodup_range') h1
      have inF : ∀ y, y ∈ (List.range' off (2 * len)).take (g.2.map (·.t)).length → off ≤ y ∧ y < off + 2 * len := by
        intro y hy; have := List.mem_range'_1.1 (List.mem_of_mem_take hy); omega
      have inS : ∀ y, y ∈ (List.range' off (2 * len)).drop (g.2.map (·.t)).length → off ≤ y ∧ y < off + 2 * len := by
        intro y hy; have := List.mem_range'_1.1 (List.mem_of_mem_drop hy); omega
      have hb2lt : ∀ g', g' ∈ g :: rest → m.β 2 g'.1 < off := by
        intro g' hg'
        obtain ⟨a, _, _⟩ := hkeys g' hg'
        by_cases hz : m.β 2 g'.1 = 0
        · rw [hz]; exact hpos
        · have hi := hwf.invol 2 (by omega) (by omega) g'.1 a.2.1 hz
          exact not_fresh hfresh (hwf.range 2 (by omega) _ a.2.1) (by omega : 2 < 3) (by rw [hi.1]; exact a.1)
      have fr1 : ∀ y, y < off → y ≠ g.1 → y ≠ m.β 2 g.1 → m1.β 1 y = m.β 1 y := by
        intro y hy a b
        refine hres.frame1 y ?_ (fun _ => ?_)
        · intro hh; rcases List.mem_cons.1 hh with h | h
          · exact a h
          · have := inF y h; omega
        · intro hh; rcases List.mem_cons.1 hh with h | h
          · exact b h
          · have := inS y h; omega
      have fr2 : ∀ y, y ≠ g.1 → y ≠ m.β 2 g.1 → (y < off ∨ off + 2 * len ≤ y) → m1.β 2 y = m.β 2 y := by
        intro y a b hy
        refine hres.frame2 y (fun _ => ⟨?_, ?_⟩)
        · intro hh; rcases List.mem_cons.1 hh with h | h
          · exact a h
          · have := inF y h; omega
        · intro hh; rcases List.mem_cons.1 hh with h | h
          · exact b h
          · have := inS y h; omega
      have hsub : ∀ g', g' ∈ rest → g' ∈ g :: rest := fun g' h => List.mem_cons_of_mem _ h
      have hne_g : ∀ g', g' ∈ rest → g'.1 ≠ g.1 := by
        intro g' hg' e
        simp only [List.map_cons, List.nodup_cons, List.mem_map, not_exists, not_and] at hnd
        exact hnd.1 g' hg' e
      have hfresh1 : ∀ d, off + 2 * len ≤ d → d < m1.n → m1.unused d = false ∧ ∀ i, i < 3 → m1.β i d = 0 := by
        intro d hd hdn
        rw [inv.n_eq] at hdn
        obtain ⟨fu, fb⟩ := hfresh d (by omega) hdn
        refine ⟨by unfold Map.unused; rw [inv.u_eq]; exact fu, ?_⟩
        have hb2g := hb2lt g List.mem_cons_self
        have o1 : d ∉ g.1 :: (List.range' off (2 * len)).take (g.2.map (·.t)).length := by
          intro hh; rcases List.mem_cons.1 hh with h | h
          · omega
          · have := inF d h; omega
        have o2 : d ∉ m.β 2 g.1 :: (List.range' off (2 * len)).drop (g.2.map (·.t)).length := by
          intro hh; rcases List.mem_cons.1 hh with h | h
          · omega
          · have := inS d h; omega
        intro i hi
        rcases (by omega : i = 0 ∨ i = 1 ∨ i = 2) with rfl | rfl | rfl
        · rw [hres.frame0 d (fun h => o1 (List.mem_cons_of_mem _ h)) ?_ (fun _ => ⟨fun h => o2 (List.mem_cons_of_mem _ h), ?_⟩)]
          · exact fb 0 (by omega)
          · intro e
            have hb : m.β 0 (m.β 1 g.1) = g.1 := hwf.inv01 g.1 ig.2.1 gb1
            rw [← e, fb 0 (by omega)] at hb; exact ig.1 hb.symm
          · intro e
            by_cases hz : m.β 1 (m.β 2 g.1) = 0
            · rw [hz] at e; omega
            · have hb : m.β 0 (m.β 1 (m.β 2 g.1)) = m.β 2 g.1 := hwf.inv01 _ (hwf.range 2 (by omega) _ ig.2.1) hz
              rw [← e, fb 0 (by omega)] at hb
              have : m.β 1 (m.β 2 g.1) = 0 := by rw [← hb]; exact hwf.null 1 (by omega)
              exact hz this
        · rw [hres.frame1 d o1 (fun _ => o2)]; exact fb 1 (by omega)
        · rw [hres.frame2 d (fun _ => ⟨o1, o2⟩)]; exact fb 2 (by omega)
      have hkeys1 : ∀ g', g' ∈ rest → C01.InUse m1 g'.1 ∧ g'.1 < off + 2 * len ∧ m1.β 1 g'.1 ≠ 0 := by
        intro g' hg'
        obtain ⟨a, b, c⟩ := hkeys g' (hsub g' hg')
        refine ⟨⟨a.1, by rw [inv.n_eq]; exact a.2.1, by unfold Map.unused; rw [inv.u_eq]; exact a.2.2⟩, by omega, ?_⟩
        rw [fr1 g'.1 b (hne_g g' hg') (fun e => hcan g List.mem_cons_self g' (hsub g' hg') e.symm)]; exact c
      have hb2same : ∀ a, a ∈ rest → m1.β 2 a.1 = m.β 2 a.1 := fun a ha =>
        fr2 a.1 (hne_g a ha) (fun e => hcan g List.mem_cons_self a (hsub a ha) e.symm) (Or.inl (hkeys a (hsub a ha)).2.1)
      have hcan1 : ∀ a, a ∈ rest → ∀ b, b ∈ rest → m1.β 2 a.1 ≠ b.1 := by
        intro a ha b hb
        rw [hb2same a ha]
        exact hcan a (hsub a ha) b (hsub b hb)
      rw [← inv.n_eq] at h2
      obtain ⟨w', n', u', f2', new'⟩ := ih m1 m' (off + 2 * len) w1 hfresh1 (by rw [inv.n_eq]; omega) (by omega) hkeys1
        (by simp only [List.map_cons, List.nodup_cons] at hnd; exact hnd.2) hcan1 h2
      refine ⟨w', by rw [n', inv.n_eq], by rw [u', inv.u_eq], ?_, ?_⟩
      · intro y hy hyk
        rw [f2' y (by omega) (fun a ha => ⟨(hyk a (hsub a ha)).1, by rw [hb2same a ha]; exact (hyk a (hsub a ha)).2⟩)]
        exact fr2 y (hyk g List.mem_cons_self).1 (hyk g List.mem_cons_self).2 (Or.inl hy)
      · intro j gj hj i hi
        cases j with
        | zero =>
            simp only [List.getElem?_cons_zero, Option.some.injEq] at hj
            subst hj
            simp only [List.take_zero, List.sum_nil, Nat.mul_zero, Nat.add_zero]
            obtain ⟨a, b⟩ := insert_block_linked hts hwf ig hlive h1 hi
            -- the later insertions leave these darts alone
            have keep : ∀ y, off ≤ y → y < off + 2 * len → m'.β 2 y = m1.β 2 y := by
              intro y h1' h2'
              refine f2' y (by omega) (fun a' ha' => ⟨?_, ?_⟩)
              · have := (hkeys a' (hsub a' ha')).2.1; omega
              · rw [hb2same a' ha']; have := hb2lt a' (hsub a' ha'); omega
            have iu' : ∀ y, C01.InUse m1 y → C01.InUse m' y := fun y h =>
              ⟨h.1, by rw [n']; exact h.2.1, by unfold Map.unused; rw [u']; exact h.2.2⟩
            refine ⟨iu' _ a, fun he2 => ?_⟩
            obtain ⟨b1, b2, b3⟩ := b he2
            exact ⟨iu' _ b1, by rw [keep _ (by omega) (by omega)]; exact b2, by rw [keep _ (by omega) (by omega)]; exact b3⟩
        | succ j' =>
            simp only [List.getElem?_cons_succ] at hj
            have hgj : gj ∈ rest := List.mem_of_getElem? hj
            have := new' j' gj hj i hi
            rw [hb2same gj hgj] at this
            have harith : off + 2 * len + 2 * (List.take j' (List.map (fun x => x.2.length) rest)).sum =
                off + 2 * (List.take (j' + 1) (len :: List.map (fun x => x.2.length) rest)).sum := by
              rw [List.take_succ_cons, List.sum_cons]; omega
            rw [harith] at this
            exact this

/-! ## in general position every vertex of `new_segments` is a geometry vertex or a written slot -/

/-- a geometry vertex, or an intersection whose identifier is a slot number below `N`; no corner -/
def GVok (N : Nat) : GV → Prop
  | .regular _ => True
  | .poi _ => True
  | .intersec i => i < N
  | .corner _ => False

theorem GVok.mono {N N' : Nat} (h : N ≤ N') : ∀ {v : GV}, GVok N v → GVok N' v
  | .regular _, _ => trivial
  | .poi _, _ => trivial
  | .intersec i, hv => Nat.lt_of_lt_of_le hv h
  | .corner _, hv => hv

theorem mem_pairsOf {α : Type} : ∀ {l : List α} {p : α × α}, p ∈ pairsOf l → p.1 ∈ l ∧ p.2 ∈ l
  | [], _, h => by simp [pairsOf] at h
  | [_], _, h => by simp [pairsOf] at h
  | a :: b :: rest, p, h => by
      simp only [pairsOf, List.mem_cons] at h
      rcases h with rfl | h
      · exact ⟨by simp, by simp⟩
      · have := mem_pairsOf (l := b :: rest) h
        exact ⟨List.mem_cons_of_mem _ this.1, List.mem_cons_of_mem _ this.2⟩

theorem segDist_eq (g : GGrid) (a b : Pt) : segDist g a b =
    (((gridCellOf g b).1 : Int) - ((gridCellOf g a).1 : Int)).natAbs + (((gridCellOf g b).2 : Int) - ((gridCellOf g a).2 : Int)).natAbs := rfl

theorem chainOf_ok {g : GGrid} {eps : Rat} {poi : List Nat} {verts : List Pt} {start : Nat} {seg : Nat × Nat}
    (H : GenPos g eps (verts.getD seg.1 (0, 0)) (verts.getD seg.2 (0, 0))) :
    ∀ v, v ∈ chainOf g eps poi verts start seg →
      GVok (start + segDist g (verts.getD seg.1 (0, 0)) (verts.getD seg.2 (0, 0))) v := by
  intro v hv
  have hcount := C16_crossings_count H
  rw [← segDist_eq] at hcount
  unfold chainOf at hv
  simp only [List.mem_cons, List.mem_append, List.mem_map, List.mem_singleton, List.not_mem_nil, or_false] at hv
  have hmk : ∀ x, GVok (start + segDist g (verts.getD seg.1 (0, 0)) (verts.getD seg.2 (0, 0))) (mkGV poi x) := by
    intro x; unfold mkGV; split <;> trivial
  rcases hv with rfl | ⟨x, hx, rfl⟩ | rfl
  · exact hmk _
  · obtain ⟨c, p⟩ := x
    have hp := List.mem_zipIdx_iff_getElem?.1 hx
    have hplt : p < (crossingsOf g eps (verts.getD seg.1 (0, 0)) (verts.getD seg.2 (0, 0))).length := by
      rcases Nat.lt_or_ge p (crossingsOf g eps (verts.getD seg.1 (0, 0)) (verts.getD seg.2 (0, 0))).length with h | h
      · exact h
      · rw [List.getElem?_eq_none h] at hp; cases hp
    have hc : c ∈ crossingsOf g eps (verts.getD seg.1 (0, 0)) (verts.getD seg.2 (0, 0)) := List.mem_of_getElem? hp
    have ht := (C16_crossings_sound H hc).2.2.1
    simp only
    rw [if_neg (fun hh => by rw [hh.2.2] at ht; exact lt_irrefl _ ht)]
    show _ < _
    rw [hcount] at hplt ⊢
    split <;> omega
  · exact hmk _

theorem segmentsFrom_ok {g : GGrid} {eps : Rat} {poi : List Nat} {verts : List Pt} : ∀ (segs : List (Nat × Nat)) (start : Nat),
    (∀ seg, seg ∈ segs → GenPos g eps (verts.getD seg.1 (0, 0)) (verts.getD seg.2 (0, 0))) →
    ∀ p, p ∈ segmentsFrom g eps poi verts start segs →
      GVok (start + (segs.map fun seg => segDist g (verts.getD seg.1 (0, 0)) (verts.getD seg.2 (0, 0))).sum) p.1 ∧
      GVok (start + (segs.map fun seg => segDist g (verts.getD seg.1 (0, 0)) (verts.getD seg.2 (0, 0))).sum) p.2
  | [], _, _, p, hp => by simp [segmentsFrom] at hp
  | seg :: rest, start, hgen, p, hp => by
      simp only [segmentsFrom, List.mem_append] at hp
      simp only [List.map_cons, List.sum_cons]
      rcases hp with hp | hp
      · obtain ⟨a, b⟩ := mem_pairsOf hp
        have H := hgen seg List.mem_cons_self
        exact ⟨GVok.mono (by omega) (chainOf_ok H _ a), GVok.mono (by omega) (chainOf_ok H _ b)⟩
      · have := segmentsFrom_ok rest _ (fun s hs => hgen s (List.mem_cons_of_mem _ hs)) p hp
        rw [Nat.add_assoc] at this
        exact this

theorem slotsAll_length {g : GGrid} {eps : Rat} {verts : List Pt} : ∀ (segs : List (Nat × Nat)),
    (∀ seg, seg ∈ segs → GenPos g eps (verts.getD seg.1 (0, 0)) (verts.getD seg.2 (0, 0))) →
    (slotsAll g eps verts segs).length =
      (segs.map fun seg => segDist g (verts.getD seg.1 (0, 0)) (verts.getD seg.2 (0, 0))).sum ∧
    ∀ sl, sl ∈ slotsAll g eps verts segs → sl ≠ none
  | [], _ => by simp [slotsAll]
  | seg :: rest, hgen => by
      have H := hgen seg List.mem_cons_self
      obtain ⟨ih1, ih2⟩ := slotsAll_length rest (fun s hs => hgen s (List.mem_cons_of_mem _ hs))
      have hs := C16_slots_genpos H
      have hl : (slotsOf g eps (verts.getD seg.1 (0, 0)) (verts.getD seg.2 (0, 0))).length =
          segDist g (verts.getD seg.1 (0, 0)) (verts.getD seg.2 (0, 0)) := by
        rw [hs, List.length_map, (C16_metadata_spec H).2.2, segDist_eq]
      unfold slotsAll at ih1 ih2 ⊢
      simp only [List.flatMap_cons, List.length_append, List.map_cons, List.sum_cons, List.mem_append]
      refine ⟨by rw [hl, ih1], ?_⟩
      rintro sl (h | h)
      · rw [hs] at h
        obtain ⟨c, _, rfl⟩ := List.mem_map.1 h
        simp
      · exact ih2 sl h

theorem segNext_mem {segs : List (GV × GV)} {k v : GV} (h : segNext segs k = some v) : (k, v) ∈ segs := by
  unfold segNext at h
  cases hf : segs.reverse.find? (fun p => decide (p.1 = k)) with
  | none => rw [hf] at h; cases h
  | some p =>
      rw [hf] at h
      simp only [Option.map_some, Option.some.injEq] at h
      have hm := List.mem_of_find?_eq_some hf
      have hp := List.find?_some hf
      have : p.1 = k := by simpa using hp
      have : p = (k, v) := Prod.ext this h
      rw [← this]; exact List.mem_reverse.1 hm

theorem path_end_ok {segs : List (GV × GV)} {N : Nat} (hok : ∀ p, p ∈ segs → GVok N p.2) {v e : GV} {l : List GV}
    (hp : Path segs v l e) (hv : GVok N v) : GVok N e ∧ e.isCross = true := by
  induction hp with
  | stop h => exact ⟨hv, h⟩
  | step _ hn _ ih => exact ih (hok _ (segNext_mem hn))

/-- steps 2 + 3, discrete part: the dart of every written slot of a 2-linked grid edge is in use and 2-linked -/
theorem steps23_linked {m0 m3 : Map Val} {slots : List Slot} {keys res : List Nat} (hwf : WF 3 m0) (hk : keys.Nodup)
    (hkeys : ∀ e, e ∈ keys → C01.InUse m0 e ∧ m0.β 1 e ≠ 0 ∧ edgeOf (m0.β 2) e = e)
    (hall : ∀ (K d : Nat) (t : Rat), slots[K]? = some (some (d, t)) → edgeOf (m0.β 2) d ∈ keys)
    (hrun : stepsTwoThree m0 slots keys = (res, .ok (), m3)) :
    WF 3 m3 ∧ ∀ (K d : Nat) (t : Rat), slots[K]? = some (some (d, t)) → d < m0.n → m0.β 2 d ≠ 0 →
      ∃ x, res[K]? = some x ∧ C01.InUse m3 x ∧ m3.β 2 x ≠ 0 := by
  unfold stepsTwoThree at hrun
  simp only at hrun
  set hs := hitsOf (m0.β 2) slots with hhs
  set gs := groupsOf hs keys with hgs
  set tot := 2 * (gs.map (·.2.length)).sum with htot
  have hsz := hwf.toSized
  have hfst : (m0.addFreeDarts tot).1 = m0.n := rfl
  have hn1 : (m0.addFreeDarts tot).2.n = m0.n + tot := rfl
  rw [hfst] at hrun
  simp only [Prod.mk.injEq] at hrun
  obtain ⟨hres, hout, hm3⟩ := hrun
  have hr : run (insertIntersections (m0.addFreeDarts tot).2.n (gs.zip (slicesFrom m0.n (gs.map (·.2.length)))))
      (m0.addFreeDarts tot).2 = (.ok (), m3) := Prod.ext hout hm3
  have w1 : WF 3 (m0.addFreeDarts tot).2 := hwf.addFreeDarts (by omega) tot
  have eβ : ∀ i d, i < 3 → d < m0.n → (m0.addFreeDarts tot).2.β i d = m0.β i d := by
    intro i d hi hd; rw [addFreeDarts_β hsz tot i d hi, if_pos hd]
  have iu1 : ∀ {d}, C01.InUse m0 d → C01.InUse (m0.addFreeDarts tot).2 d := by
    intro d h
    exact ⟨h.1, by rw [hn1]; have := h.2.1; omega, by rw [addFreeDarts_unused hsz, if_pos h.2.1]; exact h.2.2⟩
  have hmemg : ∀ g, g ∈ gs → g.1 ∈ keys ∧ g.2 = groupOf hs g.1 := by
    intro g hg
    rw [hgs] at hg; unfold groupsOf at hg
    obtain ⟨e, he, rfl⟩ := List.mem_map.1 hg
    exact ⟨he, rfl⟩
  have hmap1 : gs.map (·.1) = keys := by
    rw [hgs]; unfold groupsOf; rw [List.map_map]
    exact List.map_id' _
  obtain ⟨w3, _, _, _, new3⟩ := insertIntersections_linked gs _ m3 m0.n w1
    (by intro d hd hdn
        refine ⟨by rw [addFreeDarts_unused hsz, if_neg (by omega)], fun i hi => ?_⟩
        rw [addFreeDarts_β hsz tot i d hi, if_neg (by omega)])
    (by rw [hn1]) hsz.npos
    (by intro g hg
        obtain ⟨a, b, _⟩ := hkeys g.1 (hmemg g hg).1
        exact ⟨iu1 a, a.2.1, by rw [eβ 1 _ (by omega) a.2.1]; exact b⟩)
    (by rw [hmap1]; exact hk)
    (by intro g hg g' hg'
        obtain ⟨a, _, c⟩ := hkeys g.1 (hmemg g hg).1
        obtain ⟨a', _, c'⟩ := hkeys g'.1 (hmemg g' hg').1
        rw [eβ 2 _ (by omega) a.2.1]
        exact canonical_not_opposite hwf a a'.1 c c') hr
  refine ⟨w3, ?_⟩
  intro K d t hK hdlt hb2
  set e := edgeOf (m0.β 2) d with he
  set h : Hit := { idx := K, t := if e ≠ d then 1 - t else t, dart := d } with hh
  have hx : (e, h) ∈ hs := (C16_hits_slot_numbers (m0.β 2) slots _).2 ⟨K, d, t, hK, rfl⟩
  have hek : e ∈ keys := hall K d t hK
  obtain ⟨j, hj⟩ := List.getElem?_of_mem hek
  obtain ⟨i, hi⟩ := List.getElem?_of_mem (mem_groupOf.2 hx)
  have hilt : i < (groupOf hs e).length := by
    rcases Nat.lt_or_ge i (groupOf hs e).length with h' | h'
    · exact h'
    · rw [List.getElem?_eq_none h'] at hi; cases hi
  have hval := intersection_ids_at (base := m0.n) (hits_idx_nodup (m0.β 2) slots) hk slots.length
    (fun x hx' => hits_idx_lt (m0.β 2) slots hx') hx hj hi
  rw [← hgs, hres] at hval
  have hgj : gs[j]? = some (e, groupOf hs e) := by
    rw [hgs]; unfold groupsOf; rw [List.getElem?_map, hj]; rfl
  obtain ⟨ie, _, _⟩ := hkeys e hek
  -- the edge is 2-linked: it is `d`'s edge
  have he2 : (m0.addFreeDarts tot).2.β 2 e ≠ 0 := by
    rw [eβ 2 _ (by omega) ie.2.1]
    have : edgeOf (m0.β 2) d = e := he.symm
    unfold edgeOf at this
    by_cases hc : m0.β 2 d ≠ 0 ∧ m0.β 2 d < d
    · rw [if_pos hc] at this
      rw [← this, (hwf.invol 2 (by omega) (by omega) d hdlt hb2).1]
      intro h0; rw [h0, hwf.null 2 (by omega)] at hb2; exact hb2 rfl
    · rw [if_neg hc] at this; rw [← this]; exact hb2
  obtain ⟨a, b⟩ := new3 j _ hgj i hilt
  obtain ⟨b1, b2, b3⟩ := b he2
  refine ⟨_, hval, ?_⟩
  by_cases hd : h.dart = e
  · rw [if_pos hd]; exact ⟨a, b2⟩
  · rw [if_neg hd]; exact ⟨b1, b3⟩

/-! ## the chain -/

/-- steps 1-5 of the modelled pipeline on the grid map `m0`, for the iteration orders `keys2` (edges of step 2) and
    `keys4` (keys of step 4) of the two `HashMap`s: `some` of the resulting map when every step succeeds -/
def pipelineMap (m0 : Map Val) (g : GGrid) (eps : Rat) (poi : List Nat) (verts : List Pt) (segs : List (Nat × Nat))
    (ha : Bool) (keys2 : List Nat) (keys4 : List GV) : Option (Map Val) :=
  match stepsTwoThree m0 (slotsAll g eps verts segs) keys2 with
  | (res, .ok _, m3) =>
      match edgeData (m3.β 1) (m3.β 2) verts (segmentsOf g eps poi verts segs) res keys4 with
      | .ok edges =>
          match stepFive m3 ha edges with
          | (.ok _, m') => some m'
          | _ => none
      | _ => none
  | _ => none

/-- the data of a successful run -/
theorem pipelineMap_some {m0 m' : Map Val} {g : GGrid} {eps : Rat} {poi : List Nat} {verts : List Pt}
    {segs : List (Nat × Nat)} {ha : Bool} {keys2 : List Nat} {keys4 : List GV}
    (h : pipelineMap m0 g eps poi verts segs ha keys2 keys4 = some m') :
    ∃ res m3 edges, stepsTwoThree m0 (slotsAll g eps verts segs) keys2 = (res, .ok (), m3) ∧
      edgeData (m3.β 1) (m3.β 2) verts (segmentsOf g eps poi verts segs) res keys4 = .ok edges ∧
      stepFive m3 ha edges = (.ok (), m') := by
  unfold pipelineMap at h
  rcases h23 : stepsTwoThree m0 (slotsAll g eps verts segs) keys2 with ⟨res, o, m3⟩
  rw [h23] at h
  cases o with
  | ok u =>
      simp only at h
      cases h4 : edgeData (m3.β 1) (m3.β 2) verts (segmentsOf g eps poi verts segs) res keys4 with
      | ok edges =>
          rw [h4] at h
          simp only at h
          rcases h5 : stepFive m3 ha edges with ⟨o5, m5⟩
          rw [h5] at h
          cases o5 with
          | ok u5 => simp only [Option.some.injEq] at h; subst h; exact ⟨res, m3, edges, rfl, h4, h5⟩
          | err _ => simp at h
          | retry => simp at h
          | panic => simp at h
      | panic => rw [h4] at h; simp at h
      | diverges => rw [h4] at h; simp at h
  | err _ => simp at h
  | retry => simp at h
  | panic => simp at h

/-- hypothesis **SideCoords**: where the boundary crosses it, the grid map has the side the kernel computed: the dart of
    every crossing is in use, has a successor, and the point at position `t` between the coordinates of its two end points
    is the crossing point.  (On the grid `build_2d_grid` returns this is `C16_crossings_sound` — `segPoint a b s =
    sidePoint g x y k t` — plus the corner coordinates of the builder; evaluated on every case by the hook-level oracle of
    the `gids` tie: `position`.) -/
def SideCoords (m0 : Map Val) (g : GGrid) (eps : Rat) (verts : List Pt) (segs : List (Nat × Nat)) : Prop :=
  ∀ seg, seg ∈ segs → ∀ c, c ∈ crossingsOf g eps (verts.getD seg.1 (0, 0)) (verts.getD seg.2 (0, 0)) →
    C01.InUse m0 c.dart ∧ m0.β 1 c.dart ≠ 0 ∧ ∃ v1 v2, Carries m0 c.dart v1 ∧ Carries m0 (m0.β 1 c.dart) v2 ∧
      placeVal v1 v2 (some c.t) =
        .pt (segPoint (verts.getD seg.1 (0, 0)) (verts.getD seg.2 (0, 0)) c.s).1
            (segPoint (verts.getD seg.1 (0, 0)) (verts.getD seg.2 (0, 0)) c.s).2 0

/-- hypothesis **KeysOK**: the iteration order of the `HashMap` of step 2 lists distinct in-use identifier darts
    (`edge_id(e) = e`) with a successor, among them the edge of every written slot -/
def KeysOK (m0 : Map Val) (slots : List Slot) (keys2 : List Nat) : Prop :=
  keys2.Nodup ∧ (∀ e, e ∈ keys2 → C01.InUse m0 e ∧ m0.β 1 e ≠ 0 ∧ edgeOf (m0.β 2) e = e) ∧
  ∀ (K d : Nat) (t : Rat), slots[K]? = some (some (d, t)) → edgeOf (m0.β 2) d ∈ keys2

/-- hypothesis **EdgeDartsInUse**: the start and end darts step 4 hands to step 5 are darts in use of the map after step 3
    (they are `β2(res[i])` / `res[j]`, darts of the vertices of step 3; a null start dart makes `build_base_edge` panic) -/
def EdgeDartsInUse (m3 : Map Val) (edges : List MEdge) : Prop :=
  ∀ e, e ∈ edges → C01.InUse m3 e.start ∧ C01.InUse m3 e.stop

/-- **C16 — `EdgeDartsInUse` is a consequence of the earlier steps**: in general position, with the crossed grid edges
    2-linked and the keys of step 4 intersections (what `generate_edge_data` filters), the start and end darts of every
    edge of step 4 are darts in use of the map after step 3: the end dart is the dart of a written slot, the start dart the
    β2 image of one -/
theorem C16_edge_darts_in_use {m0 m3 : Map Val} {g : GGrid} {eps : Rat} {poi : List Nat} {verts : List Pt}
    {segs : List (Nat × Nat)} {keys2 res : List Nat} {keys4 : List GV} {edges : List MEdge} (hwf : WF 3 m0)
    (hgen : ∀ seg, seg ∈ segs → GenPos g eps (verts.getD seg.1 (0, 0)) (verts.getD seg.2 (0, 0)))
    (hkeys : KeysOK m0 (slotsAll g eps verts segs) keys2)
    (hint : ∀ (K d : Nat) (t : Rat), (slotsAll g eps verts segs)[K]? = some (some (d, t)) → d < m0.n ∧ m0.β 2 d ≠ 0)
    (hk4 : ∀ k, k ∈ keys4 → k.isCross = true)
    (h23 : stepsTwoThree m0 (slotsAll g eps verts segs) keys2 = (res, .ok (), m3))
    (h4 : edgeData (m3.β 1) (m3.β 2) verts (segmentsOf g eps poi verts segs) res keys4 = .ok edges) :
    EdgeDartsInUse m3 edges := by
  obtain ⟨w3, hlink⟩ := steps23_linked hwf hkeys.1 hkeys.2.1 hkeys.2.2 h23
  obtain ⟨hlen, hnone⟩ := slotsAll_length (g := g) (eps := eps) (verts := verts) segs hgen
  have hok0 := fun p hp => segmentsFrom_ok (g := g) (eps := eps) (poi := poi) (verts := verts) segs 0 hgen p hp
  simp only [Nat.zero_add] at hok0
  set N := (segs.map fun seg => segDist g (verts.getD seg.1 (0, 0)) (verts.getD seg.2 (0, 0))).sum with hN
  have hok : ∀ p, p ∈ segmentsOf g eps poi verts segs → GVok N p.1 ∧ GVok N p.2 := fun p hp => hok0 p hp
  -- the dart of every slot number below `N`
  have hslot : ∀ i, i < N → ∃ x, res.getD i 0 = x ∧ C01.InUse m3 x ∧ m3.β 2 x ≠ 0 := by
    intro i hi
    have hilt : i < (slotsAll g eps verts segs).length := by rw [hlen]; exact hi
    cases hsl : (slotsAll g eps verts segs)[i]? with
    | none => rw [List.getElem?_eq_none_iff] at hsl; omega
    | some sl =>
        cases sl with
        | none => exact absurd rfl (hnone none (List.mem_of_getElem? hsl))
        | some dt =>
            obtain ⟨x, hx, a, b⟩ := hlink i dt.1 dt.2 hsl (hint i dt.1 dt.2 hsl).1 (hint i dt.1 dt.2 hsl).2
            exact ⟨x, by rw [List.getD_eq_getElem?_getD, hx]; rfl, a, b⟩
  intro e he
  have hf := (edgeData_ok keys4 edges).1 h4
  -- the key of this edge
  have : ∃ k, k ∈ keys4 ∧ edgeOfKey (m3.β 1) (m3.β 2) verts (segmentsOf g eps poi verts segs) res k = .ok e := by
    clear h4
    induction hf with
    | nil => cases he
    | @cons k e' ks es h1 _ ih =>
        rcases List.mem_cons.1 he with rfl | he'
        · exact ⟨k, List.mem_cons_self, h1⟩
        · obtain ⟨k', a, b⟩ := ih (fun k hk => hk4 k (List.mem_cons_of_mem _ hk)) he'
          exact ⟨k', List.mem_cons_of_mem _ a, b⟩
  obtain ⟨k, hk, hkey⟩ := this
  obtain ⟨v, l, en, hn, hp, _, hed⟩ := (C16_edge_of_key_spec _ _ _ _ _ _ _).1 hkey
  have hkv := segNext_mem hn
  have hkok := (hok _ hkv).1
  have hvok := (hok _ hkv).2
  obtain ⟨henok, hencross⟩ := path_end_ok (N := N) (fun p hp' => (hok p hp').2) hp hvok
  have hkc := hk4 k hk
  rw [hed]
  constructor
  · -- start dart: the β2 image of the dart of the start intersection
    cases k with
    | intersec i =>
        obtain ⟨x, hx, a, b⟩ := hslot i hkok
        show C01.InUse m3 (m3.β 2 (res.getD i 0))
        rw [hx]; exact inUse_image w3 (by omega) a.2.1 b
    | corner d => exact absurd hkok (by simp [GVok])
    | regular i => simp [GV.isCross] at hkc
    | poi i => simp [GV.isCross] at hkc
  · cases en with
    | intersec j =>
        obtain ⟨x, hx, a, _⟩ := hslot j henok
        show C01.InUse m3 (res.getD j 0)
        rw [hx]; exact a
    | corner d => exact absurd henok (by simp [GVok])
    | regular i => simp [GV.isCross] at hencross
    | poi i => simp [GV.isCross] at hencross

/-- **C16 — every crossing of the boundary with a grid line is a vertex of the map the pipeline returns**.
    For every grid, every geometry whose segments are in eps-general position, every iteration order of the two `HashMap`s:
    if the modelled pipeline (steps 1-5) succeeds on a well-formed untagged grid map carrying the sides (SideCoords), then for
    every segment `a → b` and every parameter `s` at which it crosses a grid line there is a dart in use of the result whose
    vertex has the coordinates `segPoint a b s`.  Chain: `C16_crossings_complete` (the crossing is reported) →
    `C16_slots_genpos` (it has a written slot) → `C16_steps23_carries` (all-edges induction of step 3: its dart starts at
    the point) → `C16_stepFive_carries` (step 5 keeps the vertices). -/
theorem C16_crossings_are_vertices_partial {m0 m' : Map Val} {g : GGrid} {eps : Rat} {poi : List Nat} {verts : List Pt}
    {segs : List (Nat × Nat)} {ha : Bool} {keys2 : List Nat} {keys4 : List GV}
    (hwf : WF 3 m0)
    (hgen : ∀ seg, seg ∈ segs → GenPos g eps (verts.getD seg.1 (0, 0)) (verts.getD seg.2 (0, 0)))
    (hside : SideCoords m0 g eps verts segs)
    (hkeys : KeysOK m0 (slotsAll g eps verts segs) keys2)
    (hrun : pipelineMap m0 g eps poi verts segs ha keys2 keys4 = some m')
    (hnotag : ∀ d, m0.att sBd d = none)
    (hedges : ∀ res m3 edges, stepsTwoThree m0 (slotsAll g eps verts segs) keys2 = (res, .ok (), m3) →
      edgeData (m3.β 1) (m3.β 2) verts (segmentsOf g eps poi verts segs) res keys4 = .ok edges → EdgeDartsInUse m3 edges) :
    ∀ seg, seg ∈ segs → ∀ s, IsCrossing g (verts.getD seg.1 (0, 0)) (verts.getD seg.2 (0, 0)) s →
      ∃ x, Carries m' x (.pt (segPoint (verts.getD seg.1 (0, 0)) (verts.getD seg.2 (0, 0)) s).1
                             (segPoint (verts.getD seg.1 (0, 0)) (verts.getD seg.2 (0, 0)) s).2 0) := by
  obtain ⟨res, m3, edges, h23, h4, h5⟩ := pipelineMap_some hrun
  obtain ⟨hk, hkk, hall⟩ := hkeys
  obtain ⟨w3, nt3, _, hslot⟩ := C16_steps23_carries hwf hk hkk hall h23
  obtain ⟨frame5, _⟩ := C16_stepFive_carries w3 (nt3 hnotag) (hedges res m3 edges h23 h4) h5
  intro seg hseg s hs
  set a := verts.getD seg.1 (0, 0) with ha'
  set b := verts.getD seg.2 (0, 0) with hb'
  have H := hgen seg hseg
  -- the crossing is reported, and has a written slot
  obtain ⟨c, hc, hcs⟩ := C16_crossings_complete H hs
  have hcm : c ∈ crossingsMeta g eps a b := ((C16_metadata_same_intersections g eps a b).1 c).2 hc
  have hmem : some (c.dart, c.t) ∈ slotsAll g eps verts segs := by
    unfold slotsAll
    rw [List.mem_flatMap]
    refine ⟨seg, hseg, ?_⟩
    rw [← ha', ← hb', C16_slots_genpos H]
    exact List.mem_map.2 ⟨c, hcm, rfl⟩
  obtain ⟨K, hK⟩ := List.getElem?_of_mem hmem
  obtain ⟨iu, b1, v1, v2, c1, c2, hpt⟩ := hside seg hseg c hc
  obtain ⟨x, _, hx⟩ := hslot K c.dart c.t hK iu b1 v1 v2 c1 c2
  rw [hpt, hcs] at hx
  exact ⟨x, frame5 0 x _ (by decide) hx⟩

/-- hypothesis **OnChain**: the point of interest `v` lies on the chain of `new_segments` that leaves the intersection `k`
    — one of the keys step 4 iterates over — before the next intersection.  True for every point of interest of a loop
    that crosses a grid line (a loop inside one cell has no key at all: finding D16a / D17a). -/
def OnChain (segsM : List (GV × GV)) (keys4 : List GV) (v : Nat) : Prop :=
  ∃ k v0 l e, k ∈ keys4 ∧ segNext segsM k = some v0 ∧ Path segsM v0 l e ∧ l.length < segsM.length + 1 ∧ GV.poi v ∈ l

theorem poisOf_mem {verts : List Pt} {l : List GV} {v : Nat} (h : GV.poi v ∈ l) : verts.getD v (0, 0) ∈ poisOf verts l := by
  unfold poisOf
  rw [List.mem_filterMap]
  exact ⟨.poi v, h, rfl⟩

/-- **C16 / C17 — every retained point of interest on a chain between two crossings is a vertex of the map the pipeline
    returns; in capture (anchor storages) that vertex is anchored to a node**.  Chain: `C16_edge_of_key_spec` (it is an
    intermediate point of the edge of its key) → `C16_edge_data_spec` (that edge is built, whatever the `HashMap` order) →
    `C16_insertOneEdge_shape` (it becomes the coordinate of the vertex of an intermediate dart, anchored `Node(j)`) →
    `carriesS_insertOneEdge` (the later iterations keep that vertex). -/
theorem C16_poi_are_vertices_partial {m0 m' : Map Val} {g : GGrid} {eps : Rat} {poi : List Nat} {verts : List Pt}
    {segs : List (Nat × Nat)} {ha : Bool} {keys2 : List Nat} {keys4 : List GV}
    (hwf : WF 3 m0) (hnotag : ∀ d, m0.att sBd d = none) (hkeys : KeysOK m0 (slotsAll g eps verts segs) keys2)
    (hrun : pipelineMap m0 g eps poi verts segs ha keys2 keys4 = some m')
    (hedges : ∀ res m3 edges, stepsTwoThree m0 (slotsAll g eps verts segs) keys2 = (res, .ok (), m3) →
      edgeData (m3.β 1) (m3.β 2) verts (segmentsOf g eps poi verts segs) res keys4 = .ok edges → EdgeDartsInUse m3 edges)
    {v : Nat} (hv : OnChain (segmentsOf g eps poi verts segs) keys4 v) :
    ∃ x j, Carries m' x (.pt (verts.getD v (0, 0)).1 (verts.getD v (0, 0)).2 0) ∧
      (ha = true → CarriesS m' sVA x (.tm (.leaf (4 * j)))) := by
  obtain ⟨res, m3, edges, h23, h4, h5⟩ := pipelineMap_some hrun
  obtain ⟨w3, nt3, _, _⟩ := C16_steps23_carries hwf hkeys.1 hkeys.2.1 hkeys.2.2 h23
  obtain ⟨_, pois⟩ := C16_stepFive_carries w3 (nt3 hnotag) (hedges res m3 edges h23 h4) h5
  obtain ⟨k, v0, l, e, hk, hn, hp, hl, hvl⟩ := hv
  obtain ⟨j, hj⟩ := List.getElem?_of_mem hk
  obtain ⟨_, hspec⟩ := C16_edge_data_spec _ _ _ _ _ _ _ h4
  obtain ⟨ed, hed, hkey⟩ := hspec j k hj
  have hed' := (C16_edge_of_key_spec (m3.β 1) (m3.β 2) verts (segmentsOf g eps poi verts segs) res k _).2
    ⟨v0, l, e, hn, hp, hl, rfl⟩
  rw [hed'] at hkey
  injection hkey with hkey
  obtain ⟨q, hq⟩ := List.getElem?_of_mem (poisOf_mem (verts := verts) hvl)
  have hq' : ed.inter[q]? = some (verts.getD v (0, 0)) := by rw [← hkey]; exact hq
  obtain ⟨x, c0, ca⟩ := pois j ed hed q _ hq'
  exact ⟨x, j, c0, ca⟩

/-- **C17 — capture: each retained point of interest is a vertex anchored to a node** (`C16_poi_are_vertices` with the
    anchor storages) -/
theorem C17_poi_are_node_vertices_partial {m0 m' : Map Val} {g : GGrid} {eps : Rat} {poi : List Nat} {verts : List Pt}
    {segs : List (Nat × Nat)} {keys2 : List Nat} {keys4 : List GV}
    (hwf : WF 3 m0) (hnotag : ∀ d, m0.att sBd d = none) (hkeys : KeysOK m0 (slotsAll g eps verts segs) keys2)
    (hrun : pipelineMap m0 g eps poi verts segs true keys2 keys4 = some m')
    (hedges : ∀ res m3 edges, stepsTwoThree m0 (slotsAll g eps verts segs) keys2 = (res, .ok (), m3) →
      edgeData (m3.β 1) (m3.β 2) verts (segmentsOf g eps poi verts segs) res keys4 = .ok edges → EdgeDartsInUse m3 edges)
    {v : Nat} (hv : OnChain (segmentsOf g eps poi verts segs) keys4 v) :
    ∃ x j, C01.InUse m' x ∧
      m'.att 0 (C03.cellId m' .vertex x) = some (.pt (verts.getD v (0, 0)).1 (verts.getD v (0, 0)).2 0) ∧
      m'.att sVA (C03.cellId m' .vertex x) = some (.tm (.leaf (4 * j))) := by
  obtain ⟨x, j, c0, ca⟩ := C16_poi_are_vertices_partial hwf hnotag hkeys hrun hedges hv
  exact ⟨x, j, c0.1, c0.2, (ca rfl).2⟩

/-! ## fewer hypotheses: `KeysOK` and `EdgeDartsInUse` discharged -/

/-- hypothesis **HitDartsOK** (about the grid map only): every dart a slot names is in use, has a successor, is 2-linked (the
    crossed grid edges are interior: the grid has a margin of one cell) and its opposite dart has a successor -/
def HitDartsOK (m0 : Map Val) (slots : List Slot) : Prop :=
  ∀ (K d : Nat) (t : Rat), slots[K]? = some (some (d, t)) →
    C01.InUse m0 d ∧ m0.β 1 d ≠ 0 ∧ m0.β 2 d ≠ 0 ∧ m0.β 1 (m0.β 2 d) ≠ 0

/-- hypothesis **KeysAreHitEdges** (about the `HashMap` only): its iteration yields each key once, and its keys are exactly
    the edges that were hit — true of every iteration of a `HashMap` keyed by `edge_id` -/
def KeysAreHitEdges (b2 : Nat → Nat) (slots : List Slot) (keys2 : List Nat) : Prop :=
  keys2.Nodup ∧ ∀ e, e ∈ keys2 ↔ ∃ h, (e, h) ∈ hitsOf b2 slots

/-- **`KeysOK` is a consequence of the model**: whatever the iteration order, the keys are in-use identifier darts with a
    successor, and every hit edge is among them -/
theorem keysOK_of_hit_edges {m0 : Map Val} {slots : List Slot} {keys2 : List Nat} (hwf : WF 3 m0)
    (hhit : HitDartsOK m0 slots) (hk : KeysAreHitEdges (m0.β 2) slots keys2) : KeysOK m0 slots keys2 := by
  refine ⟨hk.1, ?_, ?_⟩
  · intro e he
    obtain ⟨h, hh⟩ := (hk.2 e).1 he
    obtain ⟨K, d, t, hK, hx⟩ := (C16_hits_slot_numbers (m0.β 2) slots _).1 hh
    injection hx with he' _
    obtain ⟨iu, b1, b2, b12⟩ := hhit K d t hK
    have hi := hwf.invol 2 (by omega) (by omega) d iu.2.1 b2
    rw [he']
    unfold edgeOf
    by_cases hc : m0.β 2 d ≠ 0 ∧ m0.β 2 d < d
    · rw [if_pos hc]
      refine ⟨inUse_image hwf (by omega) iu.2.1 b2, b12, ?_⟩
      rw [hi.1, if_neg (fun hh' => by omega)]
    · rw [if_neg hc]
      exact ⟨iu, b1, by rw [if_neg hc]⟩
  · intro K d t hK
    exact (hk.2 _).2 ⟨_, (C16_hits_slot_numbers (m0.β 2) slots _).2 ⟨K, d, t, hK, rfl⟩⟩

/-- **C16 — every crossing is a vertex** (full form): hypotheses about the grid map (`SideCoords`, `HitDartsOK`, well formed,
    untagged), about the geometry (`GenPos`), about what the two `HashMap`s iterate over (`KeysAreHitEdges`; the keys of
    step 4 are intersections) and success of the run; `KeysOK` and `EdgeDartsInUse` are proved -/
theorem C16_crossings_are_vertices {m0 m' : Map Val} {g : GGrid} {eps : Rat} {poi : List Nat} {verts : List Pt}
    {segs : List (Nat × Nat)} {ha : Bool} {keys2 : List Nat} {keys4 : List GV}
    (hwf : WF 3 m0) (hnotag : ∀ d, m0.att sBd d = none)
    (hgen : ∀ seg, seg ∈ segs → GenPos g eps (verts.getD seg.1 (0, 0)) (verts.getD seg.2 (0, 0)))
    (hside : SideCoords m0 g eps verts segs) (hhit : HitDartsOK m0 (slotsAll g eps verts segs))
    (hk2 : KeysAreHitEdges (m0.β 2) (slotsAll g eps verts segs) keys2) (hk4 : ∀ k, k ∈ keys4 → k.isCross = true)
    (hrun : pipelineMap m0 g eps poi verts segs ha keys2 keys4 = some m') :
    ∀ seg, seg ∈ segs → ∀ s, IsCrossing g (verts.getD seg.1 (0, 0)) (verts.getD seg.2 (0, 0)) s →
      ∃ x, Carries m' x (.pt (segPoint (verts.getD seg.1 (0, 0)) (verts.getD seg.2 (0, 0)) s).1
                             (segPoint (verts.getD seg.1 (0, 0)) (verts.getD seg.2 (0, 0)) s).2 0) := by
  have hkeys := keysOK_of_hit_edges hwf hhit hk2
  exact C16_crossings_are_vertices_partial hwf hgen hside hkeys hrun hnotag
    (fun res m3 edges h23 h4 => C16_edge_darts_in_use hwf hgen hkeys
      (fun K d t hK => ⟨(hhit K d t hK).1.2.1, (hhit K d t hK).2.2.1⟩) hk4 h23 h4)

/-- **C16 / C17 — every point of interest on a chain between two crossings is a vertex** (full form) -/
theorem C16_poi_are_vertices {m0 m' : Map Val} {g : GGrid} {eps : Rat} {poi : List Nat} {verts : List Pt}
    {segs : List (Nat × Nat)} {ha : Bool} {keys2 : List Nat} {keys4 : List GV}
    (hwf : WF 3 m0) (hnotag : ∀ d, m0.att sBd d = none)
    (hgen : ∀ seg, seg ∈ segs → GenPos g eps (verts.getD seg.1 (0, 0)) (verts.getD seg.2 (0, 0)))
    (hhit : HitDartsOK m0 (slotsAll g eps verts segs))
    (hk2 : KeysAreHitEdges (m0.β 2) (slotsAll g eps verts segs) keys2) (hk4 : ∀ k, k ∈ keys4 → k.isCross = true)
    (hrun : pipelineMap m0 g eps poi verts segs ha keys2 keys4 = some m')
    {v : Nat} (hv : OnChain (segmentsOf g eps poi verts segs) keys4 v) :
    ∃ x j, Carries m' x (.pt (verts.getD v (0, 0)).1 (verts.getD v (0, 0)).2 0) ∧
      (ha = true → CarriesS m' sVA x (.tm (.leaf (4 * j)))) := by
  have hkeys := keysOK_of_hit_edges hwf hhit hk2
  exact C16_poi_are_vertices_partial hwf hnotag hkeys hrun
    (fun res m3 edges h23 h4 => C16_edge_darts_in_use hwf hgen hkeys
      (fun K d t hK => ⟨(hhit K d t hK).1.2.1, (hhit K d t hK).2.2.1⟩) hk4 h23 h4) hv

/-- **C17 — capture: each retained point of interest is a vertex anchored to a node** (full form) -/
theorem C17_poi_are_node_vertices {m0 m' : Map Val} {g : GGrid} {eps : Rat} {poi : List Nat} {verts : List Pt}
    {segs : List (Nat × Nat)} {keys2 : List Nat} {keys4 : List GV}
    (hwf : WF 3 m0) (hnotag : ∀ d, m0.att sBd d = none)
    (hgen : ∀ seg, seg ∈ segs → GenPos g eps (verts.getD seg.1 (0, 0)) (verts.getD seg.2 (0, 0)))
    (hhit : HitDartsOK m0 (slotsAll g eps verts segs))
    (hk2 : KeysAreHitEdges (m0.β 2) (slotsAll g eps verts segs) keys2) (hk4 : ∀ k, k ∈ keys4 → k.isCross = true)
    (hrun : pipelineMap m0 g eps poi verts segs true keys2 keys4 = some m')
    {v : Nat} (hv : OnChain (segmentsOf g eps poi verts segs) keys4 v) :
    ∃ x j, C01.InUse m' x ∧
      m'.att 0 (C03.cellId m' .vertex x) = some (.pt (verts.getD v (0, 0)).1 (verts.getD v (0, 0)).2 0) ∧
      m'.att sVA (C03.cellId m' .vertex x) = some (.tm (.leaf (4 * j))) := by
  obtain ⟨x, j, c0, ca⟩ := C16_poi_are_vertices hwf hnotag hgen hhit hk2 hk4 hrun hv
  exact ⟨x, j, c0.1, c0.2, (ca rfl).2⟩

/-! ## the hypotheses are satisfiable together -/

/-- the 3 × 1 row of unit cells of `C16Clip`, untagged, with the coordinates of the four corners between the cells -/
def exRowPlain : Map Val := ((exRow.setA sBd 2 none).setA sBd 8 none).setA 0 7 (some (.pt 2 1 0))

theorem exRowPlain_wf : WF 3 exRowPlain := by decide +kernel
theorem exRowPlain_notag : ∀ d, exRowPlain.att sBd d = none := by
  intro d
  by_cases h : d < 14
  · have : ∀ x, x < 14 → exRowPlain.att sBd x = none := by decide +kernel
    exact this d h
  · unfold Map.att
    rw [rd_oob _ d (by have : (rd exRowPlain.a sBd).size = 14 := by decide +kernel
                       omega)]
    rfl

/-- (A) one segment in general position (`exGenPos`), crossing the line `x = 1` at `(1, 5/8)` -/
def exVA : List Pt := [(1/4, 1/2), (7/4, 3/4)]

theorem exA_slots : slotsAll exGrid (1/8) exVA [(0, 1)] = [some (2, 5/8)] := by decide +kernel

example : ∃ m' x, pipelineMap exRowPlain exGrid (1/8) [] exVA [(0, 1)] false [2] [] = some m' ∧
    Carries m' x (.pt 1 (5/8) 0) := by
  have hsome : (pipelineMap exRowPlain exGrid (1/8) [] exVA [(0, 1)] false [2] []).isSome = true := by decide +kernel
  obtain ⟨m', hm'⟩ := Option.isSome_iff_exists.1 hsome
  have hcross : crossingsOf exGrid (1/8) (1/4, 1/2) (7/4, 3/4) = [⟨2, 5/8, 1/2⟩] := by decide +kernel
  have := C16_crossings_are_vertices_partial (m0 := exRowPlain) (g := exGrid) (eps := 1/8) (poi := []) (verts := exVA)
    (segs := [(0, 1)]) (ha := false) (keys2 := [2]) (keys4 := []) exRowPlain_wf
    (by intro seg hseg
        have : seg = (0, 1) := by simpa using hseg
        subst this; exact exGenPos)
    (by intro seg hseg c hc
        have : seg = (0, 1) := by simpa using hseg
        subst this
        have hc' : c ∈ crossingsOf exGrid (1/8) (1/4, 1/2) (7/4, 3/4) := hc
        rw [hcross] at hc'
        have : c = ⟨2, 5/8, 1/2⟩ := by simpa using hc'
        subst this
        refine ⟨by decide +kernel, by decide +kernel, .pt 1 0 0, .pt 1 1 0, ⟨by decide +kernel, by decide +kernel⟩,
          ⟨by decide +kernel, by decide +kernel⟩, by decide +kernel⟩)
    (by rw [exA_slots]
        refine ⟨by decide, by decide +kernel, ?_⟩
        intro K d t hK
        cases K with
        | zero => simp only [List.getElem?_cons_zero, Option.some.injEq, Prod.mk.injEq] at hK
                  obtain ⟨rfl, _⟩ := hK; decide +kernel
        | succ K' => simp at hK)
    hm' exRowPlain_notag
    (by intro res m3 edges _ h4
        simp only [edgeData, Res.ok.injEq] at h4
        subst h4
        intro e he; cases he)
    (0, 1) (by simp) (1/2)
    (by show IsCrossing exGrid (1/4, 1/2) (7/4, 3/4) (1/2)
        exact ⟨by norm_num, by norm_num, Or.inl ⟨1, by simp [segPoint, exGrid]; norm_num⟩⟩)
  obtain ⟨x, hx⟩ := this
  refine ⟨m', x, hm', ?_⟩
  have e : segPoint (exVA.getD 0 (0, 0)) (exVA.getD 1 (0, 0)) (1/2) = (1, 5/8) := by decide +kernel
  simp only at hx
  rw [e] at hx
  exact hx

/-- (B) a boundary piece `a → b → c` through the three cells, `b` a point of interest between the two crossings -/
def exVB : List Pt := [(1/2, 1/4), (3/2, 1/2), (5/2, 1/4)]
def exSB : List (Nat × Nat) := [(0, 1), (1, 2)]

theorem exB_slots : slotsAll exGrid (1/8) exVB exSB = [some (2, 3/8), some (6, 3/8)] := by decide +kernel

example : ∃ m' x j, pipelineMap exRowPlain exGrid (1/8) [1] exVB exSB true [2, 6] [.intersec 0] = some m' ∧
    C01.InUse m' x ∧ m'.att 0 (C03.cellId m' .vertex x) = some (.pt (3/2) (1/2) 0) ∧
    m'.att sVA (C03.cellId m' .vertex x) = some (.tm (.leaf (4 * j))) := by
  have hsome : (pipelineMap exRowPlain exGrid (1/8) [1] exVB exSB true [2, 6] [.intersec 0]).isSome = true := by
    decide +kernel
  obtain ⟨m', hm'⟩ := Option.isSome_iff_exists.1 hsome
  obtain ⟨x, j, h1, h2, h3⟩ := C17_poi_are_node_vertices_partial (m0 := exRowPlain) (g := exGrid) (eps := 1/8) (poi := [1])
    (verts := exVB) (segs := exSB) (keys2 := [2, 6]) (keys4 := [.intersec 0]) (v := 1) exRowPlain_wf exRowPlain_notag
    (by rw [exB_slots]
        refine ⟨by decide, by decide +kernel, ?_⟩
        intro K d t hK
        rcases K with _ | _ | K'
        · simp only [List.getElem?_cons_zero, Option.some.injEq, Prod.mk.injEq] at hK
          obtain ⟨rfl, _⟩ := hK; decide +kernel
        · simp only [List.getElem?_cons_succ, List.getElem?_cons_zero, Option.some.injEq, Prod.mk.injEq] at hK
          obtain ⟨rfl, _⟩ := hK; decide +kernel
        · simp at hK)
    hm'
    (by intro res m3 edges h23 h4
        have hr : res = (stepsTwoThree exRowPlain (slotsAll exGrid (1/8) exVB exSB) [2, 6]).1 := by rw [h23]
        have hm : m3 = (stepsTwoThree exRowPlain (slotsAll exGrid (1/8) exVB exSB) [2, 6]).2.2 := by rw [h23]
        subst hr hm
        have hed : edgeData ((stepsTwoThree exRowPlain (slotsAll exGrid (1/8) exVB exSB) [2, 6]).2.2.β 1)
            ((stepsTwoThree exRowPlain (slotsAll exGrid (1/8) exVB exSB) [2, 6]).2.2.β 2) exVB
            (segmentsOf exGrid (1/8) [1] exVB exSB) (stepsTwoThree exRowPlain (slotsAll exGrid (1/8) exVB exSB) [2, 6]).1
            [.intersec 0] = .ok [{ start := 8, inter := [(3/2, 1/2)], stop := 15 }] := by decide +kernel
        rw [hed] at h4
        injection h4 with h4
        subst h4
        intro e he
        have : e = { start := 8, inter := [(3/2, 1/2)], stop := 15 } := by simpa using he
        subst this
        exact ⟨by decide +kernel, by decide +kernel⟩)
    ⟨.intersec 0, .poi 1, [.poi 1], .intersec 1, by simp, by decide +kernel,
      Path.step rfl (by decide +kernel) (Path.stop rfl), by decide +kernel, by simp⟩
  exact ⟨m', x, j, hm', h1, h2, h3⟩

/-! ### the full forms -/

/-- the second segment of example (C) is in general position too: one crossing, of `x = 2`, at `s = 1/4` -/
theorem exGenPos2 : GenPos exGrid (1 / 8) (7/4, 3/4) (11/4, 1/2) := by
  have hx : ∀ s : Rat, (segPoint (7/4, 3/4) (11/4, 1/2) s).1 = 7/4 + s * 1 := by
    intro s; simp only [segPoint]; ring
  have hy : ∀ s : Rat, (segPoint (7/4, 3/4) (11/4, 1/2) s).2 = 3/4 - s * (1/4) := by
    intro s; simp only [segPoint]; ring
  have nonint : ∀ (q : Rat) (m : Int), (m : Rat) < q → q < (m : Rat) + 1 → ∀ K : Int, q ≠ (K : Rat) :=
    fun q m h1 h2 K e => no_int_between h1 h2 e
  refine ⟨by norm_num [exGrid], by norm_num [exGrid], by norm_num, by norm_num [exGrid], by norm_num [exGrid],
    ?_, ?_, ?_, ?_⟩
  · constructor
    · rintro ⟨K, e⟩; exact nonint (7/4) 1 (by norm_num) (by norm_num) K (by simpa [exGrid] using e)
    · rintro ⟨K, e⟩; exact nonint (3/4) 0 (by norm_num) (by norm_num) K (by simpa [exGrid] using e)
  · constructor
    · rintro ⟨K, e⟩; exact nonint (11/4) 2 (by norm_num) (by norm_num) K (by simpa [exGrid] using e)
    · rintro ⟨K, e⟩; exact nonint (1/2) 0 (by norm_num) (by norm_num) K (by simpa [exGrid] using e)
  · rintro s s0 s1 ⟨K, e⟩
    rw [hx] at e
    simp only [exGrid, zero_add, mul_one] at e ⊢
    have hK : K = 2 := by
      have a1 : (1 : Rat) < (K : Rat) := by linarith
      have a2 : (K : Rat) < 3 := by linarith
      have b1 : (1 : Int) < K := by exact_mod_cast a1
      have b2 : K < 3 := by exact_mod_cast a2
      omega
    subst hK
    have hs : s = 1/4 := by push_cast at e; linarith
    subst hs
    refine ⟨by norm_num, by norm_num, fun L => ?_⟩
    rw [hy]
    rcases le_or_gt L 0 with h | h
    · have : (L : Rat) ≤ 0 := by exact_mod_cast h
      rw [abs_of_nonneg (by linarith)]; linarith
    · have : (1 : Rat) ≤ (L : Rat) := by exact_mod_cast h
      rw [abs_of_nonpos (by linarith)]; linarith
  · rintro s s0 s1 ⟨L, e⟩
    exfalso
    rw [hy] at e
    simp only [exGrid, zero_add, mul_one] at e
    exact nonint (3/4 - s * (1/4)) 0 (by push_cast; linarith) (by push_cast; linarith) L e

/-- (C) `a → b → c` through the three cells, both segments in general position, `b` a point of interest -/
def exVC : List Pt := [(1/4, 1/2), (7/4, 3/4), (11/4, 1/2)]
def exSC : List (Nat × Nat) := [(0, 1), (1, 2)]

theorem exC_slots : slotsAll exGrid (1/8) exVC exSC = [some (2, 5/8), some (6, 11/16)] := by decide +kernel
theorem exC_hits : hitsOf (exRowPlain.β 2) (slotsAll exGrid (1/8) exVC exSC) =
    [(2, { idx := 0, t := 5/8, dart := 2 }), (6, { idx := 1, t := 11/16, dart := 6 })] := by decide +kernel

theorem exC_gen : ∀ seg, seg ∈ exSC → GenPos exGrid (1/8) (exVC.getD seg.1 (0, 0)) (exVC.getD seg.2 (0, 0)) := by
  intro seg hseg
  have : seg = (0, 1) ∨ seg = (1, 2) := by simpa [exSC] using hseg
  rcases this with rfl | rfl
  · exact exGenPos
  · exact exGenPos2

theorem exC_hit : HitDartsOK exRowPlain (slotsAll exGrid (1/8) exVC exSC) := by
  rw [exC_slots]
  intro K d t hK
  rcases K with _ | _ | K'
  · simp only [List.getElem?_cons_zero, Option.some.injEq, Prod.mk.injEq] at hK
    obtain ⟨rfl, _⟩ := hK; decide +kernel
  · simp only [List.getElem?_cons_succ, List.getElem?_cons_zero, Option.some.injEq, Prod.mk.injEq] at hK
    obtain ⟨rfl, _⟩ := hK; decide +kernel
  · simp at hK

theorem exC_keys : KeysAreHitEdges (exRowPlain.β 2) (slotsAll exGrid (1/8) exVC exSC) [2, 6] := by
  refine ⟨by decide, fun e => ?_⟩
  rw [exC_hits]
  constructor
  · intro he
    have : e = 2 ∨ e = 6 := by simpa using he
    rcases this with rfl | rfl
    · exact ⟨{ idx := 0, t := 5/8, dart := 2 }, by simp⟩
    · exact ⟨{ idx := 1, t := 11/16, dart := 6 }, by simp⟩
  · rintro ⟨h, hh⟩
    simp only [List.mem_cons, Prod.mk.injEq, List.not_mem_nil, or_false] at hh
    rcases hh with ⟨rfl, _⟩ | ⟨rfl, _⟩ <;> simp

-- the full forms apply: the point of interest `b` is a vertex of the result anchored to a node …
example : ∃ m' x j, pipelineMap exRowPlain exGrid (1/8) [1] exVC exSC true [2, 6] [.intersec 0] = some m' ∧
    C01.InUse m' x ∧ m'.att 0 (C03.cellId m' .vertex x) = some (.pt (7/4) (3/4) 0) ∧
    m'.att sVA (C03.cellId m' .vertex x) = some (.tm (.leaf (4 * j))) := by
  have hsome : (pipelineMap exRowPlain exGrid (1/8) [1] exVC exSC true [2, 6] [.intersec 0]).isSome = true := by
    decide +kernel
  obtain ⟨m', hm'⟩ := Option.isSome_iff_exists.1 hsome
  obtain ⟨x, j, h1, h2, h3⟩ := C17_poi_are_node_vertices (v := 1) exRowPlain_wf exRowPlain_notag exC_gen exC_hit exC_keys
    (by intro k hk; have : k = .intersec 0 := by simpa using hk
        subst this; rfl) hm'
    ⟨.intersec 0, .poi 1, [.poi 1], .intersec 1, by simp, by decide +kernel,
      Path.step rfl (by decide +kernel) (Path.stop rfl), by decide +kernel, by simp⟩
  exact ⟨m', x, j, hm', h1, h2, h3⟩

-- … and the two crossings are vertices (here the one of the second segment with `x = 2`, at `(2, 11/16)`)
example : ∃ m' x, pipelineMap exRowPlain exGrid (1/8) [1] exVC exSC true [2, 6] [.intersec 0] = some m' ∧
    Carries m' x (.pt 2 (11/16) 0) := by
  have hsome : (pipelineMap exRowPlain exGrid (1/8) [1] exVC exSC true [2, 6] [.intersec 0]).isSome = true := by
    decide +kernel
  obtain ⟨m', hm'⟩ := Option.isSome_iff_exists.1 hsome
  have hc1 : crossingsOf exGrid (1/8) (1/4, 1/2) (7/4, 3/4) = [⟨2, 5/8, 1/2⟩] := by decide +kernel
  have hc2 : crossingsOf exGrid (1/8) (7/4, 3/4) (11/4, 1/2) = [⟨6, 11/16, 1/4⟩] := by decide +kernel
  have hside : SideCoords exRowPlain exGrid (1/8) exVC exSC := by
    intro seg hseg c hc
    have : seg = (0, 1) ∨ seg = (1, 2) := by simpa [exSC] using hseg
    rcases this with rfl | rfl
    · have hc' : c ∈ crossingsOf exGrid (1/8) (1/4, 1/2) (7/4, 3/4) := hc
      rw [hc1] at hc'
      have : c = ⟨2, 5/8, 1/2⟩ := by simpa using hc'
      subst this
      exact ⟨by decide +kernel, by decide +kernel, .pt 1 0 0, .pt 1 1 0, ⟨by decide +kernel, by decide +kernel⟩,
        ⟨by decide +kernel, by decide +kernel⟩, by decide +kernel⟩
    · have hc' : c ∈ crossingsOf exGrid (1/8) (7/4, 3/4) (11/4, 1/2) := hc
      rw [hc2] at hc'
      have : c = ⟨6, 11/16, 1/4⟩ := by simpa using hc'
      subst this
      exact ⟨by decide +kernel, by decide +kernel, .pt 2 0 0, .pt 2 1 0, ⟨by decide +kernel, by decide +kernel⟩,
        ⟨by decide +kernel, by decide +kernel⟩, by decide +kernel⟩
  have := C16_crossings_are_vertices exRowPlain_wf exRowPlain_notag exC_gen hside exC_hit exC_keys
    (by intro k hk; have : k = .intersec 0 := by simpa using hk
        subst this; rfl) hm' (1, 2) (by simp [exSC]) (1/4)
    (by show IsCrossing exGrid (7/4, 3/4) (11/4, 1/2) (1/4)
        exact ⟨by norm_num, by norm_num, Or.inl ⟨2, by simp [segPoint, exGrid]; norm_num⟩⟩)
  obtain ⟨x, hx⟩ := this
  refine ⟨m', x, hm', ?_⟩
  have e : segPoint (exVC.getD 1 (0, 0)) (exVC.getD 2 (0, 0)) (1/4) = (2, 11/16) := by decide +kernel
  simp only at hx
  rw [e] at hx
  exact hx

end HC.C16
