/-
  C16 — steps 2 + 3 (`intersection_darts`: group, number, `insert_intersections`) SUCCEED: forward totality of the loop over all edges.

  * `insertIntersections_total`    every call of `insert_vertices_on_edge` answers `Ok` (`C16_insertVertices_total_partial`); its
                                   hypotheses — edge dart in use below the fresh block, 2-linked, successors on both sides, positions in
                                   ]0,1[, both end points valued — are transported along the loop with C14's frame (same transport as
                                   `insertIntersections_carries`)
  * `C16_steps23_total_partial`    for every iteration order of the `HashMap` (`KeysAreHitEdges`): `HitDartsOK`, positions in ]0,1[ and
                                   valued end points of every written slot ⇒ `stepsTwoThree … = (res, Ok, m3)`.  PARTIAL: crossed edges
                                   2-linked with successors on both sides (interior grid edges; a boundary edge is not covered)
  On the grid of the builder all hypotheses are theorems: `C16_steps23_total_on_grid` (Props/C16Step5Pipe.lean).
-/
import Honeycomb.Props.C16InsertTotal

set_option linter.unusedSimpArgs false
set_option linter.unusedVariables false

namespace HC.C16
open HC

/-- **C16, step 3 — `insert_intersections` is total**: over the groups in the iteration order, every call of
    `insert_vertices_on_edge` answers `Ok` (so the `.unwrap()` of the caller does not panic), when every edge is a 2-linked
    in-use dart below the fresh block whose two darts have a successor, its positions lie in `]0,1[`, and its two end points
    carry a value.  The hypotheses are transported along the loop with the frame of C14. -/
theorem insertIntersections_total : ∀ (gs : List (Nat × List Hit)) (m : Map Val) (off : Nat), WF 3 m → 0 < m.a.size →
    (∀ d, off ≤ d → d < m.n → m.unused d = false ∧ ∀ i, i < 3 → m.β i d = 0) →
    off + 2 * (gs.map (·.2.length)).sum ≤ m.n → 0 < off →
    (∀ g, g ∈ gs → C01.InUse m g.1 ∧ g.1 < off ∧ m.β 1 g.1 ≠ 0) →
    (gs.map (·.1)).Nodup → (∀ g, g ∈ gs → ∀ g', g' ∈ gs → m.β 2 g.1 ≠ g'.1) →
    (∀ g, g ∈ gs → m.β 2 g.1 ≠ 0 ∧ m.β 1 (m.β 2 g.1) ≠ 0) →
    (∀ g, g ∈ gs → ∀ h, h ∈ g.2 → 0 < h.t ∧ h.t < 1) →
    (∀ g, g ∈ gs → (∃ v, Carries m g.1 v) ∧ ∃ v, Carries m (m.β 1 g.1) v) →
    ∃ m', run (insertIntersections m.n (gs.zip (slicesFrom off (gs.map (·.2.length))))) m = (.ok (), m') := by
  intro gs
  induction gs with
  | nil =>
      intro m off _ _ _ _ _ _ _ _ _ _ _
      exact ⟨m, by simp only [List.map_nil, slicesFrom, List.zip_nil_right, insertIntersections, Prog.pure_eq, run_ret]⟩
  | cons g rest ih =>
      intro m off hwf h0 hfresh hroom hpos hkeys hnd hcan hlk hts01 hval
      simp only [List.map_cons, List.sum_cons] at hroom
      set len := g.2.length with hlen
      obtain ⟨ig, glt, gb1⟩ := hkeys g List.mem_cons_self
      obtain ⟨gb2, gb12⟩ := hlk g List.mem_cons_self
      obtain ⟨⟨v1, hv1⟩, ⟨v2, hv2⟩⟩ := hval g List.mem_cons_self
      have hts : (g.2.map (·.t)).length = len := by rw [List.length_map]
      have hmemr : ∀ d, d ∈ List.range' off (2 * len) → off ≤ d ∧ d < off + 2 * len := by
        intro d hd; have := List.mem_range'_1.1 hd; omega
      have hlive : ∀ d, d ∈ List.range' off (2 * len) → m.unused d = false := by
        intro d hd
        have := hmemr d hd
        exact (hfresh d (by omega) (by omega)).1
      -- this edge
      obtain ⟨m1, h1, w1', nn1, uu1, as1⟩ := C16_insertVertices_total_partial (m := m) (e := g.1)
        (nds := List.range' off (2 * len)) (ts := g.2.map (·.t)) hwf h0 ig gb1 gb2 gb12
        (by rw [List.length_range', hts])
        (fun x hx => by
          have := hmemr x hx
          obtain ⟨fu, fb⟩ := hfresh x (by omega) (by omega)
          exact ⟨⟨by omega, by omega, fu⟩, fb⟩)
        List.nodup_range'
        (fun t ht => by
          obtain ⟨h, hh, rfl⟩ := List.mem_map.1 ht
          exact hts01 g List.mem_cons_self h hh)
        (by rw [hv1.2]; rfl) (by rw [hv2.2]; rfl)
      have hfhnd : ((List.range' off (2 * len)).take (g.2.map (·.t)).length).Nodup :=
        (List.nodup_range').sublist (List.take_sublist _ _)
      have inv := C14.insertVertices_inv m m1 g.1 _ _ hwf ig hlive (fun _ => List.nodup_range') h1
      obtain ⟨w1, hres⟩ := C14.C14_insertVertices_beta_structure m m1 g.1 _ _ hwf ig hlive hfhnd
        (fun _ => List.nodup_range') h1
      have inF : ∀ y, y ∈ (List.range' off (2 * len)).take (g.2.map (·.t)).length → off ≤ y ∧ y < off + 2 * len := by
        intro y hy; have := List.mem_range'_1.1 (List.mem_of_mem_take hy); omega
      have inS : ∀ y, y ∈ (List.range' off (2 * len)).drop (g.2.map (·.t)).length → off ≤ y ∧ y < off + 2 * len := by
        intro y hy; have := List.mem_range'_1.1 (List.mem_of_mem_drop hy); omega
      have hb2lt : ∀ g', g' ∈ g :: rest → m.β 2 g'.1 < off := by
        intro g' hg'
        obtain ⟨ig', _, _⟩ := hkeys g' hg'
        have hz := (hlk g' hg').1
        have hi := hwf.invol 2 (by omega) (by omega) g'.1 ig'.2.1 hz
        exact not_fresh hfresh (hwf.range 2 (by omega) _ ig'.2.1) (by omega : 2 < 3) (by rw [hi.1]; exact ig'.1)
      have fr1 : ∀ y, y < off → y ≠ g.1 → y ≠ m.β 2 g.1 → m1.β 1 y = m.β 1 y := by
        intro y hy a b
        refine hres.frame1 y ?_ (fun _ => ?_)
        · intro hh; rcases List.mem_cons.1 hh with h | h
          · exact a h
          · have := inF y h; omega
        · intro hh; rcases List.mem_cons.1 hh with h | h
          · exact b h
          · have := inS y h; omega
      have fr2 : ∀ y, y < off → y ≠ g.1 → y ≠ m.β 2 g.1 → m1.β 2 y = m.β 2 y := by
        intro y hy a b
        refine hres.frame2 y (fun _ => ⟨?_, ?_⟩)
        · intro hh; rcases List.mem_cons.1 hh with h | h
          · exact a h
          · have := inF y h; omega
        · intro hh; rcases List.mem_cons.1 hh with h | h
          · exact b h
          · have := inS y h; omega
      have hsub : ∀ g', g' ∈ rest → g' ∈ g :: rest := fun g' h => List.mem_cons_of_mem _ h
      have hne_g : ∀ g', g' ∈ rest → g'.1 ≠ g.1 := by
        intro g' hg' e
        simp only [List.map_cons, List.nodup_cons, List.mem_map, not_exists, not_and] at hnd
        exact hnd.1 g' hg' e
      have hfresh1 : ∀ d, off + 2 * len ≤ d → d < m1.n → m1.unused d = false ∧ ∀ i, i < 3 → m1.β i d = 0 := by
        intro d hd hdn
        rw [inv.n_eq] at hdn
        obtain ⟨fu, fb⟩ := hfresh d (by omega) hdn
        refine ⟨by unfold Map.unused; rw [inv.u_eq]; exact fu, ?_⟩
        have o1 : d ∉ g.1 :: (List.range' off (2 * len)).take (g.2.map (·.t)).length := by
          intro hh; rcases List.mem_cons.1 hh with h | h
          · omega
          · have := inF d h; omega
        have o2 : d ∉ m.β 2 g.1 :: (List.range' off (2 * len)).drop (g.2.map (·.t)).length := by
          intro hh; rcases List.mem_cons.1 hh with h | h
          · have := hb2lt g List.mem_cons_self; omega
          · have := inS d h; omega
        intro i hi
        rcases (by omega : i = 0 ∨ i = 1 ∨ i = 2) with rfl | rfl | rfl
        · rw [hres.frame0 d (fun h => o1 (List.mem_cons_of_mem _ h)) ?_ (fun _ => ⟨fun h => o2 (List.mem_cons_of_mem _ h), ?_⟩)]
          · exact fb 0 (by omega)
          · intro e
            have hb : m.β 0 (m.β 1 g.1) = g.1 := hwf.inv01 g.1 ig.2.1 gb1
            rw [← e, fb 0 (by omega)] at hb; exact ig.1 hb.symm
          · intro e
            have hb : m.β 0 (m.β 1 (m.β 2 g.1)) = m.β 2 g.1 := hwf.inv01 _ (hwf.range 2 (by omega) _ ig.2.1) gb12
            rw [← e, fb 0 (by omega)] at hb
            exact gb2 hb.symm
        · rw [hres.frame1 d o1 (fun _ => o2)]; exact fb 1 (by omega)
        · rw [hres.frame2 d (fun _ => ⟨o1, o2⟩)]; exact fb 2 (by omega)
      have hne2 : ∀ g', g' ∈ rest → g'.1 ≠ m.β 2 g.1 := fun g' hg' e =>
        hcan g List.mem_cons_self g' (hsub g' hg') e.symm
      have hkeys1 : ∀ g', g' ∈ rest → C01.InUse m1 g'.1 ∧ g'.1 < off + 2 * len ∧ m1.β 1 g'.1 ≠ 0 := by
        intro g' hg'
        obtain ⟨a, b, c⟩ := hkeys g' (hsub g' hg')
        refine ⟨⟨a.1, by rw [inv.n_eq]; exact a.2.1, by unfold Map.unused; rw [inv.u_eq]; exact a.2.2⟩, by omega, ?_⟩
        rw [fr1 g'.1 b (hne_g g' hg') (hne2 g' hg')]; exact c
      have hcan1 : ∀ a, a ∈ rest → ∀ b, b ∈ rest → m1.β 2 a.1 ≠ b.1 := by
        intro a ha b hb
        rw [fr2 a.1 (hkeys a (hsub a ha)).2.1 (hne_g a ha) (hne2 a ha)]
        exact hcan a (hsub a ha) b (hsub b hb)
      -- the opposite dart of a later edge is neither of the two darts of this edge
      have hopp : ∀ g', g' ∈ rest → m.β 2 g'.1 ≠ g.1 ∧ m.β 2 g'.1 ≠ m.β 2 g.1 := by
        intro g' hg'
        refine ⟨hcan g' (hsub g' hg') g List.mem_cons_self, fun e => ?_⟩
        obtain ⟨ig', _, _⟩ := hkeys g' (hsub g' hg')
        have i1 := (hwf.invol 2 (by omega) (by omega) g'.1 ig'.2.1 (hlk g' (hsub g' hg')).1).1
        have i2 := (hwf.invol 2 (by omega) (by omega) g.1 ig.2.1 gb2).1
        rw [e, i2] at i1
        exact hne_g g' hg' i1.symm
      have hlk1 : ∀ g', g' ∈ rest → m1.β 2 g'.1 ≠ 0 ∧ m1.β 1 (m1.β 2 g'.1) ≠ 0 := by
        intro g' hg'
        obtain ⟨a, b, c⟩ := hkeys g' (hsub g' hg')
        obtain ⟨l2, l12⟩ := hlk g' (hsub g' hg')
        rw [fr2 g'.1 b (hne_g g' hg') (hne2 g' hg'),
          fr1 _ (hb2lt g' (hsub g' hg')) (hopp g' hg').1 (hopp g' hg').2]
        exact ⟨l2, l12⟩
      have frame01 : ∀ x P, x < off → Carries m x P → Carries m1 x P := fun x P hx hc =>
        carries_insert_frame hts hwf ig hlive h1 (Or.inl hx) hc
      have hval1 : ∀ g', g' ∈ rest → (∃ v, Carries m1 g'.1 v) ∧ ∃ v, Carries m1 (m1.β 1 g'.1) v := by
        intro g' hg'
        obtain ⟨a, b, c⟩ := hkeys g' (hsub g' hg')
        obtain ⟨⟨u1, hu1⟩, ⟨u2, hu2⟩⟩ := hval g' (hsub g' hg')
        have hb1lt : m.β 1 g'.1 < off :=
          not_fresh hfresh (hwf.range 1 (by omega) _ a.2.1) (by omega : 0 < 3) (by rw [hwf.inv01 _ a.2.1 c]; exact a.1)
        refine ⟨⟨u1, frame01 _ _ b hu1⟩, ⟨u2, ?_⟩⟩
        rw [fr1 g'.1 b (hne_g g' hg') (hne2 g' hg')]
        exact frame01 _ _ hb1lt hu2
      obtain ⟨m', r'⟩ := ih m1 (off + 2 * len) w1 (by rw [as1]; exact h0) hfresh1 (by rw [inv.n_eq]; omega) (by omega)
        hkeys1 (by simp only [List.map_cons, List.nodup_cons] at hnd; exact hnd.2) hcan1 hlk1
        (fun g' hg' => hts01 g' (hsub g' hg')) hval1
      refine ⟨m', ?_⟩
      simp only [List.map_cons, slicesFrom, List.zip_cons_cons, insertIntersections, Prog.bind_eq]
      rw [run_bind_of_ok h1, ← inv.n_eq]
      exact r'

/-- **C16, steps 2 + 3 are total** (partial: every crossed edge 2-linked with successors on both sides — interior grid
    edges, `HitDartsOK`).  For every iteration order of the `HashMap` (`KeysAreHitEdges`), on a well-formed map with a vertex
    storage, when every written slot has its position in `]0,1[` and the two end points of its dart carry a value,
    `intersection_darts` succeeds: no call of `insert_vertices_on_edge` is refused. -/
theorem C16_steps23_total_partial {m0 : Map Val} {slots : List Slot} {keys : List Nat} (hwf : WF 3 m0)
    (h0 : 0 < m0.a.size) (hhit : HitDartsOK m0 slots) (hk : KeysAreHitEdges (m0.β 2) slots keys)
    (ht : ∀ (K d : Nat) (t : Rat), slots[K]? = some (some (d, t)) → 0 < t ∧ t < 1)
    (hv : ∀ (K d : Nat) (t : Rat), slots[K]? = some (some (d, t)) →
      (∃ v, Carries m0 d v) ∧ ∃ v, Carries m0 (m0.β 1 d) v) :
    ∃ res m3, stepsTwoThree m0 slots keys = (res, .ok (), m3) := by
  obtain ⟨hnd, hkeys, hall⟩ := keysOK_of_hit_edges hwf hhit hk
  unfold stepsTwoThree
  simp only
  set hs := hitsOf (m0.β 2) slots with hhs
  set gs := groupsOf hs keys with hgs
  set tot := 2 * (gs.map (·.2.length)).sum with htot
  have hsz := hwf.toSized
  have hfst : (m0.addFreeDarts tot).1 = m0.n := rfl
  have hn1 : (m0.addFreeDarts tot).2.n = m0.n + tot := rfl
  have w1 : WF 3 (m0.addFreeDarts tot).2 := hwf.addFreeDarts (by omega) tot
  have eβ : ∀ i d, i < 3 → d < m0.n → (m0.addFreeDarts tot).2.β i d = m0.β i d := by
    intro i d hi hd; rw [addFreeDarts_β hsz tot i d hi, if_pos hd]
  have iu1 : ∀ {d}, C01.InUse m0 d → C01.InUse (m0.addFreeDarts tot).2 d := by
    intro d h
    exact ⟨h.1, by rw [hn1]; have := h.2.1; omega, by rw [addFreeDarts_unused hsz, if_pos h.2.1]; exact h.2.2⟩
  have hmemg : ∀ g, g ∈ gs → g.1 ∈ keys ∧ g.2 = groupOf hs g.1 := by
    intro g hg
    rw [hgs] at hg; unfold groupsOf at hg
    obtain ⟨e, he, rfl⟩ := List.mem_map.1 hg
    exact ⟨he, rfl⟩
  have hmap1 : gs.map (·.1) = keys := by
    rw [hgs]; unfold groupsOf; rw [List.map_map]
    exact List.map_id' _
  -- what a key is: the edge of a written slot
  have keyinfo : ∀ e, e ∈ keys → (m0.β 2 e ≠ 0 ∧ m0.β 1 (m0.β 2 e) ≠ 0) ∧
      ((∃ v, Carries m0 e v) ∧ ∃ v, Carries m0 (m0.β 1 e) v) := by
    intro e he
    obtain ⟨ie, eb1, _⟩ := hkeys e he
    obtain ⟨h, hh⟩ := (hk.2 e).1 he
    obtain ⟨K, d, t, hK, hx⟩ := (C16_hits_slot_numbers (m0.β 2) slots _).1 hh
    injection hx with hed _
    obtain ⟨hd, hb1, hb2, hb12⟩ := hhit K d t hK
    obtain ⟨⟨v1, c1⟩, ⟨v2, c2⟩⟩ := hv K d t hK
    by_cases hdd : e = d
    · subst hdd; exact ⟨⟨hb2, hb12⟩, ⟨v1, c1⟩, ⟨v2, c2⟩⟩
    · have heb : e = m0.β 2 d := by
        rw [hed]; unfold edgeOf
        by_cases hc : m0.β 2 d ≠ 0 ∧ m0.β 2 d < d
        · rw [if_pos hc]
        · rw [if_neg hc] at *; exact absurd (by rw [hed]; unfold edgeOf; rw [if_neg hc]) hdd
      have hi2 := hwf.invol 2 (by omega) (by omega) d hd.2.1 hb2
      have hb2e : m0.β 2 e = d := by rw [heb]; exact hi2.1
      refine ⟨⟨by rw [hb2e]; exact hd.1, by rw [hb2e]; exact hb1⟩, ⟨v2, ie, ?_⟩, ⟨v1, inUse_image hwf (by omega) ie.2.1 eb1, ?_⟩⟩
      · have := cellId_b1b2 hwf ie.1 ie.2.1 (by rw [hb2e]; exact hb1)
        rw [hb2e] at this
        rw [← this]; exact c2.2
      · have := cellId_b1b2 hwf hd.1 hd.2.1 (by rw [← heb]; exact eb1)
        rw [← heb] at this
        rw [this]; exact c1.2
  obtain ⟨m3, r⟩ := insertIntersections_total gs (m0.addFreeDarts tot).2 m0.n w1
    (by simp only [Map.addFreeDarts, Array.size_map]; exact h0)
    (by intro d hd hdn
        refine ⟨by rw [addFreeDarts_unused hsz, if_neg (by omega)], fun i hi => ?_⟩
        rw [addFreeDarts_β hsz tot i d hi, if_neg (by omega)])
    (by rw [hn1]) hsz.npos
    (by intro g hg
        obtain ⟨a, b, _⟩ := hkeys g.1 (hmemg g hg).1
        exact ⟨iu1 a, a.2.1, by rw [eβ 1 _ (by omega) a.2.1]; exact b⟩)
    (by rw [hmap1]; exact hnd)
    (by intro g hg g' hg'
        obtain ⟨a, _, c⟩ := hkeys g.1 (hmemg g hg).1
        obtain ⟨a', _, c'⟩ := hkeys g'.1 (hmemg g' hg').1
        rw [eβ 2 _ (by omega) a.2.1]
        exact canonical_not_opposite hwf a a'.1 c c')
    (by intro g hg
        obtain ⟨a, _, _⟩ := hkeys g.1 (hmemg g hg).1
        obtain ⟨⟨l2, l12⟩, _⟩ := keyinfo g.1 (hmemg g hg).1
        rw [eβ 2 _ (by omega) a.2.1, eβ 1 _ (by omega) (hwf.range 2 (by omega) _ a.2.1)]
        exact ⟨l2, l12⟩)
    (by intro g hg h hh
        rw [(hmemg g hg).2] at hh
        obtain ⟨K, d, t, hK, hx⟩ := (C16_hits_slot_numbers (m0.β 2) slots _).1 (mem_groupOf.1 hh)
        injection hx with _ hh'
        have := ht K d t hK
        rw [hh']; simp only
        split
        · constructor <;> linarith
        · exact this)
    (by intro g hg
        obtain ⟨a, _, _⟩ := hkeys g.1 (hmemg g hg).1
        obtain ⟨_, ⟨v1, c1⟩, ⟨v2, c2⟩⟩ := keyinfo g.1 (hmemg g hg).1
        exact ⟨⟨v1, carries_addFreeDarts hwf tot c1⟩,
          ⟨v2, by rw [eβ 1 _ (by omega) a.2.1]; exact carries_addFreeDarts hwf tot c2⟩⟩)
  rw [hfst, r]
  exact ⟨_, _, rfl⟩

end HC.C16
